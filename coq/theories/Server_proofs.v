(* Server_proofs.v — the property theorems about the server model (C13-server, C07, C06, C15-server). *)
From BS Require Import Server Server_lemmas Server_inv.
From Coq Require Import ZArith ZifyBool ZifyN ZifyNat Lia Permutation.
Open Scope N_scope.

(* ---------------------------------------------------------------- test material for the examples *)
Definition ex_cid (n : N) : cid := MkCid V1 85 (MkMh 18 [n / 256; n mod 256; 7]).
Definition ex_want (c : cid) : entry := MkEntry (cid_to_bytes c) 1 false WTBlock false.
Definition ex_cancel (c : cid) : entry := MkEntry (cid_to_bytes c) 1 true WTBlock false.
Definition ex_junk : entry := MkEntry [9; 9] 0 false WTBlock false.        (* not a CID *)
Fixpoint ex_range (from : N) (n : nat) : list N :=
  match n with O => [] | Datatypes.S n' => from :: ex_range (from + 1) n' end.

Definition wants_of (st : sstate) (p : peer) : option (list cid) := alookup N.eqb p (s_wants st).
Definition waiters_of (st : sstate) (c : cid) : option (list peer) := alookup cid_eqb c (s_waiting st).

(* ================================================================ C13 (cap) *)
(* The want set the server keeps for a peer is duplicate-free and never has more than 1024 elements,
   whatever mix of update and full wantlists was received. *)
Theorem C13_cap : forall Sz ops p s,
  wants_of (snd (srun Sz ops)) p = Some s -> NoDup s /\ len s <= MAX_WANTLIST_ENTRIES_PER_PEER.
Proof.
  intros Sz ops p s H. destruct (srun_inv Sz ops) as ((_ & Hs) & _). exact (Hs p s H).
Qed.

(* non-vacuity: 1030 distinct wants in one update, and again in a full wantlist: exactly 1024 kept *)
Definition ex_many : list entry := map (fun n => ex_want (ex_cid n)) (ex_range 0 1030).

Example C13_cap_ex_update :
  option_map len (wants_of (snd (srun 64 [SNewConn 1; SMsg 1 (MkWantlist ex_many false) []])) 1) = Some 1024.
Proof. vm_compute. reflexivity. Qed.

Example C13_cap_ex_full :
  option_map len (wants_of (snd (srun 64 [SNewConn 1; SMsg 1 (MkWantlist (ex_junk :: ex_many) true) []])) 1)
  = Some 1024.
Proof. vm_compute. reflexivity. Qed.

Lemma srun_snd Sz ops : snd (srun Sz ops) = snd (srun_l Sz ops).
Proof. rewrite srun_erase. reflexivity. Qed.

(* for S >= 32 (every real instantiation: a CIDv0 needs 32 bytes) the model never reaches the panic flag *)
Theorem server_no_panic : forall Sz ops, 32 <= Sz -> s_panic (snd (srun Sz ops)) = false.
Proof. intros Sz ops HS. rewrite srun_snd. apply srun_l_no_panic, HS. Qed.

(* ================================================================ C13 (release, proportionality) *)
(* After on_peer_disconnected(p), and until p connects again, the server keeps no want set for p and
   p is in no waiter list. *)
Theorem C13_server_released : forall Sz ops1 ops2 p,
  (forall op, In op ops2 -> op <> SNewConn p) ->
  let st := snd (srun Sz (ops1 ++ SDisconnected p :: ops2)) in
  s_panic st = false ->
  wants_of st p = None /\ (forall c l, waiters_of st c = Some l -> ~ In p l).
Proof.
  intros Sz ops1 ops2 p Hno st Hp. subst st. rewrite srun_snd in *.
  pose proof (keys_connected _ _ Hp) as Hk. pose proof (connected_released ops1 p ops2 Hno) as Hni.
  rewrite <- Hk in Hni.
  assert (Hw : wants_of (snd (srun_l Sz (ops1 ++ SDisconnected p :: ops2))) p = None).
  { apply (alookup_None N.eqb Neqb_spec). assumption. }
  split; [assumption|]. intros c l Hl Hin.
  pose proof (srun_inv Sz (ops1 ++ SDisconnected p :: ops2)) as (_ & _ & HL). rewrite srun_snd in HL.
  assert (Hx : waitsP (s_waiting (snd (srun_l Sz (ops1 ++ SDisconnected p :: ops2)))) p c) by (exists l; auto).
  apply HL in Hx. destruct Hx as (s & Hs & _). unfold wants_of in Hw. congruence.
Qed.

Lemma concat_len_bound (wants : list (peer * list cid)) :
  (forall p s, In (p, s) wants -> len s <= MAX_WANTLIST_ENTRIES_PER_PEER) ->
  len (concat (map snd wants)) <= MAX_WANTLIST_ENTRIES_PER_PEER * len wants.
Proof.
  induction wants as [|[p s] wants IH]; intros H; cbn [map concat].
  - rewrite !len_nil. lia.
  - rewrite len_app, len_cons. specialize (H p s (or_introl eq_refl)) as Hs.
    assert (IH' := IH (fun q t Hin => H q t (or_intror Hin))). cbn [snd]. lia.
Qed.

(* The server state is proportional to the set of connected peers: exactly one want set per
   connected peer (each at most 1024 CIDs by C13_cap), waiter lists are non-empty, duplicate-free,
   mention connected peers only, and there are at most 1024 * #connected of them. *)
Theorem C13_server_proportional : forall Sz ops,
  let st := snd (srun Sz ops) in
  s_panic st = false ->
  map fst (s_wants st) = connected ops /\ NoDup (connected ops) /\
  len (s_wants st) = len (connected ops) /\
  (forall c l, waiters_of st c = Some l -> NoDup l /\ l <> [] /\ forall q, In q l -> In q (connected ops)) /\
  NoDup (map fst (s_waiting st)) /\
  len (s_waiting st) <= MAX_WANTLIST_ENTRIES_PER_PEER * len (connected ops).
Proof.
  intros Sz ops st Hp. subst st. pose proof (srun_inv Sz ops) as ((Hk & Hs) & (Htk & Htl) & HL).
  rewrite srun_snd in *. pose proof (keys_connected _ _ Hp) as Hc.
  set (st := snd (srun_l Sz ops)) in *.
  assert (Hlen : len (s_wants st) = len (connected ops)).
  { rewrite <- Hc. unfold len. rewrite map_length. reflexivity. }
  split; [assumption|]. split; [rewrite <- Hc; assumption|]. split; [assumption|]. split; [|split; [assumption|]].
  - intros c l Hl. destruct (Htl _ _ Hl) as [H1 H2]. split; [assumption|]. split; [assumption|].
    intros q Hq. assert (Hx : waitsP (s_waiting st) q c) by (exists l; auto).
    apply HL in Hx. destruct Hx as (s & Hs1 & _). rewrite <- Hc.
    apply (alookup_Some_key N.eqb Neqb_spec) in Hs1. assumption.
  - rewrite <- Hlen. etransitivity; [|apply concat_len_bound].
    + assert (Hincl : incl (map fst (s_waiting st)) (concat (map snd (s_wants st)))).
      { intros c Hc'. apply in_map_iff in Hc'. destruct Hc' as ([c' l] & <- & Hin). cbn [fst].
        apply (In_alookup cid_eqb cid_eqb_spec) in Hin; [|assumption].
        destruct (Htl _ _ Hin) as [_ Hne]. destruct l as [|q l]; [congruence|].
        assert (Hx : waitsP (s_waiting st) q c') by (exists (q :: l); cbn; auto).
        apply HL in Hx. destruct Hx as (s & Hs1 & Hs2). apply in_concat. exists s. split; [|assumption].
        apply (alookup_Some_In N.eqb Neqb_spec) in Hs1. apply in_map_iff. exists (q, s). auto. }
      pose proof (NoDup_incl_length Htk Hincl) as Hle. unfold len. rewrite map_length in Hle. lia.
    + intros p s Hin. apply (In_alookup N.eqb Neqb_spec) in Hin; [|assumption]. apply (Hs _ _ Hin).
Qed.

Definition ex_ops_c13 : list sop :=
  [ SNewConn 1; SNewConn 2; SNewConn 3;
    SMsg 1 (MkWantlist [ex_want (ex_cid 1); ex_want (ex_cid 2)] false) [];
    SMsg 2 (MkWantlist [ex_want (ex_cid 2); ex_want (ex_cid 3)] true) [ex_cid 3; ex_cid 2];
    SPoll; SDisconnected 2; SRelease 0 SMiss; SPoll ].

Example C13_server_released_ex :
  let st := snd (srun 64 ex_ops_c13) in
  s_panic st = false /\ connected ex_ops_c13 = [1; 3] /\ wants_of st 2 = None /\
  waiters_of st (ex_cid 2) = Some [1] /\ waiters_of st (ex_cid 3) = None /\ tasks_len st = 2.
Proof. vm_compute. repeat split; reflexivity. Qed.

(* ================================================================ Srv_inv *)
(* In every reachable state: p is in the waiter list of c exactly when c is in p's want set; waiter
   lists are duplicate-free and non-empty; the want set of p is the reference view `sview`. *)
Theorem Srv_inv : forall Sz ops,
  let st := snd (srun Sz ops) in
  (forall p c, (exists l, waiters_of st c = Some l /\ In p l) <-> (exists s, wants_of st p = Some s /\ In c s)) /\
  (forall c l, waiters_of st c = Some l -> NoDup l /\ l <> []) /\
  (s_panic st = false -> forall p, wants_of st p = sview Sz p (fst (srun_l Sz ops))).
Proof.
  intros Sz ops st. subst st. pose proof (srun_inv Sz ops) as (_ & (_ & Htl) & HL).
  split; [exact HL|]. split; [exact Htl|]. intros Hp p. rewrite srun_snd in *. apply wants_sview, Hp.
Qed.

(* ================================================================ C07 *)
Lemma bsorted_NoDup bat : bsorted bat -> NoDup (map fst bat).
Proof.
  induction bat as [|[k l] bat IH]; cbn; [constructor|]. intros [Hk Hs]. constructor; [|auto].
  intros Hin. specialize (Hk _ Hin). lia.
Qed.

Lemma sstep_l_outputs Sz st op o :
  In o (snd (sstep_l Sz st op)) -> s_panic st = false /\ op = SPoll.
Proof.
  unfold sstep_l. destruct (s_panic st); [intros []|].
  destruct op; cbn [snd]; try (intros []). auto.
Qed.

(* what a poll sends, in terms of the state before it *)
Lemma poll_sends st p bl :
  Inv st -> In (LSend p bl) (snd (do_poll st)) ->
  exists wants' wt' bat st1 out1,
    do_poll st = (MkS wants' wt' [] [] (s_blocked st1) (s_next_call st1) (s_panic st) (s_bad_order st),
                  out1 ++ map send_of bat) /\
    fold_left run_task (s_ready st) (poll_start st, []) = (st1, out1) /\
    UH (s_wants st) (s_outq st ++ finished_hits (s_ready st)) (wants', wt', bat) /\
    bget p bat = bl /\ bl <> [] /\
    (forall bl', In (LSend p bl') (snd (do_poll st)) -> bl' = bl).
Proof.
  intros HI Hin. destruct (do_poll_spec st HI) as (st1 & out1 & wants' & wt' & bat & Hf & Hdp & HU & Hg).
  exists wants', wt', bat, st1, out1. split; [assumption|]. split; [assumption|]. split; [assumption|].
  rewrite Hdp in *. cbn [snd] in *.
  assert (Hnd : NoDup (map fst bat)) by (apply bsorted_NoDup, (uh_sorted _ _ _ HU)).
  assert (Hsend : forall bl', In (LSend p bl') (out1 ++ map send_of bat) -> alookup N.eqb p bat = Some bl').
  { intros bl' H. rewrite in_app_iff in H. destruct H as [H|H].
    - destruct (Hg _ H) as (k & c & Hk). discriminate.
    - apply in_map_iff in H. destruct H as ([q l] & Hq & Hl). injection Hq as -> ->.
      apply (In_alookup N.eqb Neqb_spec); assumption. }
  pose proof (Hsend _ Hin) as Hl. split; [unfold bget; rewrite Hl; reflexivity|]. split.
  - apply (alookup_Some_In N.eqb Neqb_spec) in Hl. apply (uh_nonempty _ _ _ HU _ _ Hl).
  - intros bl' H. apply Hsend in H. congruence.
Qed.

(* Every block the server sends to p is for a CID that was in the reference view of p's wants
   immediately before that poll, and is no longer in it afterwards; one poll sends p at most one
   message, and that message contains a CID at most once. *)
Theorem C07_only_owed : forall Sz ops op p bl c d,
  let hist := fst (srun_l Sz ops) in
  let out := snd (sstep_l Sz (snd (srun_l Sz ops)) op) in
  In (LSend p bl) out -> In (c, d) bl ->
  (exists s, sview Sz p hist = Some s /\ In c s) /\
  (exists s', sview Sz p (hist ++ [(op, out)]) = Some s' /\ ~ In c s') /\
  NoDup (map fst bl) /\
  (forall bl', In (LSend p bl') out -> bl' = bl).
Proof.
  intros Sz ops op p bl c d hist out Hsend Hcd. subst hist out.
  destruct (sstep_l_outputs _ _ _ _ Hsend) as [Hp ->].
  pose proof (srun_l_from_inv Sz ops sinit sinit_inv) as HI. fold (srun_l Sz ops) in HI.
  set (st := snd (srun_l Sz ops)) in *.
  assert (Hstep : sstep_l Sz st SPoll = do_poll st) by (unfold sstep_l; rewrite Hp; reflexivity).
  rewrite Hstep in *.
  destruct (poll_sends st p bl HI Hsend) as (wants' & wt' & bat & st1 & out1 & Hdp & _ & HU & Hget & _ & Huniq).
  assert (Hcd' : In (c, d) (bget p bat)) by (rewrite Hget; assumption).
  destruct (uh_from _ _ _ HU p (c, d) Hcd') as [_ (s & Hs & Hin)]. cbn [fst] in Hin.
  pose proof (wants_sview Sz ops p Hp) as Hv. fold st in Hv.
  split; [exists s; rewrite <- Hv; auto|]. split; [|split].
  - rewrite sview_snoc, <- Hv, <- Hstep, <- sstep_l_view; [|assumption|rewrite Hstep, do_poll_panic; assumption].
    rewrite Hstep, Hdp. cbn [fst s_wants]. pose proof (uh_wants _ _ _ HU p) as Hw. cbn [fst snd] in Hw.
    rewrite Hw, Hs, Hget. cbn [option_map]. eexists. split; [reflexivity|].
    rewrite rm_blocks_In. intros [_ Hni]. apply Hni. apply in_map_iff. exists (c, d). auto.
  - rewrite <- Hget. apply (uh_nodup _ _ _ HU).
  - exact Huniq.
Qed.

(* The observable output is the erasure of the labelled one: the prefix sent with a block is
   CidPrefix::from_cid(cid).to_bytes() of the CID the block was queued for. *)
Theorem C07_prefix : forall Sz st op p blocks,
  In (OSend p blocks) (snd (sstep Sz st op)) ->
  exists bl, In (LSend p bl) (snd (sstep_l Sz st op)) /\
             blocks = map (fun b => (prefix_to_bytes (prefix_of_cid (fst b)), snd b)) bl.
Proof.
  intros Sz st op p blocks. unfold sstep. destruct (sstep_l Sz st op) as [st' out]. cbn [snd].
  intros H. apply in_map_iff in H. destruct H as (o & Ho & Hin). destruct o as [k c|q bl]; [discriminate|].
  cbn in Ho. injection Ho as -> <-. exists bl. split; [assumption|reflexivity].
Qed.

(* ---------------------------------------------------------------- provenance of the data sent *)
Definition hist_t := list (sop * list lout).

Definition no_release_of (k : N) (h : hist_t) : Prop := forall r o, ~ In (SRelease k r, o) h.

(* call k is a get of c that was started and has not been released since *)
Definition started (hist : hist_t) (k : N) (c : cid) : Prop :=
  exists h1 op1 o1 h2, hist = h1 ++ (op1, o1) :: h2 /\ In (LGet k c) o1 /\ no_release_of k h2.

(* call k is a get of c, and the first release after its start completed it with result r *)
Definition released_with (hist : hist_t) (k : N) (c : cid) (r : store_result) : Prop :=
  exists h1 op1 o1 h2 o2 h3,
    hist = h1 ++ (op1, o1) :: h2 ++ (SRelease k r, o2) :: h3 /\ In (LGet k c) o1 /\ no_release_of k h2.

Definition from_store (hist : hist_t) (c : cid) (d : bytes) : Prop := exists k, released_with hist k c (SHit d).
Definition from_network (hist : hist_t) (c : cid) (d : bytes) : Prop :=
  exists bl o, In (SNewBlocks bl, o) hist /\ In (c, d) bl.
Definition prov (hist : hist_t) (c : cid) (d : bytes) : Prop := from_store hist c d \/ from_network hist c d.

Lemma released_with_mono hist x k c r : released_with hist k c r -> released_with (hist ++ [x]) k c r.
Proof.
  intros (h1 & op1 & o1 & h2 & o2 & h3 & -> & H1 & H2).
  exists h1, op1, o1, h2, o2, (h3 ++ [x]). split; [|auto].
  rewrite <- !app_assoc. cbn. rewrite <- app_assoc. reflexivity.
Qed.

Lemma prov_mono hist x c d : prov hist c d -> prov (hist ++ [x]) c d.
Proof.
  intros [(k & H)|(bl & o & H1 & H2)].
  - left. exists k. apply released_with_mono, H.
  - right. exists bl, o. rewrite in_app_iff. auto.
Qed.

Lemma started_mono hist x k c :
  started hist k c -> (forall r o, x <> (SRelease k r, o)) -> started (hist ++ [x]) k c.
Proof.
  intros (h1 & op1 & o1 & h2 & -> & H1 & H2) Hx. exists h1, op1, o1, (h2 ++ [x]).
  split; [rewrite <- app_assoc; reflexivity|]. split; [assumption|].
  intros r o Hin. rewrite in_app_iff in Hin. destruct Hin as [Hin|[Hin|[]]]; [apply (H2 r o Hin)|].
  apply (Hx r o). assumption.
Qed.

Lemma started_release hist k c r o : started hist k c -> released_with (hist ++ [(SRelease k r, o)]) k c r.
Proof.
  intros (h1 & op1 & o1 & h2 & -> & H1 & H2). exists h1, op1, o1, h2, o, [].
  split; [rewrite <- app_assoc; reflexivity|auto].
Qed.

Record PV (st : sstate) (hist : hist_t) : Prop := {
  pv_outq : forall c d, In (c, d) (s_outq st) -> prov hist c d;
  pv_ready : forall t c d, In t (s_ready st) -> In (c, SHit d) (t_done t) -> prov hist c d;
  pv_blocked : forall k c t, In (k, (c, t)) (s_blocked st) ->
               started hist k c /\ forall c' d, In (c', SHit d) (t_done t) -> prov hist c' d
}.

Lemma finished_hits_In ready c d :
  In (c, d) (finished_hits ready) -> exists t, In t ready /\ t_todo t = [] /\ In (c, SHit d) (t_done t).
Proof.
  unfold finished_hits. rewrite in_flat_map. intros (t & Ht & Hin). exists t. split; [assumption|].
  destruct (t_todo t); [|destruct Hin]. split; [reflexivity|]. apply hits_In. assumption.
Qed.

Lemma PV_frame st st' hist op :
  PV st hist -> (forall k r, op <> SRelease k r) ->
  s_outq st' = s_outq st -> s_blocked st' = s_blocked st ->
  (forall t, In t (s_ready st') -> In t (s_ready st) \/ t_done t = []) ->
  PV st' (hist ++ [(op, [])]).
Proof.
  intros [H1 H2 H3] Hop Eq Eb Hr. constructor.
  - rewrite Eq. intros c d H. apply prov_mono, H1, H.
  - intros t c d Ht Hin. destruct (Hr t Ht) as [Ht'|E]; [|rewrite E in Hin; destruct Hin].
    apply prov_mono. eapply H2; eassumption.
  - rewrite Eb. intros k c t Hin. destruct (H3 k c t Hin) as [Hs Hd]. split.
    + apply started_mono; [assumption|]. intros r o [= E _]. apply (Hop k r). assumption.
    + intros c' d Hc'. apply prov_mono, Hd, Hc'.
Qed.

Lemma PV_step Sz st hist op :
  Inv st -> s_panic st = false -> PV st hist ->
  PV (fst (sstep_l Sz st op)) (hist ++ [(op, snd (sstep_l Sz st op))]).
Proof.
  intros HI Hp HPV. unfold sstep_l. rewrite Hp. destruct op as [q|q w order|bl|q|k r|]; cbn [fst snd].
  - apply (PV_frame st); try assumption; try discriminate.
    + unfold new_connection. destruct (alookup N.eqb q (s_wants st)); reflexivity.
    + unfold new_connection. destruct (alookup N.eqb q (s_wants st)); reflexivity.
    + unfold new_connection. destruct (alookup N.eqb q (s_wants st)); auto.
  - unfold process_incoming_message.
    destruct (alookup N.eqb q (s_wants st)) as [old|].
    2:{ apply (PV_frame st); try assumption; try discriminate; auto. }
    destruct (process_wantlist Sz old w) as [|new adds rems].
    { apply (PV_frame st); try assumption; try discriminate; auto. }
    apply (PV_frame st); try assumption; try discriminate; try reflexivity.
    cbn [s_ready]. intros t Ht. rewrite in_app_iff in Ht. destruct Ht as [Ht|[<-|[]]]; auto.
  - destruct HPV as [H1 H2 H3]. constructor; cbn [new_blocks_available s_outq s_ready s_blocked].
    + intros c d Hin. rewrite in_app_iff in Hin. destruct Hin as [Hin|Hin].
      * apply prov_mono, H1, Hin.
      * right. exists bl, []. rewrite in_app_iff. cbn. auto.
    + intros t c d Ht Hin. apply prov_mono. eapply H2; eassumption.
    + intros k c t Hin. destruct (H3 k c t Hin) as [Hs Hd]. split.
      * apply started_mono; [assumption|]. intros r o. discriminate.
      * intros c' d Hc'. apply prov_mono, Hd, Hc'.
  - apply (PV_frame st); try assumption; try discriminate.
    + unfold peer_disconnected. destruct (alookup N.eqb q (s_wants st)); reflexivity.
    + unfold peer_disconnected. destruct (alookup N.eqb q (s_wants st)); reflexivity.
    + unfold peer_disconnected. destruct (alookup N.eqb q (s_wants st)); auto.
  - destruct HPV as [H1 H2 H3]. unfold release.
    destruct (alookup N.eqb k (s_blocked st)) as [[c t]|] eqn:E.
    + pose proof (alookup_Some_In N.eqb Neqb_spec _ _ _ E) as Hin.
      destruct (H3 _ _ _ Hin) as [Hs Hd].
      constructor; cbn [s_outq s_ready s_blocked].
      * intros c' d Hc'. apply prov_mono, H1, Hc'.
      * intros t' c' d Ht' Hc'. rewrite in_app_iff in Ht'. destruct Ht' as [Ht'|[<-|[]]].
        -- apply prov_mono. eapply H2; eassumption.
        -- cbn [t_done] in Hc'. rewrite in_app_iff in Hc'. destruct Hc' as [Hc'|[Hc'|[]]].
           ++ apply prov_mono, Hd, Hc'.
           ++ injection Hc' as <- ->. left. exists k. apply started_release. assumption.
      * intros k' c' t' Hin'. unfold adel in Hin'. apply filter_In in Hin'. destruct Hin' as [Hin' Hne].
        cbn [fst] in Hne. destruct (H3 _ _ _ Hin') as [Hs' Hd']. split.
        -- apply started_mono; [assumption|]. intros r' o [= -> _ _]. rewrite N.eqb_refl in Hne. discriminate.
        -- intros c'' d Hc''. apply prov_mono, Hd', Hc''.
    + constructor.
      * intros c' d Hc'. apply prov_mono, H1, Hc'.
      * intros t' c' d Ht' Hc'. apply prov_mono. eapply H2; eassumption.
      * intros k' c' t' Hin'. destruct (H3 _ _ _ Hin') as [Hs' Hd']. split.
        -- apply started_mono; [assumption|]. intros r' o [= -> _ _].
           apply (alookup_None N.eqb Neqb_spec) in E. apply E. apply (in_map fst) in Hin'. exact Hin'.
        -- intros c'' d Hc''. apply prov_mono, Hd', Hc''.
  - destruct HPV as [H1 H2 H3].
    destruct (do_poll_spec st HI) as (st1 & out1 & wants' & wt' & bat & Hf & Hdp & HU & Hg).
    rewrite Hdp. cbn [fst snd]. constructor; cbn [s_outq s_ready s_blocked].
    + intros c d [].
    + intros t c d [].
    + intros k c t' Hin.
      pose proof (fold_run_task_blocked_inv (s_ready st) (poll_start st) [] k c t') as Hb.
      rewrite Hf in Hb. cbn [fst snd poll_start s_blocked] in Hb. destruct (Hb Hin) as [Hold|(t & Ht & _ & Hdone & _ & Hget)].
      * destruct (H3 _ _ _ Hold) as [Hs Hd]. split.
        -- apply started_mono; [assumption|]. intros r o. discriminate.
        -- intros c' d Hc'. apply prov_mono, Hd, Hc'.
      * split.
        -- exists hist, SPoll, (out1 ++ map send_of bat), []. split; [reflexivity|]. split.
           ++ rewrite in_app_iff. auto.
           ++ intros r o [].
        -- intros c' d Hc'. rewrite Hdone in Hc'. apply prov_mono. eapply H2; eassumption.
Qed.

Lemma PV_reach Sz ops :
  s_panic (snd (srun_l Sz ops)) = false -> PV (snd (srun_l Sz ops)) (fst (srun_l Sz ops)).
Proof.
  induction ops as [|op ops IH] using rev_ind; intros Hp.
  - constructor; cbn; intros; contradiction.
  - pose proof (srun_l_snoc_panic _ _ _ Hp) as Hp0. rewrite srun_l_snoc. cbn [fst snd].
    apply PV_step; auto. apply srun_l_from_inv, sinit_inv.
Qed.

(* The data sent with a block for c is the data of a store hit released for a get of c, or the
   data of a new_blocks_available entry for c — in the history before the poll that sends it. *)
Theorem C07_bytes_exact : forall Sz ops op p bl c d,
  let hist := fst (srun_l Sz ops) in
  let out := snd (sstep_l Sz (snd (srun_l Sz ops)) op) in
  In (LSend p bl) out -> In (c, d) bl ->
  (exists k, released_with hist k c (SHit d)) \/
  (exists bl0 o, In (SNewBlocks bl0, o) hist /\ In (c, d) bl0).
Proof.
  intros Sz ops op p bl c d hist out Hsend Hcd. subst hist out.
  destruct (sstep_l_outputs _ _ _ _ Hsend) as [Hp ->].
  pose proof (srun_l_from_inv Sz ops sinit sinit_inv) as HI. fold (srun_l Sz ops) in HI.
  pose proof (PV_reach Sz ops Hp) as [H1 H2 H3].
  set (st := snd (srun_l Sz ops)) in *.
  assert (Hstep : sstep_l Sz st SPoll = do_poll st) by (unfold sstep_l; rewrite Hp; reflexivity).
  rewrite Hstep in *.
  destruct (poll_sends st p bl HI Hsend) as (wants' & wt' & bat & st1 & out1 & Hdp & _ & HU & Hget & _ & _).
  assert (Hcd' : In (c, d) (bget p bat)) by (rewrite Hget; assumption).
  destruct (uh_from _ _ _ HU p (c, d) Hcd') as [Hq _]. rewrite in_app_iff in Hq.
  change (prov (fst (srun_l Sz ops)) c d). destruct Hq as [Hq|Hq].
  - apply H1, Hq.
  - apply finished_hits_In in Hq. destruct Hq as (t & Ht & _ & Hin). eapply H2; eassumption.
Qed.

(* ---------------------------------------------------------------- the running example *)
(* two peers, overlapping wants (c2), an unparsable entry, a cancel+want of c2 in one update, a hit,
   a miss and a failure *)
Definition c1 := ex_cid 1.
Definition c2 := ex_cid 2.
Definition c3 := ex_cid 3.

Definition ex_ops_before_poll : list sop :=
  [ SNewConn 1; SNewConn 2;
    SMsg 1 (MkWantlist [ex_want c1; ex_want c2] false) [];
    SMsg 2 (MkWantlist [ex_want c2; ex_want c3; ex_junk] true) [c3; c2];
    SPoll;                                               (* get 0 = c1 (peer 1), get 1 = c3 (peer 2) *)
    SMsg 1 (MkWantlist [ex_cancel c2; ex_want c2] false) [];
    SRelease 0 (SHit [10]); SRelease 1 SMiss;
    SPoll;                                               (* gets 2,3,4 = c2 (three tasks) *)
    SRelease 2 (SHit [20]); SRelease 3 SFail; SRelease 4 SMiss ].

Definition ex_ops_main : list sop := ex_ops_before_poll ++ [SPoll].

Example ex_main_outputs :
  map snd (fst (srun_l 64 ex_ops_main)) =
  [ []; []; []; []; [LGet 0 c1; LGet 1 c3]; []; []; []; [LGet 2 c2; LGet 3 c2; LGet 4 c2]; []; []; [];
    [LSend 1 [(c2, [20]); (c1, [10])]; LSend 2 [(c2, [20])]] ].
Proof. vm_compute. reflexivity. Qed.

Example ex_main_observable :
  nth 12 (fst (srun 64 ex_ops_main)) [] =
  [ OSend 1 [([1; 85; 18; 3], [20]); ([1; 85; 18; 3], [10])]; OSend 2 [([1; 85; 18; 3], [20])] ].
Proof. vm_compute. reflexivity. Qed.

Example Srv_inv_ex :
  let st := snd (srun 64 ex_ops_before_poll) in
  s_panic st = false /\
  wants_of st 1 = Some [c1; c2] /\ wants_of st 2 = Some [c2; c3] /\
  waiters_of st c2 = Some [2; 1] /\ waiters_of st c1 = Some [1] /\ waiters_of st c3 = Some [2] /\
  sview 64 1 (fst (srun_l 64 ex_ops_before_poll)) = Some [c1; c2] /\
  sview 64 2 (fst (srun_l 64 ex_ops_before_poll)) = Some [c2; c3].
Proof. vm_compute. repeat split; reflexivity. Qed.

Example C07_ex :
  let out := snd (sstep_l 64 (snd (srun_l 64 ex_ops_before_poll)) SPoll) in
  In (LSend 1 [(c2, [20]); (c1, [10])]) out /\ In (c2, [20]) [(c2, [20]); (c1, [10])] /\
  released_with (fst (srun_l 64 ex_ops_before_poll)) 2 c2 (SHit [20]) /\
  sview 64 1 (fst (srun_l 64 ex_ops_main)) = Some [] /\ sview 64 2 (fst (srun_l 64 ex_ops_main)) = Some [c3].
Proof.
  split; [vm_compute; auto|]. split; [cbn; auto|]. split; [|split; vm_compute; reflexivity].
  unfold released_with.
  exists (firstn 8 (fst (srun_l 64 ex_ops_before_poll))), SPoll, [LGet 2 c2; LGet 3 c2; LGet 4 c2],
    [], [], (skipn 10 (fst (srun_l 64 ex_ops_before_poll))).
  split; [vm_compute; reflexivity|]. split; [cbn; auto|]. intros r o [].
Qed.
