(* Net_proofs45.v — package K: C17 and C04 at the network level, through the client ghost (Net_proofs40), the wire ghost
   (Net_proofs42) and the Client.v -> Wantlist.v history link (Net_proofs44).
   C17: a WANT_BLOCK entry goes to a peer only after that peer announced HAVE (Props_C17).  Beetswap nodes never send
   presences to each other (a server answers with blocks only), so in a net of beetswap nodes NO wantlist message ever
   carries a WANT_BLOCK entry: every entry on the wire is WANT_HAVE or CANCEL.
   C04: every peer entry of every node of a reachable net is a state of the history model of Props_C04, with a history that
   has no presence events; so view_sound / view_complete hold for it, with an empty DONT_HAVE set. *)
From BS Require Import Types Wantlist Client Wantlist_proofs Wantlist_proofs2 Client_proofs Client_proofs2 Client_proofs3 Client_proofs4
  Net Net_proofs2 Net_proofs3 Net_proofs6 Net_proofs9 Net_proofs10 Net_proofs40 Net_proofs42 Net_proofs44.
From Coq Require Import ZArith ZifyBool ZifyN ZifyNat Lia.
Open Scope N_scope.

Section NoPresences.
  Variables (Sz : N) (Hh : hash_fn).
  Local Notation cl_ops := (cl_ops Sz Hh).
  Local Notation cops_run := (cops_run Sz Hh).
  Local Notation wsent_run := (wsent_run Sz Hh).

  (* what a block batch is parsed to has no presences *)
  Lemma inc_cops_blocks_no_pres q B p pres bl : In (CIncoming p pres bl) (inc_cops Sz Hh q (blocks_message B)) -> pres = [].
  Proof.
    unfold inc_cops, process_message, blocks_message. cbn [m_presences m_payload m_wantlist pm_presences].
    destruct (pm_payload Sz Hh _ [] false) as [[[acc touched]|]|]; try (intros []; fail).
    destruct touched; cbn [in_client]; [|intros []]. intros [[= _ <- _]|[]]. reflexivity.
  Qed.

  Lemma cl_ops_no_pres s o i p pres bl : In (CIncoming p pres bl) (cl_ops s o i) -> pres = [].
  Proof.
    destruct o; cbn [Net_proofs40.cl_ops].
    - destruct (get_node s i0); [|intros []]. destruct (get_node s j); [|intros []]. destruct ((i0 =? j) || Net.connected s i0 j); [intros []|].
      destruct (i =? j); [intros [[=]|[]]|]. destruct (i =? i0); [intros [[=]|[]] | intros []].
    - destruct (get_node s i0); [|intros []]. destruct (get_node s j); [|intros []]. destruct (Net.connected s i0 j); [|intros []].
      destruct (i =? j); [intros [[=]|[]]|]. destruct (i =? i0); [intros [[=]|[]] | intros []].
    - destruct (i =? i0); [intros [[=]|[]] | intros []].
    - destruct (i =? i0); [intros [[=]|[]] | intros []].
    - intros [].
    - intros [].
    - intros [[=]|[]].
    - destruct (i =? i0); [|intros []]. destruct (get_node s i0); [|intros []]. intros [[=]|[[=]|H]].
      apply in_map_iff in H. destruct H as (x & [=] & _).
    - destruct (i =? i0); [|intros []]. destruct (get_node s i0) as [n|]; [|intros []].
      destruct (nth_error (n_calls n) (N.to_nat k)) as [[x c|x b|x c]|]; try (intros []; fail); intros [[=]|[]].
    - destruct (i =? i0); [|intros []]. destruct (take_first (w_between i0 j) (wire_w s)); [|intros []].
      destruct (get_node s i0); [|intros []]. destruct (get_node s j); [intros [[=]|[]] | intros []].
    - destruct (i =? i0); [|intros []]. destruct (take_first (b_between j i0) (wire_b s)) as [[m rest]|]; [|intros []].
      destruct (get_node s i0); [|intros []]. apply inc_cops_blocks_no_pres.
  Qed.

  Lemma cops_run_no_pres ops : forall s i p pres bl, In (CIncoming p pres bl) (cops_run s ops i) -> pres = [].
  Proof.
    induction ops as [|o ops IH]; intros s i p pres bl; [intros []|]. cbn [Net_proofs40.cops_run]. rewrite in_app_iff.
    intros [H|H]; [eapply cl_ops_no_pres; exact H | eapply IH; exact H].
  Qed.

  Lemma no_pres_got ops s i p c b : ~ got_pres p c b (cops_run s ops i).
  Proof. intros (pres & bl & Hin & Hc). apply cops_run_no_pres in Hin. subst pres. destruct Hc. Qed.

  (* every message a node ever handed to a connection comes from one of its polls *)
  Lemma wsent_decomp ops : forall s i m,
    In m (wsent_run s ops i) ->
    exists ops1 ops2 ni, ops = ops1 ++ NPoll i :: ops2 /\ get_node (fst (nrun Sz Hh s ops1)) i = Some ni /\
                         In m (map (w_of i) (poll_wants ni)).
  Proof.
    induction ops as [|o ops IH]; intros s i m; [intros []|]. cbn [Net_proofs42.wsent_run]. rewrite in_app_iff. intros [H|H].
    - destruct o; cbn [w_sent] in H; try destruct H. destruct (i =? i0) eqn:E; [|destruct H]. apply N.eqb_eq in E. subst i0.
      destruct (get_node s i) as [ni|] eqn:Ei; [|destruct H]. exists [], ops, ni. split; [reflexivity|]. split; [exact Ei|].
      apply in_map_iff in H. destruct H as (x & <- & Hx). apply in_map. apply filter_In in Hx. apply Hx.
    - destruct (IH _ _ _ H) as (ops1 & ops2 & ni & -> & Hni & Hm). exists (o :: ops1), ops2, ni. split; [reflexivity|].
      rewrite (nrun_cons Sz Hh). cbn [fst]. auto.
  Qed.

  (* ---------- C17 ---------- *)
  Theorem C17_net_want_block_only_after_have n ops i m c :
    In m (wsent_run (net_init n) ops i) -> ~ In (KWantBlock, c) (wm_entries m).
  Proof.
    intros Hm Hc. destruct (wsent_decomp ops _ _ _ Hm) as (ops1 & ops2 & ni & _ & Hni & Hin).
    apply in_map_iff in Hin. destruct Hin as ([[[p cn] f] es] & <- & Hx). unfold poll_wants in Hx. apply cl_wants_In in Hx.
    rewrite (net_client_ghost Sz Hh n ops1 i ni Hni) in Hx. cbn [cstep] in Hx. cbn [w_of wm_entries snd] in Hc.
    apply (no_pres_got ops1 (net_init n) i p c true). exact (C17_client_want_block_only_after_have true _ [] p cn f es c Hx Hc).
  Qed.

  (* the same for what is in flight *)
  Corollary C17_net_wire_no_want_block n ops m c :
    In m (wire_w (fst (nrun Sz Hh (net_init n) ops))) -> ~ In (KWantBlock, c) (wm_entries m).
  Proof.
    intros Hm. destruct (wire_w_sent Sz Hh ops _ _ Hm) as [[]|H]. eapply C17_net_want_block_only_after_have. exact H.
  Qed.

  (* ---------- C04 ---------- *)
  Definition pres_free (h : list hev) : Prop := forall c, ~ In (HHave c) h /\ ~ In (HDontHave c) h.

  Lemma dont_have_empty tr : forall g,
    g_dont_have g = [] -> (forall t c, In t tr -> ti_ev t <> HDontHave c) -> g_dont_have (fold_left (gstep false) tr g) = [].
  Proof.
    induction tr as [|t tr IH]; intros g Hg Hno; [exact Hg|]. cbn [fold_left]. apply IH; [|intros t' c Ht'; apply Hno; right; exact Ht'].
    pose proof (Hno t) as Hn. unfold gstep. destruct (ti_ev t) eqn:Ee; cbn [andb].
    - exact Hg.
    - exact Hg.
    - destruct (cid_mem c (g_told g)); [cbn [g_dont_have]; rewrite Hg; reflexivity | exact Hg].
    - exfalso. apply (Hn c); [left; reflexivity | reflexivity].
    - cbn [g_dont_have]. destruct (cid_mem c (ti_w t)); rewrite Hg; reflexivity.
    - destruct (ti_out t) as [[full es]|]; [cbn [g_dont_have]; rewrite Hg; reflexivity | exact Hg].
    - destruct (ti_out t) as [[full es]|]; [cbn [g_dont_have]; rewrite Hg; reflexivity | exact Hg].
  Qed.

  Lemma htrace_evs st h t : In t (htrace st h) -> In (ti_ev t) h.
  Proof.
    revert st. induction h as [|e h IH]; intros st; [intros []|]. cbn [htrace]. intros [<-|H]; [left; reflexivity | right; eapply IH; exact H].
  Qed.

  Theorem C04_net_view n ops i j ni ps :
    get_node (fst (nrun Sz Hh (net_init n) ops)) i = Some ni ->
    In (j, ps) (cs_peers (n_client ni)) ->
    exists h,
      st_of true h = (cs_wl (n_client ni), p_wl ps) /\ pres_free h /\ g_dont_have (lit_ghost true h) = [] /\
      (nothing_to_send (cs_wl (n_client ni), p_wl ps) ->
         (forall c, In c (g_view (lit_ghost true h)) -> In c (wl_cids (cs_wl (n_client ni)))) /\
         (forall c, In c (wl_cids (cs_wl (n_client ni))) -> In c (g_view (lit_ghost true h)) \/ In c (g_delivered (lit_ghost true h)))).
  Proof.
    intros Hni Hin. rewrite (net_client_ghost Sz Hh n ops i ni Hni) in *.
    destruct (client_state_is_history true _ j ps Hin) as (h & Eh & Hpv). exists h.
    assert (Hfree : pres_free h).
    { intros c. unfold haves_ok in Hpv. rewrite Forall_forall in Hpv.
      split; intros Hc; apply Hpv in Hc; cbn [pev_ok] in Hc; eapply no_pres_got; exact Hc. }
    assert (Hdh : g_dont_have (lit_ghost true h) = []).
    { unfold lit_ghost, ghost_of. apply dont_have_empty; [reflexivity|]. intros t c Ht E. apply htrace_evs in Ht. rewrite E in Ht. apply (Hfree c), Ht. }
    split; [exact Eh|]. split; [exact Hfree|]. split; [exact Hdh|].
    intros Hnts. rewrite <- Eh in Hnts. split.
    - intros c Hc. pose proof (C04_view_sound true h c Hnts Hc) as H. rewrite Eh in H. exact H.
    - intros c Hc. assert (Hc' : In c (wl_cids (fst (st_of true h)))) by (rewrite Eh; exact Hc).
      destruct (C04_view_complete true h c Hnts Hc') as [H|[H|H]]; [left; exact H | rewrite Hdh in H; destruct H | right; exact H].
  Qed.
  Corollary C04_net_view_sound n ops i j ni ps :
    get_node (fst (nrun Sz Hh (net_init n) ops)) i = Some ni -> In (j, ps) (cs_peers (n_client ni)) ->
    nothing_to_send (cs_wl (n_client ni), p_wl ps) ->
    exists h, st_of true h = (cs_wl (n_client ni), p_wl ps) /\ pres_free h /\
              forall c, In c (g_view (lit_ghost true h)) -> In c (wl_cids (cs_wl (n_client ni))).
  Proof.
    intros Hni Hin Hnts. destruct (C04_net_view n ops i j ni ps Hni Hin) as (h & E & Hf & _ & H). exists h. split; [exact E|]. split; [exact Hf|].
    apply (H Hnts).
  Qed.

  Corollary C04_net_view_complete n ops i j ni ps :
    get_node (fst (nrun Sz Hh (net_init n) ops)) i = Some ni -> In (j, ps) (cs_peers (n_client ni)) ->
    nothing_to_send (cs_wl (n_client ni), p_wl ps) ->
    exists h, st_of true h = (cs_wl (n_client ni), p_wl ps) /\ pres_free h /\
              forall c, In c (wl_cids (cs_wl (n_client ni))) -> In c (g_view (lit_ghost true h)) \/ In c (g_delivered (lit_ghost true h)).
  Proof.
    intros Hni Hin Hnts. destruct (C04_net_view n ops i j ni ps Hni Hin) as (h & E & Hf & _ & H). exists h. split; [exact E|]. split; [exact Hf|].
    apply (H Hnts).
  Qed.
End NoPresences.
