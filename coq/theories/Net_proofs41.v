(* Net_proofs41.v — package K: C03 at the network level, by instantiating the client theorems (Client_proofs, Client_proofs6)
   through the ghost of Net_proofs40: the events of a net run carry each (node, query id) at most once, only ids that an
   NGet of that node issued, nothing for a query cancelled before it was answered, and exactly one `EError i q 0` for an
   NGet with an unconvertible CID. *)
From BS Require Import Wantlist_proofs Client_proofs Client_proofs2 Client_proofs3 Client_proofs4 Client_proofs5 Client_proofs6 Client_proofs7 Client_proofs8
  Net Net_proofs2 Net_proofs6 Net_proofs10 Net_proofs40.
From Coq Require Import ZArith ZifyBool ZifyN ZifyNat Lia.
Open Scope N_scope.

(* (node, query id) of an event *)
Definition nev_key (e : nevent) : list (N * qid) :=
  match e with EResponse i q _ | EError i q _ => [(i, q)] | EFault _ => [] end.
Definition ev_keys (evs : list nevent) : list (N * qid) := flat_map nev_key evs.

(* the number of NGet calls on node i *)
Fixpoint count_ngets (i : N) (ops : list nop) : N :=
  match ops with
  | [] => 0
  | NGet a _ :: r => (if a =? i then 1 else 0) + count_ngets i r
  | _ :: r => count_ngets i r
  end.

Lemma count_ngets_app i a b : count_ngets i (a ++ b) = count_ngets i a + count_ngets i b.
Proof. induction a as [|o a IH]; cbn [app count_ngets]; [lia|]. destruct o; rewrite ?IH; lia. Qed.

Lemma ev_keys_app a b : ev_keys (a ++ b) = ev_keys a ++ ev_keys b.
Proof. apply flat_map_app'. Qed.

Lemma out_qids_out_evs l : out_qids (out_evs l) = out_qids l.
Proof.
  induction l as [|o l IH]; [reflexivity|]. unfold out_qids, out_evs in *. cbn [flat_map]. rewrite flat_map_app', IH.
  f_equal. destruct o; reflexivity.
Qed.

Lemma ev_keys_node i q evs : In (i, q) (ev_keys evs) <-> In q (out_qids (node_evs i evs)).
Proof.
  induction evs as [|e evs IH]; [reflexivity|]. unfold ev_keys, node_evs, out_qids in *. cbn [flat_map]. rewrite flat_map_app', !in_app_iff, IH.
  assert (H : In (i, q) (nev_key e) <-> In q (flat_map out_qid (nev_out i e))).
  { destruct e as [k q' d|k q' kd|k]; cbn [nev_key nev_out]; [| |tauto];
      (destruct (k =? i) eqn:E; [apply N.eqb_eq in E; subst k; cbn; split; [intros [[= ->]|[]]; auto | intros [->|[]]; auto]
                                 | apply N.eqb_neq in E; cbn; split; [intros [[= -> ->]|[]]; congruence | tauto]]). }
  tauto.
Qed.

Lemma NoDup_app_remove_l {A} (a b : list A) : NoDup (a ++ b) -> NoDup b.
Proof. induction a as [|x a IH]; cbn [app]; [auto|]. intros H. inversion H. auto. Qed.

Lemma ev_keys_nodup evs : (forall i, NoDup (out_qids (node_evs i evs))) -> NoDup (ev_keys evs).
Proof.
  induction evs as [|e evs IH]; intros H; [constructor|].
  assert (Hrest : NoDup (ev_keys evs)).
  { apply IH. intros i. specialize (H i). unfold node_evs, out_qids in *. cbn [flat_map] in H. rewrite flat_map_app' in H.
    apply NoDup_app_remove_l in H. exact H. }
  unfold ev_keys. cbn [flat_map]. fold (ev_keys evs).
  destruct e as [k q d|k q kd|k]; cbn [nev_key app]; [| |exact Hrest];
    (constructor; [|exact Hrest]; intros Hin; apply ev_keys_node in Hin; specialize (H k);
     unfold node_evs, out_qids in *; cbn [flat_map nev_out] in H; rewrite N.eqb_refl in H; cbn in H; inversion H; contradiction).
Qed.

Section C03Net.
  Variables (Sz : N) (Hh : hash_fn).

  Lemma count_gets_reps L : count_gets (map rep_op L) = 0.
  Proof. induction L as [|x L IH]; [reflexivity | exact IH]. Qed.

  Lemma count_gets_cl_ops s o i :
    count_gets (cl_ops Sz Hh s o i) = match o with NGet a _ => if a =? i then 1 else 0 | _ => 0 end.
  Proof.
    destruct o; cbn [cl_ops].
    - destruct (get_node s i0); [|reflexivity]. destruct (get_node s j); [|reflexivity]. destruct ((i0 =? j) || Net.connected s i0 j); [reflexivity|].
      destruct (i =? j); [reflexivity|]. destruct (i =? i0); reflexivity.
    - destruct (get_node s i0); [|reflexivity]. destruct (get_node s j); [|reflexivity]. destruct (Net.connected s i0 j); [|reflexivity].
      destruct (i =? j); [reflexivity|]. destruct (i =? i0); reflexivity.
    - rewrite (N.eqb_sym i0 i). destruct (i =? i0); reflexivity.
    - destruct (i =? i0); reflexivity.
    - reflexivity.
    - reflexivity.
    - reflexivity.
    - destruct (i =? i0); [|reflexivity]. destruct (get_node s i0); [|reflexivity]. cbn [count_gets]. apply count_gets_reps.
    - destruct (i =? i0); [|reflexivity]. destruct (get_node s i0) as [n|]; [|reflexivity].
      destruct (nth_error (n_calls n) (N.to_nat k)) as [[x c|x bl|x c]|]; reflexivity.
    - destruct (i =? i0); [|reflexivity]. destruct (take_first (w_between i0 j) (wire_w s)); [|reflexivity].
      destruct (get_node s i0); [|reflexivity]. destruct (get_node s j); reflexivity.
    - destruct (i =? i0); [|reflexivity]. destruct (take_first (b_between j i0) (wire_b s)) as [[m rest]|]; [|reflexivity].
      destruct (get_node s i0); [|reflexivity]. unfold inc_cops. destruct (process_message Sz Hh _) as [inc| |]; try reflexivity.
      destruct (in_client inc); reflexivity.
  Qed.

  Lemma count_gets_cops ops : forall s i, count_gets (cops_run Sz Hh s ops i) = count_ngets i ops.
  Proof.
    induction ops as [|o ops IH]; intros s i; [reflexivity|]. cbn [cops_run]. rewrite count_gets_app, IH, count_gets_cl_ops.
    destruct o; cbn [count_ngets]; lia.
  Qed.

  (* every node's events, whether the node exists or not, are the filtered outputs of a client run from cinit *)
  Lemma node_evs_init n ops i :
    node_evs i (snd (nrun Sz Hh (net_init n) ops)) = out_evs (outs_after true (cops_run Sz Hh (net_init n) ops i)) \/
    node_evs i (snd (nrun Sz Hh (net_init n) ops)) = [].
  Proof.
    destruct (Nat.lt_ge_cases (N.to_nat i) n) as [H|H]; [left; apply net_client_events; exact H | right; apply net_no_node_no_events; exact H].
  Qed.

  Theorem C03_net_at_most_one_event n ops : NoDup (ev_keys (snd (nrun Sz Hh (net_init n) ops))).
  Proof.
    apply ev_keys_nodup. intros i. destruct (node_evs_init n ops i) as [-> | ->]; [|constructor].
    rewrite out_qids_out_evs. apply Client_proofs.C03_at_most_one_event.
  Qed.

  Theorem C03_net_no_foreign_ids n ops i q :
    In (i, q) (ev_keys (snd (nrun Sz Hh (net_init n) ops))) -> (N.to_nat i < n)%nat /\ q < count_ngets i ops.
  Proof.
    intros H. apply ev_keys_node in H. destruct (Nat.lt_ge_cases (N.to_nat i) n) as [Hi|Hi].
    - split; [exact Hi|]. rewrite (net_client_events Sz Hh n ops i Hi), out_qids_out_evs in H.
      apply Client_proofs.C03_no_foreign_ids in H. rewrite count_gets_cops in H. exact H.
    - rewrite (net_no_node_no_events Sz Hh n ops i Hi) in H. destruct H.
  Qed.

  (* a query cancelled before its answer reached the node (no event yet, and not in the client's event queue) never
     produces an event *)
  Theorem C03_net_cancel_silences n ops1 i q ops2 :
    q < count_ngets i ops1 ->
    ~ In (i, q) (ev_keys (snd (nrun Sz Hh (net_init n) ops1))) ->
    (forall ni, get_node (fst (nrun Sz Hh (net_init n) ops1)) i = Some ni -> ~ In q (queue_qids (cs_queue (n_client ni)))) ->
    ~ In (i, q) (ev_keys (snd (nrun Sz Hh (net_init n) (ops1 ++ NCancel i q :: ops2)))).
  Proof.
    intros Hq Hno Hqueue Hin. apply ev_keys_node in Hin.
    destruct (Nat.lt_ge_cases (N.to_nat i) n) as [Hi|Hi]; [|rewrite (net_no_node_no_events Sz Hh n _ i Hi) in Hin; destruct Hin].
    rewrite (net_client_events Sz Hh n _ i Hi), out_qids_out_evs in Hin.
    rewrite cops_run_app in Hin. cbn [cops_run cl_ops] in Hin. rewrite N.eqb_refl in Hin.
    revert Hin. apply Client_proofs6.C03_cancel_silences.
    - rewrite count_gets_cops. exact Hq.
    - intros H. apply Hno. apply ev_keys_node. rewrite (net_client_events Sz Hh n _ i Hi), out_qids_out_evs. exact H.
    - assert (Hg : get_node (net_init n) i = Some node_init) by (unfold get_node; cbn [nodes net_init]; apply nth_error_repeat; exact Hi).
      destruct (node_exists_fwd Sz Hh ops1 _ _ _ Hg) as (ni & Hni). rewrite <- (net_client_ghost Sz Hh n ops1 i ni Hni). apply (Hqueue _ Hni).
  Qed.

  (* the queue hypothesis holds right after a poll of the node: whatever was answered has been handed out *)
  Lemma reps_queue L : forall c, cs_queue (cl_tr c (map rep_op L)) = cs_queue c.
  Proof. induction L as [|x L IH]; intros c; [reflexivity|]. cbn [map]. rewrite cl_tr_cons, IH. reflexivity. Qed.

  Theorem C03_net_cancel_after_poll n ops0 i q ops2 :
    q < count_ngets i ops0 ->
    ~ In (i, q) (ev_keys (snd (nrun Sz Hh (net_init n) (ops0 ++ [NPoll i])))) ->
    ~ In (i, q) (ev_keys (snd (nrun Sz Hh (net_init n) ((ops0 ++ [NPoll i]) ++ NCancel i q :: ops2)))).
  Proof.
    intros Hq Hno. apply C03_net_cancel_silences; [rewrite count_ngets_app; cbn [count_ngets]; lia | exact Hno|].
    intros ni Hni. rewrite (net_client_ghost Sz Hh n _ i ni Hni), cops_run_app. cbn [cops_run cl_ops]. rewrite N.eqb_refl.
    destruct (node_exists_back Sz Hh _ _ _ _ Hni) as (n0 & Hn0). rewrite (nrun_app Sz Hh) in Hni. cbn [fst] in Hni.
    destruct (node_exists_back Sz Hh [NPoll i] _ _ _ Hni) as (n1 & Hn1). rewrite Hn1, app_nil_r.
    rewrite st_after_cl, cl_tr_app. change (CPoll [] :: CTakeNewBlocks :: ?l) with ([CPoll []] ++ [CTakeNewBlocks] ++ l).
    rewrite !cl_tr_app, reps_queue, (cl_tr_one _ CTakeNewBlocks). cbn [cstep c_take_new_blocks fst set_new_blocks cs_queue].
    rewrite <- cl_tr_app, <- st_after_cl.
    destruct (Client_proofs8.C13_tasks_after_poll true (cops_run Sz Hh (net_init n) ops0 i) []) as (_ & -> & _). intros [].
  Qed.

  (* an NGet with a CID that does not fit the configured multihash size: exactly one event, EError i q 0 (C19 / C03 errors) *)
  Lemma one_event_unique l o o' q :
    NoDup (out_qids l) -> In o l -> In o' l -> In q (out_qid o) -> In q (out_qid o') -> o = o'.
  Proof.
    induction l as [|x l IH]; intros Hnd Ho Ho' Hq Hq'; [destruct Ho|].
    unfold out_qids in Hnd. cbn [flat_map] in Hnd. fold (out_qids l) in Hnd.
    assert (Hx : forall y, In y l -> In q (out_qid y) -> In q (out_qid x) -> False).
    { intros y Hy Hqy Hqx. assert (Hin : In q (out_qids l)) by (apply in_flat_map; eauto).
      destruct x; cbn [out_qid] in *; try destruct Hqx as [<-|[]]; try destruct Hqx; inversion Hnd; contradiction. }
    destruct Ho as [<-|Ho], Ho' as [<-|Ho'].
    - reflexivity.
    - exfalso. eapply Hx; eauto.
    - exfalso. eapply Hx; eauto.
    - apply IH; auto. apply NoDup_app_remove_l in Hnd. exact Hnd.
  Qed.

  Theorem C03_net_errors_invalid n ops1 i c ops2 :
    (N.to_nat i < n)%nat -> convert_cid Sz c = None ->
    let q := count_ngets i ops1 in
    let evs := snd (nrun Sz Hh (net_init n) (ops1 ++ NGet i c :: ops2 ++ [NPoll i])) in
    In (EError i q 0) evs /\
    forall e, In e evs -> In (i, q) (nev_key e) -> e = EError i q 0.
  Proof.
    intros Hi Hc q evs.
    set (ops := ops1 ++ NGet i c :: ops2 ++ [NPoll i]) in *.
    set (H1 := cops_run Sz Hh (net_init n) ops1 i).
    pose proof (net_client_events Sz Hh n ops i Hi) as Hev. fold evs in Hev.
    assert (Hg : get_node (net_init n) i = Some node_init) by (unfold get_node; cbn [nodes net_init]; apply nth_error_repeat; exact Hi).
    (* the ghost of the whole run: H1 ++ [CGet None] ++ H2 ++ [CPoll []] ++ rest *)
    assert (Hsplit : exists H2 rest, cops_run Sz Hh (net_init n) ops i = (H1 ++ [CGet None] ++ H2 ++ [CPoll []]) ++ rest).
    { unfold ops. rewrite cops_run_app. cbn [cops_run cl_ops]. rewrite N.eqb_refl, Hc. rewrite cops_run_app. cbn [cops_run cl_ops]. rewrite N.eqb_refl.
      match goal with |- context [get_node ?s i] => destruct (node_exists_fwd Sz Hh (ops1 ++ NGet i c :: ops2) _ _ _ Hg) as (nx & Hnx);
        assert (Es : s = fst (nrun Sz Hh (net_init n) (ops1 ++ NGet i c :: ops2)))
          by (rewrite (nrun_app Sz Hh), (nrun_cons Sz Hh); reflexivity);
        rewrite Es, Hnx end.
      rewrite app_nil_r. cbn [app].
      match goal with |- exists H2 rest, _ ++ CGet None :: ?A ++ CPoll [] :: ?R = _ => exists A, R end.
      repeat (rewrite <- app_assoc; cbn [app]). reflexivity. }
    destruct Hsplit as (H2 & rest & Hsplit).
    destruct (Client_proofs6.C03_errors_invalid true H1 H2 []) as [Hin Huniq]. cbv zeta in Hin, Huniq.
    assert (Hq : count_gets H1 = q) by apply count_gets_cops. rewrite Hq in *.
    assert (Hin' : In (OError q 0) (outs_after true (cops_run Sz Hh (net_init n) ops i))).
    { rewrite Hsplit, outs_after_cl, cl_outs_app. apply in_app_iff. left. exact Hin. }
    assert (Hmem : forall o, In o (node_evs i evs) <-> In o (out_evs (outs_after true (cops_run Sz Hh (net_init n) ops i)))) by (rewrite Hev; tauto).
    assert (Hconv : forall e o, In o (nev_out i e) -> (e = EResponse i match o with OResponse x _ | OError x _ => x | _ => 0 end
                                                           match o with OResponse _ d => d | _ => [] end /\ exists x d, o = OResponse x d) \/
                                                     (e = EError i match o with OResponse x _ | OError x _ => x | _ => 0 end
                                                           match o with OError _ k => k | _ => 0 end /\ exists x k, o = OError x k)).
    { intros e o Ho. destruct e as [k x d|k x kd|k]; cbn [nev_out] in Ho; [| |destruct Ho];
        (destruct (k =? i) eqn:E; [apply N.eqb_eq in E; subst k; destruct Ho as [<-|[]]; eauto | destruct Ho]). }
    split.
    - assert (Ho : In (OError q 0) (node_evs i evs)).
      { apply Hmem. apply in_flat_map. exists (OError q 0). split; [exact Hin' | left; reflexivity]. }
      apply in_flat_map in Ho. destruct Ho as (e & He & Ho). destruct (Hconv e _ Ho) as [(_ & x & d & [=])|(-> & _)]. exact He.
    - intros e He Hk.
      assert (Ho : exists o, In o (nev_out i e) /\ In q (out_qid o)).
      { destruct e as [k x d|k x kd|k]; cbn [nev_key] in Hk; [| |destruct Hk]; destruct Hk as [[= -> ->]|[]]; cbn [nev_out]; rewrite N.eqb_refl;
          eexists; (split; [left; reflexivity | left; reflexivity]). }
      destruct Ho as (o & Ho & Hqo).
      assert (Hoin : In o (outs_after true (cops_run Sz Hh (net_init n) ops i))).
      { assert (H : In o (node_evs i evs)) by (apply in_flat_map; eauto). apply Hmem in H. apply in_flat_map in H.
        destruct H as (o' & Ho' & Hoo'). destruct o'; cbn [out_ev] in Hoo'; first [destruct Hoo' as [<-|[]]; exact Ho' | destruct Hoo']. }
      assert (Eo : o = OError q 0).
      { eapply (one_event_unique _ o (OError q 0) q (Client_proofs.C03_at_most_one_event true _)); [exact Hoin | exact Hin' | exact Hqo | left; reflexivity]. }
      subst o. destruct (Hconv e _ Ho) as [(_ & x & d & [=])|(-> & _)]. reflexivity.
  Qed.
End C03Net.
