(* NetF_proofs3.v — package P, part 3:
   (a) what `episodic_run` buys: `RI`, `settle_terminates`, C14_records_equal and C02_direct for every net reachable by a run
       whose every fault is followed at once by the close of its connection;
   (b) `RI` is NOT an invariant of `fstep`: three concrete witnesses, one per clause of `RI` that a fault breaks
       - `ss_ok`   (CK / peer_ok, Net_proofs3): the sender's record is `SsFailed CONN`, neither Ready nor Sending — at once;
       - `WL`      (net_live, Net_proofs24): a busy record (not Ready) with no wantlist in flight — at once;
       - `nk_peers` (node_ok, Net_proofs5): after the sender's next poll the pair is in `conns` but the sender's client has no
                    peer entry for it — and never gets one back without a reconnect (NetF_proofs6 `C05_net_stays_forgotten`). *)
From BS Require Import Server_lemmas Server_inv Wantlist_proofs Client_proofs Client_proofs2 Client_proofs3 Client_proofs4
  Net Net_proofs Net_proofs2 Net_proofs3 Net_proofs4 Net_proofs5 Net_proofs6 Net_proofs7 Net_proofs9 Net_proofs10 Net_proofs24
  Net_proofs28 Net_proofs32 Net_proofs35 Net_proofs36 NetF NetF_proofs NetF_proofs2.
From Coq Require Import ZArith ZifyBool ZifyN ZifyNat Lia.
Open Scope N_scope.

Section Transfer.
  Variables (Sz : N) (Hh : hash_fn).
  Hypothesis HSz : 32 <= Sz.

  Theorem reachableF_RI_episodic n fops ops :
    erase fops = Some ops -> Forall (nop_good Sz Hh) ops -> Forall (nop_wf Sz) ops ->
    RI Sz Hh (fst (frun Sz Hh (net_init n) fops)).
  Proof. intros He Hg Hw. rewrite (episodic_run Sz Hh HSz n fops ops He Hg). apply reachable_RI; assumption. Qed.

  Theorem settle_terminates_F_episodic n fops ops :
    erase fops = Some ops -> Forall (nop_good Sz Hh) ops -> Forall (nop_wf Sz) ops ->
    quietb (fst (settle Sz Hh (fst (frun Sz Hh (net_init n) fops)))) = true.
  Proof. intros He Hg Hw. apply (settle_terminates_RI Sz Hh HSz), (reachableF_RI_episodic n fops ops); assumption. Qed.

  Theorem C05_net_records_equal_episodic (i j : N) n fops ops :
    erase fops = Some ops -> Forall (nop_good Sz Hh) ops -> Forall (nop_wf Sz) ops ->
    let s := fst (frun Sz Hh (net_init n) fops) in
    Net.connected s i j = true ->
    let r1 := settle Sz Hh s in
    let r2 := refresh Sz Hh (fst r1) in
    (length (wl_i i (fst r1)) <= 1024)%nat ->
    forall c, In c (wl_i i (fst r2)) <-> (exists st, server_of (fst r2) j = Some st /\ wantsP (s_wants st) i c).
  Proof.
    intros He Hg Hw. rewrite (episodic_run Sz Hh HSz n fops ops He Hg).
    exact (C14_records_equal_unconditional Sz Hh HSz i j n ops Hg Hw).
  Qed.

  Theorem C05_net_query_answered_episodic (i j : N) (q : qid) (c : cid) n fops ops :
    erase fops = Some ops -> Forall (nop_good Sz Hh) ops -> Forall (nop_wf Sz) ops ->
    let s := fst (frun Sz Hh (net_init n) fops) in
    live_query i q c s -> Net.connected s i j = true ->
    (exists st d, store_of s j = Some st /\ store_get st c = SHit d) ->
    let r1 := settle Sz Hh s in
    let r2 := refresh Sz Hh (fst r1) in
    (length (wl_i i (fst r1)) <= 1024)%nat ->
    answered i q (snd r1 ++ snd r2).
  Proof.
    intros He Hg Hw. rewrite (episodic_run Sz Hh HSz n fops ops He Hg).
    exact (C02_direct_unconditional Sz Hh HSz i j q c n ops Hg Hw).
  Qed.

  (* in such a net a connected peer is tracked: the hypothesis "i's client still tracks j" of C05 is automatic *)
  Theorem episodic_connected_tracks (i j : N) n fops ops :
    erase fops = Some ops -> Forall (nop_good Sz Hh) ops -> Forall (nop_wf Sz) ops ->
    let s := fst (frun Sz Hh (net_init n) fops) in
    Net.connected s i j = true -> tracks s i j = true.
  Proof.
    intros He Hg Hw s Hc. destruct (reachableF_RI_episodic n fops ops He Hg Hw) as [Hok _]. fold s in Hok.
    destruct (connected_neq Sz Hh HSz s i j Hok Hc) as (_ & Hi & _). unfold tracks.
    destruct (get_node s i) as [ni|] eqn:Ei; [|contradiction].
    pose proof (proj2 (nk_peers _ _ _ _ _ (no_nodes Sz Hh s Hok i ni Ei) j) Hc) as Hin.
    apply existsb_exists. apply in_map_iff in Hin. destruct Hin as (e & <- & He'). exists e. split; [exact He' | apply N.eqb_refl].
  Qed.
End Transfer.

(* ---------- RI is not an invariant of fstep: the witnesses ---------- *)
Lemma SZ_big : 32 <= SZ.
Proof. unfold SZ. lia. Qed.

(* A = 0 and B = 1 are connected, A has polled: its first (full, empty) wantlist for B is in flight *)
Definition wit_ops : list nop := [NConnect 0 1; NPoll 0].
Definition wit_s : net := fst (nrun SZ toyH (net_init 2) wit_ops).
(* … the handler fails it (not delivered / delivered) *)
Definition wit_f (d : bool) : net := fst (fstep SZ toyH wit_s (FFailW 0 1 d)).
(* … and A polls again *)
Definition wit_p (d : bool) : net := fst (fstep SZ toyH (wit_f d) (FOp (NPoll 0))).

Lemma wit_s_RI : RI SZ toyH wit_s.
Proof. apply (reachable_RI SZ toyH SZ_big); unfold wit_ops; repeat constructor. Qed.

Example wit_shape :
  inflight wit_s 0 1 = [MkW 0 1 true []] /\ ss_of wit_s 0 1 = Some (SsSending 0 CONN) /\
  (forall d, inflight (wit_f d) 0 1 = [] /\ ss_of (wit_f d) 0 1 = Some (SsFailed CONN) /\ tracks (wit_f d) 0 1 = true /\
             Net.connected (wit_f d) 0 1 = true) /\
  (forall d, tracks (wit_p d) 0 1 = false /\ Net.connected (wit_p d) 0 1 = true /\ tracks (wit_p d) 1 0 = true /\ wire_w (wit_p d) = []).
Proof.
  split; [vm_compute; reflexivity|]. split; [vm_compute; reflexivity|].
  split; intros []; repeat split; vm_compute; reflexivity.
Qed.

(* clause 1: `ss_ok` *)
Theorem RI_fstep_refuted_ss d : ~ net_ok SZ toyH (wit_f d).
Proof.
  intros Hok. destruct (get_node (wit_f d) 0) as [n|] eqn:Hg; [|destruct d; vm_compute in Hg; discriminate].
  pose proof (ck_peers _ _ (nk_ck _ _ _ _ _ (no_nodes SZ toyH _ Hok 0 n Hg))) as Hp.
  assert (Hin : exists ps, In (1, ps) (cs_peers (n_client n)) /\ p_ss ps = SsFailed CONN).
  { destruct d; vm_compute in Hg; injection Hg as <-; eexists; (split; [left; reflexivity | reflexivity]). }
  destruct Hin as (ps & Hin & Hss). destruct (Hp 1 ps Hin) as (_ & [E|(t & E)] & _); congruence.
Qed.

(* clause 2: `WL` *)
Theorem RI_fstep_refuted_WL d : ~ WL (wit_f d).
Proof.
  intros HW. destruct (get_node (wit_f d) 0) as [n|] eqn:Hg; [|destruct d; vm_compute in Hg; discriminate].
  assert (Hb : busy (n_client n) 1).
  { destruct d; vm_compute in Hg; injection Hg as <-; eexists; (split; [left; reflexivity | discriminate]). }
  destruct (HW 0 n 1 Hg Hb) as (m & Hm & _). destruct d; vm_compute in Hm; destruct Hm.
Qed.

(* clause 3: `nk_peers`, after the sender's next poll *)
Theorem RI_fstep_refuted_peers d : ~ net_ok SZ toyH (wit_p d).
Proof.
  intros Hok. destruct (get_node (wit_p d) 0) as [n|] eqn:Hg; [|destruct d; vm_compute in Hg; discriminate].
  pose proof (nk_peers _ _ _ _ _ (no_nodes SZ toyH _ Hok 0 n Hg) 1) as Hp.
  assert (Hc : Net.connected (wit_p d) 0 1 = true) by (destruct d; vm_compute; reflexivity).
  apply Hp in Hc. destruct d; vm_compute in Hg; injection Hg as <-; destruct Hc.
Qed.

Theorem RI_fstep_refuted :
  exists s o, RI SZ toyH s /\ ~ RI SZ toyH (fst (fstep SZ toyH s o)).
Proof.
  exists wit_s, (FFailW 0 1 false). split; [exact wit_s_RI|]. intros [Hok _]. exact (RI_fstep_refuted_ss false Hok).
Qed.

(* `settle` from the broken state does converge on this witness, but the peer stays forgotten: NetF_props `P_C05_net_forgotten_peer_refuted` *)
