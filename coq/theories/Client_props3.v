(* Client_props3.v — package N: C15 at trace level ("what a peer is sent does not depend on how many connections carry
   it"), restated verbatim from Client_proofs13/14 and closed by `exact`; nothing else is proved here.
   Definitions (norm, sim, project, churn_ok, op_single, sent, ...) are in Client_proofs10.v.
   The Net.v side of the corollary (`C15_net_histories_one_connection`) is in Client_proofs15.v, which needs Net_proofs40.v. *)
From BS Require Import Types Wantlist Wantlist_proofs Client Client_proofs Client_proofs10 Client_proofs13 Client_proofs14.
From Coq Require Import ZArith List. Import ListNotations.
Open Scope N_scope.

Theorem C15_trace_connection_independence_from K sdh ops0 ops :
  let s0 := st_after sdh ops0 in
  churn_ok_from s0 ops = true ->
  let ops1 := project_from K s0 ops in
  let s1 := run_st (norm K s0) ops1 in
  s1 = norm K (st_after sdh (ops0 ++ ops)) /\
  sim (st_after sdh (ops0 ++ ops)) s1 /\
  single_conn_state K s1 /\
  forallb (op_single K) ops1 = true /\
  filter not_bad (run_outs (norm K s0) ops1) = map (norm_out K) (filter not_bad (run_outs s0 ops)) /\
  sent (run_outs (norm K s0) ops1) = sent (run_outs s0 ops) /\
  filter other_out (run_outs (norm K s0) ops1) = filter other_out (run_outs s0 ops).
Proof. exact (Client_proofs13.C15_trace_connection_independence_from K sdh ops0 ops). Qed.

Theorem C15_trace_connection_independence K sdh ops :
  churn_ok sdh ops = true ->
  let ops1 := project K sdh ops in
  st_after sdh ops1 = norm K (st_after sdh ops) /\
  sim (st_after sdh ops) (st_after sdh ops1) /\
  single_conn_state K (st_after sdh ops1) /\
  forallb (op_single K) ops1 = true /\
  filter not_bad (outs_after sdh ops1) = map (norm_out K) (filter not_bad (outs_after sdh ops)) /\
  sent (outs_after sdh ops1) = sent (outs_after sdh ops) /\
  filter other_out (outs_after sdh ops1) = filter other_out (outs_after sdh ops).
Proof. exact (Client_proofs13.C15_trace_connection_independence K sdh ops). Qed.

Theorem C15_trace_prefixes K sdh a b :
  churn_ok sdh (a ++ b) = true ->
  project K sdh (a ++ b) = project K sdh a ++ project_from K (st_after sdh a) b /\
  st_after sdh (project K sdh a) = norm K (st_after sdh a) /\
  single_conn_state K (st_after sdh (project K sdh a)).
Proof. exact (Client_proofs13.C15_trace_prefixes K sdh a b). Qed.

Theorem C15_trace_connection_independence_refuted :
  exists ops,
    churn_ok true ops = false /\
    sent (outs_after true ops) = [(7, true, []); (7, true, [])] /\
    sent (outs_after true (project K0 true ops)) = [(7, true, [])] /\
    al_find N.eqb 7 (cs_peers (st_after true ops)) <> None /\
    al_find N.eqb 7 (cs_peers (st_after true (project K0 true ops))) = None.
Proof. exact (Client_proofs13.C15_trace_connection_independence_refuted). Qed.

Theorem C15_trace_close_sending_connection K sdh ops1 p c c' ps ch ops2 :
  let s1 := st_after sdh ops1 in
  al_find N.eqb p (cs_peers s1) = Some ps ->
  report_accepted ps c = true ->          (* a transmission to p is outstanding on connection c *)
  In c' (p_conns ps) -> c' <> c ->        (* and p has another connection *)
  (* the handler's Failed report is delivered, then connection c is closed *)
  let ops := ops1 ++ [CReport p c (RpFailed c); CConnClosed p c] in
  let s := st_after sdh ops in
  let s' := st_after sdh (ops ++ [CPoll ch]) in
  al_find N.eqb p (cs_peers s) = Some (MkPeer (n_remove c (p_conns ps)) (SsFailed c) (p_wl ps) (p_send_full ps)) /\
  churn_ok_from s [CPoll ch] = false /\
  (* the next wantlist p is sent is the FULL one, over a remaining connection; the entry is kept *)
  (exists c1 es, In (OSendWantlist p c1 true es) (snd (c_poll s ch))) /\
  (forall c1 f es, In (OSendWantlist p c1 f es) (snd (c_poll s ch)) -> f = true /\ c1 <> c /\ In c1 (p_conns ps)) /\
  al_find N.eqb p (cs_peers s') <> None /\
  (* from then on every fault-free continuation is that of the one-connection client started in the collapsed state *)
  (churn_ok_from s' ops2 = true ->
     let s2 := run_st (norm K s') (project_from K s' ops2) in
     s2 = norm K (st_after sdh (ops ++ CPoll ch :: ops2)) /\
     sim (st_after sdh (ops ++ CPoll ch :: ops2)) s2 /\
     single_conn_state K s2 /\
     sent (run_outs (norm K s') (project_from K s' ops2)) = sent (run_outs s' ops2) /\
     filter other_out (run_outs (norm K s') (project_from K s' ops2)) = filter other_out (run_outs s' ops2)) /\
  (* whereas the one-connection client, told of the same failed transmission, sends p nothing and drops the entry *)
  (churn_ok sdh ops1 = true ->
     let H := project K sdh ops1 ++ [CReport p (K p) (RpFailed (K p))] in
     (forall c1 f es, ~ In (OSendWantlist p c1 f es) (snd (c_poll (st_after sdh H) (ren_choice K ch)))) /\
     al_find N.eqb p (cs_peers (st_after sdh (H ++ [CPoll (ren_choice K ch)]))) = None).
Proof. exact (Client_proofs13.C15_trace_close_sending_connection K sdh ops1 p c c' ps ch ops2). Qed.

Theorem C15_trace_close_as_reconnect_refuted :
  exists ops1,
    churn_ok true ops1 = true /\
    (* several connections: connection 1 fails and is closed; the full wantlist on connection 2 does not ask for ex_c1 again *)
    sent (snd (c_poll (st_after true (ops1 ++ [CReport 7 1 (RpFailed 1); CConnClosed 7 1])) [(7, 2)])) = [(7, true, [])] /\
    (* one connection: it fails, the entry is dropped; after the reconnection everything is asked again *)
    sent (outs_after true (project K0 true ops1 ++ [CReport 7 0 (RpFailed 0); CPoll [(7, 0)]; CNewConn 7 0])) =
      sent (outs_after true (project K0 true ops1)) /\
    sent (snd (c_poll (st_after true (project K0 true ops1 ++ [CReport 7 0 (RpFailed 0); CPoll [(7, 0)]; CNewConn 7 0])) [(7, 0)])) =
      [(7, true, [(KWantHave, ex_c1)])].
Proof. exact (Client_proofs13.C15_trace_close_as_reconnect_refuted). Qed.

Theorem C15_one_connection_histories K sdh ops :
  forallb (op_single K) ops = true ->
  single_conn_state K (st_after sdh ops) /\
  churn_ok sdh ops = true /\
  st_after sdh (project K sdh ops) = st_after sdh ops /\
  filter not_bad (outs_after sdh (project K sdh ops)) = filter not_bad (outs_after sdh ops) /\
  (forall p c f es, In (OSendWantlist p c f es) (outs_after sdh ops) -> c = K p).
Proof. exact (Client_proofs14.C15_one_connection_histories K sdh ops). Qed.

Theorem C15_one_connection_suffices K sdh ops :
  churn_ok sdh ops = true ->
  exists ops1,
    forallb (op_single K) ops1 = true /\ churn_ok sdh ops1 = true /\
    single_conn_state K (st_after sdh ops1) /\ sim (st_after sdh ops) (st_after sdh ops1) /\
    sent (outs_after sdh ops1) = sent (outs_after sdh ops) /\
    filter other_out (outs_after sdh ops1) = filter other_out (outs_after sdh ops) /\
    (forall p c f es, In (OSendWantlist p c f es) (outs_after sdh ops1) -> c = K p).
Proof. exact (Client_proofs14.C15_one_connection_suffices K sdh ops). Qed.

Example C15_trace_example :
  churn_ok true churn_ex = true /\
  project K0 true churn_ex =
    [CNewConn 7 0; CGet (Some ex_c1); CPoll [(7, 0)]; CRelease 0 SMiss;
     CReport 7 0 (RpRequestReceived 0); CReport 7 0 (RpSending 0); CReport 7 0 RpReady;
     CPoll [(7, 0)]; CReport 7 0 (RpSending 0); CReport 7 0 RpReady;
     CGet (Some ex_c2); CPoll [(7, 0)]; CRelease 1 SMiss; CPoll [(7, 0)];
     CIncoming 7 [(ex_c1, false)] []; CReport 7 0 RpReady; CAdvance 30000; CPoll [(7, 0)]; CConnClosed 7 0] /\
  outs_after true churn_ex =
    [OQuery 0; OGet 0 ex_c1; OSendWantlist 7 1 true []; OSendWantlist 7 3 false [(KWantHave, ex_c1)];
     OQuery 1; OGet 1 ex_c2; OSendWantlist 7 2 false [(KWantHave, ex_c2)]; OSendWantlist 7 2 true [(KWantHave, ex_c2)]] /\
  outs_after true (project K0 true churn_ex) =
    [OQuery 0; OGet 0 ex_c1; OSendWantlist 7 0 true []; OSendWantlist 7 0 false [(KWantHave, ex_c1)];
     OQuery 1; OGet 1 ex_c2; OSendWantlist 7 0 false [(KWantHave, ex_c2)]; OSendWantlist 7 0 true [(KWantHave, ex_c2)]] /\
  (* just before the last close: connections 1 and 3 are gone, the exchange state is that of the one-connection run *)
  cs_peers (st_after true (firstn 23 churn_ex)) =
    [(7, MkPeer [2] (SsRequested 30000 2) (MkWls [(ex_c1, GotDontHave); (ex_c2, SentWantHave)] false 2) false)] /\
  cs_peers (st_after true (project K0 true (firstn 23 churn_ex))) =
    [(7, MkPeer [0] (SsRequested 30000 0) (MkWls [(ex_c1, GotDontHave); (ex_c2, SentWantHave)] false 2) false)] /\
  cs_peers (st_after true churn_ex) = [] /\ cs_peers (st_after true (project K0 true churn_ex)) = [].
Proof. exact (Client_proofs13.C15_trace_example). Qed.

Example C15_trace_close_example :
  let ops1 := reconnect_ops1 ++ [CReport 7 1 RpReady; CGet (Some ex_c2); CPoll [(7, 1)]; CRelease 1 SMiss; CPoll [(7, 1)]] in
  churn_ok true ops1 = true /\
  (exists ps, al_find N.eqb 7 (cs_peers (st_after true ops1)) = Some ps /\ report_accepted ps 1 = true /\ In 2 (p_conns ps)) /\
  let ops := ops1 ++ [CReport 7 1 (RpFailed 1); CConnClosed 7 1] in
  snd (c_poll (st_after true ops) [(7, 2)]) = [OSendWantlist 7 2 true [(KWantHave, ex_c2)]] /\
  let s' := st_after true (ops ++ [CPoll [(7, 2)]]) in
  let ops2 := [CReport 7 2 RpReady; CNewConn 7 3; CCancel 1; CPoll [(7, 3)]; CConnClosed 7 2] in
  churn_ok_from s' ops2 = true /\
  project_from K0 s' ops2 = [CReport 7 0 RpReady; CCancel 1; CPoll [(7, 0)]] /\
  run_outs s' ops2 = [OSendWantlist 7 3 false [(KCancel, ex_c2)]] /\
  run_outs (norm K0 s') (project_from K0 s' ops2) = [OSendWantlist 7 0 false [(KCancel, ex_c2)]].
Proof. exact (Client_proofs13.C15_trace_close_example). Qed.

Example C15_trace_random_test : tally 40 (seeds 400 4242) = (326, 0, 0, 74).
Proof. exact (Client_proofs13.C15_trace_random_test). Qed.

Print Assumptions C15_trace_connection_independence_from.
Print Assumptions C15_trace_connection_independence.
Print Assumptions C15_trace_prefixes.
Print Assumptions C15_trace_connection_independence_refuted.
Print Assumptions C15_trace_close_sending_connection.
Print Assumptions C15_trace_close_as_reconnect_refuted.
Print Assumptions C15_one_connection_histories.
Print Assumptions C15_one_connection_suffices.
Print Assumptions C15_trace_example.
Print Assumptions C15_trace_close_example.
Print Assumptions C15_trace_random_test.
