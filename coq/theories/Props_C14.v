(* Props_C14.v — C14: a wantlist handed to a connection is delivered whole or reported failed. Behaviour side (Client.v): a wantlist is handed over only from Ready, the state then names exactly that connection, at most one per peer per poll, and only a report from that connection (or the timeout / loss of the peer) changes it. Handler side (Handler.v) and the records-agree half (Net.v): see the end of the file.
   Statements restated verbatim from the proof files and closed by `exact`; nothing else is proved here. *)
From BS Require Import Bytes Cid Proto Types Wantlist Client Client_proofs Client_proofs2 Client_proofs3 Client_proofs4 Tie_consts.
Open Scope N_scope.

Theorem C14_one_outstanding sdh ops ch p c f es :
  let s := st_after sdh ops in
  In (OSendWantlist p c f es) (snd (c_poll s ch)) ->
  (exists ps, al_find N.eqb p (cs_peers s) = Some ps /\ sendable (cs_now s) (p_ss ps) /\ In c (p_conns ps)) /\
  (exists ps', al_find N.eqb p (cs_peers (fst (c_poll s ch))) = Some ps' /\
               p_ss ps' = SsRequested (cs_now s) c /\ In c (p_conns ps')) /\
  (forall c2 f2 es2, In (OSendWantlist p c2 f2 es2) (snd (c_poll s ch)) -> c2 = c /\ f2 = f /\ es2 = es).
Proof. exact (Client_proofs4.C14_one_outstanding sdh ops ch p c f es). Qed.

Theorem C14_outstanding_blocks_poll sdh ops ch p ps :
  let s := st_after sdh ops in
  al_find N.eqb p (cs_peers s) = Some ps -> uh_gate (cs_now s) ps = None ->
  (forall c f es, ~ In (OSendWantlist p c f es) (snd (c_poll s ch))) /\
  exists ps', al_find N.eqb p (cs_peers (fst (c_poll s ch))) = Some ps' /\ p_ss ps' = p_ss ps /\ p_conns ps' = p_conns ps.
Proof. exact (Client_proofs4.C14_outstanding_blocks_poll sdh ops ch p ps). Qed.

Theorem C14_state_persists s o p ps c :
  al_find N.eqb p (cs_peers s) = Some ps -> sending_conn (p_ss ps) = Some c ->
  (forall ch, o <> CPoll ch) ->
  (exists ps', al_find N.eqb p (cs_peers (fst (cstep s o))) = Some ps' /\ p_ss ps' = p_ss ps) \/
  (exists r, o = CReport p c r) \/
  (exists c0, o = CConnClosed p c0 /\ al_find N.eqb p (cs_peers (fst (cstep s o))) = None).
Proof. exact (Client_proofs4.C14_state_persists s o p ps c). Qed.

Print Assumptions C14_one_outstanding.
Print Assumptions C14_outstanding_blocks_poll.
Print Assumptions C14_state_persists.
