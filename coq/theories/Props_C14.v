(* Props_C14.v — C14: a wantlist handed to a connection is delivered whole or reported failed. Behaviour side (Client.v): a wantlist is handed over only from Ready, the state then names exactly that connection, at most one per peer per poll, and only a report from that connection (or the timeout / loss of the peer) changes it. Handler side (Handler.v) and the records-agree half (Net.v): see the end of the file.
   Statements restated verbatim from the proof files and closed by `exact`; nothing else is proved here. *)
From BS Require Import Bytes Cid Proto Types Wantlist Client Client_proofs Client_proofs2 Client_proofs3 Client_proofs4 Tie_consts.
From BS Require Import Tie_client.   (* tie lemmas: a source edit that changes what they extract breaks this file's closure *)
From BS Require Import Tie_handler.  (* Handler.poll_iter IS the interpretation of the extracted arms of ClientConnectionHandler::poll *)
Open Scope N_scope.

Theorem C14_one_outstanding sdh ops ch p c f es :
  let s := st_after sdh ops in
  In (OSendWantlist p c f es) (snd (c_poll s ch)) ->
  (exists ps, al_find N.eqb p (cs_peers s) = Some ps /\ sendable (cs_now s) (p_ss ps) /\ In c (p_conns ps)) /\
  (exists ps', al_find N.eqb p (cs_peers (fst (c_poll s ch))) = Some ps' /\
               p_ss ps' = SsRequested (cs_now s) c /\ In c (p_conns ps')) /\
  (forall c2 f2 es2, In (OSendWantlist p c2 f2 es2) (snd (c_poll s ch)) -> c2 = c /\ f2 = f /\ es2 = es).
Proof. exact (Client_proofs4.C14_one_outstanding sdh ops ch p c f es). Qed.

Theorem C14_outstanding_blocks_poll sdh ops ch p ps :
  let s := st_after sdh ops in
  al_find N.eqb p (cs_peers s) = Some ps -> uh_gate (cs_now s) ps = None ->
  (forall c f es, ~ In (OSendWantlist p c f es) (snd (c_poll s ch))) /\
  exists ps', al_find N.eqb p (cs_peers (fst (c_poll s ch))) = Some ps' /\ p_ss ps' = p_ss ps /\ p_conns ps' = p_conns ps.
Proof. exact (Client_proofs4.C14_outstanding_blocks_poll sdh ops ch p ps). Qed.

Theorem C14_state_persists s o p ps c :
  al_find N.eqb p (cs_peers s) = Some ps -> sending_conn (p_ss ps) = Some c ->
  (forall ch, o <> CPoll ch) ->
  (exists ps', al_find N.eqb p (cs_peers (fst (cstep s o))) = Some ps' /\ p_ss ps' = p_ss ps) \/
  (exists r, o = CReport p c r) \/
  (exists c0, o = CConnClosed p c0 /\ al_find N.eqb p (cs_peers (fst (cstep s o))) = None).
Proof. exact (Client_proofs4.C14_state_persists s o p ps c). Qed.

Print Assumptions C14_one_outstanding.
Print Assumptions C14_outstanding_blocks_poll.
Print Assumptions C14_state_persists.
(* ---- handler side (package E: Handler.v = client.rs ClientConnectionHandler over FramedWrite.v, scripted stream I/O,
   virtual clock).  For ANY op list and ANY stream behaviour: at most one frame per stream, the frames are the messages of
   distinct send_wantlist calls in order, the bytes a stream accepted are a prefix of its one frame (C14_one_frame);
   Ready is reported exactly when the flush of the complete frame succeeded (C14_ready_iff_flushed) and, under the
   behaviour's discipline, Ready means the last wantlist was written completely (C14_ready_means_delivered); reports
   follow Ready -> RequestReceived -> (Sending)? -> (Ready | Failed) with exactly one terminal outcome per accepted
   wantlist, closing while outstanding reports Failed, a cooperative stream reaches Ready, the 5 s timeout reports
   Failed (C14_no_silent_loss). *)
From BS Require Import Bytes Types FramedWrite Handler Handler_proofs.
Open Scope N_scope.

Theorem C14_one_frame :
  forall (encode : message -> bytes) (c : conn) (ops : list hop),
  let st := handler_final encode c ops in
  let outs := handler_outs encode c ops in
  NoDup (map fst (h_frames st)) /\
  subseq (map snd (h_frames st)) (map wantlist_message (sent_ws ops)) /\
  (forall id : N, prefix (wrote_on id outs) (FB encode (h_frames st) id)).
Proof. exact (@Handler_proofs.C14_one_frame). Qed.

Theorem C14_ready_iff_flushed :
  forall (encode : message -> bytes) (st : hstate) (s : list io) (r : iter_res) (st' : hstate) 
    (s' : list io) (o : list hout),
  poll_iter encode st s = (r, st', s', o) ->
  h_queue st = [] ->
  In (EvState SsReady) (h_queue st') <->
  h_halted st = false /\
  timeout_fired st = false /\
  h_msg st = None /\
  h_sending st <> SsReady /\
  (exists (id : N) (buf : bytes), h_sink st = SkReady id buf /\ fr_res (fw_poll_flush buf s) = PrOk).
Proof. exact (@Handler_proofs.C14_ready_iff_flushed). Qed.

Theorem C14_ready_means_delivered :
  forall (encode : message -> bytes) (c : conn) (ops : list hop),
  disciplined encode true c ops = true ->
  let st := handler_final encode c ops in
  let outs := handler_outs encode c ops in
  h_queue st = [] ->
  last (reports outs) RpReady = RpReady ->
  sent_ws ops <> [] ->
  exists (fr0 : list (N * message)) (id : N) (w : wantlist) (ws0 : list wantlist),
    h_frames st = fr0 ++ [(id, wantlist_message w)] /\
    sent_ws ops = ws0 ++ [w] /\ wrote_on id outs = encode (wantlist_message w).
Proof. exact (@Handler_proofs.C14_ready_means_delivered). Qed.

Theorem C14_report_protocol :
  forall (encode : message -> bytes) (c : conn) (ops : list hop),
  disciplined encode true c ops = true -> chain_ok c RpReady (reports (handler_outs encode c ops)).
Proof. exact (@Handler_proofs.C14_report_protocol). Qed.

Theorem C14_no_silent_loss :
  forall encode : message -> bytes,
  (forall (c : conn) (ops : list hop),
   disciplined encode true c ops = true -> chain_ok c RpReady (reports (handler_outs encode c ops))) /\
  (forall (st : hstate) (s : list io),
   h_panicked st = false ->
   h_closing st = false ->
   (exists (t : time) (c : conn), h_sending st = SsRequestReceived t c \/ h_sending st = SsSending t c) ->
   exists pre : list hout,
     snd (hstep encode st (HPollClose s)) = pre ++ [HReport (RpFailed (h_conn st)); HClosing]) /\
  (forall (ss : list (list io)) (st : hstate) (id : N) (buf : bytes) (t : time) (c : conn),
   h_panicked st = false ->
   h_queue st = [] ->
   h_halted st = false ->
   h_timeout st = None ->
   h_msg st = None ->
   h_sink st = SkReady id buf ->
   h_sending st = SsSending t c ->
   buf <> [] ->
   Forall good_script ss ->
   (length buf <= length ss)%nat -> In (HReport RpReady) (snd (hrun encode st (map HPoll ss)))) /\
  (forall (st : hstate) (s : list io) (d : time),
   h_halted st = false ->
   h_timeout st = Some d ->
   d <= h_now st ->
   last_state (h_queue st) <> Some (SsFailed (h_conn st)) ->
   (last_state (h_queue st) = None -> h_sending st <> SsFailed (h_conn st)) ->
   (forall x : sending_state, last_state (h_queue st) = Some x -> h_sending st = x) ->
   In (HReport (RpFailed (h_conn st))) (snd (do_poll encode st s)) /\
   h_halted (fst (do_poll encode st s)) = true /\ h_msg (fst (do_poll encode st s)) = None).
Proof. exact (@Handler_proofs.C14_no_silent_loss). Qed.

Theorem C14_send_completes :
  forall (encode : message -> bytes) (st : hstate) (s : list io) (m : message) (id : N) (t : time),
  h_queue st = [] ->
  h_halted st = false ->
  timeout_fired st = false ->
  h_msg st = Some m ->
  h_sink st = SkReady id [] ->
  h_sending st = SsRequestReceived t (h_conn st) ->
  fr_res (fw_poll_flush (encode m) s) = PrOk ->
  let r := do_poll encode st s in
  (exists o1 : list hout, snd r = HReport (RpSending (h_conn st)) :: o1 ++ [HDropped id; HReport RpReady]) /\
  wrote_on id (snd r) = encode m /\
  h_sending (fst r) = SsReady /\
  h_msg (fst r) = None /\
  h_sink (fst r) = SkNone /\ h_timeout (fst r) = None /\ h_frames (fst r) = h_frames st ++ [(id, m)].
Proof. exact (@Handler_proofs.C14_send_completes). Qed.

Theorem C14_progress_reaches_ready :
  forall (encode : message -> bytes) (ss : list (list io)) (st : hstate) (id : N) 
    (buf : bytes) (t : time) (c : conn),
  h_panicked st = false ->
  h_queue st = [] ->
  h_halted st = false ->
  h_timeout st = None ->
  h_msg st = None ->
  h_sink st = SkReady id buf ->
  h_sending st = SsSending t c ->
  buf <> [] ->
  Forall good_script ss ->
  (length buf <= length ss)%nat -> In (HReport RpReady) (snd (hrun encode st (map HPoll ss))).
Proof. exact (@Handler_proofs.C14_progress_reaches_ready). Qed.

Print Assumptions C14_one_frame.
Print Assumptions C14_ready_iff_flushed.
Print Assumptions C14_ready_means_delivered.
Print Assumptions C14_report_protocol.
Print Assumptions C14_no_silent_loss.
Print Assumptions C14_send_completes.
Print Assumptions C14_progress_reaches_ready.


(* ---- records-agree half (Net.v; package F).  For every reachable net: after a settle and a refresh, everything the
   requester still wants is registered at every connected serving node (want set and waiter list).  The converse
   inclusion is refuted BEFORE a refresh (a stale want can survive until the next full wantlist — which the property
   allows: "at the latest after the next wantlist refresh") and, after a refresh, is checked by the net engine's
   oracle_C14 on sampled histories only (not proved). *)
From BS Require Import Net Net_proofs Net_proofs2 Net_proofs5 Net_proofs7 Net_proofs9 Net_proofs10 Net_proofs11 Net_proofs12 Net_proofs13 Server_inv Net_props.
From Coq Require Import ZArith Lia.
Open Scope N_scope.

Theorem C14_records_agree_partial (Sz : N) (Hh : hash_fn) (HSz : 32 <= Sz) (i j : N) n ops :
  Forall (nop_good Sz Hh) ops -> Forall (nop_wf Sz) ops ->
  let s := fst (nrun Sz Hh (net_init n) ops) in
  Net.connected s i j = true ->
  let r1 := settle Sz Hh s in
  let r2 := refresh Sz Hh (fst r1) in
  quietb (fst r1) = true -> quietb (fst r2) = true -> (length (wl_i i (fst r1)) <= 1024)%nat ->
  forall c, In c (wl_i i (fst r2)) ->
    exists st, server_of (fst r2) j = Some st /\ wantsP (s_wants st) i c /\ waitsP (s_waiting st) i c.
Proof. exact (Net_props.C14_records_agree_partial Sz Hh HSz i j n ops). Qed.

Theorem C14_records_sound_before_refresh_refuted :
  exists n ops i j c,
    Forall (nop_good SZ toyH) ops /\ Forall (nop_wf SZ) ops /\
    let s1 := fst (settle SZ toyH (fst (nrun SZ toyH (net_init n) ops))) in
    let s2 := fst (refresh SZ toyH s1) in
    quietb s1 = true /\ Net.connected s1 i j = true /\ ~ In c (wl_i i s1) /\
    option_map (fun st => alookup N.eqb i (s_wants st)) (server_of s1 j) = Some (Some [c]) /\
    quietb s2 = true /\ option_map (fun st => alookup N.eqb i (s_wants st)) (server_of s2 j) = Some (Some []).
Proof. exact (Net_props.C14_records_sound_refuted). Qed.


Print Assumptions C14_records_agree_partial.
Print Assumptions C14_records_sound_before_refresh_refuted.

(* ---- records agree, both inclusions (package G, Net_proofs14..18): at a quiet state after a refresh the serving side's
   want set for a connected requester EQUALS the requester's live wants — the last sentence of C14, for every reachable
   net.  (The stale want that `…_before_refresh_refuted` exhibits is gone after the refresh:
   Net_props2.C14_records_sound_nonvacuous_stale.) *)
From BS Require Import Net Net_proofs Net_proofs2 Net_proofs5 Net_proofs7 Net_proofs9 Net_proofs10 Net_proofs13 Net_props Net_proofs14 Net_proofs15 Net_proofs16 Net_proofs17 Net_proofs18 Server_inv Net_props2.
From Coq Require Import ZArith Lia.
Open Scope N_scope.

Theorem C14_records_sound :
  forall (Sz : N) (Hh : hash_fn),
  32 <= Sz ->
  forall (i j : N) (n : nat) (ops : list nop),
  Forall (nop_good Sz Hh) ops ->
  Forall (nop_wf Sz) ops ->
  let s := fst (nrun Sz Hh (net_init n) ops) in
  connected s i j = true ->
  let r1 := settle Sz Hh s in
  let r2 := refresh Sz Hh (fst r1) in
  quietb (fst r1) = true ->
  quietb (fst r2) = true ->
  (length (wl_i i (fst r1)) <= 1024)%nat ->
  forall (c : cid) (st : sstate),
  server_of (fst r2) j = Some st -> wantsP (s_wants st) i c -> In c (wl_i i (fst r2)).
Proof. exact (@Net_props2.C14_records_sound). Qed.

Theorem C14_records_equal :
  forall (Sz : N) (Hh : hash_fn),
  32 <= Sz ->
  forall (i j : N) (n : nat) (ops : list nop),
  Forall (nop_good Sz Hh) ops ->
  Forall (nop_wf Sz) ops ->
  let s := fst (nrun Sz Hh (net_init n) ops) in
  connected s i j = true ->
  let r1 := settle Sz Hh s in
  let r2 := refresh Sz Hh (fst r1) in
  quietb (fst r1) = true ->
  quietb (fst r2) = true ->
  (length (wl_i i (fst r1)) <= 1024)%nat ->
  forall c : cid,
  In c (wl_i i (fst r2)) <-> (exists st : sstate, server_of (fst r2) j = Some st /\ wantsP (s_wants st) i c).
Proof. exact (@Net_props2.C14_records_equal). Qed.

Theorem C14_reachable_rv :
  forall (Sz : N) (Hh : hash_fn),
  32 <= Sz ->
  forall (n : nat) (ops : list nop),
  Forall (nop_good Sz Hh) ops -> Forall (nop_wf Sz) ops -> net_rv (fst (nrun Sz Hh (net_init n) ops)).
Proof. exact (@Net_props2.C14_reachable_rv). Qed.

Print Assumptions C14_records_sound.
Print Assumptions C14_records_equal.
Print Assumptions C14_reachable_rv.

(* ---- sender and receiver composed through the real codec (Wire.v): if the sender's handler reports Ready for its last
   wantlist w, the stream accepted exactly the frame of w, and however the receiver's reads cut those bytes the receiver's
   behaviour is handed exactly one IncomingMessage with server part w (none if w is an empty update) and the stream ends
   cleanly — the byte-level content of the "atomic delivery" that Net.v assumes.  Non-vacuity: Wire.C14_wire_delivery_ex. *)
From BS Require Import Bytes Varint Varint_proofs Cid Prefix Hasher Proto Incoming Qp ProtoCodec RefProto Frame Framed Codec Frame_proofs Framed_proofs ProtoCodec_proofs RefProto_proofs Codec_proofs Prefix_proofs Incoming_proofs Streams Streams_proofs Types FramedWrite Handler Handler_proofs Wire.
From Coq Require Import ZArith ZifyBool ZifyN ZifyNat Lia.
Open Scope N_scope.

Theorem wire_receive_wantlist :
  forall (Sz : N) (Hh : hash_fn) (chk : bool) (w : wantlist) (evs : list read_ev),
  wf_message (wantlist_message w) ->
  size_ok write_message (wantlist_message w) ->
  live evs ->
  ev_data evs = codec_encode (wantlist_message w) ->
  stream_out Sz Hh chk (evs ++ [Eof]) =
  (if announces w then [{| in_client := None; in_server := Some w |}] else [], SfEnd).
Proof. exact (@Wire.wire_receive_wantlist). Qed.

Theorem C14_wire_delivery :
  forall (Sz : N) (Hh : hash_fn) (chk : bool) (c : conn) (ops : list hop),
  disciplined codec_encode true c ops = true ->
  let st := handler_final codec_encode c ops in
  let outs := handler_outs codec_encode c ops in
  h_queue st = [] ->
  last (reports outs) RpReady = RpReady ->
  sent_ws ops <> [] ->
  exists (id : N) (w : wantlist) (ws0 : list wantlist),
    sent_ws ops = ws0 ++ [w] /\
    wrote_on id outs = codec_encode (wantlist_message w) /\
    (wf_message (wantlist_message w) ->
     size_ok write_message (wantlist_message w) ->
     forall evs : list read_ev,
     live evs ->
     ev_data evs = wrote_on id outs ->
     stream_out Sz Hh chk (evs ++ [Eof]) =
     (if announces w then [{| in_client := None; in_server := Some w |}] else [], SfEnd)).
Proof. exact (@Wire.C14_wire_delivery). Qed.

Print Assumptions wire_receive_wantlist.
Print Assumptions C14_wire_delivery.

(* ---- unconditional form (package J): records equal after settle_phi + refresh_phi, no "ended quiet" hypotheses *)
From BS Require Import Net Net_proofs Net_proofs2 Net_proofs5 Net_proofs6 Net_proofs7 Net_proofs9 Net_proofs10 Net_props Net_props2
  Net_proofs23 Net_proofs24 Net_proofs27 Net_proofs28 Net_proofs32 Server Server_inv Net_props3.
From Coq Require Import ZArith Lia.
Open Scope N_scope.

Theorem C14_records_equal_phi :
  forall (Sz : N) (Hh : hash_fn),
  32 <= Sz ->
  forall (i j : N) (n : nat) (ops : list nop),
  Forall (nop_good Sz Hh) ops ->
  Forall (nop_wf Sz) ops ->
  let s := fst (nrun Sz Hh (net_init n) ops) in
  Net.connected s i j = true ->
  let r1 := settle_phi Sz Hh s in
  let r2 := refresh_phi Sz Hh (fst r1) in
  (length (wl_i i (fst r1)) <= 1024)%nat ->
  forall c : cid,
  In c (wl_i i (fst r2)) <-> (exists st : sstate, server_of (fst r2) j = Some st /\ wantsP (s_wants st) i c).
Proof. exact (@Net_props3.C14_records_equal_phi). Qed.

Print Assumptions C14_records_equal_phi.

(* ---- the wire between the two ghosts (package K, Net_proofs42/46): every wantlist on Net.v's wire is an OSendWantlist
   output of the sender's Client.v, and every wantlist a server half processed is `proto_of` of one the peer's client emitted:
   nothing is invented, duplicated or altered between the client model and the server model. *)
From BS Require Import Types Wantlist Wantlist_proofs2 Client Client_proofs Client_proofs4 Net Net_proofs Net_proofs6 Net_props Net_proofs2 Net_proofs5 Net_proofs21 Net_proofs40 Net_proofs41 Net_proofs42 Net_proofs43 Net_proofs44 Net_proofs45 Net_proofs46 Net_proofs47 Server Net_props4.
From Coq Require Import ZArith Lia.
Open Scope N_scope.

Theorem wire_is_client_output :
  forall (Sz : N) (Hh : hash_fn) (n : nat) (ops : list nop) (i : N) (m : wmsg),
  In m (wsent_run Sz Hh (net_init n) ops i) ->
  wm_src m = i /\
  In (OSendWantlist (wm_dst m) CONN (wm_full m) (wm_entries m))
    (outs_after true (cops_run Sz Hh (net_init n) ops i)).
Proof. exact (@Net_props4.wire_is_client_output). Qed.

Theorem server_receives_client_output :
  forall (Sz : N) (Hh : hash_fn) (n : nat) (ops : list nop) (j : N) (a : peer) (w : wantlist) (ord : list cid),
  In (SMsg a w ord) (sops_run Sz Hh (net_init n) ops j) ->
  exists (full : bool) (es : list gen_entry),
    w = proto_of true full es /\
    ord = order_of Sz w /\
    In (OSendWantlist j CONN full es) (outs_after true (cops_run Sz Hh (net_init n) ops a)).
Proof. exact (@Net_props4.server_receives_client_output). Qed.

Theorem wire_w_sent :
  forall (Sz : N) (Hh : hash_fn) (ops : list nop) (s : net) (m : wmsg),
  In m (wire_w (fst (nrun Sz Hh s ops))) -> In m (wire_w s) \/ In m (wsent_run Sz Hh s ops (wm_src m)).
Proof. exact (@Net_props4.wire_w_sent). Qed.

Print Assumptions wire_is_client_output.
Print Assumptions server_receives_client_output.
Print Assumptions wire_w_sent.

(* ---- and with Net.v's own settle / refresh, no "ended quiet" hypotheses (package J) *)
From BS Require Import Net Net_proofs Net_proofs2 Net_proofs5 Net_proofs6 Net_proofs7 Net_proofs9 Net_proofs10 Net_props Net_props2
  Net_proofs23 Net_proofs24 Net_proofs27 Net_proofs28 Net_proofs29 Net_proofs31 Net_proofs32 Net_proofs34 Net_proofs35 Net_proofs36 Server Server_inv Net_props3.
From Coq Require Import ZArith Lia.
Open Scope N_scope.

Theorem C14_records_equal_unconditional :
  forall (Sz : N) (Hh : hash_fn),
  32 <= Sz ->
  forall (i j : N) (n : nat) (ops : list nop),
  Forall (nop_good Sz Hh) ops ->
  Forall (nop_wf Sz) ops ->
  let s := fst (nrun Sz Hh (net_init n) ops) in
  Net.connected s i j = true ->
  let r1 := settle Sz Hh s in
  let r2 := refresh Sz Hh (fst r1) in
  (length (wl_i i (fst r1)) <= 1024)%nat ->
  forall c : cid,
  In c (wl_i i (fst r2)) <-> (exists st : sstate, server_of (fst r2) j = Some st /\ wantsP (s_wants st) i c).
Proof. exact (@Net_props3.C14_records_equal_unconditional). Qed.

Print Assumptions C14_records_equal_unconditional.

(* ---- the connection handler as a whole (package M, ConnHandler.v = lib.rs ConnHandler: Handler.v, ServerHandler.v and Streams.v
   composed under the priority order of `poll`; run against the real ConnHandler by engine connhandler).  The client half and
   the server half inside the whole handler behave exactly as their own models on a projection of the op list
   (connhandler_projections), so every handler theorem above applies to the real composite; the projection is NOT the naive one
   (…_refuted: a substream request of the server half gives the client half a second round of polls in the same op); the server
   half makes progress in every op whatever the client half does (server_starvation); after a failed negotiation of the server's
   stream it stays Requested for ever (the TODO of lib.rs:364, server_dial_error_stalls: an observation, §9 of DESIGN.md). *)
From BS Require Import Bytes Types FramedWrite Handler ServerHandler Framed Framed_proofs Streams Streams_proofs Handler_proofs ServerHandler_proofs ConnHandler Proto Prefix Incoming Qp ProtoCodec Codec ConnHandler_proofs.
From Coq Require Import ZArith Lia.
Open Scope N_scope.

Theorem connhandler_projections :
  forall (encode : message -> bytes) (block_size : blk -> N) (msg : Type)
    (parse : bytes -> N -> parse_result msg) (proc : msg -> pm_result) (c : conn) 
    (ops : list kop),
  let fin := fst (krun_trace encode block_size parse proc (k_init c) ops) in
  let outs := concat (snd (krun_trace encode block_size parse proc (k_init c) ops)) in
  k_dead fin = false ->
  hrun encode (h_init c) (client_proj encode block_size parse proc (k_init c) ops) =
  (k_client fin, client_outs outs) /\
  shrun encode block_size sh_init (flat_map shops_of ops) = (k_server fin, server_outs outs).
Proof. exact (@ConnHandler_proofs.connhandler_projections). Qed.

Theorem connhandler_projections_refuted :
  exists (c : conn) (ops : list kop),
    k_dead (fst (r_run c ops)) = false /\
    client_outs (concat (snd (r_run c ops))) <> handler_outs codec_encode c (flat_map naive_hops ops).
Proof. exact (@ConnHandler_proofs.connhandler_projections_refuted). Qed.

Theorem connhandler_server_starvation :
  forall (encode : message -> bytes) (block_size : blk -> N) (msg : Type)
    (parse : bytes -> N -> parse_result msg) (proc : msg -> pm_result) (st : kstate) 
    (sc r : list io) (id : N) (l : list blk),
  k_ok st ->
  k_dead st = false ->
  sh_pending (k_server st) = Some l ->
  l <> [] ->
  sh_sink (k_server st) = SvReady id [] ->
  let res := kstep encode block_size parse proc st (KPoll sc (FlushOk :: r)) in
  k_fatal (fst res) = false ->
  (k_server (fst res), server_outs (snd res)) = shstep encode block_size (k_server st) (SHPoll (FlushOk :: r)) /\
  (exists (now rest : list blk) (more : list (N * list blk)),
     l = now ++ rest /\
     now <> [] /\ sh_started (k_server (fst res)) = sh_started (k_server st) ++ (id, now) :: more).
Proof. exact (@ConnHandler_proofs.connhandler_server_starvation). Qed.

Theorem connhandler_server_dial_error_stalls :
  forall (encode : message -> bytes) (block_size : blk -> N) (msg : Type)
    (parse : bytes -> N -> parse_result msg) (proc : msg -> pm_result) (ops : list kop) 
    (st : kstate),
  k_ok st ->
  sh_sink (k_server st) = SvRequested ->
  forallb (fun op : kop => negb (is_set_server op)) ops = true ->
  k_dead (fst (krun_trace encode block_size parse proc st ops)) = false ->
  server_outs (concat (snd (krun_trace encode block_size parse proc st ops))) = [] /\
  sh_sink (k_server (fst (krun_trace encode block_size parse proc st ops))) = SvRequested.
Proof. exact (@ConnHandler_proofs.connhandler_server_dial_error_stalls). Qed.

Print Assumptions connhandler_projections.
Print Assumptions connhandler_projections_refuted.
Print Assumptions connhandler_server_starvation.
Print Assumptions connhandler_server_dial_error_stalls.

(* ---- stated for the whole connection handler (package O): a disciplined run of the composite that ends with Ready reported
   wrote exactly the frame of the last wantlist; and with whole handlers at BOTH ends the receiver's behaviour is handed exactly
   that wantlist on the stream that carried it. *)
From BS Require Import Bytes Varint Types FramedWrite Handler ServerHandler Framed Framed_proofs Streams Streams_proofs Handler_proofs ServerHandler_proofs ConnHandler ConnHandler_proofs ConnHandler_proofs2 Proto Prefix Incoming Qp ProtoCodec ProtoCodec_proofs Codec Frame Frame_proofs Codec_proofs Wire.
From Coq Require Import ZArith Lia.
Open Scope N_scope.

Theorem C14_connhandler_ready_means_delivered :
  forall (encode : message -> bytes) (block_size : blk -> N) (msg : Type)
    (parse : bytes -> N -> parse_result msg) (proc : msg -> pm_result) (c : conn) 
    (ops : list kop),
  let fin := fst (krun_trace encode block_size parse proc (k_init c) ops) in
  let outs := concat (snd (krun_trace encode block_size parse proc (k_init c) ops)) in
  k_fatal fin = false ->
  disciplined encode true c (client_proj encode block_size parse proc (k_init c) ops) = true ->
  h_queue (k_client fin) = [] ->
  last (reports (client_outs outs)) RpReady = RpReady ->
  ksent_ws ops <> [] ->
  exists (fr0 : list (N * message)) (id : N) (w : wantlist) (ws0 : list wantlist),
    h_frames (k_client fin) = fr0 ++ [(id, wantlist_message w)] /\
    ksent_ws ops = ws0 ++ [w] /\ wrote_on id (client_outs outs) = encode (wantlist_message w).
Proof. exact (@ConnHandler_proofs2.C14_connhandler_ready_means_delivered). Qed.

Theorem C14_connhandler_end_to_end :
  forall (bsz bsz' : blk -> N) (enc' : message -> bytes) (Sz : N) (Hh : hash_fn) (chk chk' : bool)
    (c c' : conn) (ops ops' : list kop) (k : N) (m : kin) (evs : list read_ev),
  let krunS := krun_trace codec_encode bsz (qp_parse chk') (process_message Sz Hh) (k_init c) ops in
  let krunR := krun_trace enc' bsz' (qp_parse chk) (process_message Sz Hh) (k_init c') ops' in
  k_fatal (fst krunS) = false ->
  disciplined codec_encode true c
    (client_proj codec_encode bsz (qp_parse chk') (process_message Sz Hh) (k_init c) ops) = true ->
  h_queue (k_client (fst krunS)) = [] ->
  last (reports (client_outs (concat (snd krunS)))) RpReady = RpReady ->
  ksent_ws ops <> [] ->
  (forall w : wantlist,
   In w (ksent_ws ops) -> wf_message (wantlist_message w) /\ size_ok write_message (wantlist_message w)) ->
  exists (id : N) (w : wantlist) (ws0 : list wantlist),
    ksent_ws ops = ws0 ++ [w] /\
    wrote_on id (client_outs (concat (snd krunS))) = codec_encode (wantlist_message w) /\
    (nth (N.to_nat k) (inbound_evs ops') [] = evs ++ [Eof] ->
     live evs ->
     ev_data evs = wrote_on id (client_outs (concat (snd krunS))) ->
     nth_error (k_in (fst krunR)) (N.to_nat k) = Some m ->
     stream_settled m = true ->
     of_stream k (inbound_outs (concat (snd krunR))) =
     (if announces w then [{| in_client := None; in_server := Some w |}] else []) /\
     ss_status (ki_st m) = SfEnd).
Proof. exact (@ConnHandler_proofs2.C14_connhandler_end_to_end). Qed.

Print Assumptions C14_connhandler_ready_means_delivered.
Print Assumptions C14_connhandler_end_to_end.

(* ---- C14 over the history of a NET with transmission faults (package P): every wantlist that entered a connection's wire has exactly one
   fate or is still in flight — processed whole by the receiver and reported Ready; reported Failed with the receiver having processed it
   whole or not at all (never a part of it); or dropped together with its connection, after which neither end tracks the other. *)
From BS Require Import Server_lemmas Server_inv Wantlist_proofs Client_proofs Client_proofs2 Client_proofs3 Client_proofs4
  Net Net_proofs Net_proofs2 Net_proofs3 Net_proofs4 Net_proofs5 Net_proofs6 Net_proofs7 Net_proofs9 Net_proofs10 Net_proofs24
  Net_proofs28 Net_proofs32 Net_proofs35 Net_proofs36 Net_props
  NetF NetF_proofs NetF_proofs2 NetF_proofs3 NetF_proofs4 NetF_proofs5 NetF_proofs6 NetF_proofs7 NetF_proofs8 NetF_proofs9 NetF_proofs10 NetF_proofs11.
From BS Require Import NetF_props.
From Coq Require Import ZArith Lia Permutation.
Open Scope N_scope.

Theorem C14_net_whole_or_failed :
  forall (Sz : N) (Hh : hash_fn) (n : nat) (ops : list fop),
  let r := frun_h Sz Hh (net_init n) ops in
  Permutation (h_entered (snd r)) (map fate_msg (h_fates (snd r)) ++ wire_w (fst (fst r))) /\
  (forall f : fate,
   In f (h_fates (snd r)) ->
   exists (pre : list fop) (o : fop) (post : list fop),
     ops = pre ++ o :: post /\
     (let s1 := fst (frun Sz Hh (net_init n) pre) in
      In f (h_fates (hist_of Sz Hh s1 o)) /\ fate_spec Sz Hh s1 (fst (fstep Sz Hh s1 o)) f)).
Proof. exact (@NetF_props.P_C14_net_whole_or_failed). Qed.

Theorem C14_net_dropped_with_its_connection :
  forall (Sz : N) (Hh : hash_fn) (n : nat) (pre : list fop) (o : fop) (m : wmsg),
  let s := fst (frun Sz Hh (net_init n) pre) in
  In (FtDropped m) (h_fates (hist_of Sz Hh s o)) ->
  exists i j : N,
    (o = FOp (NDisconnect i j) \/ o = FReconnect i j) /\
    w_touches i j m = true /\
    (let sD := do_disconnect Sz s i j in
     tracks sD i j = false /\
     tracks sD j i = false /\
     connected sD i j = false /\ (forall m' : wmsg, In m' (wire_w sD) -> w_touches i j m' = false)).
Proof. exact (@NetF_props.P_dropped_sound). Qed.

Theorem C14_net_wire_on_established_connections :
  forall (Sz : N) (Hh : hash_fn) (n : nat) (fops : list fop),
  let s := fst (frun Sz Hh (net_init n) fops) in
  linv s /\ conns_ex s /\ all_clients INVS s /\ all_clients conns_one s.
Proof. exact (@NetF_props.P_reachableF_light). Qed.

Print Assumptions C14_net_whole_or_failed.
Print Assumptions C14_net_dropped_with_its_connection.
Print Assumptions C14_net_wire_on_established_connections.
