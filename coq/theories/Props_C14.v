(* Props_C14.v — C14: a wantlist handed to a connection is delivered whole or reported failed. Behaviour side (Client.v): a wantlist is handed over only from Ready, the state then names exactly that connection, at most one per peer per poll, and only a report from that connection (or the timeout / loss of the peer) changes it. Handler side (Handler.v) and the records-agree half (Net.v): see the end of the file.
   Statements restated verbatim from the proof files and closed by `exact`; nothing else is proved here. *)
From BS Require Import Bytes Cid Proto Types Wantlist Client Client_proofs Client_proofs2 Client_proofs3 Client_proofs4 Tie_consts.
Open Scope N_scope.

Theorem C14_one_outstanding sdh ops ch p c f es :
  let s := st_after sdh ops in
  In (OSendWantlist p c f es) (snd (c_poll s ch)) ->
  (exists ps, al_find N.eqb p (cs_peers s) = Some ps /\ sendable (cs_now s) (p_ss ps) /\ In c (p_conns ps)) /\
  (exists ps', al_find N.eqb p (cs_peers (fst (c_poll s ch))) = Some ps' /\
               p_ss ps' = SsRequested (cs_now s) c /\ In c (p_conns ps')) /\
  (forall c2 f2 es2, In (OSendWantlist p c2 f2 es2) (snd (c_poll s ch)) -> c2 = c /\ f2 = f /\ es2 = es).
Proof. exact (Client_proofs4.C14_one_outstanding sdh ops ch p c f es). Qed.

Theorem C14_outstanding_blocks_poll sdh ops ch p ps :
  let s := st_after sdh ops in
  al_find N.eqb p (cs_peers s) = Some ps -> uh_gate (cs_now s) ps = None ->
  (forall c f es, ~ In (OSendWantlist p c f es) (snd (c_poll s ch))) /\
  exists ps', al_find N.eqb p (cs_peers (fst (c_poll s ch))) = Some ps' /\ p_ss ps' = p_ss ps /\ p_conns ps' = p_conns ps.
Proof. exact (Client_proofs4.C14_outstanding_blocks_poll sdh ops ch p ps). Qed.

Theorem C14_state_persists s o p ps c :
  al_find N.eqb p (cs_peers s) = Some ps -> sending_conn (p_ss ps) = Some c ->
  (forall ch, o <> CPoll ch) ->
  (exists ps', al_find N.eqb p (cs_peers (fst (cstep s o))) = Some ps' /\ p_ss ps' = p_ss ps) \/
  (exists r, o = CReport p c r) \/
  (exists c0, o = CConnClosed p c0 /\ al_find N.eqb p (cs_peers (fst (cstep s o))) = None).
Proof. exact (Client_proofs4.C14_state_persists s o p ps c). Qed.

Print Assumptions C14_one_outstanding.
Print Assumptions C14_outstanding_blocks_poll.
Print Assumptions C14_state_persists.

(* ---- records-agree half (Net.v; package F).  For every reachable net: after a settle and a refresh, everything the
   requester still wants is registered at every connected serving node (want set and waiter list).  The converse
   inclusion is refuted BEFORE a refresh (a stale want can survive until the next full wantlist — which the property
   allows: "at the latest after the next wantlist refresh") and, after a refresh, is checked by the net engine's
   oracle_C14 on sampled histories only (not proved). *)
From BS Require Import Net Net_proofs Net_proofs2 Net_proofs5 Net_proofs7 Net_proofs9 Net_proofs10 Net_proofs11 Net_proofs12 Net_proofs13 Server_inv Net_props.
From Coq Require Import ZArith Lia.
Open Scope N_scope.

Theorem C14_records_agree_partial (Sz : N) (Hh : hash_fn) (HSz : 32 <= Sz) (i j : N) n ops :
  Forall (nop_good Sz Hh) ops -> Forall (nop_wf Sz) ops ->
  let s := fst (nrun Sz Hh (net_init n) ops) in
  Net.connected s i j = true ->
  let r1 := settle Sz Hh s in
  let r2 := refresh Sz Hh (fst r1) in
  quietb (fst r1) = true -> quietb (fst r2) = true -> (length (wl_i i (fst r1)) <= 1024)%nat ->
  forall c, In c (wl_i i (fst r2)) ->
    exists st, server_of (fst r2) j = Some st /\ wantsP (s_wants st) i c /\ waitsP (s_waiting st) i c.
Proof. exact (Net_props.C14_records_agree_partial Sz Hh HSz i j n ops). Qed.

Theorem C14_records_sound_before_refresh_refuted :
  exists n ops i j c,
    Forall (nop_good SZ toyH) ops /\ Forall (nop_wf SZ) ops /\
    let s1 := fst (settle SZ toyH (fst (nrun SZ toyH (net_init n) ops))) in
    let s2 := fst (refresh SZ toyH s1) in
    quietb s1 = true /\ Net.connected s1 i j = true /\ ~ In c (wl_i i s1) /\
    option_map (fun st => alookup N.eqb i (s_wants st)) (server_of s1 j) = Some (Some [c]) /\
    quietb s2 = true /\ option_map (fun st => alookup N.eqb i (s_wants st)) (server_of s2 j) = Some (Some []).
Proof. exact (Net_props.C14_records_sound_refuted). Qed.


Print Assumptions C14_records_agree_partial.
Print Assumptions C14_records_sound_before_refresh_refuted.
