(* Props_C15.v — C15: extra connections to a peer neither duplicate nor reset the exchange (client: Client_proofs4; server: Server_live).
   Statements restated verbatim from the proof files and closed by `exact`; nothing else is proved here. *)
From BS Require Import Bytes Cid Proto Types Server Server_lemmas Server_inv Server_proofs Server_live Wantlist Client Client_proofs Client_proofs2 Client_proofs3 Client_proofs4.
Open Scope N_scope.

Theorem C15_new_conn_frame s p c ps :
  al_find N.eqb p (cs_peers s) = Some ps ->
  cstep s (CNewConn p c) = (set_peers s (al_modify N.eqb p (add_conn c) (cs_peers s)), []) /\
  al_find N.eqb p (cs_peers (fst (cstep s (CNewConn p c)))) =
    Some (MkPeer (if n_mem c (p_conns ps) then p_conns ps else p_conns ps ++ [c]) (p_ss ps) (p_wl ps) (p_send_full ps)) /\
  (forall p', p' <> p -> al_find N.eqb p' (cs_peers (fst (cstep s (CNewConn p c)))) = al_find N.eqb p' (cs_peers s)).
Proof. exact (Client_proofs4.C15_new_conn_frame s p c ps). Qed.

Theorem C15_one_connection_per_wantlist sdh ops ch p c f es :
  let s := st_after sdh ops in
  In (OSendWantlist p c f es) (snd (c_poll s ch)) ->
  (exists ps, al_find N.eqb p (cs_peers s) = Some ps /\ In c (p_conns ps)) /\
  (exists ps', al_find N.eqb p (cs_peers (fst (c_poll s ch))) = Some ps' /\ In c (p_conns ps')) /\
  (forall c2 f2 es2, In (OSendWantlist p c2 f2 es2) (snd (c_poll s ch)) -> c2 = c) /\
  (~ In OBadChoice (snd (c_poll s ch)) -> al_find N.eqb p ch = Some c).
Proof. exact (Client_proofs4.C15_one_connection_per_wantlist sdh ops ch p c f es). Qed.

Theorem C15_close_one_keeps_peer s p c ps c' :
  al_find N.eqb p (cs_peers s) = Some ps -> In c' (p_conns ps) -> c' <> c ->
  al_find N.eqb p (cs_peers (fst (cstep s (CConnClosed p c)))) =
    Some (MkPeer (n_remove c (p_conns ps)) (p_ss ps) (p_wl ps) (p_send_full ps)) /\
  snd (cstep s (CConnClosed p c)) = [] /\
  (forall p', p' <> p -> al_find N.eqb p' (cs_peers (fst (cstep s (CConnClosed p c)))) = al_find N.eqb p' (cs_peers s)).
Proof. exact (Client_proofs4.C15_close_one_keeps_peer s p c ps c'). Qed.

Theorem C15_dropped_only_with_last s p c ps :
  al_find N.eqb p (cs_peers s) = Some ps ->
  al_find N.eqb p (cs_peers (fst (cstep s (CConnClosed p c)))) = None ->
  forall c', In c' (p_conns ps) -> c' = c.
Proof. exact (Client_proofs4.C15_dropped_only_with_last s p c ps). Qed.

Theorem C15_server_new_conn_frame :
  forall Sz st p,
  wants_of st p <> None -> sstep Sz st (SNewConn p) = (st, []).
Proof. exact (Server_live.C15_server_new_conn_frame). Qed.

Print Assumptions C15_new_conn_frame.
Print Assumptions C15_one_connection_per_wantlist.
Print Assumptions C15_close_one_keeps_peer.
Print Assumptions C15_dropped_only_with_last.
Print Assumptions C15_server_new_conn_frame.
