(* Props_C15.v — C15: extra connections to a peer neither duplicate nor reset the exchange (client: Client_proofs4; server: Server_live).
   Statements restated verbatim from the proof files and closed by `exact`; nothing else is proved here. *)
From BS Require Import Bytes Cid Proto Types Server Server_lemmas Server_inv Server_proofs Server_live Wantlist Client Client_proofs Client_proofs2 Client_proofs3 Client_proofs4.
From BS Require Import Tie_client Tie_node.   (* tie lemmas: a source edit that changes what they extract breaks this file's closure *)
Open Scope N_scope.

Theorem C15_new_conn_frame s p c ps :
  al_find N.eqb p (cs_peers s) = Some ps ->
  cstep s (CNewConn p c) = (set_peers s (al_modify N.eqb p (add_conn c) (cs_peers s)), []) /\
  al_find N.eqb p (cs_peers (fst (cstep s (CNewConn p c)))) =
    Some (MkPeer (if n_mem c (p_conns ps) then p_conns ps else p_conns ps ++ [c]) (p_ss ps) (p_wl ps) (p_send_full ps)) /\
  (forall p', p' <> p -> al_find N.eqb p' (cs_peers (fst (cstep s (CNewConn p c)))) = al_find N.eqb p' (cs_peers s)).
Proof. exact (Client_proofs4.C15_new_conn_frame s p c ps). Qed.

Theorem C15_one_connection_per_wantlist sdh ops ch p c f es :
  let s := st_after sdh ops in
  In (OSendWantlist p c f es) (snd (c_poll s ch)) ->
  (exists ps, al_find N.eqb p (cs_peers s) = Some ps /\ In c (p_conns ps)) /\
  (exists ps', al_find N.eqb p (cs_peers (fst (c_poll s ch))) = Some ps' /\ In c (p_conns ps')) /\
  (forall c2 f2 es2, In (OSendWantlist p c2 f2 es2) (snd (c_poll s ch)) -> c2 = c) /\
  (~ In OBadChoice (snd (c_poll s ch)) -> al_find N.eqb p ch = Some c).
Proof. exact (Client_proofs4.C15_one_connection_per_wantlist sdh ops ch p c f es). Qed.

Theorem C15_close_one_keeps_peer s p c ps c' :
  al_find N.eqb p (cs_peers s) = Some ps -> In c' (p_conns ps) -> c' <> c ->
  al_find N.eqb p (cs_peers (fst (cstep s (CConnClosed p c)))) =
    Some (MkPeer (n_remove c (p_conns ps)) (p_ss ps) (p_wl ps) (p_send_full ps)) /\
  snd (cstep s (CConnClosed p c)) = [] /\
  (forall p', p' <> p -> al_find N.eqb p' (cs_peers (fst (cstep s (CConnClosed p c)))) = al_find N.eqb p' (cs_peers s)).
Proof. exact (Client_proofs4.C15_close_one_keeps_peer s p c ps c'). Qed.

Theorem C15_dropped_only_with_last s p c ps :
  al_find N.eqb p (cs_peers s) = Some ps ->
  al_find N.eqb p (cs_peers (fst (cstep s (CConnClosed p c)))) = None ->
  forall c', In c' (p_conns ps) -> c' = c.
Proof. exact (Client_proofs4.C15_dropped_only_with_last s p c ps). Qed.

Theorem C15_server_new_conn_frame :
  forall Sz st p,
  wants_of st p <> None -> sstep Sz st (SNewConn p) = (st, []).
Proof. exact (Server_live.C15_server_new_conn_frame). Qed.

Print Assumptions C15_new_conn_frame.
Print Assumptions C15_one_connection_per_wantlist.
Print Assumptions C15_close_one_keeps_peer.
Print Assumptions C15_dropped_only_with_last.
Print Assumptions C15_server_new_conn_frame.

(* ---- package I (Client_proofs9): a further connection changes nothing of the peer's exchange state and the next poll
   sends the same wantlist (same full flag, same entries) as it would have without it; closing one of several connections
   keeps the entry and its request states, a fault on the closed connection leads to a FULL wantlist over a remaining one,
   an outstanding transmission elsewhere blocks as before, otherwise the same update goes out over a remaining connection. *)
From BS Require Import Types Wantlist Wantlist_proofs Client Client_proofs Client_proofs2 Client_proofs3 Client_proofs4 Client_proofs5 Client_proofs7 Client_proofs8 Client_proofs9 Client_props2.
From Coq Require Import ZArith List. Import ListNotations.
Open Scope N_scope.

Theorem C15_extra_connection_keeps_state :
  forall (sdh : bool) (ops : list cop) (p : N) (c2 : conn) (ps : peer_state) (ch : list (peer * conn)),
  let s := st_after sdh ops in
  al_find N.eqb p (cs_peers s) = Some ps ->
  let s2 := fst (cstep s (CNewConn p c2)) in
  snd (cstep s (CNewConn p c2)) = [] /\
  al_find N.eqb p (cs_peers s2) =
  Some
    {|
      p_conns := if n_mem c2 (p_conns ps) then p_conns ps else p_conns ps ++ [c2];
      p_ss := p_ss ps;
      p_wl := p_wl ps;
      p_send_full := p_send_full ps
    |} /\
  s2 = set_peers s (cs_peers s2) /\
  (forall q : N, q <> p -> al_find N.eqb q (cs_peers s2) = al_find N.eqb q (cs_peers s)) /\
  (forall (c : conn) (f : bool) (es : list gen_entry),
   In (OSendWantlist p c f es) (snd (c_poll s ch)) ->
   exists c' : conn, In (OSendWantlist p c' f es) (snd (c_poll s2 ch))) /\
  (forall (c' : conn) (f : bool) (es : list gen_entry),
   In (OSendWantlist p c' f es) (snd (c_poll s2 ch)) ->
   (exists c : conn, In (OSendWantlist p c f es) (snd (c_poll s ch))) \/
   al_find N.eqb p (cs_peers (fst (c_poll s ch))) = None /\ f = true /\ c' = c2 /\ ~ In c2 (p_conns ps)) /\
  (forall ps' : peer_state,
   al_find N.eqb p (cs_peers (fst (c_poll s ch))) = Some ps' ->
   exists ps2' : peer_state,
     al_find N.eqb p (cs_peers (fst (c_poll s2 ch))) = Some ps2' /\
     p_wl ps2' = p_wl ps' /\
     p_send_full ps2' = p_send_full ps' /\
     incl (p_conns ps') (p_conns ps2') /\
     (p_ss ps2' = p_ss ps' \/
      (exists cA cB : conn,
         p_ss ps' = SsRequested (cs_now s) cA /\
         p_ss ps2' = SsRequested (cs_now s) cB /\ In cA (p_conns ps') /\ In cB (p_conns ps2')))) /\
  (forall q : N,
   q <> p -> al_find N.eqb q (cs_peers (fst (c_poll s2 ch))) = al_find N.eqb q (cs_peers (fst (c_poll s ch)))) /\
  fst (c_poll s2 ch) = set_peers (fst (c_poll s ch)) (cs_peers (fst (c_poll s2 ch))) /\
  (forall o : cout,
   (forall (c : conn) (f : bool) (es : list gen_entry), o <> OSendWantlist p c f es) ->
   o <> OBadChoice -> In o (snd (c_poll s2 ch)) <-> In o (snd (c_poll s ch))).
Proof. exact (@Client_props2.C15_extra_connection_keeps_state). Qed.

Theorem C15_close_one_keeps_peer_served :
  forall (sdh : bool) (ops : list cop) (p : N) (c : conn) (ps : peer_state) (c' : conn)
    (ch : list (peer * conn)),
  let s := st_after sdh ops in
  al_find N.eqb p (cs_peers s) = Some ps ->
  In c' (p_conns ps) ->
  c' <> c ->
  let s3 := fst (cstep s (CConnClosed p c)) in
  snd (cstep s (CConnClosed p c)) = [] /\
  al_find N.eqb p (cs_peers s3) =
  Some
    {| p_conns := n_remove c (p_conns ps); p_ss := p_ss ps; p_wl := p_wl ps; p_send_full := p_send_full ps |} /\
  s3 = set_peers s (cs_peers s3) /\
  (forall q : N, q <> p -> al_find N.eqb q (cs_peers s3) = al_find N.eqb q (cs_peers s)) /\
  (p_ss ps = SsFailed c \/
   (exists t : time, p_ss ps = SsRequested t c /\ (cs_now s - t <? RECEIVE_REQUEST_TIMEOUT) = false) ->
   (exists (c1 : conn) (es : list gen_entry), In (OSendWantlist p c1 true es) (snd (c_poll s3 ch))) /\
   (forall (c1 : conn) (f : bool) (es : list gen_entry),
    In (OSendWantlist p c1 f es) (snd (c_poll s3 ch)) -> f = true /\ c1 <> c /\ In c1 (p_conns ps))) /\
  (uh_gate (cs_now s) ps = None ->
   (forall (c1 : conn) (f : bool) (es : list gen_entry), ~ In (OSendWantlist p c1 f es) (snd (c_poll s3 ch))) /\
   (exists ps' : peer_state,
      al_find N.eqb p (cs_peers (fst (c_poll s3 ch))) = Some ps' /\
      p_ss ps' = p_ss ps /\ p_conns ps' = n_remove c (p_conns ps))) /\
  (forall (c1 : conn) (f : bool) (es : list gen_entry),
   In (OSendWantlist p c1 f es) (snd (c_poll s3 ch)) ->
   c1 <> c /\ In c1 (p_conns ps) /\ (exists c1' : conn, In (OSendWantlist p c1' f es) (snd (c_poll s ch)))) /\
  (forall (c1 : conn) (f : bool) (es : list gen_entry),
   In (OSendWantlist p c1 f es) (snd (c_poll s ch)) ->
   (exists c1' : conn, In (OSendWantlist p c1' f es) (snd (c_poll s3 ch))) \/
   al_find N.eqb p (cs_peers (fst (c_poll s3 ch))) = None /\ f = true /\ c1 = c) /\
  (forall ps3' : peer_state,
   al_find N.eqb p (cs_peers (fst (c_poll s3 ch))) = Some ps3' ->
   exists ps' : peer_state,
     al_find N.eqb p (cs_peers (fst (c_poll s ch))) = Some ps' /\
     p_wl ps' = p_wl ps3' /\
     p_send_full ps' = p_send_full ps3' /\
     incl (p_conns ps3') (p_conns ps') /\
     (p_ss ps' = p_ss ps3' \/
      (exists cA cB : conn,
         p_ss ps3' = SsRequested (cs_now s) cA /\
         p_ss ps' = SsRequested (cs_now s) cB /\ In cA (p_conns ps3') /\ In cB (p_conns ps')))) /\
  (forall q : N,
   q <> p -> al_find N.eqb q (cs_peers (fst (c_poll s3 ch))) = al_find N.eqb q (cs_peers (fst (c_poll s ch)))) /\
  fst (c_poll s3 ch) = set_peers (fst (c_poll s ch)) (cs_peers (fst (c_poll s3 ch))) /\
  (forall o : cout,
   (forall (c1 : conn) (f : bool) (es : list gen_entry), o <> OSendWantlist p c1 f es) ->
   o <> OBadChoice -> In o (snd (c_poll s3 ch)) <-> In o (snd (c_poll s ch))).
Proof. exact (@Client_props2.C15_close_one_keeps_peer_served). Qed.

Print Assumptions C15_extra_connection_keeps_state.
Print Assumptions C15_close_one_keeps_peer_served.

(* ---- at trace level (package N, Client_proofs10..14): for EVERY history of the client with any number of connections per peer
   in which no poll finds a peer in a fault state while another connection remains (`churn_ok`, executable; the fault case is
   the theorem after it), the history projected onto ONE connection per peer (further CNewConn erased, non-last CConnClosed
   erased, reports and choices renamed) leaves the client in the same state up to connection names and produces the SAME list
   of (peer, full, entries) wantlists in the same order and the same other outputs: extra connections neither duplicate nor
   reset nor reorder anything that is sent, and each wantlist goes over exactly one existing connection.  `churn_ok` is needed
   (…_refuted: with a fault and a remaining connection the several-connection client sends a second full wantlist where the
   one-connection client drops the peer) — that case is C15_trace_close_sending_connection: a FULL wantlist over a remaining
   connection, the peer's answers kept. *)
From BS Require Import Types Wantlist Wantlist_proofs Client Client_proofs Client_proofs10 Client_proofs13 Client_proofs14 Client_props3.
From Coq Require Import ZArith List. Import ListNotations.
Open Scope N_scope.

Theorem C15_trace_connection_independence :
  forall (K : peer -> conn) (sdh : bool) (ops : list cop),
  churn_ok sdh ops = true ->
  let ops1 := project K sdh ops in
  st_after sdh ops1 = norm K (st_after sdh ops) /\
  sim (st_after sdh ops) (st_after sdh ops1) /\
  single_conn_state K (st_after sdh ops1) /\
  forallb (op_single K) ops1 = true /\
  filter not_bad (outs_after sdh ops1) = map (norm_out K) (filter not_bad (outs_after sdh ops)) /\
  sent (outs_after sdh ops1) = sent (outs_after sdh ops) /\
  filter other_out (outs_after sdh ops1) = filter other_out (outs_after sdh ops).
Proof. exact (@Client_props3.C15_trace_connection_independence). Qed.

Theorem C15_trace_connection_independence_refuted :
  exists ops : list cop,
    churn_ok true ops = false /\
    sent (outs_after true ops) = [(7, true, []); (7, true, [])] /\
    sent (outs_after true (project K0 true ops)) = [(7, true, [])] /\
    al_find N.eqb 7 (cs_peers (st_after true ops)) <> None /\
    al_find N.eqb 7 (cs_peers (st_after true (project K0 true ops))) = None.
Proof. exact (@Client_props3.C15_trace_connection_independence_refuted). Qed.

Theorem C15_trace_close_sending_connection :
  forall (K : peer -> conn) (sdh : bool) (ops1 : list cop) (p : N) (c c' : conn) (ps : peer_state)
    (ch : list (peer * conn)) (ops2 : list cop),
  let s1 := st_after sdh ops1 in
  al_find N.eqb p (cs_peers s1) = Some ps ->
  report_accepted ps c = true ->
  In c' (p_conns ps) ->
  c' <> c ->
  let ops := ops1 ++ [CReport p c (RpFailed c); CConnClosed p c] in
  let s := st_after sdh ops in
  let s' := st_after sdh (ops ++ [CPoll ch]) in
  al_find N.eqb p (cs_peers s) =
  Some
    {|
      p_conns := n_remove c (p_conns ps); p_ss := SsFailed c; p_wl := p_wl ps; p_send_full := p_send_full ps
    |} /\
  churn_ok_from s [CPoll ch] = false /\
  (exists (c1 : conn) (es : list gen_entry), In (OSendWantlist p c1 true es) (snd (c_poll s ch))) /\
  (forall (c1 : conn) (f : bool) (es : list gen_entry),
   In (OSendWantlist p c1 f es) (snd (c_poll s ch)) -> f = true /\ c1 <> c /\ In c1 (p_conns ps)) /\
  al_find N.eqb p (cs_peers s') <> None /\
  (churn_ok_from s' ops2 = true ->
   let s2 := run_st (norm K s') (project_from K s' ops2) in
   s2 = norm K (st_after sdh (ops ++ CPoll ch :: ops2)) /\
   sim (st_after sdh (ops ++ CPoll ch :: ops2)) s2 /\
   single_conn_state K s2 /\
   sent (run_outs (norm K s') (project_from K s' ops2)) = sent (run_outs s' ops2) /\
   filter other_out (run_outs (norm K s') (project_from K s' ops2)) = filter other_out (run_outs s' ops2)) /\
  (churn_ok sdh ops1 = true ->
   let H := project K sdh ops1 ++ [CReport p (K p) (RpFailed (K p))] in
   (forall (c1 : conn) (f : bool) (es : list gen_entry),
    ~ In (OSendWantlist p c1 f es) (snd (c_poll (st_after sdh H) (ren_choice K ch)))) /\
   al_find N.eqb p (cs_peers (st_after sdh (H ++ [CPoll (ren_choice K ch)]))) = None).
Proof. exact (@Client_props3.C15_trace_close_sending_connection). Qed.

Theorem C15_one_connection_suffices :
  forall (K : peer -> conn) (sdh : bool) (ops : list cop),
  churn_ok sdh ops = true ->
  exists ops1 : list cop,
    forallb (op_single K) ops1 = true /\
    churn_ok sdh ops1 = true /\
    single_conn_state K (st_after sdh ops1) /\
    sim (st_after sdh ops) (st_after sdh ops1) /\
    sent (outs_after sdh ops1) = sent (outs_after sdh ops) /\
    filter other_out (outs_after sdh ops1) = filter other_out (outs_after sdh ops) /\
    (forall (p : peer) (c : conn) (f : bool) (es : list gen_entry),
     In (OSendWantlist p c f es) (outs_after sdh ops1) -> c = K p).
Proof. exact (@Client_props3.C15_one_connection_suffices). Qed.

Print Assumptions C15_trace_connection_independence.
Print Assumptions C15_trace_connection_independence_refuted.
Print Assumptions C15_trace_close_sending_connection.
Print Assumptions C15_one_connection_suffices.

(* ---- trace level (package R): with another connection to the peer, closing any one connection at any point of any history never loses a wantlist
   silently: the per-peer record is untouched, the close produces no output, and if a request was outstanding on the closed connection the next wantlist
   is full over a remaining one.  Observation in theorem form: if the closed connection HAD acknowledged and its Failed report never arrives, the peer is
   never sent anything again although it keeps other connections (F12 seen from C15; libp2p delivers the handler's poll_close reports before the close). *)
From BS Require Import Types Wantlist Wantlist_proofs Client Client_proofs Client_proofs4 Corr_client
                       Client_proofs20 Client_proofs21 Client_proofs22 Client_proofs23 Client_props4.
From Coq Require Import ZArith List. Import ListNotations.
Open Scope N_scope.

Theorem C15_trace_close_keeps_exchange :
  forall (sdh : bool) (ops : list cop) (p : peer) (c : conn) (ps : peer_state) (c2 : conn),
  let s := st_after sdh ops in
  let s' := st_after sdh (ops ++ [CConnClosed p c]) in
  al_find N.eqb p (cs_peers s) = Some ps ->
  In c2 (p_conns ps) ->
  c2 <> c ->
  al_find N.eqb p (cs_peers s') =
  Some
    {| p_conns := n_remove c (p_conns ps); p_ss := p_ss ps; p_wl := p_wl ps; p_send_full := p_send_full ps |} /\
  snd (cstep s (CConnClosed p c)) = [] /\
  (forall t : time,
   p_ss ps = SsRequested t c ->
   (forall (d : list cop) (ch' : list (peer * conn)) (c' : conn) (f' : bool) (es' : list gen_entry),
    quiet p c s' d ->
    In (OSendWantlist p c' f' es') (snd (c_poll (st_after sdh ((ops ++ [CConnClosed p c]) ++ d)) ch')) ->
    f' = true /\ c' <> c) /\
   (forall (ms : N) (ch' : list (peer * conn)),
    (cs_now s + ms - t <? RECEIVE_REQUEST_TIMEOUT) = false ->
    exists (c' : conn) (es' : list gen_entry),
      In (OSendWantlist p c' true es')
        (snd (c_poll (st_after sdh ((ops ++ [CConnClosed p c]) ++ [CAdvance ms])) ch')) /\
      c' <> c /\ In c' (p_conns ps))) /\
  (p_ss ps = SsFailed c ->
   forall ch' : list (peer * conn),
   exists (c' : conn) (es' : list gen_entry),
     In (OSendWantlist p c' true es') (snd (c_poll s' ch')) /\ c' <> c /\ In c' (p_conns ps)).
Proof. exact (@Client_props4.C15_trace_close_keeps_exchange). Qed.

Theorem C15_trace_close_acked_starves :
  forall (sdh : bool) (p : peer) (c : conn) (d pre : list cop) (ch' : list (peer * conn)) 
    (c' : conn) (f' : bool) (es' : list gen_entry),
  acked_on p c (st_after sdh pre) ->
  no_report_alive p c (st_after sdh pre) d ->
  ~ In (OSendWantlist p c' f' es') (snd (c_poll (st_after sdh (pre ++ d)) ch')).
Proof. exact (@Client_props4.C15_trace_close_acked_starves). Qed.

Print Assumptions C15_trace_close_keeps_exchange.
Print Assumptions C15_trace_close_acked_starves.
