(* ConnHandler.v — executable model of the connection handler AS A WHOLE: /repo/src/lib.rs `struct ConnHandler`
   (lines 306-315) and its `impl ConnectionHandler` (lines 320-406), i.e. the glue between the three parts that
   already have models of their own:
     client half   `client_handler: ClientConnectionHandler`   Handler.v        (poll_iter, do_*, hstate)
     server half   `server_handler: ServerConnectionHandler`   ServerHandler.v  (sh_iter, sh_do_*, shstate)
     inbound side  `incoming_streams: SelectAll<IncomingStream>`  Streams.v     (poll_stream, sstate)
   Definitions only; theorems are in ConnHandler_proofs.v, the harness entry points in Corr_connhandler.v.

   on_behaviour_event (lib.rs:332-341)
     SendWantlist w            -> client_handler.send_wantlist(w)                       KSendWantlist w
     QueueOutgoingMessages bs  -> server_handler.queue_messages(bs)                     KQueue bs
   on_connection_event (lib.rs:343-375)
     FullyNegotiatedInbound                 -> incoming_streams.push(IncomingStream::new(..))   KInbound evs
     FullyNegotiatedOutbound, Client        -> client_handler.set_stream(..)                    KSetStream RqClient
     FullyNegotiatedOutbound, Server        -> server_handler.set_stream(..)                    KSetStream RqServer
     DialUpgradeError, Client               -> client_handler.stream_allocation_failed()        KAllocFailed RqClient
     DialUpgradeError, Server               -> NOTHING ("// TODO", lib.rs:364-366)              KAllocFailed RqServer
   connection_keep_alive (lib.rs:377)  = !client_handler.halted()                               k_keep_alive
   poll_close (lib.rs:381-387)         = client_handler.poll_close alone; neither the server half nor the inbound
                                         streams are touched                                    KPollClose sc
   poll (lib.rs:389-405), ONE call:
       if let Ready(Some(msg)) = incoming_streams.poll_next(cx) { return Ready(NotifyBehaviour(IncomingMessage(peer, msg))) }
       if let Ready(ev) = client_handler.poll(cx) { return Ready(ev) }
       if let Ready(ev) = server_handler.poll(cx) { return Ready(ev) }
       Pending
     = `kcall`.  `KPoll sc ss` = `poll` is called again and again until it returns Pending (`kpoll_loop`); every
     Ready gives one output, interleaved with what the two outbound streams record while the calls run.

   Scripts (convention S1-S6 of FramedWrite.v).  The two halves write to DIFFERENT substreams, so a `KPoll` carries
   one script per half: `sc` becomes the script of the stream held by the client half, `ss` of the stream held by
   the server half; what is left of either when the op ends is discarded.  Within the op a script is NOT reset
   between the successive calls of `poll`: each call of a half goes on where its previous call stopped.
   `KPollClose sc`: `sc` is the script of the client half's stream.

   Inbound streams.  `KInbound evs` opens inbound stream number k (0,1,2,... in KInbound order) whose successive
   `poll_read`s have the outcomes `evs` (Framed.read_ev); when `evs` is used up every poll_read is Pending.
   SelectAll = FuturesUnordered polls a member only when that member has been woken (a newly pushed member counts
   as woken; a member that yielded an item is pushed again, hence woken).  Wake-up convention (implemented by the
   harness's reader): a poll_read that returns Pending never wakes by itself; at the START of every `KPoll` all
   members that are still alive are woken ("more data may have arrived").  Hence in one `KPoll` every live member
   is polled until it returns Pending or ends, a `ReadPending` event ends the member's activity for this op, and
   after the first call in which `incoming_streams.poll_next` is not Ready(Some) it stays so for the rest of the
   op.  The ORDER in which SelectAll serves several woken members is its own business; the model serves them by
   increasing stream number, and only per-stream projections of the KIncoming outputs are meaningful (the
   harness compares exactly those, plus the positions at which KIncoming outputs occur).
   A member whose poll panics or does not return (known class F2, inside a frame body) takes the connection task
   down: output KInFatal, and the run is over (as after HPanic of the client half).

   Outputs of one op, in order of occurrence: KIncoming k msg | KClient o | KServer o | KInFatal k, where `o` are
   the outputs of Handler.v / ServerHandler.v (stream numbers are per half: client streams 0,1,.. in
   `KSetStream RqClient` order, server streams 0,1,.. in `KSetStream RqServer` order). *)
From BS Require Export Bytes Types FramedWrite Handler ServerHandler Streams.
Open Scope N_scope.

(* lib.rs:301-304 *)
Inductive requester := RqClient | RqServer.

Inductive kop :=
| KSendWantlist (w : wantlist)
| KQueue (blocks : list blk)
| KInbound (evs : list read_ev)
| KSetStream (r : requester)
| KAllocFailed (r : requester)
| KAdvance (ms : N)
| KPoll (sc ss : list io)
| KPollClose (sc : list io).

Inductive kout :=
| KIncoming (stream : N) (m : incoming)
| KClient (o : hout)
| KServer (o : shout)
| KInFatal (stream : N).

(* a member of the SelectAll: the IncomingStream and whether its task is in the ready-to-run queue *)
Record kin := MkKin { ki_st : sstate; ki_awake : bool }.

Record kstate := MkK {
  k_client : hstate;
  k_server : shstate;
  k_in : list kin;                 (* every inbound stream ever opened, in order; ended ones keep their slot *)
  (* ghost *)
  k_fatal : bool;                  (* an inbound poll panicked / did not return: the run is over *)
  k_exhausted : bool               (* the fuel of kpoll_loop ran out (ConnHandler_proofs: impossible) *)
}.

Definition k_init (c : conn) : kstate := MkK (h_init c) sh_init [] false false.

Definition k_set_client (st : kstate) (h : hstate) : kstate :=
  MkK h (k_server st) (k_in st) (k_fatal st) (k_exhausted st).
Definition k_set_server (st : kstate) (s : shstate) : kstate :=
  MkK (k_client st) s (k_in st) (k_fatal st) (k_exhausted st).
Definition k_set_in (st : kstate) (c : list kin) : kstate :=
  MkK (k_client st) (k_server st) c (k_fatal st) (k_exhausted st).
Definition k_set_fatal (st : kstate) : kstate :=
  MkK (k_client st) (k_server st) (k_in st) true (k_exhausted st).
Definition k_set_exhausted (st : kstate) : kstate :=
  MkK (k_client st) (k_server st) (k_in st) (k_fatal st) true.

(* the run is over: a debug_assert of the client half fired, or an inbound poll went down *)
Definition k_dead (st : kstate) : bool := h_panicked (k_client st) || k_fatal st.

Definition ss_alive (s : sstate) : bool := sfinal_eqb (ss_status s) SfPending.

(* connection_keep_alive, lib.rs:377 *)
Definition k_keep_alive (st : kstate) : bool := keep_alive (k_client st).

(* incoming_streams.len() *)
Definition k_alive (st : kstate) : N := conn_alive (map ki_st (k_in st)).

Definition wake_all (c : list kin) : list kin := map (fun m => MkKin (ki_st m) true) c.

Section ConnHandler.
Variable encode : message -> bytes.         (* bytes `Codec::encode` appends for a message *)
Variable block_size : blk -> N.             (* 1 + sizeof_len(block.get_size()) *)
Variable msg : Type.
Variable parse : bytes -> N -> parse_result msg.      (* the body parser of the codec *)
Variable proc : msg -> pm_result.                     (* process_message *)

(* ---------- ONE call of `ClientConnectionHandler::poll` (client.rs:651-718) ----------
   Handler.poll_iter is one pass through the body of its `loop`; a `continue` goes round inside the same call.
   Result: Some e = Poll::Ready(e), None = Poll::Pending; the script is what is left for the NEXT call. *)
Fixpoint hpoll_call (fuel : nat) (st : hstate) (script : list io)
  : option hout * hstate * list io * list hout :=
  match fuel with
  | O => (None, set_exhausted st, script, [])
  | S f =>
      match poll_iter encode st script with
      | (IrPending, st', s', o) => (None, st', s', o)
      | (IrReady e, st', s', o) => (Some e, st', s', o)
      | (IrContinue, st', s', o) =>
          let '(r, st'', s'', o') := hpoll_call f st' s' in (r, st'', s'', o ++ o')
      end
  end.

Definition hcall_fuel : nat := 8.

(* ---------- ONE call of `ServerConnectionHandler::poll` = poll_outgoing (server.rs:388-434) ---------- *)
Fixpoint shpoll_call (fuel : nat) (st : shstate) (script : list io)
  : option shout * shstate * list io * list shout :=
  match fuel with
  | O => (None, MkSH (sh_sink st) (sh_pending st) (sh_next st) true (sh_started st) (sh_queued st), script, [])
  | S f =>
      match sh_iter encode block_size st script with
      | (SiPending, st', s', o) => (None, st', s', o)
      | (SiReady e, st', s', o) => (Some e, st', s', o)
      | (SiContinue, st', s', o) =>
          let '(r, st'', s'', o') := shpoll_call f st' s' in (r, st'', s'', o ++ o')
      end
  end.

(* ---------- ONE call of `incoming_streams.poll_next` (SelectAll over FuturesUnordered) ----------
   The woken live members are polled (here: by increasing number) until one yields an item.  A member that
   returns Pending leaves the ready-to-run queue; one that returns Ready(None) is dropped; one that yields
   stays woken (SelectAll pushes it again).  Third component: the member whose poll was fatal, if any. *)
Fixpoint in_next (i : N) (c : list kin) : option (N * incoming) * list kin * option N :=
  match c with
  | [] => (None, [], None)
  | m :: c' =>
      if ki_awake m && ss_alive (ki_st m) then
        let (o, s') := poll_stream parse proc (ki_st m) in
        match o with
        | Some inc => (Some (i, inc), MkKin s' true :: c', None)
        | None =>
            if sfinal_fatal (ss_status s') then (None, MkKin s' false :: c', Some i)
            else let '(r, c'', f) := in_next (i + 1) c' in (r, MkKin s' false :: c'', f)
        end
      else let '(r, c'', f) := in_next (i + 1) c' in (r, m :: c'', f)
  end.

(* ---------- ONE call of `ConnHandler::poll` (lib.rs:389-405) ---------- *)
Inductive kcall_res := KrPending | KrReady | KrFatal.

Definition kcall (st : kstate) (sc ss : list io) : kcall_res * kstate * list io * list io * list kout :=
  match in_next 0 (k_in st) with
  | (_, c', Some k) => (KrFatal, k_set_fatal (k_set_in st c'), sc, ss, [KInFatal k])
  | (Some (k, inc), c', None) => (KrReady, k_set_in st c', sc, ss, [KIncoming k inc])
  | (None, c', None) =>
      let st1 := k_set_in st c' in
      let '(rc, h', sc', oc) := hpoll_call hcall_fuel (k_client st) sc in
      let st2 := k_set_client st1 h' in
      match rc with
      | Some e => (KrReady, st2, sc', ss, map KClient (oc ++ [e]))
      | None =>
          (* the server half is polled only when the client half is Pending in this very call *)
          let '(rs, s', ss', os) := shpoll_call (shpoll_fuel (k_server st)) (k_server st) ss in
          let st3 := k_set_server st2 s' in
          match rs with
          | Some e => (KrReady, st3, sc', ss', map KClient oc ++ map KServer (os ++ [e]))
          | None => (KrPending, st3, sc', ss', map KClient oc ++ map KServer os)
          end
      end
  end.

(* `poll` called until it returns Pending *)
Fixpoint kpoll_loop (fuel : nat) (st : kstate) (sc ss : list io) : kstate * list kout :=
  match fuel with
  | O => (k_set_exhausted st, [])
  | S f =>
      match kcall st sc ss with
      | (KrPending, st', _, _, o) => (st', o)
      | (KrFatal, st', _, _, o) => (st', o)
      | (KrReady, st', sc', ss', o) => let '(st'', o') := kpoll_loop f st' sc' ss' in (st'', o ++ o')
      end
  end.

(* every Ready consumes a read event / a buffered frame of some inbound stream, or an element of the client
   half's queue, or is one of the few OutboundSubstreamRequests *)
Definition in_fuel (c : list kin) : nat :=
  fold_right (fun m acc => (stream_fuel (ss_buf (ki_st m)) (ss_evs (ki_st m)) + acc)%nat) O c.

Definition kpoll_fuel (st : kstate) : nat :=
  (in_fuel (k_in st) + 2 * (length (h_queue (k_client st)) + 8) + 4)%nat.

Definition k_do_poll (st : kstate) (sc ss : list io) : kstate * list kout :=
  let st0 := k_set_in st (wake_all (k_in st)) in
  kpoll_loop (kpoll_fuel st0) st0 sc ss.

Definition kstep (st : kstate) (op : kop) : kstate * list kout :=
  if k_dead st then (st, []) else
  match op with
  | KSendWantlist w =>
      let '(h, o) := do_send_wantlist (k_client st) w in (k_set_client st h, map KClient o)
  | KQueue bs => (k_set_server st (sh_do_queue (k_server st) bs), [])
  | KInbound evs => (k_set_in st (k_in st ++ [MkKin (ss_init evs) true]), [])
  | KSetStream RqClient =>
      let '(h, o) := do_set_stream (k_client st) in (k_set_client st h, map KClient o)
  | KSetStream RqServer =>
      let '(s, o) := sh_do_set_stream (k_server st) in (k_set_server st s, map KServer o)
  | KAllocFailed RqClient =>
      let '(h, o) := do_alloc_failed (k_client st) in (k_set_client st h, map KClient o)
  | KAllocFailed RqServer => (st, [])                                       (* lib.rs:364-366: TODO *)
  | KAdvance ms => (k_set_client st (set_now (k_client st) (h_now (k_client st) + ms)), [])
  | KPoll sc ss => k_do_poll st sc ss
  | KPollClose sc =>
      let '(h, o) := do_poll_close (k_client st) sc in (k_set_client st h, map KClient o)
  end.

Fixpoint krun_trace (st : kstate) (ops : list kop) : kstate * list (list kout) :=
  match ops with
  | [] => (st, [])
  | op :: ops' =>
      let '(st', o) := kstep st op in
      let '(st'', os) := krun_trace st' ops' in
      (st'', o :: os)
  end.

Definition connhandler_run (c : conn) (ops : list kop) : list (list kout) := snd (krun_trace (k_init c) ops).
Definition connhandler_final (c : conn) (ops : list kop) : kstate := fst (krun_trace (k_init c) ops).

End ConnHandler.

Arguments in_next {msg} parse proc i c.
Arguments kcall encode block_size {msg} parse proc st sc ss.
Arguments kpoll_loop encode block_size {msg} parse proc fuel st sc ss.
Arguments k_do_poll encode block_size {msg} parse proc st sc ss.
Arguments kstep encode block_size {msg} parse proc st op.
Arguments krun_trace encode block_size {msg} parse proc st ops.
Arguments connhandler_run encode block_size {msg} parse proc c ops.
Arguments connhandler_final encode block_size {msg} parse proc c ops.

(* ---------- projections of outputs ---------- *)
Definition client_outs (o : list kout) : list hout :=
  flat_map (fun e => match e with KClient x => [x] | _ => [] end) o.
Definition server_outs (o : list kout) : list shout :=
  flat_map (fun e => match e with KServer x => [x] | _ => [] end) o.
Definition inbound_outs (o : list kout) : list (N * incoming) :=
  flat_map (fun e => match e with KIncoming k m => [(k, m)] | _ => [] end) o.
