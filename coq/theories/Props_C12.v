(* Props_C12.v — C12: CID prefixes identify the CID exactly.
   Nothing but the property theorems (closed by `exact`), statement pins, non-vacuity examples and
   Print Assumptions. The lemmas are in Prefix_proofs.v, the model in Cid.v / Prefix.v / Hasher.v. *)
From BS Require Import Bytes Varint Cid Prefix Hasher Prefix_proofs Tie_prefix.
Open Scope N_scope.

(* the prefix derived from a CID, serialised and parsed back, is unchanged — both versions, every codec
   and hash code below 2^64 (multi-byte varints included), every digest length the type allows *)
Theorem C12_prefix_roundtrip : forall S c, wf_cid S c ->
  prefix_from_bytes (prefix_to_bytes (prefix_of_cid c)) = Some (prefix_of_cid c).
Proof. intros S c H. exact (prefix_roundtrip _ (wf_prefix_of_cid S c H)). Qed.

(* rebuilding from the prefix of c and a byte string gives c exactly when the table hashes the byte
   string to c's multihash — for an arbitrary hasher table H *)
Theorem C12_rebuild_iff : forall S (H : hash_fn) c data, wf_cid S c ->
  (prefix_to_cid S H (prefix_of_cid c) data = TOk c <-> H (mh_code (c_hash c)) data = HOk (c_hash c)).
Proof. exact rebuild_iff. Qed.

(* a prefix declaring a digest longer than the configured maximum is rejected, never truncated *)
Theorem C12_oversize_rejected : forall S (H : hash_fn) p data,
  S < p_size p -> prefix_to_cid S H p data = TErr InvalidMultihashSize.
Proof. exact oversize_rejected. Qed.

(* whatever is built comes from the table's own answer for the declared code, with the prefix's version
   (and codec) *)
Theorem C12_rebuilt_from_table : forall S (H : hash_fn) p data c,
  prefix_to_cid S H p data = TOk c ->
  p_size p <= S /\ H (p_code p) data = HOk (c_hash c) /\ c_ver c = p_ver p /\
  (p_ver p = V1 -> c_codec c = p_codec p).
Proof. exact to_cid_ok_inv. Qed.

(* CIDv0 only in its fixed form *)
Theorem C12_v0_form : forall bs p, prefix_from_bytes bs = Some p -> p_ver p = V0 ->
  p = MkPrefix V0 DAG_PB SHA2_256 SHA2_256_SIZE.
Proof. exact from_bytes_v0. Qed.

(* the built-in table never truncates either: a digest longer than S is InvalidMultihashSize *)
Theorem C12_std_hasher_never_truncates : forall S raw code data d,
  raw code data = Some d -> S < len d -> std_hasher S raw code data = HErr InvalidMultihashSize.
Proof.
  intros S raw code data d Hr Hlt. unfold std_hasher, mh_wrap. rewrite Hr.
  destruct (S <? len d) eqn:E; [reflexivity|]. apply N.ltb_ge in E. apply N.lt_nge in Hlt. contradiction.
Qed.

Check C12_prefix_roundtrip : forall S c, wf_cid S c ->
  prefix_from_bytes (prefix_to_bytes (prefix_of_cid c)) = Some (prefix_of_cid c).
Check C12_rebuild_iff : forall S (H : hash_fn) c data, wf_cid S c ->
  (prefix_to_cid S H (prefix_of_cid c) data = TOk c <-> H (mh_code (c_hash c)) data = HOk (c_hash c)).
Check C12_oversize_rejected : forall S (H : hash_fn) p data,
  S < p_size p -> prefix_to_cid S H p data = TErr InvalidMultihashSize.

(* non-vacuity: a v1 CID with a two-byte codec varint and a v0 CID are well-formed *)
Definition ex_digest : bytes := repeat 7 32.
Example ex_v1_wf : wf_cid 64 (MkCid V1 300 (MkMh 18 ex_digest)).
Proof.
  unfold wf_cid, wf_mh; cbn [c_codec c_hash c_ver mh_code mh_digest].
  repeat split; try (vm_compute; reflexivity); try (vm_compute; discriminate); try discriminate.
  apply wf_bytesb_spec. vm_compute. reflexivity.
Qed.
Example ex_v0_wf : wf_cid 64 (MkCid V0 DAG_PB (MkMh SHA2_256 ex_digest)).
Proof.
  unfold wf_cid, wf_mh; cbn [c_codec c_hash c_ver mh_code mh_digest].
  repeat split; try (vm_compute; reflexivity); try (vm_compute; discriminate).
  apply wf_bytesb_spec. vm_compute. reflexivity.
Qed.
Example ex_roundtrip_runs :
  prefix_to_bytes (prefix_of_cid (MkCid V1 300 (MkMh 18 ex_digest))) = [1; 172; 2; 18; 32].
Proof. vm_compute. reflexivity. Qed.

Print Assumptions C12_prefix_roundtrip.
Print Assumptions C12_rebuild_iff.
Print Assumptions C12_oversize_rejected.
Print Assumptions C12_rebuilt_from_table.
Print Assumptions C12_v0_form.
Print Assumptions C12_std_hasher_never_truncates.
