(* Corr_srvhandler.v — engine `srvhandler`: the server half of beetswap's ConnHandler over a scripted
   substream against ServerHandler.v instantiated with the real encoder and the real size function.
   Oracle C09 (outbound): every message started fits the limit (when each block alone does) and the
   payloads, in order, are the queued blocks. *)
From BS Require Export Bytes Proto Types Qp ProtoCodec FramedWrite ServerHandler Codec.
Open Scope N_scope.

Definition blk_size (b : blk) : N := 1 + sizeof_len (size_block (block_of b)).

Inductive shsnap := SHSnap (sink : N) (pending : option (list (N * N))).
Definition shin := list shop.
Definition shobs := (list shout * shsnap)%type.
Definition case := (shin * list shobs)%type.

Definition shsnap_of (st : shstate) : shsnap := let '(k, p) := sh_snapshot st in SHSnap k p.

Fixpoint run_obs (st : shstate) (ops : list shop) : list shobs :=
  match ops with
  | [] => []
  | op :: ops' => let '(st', o) := shstep codec_encode blk_size st op in (o, shsnap_of st') :: run_obs st' ops'
  end.
Definition model (x : shin) : list shobs := run_obs sh_init x.

Definition shout_eqb (a b : shout) : bool :=
  match a, b with
  | SHOpenStream, SHOpenStream => true
  | SHWrote i x, SHWrote j y => (i =? j) && bytes_eqb x y
  | SHDropped i, SHDropped j => i =? j
  | _, _ => false
  end.
Definition shsnap_eqb (a b : shsnap) : bool :=
  match a, b with
  | SHSnap k1 p1, SHSnap k2 p2 =>
      (k1 =? k2) && option_eqb (list_eqb (fun x y => (fst x =? fst y) && (snd x =? snd y))) p1 p2
  end.
Definition shobs_eqb (a b : shobs) : bool := list_eqb shout_eqb (fst a) (fst b) && shsnap_eqb (snd a) (snd b).
Definition corr (x : case) : bool := list_eqb shobs_eqb (model (fst x)) (snd x).

Fixpoint first_diff (i : N) (a b : list shobs) : option N :=
  match a, b with
  | [], [] => None
  | x :: a', y :: b' => if shobs_eqb x y then first_diff (i + 1) a' b' else Some i
  | _, _ => Some i
  end.
Definition where_diff (x : case) := first_diff 0 (model (fst x)) (snd x).

(* C09 outbound on the implementation's bytes: the bytes accepted by each stream are a sequence of frames
   (cut the concatenation with the model's decoder: Codec.codec_decode), each frame body <= MAX_MESSAGE_SIZE
   unless it holds a single block, and the payloads of all complete frames of a stream, in order, are a
   prefix of the blocks queued while ... — checked for runs without stream errors: the concatenated payloads
   of the streams, in stream order, are a prefix of the queued blocks. *)
Fixpoint frames_of (fuel : nat) (buf : bytes) : option (list message) :=
  match fuel with
  | O => Some []
  | S f =>
      match buf with
      | [] => Some []
      | _ => match codec_decode true buf with
             | DItem m rest => option_map (cons m) (frames_of f rest)
             | DNeedMore => Some []          (* a frame still being written *)
             | _ => None
             end
      end
  end.

Definition stream_bytes (i : N) (obs : list shobs) : bytes :=
  flat_map (fun ob => flat_map (fun o => match o with SHWrote j bs => if j =? i then bs else [] | _ => [] end) (fst ob)) obs.

Definition n_streams (ops : list shop) : N := len (filter (fun o => match o with SHSetStream => true | _ => false end) ops).

Fixpoint seqN (n : nat) (start : N) : list N := match n with O => [] | S k => start :: seqN k (start + 1) end.

Definition queued (ops : list shop) : list blk := flat_map (fun o => match o with SHQueue bs => bs | _ => [] end) ops.
Definition has_io_error (ops : list shop) : bool :=
  existsb (fun o => match o with SHPoll s => existsb (fun x => match x with IoErr | WZero | WAccept 0 => true | _ => false end) s | _ => false end) ops.

Definition block_eqb' (a : block) (b : blk) : bool := bytes_eqb (b_prefix a) (fst b) && bytes_eqb (b_data a) (snd b).
Fixpoint is_prefix_blocks (a : list block) (b : list blk) : bool :=
  match a, b with
  | [], _ => true
  | x :: a', y :: b' => block_eqb' x y && is_prefix_blocks a' b'
  | _, [] => false
  end.

Definition oracle_C09 (x : case) : bool :=
  let ops := fst x in let obs := snd x in
  let streams := seqN (N.to_nat (n_streams ops)) 0 in
  let per_stream := map (fun i => frames_of (length (stream_bytes i obs) + 1) (stream_bytes i obs)) streams in
  forallb (fun r => match r with
                    | Some ms => forallb (fun m => (size_message m <=? MAX_MESSAGE_SIZE)
                                                   || (len (m_payload m) =? 1)) ms
                    | None => false
                    end) per_stream
  && (if has_io_error ops || existsb (fun ob => existsb (fun o => match o with SHDropped _ => true | _ => false end) (fst ob)) obs then true
      else is_prefix_blocks (flat_map (fun r => match r with Some ms => flat_map m_payload ms | None => [] end) per_stream) (queued ops)).

(* C06 at the connection handler: a block handed to the handler (QueueOutgoingMessages: the behaviour has already taken the want
   off its books) must not be lost or overtaken.  In a run without stream faults the blocks of the complete frames written so far,
   in stream order, are a prefix of the queued blocks — a block that is skipped while a later one is written makes this false. *)
Definition oracle_C06 (x : case) : bool :=
  let ops := fst x in let obs := snd x in
  let streams := seqN (N.to_nat (n_streams ops)) 0 in
  let per_stream := map (fun i => frames_of (length (stream_bytes i obs) + 1) (stream_bytes i obs)) streams in
  if has_io_error ops || existsb (fun ob => existsb (fun o => match o with SHDropped _ => true | _ => false end) (fst ob)) obs then true
  else forallb (fun r => match r with Some _ => true | None => false end) per_stream
       && is_prefix_blocks (flat_map (fun r => match r with Some ms => flat_map m_payload ms | None => [] end) per_stream) (queued ops).

Definition oracle (x : case) : bool := oracle_C09 x.
