(* Corr_stream.v — engine `stream`: the real IncomingStream (FramedRead<_, Codec> + process_message) fed by a
   scripted reader whose every poll_read outcome is given (a chunk of bytes, end of stream, an I/O error,
   Pending), against Framed.run_stream over the real body parser composed with Incoming.process_message.
   Ties Framed.v (model of asynchronous-codec's FramedRead2) to the implementation; oracles for C10 (chunking
   independence, no truncated message), C16 (messages before a bad frame are delivered, the stream then ends). *)
From BS Require Export Bytes Varint Cid Prefix Hasher Proto Incoming Qp ProtoCodec Frame Framed Codec Corr_incoming.
Open Scope N_scope.

(* how the stream ended, as the harness sees it: Ready(None), or still Pending when the script ran out *)
Inductive sfinal := SEnded | SPending | SPanicked | SHung.

(* cap, overflow checks, the read script, the table's answers for the (code, data) pairs that can be asked,
   and the same bytes as ONE chunk (the harness also runs the implementation on that) *)
Inductive stin := StIn (cap : N) (chk : bool) (evs : list read_ev) (answers : list (N * bytes * hash_result)).
(* messages yielded by the stream, in order, and how it ended — for the script, and for the whole-bytes run *)
Definition stout := ((list iout * sfinal) * (list iout * sfinal))%type.
Definition case := (stin * stout)%type.

(* IncomingStream::poll_next over the decoded messages: process each; a fatal one ends the stream; an empty one is skipped *)
Fixpoint deliver (cap : N) (H : hash_fn) (ms : list message) (fin : final) : list iout * sfinal :=
  match ms with
  | [] => ([], match fin with
               | FEnd | FErr => SEnded
               | FPending => SPending
               | FPanic => SPanicked
               | FLoop | FFuel => SHung
               end)
  | m :: ms' =>
      match process_message cap H m with
      | PmClose => ([], SEnded)
      | PmPanic => ([], SPanicked)
      | PmOk inc =>
          let '(rest, f) := deliver cap H ms' fin in
          if forwarded inc then (flat (PmOk inc) :: rest, f) else (rest, f)
      end
  end.

Definition all_bytes (evs : list read_ev) : bytes :=
  flat_map (fun e => match e with Chunk bs => bs | _ => [] end) evs.
(* the script ends the stream iff it contains an end-of-stream or error event *)
Definition ends (evs : list read_ev) : bool :=
  existsb (fun e => match e with Eof | ReadErr | Chunk [] => true | _ => false end) evs.

Definition run (cap : N) (chk : bool) (H : hash_fn) (evs : list read_ev) : list iout * sfinal :=
  let '(ms, fin) := codec_run_stream chk evs in deliver cap H ms fin.

Definition model (x : stin) : stout :=
  match x with
  | StIn cap chk evs answers =>
      let H := lookup_answer answers in
      (run cap chk H evs,
       run cap chk H (match all_bytes evs with [] => [] | bs => [Chunk bs] end ++ (if ends evs then [Eof] else [])))
  end.

Definition sfinal_eqb (a b : sfinal) : bool :=
  match a, b with SEnded, SEnded | SPending, SPending | SPanicked, SPanicked | SHung, SHung => true | _, _ => false end.
Definition res_eqb (a b : list iout * sfinal) : bool := list_eqb iout_eqb (fst a) (fst b) && sfinal_eqb (snd a) (snd b).

Definition corr (x : case) : bool :=
  let '(m1, m2) := model (fst x) in res_eqb m1 (fst (snd x)) && res_eqb m2 (snd (snd x)).

(* C10 on the implementation's outputs: however the bytes were cut into reads (and wherever Pending wake-ups were
   inserted), the messages delivered are those delivered for the same bytes in one read — as long as no read
   error was injected in the middle (an error legitimately ends the stream earlier) *)
Definition no_mid_error (evs : list read_ev) : bool :=
  negb (existsb (fun e => match e with ReadErr => true | _ => false end) evs)
  && match evs with [] => true | _ => let body := removelast evs in negb (existsb (fun e => match e with Eof | Chunk [] => true | _ => false end) body) end.

(* does any frame of the byte stream fall in the known class F2 (the body parser overruns a nested length and then
   reads bytes that lie beyond the frame, so that the outcome depends on what has been buffered)? *)
Fixpoint stream_overrun (fuel : nat) (buf : bytes) : bool :=
  match fuel with
  | O => false
  | S f =>
      match buf with
      | [] => false
      | _ => codec_overrun buf ||
             match uv_decode buf with
             | UvOk n rest => if (max_message_size <? n) || (len rest <? n) then false else stream_overrun f (dropN n rest)
             | _ => false
             end
      end
  end.

Definition known_F2 (x : case) : bool :=
  match x with
  | (StIn _ _ evs _, _) => let bs := all_bytes evs in stream_overrun (length bs) bs
  end.

Definition oracle_C10 (x : case) : bool :=
  match x with
  | (StIn _ _ evs _, (r1, r2)) =>
      if no_mid_error evs && negb (known_F2 x) then list_eqb iout_eqb (fst r1) (fst r2) else true
  end.

(* C08: never a panic or a hang *)
Definition oracle_C08 (x : case) : bool :=
  known_F2 x ||
  match x with
  | (_, (r1, r2)) => negb (sfinal_eqb (snd r1) SPanicked) && negb (sfinal_eqb (snd r1) SHung)
                     && negb (sfinal_eqb (snd r2) SPanicked) && negb (sfinal_eqb (snd r2) SHung)
  end.

Definition oracle (x : case) : bool := oracle_C10 x && oracle_C08 x.
