(* Client_proofs4.v — C13, C15, C05, C14 and the remaining C03 theorems, on top of the phase theorem. *)
From BS Require Import Types Wantlist Wantlist_proofs Client Client_proofs Client_proofs3.
From Coq Require Import ZArith ZifyBool ZifyN ZifyNat Lia Permutation.
Open Scope N_scope.

(* ---------- a summary of one CPoll ---------- *)
Definition task_out (o : cout) : Prop :=
  match o with OGet _ _ | OPut _ _ | OResponse _ _ | OError _ _ => True | _ => False end.

Lemma tasks_outs_task_out s : Forall task_out (tasks_outs s).
Proof.
  unfold tasks_outs.
  pose proof (poll_next_ind (fun _ _ _ _ _ _ outs _ => Forall task_out outs)) as H.
  specialize (H (fun _ _ => Forall_nil _)).
  specialize (H (fun _ _ _ _ _ _ _ _ _ _ h => h)).
  specialize (H (fun _ _ _ _ _ _ _ _ => Forall_nil _)).
  assert (Hs : forall (tid : N) (rq : list N) (ts : list (N * task)) (nc : N) (t : task) (o : list cout)
                      (ts' : list (N * task)) (rq' : list N) (nc' : N) (outs : list cout) (res : option task_result),
             al_find N.eqb tid ts = Some t -> poll_task nc t = TpStart o ->
             Forall task_out outs -> Forall task_out (o ++ outs)).
  { intros tid rq ts nc t o ts' rq' nc' outs res _ Hp Ho. apply Forall_app. split; [|assumption].
    unfold poll_task in Hp. destruct (t_kind t).
    - destruct (t_aborted t); [discriminate|]. destruct (t_call t); [destruct (t_result t); discriminate|].
      injection Hp as <-. repeat constructor.
    - destruct (t_call t); [destruct (t_result t) as [[]|]; discriminate|]. injection Hp as <-. repeat constructor. }
  specialize (H Hs (cs_ready s) (cs_tasks s) (cs_next_call s)).
  destruct (poll_next (cs_ready s) (cs_tasks s) (cs_next_call s)) as [[[[ts rq] nc] outs] res]. exact H.
Qed.

Lemma handle_result_task_out s r : Forall task_out (snd (handle_task_result s r)).
Proof.
  destruct r as [q c res|ok bl|]; cbn [handle_task_result].
  - destruct res; cbn [snd]; repeat constructor.
    destruct (wl_insert (cs_wl (set_abort s (al_remove N.eqb q (cs_abort s)))) c) as [w' ins]. destruct ins; constructor.
  - destruct ok; constructor.
  - constructor.
Qed.

Lemma tasks_run_outs s outs s' : tasks_run s outs s' -> Forall task_out outs.
Proof.
  induction 1 as [s Hr | s r outs s' Hr Hrun IH]; [apply tasks_outs_task_out|].
  apply Forall_app. split; [apply tasks_outs_task_out|]. apply Forall_app. split; [apply handle_result_task_out | exact IH].
Qed.

Record poll_summary (s : cstate) (ch : list (peer * conn)) (l1 : list (peer * peer_state)) (w : wl)
       (outsC : list cout) : Prop := MkSummary {
  ps_link : peers_link (cs_peers s) l1;
  ps_timer : timer_ready s = true -> forall p ps, In (p, ps) l1 -> p_send_full ps = true;
  ps_deadline : cs_deadline (fst (c_poll s ch)) =
                if timer_ready s then cs_now s + SEND_FULL_INTERVAL else cs_deadline s;
  ps_outsC : Forall task_out outsC;
  ps_peers : cs_peers (fst (c_poll s ch)) = flat_map (uh_keep (cs_now s) w ch) l1;
  ps_queue : cs_queue (fst (c_poll s ch)) = [];
  ps_now : cs_now (fst (c_poll s ch)) = cs_now s;
  ps_outs : snd (c_poll s ch) =
            map out_of_event (cs_queue s) ++ outsC ++ flat_map (uh_outs (cs_now s) w ch) l1
            ++ map out_of_event (flat_map (uh_events (cs_now s) w ch) l1)
}.

Lemma c_poll_summary s ch : exists l1 w outsC, poll_summary s ch l1 w outsC.
Proof.
  destruct (c_poll_phases s ch) as (outsC & sC & Hrun & Hpoll).
  destruct (tasks_run_frame _ _ _ Hrun) as (F1 & F2 & F3 & F4 & F5).
  destruct (after_timer_props s) as (HqB & HtB & HnB).
  rewrite uh_loop_flat in Hpoll. rewrite F2, HnB in Hpoll.
  exists (cs_peers sC), (cs_wl sC), outsC. constructor.
  - eapply peers_link_trans; [apply after_timer_peers | apply (tasks_run_peers _ _ _ Hrun)].
  - intros Ht p ps Hin. destruct (after_timer_fired s Ht) as [_ Hall].
    destruct (peers_link_in _ _ _ _ (tasks_run_peers _ _ _ Hrun) Hin) as (ps0 & Hin0 & (_ & _ & Hsf)).
    specialize (Hall _ _ Hin0). destruct Hsf as [Hsf | Hsf]; congruence.
  - rewrite Hpoll. cbn [fst set_queue set_peers cs_deadline]. rewrite F3. unfold after_timer.
    change (timer_ready (set_queue s [])) with (timer_ready s). destruct (timer_ready s); reflexivity.
  - apply (tasks_run_outs _ _ _ Hrun).
  - rewrite Hpoll. reflexivity.
  - rewrite Hpoll. reflexivity.
  - rewrite Hpoll. cbn [fst set_queue set_peers cs_now]. rewrite F2. exact HnB.
  - rewrite Hpoll. reflexivity.
Qed.

(* ---------- invariants at operation boundaries ---------- *)
Definition INVS (s : cstate) : Prop :=
  NoDup (map fst (cs_peers s)) /\ forall p c f es, ~ In (EvSend p c f es) (cs_queue s).

Lemma peers_ins_keys p ps l k : In k (map fst (peers_ins p ps l)) <-> k = p \/ In k (map fst l).
Proof.
  induction l as [|[p' ps'] l IH]; cbn [peers_ins map fst In]; [intuition|].
  destruct (p <? p'); cbn [map fst In]; [intuition|]. rewrite IH. intuition.
Qed.

Lemma peers_ins_NoDup p ps l : NoDup (map fst l) -> ~ In p (map fst l) -> NoDup (map fst (peers_ins p ps l)).
Proof.
  induction l as [|[p' ps'] l IH]; cbn [peers_ins map fst]; intros Hnd Hn; [constructor; [intros [] | constructor]|].
  destruct (p <? p'); cbn [map fst]; [constructor; assumption|].
  inversion Hnd as [|? ? Hn' Hnd']; subst. constructor.
  - rewrite peers_ins_keys. intros [-> | H]; [apply Hn; left; reflexivity | contradiction].
  - apply IH; [assumption|]. intros H; apply Hn; right; exact H.
Qed.

Lemma inc_block_queue a b e :
  In e (ia_queue (inc_block a b)) -> In e (ia_queue a) \/ exists q d, e = EvResponse q d.
Proof.
  unfold inc_block. destruct (ia_panic a); [auto|]. destruct b as [c data].
  destruct (wl_remove (ia_wl a) c) as [w' removed]. destruct removed; cbn [negb].
  - cbn [ia_queue]. rewrite in_app_iff, in_map_iff. intros [H | (q & <- & _)]; eauto.
  - destruct (al_mem cid_eqb c (ia_c2q a)); auto.
Qed.

Lemma inc_blocks_queue bl : forall a e,
  In e (ia_queue (fold_left inc_block bl a)) -> In e (ia_queue a) \/ exists q d, e = EvResponse q d.
Proof.
  induction bl as [|b bl IH]; intros a e H; cbn [fold_left] in H; [auto|].
  destruct (IH _ _ H) as [H1 | H1]; [apply inc_block_queue in H1; exact H1 | auto].
Qed.

Lemma INVS_step s o : INVS s -> INVS (fst (cstep s o)).
Proof.
  intros [Hnd Hq]. destruct o; cbn [cstep fst].
  - unfold c_new_conn. destruct (al_mem N.eqb p (cs_peers s)) eqn:M; split; cbn [set_peers cs_peers cs_queue]; auto.
    + rewrite al_modify_keys. exact Hnd.
    + apply peers_ins_NoDup; [exact Hnd|]. intros H. apply (al_mem_In _ Neqb_spec) in H. congruence.
  - unfold c_conn_closed. destruct (al_find N.eqb p (cs_peers s)); [|split; assumption].
    destruct (p_conns (remove_conn c p0)); split; cbn [set_peers cs_peers cs_queue]; auto.
    + apply al_remove_NoDup. exact Hnd.
    + rewrite al_modify_keys. exact Hnd.
  - unfold c_get. destruct c; cbn [fst]; split; cbn; auto.
    intros p c f es H. apply in_app_iff in H. destruct H as [H | [[=] | []]]. eapply Hq, H.
  - rewrite c_cancel_unfold. cbv zeta. destruct (cancel_abort_frame s q) as (_ & E2 & _ & _ & E5 & _).
    destruct (find_query q (cs_c2q (cancel_abort s q))) as [[c qs]|]; [destruct (swap_remove_q q qs)|];
      split; cbn [set_wl set_c2q cs_peers cs_queue]; rewrite ?E2, ?E5; assumption.
  - unfold c_incoming. destruct (al_find N.eqb p (cs_peers s)) as [ps|]; [|split; assumption].
    set (a0 := MkInc (cs_wl s) (fold_left apply_presence pres (p_wl ps)) (cs_c2q s) (cs_queue s) [] false).
    assert (Hq' : forall p c f es, ~ In (EvSend p c f es) (ia_queue (fold_left inc_block blocks a0))).
    { intros p' c f es H. apply inc_blocks_queue in H. destruct H as [H | (q & d & [=])]. eapply Hq, H. }
    destruct (ia_panic (fold_left inc_block blocks a0)); [|destruct (ia_new (fold_left inc_block blocks a0))];
      split; cbn [fst push_task cs_peers cs_queue]; try rewrite al_modify_keys; auto.
  - split; cbn [c_report set_peers cs_peers cs_queue]; [rewrite al_modify_keys|]; assumption.
  - unfold c_release. destruct (find (call_is call) (cs_tasks s)) as [[tid t]|]; split; assumption.
  - split; assumption.
  - destruct (c_poll_summary s choice) as (l1 & w & outsC & [Hl _ _ _ Hp Hq' _ _]).
    split; [|rewrite Hq'; intros p c f es []]. rewrite Hp. apply uh_keep_NoDup.
    rewrite (peers_link_keys _ _ Hl). exact Hnd.
  - split; assumption.
Qed.

Lemma INVS_run sdh ops : INVS (st_after sdh ops).
Proof. unfold st_after, crun_sdh. apply crun_inv; [apply INVS_step|]. split; [constructor | intros p c f es []]. Qed.

(* the model never runs out of fuel *)
Theorem crun_never_out_of_fuel sdh ops : ~ In OOutOfFuel (outs_after sdh ops).
Proof.
  induction ops as [|o ops IH] using rev_ind; [intros []|].
  rewrite outs_after_snoc, in_app_iff. intros [H | H]; [exact (IH H)|].
  destruct o; cbn [cstep snd] in H; try (destruct H; fail).
  - unfold c_get in H. destruct c; destruct H as [[=] | []].
  - unfold c_incoming in H. destruct (al_find N.eqb p (cs_peers (st_after sdh ops))); [|destruct H].
    match type of H with context [ia_panic ?a] => destruct (ia_panic a); [destruct H as [[=] | []]|]; destruct (ia_new a); destruct H end.
  - apply (proj1 (cpoll_fuel_enough _ _) H).
  - destruct H as [[=] | []].
Qed.

(* ---------- where the SendWantlist events of a CPoll come from ---------- *)
Lemma send_in_poll s ch l1 w outsC p c f es :
  INVS s -> poll_summary s ch l1 w outsC ->
  In (OSendWantlist p c f es) (snd (c_poll s ch)) ->
  exists ps1, In (p, ps1) l1 /\ In (EvSend p c f es) (uh_events (cs_now s) w ch (p, ps1)).
Proof.
  intros [Hnd Hq] [Hl _ _ HoC _ _ _ Ho] Hin. rewrite Ho in Hin. rewrite !in_app_iff in Hin.
  destruct Hin as [Hin | [Hin | [Hin | Hin]]].
  - apply in_map_iff in Hin. destruct Hin as (ev & E & Hev). destruct ev; try discriminate.
    injection E as -> -> -> ->. exfalso. eapply Hq, Hev.
  - rewrite Forall_forall in HoC. apply HoC in Hin. destruct Hin.
  - exfalso. apply in_flat_map in Hin. destruct Hin as ([p' ps'] & _ & Hin). unfold uh_outs in Hin. cbn [fst snd] in Hin.
    pose proof (uh_peer_case (cs_now s) w ch p' ps') as Hc. destruct (uh_peer (cs_now s) w ch p' ps') as [[[ps'' evs] outs] dead].
    inversion Hc; subst; try destruct Hin.
    match goal with H : Forall _ _ |- _ => rewrite Forall_forall in H; apply H in Hin; discriminate end.
  - apply in_map_iff in Hin. destruct Hin as (ev & E & Hev). destruct ev; try discriminate.
    injection E as -> -> -> ->. apply in_flat_map in Hev. destruct Hev as ([p' ps'] & Hin' & Hev).
    assert (p' = p).
    { unfold uh_events in Hev. cbn [fst snd] in Hev.
      pose proof (uh_peer_case (cs_now s) w ch p' ps') as Hc. destruct (uh_peer (cs_now s) w ch p' ps') as [[[ps'' evs] outs] dead].
      inversion Hc as [Hg | ps1 Hg Hcn | ps1 wls' conns Hg Hcn Hne Hsf Hgen | ps1 es0 wls' c0 bad conns sf Hg Hcn Hsf Hgen Hsend Hin0 Hbad Hch]; subst;
        try (destruct Hev; fail).
      destruct Hev as [Hev | []]. congruence. }
    subst p'. eauto.
Qed.

Lemma uh_send_inv now w ch p psl c f es :
  In (EvSend p c f es) (uh_events now w ch (p, psl)) ->
  exists ps1 wls',
    uh_gate now psl = Some ps1 /\ In c (p_conns ps1) /\ f = p_send_full ps1 /\
    uh_keep now w ch (p, psl) = [(p, MkPeer (p_conns ps1) (SsRequested now c) wls' false)] /\
    uh_events now w ch (p, psl) = [EvSend p c f es] /\
    (uh_outs now w ch (p, psl) = [] -> al_find N.eqb p ch = Some c).
Proof.
  unfold uh_events, uh_keep, uh_outs. cbn [fst snd]. intros Hev.
  pose proof (uh_peer_case now w ch p psl) as Hc. destruct (uh_peer now w ch p psl) as [[[ps'' evs] outs] dead].
  inversion Hc as [Hg | ps1 Hg Hcn | ps1 wls' conns Hg Hcn Hne Hsf Hgen | ps1 es0 wls' c0 bad conns sf Hg Hcn Hsf Hgen Hsend Hin0 Hbad Hch]; subst;
    try (destruct Hev; fail).
  destruct Hev as [Hev | []]. injection Hev as E1 E2 E3. subst c0 es0. exists ps1, wls'. repeat split; auto; congruence.
Qed.

Lemma uh_gate_link now ps psl :
  link_ok ps psl ->
  match uh_gate now ps, uh_gate now psl with
  | Some a, Some b => p_conns b = p_conns a /\ (p_send_full b = p_send_full a \/ p_send_full b = true) /\
                      (p_ss ps <> SsReady -> p_send_full b = true)
  | None, None => True
  | _, _ => False
  end.
Proof.
  intros (Hss & Hcn & Hsf). unfold uh_gate. rewrite Hss. destruct (p_ss ps) as [|t c|t c|t c|c].
  - repeat split; auto; try congruence. all: try (intros H; exfalso; apply H; reflexivity).
  - destruct (now - t <? RECEIVE_REQUEST_TIMEOUT); [exact I|]. cbn [p_conns p_send_full]. rewrite Hcn. auto.
  - exact I.
  - exact I.
  - cbn [p_conns p_send_full]. rewrite Hcn. auto.
Qed.

Lemma in_keys_find {V} (l : list (N * V)) k v : NoDup (map fst l) -> In (k, v) l -> al_find N.eqb k l = Some v.
Proof. intros. apply (al_in_find _ Neqb_spec); assumption. Qed.

Lemma uh_keep_in now w ch l p ps' :
  In (p, ps') (flat_map (uh_keep now w ch) l) -> exists ps, In (p, ps) l /\ In (p, ps') (uh_keep now w ch (p, ps)).
Proof.
  intros H. apply in_flat_map in H. destruct H as ([p0 ps0] & Hin & Hk).
  assert (p0 = p).
  { unfold uh_keep in Hk. cbn [fst snd] in Hk. destruct (uh_peer now w ch p0 ps0) as [[[a b] c] d]. destruct d; [destruct Hk|].
    destruct Hk as [[= -> _] | []]. reflexivity. }
  subst. eauto.
Qed.

(* which sending states let update_handlers go on to send *)
Definition sendable (now : time) (ss : sending_state) : Prop :=
  ss = SsReady \/ (exists c0, ss = SsFailed c0) \/
  (exists t c0, ss = SsRequested t c0 /\ (now - t <? RECEIVE_REQUEST_TIMEOUT) = false).

Lemma uh_gate_sendable now ps ps1 : uh_gate now ps = Some ps1 -> sendable now (p_ss ps).
Proof.
  unfold uh_gate, sendable. destruct (p_ss ps) as [|t c|t c|t c|c]; try discriminate; eauto.
  destruct (now - t <? RECEIVE_REQUEST_TIMEOUT) eqn:E; [discriminate|]. intros _. right; right; eauto.
Qed.

Lemma uh_gate_conns_sub now ps ps1 c : uh_gate now ps = Some ps1 -> In c (p_conns ps1) -> In c (p_conns ps).
Proof.
  unfold uh_gate. destruct (p_ss ps) as [|t c0|t c0|t c0|c0]; try discriminate.
  - intros [= <-]. auto.
  - destruct (now - t <? RECEIVE_REQUEST_TIMEOUT); [discriminate|]. intros [= <-]. cbn. intros H. apply n_remove_In in H. apply H.
  - intros [= <-]. cbn. intros H. apply n_remove_In in H. apply H.
Qed.

(* everything about one SendWantlist of a CPoll *)
Lemma send_facts sdh ops ch p c f es :
  let s := st_after sdh ops in
  In (OSendWantlist p c f es) (snd (c_poll s ch)) ->
  exists ps ps1 wls',
    al_find N.eqb p (cs_peers s) = Some ps /\ uh_gate (cs_now s) ps = Some ps1 /\ In c (p_conns ps1) /\
    (f = p_send_full ps1 \/ f = true) /\ (p_ss ps <> SsReady -> f = true) /\
    al_find N.eqb p (cs_peers (fst (c_poll s ch))) = Some (MkPeer (p_conns ps1) (SsRequested (cs_now s) c) wls' false) /\
    (forall c2 f2 es2, In (OSendWantlist p c2 f2 es2) (snd (c_poll s ch)) -> c2 = c /\ f2 = f /\ es2 = es) /\
    (~ In OBadChoice (snd (c_poll s ch)) -> al_find N.eqb p ch = Some c).
Proof.
  intros s Hin. pose proof (INVS_run sdh ops) as HS. fold s in HS.
  destruct (c_poll_summary s ch) as (l1 & w & outsC & Hsum).
  destruct (send_in_poll s ch l1 w outsC p c f es HS Hsum Hin) as (psl & Hinl & Hev).
  destruct (uh_send_inv _ _ _ _ _ _ _ _ Hev) as (psl1 & wls' & Hg & Hc & Hf & Hkeep & Hevs & Hch).
  destruct HS as [Hnd Hq]. pose proof Hsum as [Hl _ _ _ Hp _ _ Ho].
  assert (Hnd1 : NoDup (map fst l1)) by (rewrite (peers_link_keys _ _ Hl); exact Hnd).
  destruct (peers_link_find_rev _ _ _ _ Hl (in_keys_find _ _ _ Hnd1 Hinl)) as (ps & Hfind & Hlink).
  pose proof (uh_gate_link (cs_now s) ps psl Hlink) as Hgl. rewrite Hg in Hgl.
  destruct (uh_gate (cs_now s) ps) as [ps1|] eqn:Eg; [|destruct Hgl]. destruct Hgl as (Ec & Esf & Enr).
  exists ps, ps1, wls'. split; [exact Hfind|]. split; [exact Eg|]. split; [rewrite <- Ec; exact Hc|].
  split; [destruct Esf as [Esf | Esf]; [left | right]; congruence|]. split; [intros Hn; rewrite Hf; apply Enr, Hn|].
  split.
  - rewrite Hp, <- Ec. apply in_keys_find.
    + apply uh_keep_NoDup. exact Hnd1.
    + apply in_flat_map. exists (p, psl). split; [exact Hinl|]. rewrite Hkeep. left; reflexivity.
  - split.
    + intros c2 f2 es2 Hin2.
      destruct (send_in_poll s ch l1 w outsC p c2 f2 es2 (conj Hnd Hq) Hsum Hin2) as (psl2 & Hinl2 & Hev2).
      assert (psl2 = psl) by (eapply NoDup_keys_in_eq; eassumption). subst psl2.
      rewrite Hevs in Hev2. destruct Hev2 as [[= -> -> ->] | []]. auto.
    + intros Hnb. apply Hch. destruct (uh_outs (cs_now s) w ch (p, psl)) as [|o os] eqn:Eo; [reflexivity|]. exfalso. apply Hnb.
      rewrite Ho, !in_app_iff. right; right; left. apply in_flat_map. exists (p, psl). split; [exact Hinl|].
      unfold uh_outs in *. cbn [fst snd] in *.
      pose proof (uh_peer_case (cs_now s) w ch p psl) as Hcase. destruct (uh_peer (cs_now s) w ch p psl) as [[[a b] c'] d].
      inversion Hcase; subst; try discriminate.
      match goal with H : Forall _ (o :: os) |- _ => inversion H; subst end. left; reflexivity.
Qed.

Lemma find_in_keep now w ch l p psl :
  NoDup (map fst l) -> In (p, psl) l ->
  al_find N.eqb p (flat_map (uh_keep now w ch) l) = al_find N.eqb p (uh_keep now w ch (p, psl)).
Proof.
  intros Hnd Hin. destruct (al_find N.eqb p (uh_keep now w ch (p, psl))) as [ps'|] eqn:E.
  - apply in_keys_find; [apply uh_keep_NoDup; exact Hnd|]. apply in_flat_map. exists (p, psl). split; [exact Hin|].
    apply (al_find_some_in _ Neqb_spec). exact E.
  - apply (al_find_none _ Neqb_spec). intros Hk. apply in_map_iff in Hk. destruct Hk as ([p' ps'] & Ek & Hin').
    cbn [fst] in Ek. subst p'. apply uh_keep_in in Hin'. destruct Hin' as (ps0 & Hin0 & Hk0).
    assert (ps0 = psl) by (eapply NoDup_keys_in_eq; eassumption). subst ps0.
    apply (in_keys_find (uh_keep now w ch (p, psl))) in Hk0; [congruence|].
    unfold uh_keep. cbn [fst snd]. destruct (uh_peer now w ch p psl) as [[[a b] c] d]. destruct d; cbn; constructor; [intros [] | constructor].
Qed.

(* the linked copy of a peer entry on which update_handlers works *)
Lemma poll_peer sdh ops ch p ps :
  let s := st_after sdh ops in
  al_find N.eqb p (cs_peers s) = Some ps ->
  exists psl w,
    link_ok ps psl /\ (timer_ready s = true -> p_send_full psl = true) /\
    al_find N.eqb p (cs_peers (fst (c_poll s ch))) = al_find N.eqb p (uh_keep (cs_now s) w ch (p, psl)) /\
    (forall c f es, In (OSendWantlist p c f es) (snd (c_poll s ch)) <-> In (EvSend p c f es) (uh_events (cs_now s) w ch (p, psl))).
Proof.
  intros s Hfind. pose proof (INVS_run sdh ops) as HS. fold s in HS.
  destruct (c_poll_summary s ch) as (l1 & w & outsC & Hsum). pose proof Hsum as [Hl Ht _ _ Hp _ _ Ho].
  destruct HS as [Hnd Hq].
  assert (Hnd1 : NoDup (map fst l1)) by (rewrite (peers_link_keys _ _ Hl); exact Hnd).
  destruct (peers_link_find _ _ _ _ Hl Hfind) as (psl & Hfl & Hlink).
  pose proof (al_find_some_in _ Neqb_spec _ _ _ Hfl) as Hinl.
  exists psl, w. split; [exact Hlink|]. split; [intros Htr; eapply Ht; eassumption|]. split.
  - rewrite Hp. apply find_in_keep; assumption.
  - intros c f es. split.
    + intros Hin. destruct (send_in_poll s ch l1 w outsC p c f es (conj Hnd Hq) Hsum Hin) as (psl2 & Hinl2 & Hev2).
      assert (psl2 = psl) by (eapply NoDup_keys_in_eq; eassumption). subst. exact Hev2.
    + intros Hev. rewrite Ho, !in_app_iff. right; right; right. apply in_map_iff. exists (EvSend p c f es). split; [reflexivity|].
      apply in_flat_map. exists (p, psl). split; assumption.
Qed.

(* ---------- C14 ---------- *)
(* a wantlist for p is handed to a connection only from the Ready state (possibly just re-entered by the
   fault rules of the same pass), afterwards the state names exactly that connection, and there is at
   most one per CPoll *)
Theorem C14_one_outstanding sdh ops ch p c f es :
  let s := st_after sdh ops in
  In (OSendWantlist p c f es) (snd (c_poll s ch)) ->
  (exists ps, al_find N.eqb p (cs_peers s) = Some ps /\ sendable (cs_now s) (p_ss ps) /\ In c (p_conns ps)) /\
  (exists ps', al_find N.eqb p (cs_peers (fst (c_poll s ch))) = Some ps' /\
               p_ss ps' = SsRequested (cs_now s) c /\ In c (p_conns ps')) /\
  (forall c2 f2 es2, In (OSendWantlist p c2 f2 es2) (snd (c_poll s ch)) -> c2 = c /\ f2 = f /\ es2 = es).
Proof.
  intros s Hin. destruct (send_facts sdh ops ch p c f es Hin) as (ps & ps1 & wls' & Hf & Hg & Hc & _ & _ & Hf' & Hu & _).
  split; [|split; [|exact Hu]].
  - exists ps. split; [exact Hf|]. split; [eapply uh_gate_sendable; exact Hg | eapply uh_gate_conns_sub; eassumption].
  - eexists. split; [exact Hf'|]. split; [reflexivity | exact Hc].
Qed.

(* while a transmission is outstanding (and has not timed out) a CPoll leaves the peer alone *)
Theorem C14_outstanding_blocks_poll sdh ops ch p ps :
  let s := st_after sdh ops in
  al_find N.eqb p (cs_peers s) = Some ps -> uh_gate (cs_now s) ps = None ->
  (forall c f es, ~ In (OSendWantlist p c f es) (snd (c_poll s ch))) /\
  exists ps', al_find N.eqb p (cs_peers (fst (c_poll s ch))) = Some ps' /\ p_ss ps' = p_ss ps /\ p_conns ps' = p_conns ps.
Proof.
  intros s Hfind Hg. destruct (poll_peer sdh ops ch p ps Hfind) as (psl & w & Hlink & _ & Hfin & Hsend).
  pose proof (uh_gate_link (cs_now s) ps psl Hlink) as Hgl. rewrite Hg in Hgl.
  destruct (uh_gate (cs_now s) psl) eqn:Egl; [destruct Hgl|].
  assert (Hk : uh_keep (cs_now s) w ch (p, psl) = [(p, psl)] /\ uh_events (cs_now s) w ch (p, psl) = []).
  { unfold uh_keep, uh_events, uh_peer. cbn [fst snd]. rewrite Egl. split; reflexivity. }
  destruct Hk as [Hk He]. split.
  - intros c f es Hin. apply Hsend in Hin. unfold s in *. rewrite He in Hin. destruct Hin.
  - exists psl. unfold s in *. rewrite Hfin, Hk. cbn [al_find]. rewrite N.eqb_refl. destruct Hlink as (A & B & _). auto.
Qed.

(* between polls the outstanding transmission changes only by a report from the connection it names,
   or by the peer entry disappearing with its last connection *)
Theorem C14_state_persists s o p ps c :
  al_find N.eqb p (cs_peers s) = Some ps -> sending_conn (p_ss ps) = Some c ->
  (forall ch, o <> CPoll ch) ->
  (exists ps', al_find N.eqb p (cs_peers (fst (cstep s o))) = Some ps' /\ p_ss ps' = p_ss ps) \/
  (exists r, o = CReport p c r) \/
  (exists c0, o = CConnClosed p c0 /\ al_find N.eqb p (cs_peers (fst (cstep s o))) = None).
Proof.
  intros Hf Hsc Hnp. destruct o; cbn [cstep fst].
  - left. unfold c_new_conn. rewrite (al_mem_find _ Neqb_spec).
    destruct (al_find N.eqb p0 (cs_peers s)) eqn:E0; cbn [set_peers cs_peers].
    + rewrite (al_find_modify _ Neqb_spec). destruct (p0 =? p); rewrite Hf; cbn; eauto.
    + exists ps. split; [|reflexivity]. clear Hsc. revert Hf E0. generalize (add_conn c0 new_peer_state). generalize (cs_peers s).
      induction l as [|[k v] l IH]; intros x Hf E0; cbn [al_find peers_ins] in *; [discriminate|].
      destruct (p0 <? k) eqn:Elt.
      * cbn [al_find]. destruct (p =? p0) eqn:Epp; [|exact Hf]. apply N.eqb_eq in Epp. subst p0.
        destruct (p =? k); [discriminate|]. rewrite E0 in Hf. discriminate.
      * cbn [al_find]. destruct (p =? k); [exact Hf|]. destruct (p0 =? k); [discriminate|]. apply IH; assumption.
  - unfold c_conn_closed. destruct (al_find N.eqb p0 (cs_peers s)) as [ps0|] eqn:E0; [|left; eauto].
    destruct (p_conns (remove_conn c0 ps0)) eqn:Ec; cbn [set_peers cs_peers].
    + rewrite (al_find_remove _ Neqb_spec). destruct (p0 =? p) eqn:Epp; [|left; eauto].
      apply N.eqb_eq in Epp. subst p0. right; right. eauto.
    + left. rewrite (al_find_modify _ Neqb_spec). destruct (p0 =? p); rewrite Hf; cbn; eauto.
  - left. unfold c_get. destruct c0; cbn; eauto.
  - left. rewrite c_cancel_unfold. cbv zeta. destruct (cancel_abort_frame s q) as (_ & _ & _ & _ & E5 & _).
    destruct (find_query q (cs_c2q (cancel_abort s q))) as [[c1 qs]|]; [destruct (swap_remove_q q qs)|];
      cbn [set_wl set_c2q cs_peers]; rewrite E5; eauto.
  - left. unfold c_incoming. destruct (al_find N.eqb p0 (cs_peers s)); [|eauto].
    match goal with |- context [ia_panic ?a] => destruct (ia_panic a); [|destruct (ia_new a)] end;
      cbn [fst push_task cs_peers]; rewrite (al_find_modify _ Neqb_spec); destruct (p0 =? p); rewrite Hf; cbn; eauto.
  - cbn [c_report set_peers cs_peers]. rewrite (al_find_modify _ Neqb_spec).
    destruct (p0 =? p) eqn:Epp; [|left; eauto]. apply N.eqb_eq in Epp. subst p0. rewrite Hf. cbn [option_map].
    unfold report_accepted. rewrite Hsc. destruct (c =? c0) eqn:Ecc.
    + apply N.eqb_eq in Ecc. subst c0. right; left. eauto.
    + left. eauto.
  - left. unfold c_release. destruct (find (call_is call) (cs_tasks s)) as [[tid t]|]; cbn; eauto.
  - left. cbn. eauto.
  - exfalso. eapply Hnp. reflexivity.
  - left. cbn. eauto.
Qed.

Example C14_example :
  let ops := [CNewConn 7 1; CNewConn 7 2; CGet (Some ex_c1); CPoll [(7, 2)]] in
  In (OSendWantlist 7 2 true []) (outs_after true ops) /\
  al_find N.eqb 7 (cs_peers (st_after true ops)) = Some (MkPeer [1; 2] (SsRequested 0 2) wls_new false).
Proof. vm_compute. split; [repeat (first [left; reflexivity | right]) | reflexivity]. Qed.

(* ---------- C15 ---------- *)
(* a further connection of a peer that already has an entry only joins its connection set *)
Theorem C15_new_conn_frame s p c ps :
  al_find N.eqb p (cs_peers s) = Some ps ->
  cstep s (CNewConn p c) = (set_peers s (al_modify N.eqb p (add_conn c) (cs_peers s)), []) /\
  al_find N.eqb p (cs_peers (fst (cstep s (CNewConn p c)))) =
    Some (MkPeer (if n_mem c (p_conns ps) then p_conns ps else p_conns ps ++ [c]) (p_ss ps) (p_wl ps) (p_send_full ps)) /\
  (forall p', p' <> p -> al_find N.eqb p' (cs_peers (fst (cstep s (CNewConn p c)))) = al_find N.eqb p' (cs_peers s)).
Proof.
  intros Hf. cbn [cstep]. unfold c_new_conn. rewrite (al_mem_find _ Neqb_spec), Hf. split; [reflexivity|].
  cbn [fst set_peers cs_peers]. split.
  - rewrite (al_find_modify _ Neqb_spec), N.eqb_refl, Hf. reflexivity.
  - intros p' Hne. rewrite (al_find_modify _ Neqb_spec). destruct (p =? p') eqn:E; [apply N.eqb_eq in E; congruence | reflexivity].
Qed.

(* the wantlist goes to exactly one connection, and it is a member of established_connections *)
Theorem C15_one_connection_per_wantlist sdh ops ch p c f es :
  let s := st_after sdh ops in
  In (OSendWantlist p c f es) (snd (c_poll s ch)) ->
  (exists ps, al_find N.eqb p (cs_peers s) = Some ps /\ In c (p_conns ps)) /\
  (exists ps', al_find N.eqb p (cs_peers (fst (c_poll s ch))) = Some ps' /\ In c (p_conns ps')) /\
  (forall c2 f2 es2, In (OSendWantlist p c2 f2 es2) (snd (c_poll s ch)) -> c2 = c) /\
  (~ In OBadChoice (snd (c_poll s ch)) -> al_find N.eqb p ch = Some c).
Proof.
  intros s Hin. destruct (C14_one_outstanding sdh ops ch p c f es Hin) as ((ps & H1 & _ & H2) & (ps' & H3 & _ & H4) & H5).
  split; [eauto|]. split; [eauto|]. split; [intros c2 f2 es2 H; apply (H5 c2 f2 es2 H)|].
  destruct (send_facts sdh ops ch p c f es Hin) as (_ & _ & _ & _ & _ & _ & _ & _ & _ & _ & Hch). exact Hch.
Qed.

(* closing one of several connections keeps the peer entry and everything in it but that connection *)
Theorem C15_close_one_keeps_peer s p c ps c' :
  al_find N.eqb p (cs_peers s) = Some ps -> In c' (p_conns ps) -> c' <> c ->
  al_find N.eqb p (cs_peers (fst (cstep s (CConnClosed p c)))) =
    Some (MkPeer (n_remove c (p_conns ps)) (p_ss ps) (p_wl ps) (p_send_full ps)) /\
  snd (cstep s (CConnClosed p c)) = [] /\
  (forall p', p' <> p -> al_find N.eqb p' (cs_peers (fst (cstep s (CConnClosed p c)))) = al_find N.eqb p' (cs_peers s)).
Proof.
  intros Hf Hin Hne. cbn [cstep fst snd]. unfold c_conn_closed. rewrite Hf.
  assert (Hc : In c' (p_conns (remove_conn c ps))) by (cbn; apply n_remove_In; auto).
  destruct (p_conns (remove_conn c ps)) as [|x xs] eqn:E; [destruct Hc|]. cbn [set_peers cs_peers].
  split; [rewrite (al_find_modify _ Neqb_spec), N.eqb_refl, Hf; reflexivity|]. split; [reflexivity|].
  intros p' Hne'. rewrite (al_find_modify _ Neqb_spec). destruct (p =? p') eqn:E'; [apply N.eqb_eq in E'; congruence | reflexivity].
Qed.

(* the entry goes away only with the last connection *)
Theorem C15_dropped_only_with_last s p c ps :
  al_find N.eqb p (cs_peers s) = Some ps ->
  al_find N.eqb p (cs_peers (fst (cstep s (CConnClosed p c)))) = None ->
  forall c', In c' (p_conns ps) -> c' = c.
Proof.
  intros Hf Hnone c' Hin. destruct (N.eq_dec c' c) as [|Hne]; [assumption|].
  destruct (C15_close_one_keeps_peer s p c ps c' Hf Hin Hne) as [H _]. congruence.
Qed.

Example C15_example :
  let s := st_after true [CNewConn 7 1; CNewConn 7 2; CGet (Some ex_c1); CPoll [(7, 2)]] in
  al_find N.eqb 7 (cs_peers (fst (cstep s (CConnClosed 7 2)))) = Some (MkPeer [1] (SsRequested 0 2) wls_new false) /\
  al_find N.eqb 7 (cs_peers (fst (cstep s (CNewConn 7 5)))) = Some (MkPeer [1; 2; 5] (SsRequested 0 2) wls_new false).
Proof. vm_compute. split; reflexivity. Qed.

(* ---------- C13 (client part) ---------- *)
(* connections of p opened and not yet closed *)
Definition open_step (p : peer) (acc : list conn) (o : cop) : list conn :=
  match o with
  | CNewConn p' c => if p' =? p then (if n_mem c acc then acc else acc ++ [c]) else acc
  | CConnClosed p' c => if p' =? p then n_remove c acc else acc
  | _ => acc
  end.
Definition open_conns (p : peer) (ops : list cop) : list conn := fold_left (open_step p) ops [].

Definition INVC (h : list cop) (s : cstate) : Prop :=
  forall p ps, In (p, ps) (cs_peers s) -> p_conns ps <> [] /\ forall c, In c (p_conns ps) -> In c (open_conns p h).

Lemma open_conns_snoc p h o : open_conns p (h ++ [o]) = open_step p (open_conns p h) o.
Proof. unfold open_conns. rewrite fold_left_app. reflexivity. Qed.

Lemma in_peers_ins p ps l k v : In (k, v) (peers_ins p ps l) <-> (k, v) = (p, ps) \/ In (k, v) l.
Proof.
  induction l as [|[p' ps'] l IH]; cbn [peers_ins In]; [intuition|].
  destruct (p <? p'); cbn [In]; [intuition|]. rewrite IH. intuition.
Qed.

Lemma INVC_step sdh ops o : INVC ops (st_after sdh ops) -> INVC (ops ++ [o]) (st_after sdh (ops ++ [o])).
Proof.
  intros HC. rewrite st_after_snoc. set (s := st_after sdh ops) in *.
  assert (Hsame : forall s', cs_peers s' = cs_peers s -> (forall p, open_conns p (ops ++ [o]) = open_conns p ops) -> INVC (ops ++ [o]) s').
  { intros s' E Ho p ps Hin. rewrite E in Hin. rewrite Ho. apply HC, Hin. }
  destruct o; cbn [cstep fst]; try (apply Hsame; [reflexivity | intros p0; rewrite open_conns_snoc; reflexivity]; fail).
  - (* new connection *)
    intros p0 ps0 Hin. rewrite open_conns_snoc. cbn [open_step]. unfold c_new_conn in Hin.
    destruct (al_mem N.eqb p (cs_peers s)); cbn [set_peers cs_peers] in Hin.
    + apply in_al_modify in Hin. destruct Hin as (v & Hv & ->). destruct (HC _ _ Hv) as [Hne Hsub].
      rewrite (N.eqb_sym p p0). destruct (p0 =? p) eqn:E; [|split; assumption].
      apply N.eqb_eq in E. subst p0. unfold add_conn. cbn [p_conns]. split.
      * destruct (n_mem c (p_conns v)); [assumption | destruct (p_conns v); discriminate].
      * intros c0 Hc0. destruct (n_mem c (p_conns v)) eqn:M1.
        -- apply Hsub in Hc0. destruct (n_mem c (open_conns p ops)); [assumption | apply in_app_iff; auto].
        -- apply in_app_iff in Hc0. destruct Hc0 as [Hc0 | [<- | []]].
           ++ apply Hsub in Hc0. destruct (n_mem c (open_conns p ops)); [assumption | apply in_app_iff; auto].
           ++ destruct (n_mem c (open_conns p ops)) eqn:M2; [apply n_mem_In; assumption | apply in_app_iff; right; left; reflexivity].
    + apply in_peers_ins in Hin. destruct Hin as [[= -> ->] | Hin].
      * rewrite N.eqb_refl. unfold add_conn, new_peer_state. cbn [p_conns n_mem existsb app]. split; [discriminate|].
        intros c0 [<- | []]. destruct (n_mem c (open_conns p ops)) eqn:M2; [apply n_mem_In; assumption | apply in_app_iff; right; left; reflexivity].
      * destruct (HC _ _ Hin) as [Hne Hsub]. split; [assumption|]. intros c0 Hc0. apply Hsub in Hc0.
        destruct (p =? p0); [|assumption]. destruct (n_mem c (open_conns p0 ops)); [assumption | apply in_app_iff; auto].
  - (* connection closed *)
    intros p0 ps0 Hin. rewrite open_conns_snoc. cbn [open_step]. unfold c_conn_closed in Hin.
    destruct (al_find N.eqb p (cs_peers s)) as [psp|] eqn:Ef.
    + destruct (p_conns (remove_conn c psp)) as [|x xs] eqn:Ec; cbn [set_peers cs_peers] in Hin.
      * unfold al_remove in Hin. apply filter_In in Hin. destruct Hin as [Hin Hne]. cbn [fst] in Hne.
        apply negb_true_iff in Hne. rewrite Hne. apply HC, Hin.
      * apply in_al_modify in Hin. destruct Hin as (v & Hv & ->). destruct (HC _ _ Hv) as [Hne Hsub].
        destruct (p =? p0) eqn:E; [|split; assumption]. apply N.eqb_eq in E. subst p0.
        pose proof (INVS_run sdh ops) as [Hnd _]. fold s in Hnd.
        assert (v = psp) by (apply (al_find_some_in _ Neqb_spec) in Ef; eapply NoDup_keys_in_eq; eassumption). subst v.
        split; [rewrite Ec; discriminate|]. unfold remove_conn. cbn [p_conns]. intros c0 Hc0. apply n_remove_In in Hc0.
        apply n_remove_In. split; [apply Hsub|]; apply Hc0.
    + destruct (HC _ _ Hin) as [Hne Hsub]. split; [assumption|]. intros c0 Hc0. apply Hsub in Hc0.
      destruct (p =? p0) eqn:E; [|assumption]. apply N.eqb_eq in E. subst p0.
      apply (al_find_none _ Neqb_spec) in Ef. exfalso. apply Ef. apply (in_map fst) in Hin. exact Hin.
  - (* get *) apply Hsame; [unfold c_get; destruct c; reflexivity | intros p0; rewrite open_conns_snoc; reflexivity].
  - (* cancel *) apply Hsame; [|intros p0; rewrite open_conns_snoc; reflexivity].
    rewrite c_cancel_unfold. cbv zeta. destruct (cancel_abort_frame s q) as (_ & _ & _ & _ & E5 & _).
    destruct (find_query q (cs_c2q (cancel_abort s q))) as [[c1 qs]|]; [destruct (swap_remove_q q qs)|]; cbn [set_wl set_c2q cs_peers]; exact E5.
  - (* incoming *)
    intros p0 ps0 Hin. rewrite open_conns_snoc. cbn [open_step]. unfold c_incoming in Hin.
    destruct (al_find N.eqb p (cs_peers s)); [|apply HC, Hin].
    assert (Hin' : exists v, In (p0, v) (cs_peers s) /\ p_conns ps0 = p_conns v).
    { match type of Hin with context [ia_panic ?a] => destruct (ia_panic a); [|destruct (ia_new a)] end;
        cbn [fst push_task cs_peers] in Hin; apply in_al_modify in Hin; destruct Hin as (v & Hv & ->);
        exists v; (split; [exact Hv|]); destruct (p =? p0); reflexivity. }
    destruct Hin' as (v & Hv & Ec). rewrite Ec. apply HC, Hv.
  - (* report *)
    intros p0 ps0 Hin. rewrite open_conns_snoc. cbn [open_step]. cbn [c_report set_peers cs_peers] in Hin.
    apply in_al_modify in Hin. destruct Hin as (v & Hv & ->).
    assert (Ec : p_conns (if p =? p0 then if report_accepted v c then MkPeer (p_conns v) (state_of_report (cs_now s) r) (p_wl v) (p_send_full v) else v else v) = p_conns v)
      by (destruct (p =? p0); [destruct (report_accepted v c)|]; reflexivity).
    rewrite Ec. apply HC, Hv.
  - (* release *) apply Hsame; [|intros p0; rewrite open_conns_snoc; reflexivity].
    unfold c_release. destruct (find (call_is call) (cs_tasks s)) as [[tid t]|]; reflexivity.
  - (* poll *)
    intros p0 ps0 Hin. rewrite open_conns_snoc. cbn [open_step].
    destruct (c_poll_summary s choice) as (l1 & w & outsC & [Hl _ _ _ Hp _ _ _]). rewrite Hp in Hin.
    apply uh_keep_in in Hin. destruct Hin as (psl & Hinl & Hk).
    destruct (peers_link_in _ _ _ _ Hl Hinl) as (ps & Hin0 & (_ & Hcn & _)). destruct (HC _ _ Hin0) as [Hne Hsub].
    unfold uh_keep in Hk. cbn [fst snd] in Hk.
    pose proof (uh_peer_case (cs_now s) w choice p0 psl) as Hcase. destruct (uh_peer (cs_now s) w choice p0 psl) as [[[a b] c'] d].
    inversion Hcase as [Hg | ps1 Hg Hcn1 | ps1 wls' conns Hg Hcn1 Hne1 Hsf Hgen | ps1 es0 wls' c0 bad conns sf Hg Hcn1 Hsf Hgen Hsend Hin1 Hbad Hch]; subst.
    + destruct Hk as [[= <-] | []]. rewrite Hcn. split; assumption.
    + destruct Hk.
    + destruct Hk as [[= <-] | []]. cbn [p_conns]. split; [assumption|]. intros c1 Hc1.
      apply Hsub. rewrite <- Hcn. eapply uh_gate_conns_sub; eassumption.
    + destruct Hk as [[= <-] | []]. cbn [p_conns]. split; [intros E; rewrite E in Hin1; destruct Hin1|]. intros c1 Hc1.
      apply Hsub. rewrite <- Hcn. eapply uh_gate_conns_sub; eassumption.
Qed.

Lemma INVC_run sdh ops : INVC ops (st_after sdh ops).
Proof.
  induction ops as [|o ops IH] using rev_ind; [intros p ps []|]. apply INVC_step, IH.
Qed.

(* once every connection of p that was opened has been closed, the client holds nothing about p *)
Theorem C13_client_peer_released sdh ops p :
  open_conns p ops = [] -> al_find N.eqb p (cs_peers (st_after sdh ops)) = None.
Proof.
  intros Ho. destruct (al_find N.eqb p (cs_peers (st_after sdh ops))) as [ps|] eqn:E; [|reflexivity].
  apply (al_find_some_in _ Neqb_spec) in E. destruct (INVC_run sdh ops p ps E) as [Hne Hsub].
  destruct (p_conns ps) as [|c cs]; [congruence|]. specialize (Hsub c (or_introl eq_refl)). rewrite Ho in Hsub. destruct Hsub.
Qed.

Example C13_peer_example :
  let ops := [CNewConn 7 1; CNewConn 7 2; CGet (Some ex_c1); CPoll [(7, 2)]; CConnClosed 7 2; CConnClosed 7 1] in
  open_conns 7 ops = [] /\ cs_peers (st_after true ops) = [] /\
  open_conns 7 [CNewConn 7 1; CNewConn 7 2; CConnClosed 7 2] = [1].
Proof. vm_compute. repeat split; reflexivity. Qed.

(* ---------- C05 ---------- *)
Lemma uh_peer_full_when_flag now w ch p psl c f es :
  In (EvSend p c f es) (uh_events now w ch (p, psl)) ->
  (forall ps1, uh_gate now psl = Some ps1 -> p_send_full ps1 = true) -> f = true.
Proof.
  intros Hev Hall. destruct (uh_send_inv _ _ _ _ _ _ _ _ Hev) as (ps1 & wls' & Hg & _ & -> & _). apply Hall, Hg.
Qed.

Lemma uh_gate_flag now ps ps1 : uh_gate now ps = Some ps1 -> p_send_full ps = true -> p_send_full ps1 = true.
Proof.
  unfold uh_gate. destruct (p_ss ps) as [|t c|t c|t c|c]; try discriminate.
  - intros [= <-]. auto.
  - destruct (now - t <? RECEIVE_REQUEST_TIMEOUT); [discriminate|]. intros [= <-]. reflexivity.
  - intros [= <-]. reflexivity.
Qed.

(* an entry whose send_full flag is set gets a FULL wantlist *)
Lemma send_full_flag_full sdh ops ch p ps c f es :
  let s := st_after sdh ops in
  al_find N.eqb p (cs_peers s) = Some ps -> p_send_full ps = true ->
  In (OSendWantlist p c f es) (snd (c_poll s ch)) -> f = true.
Proof.
  intros s Hf Hsf Hin. destruct (poll_peer sdh ops ch p ps Hf) as (psl & w & (Hss & Hcn & Hfl) & _ & _ & Hsend).
  apply Hsend in Hin. eapply uh_peer_full_when_flag; [exact Hin|]. intros ps1 Hg. eapply uh_gate_flag; [exact Hg|].
  destruct Hfl as [Hfl | Hfl]; congruence.
Qed.

(* the flag stays set until a wantlist is emitted for the peer *)
Definition unsent (p : peer) (s : cstate) : Prop :=
  forall ps, al_find N.eqb p (cs_peers s) = Some ps -> p_send_full ps = true.

Definition no_send_to (p : peer) (outs : list cout) : Prop := forall c f es, ~ In (OSendWantlist p c f es) outs.

Lemma find_peers_ins p ps l k :
  al_find N.eqb p l = None ->
  al_find N.eqb k (peers_ins p ps l) = if k =? p then Some ps else al_find N.eqb k l.
Proof.
  induction l as [|[p' ps'] l IH]; cbn [al_find peers_ins]; [intros _; destruct (k =? p); reflexivity|].
  destruct (p =? p') eqn:E; [discriminate|]. intros Hn. destruct (p <? p'); cbn [al_find].
  - destruct (k =? p) eqn:Ek; [reflexivity|]. reflexivity.
  - destruct (k =? p') eqn:Ek'.
    + apply N.eqb_eq in Ek'. subst k. rewrite (N.eqb_sym p' p), E. reflexivity.
    + apply IH, Hn.
Qed.

Lemma unsent_step sdh ops o p :
  let s := st_after sdh ops in
  unsent p s -> no_send_to p (snd (cstep s o)) -> unsent p (fst (cstep s o)).
Proof.
  intros s Hu Hns ps'. destruct o; cbn [cstep fst].
  - unfold c_new_conn. rewrite (al_mem_find _ Neqb_spec). destruct (al_find N.eqb p0 (cs_peers s)) eqn:E0; cbn [set_peers cs_peers].
    + rewrite (al_find_modify _ Neqb_spec). destruct (p0 =? p); [|apply Hu].
      destruct (al_find N.eqb p (cs_peers s)) eqn:E; [|discriminate]. cbn. intros [= <-]. cbn. apply Hu; first [reflexivity | assumption].
    + rewrite find_peers_ins by assumption. destruct (p =? p0); [intros [= <-]; reflexivity | apply Hu].
  - unfold c_conn_closed. destruct (al_find N.eqb p0 (cs_peers s)) as [ps0|] eqn:E0; [|apply Hu].
    destruct (p_conns (remove_conn c ps0)); cbn [set_peers cs_peers].
    + rewrite (al_find_remove _ Neqb_spec). destruct (p0 =? p); [discriminate | apply Hu].
    + rewrite (al_find_modify _ Neqb_spec). destruct (p0 =? p); [|apply Hu].
      destruct (al_find N.eqb p (cs_peers s)) eqn:E; [|discriminate]. cbn. intros [= <-]. cbn. apply Hu; first [reflexivity | assumption].
  - unfold c_get. destruct c; apply Hu.
  - rewrite c_cancel_unfold. cbv zeta. destruct (cancel_abort_frame s q) as (_ & _ & _ & _ & E5 & _).
    destruct (find_query q (cs_c2q (cancel_abort s q))) as [[c1 qs]|]; [destruct (swap_remove_q q qs)|]; cbn [set_wl set_c2q cs_peers]; rewrite E5; apply Hu.
  - unfold c_incoming. destruct (al_find N.eqb p0 (cs_peers s)); [|apply Hu].
    match goal with |- context [ia_panic ?a] => destruct (ia_panic a); [|destruct (ia_new a)] end;
      cbn [fst push_task cs_peers]; rewrite (al_find_modify _ Neqb_spec); (destruct (p0 =? p); [|apply Hu]);
      (destruct (al_find N.eqb p (cs_peers s)) eqn:E; [|discriminate]); cbn; intros [= <-]; cbn; apply Hu; first [reflexivity | assumption].
  - cbn [c_report set_peers cs_peers]. rewrite (al_find_modify _ Neqb_spec). destruct (p0 =? p); [|apply Hu].
    destruct (al_find N.eqb p (cs_peers s)) as [v|] eqn:E; [|discriminate]. cbn. intros [= <-].
    destruct (report_accepted v c); cbn; apply Hu; first [reflexivity | assumption].
  - unfold c_release. destruct (find (call_is call) (cs_tasks s)) as [[tid t]|]; apply Hu.
  - apply Hu.
  - (* poll without a send to p *)
    cbn [cstep snd] in Hns. intros Hf'.
    destruct (al_find N.eqb p (cs_peers s)) as [ps|] eqn:Ef.
    + destruct (poll_peer sdh ops choice p ps Ef) as (psl & w & (Hss & Hcn & Hfl) & _ & Hfin & Hsend).
      fold s in Hfin, Hsend. rewrite Hfin in Hf'.
      assert (Hpsl : p_send_full psl = true) by (specialize (Hu ps Ef); destruct Hfl; congruence).
      unfold uh_keep in Hf'. cbn [fst snd] in Hf'.
      pose proof (uh_peer_case (cs_now s) w choice p psl) as Hcase.
      assert (Hev : uh_events (cs_now s) w choice (p, psl) = let '(_, evs, _, _) := uh_peer (cs_now s) w choice p psl in evs) by reflexivity.
      destruct (uh_peer (cs_now s) w choice p psl) as [[[a b] c'] d]. revert Hev.
      inversion Hcase as [Hg | ps1 Hg Hcn1 | ps1 wls' conns Hg Hcn1 Hne1 Hsf Hgen | ps1 es0 wls' c0 bad conns sf Hg Hcn1 Hsf Hgen Hsend' Hin1 Hbad Hch]; subst; intros Hev.
      * cbn [al_find] in Hf'. rewrite N.eqb_refl in Hf'. injection Hf' as <-. exact Hpsl.
      * discriminate.
      * pose proof (uh_gate_flag _ _ _ Hg Hpsl). congruence.
      * exfalso. apply (Hns c0 (p_send_full ps1) es0). apply Hsend.
        assert (Hin' : In (EvSend p c0 (p_send_full ps1) es0) [EvSend p c0 (p_send_full ps1) es0]) by (left; reflexivity).
        rewrite <- Hev in Hin'. exact Hin'.
    + exfalso. destruct (c_poll_summary s choice) as (l1 & w & outsC & [Hl _ _ _ Hp _ _ _]). rewrite Hp in Hf'.
      apply (al_find_some_in _ Neqb_spec) in Hf'. apply uh_keep_in in Hf'. destruct Hf' as (psl & Hinl & _).
      destruct (peers_link_in _ _ _ _ Hl Hinl) as (ps & Hin0 & _).
      apply (al_find_none _ Neqb_spec) in Ef. apply Ef. apply (in_map fst) in Hin0. exact Hin0.
  - apply Hu.
Qed.

(* the first wantlist a new peer entry gets is a full one *)
Theorem C05_first_is_full sdh ops1 p c ops2 ch c' f es :
  al_find N.eqb p (cs_peers (st_after sdh ops1)) = None ->
  no_send_to p (skipn (length (outs_after sdh (ops1 ++ [CNewConn p c]))) (outs_after sdh (ops1 ++ [CNewConn p c] ++ ops2))) ->
  In (OSendWantlist p c' f es) (snd (c_poll (st_after sdh (ops1 ++ [CNewConn p c] ++ ops2)) ch)) -> f = true.
Proof.
  intros Hnone Hns Hin.
  assert (Hu : unsent p (st_after sdh (ops1 ++ [CNewConn p c] ++ ops2))).
  { clear Hin. revert Hns. induction ops2 as [|o ops2 IH] using rev_ind; intros Hns.
    - rewrite app_nil_r, st_after_snoc. cbn [cstep fst]. unfold c_new_conn, unsent.
      rewrite (al_mem_find _ Neqb_spec), Hnone. cbn [set_peers cs_peers]. rewrite find_peers_ins by assumption.
      rewrite N.eqb_refl. intros ps [= <-]. reflexivity.
    - replace (ops1 ++ [CNewConn p c] ++ ops2 ++ [o]) with ((ops1 ++ [CNewConn p c] ++ ops2) ++ [o]) in * by (rewrite <- !app_assoc; reflexivity).
      rewrite st_after_snoc. rewrite (outs_after_snoc sdh (ops1 ++ [CNewConn p c] ++ ops2) o) in Hns.
      assert (Hlen : (length (outs_after sdh (ops1 ++ [CNewConn p c])) <= length (outs_after sdh (ops1 ++ [CNewConn p c] ++ ops2)))%nat).
      { clear. induction ops2 as [|o ops2 IH] using rev_ind; [rewrite app_nil_r; lia|].
        replace (ops1 ++ [CNewConn p c] ++ ops2 ++ [o]) with ((ops1 ++ [CNewConn p c] ++ ops2) ++ [o]) by (rewrite <- !app_assoc; reflexivity).
        rewrite (outs_after_snoc sdh (ops1 ++ [CNewConn p c] ++ ops2) o), app_length. lia. }
      rewrite skipn_app in Hns.
      replace (length (outs_after sdh (ops1 ++ [CNewConn p c])) - length (outs_after sdh (ops1 ++ [CNewConn p c] ++ ops2)))%nat with 0%nat in Hns by lia.
      cbn [skipn] in Hns.
      apply unsent_step.
      + apply IH. unfold no_send_to in *. intros c0 f0 es0 H. eapply Hns. apply in_app_iff. left. exact H.
      + unfold no_send_to in *. intros c0 f0 es0 H. eapply Hns. apply in_app_iff. right. exact H. }
  destruct (al_find N.eqb p (cs_peers (st_after sdh (ops1 ++ [CNewConn p c] ++ ops2)))) as [ps|] eqn:Ef.
  - eapply send_full_flag_full; [exact Ef | apply Hu, Ef | exact Hin].
  - exfalso. destruct (C14_one_outstanding sdh _ ch p c' f es Hin) as ((ps & Hf & _) & _). congruence.
Qed.

(* after a transmission fault (a Failed report that was accepted, or no acknowledgement within 1 s) the
   next poll either sends the FULL wantlist on another connection or drops the peer for lack of one *)
Theorem C05_full_after_fault sdh ops ch p ps c0 :
  let s := st_after sdh ops in
  al_find N.eqb p (cs_peers s) = Some ps ->
  (p_ss ps = SsFailed c0 \/ exists t, p_ss ps = SsRequested t c0 /\ (cs_now s - t <? RECEIVE_REQUEST_TIMEOUT) = false) ->
  (forall c f es, In (OSendWantlist p c f es) (snd (c_poll s ch)) -> f = true /\ c <> c0 /\ In c (p_conns ps)) /\
  ((exists c es, In (OSendWantlist p c true es) (snd (c_poll s ch))) \/
   al_find N.eqb p (cs_peers (fst (c_poll s ch))) = None).
Proof.
  intros s Hf Hfault.
  assert (Hg : uh_gate (cs_now s) ps = Some (MkPeer (n_remove c0 (p_conns ps)) SsReady (p_wl ps) true)).
  { unfold uh_gate. destruct Hfault as [-> | (t & -> & ->)]; reflexivity. }
  assert (Hnr : p_ss ps <> SsReady) by (destruct Hfault as [-> | (t & -> & _)]; discriminate).
  split.
  - intros c f es Hin. destruct (send_facts sdh ops ch p c f es Hin) as (ps' & ps1 & wls' & Hf' & Hg' & Hc & _ & Hfull & _).
    fold s in Hf', Hg'. rewrite Hf in Hf'. injection Hf' as <-. rewrite Hg in Hg'. injection Hg' as <-.
    cbn [p_conns] in Hc. apply n_remove_In in Hc. split; [apply Hfull, Hnr|]. split; apply Hc.
  - destruct (poll_peer sdh ops ch p ps Hf) as (psl & w & Hlink & _ & Hfin & Hsend). fold s in Hfin, Hsend.
    pose proof (uh_gate_link (cs_now s) ps psl Hlink) as Hgl. rewrite Hg in Hgl.
    destruct (uh_gate (cs_now s) psl) as [psl1|] eqn:Egl; [|destruct Hgl]. destruct Hgl as (Ec & _ & Esf).
    specialize (Esf Hnr).
    pose proof (uh_peer_case (cs_now s) w ch p psl) as Hcase.
    assert (Hev : uh_events (cs_now s) w ch (p, psl) = let '(_, evs, _, _) := uh_peer (cs_now s) w ch p psl in evs) by reflexivity.
    assert (Hk : uh_keep (cs_now s) w ch (p, psl) = let '(ps', _, _, dead) := uh_peer (cs_now s) w ch p psl in if dead then [] else [(p, ps')]) by reflexivity.
    destruct (uh_peer (cs_now s) w ch p psl) as [[[a b] c'] d]. revert Hev Hk.
    inversion Hcase as [Hg1 | ps1 Hg1 Hcn1 | ps1 wls' conns Hg1 Hcn1 Hne1 Hsf Hgen | ps1 es0 wls' c1 bad conns sf Hg1 Hcn1 Hsf Hgen Hsend' Hin1 Hbad Hch]; subst; intros Hev Hk.
    + congruence.
    + right. rewrite Hfin, Hk. reflexivity.
    + rewrite Egl in Hg1. injection Hg1 as <-. congruence.
    + left. rewrite Egl in Hg1. injection Hg1 as <-. exists c1, es0. apply Hsend.
      assert (Hin' : In (EvSend p c1 true es0) [EvSend p c1 (p_send_full psl1) es0]) by (rewrite Esf; left; reflexivity).
      rewrite <- Hev in Hin'. exact Hin'.
Qed.

(* the refresh timer: when it has expired, the poll re-arms it for 30 s from now and every peer entry that
   survives the poll either has been sent the full wantlist in this poll or still has send_full set *)
Theorem C05_refresh sdh ops ch :
  let s := st_after sdh ops in
  timer_ready s = true ->
  cs_deadline (fst (c_poll s ch)) = cs_now s + SEND_FULL_INTERVAL /\
  forall p ps', al_find N.eqb p (cs_peers (fst (c_poll s ch))) = Some ps' ->
    p_send_full ps' = true \/ exists c es, In (OSendWantlist p c true es) (snd (c_poll s ch)).
Proof.
  intros s Ht. destruct (c_poll_summary s ch) as (l1 & w & outsC & Hsum). pose proof Hsum as [Hl Htim Hdl _ Hp _ _ Ho].
  split; [rewrite Hdl, Ht; reflexivity|].
  intros p ps' Hf'. rewrite Hp in Hf'. apply (al_find_some_in _ Neqb_spec) in Hf'. apply uh_keep_in in Hf'.
  destruct Hf' as (psl & Hinl & Hk). specialize (Htim Ht p psl Hinl).
  unfold uh_keep in Hk. cbn [fst snd] in Hk.
  pose proof (uh_peer_case (cs_now s) w ch p psl) as Hcase.
  assert (Hev : uh_events (cs_now s) w ch (p, psl) = let '(_, evs, _, _) := uh_peer (cs_now s) w ch p psl in evs) by reflexivity.
  destruct (uh_peer (cs_now s) w ch p psl) as [[[a b] c'] d]. revert Hev.
  inversion Hcase as [Hg1 | ps1 Hg1 Hcn1 | ps1 wls' conns Hg1 Hcn1 Hne1 Hsf Hgen | ps1 es0 wls' c1 bad conns sf Hg1 Hcn1 Hsf Hgen Hsend' Hin1 Hbad Hch]; subst; intros Hev.
  - destruct Hk as [[= <-] | []]. left. exact Htim.
  - destruct Hk.
  - pose proof (uh_gate_flag _ _ _ Hg1 Htim). congruence.
  - right. exists c1, es0. rewrite Ho, !in_app_iff. right; right; right. apply in_map_iff.
    exists (EvSend p c1 true es0). split; [reflexivity|]. apply in_flat_map. exists (p, psl). split; [exact Hinl|].
    assert (Hin' : In (EvSend p c1 true es0) [EvSend p c1 (p_send_full ps1) es0]) by (rewrite (uh_gate_flag _ _ _ Hg1 Htim); left; reflexivity).
    rewrite <- Hev in Hin'. exact Hin'.
Qed.

(* between expiries only CAdvance moves the clock and only an expired poll moves the deadline *)
Lemma C05_timer_frame s o :
  (forall ch, o <> CPoll ch) ->
  cs_deadline (fst (cstep s o)) = cs_deadline s /\
  cs_now (fst (cstep s o)) = cs_now s + match o with CAdvance ms => ms | _ => 0 end.
Proof.
  intros Hnp. destruct o; cbn [cstep fst].
  - unfold c_new_conn. destruct (al_mem N.eqb p (cs_peers s)); cbn; split; lia.
  - unfold c_conn_closed. destruct (al_find N.eqb p (cs_peers s)); [destruct (p_conns (remove_conn c p0))|]; cbn; split; lia.
  - unfold c_get. destruct c; cbn; split; lia.
  - rewrite c_cancel_unfold. cbv zeta.
    assert (E : cs_deadline (cancel_abort s q) = cs_deadline s /\ cs_now (cancel_abort s q) = cs_now s).
    { unfold cancel_abort. destruct (al_find N.eqb q (cs_abort s)); [|auto]. unfold abort_task. cbn [set_abort cs_tasks].
      destruct (al_mem N.eqb n (cs_tasks s)); auto. }
    destruct E as [E1 E2].
    destruct (find_query q (cs_c2q (cancel_abort s q))) as [[c1 qs]|]; [destruct (swap_remove_q q qs)|]; cbn; rewrite ?E1, ?E2; split; lia.
  - unfold c_incoming. destruct (al_find N.eqb p (cs_peers s)); [|cbn; split; lia].
    match goal with |- context [ia_panic ?a] => destruct (ia_panic a); [|destruct (ia_new a)] end; cbn; split; lia.
  - cbn. split; lia.
  - unfold c_release. destruct (find (call_is call) (cs_tasks s)) as [[tid t]|]; cbn; split; lia.
  - cbn. split; lia.
  - exfalso. eapply Hnp. reflexivity.
  - cbn. split; lia.
Qed.

Example C05_example :
  let ops := [CNewConn 7 1; CNewConn 7 2; CGet (Some ex_c1); CPoll [(7, 1)]; CRelease 0 SMiss;
              CReport 7 1 (RpFailed 1); CAdvance 30000] in
  In (OSendWantlist 7 2 true [(KWantHave, ex_c1)]) (snd (c_poll (st_after true ops) [(7, 2)])) /\
  timer_ready (st_after true ops) = true /\
  al_find N.eqb 7 (cs_peers (st_after true ops)) = Some (MkPeer [1; 2] (SsFailed 1) wls_new false).
Proof. vm_compute. split; [repeat (first [left; reflexivity | right]) | split; reflexivity]. Qed.
