(* Net_proofs53.v — package Q, part 4: numeric corollaries (C13_net_total_bound) and the life cycle of a server lookup.
   * `reachable_outq_nil`: between any two steps of a net the server's outgoing_queue is EMPTY (new_blocks_available is only
     called from Behaviour::poll, immediately followed by server.poll, whose update_handlers drains the queue).
   * `C13_net_total_bound`: the size of node j's server state (want sets + waiter registrations + queue + tasks with everything
     they hold) is at most 2*1024*(connected peers) + 1025*(lookup tasks alive); the tasks alive are at most the wantlist
     messages delivered to j, every parked one has its store call outstanding in `n_calls` (net_live), so
     parked tasks <= outstanding server store calls.  Nothing depends on the length of the run.
   * `C13_net_lookup_released`: the completion (NStore) of a server store call takes the call out of `n_calls` and the parked
     entry out of `s_blocked`; the number of tasks does not grow.
   * client: `C13_net_client_total_partial` (per-peer request states <= live CIDs + retention) and the witness
     `C13_net_client_total_refuted`: with NO live query and NO task the client still holds a request state (retention while the
     peer's wantlist is in flight), so "size <= k * (live queries + peers * live queries)" is false as stated. *)
From BS Require Import Types Wantlist Wantlist_proofs Wantlist_proofs2 Client Client_proofs Client_proofs2 Client_proofs3 Client_proofs4
  Client_proofs5 Client_proofs7 Client_proofs8 Client_props2 Server_lemmas Server_inv Server_proofs Server_live
  Net Net_proofs Net_props Net_proofs2 Net_proofs3 Net_proofs4 Net_proofs5 Net_proofs6 Net_proofs7 Net_proofs9 Net_proofs10 Net_proofs21 Net_proofs24
  Net_proofs28 Net_proofs32 Net_proofs40 Net_proofs41 Net_proofs43 Net_proofs50 Net_proofs51 Net_proofs52.
From Coq Require Import ZArith ZifyBool ZifyN ZifyNat Lia.
Open Scope N_scope.

(* ---------------------------------------------------------------- sizes *)
Definition ready_size (l : list Server.task) : nat := fold_right (fun t a => (task_size t + 1 + a)%nat) O l.
Definition blocked_size (l : list (N * (cid * Server.task))) : nat :=
  fold_right (fun x a => (task_size (snd (snd x)) + 2 + a)%nat) O l.

(* everything the server half holds: (peer, cid) pairs of the want sets and of the waiter lists, queued blocks, and for every
   task itself + its results so far + its CIDs still to fetch (+ the CID a parked task waits on) *)
Definition srv_size (st : sstate) : nat :=
  (wants_total (s_wants st) + regs_total (s_waiting st) + length (s_outq st) + ready_size (s_ready st) + blocked_size (s_blocked st))%nat.

(* the server part of Net.node_work, verbatim *)
Definition srv_work (st : sstate) : nat :=
  (fold_right (fun t a => (length (Server.t_todo t) + 1 + a)%nat) O (s_ready st)
   + fold_right (fun x a => (length (Server.t_todo (snd (snd x))) + 1 + a)%nat) O (s_blocked st)
   + length (s_outq st)
   + fold_right (fun x a => (length (snd x) + a)%nat) O (s_wants st))%nat.

Lemma node_work_split n :
  node_work n =
  (length (wl_cids (cs_wl (n_client n))) + length (cs_tasks (n_client n)) + length (cs_queue (n_client n))
   + length (cs_new_blocks (n_client n)) + length (n_calls n) + srv_work (n_server n))%nat.
Proof. unfold node_work, srv_work. lia. Qed.

Lemma ready_work_le l : (fold_right (fun t a => (length (Server.t_todo t) + 1 + a)%nat) O l <= ready_size l)%nat.
Proof. induction l as [|t l IH]; [cbn; lia|]. cbn [fold_right ready_size]. fold (ready_size l). unfold task_size. lia. Qed.

Lemma blocked_work_le (l : list (N * (cid * Server.task))) :
  (fold_right (fun x a => (length (Server.t_todo (snd (snd x))) + 1 + a)%nat) O l <= blocked_size l)%nat.
Proof. induction l as [|t l IH]; [cbn; lia|]. cbn [fold_right blocked_size]. fold (blocked_size l). unfold task_size. lia. Qed.

Lemma srv_work_le_size st : (srv_work st <= srv_size st)%nat.
Proof.
  unfold srv_work, srv_size, wants_total. pose proof (ready_work_le (s_ready st)). pose proof (blocked_work_le (s_blocked st)). lia.
Qed.

Lemma ready_size_bound l : (forall t, In t l -> (task_size t <= 1024)%nat) -> (ready_size l <= 1025 * length l)%nat.
Proof.
  induction l as [|t l IH]; intros H; cbn [ready_size fold_right length]; [lia|].
  pose proof (H t (or_introl eq_refl)). specialize (IH (fun x Hx => H x (or_intror Hx))). unfold ready_size in IH. lia.
Qed.

Lemma blocked_size_bound l :
  (forall k c t, In (k, (c, t)) l -> (task_size t + 1 <= 1024)%nat) -> (blocked_size l <= 1025 * length l)%nat.
Proof.
  induction l as [|[k [c t]] l IH]; intros H; cbn [blocked_size fold_right length snd]; [lia|].
  pose proof (H k c t (or_introl eq_refl)). specialize (IH (fun k' c' t' Hx => H k' c' t' (or_intror Hx))). unfold blocked_size in IH. lia.
Qed.

(* ---------------------------------------------------------------- the outgoing queue is empty between steps *)
Lemma do_poll_outq st : s_outq (fst (Server.do_poll st)) = [].
Proof.
  unfold Server.do_poll. destruct (fold_left run_task (s_ready st) _) as [st1 out1]. unfold update_handlers.
  destruct (fold_left uh_block (s_outq st1) (s_wants st1, s_waiting st1, [])) as [[w wt] bat]. reflexivity.
Qed.

Lemma outq_step_other Sz st op :
  match op with SNewBlocks _ | SPoll => False | _ => True end -> s_outq (fst (sstep_l Sz st op)) = s_outq st.
Proof.
  intros Ho. unfold sstep_l. destruct (s_panic st); [reflexivity|]. destruct op as [q|q w order|bl|q|k r|]; cbn [fst]; try contradiction.
  - unfold new_connection. destruct (alookup N.eqb q (s_wants st)); reflexivity.
  - unfold process_incoming_message. destruct (alookup N.eqb q (s_wants st)); [|reflexivity]. destruct (process_wantlist Sz l w); reflexivity.
  - unfold peer_disconnected. destruct (alookup N.eqb q (s_wants st)); reflexivity.
  - unfold release. destruct (alookup N.eqb k (s_blocked st)) as [[c t]|]; reflexivity.
Qed.

Lemma outq_poll Sz st : s_outq st = [] -> s_outq (fst (sstep_l Sz st SPoll)) = [].
Proof. intros H. unfold sstep_l. destruct (s_panic st); [exact H | apply do_poll_outq]. Qed.

Lemma outq_nb_poll Sz st nb : s_outq st = [] -> s_outq (fst (sstep_l Sz (fst (sstep_l Sz st (SNewBlocks nb))) SPoll)) = [].
Proof.
  intros H. unfold sstep_l at 2. destruct (s_panic st) eqn:E; cbn [fst].
  - unfold sstep_l. rewrite E. exact H.
  - unfold sstep_l. cbn [new_blocks_available s_panic]. rewrite E. apply do_poll_outq.
Qed.

Section NetTotals.
  Variables (Sz : N) (Hh : hash_fn).
  Hypothesis HSz : 32 <= Sz.

  Lemma srv_ops_outq s o j st : s_outq st = [] -> s_outq (srv_run Sz st (srv_ops Sz s o j)) = [].
  Proof.
    intros H.
    assert (Hone : forall op, match op with SNewBlocks _ | SPoll => False | _ => True end -> s_outq (srv_run Sz st [op]) = [])
      by (intros op Hop; rewrite srv_run_one, outq_step_other; assumption).
    destruct o; cbn [srv_ops]; try exact H.
    - destruct (get_node s i); [|exact H]. destruct (get_node s j0); [|exact H]. destruct ((i =? j0) || Net.connected s i j0); [exact H|].
      destruct (j =? j0); [apply Hone; exact I|]. destruct (j =? i); [apply Hone; exact I | exact H].
    - destruct (get_node s i); [|exact H]. destruct (get_node s j0); [|exact H]. destruct (Net.connected s i j0); [|exact H].
      destruct (j =? j0); [apply Hone; exact I|]. destruct (j =? i); [apply Hone; exact I | exact H].
    - destruct (j =? i); [|exact H]. destruct (get_node s i); [|exact H]. destruct (poll_nb n) as [|b nb]; cbn [app].
      + rewrite srv_run_one. apply outq_poll, H.
      + rewrite (srv_run_app Sz _ [SNewBlocks (b :: nb)] [SPoll]), !srv_run_one. apply outq_nb_poll, H.
    - destruct (j =? i); [|exact H]. destruct (get_node s i); [|exact H].
      destruct (nth_error (n_calls n) (N.to_nat k)) as [[m c|m bl|m c]|]; try exact H. apply Hone. exact I.
    - destruct (j =? j0); [|exact H]. destruct (take_first (w_between i j0) (wire_w s)) as [[m rest]|]; [|exact H].
      destruct (get_node s i); [|exact H]. destruct (get_node s j0); [|exact H]. destruct (wm_full m || negb (is_nil (wm_entries m))); [|exact H].
      apply Hone. exact I.
  Qed.

  Definition outq_nil (s : net) : Prop := forall j nj, get_node s j = Some nj -> s_outq (n_server nj) = [].

  Lemma outq_nil_run ops : forall s, net_ok Sz Hh s -> Forall (nop_good Sz Hh) ops -> outq_nil s -> outq_nil (fst (nrun Sz Hh s ops)).
  Proof.
    induction ops as [|o ops IH]; intros s Hok Hg H; [exact H|]. rewrite (nrun_cons Sz Hh). cbn [fst]. inversion Hg; subst.
    apply IH; [apply net_ok_step; assumption | assumption|].
    intros j nj' Hj. destruct (srv_step_ok Sz Hh HSz s o j nj' Hok Hj) as (nj & Hnj & E). rewrite E. apply srv_ops_outq, (H j nj Hnj).
  Qed.

  Theorem reachable_outq_nil n ops :
    Forall (nop_good Sz Hh) ops -> forall j nj, get_node (fst (nrun Sz Hh (net_init n) ops)) j = Some nj -> s_outq (n_server nj) = [].
  Proof.
    intros Hg. apply outq_nil_run; [apply net_ok_init, HSz | exact Hg|].
    intros j nj Hj. apply get_node_init in Hj. subst nj. reflexivity.
  Qed.

  (* ---------- parked lookups and outstanding store calls ---------- *)
  Definition ksget_num (x : scall) : list N := match x with KSGet k _ => [k] | _ => [] end.
  Definition srv_calls (calls : list scall) : list N := flat_map ksget_num calls.

  Lemma srv_calls_In k calls : In k (srv_calls calls) <-> exists c, In (KSGet k c) calls.
  Proof.
    unfold srv_calls. rewrite in_flat_map. split.
    - intros ([m c|m bl|m c] & Hin & Hk); cbn [ksget_num] in Hk; try destruct Hk as [<-|[]]; try destruct Hk. eauto.
    - intros (c & Hin). exists (KSGet k c). split; [exact Hin | left; reflexivity].
  Qed.

  (* ---------- theorem 5, server ---------- *)
  Theorem C13_net_total_bound n ops :
    Forall (nop_good Sz Hh) ops ->
    let s := fst (nrun Sz Hh (net_init n) ops) in
    forall j nj, get_node s j = Some nj ->
    let st := n_server nj in
    s_outq st = [] /\
    (srv_size st <= 2 * 1024 * npeers s j + 1025 * tasks_n st)%nat /\
    (srv_work st <= srv_size st)%nat /\
    (tasks_n st <= count_dw j ops)%nat /\
    (Forall (nop_wf Sz) ops ->
       (* every parked task has its store call outstanding, with the same CID *)
       (forall k c t, In (k, (c, t)) (s_blocked st) -> In (KSGet k c) (n_calls nj)) /\
       (length (s_blocked st) <= length (srv_calls (n_calls nj)))%nat).
  Proof.
    intros Hg s j nj Hj st.
    destruct (C13_net_server_bounded Sz Hh HSz n ops Hg j nj Hj) as ((_ & _ & _ & _) & (_ & _ & Hreg & Hwt) & (_ & Hdw & Hr & Hb & Hnd & Hag) & Hp).
    fold s st in Hreg, Hwt, Hdw, Hr, Hb, Hnd, Hag, Hp.
    pose proof (reachable_outq_nil n ops Hg j nj Hj) as Hq. fold st in Hq.
    split; [exact Hq|]. split; [|split; [apply srv_work_le_size|split; [exact Hdw|]]].
    - unfold srv_size. rewrite Hq, Hreg. cbn [length].
      pose proof (ready_size_bound (s_ready st) Hr) as H1.
      pose proof (blocked_size_bound (s_blocked st) (fun k c t Hin => proj1 (Hb k c t Hin))) as H2. unfold tasks_n. lia.
    - intros Hw. destruct (reachable_RI Sz Hh HSz n ops Hg Hw) as [_ [Hnl _]]. fold s in Hnl.
      destruct (Hnl j nj Hj) as (_ & _ & _ & Hslk). specialize (Hslk Hp).
      assert (Hcall : forall k c t, In (k, (c, t)) (s_blocked st) -> In (KSGet k c) (n_calls nj)).
      { intros k c t Hin. destruct (Hslk k (c, t) Hin) as (c0 & Hc0). destruct (Hag k c0 Hc0) as [_ Heq]. rewrite <- (Heq c t Hin) in Hc0. exact Hc0. }
      split; [exact Hcall|]. rewrite <- (map_length fst (s_blocked st)). apply NoDup_incl_length; [exact Hnd|].
      intros k Hk. apply in_map_iff in Hk. destruct Hk as ([k' [c t]] & <- & Hin). cbn [fst]. apply srv_calls_In. exists c. eapply Hcall, Hin.
  Qed.

  (* ---------- a lookup is released by its completion ---------- *)
  Theorem C13_net_lookup_released s j k nj m c :
    net_ok Sz Hh s -> get_node s j = Some nj -> nth_error (n_calls nj) (N.to_nat k) = Some (KSGet m c) ->
    exists nj', get_node (fst (nstep Sz Hh s (NStore j k))) j = Some nj' /\
      n_calls nj' = remove_nth (N.to_nat k) (n_calls nj) /\
      ~ In m (map fst (s_blocked (n_server nj'))) /\
      (tasks_n (n_server nj') <= tasks_n (n_server nj))%nat /\
      s_wants (n_server nj') = s_wants (n_server nj) /\ s_waiting (n_server nj') = s_waiting (n_server nj).
  Proof.
    intros Hok Hj Hn. pose proof (no_nodes Sz Hh s Hok j nj Hj) as [_ _ _ _ _ _ Hsv _ _ _ _]. destruct Hsv as (HI & _ & Hp & _).
    cbn [nstep fst]. rewrite (get_on_node_same s j _ nj Hj). eexists. split; [reflexivity|].
    unfold node_store. rewrite Hn. cbn [n_calls n_server]. split; [reflexivity|].
    pose proof (tasks_n_step Sz (n_server nj) (SRelease m (store_get (n_store nj) c)) HI) as Ht. cbn [is_smsg] in Ht.
    unfold srv. split; [|split; [lia|]].
    - unfold sstep_l. rewrite Hp. cbn [fst]. unfold release. destruct (alookup N.eqb m (s_blocked (n_server nj))) as [[c' t]|] eqn:E; cbn [s_blocked].
      + intros Hin. apply in_map_iff in Hin. destruct Hin as ([k' x] & Hk & Hin). cbn [fst] in Hk. subst k'. unfold adel in Hin.
        apply filter_In in Hin. destruct Hin as [_ Hin]. cbn [fst] in Hin. rewrite N.eqb_refl in Hin. discriminate.
      + apply (alookup_None N.eqb Neqb_spec). exact E.
    - unfold sstep_l. rewrite Hp. cbn [fst]. apply release_frame.
  Qed.

  (* ---------- theorem 5, client: the strongest true variant ---------- *)
  Definition reqs_total (peers : list (peer * peer_state)) : nat :=
    fold_right (fun x a => (length (req (p_wl (snd x))) + a)%nat) O peers.
  Definition stale_total (g : list cop) (peers : list (peer * peer_state)) : nat :=
    fold_right (fun x a => (length (stale_cids (fst x) true g) + a)%nat) O peers.

  Definition cl_size (c : cstate) : nat :=
    (length (wl_cids (cs_wl c)) + length (cs_c2q c) + reqs_total (cs_peers c) + length (cs_tasks c) + length (cs_ready c)
     + length (cs_abort c) + length (cs_queue c))%nat.

  (* queries of the node without an event yet: waiting for peers (c2q), in their local lookup (abort handles), or with their
     outcome queued for the next poll *)
  Definition live_queries (c : cstate) : nat :=
    (length (c2q_qids (cs_c2q c)) + length (cs_abort c) + length (queue_qids (cs_queue c)))%nat.

  Lemma c2q_len_le (m : list (cid * list qid)) : (forall c qs, In (c, qs) m -> qs <> []) -> (length m <= length (c2q_qids m))%nat.
  Proof.
    induction m as [|[c qs] m IH]; intros H; [cbn; lia|]. unfold c2q_qids. cbn [flat_map snd length]. rewrite app_length.
    pose proof (H c qs (or_introl eq_refl)) as Hne. specialize (IH (fun c' qs' Hin => H c' qs' (or_intror Hin))). unfold c2q_qids in IH.
    destruct qs; [congruence|]. cbn [length]. lia.
  Qed.

  Theorem C13_net_client_total_partial n ops :
    Forall (nop_good Sz Hh) ops ->
    let s := fst (nrun Sz Hh (net_init n) ops) in
    forall i ni, get_node s i = Some ni ->
    let cl := n_client ni in
    let g := cops_run Sz Hh (net_init n) ops i in
    (reqs_total (cs_peers cl) <= npeers s i * length (cs_c2q cl) + stale_total g (cs_peers cl))%nat /\
    (cl_size cl <= (4 + npeers s i) * live_queries cl + stale_total g (cs_peers cl)
                   + 2 * (length (filter aborted_get (cs_tasks cl)) + length (filter is_put (cs_tasks cl))))%nat.
  Proof.
    intros Hg s i ni Hni cl g.
    destruct (C13_net_client_bounded Sz Hh HSz n ops Hg i ni Hni) as ((Hp1 & _ & _ & Hp4) & Hreq & (_ & _ & _ & Hl & _ & Hne) & (_ & _ & Ht3 & _ & Ht5 & Ht6 & _) & (_ & Hu2 & _)).
    fold s cl g in Hp1, Hp4, Hreq, Hl, Hne, Ht3, Ht5, Ht6, Hu2.
    assert (Hr : (reqs_total (cs_peers cl) <= length (cs_peers cl) * length (cs_c2q cl) + stale_total g (cs_peers cl))%nat).
    { assert (Hall : forall p ps, In (p, ps) (cs_peers cl) -> (length (req (p_wl ps)) <= length (cs_c2q cl) + length (stale_cids p true g))%nat).
      { intros p ps Hin. apply (Hreq p ps). apply (al_in_find N.eqb Neqb_spec); assumption. }
      revert Hall. generalize (cs_peers cl) as L. induction L as [|[p ps] L IH]; intros Hall; cbn [reqs_total stale_total fold_right length fst snd]; [lia|].
      pose proof (Hall p ps (or_introl eq_refl)). specialize (IH (fun q qs Hin => Hall q qs (or_intror Hin))). unfold reqs_total, stale_total in IH. nia. }
    assert (Hrd : (length (cs_ready cl) <= length (cs_tasks cl))%nat).
    { rewrite <- (map_length fst (cs_tasks cl)). apply NoDup_incl_length; assumption. }
    assert (Hc : (length (cs_c2q cl) <= length (c2q_qids (cs_c2q cl)))%nat) by (apply c2q_len_le; intros c qs Hin; apply (Hne c qs Hin)).
    split; [nia|]. unfold cl_size, live_queries. rewrite Hl, Ht3, Hu2 in *. nia.
  Qed.
End NetTotals.

(* ---------- FINDING: client state without any live query ---------- *)
(* A (0) asks B (1) for c1, the want is handed to the connection (in flight), the query is cancelled: A's record of B keeps
   the request state of c1 — through any number of polls — until the wantlist in flight is delivered *)
Definition q_retain_ops : list nop := [NConnect 0 1; NGet 0 c1; NPoll 0; NStore 0 0; NDeliverW 0 1; NPoll 0; NCancel 0 0; NPoll 0; NPoll 0].

Theorem C13_net_client_total_refuted :
  exists (ops : list nop) (i : N) (ni : node),
    Forall (nop_good SZ toyH) ops /\ Forall (nop_wf SZ) ops /\
    get_node (fst (nrun SZ toyH (net_init 2) ops)) i = Some ni /\
    live_queries (n_client ni) = O /\ cs_tasks (n_client ni) = [] /\ wl_cids (cs_wl (n_client ni)) = [] /\
    npeers (fst (nrun SZ toyH (net_init 2) ops)) i = 1%nat /\
    map (fun e => (fst e, keys (p_wl (snd e)))) (cs_peers (n_client ni)) = [(1, [c1])] /\
    cl_size (n_client ni) = 1%nat.
Proof.
  exists q_retain_ops, 0. eexists.
  split; [unfold q_retain_ops; repeat (constructor; [exact I|]); constructor|].
  split; [unfold q_retain_ops; constructor; [exact I|]; constructor; [apply Net_props.c1_wf|]; repeat (constructor; [exact I|]); constructor|].
  split; [vm_compute; reflexivity|]. split; [vm_compute; reflexivity|]. split; [vm_compute; reflexivity|]. split; [vm_compute; reflexivity|].
  split; [vm_compute; reflexivity|]. split; vm_compute; reflexivity.
Qed.
