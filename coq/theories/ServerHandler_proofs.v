(* ServerHandler_proofs.v — lemmas and theorems about ServerHandler.v (C09, outbound side). *)
From BS Require Import Handler_proofs ServerHandler.
From Coq Require Import ZArith ZifyBool ZifyN ZifyNat Lia.

Lemma splitN_len_app {A} (a b : list A) : splitN (len a) (a ++ b) = (a, b).
Proof.
  induction a as [|x a IH]; cbn [app].
  - destruct b; reflexivity.
  - cbn [splitN]. rewrite len_cons. destruct (len a + 1 =? 0) eqn:E; [lia|].
    replace (len a + 1 - 1) with (len a) by lia. rewrite IH. reflexivity.
Qed.

Lemma splitN_all {A} (l : list A) : splitN (len l) l = (l, []).
Proof. rewrite <- (app_nil_r l) at 2. apply splitN_len_app. Qed.

Section Proofs.
Variable encode : message -> bytes.
Variable block_size : blk -> N.

Fixpoint total (l : list blk) : N :=
  match l with [] => 0 | b :: l' => block_size b + total l' end.

Lemma total_app a b : total (a ++ b) = total a + total b.
Proof. induction a as [|x a IH]; cbn [app total]; [lia | rewrite IH; lia]. Qed.

(* ------------------------------------------------------------------------------------------------ *)
(* blocks_fitting_in_message                                                                        *)
(* ------------------------------------------------------------------------------------------------ *)

Lemma bfit_go_spec bs : forall size n, size <= MAX_MESSAGE_SIZE ->
  match bfit_go block_size size n bs with
  | Some k => exists pre b post, bs = pre ++ b :: post /\ size + total pre <= MAX_MESSAGE_SIZE
                /\ MAX_MESSAGE_SIZE < size + total pre + block_size b /\ k = N.max (n + len pre) 1
  | None => size + total bs <= MAX_MESSAGE_SIZE
  end.
Proof.
  induction bs as [|b bs IH]; intros size n LE; cbn [bfit_go total].
  - lia.
  - destruct (MAX_MESSAGE_SIZE <? size + block_size b) eqn:E.
    + exists [], b, bs. cbn [app total]. change (len (@nil blk)) with 0. repeat split; lia.
    + specialize (IH (size + block_size b) (n + 1) ltac:(lia)).
      destruct (bfit_go block_size (size + block_size b) (n + 1) bs) as [k|].
      * destruct IH as (pre & b' & post & -> & H1 & H2 & ->).
        exists (b :: pre), b', post. cbn [app total]. rewrite len_cons. repeat split; lia.
      * lia.
Qed.

(* what the split does: the part that is sent now is the longest prefix that fits, or the first block
   alone if even that does not fit; nothing is lost or reordered *)
Lemma blocks_fitting_spec l now rest :
  splitN (blocks_fitting_in_message block_size l) l = (now, rest) ->
  l = now ++ rest
  /\ (total now <= MAX_MESSAGE_SIZE \/ exists b, now = [b] /\ MAX_MESSAGE_SIZE < block_size b)
  /\ (l <> [] -> now <> [])
  /\ (forall b rest', rest = b :: rest' -> MAX_MESSAGE_SIZE < total now + block_size b).
Proof.
  unfold blocks_fitting_in_message. pose proof (bfit_go_spec l 0 0 ltac:(unfold MAX_MESSAGE_SIZE; lia)) as S.
  destruct (bfit_go block_size 0 0 l) as [k|].
  - destruct S as (pre & b & post & -> & H1 & H2 & ->). destruct pre as [|p pre].
    + cbn [app]. change (len (@nil blk)) with 0. replace (N.max (0 + 0) 1) with 1 by lia.
      cbn [splitN]. replace (1 =? 0) with false by reflexivity. replace (1 - 1) with 0 by lia.
      assert (E : splitN 0 post = ([], post)) by (destruct post; reflexivity). rewrite E.
      intros [= <- <-]. cbn [total] in *. repeat split.
      * right. exists b. split; [reflexivity | lia].
      * discriminate.
      * intros b' rest' ->. cbn [total]. lia.
    + replace (N.max (0 + len (p :: pre)) 1) with (len (p :: pre)) by (rewrite len_cons; lia).
      rewrite splitN_len_app. intros [= <- <-]. repeat split.
      * left. lia.
      * discriminate.
      * intros b' rest' [= <- <-]. lia.
  - rewrite splitN_all. intros [= <- <-]. rewrite app_nil_r. repeat split.
    + left. lia.
    + auto.
    + discriminate.
Qed.

(* ------------------------------------------------------------------------------------------------ *)
(* The fuel of shpoll_loop is always sufficient                                                     *)
(* ------------------------------------------------------------------------------------------------ *)

Definition smu (st : shstate) : nat :=
  (match sh_pending st with None => 0 | Some l => 1 + length l end
   + match sh_sink st with SvReady _ _ => 2 | SvNone => 1 | SvRequested => 0 end)%nat.

Lemma splitN_rest_shorter {A} (k : N) (l a b : list A) :
  splitN k l = (a, b) -> (length b <= length l)%nat.
Proof. intros H. apply splitN_app in H. subst l. rewrite app_length. lia. Qed.

Lemma sh_iter_measure st s r st' s' o :
  sh_iter encode block_size st s = (r, st', s', o) ->
  (r = SiPending /\ sh_exhausted st' = sh_exhausted st) \/ ((smu st' < smu st)%nat /\ sh_exhausted st' = sh_exhausted st).
Proof.
  unfold sh_iter. destruct st as [k p nx ex sta q]. cbn [sh_pending sh_sink].
  destruct p as [l|], k as [| |id buf]; try (intros [= <- <- <- <-]; left; split; reflexivity).
  - intros [= <- <- <- <-]. right. unfold smu; cbn. split; [lia | reflexivity].
  - destruct (fr_res (fw_poll_flush buf s)) eqn:FR.
    + destruct (splitN (blocks_fitting_in_message block_size l) l) as [now rest] eqn:SP.
      intros [= <- <- <- <-]. right. unfold smu; cbn. split; [|reflexivity].
      pose proof (blocks_fitting_spec l now rest SP) as (E & _ & NE & _).
      destruct rest as [|b rest]; [lia|].
      assert (now <> []) by (apply NE; intros ->; destruct now; discriminate).
      subst l. rewrite app_length. destruct now; [congruence|]. cbn. lia.
    + intros [= <- <- <- <-]. right. unfold smu; cbn. split; [lia | reflexivity].
    + intros [= <- <- <- <-]. left. split; reflexivity.
  - destruct (fr_res (fw_poll_flush buf s)); intros [= <- <- <- <-]; left; split; reflexivity.
Qed.

Lemma shpoll_loop_not_exhausted fuel : forall st s,
  (smu st < fuel)%nat -> sh_exhausted st = false ->
  sh_exhausted (fst (shpoll_loop encode block_size fuel st s)) = false.
Proof.
  induction fuel as [|f IH]; intros st s M X; [lia|].
  cbn [shpoll_loop]. destruct (sh_iter encode block_size st s) as [[[r st'] s'] o] eqn:E.
  destruct (sh_iter_measure _ _ _ _ _ _ E) as [[-> X']|[LT X']].
  - cbn. congruence.
  - destruct r.
    + cbn. congruence.
    + specialize (IH st' s' ltac:(lia) ltac:(congruence)).
      destruct (shpoll_loop encode block_size f st' s'). exact IH.
    + specialize (IH st' s' ltac:(lia) ltac:(congruence)).
      destruct (shpoll_loop encode block_size f st' s'). exact IH.
Qed.

Theorem server_poll_fuel_sufficient st s :
  sh_exhausted st = false -> sh_exhausted (fst (sh_do_poll encode block_size st s)) = false.
Proof.
  intros X. apply shpoll_loop_not_exhausted; [|exact X].
  unfold smu, shpoll_fuel. destruct (sh_pending st), (sh_sink st); lia.
Qed.

(* ------------------------------------------------------------------------------------------------ *)
(* C09: outbound splitting                                                                          *)
(* ------------------------------------------------------------------------------------------------ *)

Fixpoint swrote_on (id : N) (outs : list shout) : bytes :=
  match outs with
  | [] => []
  | SHWrote i bs :: r => if i =? id then bs ++ swrote_on id r else swrote_on id r
  | _ :: r => swrote_on id r
  end.

Lemma swrote_on_app id a b : swrote_on id (a ++ b) = swrote_on id a ++ swrote_on id b.
Proof.
  induction a as [|x a IH]; [reflexivity|]. destruct x; cbn; auto.
  destruct (stream =? id); rewrite IH, ?app_assoc; reflexivity.
Qed.

Lemma swrote_on_sevs id id' evs :
  swrote_on id (shout_of_sevs id' evs) = if id' =? id then wrote_of evs else [].
Proof.
  unfold shout_of_sevs. induction evs as [|[bs|] e IH]; cbn.
  - destruct (id' =? id); reflexivity.
  - rewrite IH. destruct (id' =? id); reflexivity.
  - exact IH.
Qed.

(* concatenated frames of the messages started on stream id, in order *)
Fixpoint sbytes (id : N) (started : list (N * list blk)) : bytes :=
  match started with
  | [] => []
  | (i, now) :: r => if i =? id then encode (payload_message now) ++ sbytes id r else sbytes id r
  end.

Lemma sbytes_app id a b : sbytes id (a ++ b) = sbytes id a ++ sbytes id b.
Proof.
  induction a as [|[i now] a IH]; [reflexivity|]. cbn. destruct (i =? id); rewrite IH, ?app_assoc; reflexivity.
Qed.

Definition pending_list (st : shstate) : list blk :=
  match sh_pending st with None => [] | Some l => l end.

Definition no_drop (outs : list shout) : Prop := forall i, ~ In (SHDropped i) outs.

Lemma no_drop_app a b : no_drop (a ++ b) <-> no_drop a /\ no_drop b.
Proof.
  unfold no_drop. split.
  - intros H. split; intros i Hi; apply (H i); apply in_app_iff; auto.
  - intros [A B] i Hi. apply in_app_iff in Hi as [Hi|Hi]; [apply (A i Hi) | apply (B i Hi)].
Qed.

Definition fits (p : list blk) : Prop :=
  total p <= MAX_MESSAGE_SIZE \/ exists b, p = [b] /\ MAX_MESSAGE_SIZE < block_size b.

Record SVI (st : shstate) (outs : list shout) : Prop := MkSVI {
  sv_size : Forall (fun p => fits (snd p)) (sh_started st);
  sv_all : concat (map snd (sh_started st)) ++ pending_list st = sh_queued st;
  sv_sink : forall id buf, sh_sink st = SvReady id buf ->
              id < sh_next st /\ swrote_on id outs ++ buf = sbytes id (sh_started st);
  sv_pref : forall id, prefix (swrote_on id outs) (sbytes id (sh_started st));
  sv_lt : forall p, In p (sh_started st) -> fst p < sh_next st;
  sv_one : no_drop outs ->
           match sh_sink st with
           | SvReady id _ => forall p, In p (sh_started st) -> fst p = id
           | _ => sh_started st = []
           end
}.

Lemma SVI_init : SVI sh_init [].
Proof.
  constructor; cbn; auto; try discriminate; try tauto.
  intros id. exists []. reflexivity.
Qed.

Definition siter_out (r : siter_res) : list shout := match r with SiReady x => [x] | _ => [] end.

Lemma sbytes_fresh id started nx : (forall p, In p started -> fst p < nx) -> nx <= id -> sbytes id started = [].
Proof.
  induction started as [|[i now] r IH]; intros H L; [reflexivity|]. cbn.
  assert (i < nx) by (apply (H (i, now)); left; reflexivity).
  destruct (i =? id) eqn:E; [apply N.eqb_eq in E; lia|]. apply IH; [|exact L]. intros p Hp. apply H. right; exact Hp.
Qed.

(* the current stream accepts some bytes (and is then possibly dropped) *)
Lemma SVI_write k' p nx ex sta q id buf outs evs buf' dropped :
  SVI (MkSH (SvReady id buf) p nx ex sta q) outs -> wrote_of evs ++ buf' = buf ->
  (k' = SvReady id buf' /\ dropped = [] \/ k' = SvNone /\ dropped = [SHDropped id]) ->
  SVI (MkSH k' p nx ex sta q) (outs ++ shout_of_sevs id evs ++ dropped).
Proof.
  intros [S1 S2 S3 S4 S5 S6] W KD. cbn [sh_started sh_sink sh_next sh_queued pending_list sh_pending] in *.
  destruct (S3 _ _ eq_refl) as [L E].
  assert (WD : forall id0, swrote_on id0 dropped = []).
  { intros id0. destruct KD as [[_ ->]|[_ ->]]; reflexivity. }
  assert (PF : forall id0, prefix (swrote_on id0 (outs ++ shout_of_sevs id evs ++ dropped)) (sbytes id0 sta)).
  { intros id0. rewrite !swrote_on_app, swrote_on_sevs, WD, app_nil_r. destruct (id =? id0) eqn:EQ.
    - apply N.eqb_eq in EQ; subst id0. exists buf'. rewrite <- app_assoc, W. symmetry; exact E.
    - rewrite app_nil_r. apply S4. }
  constructor; cbn [sh_started sh_sink sh_next sh_queued pending_list sh_pending]; auto.
  - intros id0 buf0 K. destruct KD as [[-> ->]|[-> ->]]; [|discriminate]. inversion K; subst id0 buf0.
    split; [exact L|]. rewrite !swrote_on_app, swrote_on_sevs, N.eqb_refl. cbn. rewrite app_nil_r, <- app_assoc, W. exact E.
  - intros ND. destruct KD as [[-> ->]|[-> ->]].
    + apply S6. apply no_drop_app in ND as [ND _]. exact ND.
    + exfalso. apply no_drop_app in ND as [_ ND]. apply no_drop_app in ND as [_ ND]. apply (ND id). left; reflexivity.
Qed.

Lemma SVI_sh_iter st s r st' s' o outs :
  sh_iter encode block_size st s = (r, st', s', o) -> SVI st outs -> SVI st' (outs ++ o ++ siter_out r).
Proof.
  unfold sh_iter. destruct st as [k p nx ex sta q]. cbn [sh_pending sh_sink].
  destruct p as [l|], k as [| |id buf].
  - (* Some, None: open *)
    intros [= <- <- <- <-] [S1 S2 S3 S4 S5 S6]. cbn [sh_started sh_sink sh_next sh_queued pending_list sh_pending siter_out app] in *.
    constructor; cbn [sh_started sh_sink sh_next sh_queued pending_list sh_pending]; auto; try discriminate.
    + intros id. rewrite swrote_on_app. cbn. rewrite app_nil_r. apply S4.
    + intros ND. apply S6. apply no_drop_app in ND as [ND _]. exact ND.
  - intros [= <- <- <- <-]. cbn. rewrite app_nil_r. auto.
  - (* Some, Ready *)
    pose proof (fw_poll_flush_conserve s buf) as CV.
    destruct (fr_res (fw_poll_flush buf s)) eqn:FR.
    + (* flush Ok: start the next message *)
      destruct (splitN (blocks_fitting_in_message block_size l) l) as [now rest] eqn:SP.
      intros [= <- <- <- <-] H. cbn [siter_out]. rewrite app_nil_r.
      pose proof (blocks_fitting_spec l now rest SP) as (EL & FT & _ & _).
      pose proof (fw_poll_flush_ok s buf FR) as B0.
      pose proof (SVI_write (SvReady id (fr_buf (fw_poll_flush buf s))) (Some l) nx ex sta q id buf outs
                    (fr_evs (fw_poll_flush buf s)) (fr_buf (fw_poll_flush buf s)) [] H CV
                    (or_introl (conj eq_refl eq_refl))) as H'.
      rewrite app_nil_r in H'. rewrite B0 in *.
      destruct H' as [S1 S2 S3 S4 S5 S6]. cbn [sh_started sh_sink sh_next sh_queued pending_list sh_pending] in *.
      destruct (S3 _ _ eq_refl) as [L E]. rewrite app_nil_r in E.
      assert (PL : pending_list (MkSH (SvReady id (fw_start_send [] (encode (payload_message now))))
                                   match rest with [] => None | _ :: _ => Some rest end nx ex (sta ++ [(id, now)]) q) = rest).
      { unfold pending_list. cbn. destruct rest; reflexivity. }
      constructor; rewrite ?PL; cbn [sh_started sh_sink sh_next sh_queued sh_pending].
      * apply Forall_app. split; [exact S1|]. constructor; [exact FT | constructor].
      * rewrite map_app, concat_app. cbn. rewrite app_nil_r, <- app_assoc, <- EL. exact S2.
      * intros id0 buf0 [= <- <-]. split; [exact L|]. rewrite sbytes_app. cbn. rewrite N.eqb_refl, app_nil_r, E. reflexivity.
      * intros id0. rewrite sbytes_app. cbn. destruct (id =? id0) eqn:EQ.
        -- apply N.eqb_eq in EQ; subst id0. rewrite E. exists (encode (payload_message now) ++ []). reflexivity.
        -- rewrite app_nil_r. apply S4.
      * intros p0. rewrite in_app_iff. cbn. intros [Hp|[<-|[]]]; [apply S5; exact Hp | exact L].
      * intros ND p0. rewrite in_app_iff. cbn. intros [Hp|[<-|[]]]; [apply (S6 ND); exact Hp | reflexivity].
    + (* flush error *)
      intros [= <- <- <- <-] H. cbn [siter_out]. rewrite app_nil_r.
      eapply SVI_write; [exact H | exact CV | right; auto].
    + (* flush pending *)
      intros [= <- <- <- <-] H. cbn [siter_out]. rewrite app_nil_r.
      rewrite <- (app_nil_r (shout_of_sevs id _)).
      eapply SVI_write; [exact H | exact CV | left; auto].
  - intros [= <- <- <- <-]. cbn. rewrite app_nil_r. auto.
  - intros [= <- <- <- <-]. cbn. rewrite app_nil_r. auto.
  - (* None, Ready *)
    pose proof (fw_poll_flush_conserve s buf) as CV.
    destruct (fr_res (fw_poll_flush buf s)) eqn:FR; intros [= <- <- <- <-] H; cbn [siter_out]; rewrite app_nil_r.
    + rewrite <- (app_nil_r (shout_of_sevs id _)). eapply SVI_write; [exact H | exact CV | left; auto].
    + eapply SVI_write; [exact H | exact CV | right; auto].
    + rewrite <- (app_nil_r (shout_of_sevs id _)). eapply SVI_write; [exact H | exact CV | left; auto].
Qed.

Lemma SVI_shpoll_loop fuel : forall st s outs,
  SVI st outs ->
  SVI (fst (shpoll_loop encode block_size fuel st s)) (outs ++ snd (shpoll_loop encode block_size fuel st s)).
Proof.
  induction fuel as [|f IH]; intros st s outs H.
  - cbn. rewrite app_nil_r. destruct H as [S1 S2 S3 S4 S5 S6]. constructor; auto.
  - cbn [shpoll_loop]. destruct (sh_iter encode block_size st s) as [[[r st'] s'] o] eqn:E.
    pose proof (SVI_sh_iter _ _ _ _ _ _ _ E H) as H'.
    destruct r; cbn [siter_out] in H'.
    + rewrite app_nil_r in H'. exact H'.
    + specialize (IH st' s' _ H'). destruct (shpoll_loop encode block_size f st' s') as [st'' o']. cbn [fst snd] in *.
      rewrite <- !app_assoc in IH. exact IH.
    + rewrite app_nil_r in H'. specialize (IH st' s' _ H').
      destruct (shpoll_loop encode block_size f st' s') as [st'' o']. cbn [fst snd] in *.
      rewrite <- !app_assoc in IH. exact IH.
Qed.

Lemma SVI_step st op outs :
  SVI st outs -> SVI (fst (shstep encode block_size st op)) (outs ++ snd (shstep encode block_size st op)).
Proof.
  intros H. destruct op as [bs| |s]; cbn [shstep fst snd].
  - rewrite app_nil_r. destruct H as [S1 S2 S3 S4 S5 S6]. destruct st as [k p nx ex sta q].
    unfold sh_do_queue. cbn [sh_started sh_sink sh_next sh_queued pending_list sh_pending] in *.
    constructor; cbn [sh_started sh_sink sh_next sh_queued pending_list sh_pending]; auto.
    rewrite <- S2. destruct p; cbn; rewrite <- ?app_assoc; reflexivity.
  - destruct H as [S1 S2 S3 S4 S5 S6]. destruct st as [k p nx ex sta q].
    unfold sh_do_set_stream. cbn [sh_started sh_sink sh_next sh_queued pending_list sh_pending fst snd] in *.
    assert (W : forall id, swrote_on id (match k with SvReady old _ => [SHDropped old] | _ => [] end) = []).
    { intros id. destruct k; reflexivity. }
    assert (FR : sbytes nx sta = []) by (apply (sbytes_fresh nx sta nx); [exact S5 | lia]).
    constructor; cbn [sh_started sh_sink sh_next sh_queued pending_list sh_pending]; auto.
    + intros id buf [= <- <-]. split; [lia|]. rewrite swrote_on_app, W, !app_nil_r, FR.
      pose proof (S4 nx) as P. rewrite FR in P. apply prefix_nil_r in P. exact P.
    + intros id. rewrite swrote_on_app, W, app_nil_r. apply S4.
    + intros p0 Hp. apply S5 in Hp. lia.
    + intros ND. apply no_drop_app in ND as [ND1 ND2]. destruct k as [| |old b].
      * rewrite (S6 ND1). intros p0 [].
      * rewrite (S6 ND1). intros p0 [].
      * exfalso. apply (ND2 old). left; reflexivity.
  - apply SVI_shpoll_loop. exact H.
Qed.

Fixpoint queued_of (ops : list shop) : list blk :=
  match ops with
  | [] => []
  | SHQueue bs :: ops' => bs ++ queued_of ops'
  | _ :: ops' => queued_of ops'
  end.

Lemma sh_iter_queued st s r st' s' o :
  sh_iter encode block_size st s = (r, st', s', o) -> sh_queued st' = sh_queued st.
Proof.
  unfold sh_iter. destruct (sh_pending st) as [l|], (sh_sink st) as [| |id buf];
    try (intros [= <- <- <- <-]; reflexivity).
  - destruct (fr_res (fw_poll_flush buf s)).
    + destruct (splitN _ l) as [now rest]. intros [= <- <- <- <-]. reflexivity.
    + intros [= <- <- <- <-]. reflexivity.
    + intros [= <- <- <- <-]. reflexivity.
  - destruct (fr_res (fw_poll_flush buf s)); intros [= <- <- <- <-]; reflexivity.
Qed.

Lemma shpoll_loop_queued fuel : forall st s,
  sh_queued (fst (shpoll_loop encode block_size fuel st s)) = sh_queued st.
Proof.
  induction fuel as [|f IH]; intros st s; [reflexivity|].
  cbn [shpoll_loop]. destruct (sh_iter encode block_size st s) as [[[r st'] s'] o] eqn:E.
  pose proof (sh_iter_queued _ _ _ _ _ _ E) as Q.
  destruct r; [exact Q| |]; specialize (IH st' s'); destruct (shpoll_loop encode block_size f st' s'); cbn in *; congruence.
Qed.

Lemma shrun_inv ops : forall st outs,
  SVI st outs ->
  SVI (fst (shrun encode block_size st ops)) (outs ++ snd (shrun encode block_size st ops))
  /\ sh_queued (fst (shrun encode block_size st ops)) = sh_queued st ++ queued_of ops.
Proof.
  induction ops as [|op ops IH]; intros st outs H.
  - cbn. rewrite !app_nil_r. auto.
  - pose proof (SVI_step st op outs H) as H1.
    assert (Q1 : sh_queued (fst (shstep encode block_size st op)) = sh_queued st ++ match op with SHQueue bs => bs | _ => [] end).
    { destruct op as [bs| |s]; cbn [shstep fst].
      - reflexivity.
      - cbn. rewrite app_nil_r. reflexivity.
      - rewrite app_nil_r. apply shpoll_loop_queued. }
    unfold shrun in *. cbn [shrun_trace].
    destruct (shstep encode block_size st op) as [st1 o1]. cbn [fst snd] in *.
    destruct (IH st1 _ H1) as [H2 Q2]. destruct (shrun_trace encode block_size st1 ops) as [st2 os]. cbn [fst snd concat] in *.
    split; [rewrite app_assoc; exact H2|]. rewrite Q2, Q1, <- app_assoc. f_equal. destruct op; reflexivity.
Qed.

Lemma server_final_shrun ops :
  server_handler_final encode block_size ops = fst (shrun encode block_size sh_init ops).
Proof. unfold server_handler_final, shrun. destruct (shrun_trace encode block_size sh_init ops); reflexivity. Qed.

Lemma fits_total p : (forall b, In b p -> block_size b <= MAX_MESSAGE_SIZE) -> fits p -> total p <= MAX_MESSAGE_SIZE.
Proof.
  intros H [F|(b & -> & F)]; [exact F|]. specialize (H b (or_introl eq_refl)). lia.
Qed.

Lemma in_started_in_queued st outs : SVI st outs ->
  forall p b, In p (sh_started st) -> In b (snd p) -> In b (sh_queued st).
Proof.
  intros H p b Hp Hb. rewrite <- (sv_all _ _ H). apply in_app_iff. left.
  apply in_concat. exists (snd p). split; [apply in_map; exact Hp | exact Hb].
Qed.

(* Every message the server handler starts fits in MAX_MESSAGE_SIZE provided every queued block does on
   its own; the payloads of the started messages followed by what is still pending are exactly the
   queued blocks, in order; the bytes each stream accepted are a prefix of the concatenated frames of the
   messages started on it; and as long as no stream was dropped (no stream error, no stream overwritten)
   all messages went to the one stream, whose accepted bytes plus buffer are exactly all frames. *)
Theorem C09_outbound_split :
  forall (ops : list shop),
    let st := server_handler_final encode block_size ops in
    let outs := server_handler_outs encode block_size ops in
    ((forall b, In b (queued_of ops) -> block_size b <= MAX_MESSAGE_SIZE) ->
       Forall (fun p => total (snd p) <= MAX_MESSAGE_SIZE) (sh_started st))
    /\ concat (map snd (sh_started st)) ++ pending_list st = queued_of ops
    /\ (forall id, prefix (swrote_on id outs) (sbytes id (sh_started st)))
    /\ (no_drop outs -> forall id buf, sh_sink st = SvReady id buf ->
          swrote_on id outs ++ buf
          = concat (map (fun p => encode (payload_message (snd p))) (sh_started st))).
Proof.
  intros ops st outs. subst st outs. rewrite server_final_shrun. unfold server_handler_outs.
  destruct (shrun_inv ops sh_init [] SVI_init) as [H Q]. cbn [app sh_queued sh_init] in *.
  split; [|split; [|split]].
  - intros SZ. pose proof (sv_size _ _ H) as F. rewrite Forall_forall in *. intros p Hp.
    apply fits_total; [|apply F; exact Hp]. intros b Hb. apply SZ. rewrite <- Q.
    eapply in_started_in_queued; eauto.
  - rewrite (sv_all _ _ H). exact Q.
  - exact (sv_pref _ _ H).
  - intros ND id buf K. destruct (sv_sink _ _ H id buf K) as [_ E]. rewrite E.
    pose proof (sv_one _ _ H ND) as O. rewrite K in O. clear -O.
    induction (sh_started (fst (shrun encode block_size sh_init ops))) as [|[i now] r IH]; [reflexivity|].
    pose proof (O (i, now) (or_introl eq_refl)) as Oi. cbn in Oi. subst i. cbn. rewrite N.eqb_refl. f_equal.
    apply IH. intros p Hp. apply O. right; exact Hp.
Qed.

(* A block larger than the limit is sent in a message of its own. *)
Theorem C09_outbound_oversize_alone :
  forall (ops : list shop) (p : N * list blk) (b : blk),
    In p (sh_started (server_handler_final encode block_size ops)) ->
    In b (snd p) -> MAX_MESSAGE_SIZE < block_size b -> snd p = [b].
Proof.
  intros ops p b Hp Hb BIG. rewrite server_final_shrun in Hp.
  destruct (shrun_inv ops sh_init [] SVI_init) as [H _].
  pose proof (sv_size _ _ H) as F. rewrite Forall_forall in F. destruct (F p Hp) as [T|(b' & E & _)].
  - exfalso. clear -T Hb BIG. induction (snd p) as [|x l IH]; [destruct Hb|].
    cbn [total] in T. destruct Hb as [->|Hb]; [lia|]. apply IH; [exact Hb | lia].
  - rewrite E in *. destruct Hb as [->|[]]. reflexivity.
Qed.

(* lib.rs:362-367: a DialUpgradeError for StreamRequester::Server is ignored ("TODO"), so nothing ever
   takes the handler out of SvRequested except a successful negotiation: until then it emits nothing,
   whatever is queued and however often it is polled. *)
Definition is_set_stream (op : shop) : bool := match op with SHSetStream => true | _ => false end.

Lemma server_requested_is_stuck ops : forall st,
  sh_sink st = SvRequested -> forallb (fun op => negb (is_set_stream op)) ops = true ->
  snd (shrun encode block_size st ops) = [] /\ sh_sink (fst (shrun encode block_size st ops)) = SvRequested.
Proof.
  induction ops as [|op ops IH]; intros st K NS; [cbn; auto|].
  cbn [forallb] in NS. apply andb_true_iff in NS as [N1 NS].
  assert (E : snd (shstep encode block_size st op) = [] /\ sh_sink (fst (shstep encode block_size st op)) = SvRequested).
  { destruct op as [bs| |s]; [cbn; auto | discriminate |].
    cbn [shstep]. unfold sh_do_poll, shpoll_fuel.
    replace (match sh_pending st with Some l => length l | None => 0 end + 6)%nat
      with (S (match sh_pending st with Some l => length l | None => 0 end + 5)) by lia.
    cbn [shpoll_loop]. unfold sh_iter. rewrite K. destruct (sh_pending st); cbn; auto. }
  destruct E as [E1 E2]. unfold shrun in *. cbn [shrun_trace].
  destruct (shstep encode block_size st op) as [st1 o1]. cbn [fst snd] in *. subst o1.
  destruct (IH st1 E2 NS) as [I1 I2]. destruct (shrun_trace encode block_size st1 ops) as [st2 os].
  cbn [fst snd concat app] in *. auto.
Qed.

End Proofs.

(* ------------------------------------------------------------------------------------------------ *)
(* Examples (non-vacuity)                                                                           *)
(* ------------------------------------------------------------------------------------------------ *)

(* toy encoder: one byte per block (the length of its data) and a terminator; toy size: 1 MiB per data byte *)
Definition sex_encode (m : message) : bytes := map (fun b => len (b_data b)) (m_payload m) ++ [255].
Definition sex_size (b : blk) : N := len (snd b) * 1048576.
Definition sex_B (n : nat) : blk := ([1], repeat 0 n).

(* 1+2 MiB fit together, the next 2 MiB block does not; 5 MiB is over the limit and goes alone; 1 MiB follows *)
Definition sex_ops : list shop :=
  [SHQueue [sex_B 1; sex_B 2; sex_B 2; sex_B 5; sex_B 1]; SHPoll []; SHSetStream;
   SHPoll [FlushOk; WAccept 9; FlushOk; WAccept 1; WAccept 9; FlushOk; WAccept 9; FlushOk; WAccept 9; FlushOk]].

Example C09_outbound_split_ex :
  server_handler_outs sex_encode sex_size sex_ops
  = [SHOpenStream; SHWrote 0 [1; 2; 255]; SHWrote 0 [2]; SHWrote 0 [255]; SHWrote 0 [5; 255]; SHWrote 0 [1; 255]]
  /\ map snd (sh_started (server_handler_final sex_encode sex_size sex_ops))
     = [[sex_B 1; sex_B 2]; [sex_B 2]; [sex_B 5]; [sex_B 1]]
  /\ sh_pending (server_handler_final sex_encode sex_size sex_ops) = None
  /\ queued_of sex_ops = [sex_B 1; sex_B 2; sex_B 2; sex_B 5; sex_B 1]
  /\ map (fun p => total sex_size (snd p)) (sh_started (server_handler_final sex_encode sex_size sex_ops))
     = [3145728; 2097152; 5242880; 1048576].
Proof. vm_compute. repeat split; reflexivity. Qed.

Example C09_outbound_oversize_alone_ex :
  In (0, [sex_B 5]) (sh_started (server_handler_final sex_encode sex_size sex_ops))
  /\ MAX_MESSAGE_SIZE < sex_size (sex_B 5).
Proof. vm_compute. split; [intuition | reflexivity]. Qed.

(* FINDING (not a theorem about the limit): a stream error after start_send loses the started message:
   its blocks are neither resent on the next stream nor reported to the behaviour. *)
Example C09_stream_error_loses_blocks_ex :
  let ops := [SHQueue [sex_B 1]; SHPoll []; SHSetStream; SHPoll [FlushOk; IoErr]; SHPoll []; SHSetStream;
              SHPoll [FlushOk; WAccept 9; FlushOk]] in
  server_handler_run sex_encode sex_size ops = [[]; [SHOpenStream]; []; [SHDropped 0]; []; []; []]
  /\ sh_pending (server_handler_final sex_encode sex_size ops) = None.
Proof. vm_compute. split; reflexivity. Qed.

(* FINDING: after a failed negotiation of the server's outbound substream nothing is ever sent again *)
Example server_requested_is_stuck_ex :
  server_handler_run sex_encode sex_size
    [SHQueue [sex_B 1]; SHPoll []; (* DialUpgradeError: ignored *) SHPoll [FlushOk]; SHQueue [sex_B 2]; SHPoll [FlushOk]]
  = [[]; [SHOpenStream]; []; []; []].
Proof. vm_compute. reflexivity. Qed.
