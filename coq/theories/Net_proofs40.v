(* Net_proofs40.v — package K: the client-side ghost of a net run.  For every node k, `cops_run s0 ops k` is the list of
   the operations its CLIENT half received during `nrun s0 ops`, computed from the pre-state of each step (mirror of
   package G's `sops_run` for the server half):
     NGet / NCancel                      -> CGet (convert_cid Sz c) / CCancel
     NConnect / NDisconnect that act     -> CNewConn / CConnClosed (peer = the other end, connection id CONN)
     NAdvance                            -> CAdvance (every node)
     NPoll k                             -> CPoll [], CTakeNewBlocks, then `CReport p c (RpSending c)` for every wantlist of
                                            that poll that was handed to a connection (Net.v: the handler starts writing
                                            in the same poll)
     NStore k m on a client call         -> CRelease (the result is what the healthy store answers at completion time)
     NDeliverW a b                       -> for the SENDER a: CReport b CONN RpReady (Net.v's atomic delivery); the receiver's
                                            client half gets nothing (a wantlist message has no client part)
     NDeliverB b a                       -> for the receiver a: CIncoming b … with what process_message accepted
   The ghost is EXACT, with no hypothesis on the op list or on the start state: the client half of node k after the run is
   Client.v run on the ghost (`cl_run_ok`), and the Response / Error events of node k are, in order, the OResponse / OError
   outputs of that client run (`node_evs`).  Definitions first, lemmas below. *)
From BS Require Import Wantlist_proofs Client_proofs Net Net_proofs2 Net_proofs3 Net_proofs6 Net_proofs9 Net_proofs10.
From Coq Require Import ZArith ZifyBool ZifyN ZifyNat Lia.
Open Scope N_scope.

(* ---------- running Client.v from any state ---------- *)
Definition cl_tr (c : cstate) (l : list cop) : cstate := snd (crun_from c l).
Definition cl_outs (c : cstate) (l : list cop) : list cout := all_outs (fst (crun_from c l)).

(* the Response / Error outputs of a client, and the Response / Error events of node k *)
Definition out_ev (o : cout) : list cout := match o with OResponse _ _ | OError _ _ => [o] | _ => [] end.
Definition out_evs (l : list cout) : list cout := flat_map out_ev l.
Definition nev_out (k : N) (e : nevent) : list cout :=
  match e with
  | EResponse i q d => if i =? k then [OResponse q d] else []
  | EError i q kd => if i =? k then [OError q kd] else []
  | EFault _ => []
  end.
Definition node_evs (k : N) (evs : list nevent) : list cout := flat_map (nev_out k) evs.

Definition rep_op (x : peer * conn * bool * list gen_entry) : cop := CReport (x_peer x) (x_conn x) (RpSending (x_conn x)).

Section ClientGhost.
  Variables (Sz : N) (Hh : hash_fn).

  (* the client part of one processed message *)
  Definition inc_cops (p : peer) (m : message) : list cop :=
    match process_message Sz Hh m with
    | PmOk inc =>
        match in_client inc with
        | Some cm => [CIncoming p (map to_pres (cm_presences cm)) (cm_blocks cm)]
        | None => []
        end
    | _ => []
    end.

  (* the wantlists of a poll of node i that reach a connection *)
  Definition handed (s : net) (i : N) (x : peer * conn * bool * list gen_entry) : bool := Net.connected s i (x_peer x).
  Definition poll_wants (n : node) : list (peer * conn * bool * list gen_entry) :=
    cl_wants (snd (cstep (n_client n) (CPoll []))).

  (* what step o in state s does to the client half of node k *)
  Definition cl_ops (s : net) (o : nop) (k : N) : list cop :=
    match o with
    | NConnect a b =>
        match get_node s a, get_node s b with
        | Some _, Some _ =>
            if (a =? b) || Net.connected s a b then []
            else if k =? b then [CNewConn a CONN] else if k =? a then [CNewConn b CONN] else []
        | _, _ => []
        end
    | NDisconnect a b =>
        match get_node s a, get_node s b with
        | Some _, Some _ =>
            if Net.connected s a b
            then (if k =? b then [CConnClosed a CONN] else if k =? a then [CConnClosed b CONN] else [])
            else []
        | _, _ => []
        end
    | NGet a c => if k =? a then [CGet (convert_cid Sz c)] else []
    | NCancel a q => if k =? a then [CCancel q] else []
    | NPut _ _ _ => []
    | NEvict _ _ => []
    | NAdvance ms => [CAdvance ms]
    | NPoll a =>
        if k =? a then
          match get_node s a with
          | Some n => CPoll [] :: CTakeNewBlocks :: map rep_op (filter (handed s a) (poll_wants n))
          | None => []
          end
        else []
    | NStore a m =>
        if k =? a then
          match get_node s a with
          | Some n => match nth_error (n_calls n) (N.to_nat m) with
                      | Some (KCGet x c) => [CRelease x (store_get (n_store n) c)]
                      | Some (KCPut x bl) => [CRelease x (SHit [])]
                      | _ => []
                      end
          | None => []
          end
        else []
    | NDeliverW a b =>
        if k =? a then
          match take_first (w_between a b) (wire_w s) with
          | Some _ =>
              match get_node s a, get_node s b with
              | Some _, Some _ => [CReport b CONN RpReady]
              | _, _ => []
              end
          | None => []
          end
        else []
    | NDeliverB b a =>
        if k =? a then
          match take_first (b_between b a) (wire_b s) with
          | Some (m, _) =>
              match get_node s a with
              | Some _ => inc_cops b (blocks_message (bm_blocks m))
              | None => []
              end
          | None => []
          end
        else []
    end.

  Fixpoint cops_run (s : net) (ops : list nop) (k : N) : list cop :=
    match ops with
    | [] => []
    | o :: r => cl_ops s o k ++ cops_run (fst (nstep Sz Hh s o)) r k
    end.
End ClientGhost.

(* ====================================================================================================== *)
(* lemmas *)

Lemma cl_tr_nil c : cl_tr c [] = c.
Proof. reflexivity. Qed.

Lemma cl_outs_nil c : cl_outs c [] = [].
Proof. reflexivity. Qed.

Lemma cl_tr_cons c o l : cl_tr c (o :: l) = cl_tr (fst (cstep c o)) l.
Proof. unfold cl_tr. rewrite crun_from_cons. reflexivity. Qed.

Lemma cl_outs_cons c o l : cl_outs c (o :: l) = snd (cstep c o) ++ cl_outs (fst (cstep c o)) l.
Proof. unfold cl_outs, all_outs. rewrite crun_from_cons. reflexivity. Qed.

Lemma cl_tr_one c o : cl_tr c [o] = fst (cstep c o).
Proof. rewrite cl_tr_cons. reflexivity. Qed.

Lemma cl_outs_one c o : cl_outs c [o] = snd (cstep c o).
Proof. rewrite cl_outs_cons, cl_outs_nil, app_nil_r. reflexivity. Qed.

Lemma cl_tr_app c a b : cl_tr c (a ++ b) = cl_tr (cl_tr c a) b.
Proof. unfold cl_tr. rewrite crun_from_app. reflexivity. Qed.

Lemma cl_outs_app c a b : cl_outs c (a ++ b) = cl_outs c a ++ cl_outs (cl_tr c a) b.
Proof. unfold cl_outs, cl_tr, all_outs. rewrite crun_from_app. cbn [fst]. apply concat_app. Qed.

Lemma st_after_cl sdh l : st_after sdh l = cl_tr (cinit sdh) l.
Proof. reflexivity. Qed.

Lemma outs_after_cl sdh l : outs_after sdh l = cl_outs (cinit sdh) l.
Proof. reflexivity. Qed.

Lemma out_evs_app a b : out_evs (a ++ b) = out_evs a ++ out_evs b.
Proof. apply flat_map_app'. Qed.

Lemma node_evs_app k a b : node_evs k (a ++ b) = node_evs k a ++ node_evs k b.
Proof. apply flat_map_app'. Qed.

(* the operations that emit neither a Response nor an Error *)
Definition quiet_op (o : cop) : Prop := match o with CPoll _ | CIncoming _ _ _ => False | _ => True end.

Lemma quiet_op_outs c o : quiet_op o -> out_evs (snd (cstep c o)) = [].
Proof.
  destruct o; cbn [quiet_op cstep snd]; intros H; try destruct H; try reflexivity.
  unfold c_get. destruct c0; reflexivity.
Qed.

Lemma quiet_ops_outs l : forall c, Forall quiet_op l -> out_evs (cl_outs c l) = [].
Proof.
  induction l as [|o l IH]; intros c H; [reflexivity|]. inversion H; subst.
  rewrite cl_outs_cons, out_evs_app, quiet_op_outs by assumption. apply IH. assumption.
Qed.

Lemma quiet_rep_ops L : Forall quiet_op (map rep_op L).
Proof. apply Forall_forall. intros o Ho. apply in_map_iff in Ho. destruct Ho as (x & <- & _). exact I. Qed.

(* ---------- events of a node ---------- *)
Lemma node_evs_cl k l : node_evs k (map (ev_of k) (cl_events l)) = out_evs l.
Proof.
  induction l as [|o l IH]; [reflexivity|].
  destruct o; cbn [cl_events map node_evs flat_map ev_of nev_out out_evs out_ev app]; try exact IH;
    rewrite ?N.eqb_refl; cbn [app]; f_equal; exact IH.
Qed.

Lemma node_evs_other k i l : k <> i -> node_evs k (map (ev_of i) l) = [].
Proof.
  intros Hne. induction l as [|e l IH]; [reflexivity|]. cbn [map node_evs flat_map]. fold (node_evs k (map (ev_of i) l)). rewrite IH, app_nil_r.
  destruct e; cbn [ev_of nev_out]; try reflexivity; (destruct (i =? k) eqn:E; [apply N.eqb_eq in E; congruence | reflexivity]).
Qed.

Lemma node_evs_fault k i (b : bool) : node_evs k (map (ev_of i) (if b then [LFault] else [])) = [].
Proof. destruct b; reflexivity. Qed.

Lemma node_evs_levs k l F : node_evs k (map (ev_of k) (cl_events l ++ (if F : bool then [LFault] else []))) = out_evs l.
Proof. rewrite map_app, node_evs_app, node_evs_cl, node_evs_fault, app_nil_r. reflexivity. Qed.

(* ---------- the hand-over of the wantlists of a poll ---------- *)
Lemma hand_over_gen s i L : forall n ws,
  fold_left (hand_over s i) L (n, ws) =
  (MkNode (cl_tr (n_client n) (map rep_op (filter (handed s i) L))) (n_server n) (n_store n) (n_calls n),
   ws ++ map (w_of i) (filter (handed s i) L)).
Proof.
  induction L as [|x L IH]; intros n ws; cbn [fold_left filter map].
  - rewrite app_nil_r, cl_tr_nil. destruct n; reflexivity.
  - destruct x as [[[p cn] f] es].
    assert (Eh : handed s i (p, cn, f, es) = Net.connected s i p) by reflexivity. rewrite Eh. cbn [hand_over fst snd].
    destruct (Net.connected s i p); cbn [fst snd].
    + rewrite IH. cbn [node_report n_client n_server n_store n_calls map]. rewrite cl_tr_cons, <- app_assoc. reflexivity.
    + apply IH.
Qed.

Section GhostExact.
  Variables (Sz : N) (Hh : hash_fn).

  Local Notation cl_ops := (cl_ops Sz Hh).
  Local Notation cops_run := (cops_run Sz Hh).

  (* what one step must establish for node k *)
  Definition step_ok (s : net) (o : nop) (k : N) (n' : node) : Prop :=
    exists n, get_node s k = Some n /\ n_client n' = cl_tr (n_client n) (cl_ops s o k) /\
              node_evs k (snd (nstep Sz Hh s o)) = out_evs (cl_outs (n_client n) (cl_ops s o k)).

  Lemma fin_same (g : option node) k n' l evs :
    g = Some n' -> l = [] -> node_evs k evs = [] ->
    exists n, g = Some n /\ n_client n' = cl_tr (n_client n) l /\ node_evs k evs = out_evs (cl_outs (n_client n) l).
  Proof. intros H -> E. exists n'. rewrite E. auto. Qed.

  Lemma fin_quiet (g : option node) k n n' l evs :
    g = Some n -> n_client n' = cl_tr (n_client n) l -> Forall quiet_op l -> node_evs k evs = [] ->
    exists n, g = Some n /\ n_client n' = cl_tr (n_client n) l /\ node_evs k evs = out_evs (cl_outs (n_client n) l).
  Proof. intros H E Q Ev. exists n. rewrite Ev, quiet_ops_outs by exact Q. auto. Qed.

  (* a step that rewrites one node with a function *)
  Lemma on_node_ok s a f k n' l :
    get_node (on_node s a f) k = Some n' ->
    (forall n, get_node s a = Some n -> k = a -> n_client (f n) = cl_tr (n_client n) l) ->
    (k <> a -> l = []) -> Forall quiet_op l ->
    exists n, get_node s k = Some n /\ n_client n' = cl_tr (n_client n) l /\ node_evs k [] = out_evs (cl_outs (n_client n) l).
  Proof.
    intros Hk Hf Hne Q. destruct (N.eq_dec k a) as [->|Hka].
    - destruct (get_node s a) as [n|] eqn:Ea; [|unfold on_node in Hk; rewrite Ea in Hk; congruence].
      rewrite (get_on_node_same s a f n Ea) in Hk. injection Hk as <-.
      exists n. split; [reflexivity|]. split; [apply Hf; auto|]. rewrite quiet_ops_outs by exact Q. reflexivity.
    - rewrite get_on_node_other in Hk by exact Hka. apply fin_same; auto.
  Qed.

  Lemma inc_cops_incoming n p m :
    n_client (fst (node_incoming Sz Hh n p m)) = cl_tr (n_client n) (inc_cops Sz Hh p m) /\
    forall k, node_evs k (map (ev_of k) (snd (node_incoming Sz Hh n p m))) = out_evs (cl_outs (n_client n) (inc_cops Sz Hh p m)).
  Proof.
    unfold node_incoming, inc_cops. destruct (process_message Sz Hh m) as [inc| |]; cbn [fst snd]; [|split; [reflexivity | intros k; reflexivity]..].
    destruct (in_client inc) as [cm|].
    - destruct (cstep (n_client n) (CIncoming p (map to_pres (cm_presences cm)) (cm_blocks cm))) as [c1 o1] eqn:E. cbn [fst snd n_client].
      rewrite cl_tr_one, cl_outs_one, E. split; [reflexivity|]. intros k. apply node_evs_levs.
    - cbn [fst snd n_client]. split; [reflexivity|]. intros k. apply (node_evs_levs k []).
  Qed.

  Lemma wantlist_incoming n p sdh full es :
    n_client (fst (node_incoming Sz Hh n p (wantlist_message sdh full es))) = n_client n /\
    forall k, node_evs k (map (ev_of k) (snd (node_incoming Sz Hh n p (wantlist_message sdh full es)))) = [].
  Proof.
    unfold node_incoming. rewrite process_wantlist_message. cbn [in_client fst snd n_client]. split; [reflexivity|].
    intros k. apply (node_evs_levs k []).
  Qed.

  Lemma cl_step_ok s o k n' : get_node (fst (nstep Sz Hh s o)) k = Some n' -> step_ok s o k n'.
  Proof.
    intros Hk. unfold step_ok. destruct o; cbn [nstep fst snd Net_proofs40.cl_ops] in *.
    - (* NConnect *)
      unfold do_connect in Hk. destruct (get_node s i) as [ni|] eqn:Ei; [|apply fin_same; auto].
      destruct (get_node s j) as [nj|] eqn:Ej; [|apply fin_same; auto].
      destruct ((i =? j) || Net.connected s i j) eqn:E; [apply fin_same; auto|].
      apply orb_false_iff in E. destruct E as [E _]. apply N.eqb_neq in E.
      change (get_node (set_node (set_node s i (node_connected Sz ni j CONN)) j (node_connected Sz nj i CONN)) k = Some n') in Hk.
      destruct (k =? j) eqn:A.
      + apply N.eqb_eq in A. subst k. rewrite (get_set_eq _ _ nj) in Hk by (rewrite get_set_neq by exact E; exact Ej). injection Hk as <-.
        apply (fin_quiet _ j nj); auto. repeat constructor.
      + apply N.eqb_neq in A. rewrite get_set_neq in Hk by congruence. destruct (k =? i) eqn:B.
        * apply N.eqb_eq in B. subst k. rewrite (get_set_eq _ _ _ _ Ei) in Hk. injection Hk as <-.
          apply (fin_quiet _ i ni); auto. repeat constructor.
        * apply N.eqb_neq in B. rewrite get_set_neq in Hk by congruence. apply fin_same; auto.
    - (* NDisconnect *)
      unfold do_disconnect in Hk. destruct (get_node s i) as [ni|] eqn:Ei; [|apply fin_same; auto].
      destruct (get_node s j) as [nj|] eqn:Ej; [|apply fin_same; auto].
      destruct (Net.connected s i j) eqn:E; [|apply fin_same; auto].
      change (get_node (set_node (set_node s i (node_disconnected Sz ni j CONN)) j (node_disconnected Sz nj i CONN)) k = Some n') in Hk.
      assert (Ej1 : exists x, get_node (set_node s i (node_disconnected Sz ni j CONN)) j = Some x).
      { destruct (N.eq_dec i j) as [->|Hne]; [rewrite (get_set_eq _ _ _ _ Ei) | rewrite get_set_neq by exact Hne]; eauto. }
      destruct Ej1 as (x & Ej1).
      destruct (k =? j) eqn:A.
      + apply N.eqb_eq in A. subst k. rewrite (get_set_eq _ _ x _ Ej1) in Hk. injection Hk as <-.
        apply (fin_quiet _ j nj); auto. repeat constructor.
      + apply N.eqb_neq in A. rewrite get_set_neq in Hk by congruence. destruct (k =? i) eqn:B.
        * apply N.eqb_eq in B. subst k. rewrite (get_set_eq _ _ _ _ Ei) in Hk. injection Hk as <-.
          apply (fin_quiet _ i ni); auto. repeat constructor.
        * apply N.eqb_neq in B. rewrite get_set_neq in Hk by congruence. apply fin_same; auto.
    - (* NGet *)
      apply (on_node_ok s i _ k n' _ Hk).
      + intros n _ ->. rewrite N.eqb_refl, cl_tr_one. reflexivity.
      + intros Hne. apply N.eqb_neq in Hne. rewrite Hne. reflexivity.
      + destruct (k =? i); repeat constructor.
    - (* NCancel *)
      apply (on_node_ok s i _ k n' _ Hk).
      + intros n _ ->. rewrite N.eqb_refl, cl_tr_one. reflexivity.
      + intros Hne. apply N.eqb_neq in Hne. rewrite Hne. reflexivity.
      + destruct (k =? i); repeat constructor.
    - (* NPut *)
      apply (on_node_ok s i _ k n' [] Hk); auto.
    - (* NEvict *)
      apply (on_node_ok s i _ k n' [] Hk); auto.
    - (* NAdvance *)
      unfold get_node in Hk. cbn [nodes] in Hk. rewrite nth_error_map in Hk.
      destruct (nth_error (nodes s) (N.to_nat k)) as [n|] eqn:E; [|discriminate]. injection Hk as <-.
      apply (fin_quiet _ k n); auto. repeat constructor.
    - (* NPoll *)
      unfold do_poll in *. destruct (get_node s i) as [n|] eqn:Ei.
      2:{ destruct (k =? i); apply fin_same; auto. }
      unfold poll_wants. unfold node_poll in *.
      destruct (cstep (n_client n) (CPoll [])) as [c1 o1] eqn:E1. destruct (cstep c1 CTakeNewBlocks) as [c2 o2] eqn:E2.
      destruct (srv Sz match cl_new_blocks o2 with [] => n_server n | _ :: _ => fst (srv Sz (n_server n) (SNewBlocks (cl_new_blocks o2))) end SPoll) as [s2 o3].
      cbn [o_wants o_events o_blocks snd] in *. rewrite hand_over_gen in *. cbn [fst snd n_client] in *.
      destruct (k =? i) eqn:A.
      + apply N.eqb_eq in A. subst k. rewrite (get_set_nth_same s i n _ _ _ _ _ Ei) in Hk. injection Hk as <-.
        exists n. split; [exact Ei|]. cbn [n_client]. rewrite !cl_tr_cons, !cl_outs_cons, E1. cbn [fst snd]. rewrite E2. cbn [fst snd].
        split; [reflexivity|]. rewrite node_evs_levs, !out_evs_app.
        replace (out_evs o2) with (@nil cout) by (unfold c_take_new_blocks, cstep in E2; injection E2 as _ <-; reflexivity).
        rewrite quiet_ops_outs by apply quiet_rep_ops. rewrite !app_nil_r. reflexivity.
      + apply N.eqb_neq in A. rewrite get_other in Hk by exact A. apply fin_same; auto. apply node_evs_other. exact A.
    - (* NStore *)
      destruct (k =? i) eqn:A.
      + apply N.eqb_eq in A. subst k. destruct (get_node s i) as [n|] eqn:Ei; [|unfold on_node in Hk; rewrite Ei in Hk; congruence].
        rewrite (get_on_node_same s i _ n Ei) in Hk. injection Hk as <-. unfold node_store.
        destruct (nth_error (n_calls n) (N.to_nat k0)) as [[m c|m bl|m c]|];
          (exists n; split; [reflexivity|]; split; [cbn [n_client]; rewrite ?cl_tr_one; reflexivity|];
           rewrite ?quiet_ops_outs by (repeat constructor); reflexivity).
      + apply N.eqb_neq in A. rewrite get_on_node_other in Hk by exact A. apply fin_same; auto.
    - (* NDeliverW *)
      unfold do_deliver_w in *. destruct (take_first (w_between i j) (wire_w s)) as [[m rest]|] eqn:Et.
      2:{ destruct (k =? i); apply fin_same; auto. }
      change (get_node (MkNet (nodes s) (conns s) rest (wire_b s) (now s)) i) with (get_node s i) in *.
      change (get_node (MkNet (nodes s) (conns s) rest (wire_b s) (now s)) j) with (get_node s j) in *.
      destruct (get_node s i) as [ni|] eqn:Ei.
      2:{ change (get_node s k = Some n') in Hk. destruct (k =? i); apply fin_same; auto. }
      destruct (get_node s j) as [nj|] eqn:Ej.
      2:{ change (get_node s k = Some n') in Hk. destruct (k =? i); apply fin_same; auto. }
      destruct (wantlist_incoming nj i (wl_sdh (cs_wl (n_client ni))) (wm_full m) (wm_entries m)) as [Hc Hev].
      destruct (node_incoming Sz Hh nj i (wantlist_message (wl_sdh (cs_wl (n_client ni))) (wm_full m) (wm_entries m))) as [nj1 evs].
      cbn [fst snd] in *.
      set (s0 := MkNet (nodes s) (conns s) rest (wire_b s) (now s)) in *.
      assert (Ej0 : get_node s0 j = Some nj) by exact Ej.
      assert (Hev' : node_evs k (map (ev_of j) evs) = []).
      { destruct (N.eq_dec k j) as [->|Hne]; [apply Hev | apply node_evs_other; exact Hne]. }
      destruct (k =? i) eqn:A.
      + apply N.eqb_eq in A. subst k.
        assert (Ei1 : exists x, get_node (set_node s0 j nj1) i = Some x /\ n_client x = n_client ni).
        { destruct (N.eq_dec j i) as [<-|Hne].
          - exists nj1. split; [apply (get_set_eq _ _ _ _ Ej0)|]. rewrite Hc. congruence.
          - exists ni. split; [rewrite get_set_neq by exact Hne; exact Ei | reflexivity]. }
        destruct Ei1 as (x & Ei1 & Ex). rewrite (get_on_node_same _ i _ x Ei1) in Hk. injection Hk as <-.
        apply (fin_quiet _ i ni); auto; [|repeat constructor]. rewrite cl_tr_one. cbn [node_report n_client]. rewrite Ex. reflexivity.
      + apply N.eqb_neq in A. rewrite get_on_node_other in Hk by exact A.
        destruct (N.eq_dec k j) as [->|Hne].
        * rewrite (get_set_eq _ _ _ _ Ej0) in Hk. injection Hk as <-. exists nj. rewrite Hc, Hev'. auto.
        * rewrite get_set_neq in Hk by congruence. apply fin_same; auto.
    - (* NDeliverB *)
      unfold do_deliver_b in *. destruct (take_first (b_between j i) (wire_b s)) as [[m rest]|] eqn:Et.
      2:{ destruct (k =? i); apply fin_same; auto. }
      destruct (get_node s i) as [ni|] eqn:Ei.
      2:{ change (get_node s k = Some n') in Hk. destruct (k =? i); apply fin_same; auto. }
      destruct (inc_cops_incoming ni j (blocks_message (bm_blocks m))) as [Hc Hev].
      destruct (node_incoming Sz Hh ni j (blocks_message (bm_blocks m))) as [ni1 evs]. cbn [fst snd] in *.
      destruct (k =? i) eqn:A.
      + apply N.eqb_eq in A. subst k. rewrite (get_set_nth_same s i ni _ _ _ _ _ Ei) in Hk. injection Hk as <-.
        exists ni. split; [exact Ei|]. split; [exact Hc | apply Hev].
      + apply N.eqb_neq in A. rewrite get_other in Hk by exact A. apply fin_same; auto. apply node_evs_other. exact A.
  Qed.

  (* ---------- the run ---------- *)
  Theorem cl_run_ok ops : forall s k n',
    get_node (fst (nrun Sz Hh s ops)) k = Some n' ->
    exists n, get_node s k = Some n /\ n_client n' = cl_tr (n_client n) (cops_run s ops k) /\
              node_evs k (snd (nrun Sz Hh s ops)) = out_evs (cl_outs (n_client n) (cops_run s ops k)).
  Proof.
    induction ops as [|o ops IH]; intros s k n' Hk.
    - exists n'. cbn in *. auto.
    - rewrite (nrun_cons Sz Hh) in *. cbn [fst snd] in *.
      destruct (IH _ k n' Hk) as (n1 & Hn1 & E1 & V1). destruct (cl_step_ok s o k n1 Hn1) as (n & Hn & E & V).
      exists n. split; [exact Hn|]. cbn [Net_proofs40.cops_run]. rewrite cl_tr_app, cl_outs_app, <- E, <- E1, node_evs_app, out_evs_app, V, V1. auto.
  Qed.

  (* a node that does not exist never appears, and has no events *)
  Lemma no_node_step s o k : get_node s k = None -> get_node (fst (nstep Sz Hh s o)) k = None.
  Proof.
    intros Hn. destruct (get_node (fst (nstep Sz Hh s o)) k) as [n'|] eqn:E; [|reflexivity].
    destruct (cl_step_ok s o k n' E) as (n & Hg & _). congruence.
  Qed.

  Lemma no_node_step_evs s o k : get_node s k = None -> node_evs k (snd (nstep Sz Hh s o)) = [].
  Proof.
    intros Hn. destruct o; cbn [nstep snd]; try reflexivity.
    - unfold do_poll. destruct (get_node s i) as [n|] eqn:Ei; [|reflexivity].
      destruct (node_poll Sz n) as [n1 o]. destruct (fold_left (hand_over s i) (o_wants o) (n1, [])) as [n2 ws]. cbn [snd].
      apply node_evs_other. congruence.
    - unfold do_deliver_w. destruct (take_first (w_between i j) (wire_w s)) as [[m rest]|]; [|reflexivity].
      change (get_node (MkNet (nodes s) (conns s) rest (wire_b s) (now s)) i) with (get_node s i).
      change (get_node (MkNet (nodes s) (conns s) rest (wire_b s) (now s)) j) with (get_node s j).
      destruct (get_node s i) as [ni|]; [|reflexivity]. destruct (get_node s j) as [nj|] eqn:Ej; [|reflexivity].
      destruct (node_incoming Sz Hh nj i _) as [nj1 evs]. cbn [snd]. apply node_evs_other. congruence.
    - unfold do_deliver_b. destruct (take_first (b_between j i) (wire_b s)) as [[m rest]|]; [|reflexivity].
      destruct (get_node s i) as [ni|] eqn:Ei; [|reflexivity].
      destruct (node_incoming Sz Hh ni j _) as [ni1 evs]. cbn [snd]. apply node_evs_other. congruence.
  Qed.

  Lemma no_node_run ops : forall s k, get_node s k = None ->
    get_node (fst (nrun Sz Hh s ops)) k = None /\ node_evs k (snd (nrun Sz Hh s ops)) = [].
  Proof.
    induction ops as [|o ops IH]; intros s k Hn; [auto|]. rewrite (nrun_cons Sz Hh). cbn [fst snd].
    destruct (IH _ k (no_node_step s o k Hn)) as [H1 H2]. split; [exact H1|].
    rewrite node_evs_app, H2, no_node_step_evs by exact Hn. reflexivity.
  Qed.

  Lemma node_exists_back ops s k n' : get_node (fst (nrun Sz Hh s ops)) k = Some n' -> exists n, get_node s k = Some n.
  Proof. intros H. destruct (cl_run_ok ops s k n' H) as (n & Hn & _). eauto. Qed.

  Lemma node_exists_fwd ops s k n : get_node s k = Some n -> exists n', get_node (fst (nrun Sz Hh s ops)) k = Some n'.
  Proof.
    revert s n. induction ops as [|o ops IH]; intros s n Hn; [eauto|]. rewrite (nrun_cons Sz Hh). cbn [fst].
    destruct (get_node (fst (nstep Sz Hh s o)) k) as [n1|] eqn:E; [eapply IH; exact E|].
    exfalso. clear IH. revert E.
    assert (Hlen : length (nodes (fst (nstep Sz Hh s o))) = length (nodes s)).
    { destruct o; cbn [nstep fst].
      - unfold do_connect. destruct (get_node s i); [|reflexivity]. destruct (get_node s j); [|reflexivity].
        destruct ((i =? j) || Net.connected s i j); [reflexivity|]. cbn [nodes set_node]. rewrite !set_nth_length. reflexivity.
      - unfold do_disconnect. destruct (get_node s i); [|reflexivity]. destruct (get_node s j); [|reflexivity].
        destruct (Net.connected s i j); [|reflexivity]. cbn [nodes set_node]. rewrite !set_nth_length. reflexivity.
      - unfold on_node. destruct (get_node s i); [|reflexivity]. cbn [nodes set_node]. apply set_nth_length.
      - unfold on_node. destruct (get_node s i); [|reflexivity]. cbn [nodes set_node]. apply set_nth_length.
      - unfold on_node. destruct (get_node s i); [|reflexivity]. cbn [nodes set_node]. apply set_nth_length.
      - unfold on_node. destruct (get_node s i); [|reflexivity]. cbn [nodes set_node]. apply set_nth_length.
      - cbn [nodes]. apply map_length.
      - unfold do_poll. destruct (get_node s i) as [x|]; [|reflexivity]. destruct (node_poll Sz x) as [n1 o].
        destruct (fold_left (hand_over s i) (o_wants o) (n1, [])) as [n2 ws]. cbn [fst nodes]. apply set_nth_length.
      - unfold on_node. destruct (get_node s i); [|reflexivity]. cbn [nodes set_node]. apply set_nth_length.
      - unfold do_deliver_w. destruct (take_first (w_between i j) (wire_w s)) as [[m rest]|]; [|reflexivity].
        destruct (get_node _ i); [|reflexivity]. destruct (get_node _ j) as [nj|]; [|reflexivity].
        destruct (node_incoming Sz Hh nj i _) as [nj1 evs]. cbn [fst]. unfold on_node.
        destruct (get_node _ i); cbn [nodes set_node]; rewrite ?set_nth_length; reflexivity.
      - unfold do_deliver_b. destruct (take_first (b_between j i) (wire_b s)) as [[m rest]|]; [|reflexivity].
        destruct (get_node s i) as [ni|]; [|reflexivity]. destruct (node_incoming Sz Hh ni j _) as [ni1 evs]. cbn [fst nodes]. apply set_nth_length. }
    unfold get_node. intros E. apply nth_error_None in E. apply get_node_lt in Hn. lia.
  Qed.
End GhostExact.

(* ---------- from the initial net ---------- *)
Lemma get_node_init n k nd : get_node (net_init n) k = Some nd -> nd = node_init.
Proof. unfold get_node. cbn [nodes net_init]. intros H. apply nth_error_In, repeat_spec in H. exact H. Qed.

Theorem net_client_ghost Sz Hh n ops i ni :
  get_node (fst (nrun Sz Hh (net_init n) ops)) i = Some ni ->
  n_client ni = st_after true (cops_run Sz Hh (net_init n) ops i).
Proof.
  intros H. destruct (cl_run_ok Sz Hh ops _ _ _ H) as (n0 & Hn0 & E & _). apply get_node_init in Hn0. subst n0. exact E.
Qed.

(* the Response / Error events of node i, in order, are the Response / Error outputs of its client *)
Theorem net_client_events Sz Hh n ops i :
  (N.to_nat i < n)%nat ->
  node_evs i (snd (nrun Sz Hh (net_init n) ops)) = out_evs (outs_after true (cops_run Sz Hh (net_init n) ops i)).
Proof.
  intros Hi. assert (Hg : get_node (net_init n) i = Some node_init).
  { unfold get_node. cbn [nodes net_init]. apply nth_error_repeat. exact Hi. }
  destruct (node_exists_fwd Sz Hh ops _ _ _ Hg) as (ni & Hni).
  destruct (cl_run_ok Sz Hh ops _ _ _ Hni) as (n0 & Hn0 & _ & V). apply get_node_init in Hn0. subst n0. exact V.
Qed.

Theorem net_no_node_no_events Sz Hh n ops i :
  (n <= N.to_nat i)%nat -> node_evs i (snd (nrun Sz Hh (net_init n) ops)) = [].
Proof.
  intros Hi. apply no_node_run. unfold get_node. cbn [nodes net_init]. apply nth_error_None. rewrite repeat_length. exact Hi.
Qed.

Lemma cops_run_app Sz Hh a : forall s b k,
  cops_run Sz Hh s (a ++ b) k = cops_run Sz Hh s a k ++ cops_run Sz Hh (fst (nrun Sz Hh s a)) b k.
Proof.
  induction a as [|o a IH]; intros s b k; [reflexivity|]. cbn [app cops_run]. rewrite (nrun_cons Sz Hh). cbn [fst]. rewrite IH, app_assoc. reflexivity.
Qed.
