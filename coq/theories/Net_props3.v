(* Net_props3.v — package J: the fair round terminates.  Restated theorems (closed by `exact`/short scripts), non-vacuity
   examples by vm_compute, `Print Assumptions`.

   Setting: Sz >= 32, the same multihasher table everywhere, any net reached from `net_init n` by any steps `ops` whose NPut
   blocks hash to their CID and whose NGet CIDs are well formed.

   MAIN RESULT
     * `settle_terminates`     quietb (fst (settle Sz Hh s)) = true: the explicit fuel of Net.v's `settle` always suffices;
       `refresh_terminates`    the same one wantlist refresh period later;
     * `C02_direct_unconditional`, `C02_multi_hop_unconditional`, `C14_records_equal_unconditional`: the registered theorems of
       Net_props / Net_props2 without their hypotheses `quietb … = true` (the 1024-entry cap of the server stays).
   HOW (Net_proofs23 … 36)
     * `J_reachable_live`      the liveness invariant `net_live` of reachable nets: nothing that waits is left without its
                               wake-up (parked client and server tasks have their store call outstanding, tasks with something
                               to do are queued, every record whose handler is busy has its wantlist on the wire);
     * `J_round_decreases`     a potential `Phi` (Net_proofs23; a weighted count of the STEPS still to do) is strictly lowered by
                               every fair round of a net that is not quiet, and no schedule step raises it; hence
       `settle_terminates_partial2`: the loop of `settle` reaches a quiet net within `Phi s` rounds.  `Phi` is not below the fuel
                               of Net.v in general (`J_fuel_not_covered_by_Phi`): it counts steps, a round does many at once;
     * `J_clean_round_decreases`  the bound on ROUNDS: after one round nothing is in flight and no store call is outstanding
                               (`round_clean`), and on such nets every round lowers `HH + AA` (Net_proofs29: HH the heavy work,
                               which only events lower but which no step raises, AA <= 2 the light work that all nodes do at the
                               same time); `J_HH_fuel`: HH + 3 <= settle_fuel.  Together: settle_terminates.
   ALSO (an earlier, fuel-independent form; kept)
     * `settle_phi_quiet`, `settle_quiet_agrees`, `refresh_quiet_agrees`, `C02_direct_phi`, `C02_multi_hop_phi`,
       `C14_records_equal_phi`: the same theorems for `settle_phi s = settle_loop (Phi s) s`; by settle_terminates and
       settle_quiet_agrees, `settle` and `settle_phi` return the same on every reachable net (`settle_is_settle_phi`). *)
From BS Require Import Net Net_proofs Net_proofs2 Net_proofs5 Net_proofs6 Net_proofs7 Net_proofs9 Net_proofs10 Net_props Net_props2
  Net_proofs23 Net_proofs24 Net_proofs27 Net_proofs28 Net_proofs29 Net_proofs31 Net_proofs32 Net_proofs34 Net_proofs35 Net_proofs36 Server Server_inv.
From Coq Require Import ZArith Lia.
Open Scope N_scope.

(* the liveness invariant of reachable nets *)
Theorem J_reachable_live (Sz : N) (Hh : hash_fn) (HSz : 32 <= Sz) n ops :
  Forall (nop_good Sz Hh) ops -> Forall (nop_wf Sz) ops -> net_live (fst (nrun Sz Hh (net_init n) ops)).
Proof. exact (reachable_live Sz Hh HSz n ops). Qed.

Lemma J_reachable_RI (Sz : N) (Hh : hash_fn) (HSz : 32 <= Sz) n ops :
  Forall (nop_good Sz Hh) ops -> Forall (nop_wf Sz) ops -> RI Sz Hh (fst (nrun Sz Hh (net_init n) ops)).
Proof. intros Hg Hw. split; [apply reachable_ok; assumption | apply reachable_live; assumption]. Qed.

(* no schedule step raises Phi *)
Theorem J_step_monotone (Sz : N) (Hh : hash_fn) (HSz : 32 <= Sz) n ops o :
  Forall (nop_good Sz Hh) ops -> Forall (nop_wf Sz) ops -> sched o ->
  let s := fst (nrun Sz Hh (net_init n) ops) in
  (Phi (fst (nstep Sz Hh s o)) <= Phi s)%nat.
Proof. intros Hg Hw Ho. apply (Phi_step Sz Hh HSz); [exact Ho | apply J_reachable_RI; assumption]. Qed.

(* (a) the fair round strictly lowers Phi unless the net is quiet *)
Theorem J_round_decreases (Sz : N) (Hh : hash_fn) (HSz : 32 <= Sz) n ops :
  Forall (nop_good Sz Hh) ops -> Forall (nop_wf Sz) ops ->
  let s := fst (nrun Sz Hh (net_init n) ops) in
  quietb s = false -> (Phi (fst (round Sz Hh s)) < Phi s)%nat.
Proof. intros Hg Hw s Hq. apply (round_decreases Sz Hh HSz); [apply J_reachable_RI; assumption | exact Hq]. Qed.

(* (b) with the bound Phi: the loop of `settle` with fuel k >= Phi s ends in a quiet net *)
Theorem settle_loop_terminates (Sz : N) (Hh : hash_fn) (HSz : 32 <= Sz) n ops k :
  Forall (nop_good Sz Hh) ops -> Forall (nop_wf Sz) ops ->
  let s := fst (nrun Sz Hh (net_init n) ops) in
  (Phi s <= k)%nat -> quietb (fst (settle_loop Sz Hh k s)) = true.
Proof. intros Hg Hw s Hk. apply (settle_loop_enough Sz Hh HSz); [apply J_reachable_RI; assumption | exact Hk]. Qed.

Theorem settle_terminates_partial2 (Sz : N) (Hh : hash_fn) (HSz : 32 <= Sz) n ops :
  Forall (nop_good Sz Hh) ops -> Forall (nop_wf Sz) ops ->
  let s := fst (nrun Sz Hh (net_init n) ops) in
  exists k, (k <= Phi s)%nat /\ quietb (fst (settle_loop Sz Hh k s)) = true.
Proof. intros Hg Hw s. exists (Phi s). split; [lia | apply settle_loop_terminates; auto]. Qed.

(* `settle` itself, when its fuel covers Phi of the start state *)
Theorem settle_terminates_covered (Sz : N) (Hh : hash_fn) (HSz : 32 <= Sz) n ops :
  Forall (nop_good Sz Hh) ops -> Forall (nop_wf Sz) ops ->
  let s := fst (nrun Sz Hh (net_init n) ops) in
  (Phi s <= settle_fuel s)%nat -> quietb (fst (settle Sz Hh s)) = true.
Proof. intros Hg Hw s Hk. unfold settle. apply settle_loop_terminates; assumption. Qed.

(* the same one wantlist refresh period later (any advance of the clock) *)
Theorem refresh_terminates_covered (Sz : N) (Hh : hash_fn) (HSz : 32 <= Sz) n ops ms :
  Forall (nop_good Sz Hh) ops -> Forall (nop_wf Sz) ops ->
  let s := advance Sz Hh ms (fst (nrun Sz Hh (net_init n) ops)) in
  (Phi s <= settle_fuel s)%nat -> quietb (fst (settle Sz Hh s)) = true.
Proof.
  intros Hg Hw s Hk. unfold settle. apply (settle_loop_enough Sz Hh HSz); [|exact Hk].
  destruct (J_reachable_RI Sz Hh HSz n ops Hg Hw) as [Hok Hl]. unfold s, advance. split.
  - apply net_ok_step; [exact HSz | exact I | exact Hok].
  - apply (net_live_step Sz Hh HSz); [exact Hok | exact I | exact Hl].
Qed.

(* settle keeps the invariants, so the statements compose (settle, advance, settle, ...) *)
Theorem settle_loop_RI (Sz : N) (Hh : hash_fn) (HSz : 32 <= Sz) : forall fuel s,
  RI Sz Hh s -> RI Sz Hh (fst (settle_loop Sz Hh fuel s)).
Proof.
  induction fuel as [|f IH]; intros s HR; cbn [settle_loop]; destruct (quietb s) eqn:Hq; try exact HR.
  destruct (round_decreases Sz Hh HSz s HR Hq) as [HR1 _]. destruct (round Sz Hh s) as [s1 e1]. cbn [fst] in *.
  specialize (IH s1 HR1). destruct (settle_loop Sz Hh f s1) as [s2 e2]. exact IH.
Qed.

(* ---------- non-vacuity ---------- *)
(* the chain scenario of Net_proofs (C holds c, A and B ask) after the first polls and wantlist deliveries: not quiet,
   Phi = 51, a round lowers it, the loop with fuel Phi ends quiet, and so does `settle` (Phi <= settle_fuel = 152 here) *)
Definition chain_ops : list nop :=
  [NPut 2 c1 d1; NConnect 0 1; NConnect 1 2; NGet 0 c1; NGet 1 c1; NPoll 0; NPoll 1; NPoll 2;
   NDeliverW 0 1; NDeliverW 1 0; NDeliverW 1 2; NDeliverW 2 1].

Example J_nonvacuous :
  let s := fst (nrun SZ toyH (net_init 3) chain_ops) in
  Forall (nop_good SZ toyH) chain_ops /\ Forall (nop_wf SZ) chain_ops /\ quietb s = false /\
  (Phi (fst (round SZ toyH s)) < Phi s)%nat /\ (Phi s <= settle_fuel s)%nat /\
  quietb (fst (settle_loop SZ toyH (Phi s) s)) = true /\ quietb (fst (settle SZ toyH s)) = true.
Proof.
  cbn zeta. repeat match goal with |- _ /\ _ => split end.
  - unfold chain_ops. constructor; [split; [apply c1_wf | vm_compute; reflexivity]|]. do 11 (constructor; [exact I|]). constructor.
  - unfold chain_ops. do 3 (constructor; [exact I|]). do 2 (constructor; [apply c1_wf|]). do 7 (constructor; [exact I|]). constructor.
  - vm_compute. reflexivity.
  - vm_compute. lia.
  - vm_compute. lia.
  - vm_compute. reflexivity.
  - vm_compute. reflexivity.
Qed.

(* the bound Phi is NOT below the fuel of Net.v in general: six idle nodes, all pairs freshly connected (every record has
   its first, full, wantlist to send).  Phi counts the 30 wantlists and their 30 (empty) server tasks; `settle` needs 2 rounds. *)
Definition mesh6_ops : list nop :=
  [NConnect 0 1; NConnect 0 2; NConnect 0 3; NConnect 0 4; NConnect 0 5; NConnect 1 2; NConnect 1 3; NConnect 1 4; NConnect 1 5;
   NConnect 2 3; NConnect 2 4; NConnect 2 5; NConnect 3 4; NConnect 3 5; NConnect 4 5].

Example J_fuel_not_covered_by_Phi :
  let s := fst (nrun SZ toyH (net_init 6) mesh6_ops) in
  Forall (nop_good SZ toyH) mesh6_ops /\ Forall (nop_wf SZ) mesh6_ops /\
  settle_fuel s = 36%nat /\ Phi s = 90%nat /\
  quietb (fst (settle_loop SZ toyH 2 s)) = true /\ quietb (fst (settle SZ toyH s)) = true.
Proof.
  cbn zeta. repeat match goal with |- _ /\ _ => split end.
  - unfold mesh6_ops. do 15 (constructor; [exact I|]). constructor.
  - unfold mesh6_ops. do 15 (constructor; [exact I|]). constructor.
  - vm_compute. reflexivity.
  - vm_compute. reflexivity.
  - vm_compute. reflexivity.
  - vm_compute. reflexivity.
Qed.

(* ---------- the registered theorems without the "fuel sufficed" hypotheses, for settle with fuel Phi ---------- *)
(* `settle_phi s = settle_loop (Phi s) s`, `refresh_phi s = settle_phi (advance 30 s s)`: Net.v's settle / refresh with the fuel
   Phi.  They always end quiet, and they are what Net.v's settle / refresh return whenever those end quiet. *)
Theorem settle_phi_quiet (Sz : N) (Hh : hash_fn) (HSz : 32 <= Sz) n ops :
  Forall (nop_good Sz Hh) ops -> Forall (nop_wf Sz) ops ->
  let s := fst (nrun Sz Hh (net_init n) ops) in
  let r1 := settle_phi Sz Hh s in let r2 := refresh_phi Sz Hh (fst r1) in
  quietb (fst r1) = true /\ quietb (fst r2) = true.
Proof.
  intros Hg Hw s r1 r2. pose proof (J_reachable_RI Sz Hh HSz n ops Hg Hw) as HR. split.
  - apply (Net_proofs32.settle_phi_quiet Sz Hh HSz), HR.
  - apply (refresh_phi_quiet Sz Hh HSz), (settle_phi_RI Sz Hh HSz), HR.
Qed.

Theorem settle_quiet_agrees (Sz : N) (Hh : hash_fn) (HSz : 32 <= Sz) n ops :
  Forall (nop_good Sz Hh) ops -> Forall (nop_wf Sz) ops ->
  let s := fst (nrun Sz Hh (net_init n) ops) in
  quietb (fst (settle Sz Hh s)) = true -> settle Sz Hh s = settle_phi Sz Hh s.
Proof. intros Hg Hw s. apply (Net_proofs32.settle_quiet_agrees Sz Hh HSz), J_reachable_RI; assumption. Qed.

(* … and one refresh later: if both of Net.v's runs end quiet they are the runs with fuel Phi *)
Theorem refresh_quiet_agrees (Sz : N) (Hh : hash_fn) (HSz : 32 <= Sz) n ops :
  Forall (nop_good Sz Hh) ops -> Forall (nop_wf Sz) ops ->
  let s := fst (nrun Sz Hh (net_init n) ops) in
  let r1 := settle Sz Hh s in
  quietb (fst r1) = true -> quietb (fst (refresh Sz Hh (fst r1))) = true ->
  r1 = settle_phi Sz Hh s /\ refresh Sz Hh (fst r1) = refresh_phi Sz Hh (fst (settle_phi Sz Hh s)).
Proof.
  intros Hg Hw s r1 Hq1 Hq2. pose proof (J_reachable_RI Sz Hh HSz n ops Hg Hw) as HR.
  pose proof (Net_proofs32.settle_quiet_agrees Sz Hh HSz _ HR Hq1) as E1. fold s in E1. split; [exact E1|].
  unfold r1 in *. rewrite E1 in *. apply (Net_proofs32.refresh_quiet_agrees Sz Hh HSz); [apply (settle_phi_RI Sz Hh HSz), HR | exact Hq2].
Qed.

(* C02_direct, C02_multi_hop, C14_records_equal: the statements of Net_props / Net_props2 with settle_phi / refresh_phi in place
   of settle / refresh and WITHOUT the hypotheses `quietb … = true` (the 1024-entry cap of the server stays) *)
Theorem C02_direct_phi (Sz : N) (Hh : hash_fn) (HSz : 32 <= Sz) (i j : N) (q : qid) (c : cid) n ops :
  Forall (nop_good Sz Hh) ops -> Forall (nop_wf Sz) ops ->
  let s := fst (nrun Sz Hh (net_init n) ops) in
  live_query i q c s -> Net.connected s i j = true ->
  (exists st d, store_of s j = Some st /\ store_get st c = SHit d) ->
  let r1 := settle_phi Sz Hh s in
  let r2 := refresh_phi Sz Hh (fst r1) in
  (length (wl_i i (fst r1)) <= 1024)%nat ->
  answered i q (snd r1 ++ snd r2).
Proof. exact (Net_proofs32.C02_direct_phi Sz Hh HSz i j q c n ops). Qed.

Theorem C02_multi_hop_phi (Sz : N) (Hh : hash_fn) (HSz : 32 <= Sz) (i j k : N) (qi qj : qid) (c : cid) n ops :
  Forall (nop_good Sz Hh) ops -> Forall (nop_wf Sz) ops ->
  let s := fst (nrun Sz Hh (net_init n) ops) in
  live_query i qi c s -> live_query j qj c s ->
  Net.connected s i j = true -> Net.connected s j k = true ->
  (exists st d, store_of s k = Some st /\ store_get st c = SHit d) ->
  let r1 := settle_phi Sz Hh s in
  let r2 := refresh_phi Sz Hh (fst r1) in
  let r3 := refresh_phi Sz Hh (fst r2) in
  (length (wl_i j (fst r1)) <= 1024)%nat -> (length (wl_i i (fst r2)) <= 1024)%nat ->
  answered i qi (snd r1 ++ snd r2 ++ snd r3).
Proof. exact (Net_proofs32.C02_multi_hop_phi Sz Hh HSz i j k qi qj c n ops). Qed.

Theorem C14_records_equal_phi (Sz : N) (Hh : hash_fn) (HSz : 32 <= Sz) (i j : N) n ops :
  Forall (nop_good Sz Hh) ops -> Forall (nop_wf Sz) ops ->
  let s := fst (nrun Sz Hh (net_init n) ops) in
  Net.connected s i j = true ->
  let r1 := settle_phi Sz Hh s in
  let r2 := refresh_phi Sz Hh (fst r1) in
  (length (wl_i i (fst r1)) <= 1024)%nat ->
  forall c, In c (wl_i i (fst r2)) <-> (exists st, server_of (fst r2) j = Some st /\ wantsP (s_wants st) i c).
Proof. exact (Net_proofs32.C14_records_equal_phi Sz Hh HSz i j n ops). Qed.

(* non-vacuity: the scenarios of Net_props (ex_ops: A asks B, the want misses, the block is put into B's store behind beetswap's
   back; ex_hop_ops: the chain) and Net_props2 (ex_rec_ops) meet the hypotheses, and the conclusions are the events / sets
   observed there; on these nets settle and settle_phi coincide *)
Example C02_direct_phi_nonvacuous :
  let s := fst (nrun SZ toyH (net_init 2) ex_ops) in
  let r1 := settle_phi SZ toyH s in let r2 := refresh_phi SZ toyH (fst r1) in
  live_query 0 0 c1 s /\ Net.connected s 0 1 = true /\
  (exists st d, store_of s 1 = Some st /\ store_get st c1 = SHit d) /\
  (length (wl_i 0 (fst r1)) <= 1024)%nat /\
  snd r1 ++ snd r2 = [EResponse 0 0 d1] /\ r1 = settle SZ toyH s /\ r2 = refresh SZ toyH (fst r1).
Proof.
  cbn zeta. repeat match goal with |- _ /\ _ => split end.
  - eexists _, _. split; [vm_compute; reflexivity|]. split; [left; reflexivity | left; reflexivity].
  - vm_compute. reflexivity.
  - eexists _, _. split; vm_compute; reflexivity.
  - vm_compute. lia.
  - vm_compute. reflexivity.
  - vm_compute. reflexivity.
  - vm_compute. reflexivity.
Qed.

Example C02_multi_hop_phi_nonvacuous :
  let s := fst (nrun SZ toyH (net_init 3) ex_hop_ops) in
  let r1 := settle_phi SZ toyH s in let r2 := refresh_phi SZ toyH (fst r1) in let r3 := refresh_phi SZ toyH (fst r2) in
  live_query 0 0 c1 s /\ live_query 1 0 c1 s /\ Net.connected s 0 1 = true /\ Net.connected s 1 2 = true /\
  (exists st d, store_of s 2 = Some st /\ store_get st c1 = SHit d) /\
  (length (wl_i 1 (fst r1)) <= 1024)%nat /\ (length (wl_i 0 (fst r2)) <= 1024)%nat /\
  snd r1 ++ snd r2 ++ snd r3 = [EResponse 1 0 d1; EResponse 0 0 d1].
Proof.
  cbn zeta. repeat match goal with |- _ /\ _ => split end.
  - eexists _, _. split; [vm_compute; reflexivity|]. split; [left; reflexivity | left; reflexivity].
  - eexists _, _. split; [vm_compute; reflexivity|]. split; [left; reflexivity | left; reflexivity].
  - vm_compute. reflexivity.
  - vm_compute. reflexivity.
  - eexists _, _. split; vm_compute; reflexivity.
  - vm_compute. lia.
  - vm_compute. lia.
  - vm_compute. reflexivity.
Qed.

Example C14_records_equal_phi_nonvacuous :
  let s := fst (nrun SZ toyH (net_init 2) ex_rec_ops) in
  let r1 := settle_phi SZ toyH s in let r2 := refresh_phi SZ toyH (fst r1) in
  Net.connected s 0 1 = true /\ (length (wl_i 0 (fst r1)) <= 1024)%nat /\
  wl_i 0 (fst r2) = [c1] /\ option_map s_wants (server_of (fst r2) 1) = Some [(0, [c1])].
Proof. cbn zeta. repeat match goal with |- _ /\ _ => split end; vm_compute; try reflexivity; lia. Qed.

(* ---------- the bound on rounds, and settle_terminates ---------- *)
(* nothing is in flight after a round; on such a net a round lowers HH + AA *)
Theorem J_clean_round_decreases (Sz : N) (Hh : hash_fn) (HSz : 32 <= Sz) n ops :
  Forall (nop_good Sz Hh) ops -> Forall (nop_wf Sz) ops ->
  let s := fst (nrun Sz Hh (net_init n) ops) in
  cleanb (fst (round Sz Hh s)) = true /\
  (cleanb s = true -> quietb s = false -> (HH (fst (round Sz Hh s)) + AA (fst (round Sz Hh s)) < HH s + AA s)%nat).
Proof.
  intros Hg Hw s. split; [apply (round_clean Sz Hh HSz)|]. intros Hc Hq.
  apply (clean_round_decreases Sz Hh HSz s (J_reachable_RI Sz Hh HSz n ops Hg Hw) Hc Hq).
Qed.

Theorem J_HH_fuel (Sz : N) (Hh : hash_fn) (HSz : 32 <= Sz) n ops :
  Forall (nop_good Sz Hh) ops -> Forall (nop_wf Sz) ops ->
  let s := fst (nrun Sz Hh (net_init n) ops) in (HH s + 3 <= settle_fuel s)%nat /\ (AA s <= 2)%nat.
Proof. intros Hg Hw s. split; [apply (HH_fuel Sz Hh HSz), reachable_ok; assumption | apply AA_le2]. Qed.

(* THE theorem of the package: the fuel of `settle` suffices *)
Theorem settle_terminates (Sz : N) (Hh : hash_fn) (HSz : 32 <= Sz) n ops :
  Forall (nop_good Sz Hh) ops -> Forall (nop_wf Sz) ops ->
  let s := fst (nrun Sz Hh (net_init n) ops) in quietb (fst (settle Sz Hh s)) = true.
Proof. exact (Net_proofs36.settle_terminates Sz Hh HSz n ops). Qed.

Theorem refresh_terminates (Sz : N) (Hh : hash_fn) (HSz : 32 <= Sz) n ops :
  Forall (nop_good Sz Hh) ops -> Forall (nop_wf Sz) ops ->
  let s := fst (nrun Sz Hh (net_init n) ops) in
  let r1 := settle Sz Hh s in
  quietb (fst r1) = true /\ quietb (fst (refresh Sz Hh (fst r1))) = true.
Proof. exact (Net_proofs36.refresh_terminates Sz Hh HSz n ops). Qed.

(* for every net that satisfies the invariants (so the statements compose: settle, advance, settle, …) *)
Theorem settle_terminates_inv (Sz : N) (Hh : hash_fn) (HSz : 32 <= Sz) s :
  net_ok Sz Hh s -> net_live s -> quietb (fst (settle Sz Hh s)) = true /\ net_ok Sz Hh (fst (settle Sz Hh s)) /\ net_live (fst (settle Sz Hh s)).
Proof.
  intros Hok Hl. split; [apply (settle_terminates_RI Sz Hh HSz); split; assumption|].
  apply (settle_loop_RI Sz Hh HSz). split; assumption.
Qed.

Corollary settle_is_settle_phi (Sz : N) (Hh : hash_fn) (HSz : 32 <= Sz) n ops :
  Forall (nop_good Sz Hh) ops -> Forall (nop_wf Sz) ops ->
  let s := fst (nrun Sz Hh (net_init n) ops) in settle Sz Hh s = settle_phi Sz Hh s.
Proof. intros Hg Hw s. apply (settle_quiet_agrees Sz Hh HSz n ops Hg Hw), settle_terminates; assumption. Qed.

(* the registered theorems without the hypotheses `quietb … = true` *)
Theorem C02_direct_unconditional (Sz : N) (Hh : hash_fn) (HSz : 32 <= Sz) (i j : N) (q : qid) (c : cid) n ops :
  Forall (nop_good Sz Hh) ops -> Forall (nop_wf Sz) ops ->
  let s := fst (nrun Sz Hh (net_init n) ops) in
  live_query i q c s -> Net.connected s i j = true ->
  (exists st d, store_of s j = Some st /\ store_get st c = SHit d) ->
  let r1 := settle Sz Hh s in
  let r2 := refresh Sz Hh (fst r1) in
  (length (wl_i i (fst r1)) <= 1024)%nat ->
  answered i q (snd r1 ++ snd r2).
Proof. exact (Net_proofs36.C02_direct_unconditional Sz Hh HSz i j q c n ops). Qed.

Theorem C02_multi_hop_unconditional (Sz : N) (Hh : hash_fn) (HSz : 32 <= Sz) (i j k : N) (qi qj : qid) (c : cid) n ops :
  Forall (nop_good Sz Hh) ops -> Forall (nop_wf Sz) ops ->
  let s := fst (nrun Sz Hh (net_init n) ops) in
  live_query i qi c s -> live_query j qj c s ->
  Net.connected s i j = true -> Net.connected s j k = true ->
  (exists st d, store_of s k = Some st /\ store_get st c = SHit d) ->
  let r1 := settle Sz Hh s in
  let r2 := refresh Sz Hh (fst r1) in
  let r3 := refresh Sz Hh (fst r2) in
  (length (wl_i j (fst r1)) <= 1024)%nat -> (length (wl_i i (fst r2)) <= 1024)%nat ->
  answered i qi (snd r1 ++ snd r2 ++ snd r3).
Proof. exact (Net_proofs36.C02_multi_hop_unconditional Sz Hh HSz i j k qi qj c n ops). Qed.

Theorem C14_records_equal_unconditional (Sz : N) (Hh : hash_fn) (HSz : 32 <= Sz) (i j : N) n ops :
  Forall (nop_good Sz Hh) ops -> Forall (nop_wf Sz) ops ->
  let s := fst (nrun Sz Hh (net_init n) ops) in
  Net.connected s i j = true ->
  let r1 := settle Sz Hh s in
  let r2 := refresh Sz Hh (fst r1) in
  (length (wl_i i (fst r1)) <= 1024)%nat ->
  forall c, In c (wl_i i (fst r2)) <-> (exists st, server_of (fst r2) j = Some st /\ wantsP (s_wants st) i c).
Proof. exact (Net_proofs36.C14_records_equal_unconditional Sz Hh HSz i j n ops). Qed.

(* non-vacuity: the six-node mesh on which Phi exceeds the fuel: HH = 0, AA = 2, two rounds, settle ends quiet; and the
   scenarios of Net_props / Net_props2 (hypotheses met, conclusions as observed there) *)
Example settle_terminates_nonvacuous :
  let s := fst (nrun SZ toyH (net_init 6) mesh6_ops) in
  quietb s = false /\ HH s = 0%nat /\ AA s = 2%nat /\ AA (fst (round SZ toyH s)) = 1%nat /\
  quietb (fst (round SZ toyH (fst (round SZ toyH s)))) = true /\ quietb (fst (settle SZ toyH s)) = true.
Proof. cbn zeta. repeat match goal with |- _ /\ _ => split end; vm_compute; reflexivity. Qed.

Example C02_direct_unconditional_nonvacuous :
  let s := fst (nrun SZ toyH (net_init 2) ex_ops) in
  let r1 := settle SZ toyH s in let r2 := refresh SZ toyH (fst r1) in
  live_query 0 0 c1 s /\ Net.connected s 0 1 = true /\
  (exists st d, store_of s 1 = Some st /\ store_get st c1 = SHit d) /\
  (length (wl_i 0 (fst r1)) <= 1024)%nat /\ snd r1 ++ snd r2 = [EResponse 0 0 d1].
Proof.
  cbn zeta. repeat match goal with |- _ /\ _ => split end.
  - eexists _, _. split; [vm_compute; reflexivity|]. split; [left; reflexivity | left; reflexivity].
  - vm_compute. reflexivity.
  - eexists _, _. split; vm_compute; reflexivity.
  - vm_compute. lia.
  - vm_compute. reflexivity.
Qed.

Example C02_multi_hop_unconditional_nonvacuous :
  let s := fst (nrun SZ toyH (net_init 3) ex_hop_ops) in
  let r1 := settle SZ toyH s in let r2 := refresh SZ toyH (fst r1) in let r3 := refresh SZ toyH (fst r2) in
  live_query 0 0 c1 s /\ live_query 1 0 c1 s /\ Net.connected s 0 1 = true /\ Net.connected s 1 2 = true /\
  (exists st d, store_of s 2 = Some st /\ store_get st c1 = SHit d) /\
  (length (wl_i 1 (fst r1)) <= 1024)%nat /\ (length (wl_i 0 (fst r2)) <= 1024)%nat /\
  snd r1 ++ snd r2 ++ snd r3 = [EResponse 1 0 d1; EResponse 0 0 d1].
Proof.
  cbn zeta. repeat match goal with |- _ /\ _ => split end.
  - eexists _, _. split; [vm_compute; reflexivity|]. split; [left; reflexivity | left; reflexivity].
  - eexists _, _. split; [vm_compute; reflexivity|]. split; [left; reflexivity | left; reflexivity].
  - vm_compute. reflexivity.
  - vm_compute. reflexivity.
  - eexists _, _. split; vm_compute; reflexivity.
  - vm_compute. lia.
  - vm_compute. lia.
  - vm_compute. reflexivity.
Qed.

Example C14_records_equal_unconditional_nonvacuous :
  let s := fst (nrun SZ toyH (net_init 2) ex_rec_ops) in
  let r1 := settle SZ toyH s in let r2 := refresh SZ toyH (fst r1) in
  Net.connected s 0 1 = true /\ (length (wl_i 0 (fst r1)) <= 1024)%nat /\
  wl_i 0 (fst r2) = [c1] /\ option_map s_wants (server_of (fst r2) 1) = Some [(0, [c1])].
Proof. cbn zeta. repeat match goal with |- _ /\ _ => split end; vm_compute; try reflexivity; lia. Qed.

Print Assumptions J_reachable_live.
Print Assumptions J_step_monotone.
Print Assumptions J_round_decreases.
Print Assumptions settle_loop_terminates.
Print Assumptions settle_terminates_partial2.
Print Assumptions settle_terminates_covered.
Print Assumptions refresh_terminates_covered.
Print Assumptions settle_loop_RI.
Print Assumptions J_nonvacuous.
Print Assumptions J_fuel_not_covered_by_Phi.
Print Assumptions settle_phi_quiet.
Print Assumptions settle_quiet_agrees.
Print Assumptions refresh_quiet_agrees.
Print Assumptions C02_direct_phi.
Print Assumptions C02_multi_hop_phi.
Print Assumptions C14_records_equal_phi.
Print Assumptions C02_direct_phi_nonvacuous.
Print Assumptions C02_multi_hop_phi_nonvacuous.
Print Assumptions C14_records_equal_phi_nonvacuous.
Print Assumptions J_clean_round_decreases.
Print Assumptions J_HH_fuel.
Print Assumptions settle_terminates.
Print Assumptions refresh_terminates.
Print Assumptions settle_terminates_inv.
Print Assumptions settle_is_settle_phi.
Print Assumptions C02_direct_unconditional.
Print Assumptions C02_multi_hop_unconditional.
Print Assumptions C14_records_equal_unconditional.
Print Assumptions settle_terminates_nonvacuous.
Print Assumptions C02_direct_unconditional_nonvacuous.
Print Assumptions C02_multi_hop_unconditional_nonvacuous.
Print Assumptions C14_records_equal_unconditional_nonvacuous.
