(* Net_proofs2.v — package F, basic lemmas: list positions, CIDs through the wire, what `process_message`
   does with the two kinds of message beetswap nodes exchange, the blockstore. *)
From BS Require Import Net Varint_proofs Prefix_proofs Convert_proofs Incoming_proofs Wantlist_proofs
  Client_proofs Client_proofs2.
From Coq Require Import ZArith ZifyBool ZifyN ZifyNat Lia.
Open Scope N_scope.

(* ---------- positions ---------- *)
Lemma set_nth_length {A} k (x : A) l : length (set_nth k x l) = length l.
Proof. revert k; induction l as [|y l IH]; intros [|k]; cbn; auto. Qed.

Lemma nth_set_nth_eq {A} k (x : A) l : (k < length l)%nat -> nth_error (set_nth k x l) k = Some x.
Proof. revert k; induction l as [|y l IH]; intros [|k] H; cbn in *; try lia; auto. apply IH. lia. Qed.

Lemma nth_set_nth_neq {A} k k' (x : A) l : k <> k' -> nth_error (set_nth k x l) k' = nth_error l k'.
Proof. revert k k'; induction l as [|y l IH]; intros [|k] [|k'] H; cbn; auto; try congruence. Qed.

Lemma nth_error_lt {A} (l : list A) k x : nth_error l k = Some x -> (k < length l)%nat.
Proof. intros H. apply nth_error_Some. congruence. Qed.

Lemma set_nth_same {A} k (x : A) l : nth_error l k = Some x -> set_nth k x l = l.
Proof. revert k; induction l as [|y l IH]; intros [|k]; cbn; try discriminate; auto. intros [= ->]; auto. intros H. f_equal. auto. Qed.

Lemma get_set_eq s i n n' : get_node s i = Some n -> get_node (set_node s i n') i = Some n'.
Proof. unfold get_node, set_node; cbn. intros H. apply nth_set_nth_eq. eapply nth_error_lt; eauto. Qed.

Lemma get_set_neq s i j n' : i <> j -> get_node (set_node s i n') j = get_node s j.
Proof. unfold get_node, set_node; cbn. intros H. apply nth_set_nth_neq. lia. Qed.

Lemma get_node_lt s i n : get_node s i = Some n -> (N.to_nat i < length (nodes s))%nat.
Proof. apply nth_error_lt. Qed.

(* ---------- a CID survives the wire ---------- *)
Lemma take_app n (d rest : bytes) : len d = n -> take n (d ++ rest) = Some d.
Proof.
  intros <-. unfold take. rewrite len_app.
  destruct (len d + len rest <? len d) eqn:E; [lia|]. unfold len. rewrite Nat2N.id, firstn_app, Nat.sub_diag, firstn_all. cbn.
  rewrite app_nil_r. reflexivity.
Qed.

Lemma cid_read_write Sz c rest :
  32 <= Sz -> wf_cid Sz c -> cid_read_bytes Sz (cid_to_bytes c ++ rest) = ROk c.
Proof.
  intros HS (Hcodec & (Hcode & HlS & Hl255 & _) & Hv0).
  destruct c as [v codec [code d]]; cbn [c_ver c_codec c_hash mh_code mh_digest] in *.
  assert (H255 : forall n, n <= 255 -> n < two64) by (intros; apply small64; assumption).
  unfold cid_read_bytes, cid_to_bytes, mh_to_bytes; cbn [c_ver c_codec c_hash mh_code mh_digest].
  destruct v.
  - destruct (Hv0 eq_refl) as (-> & -> & Hl).
    rewrite <- !app_assoc. rewrite uv_decode_encode by (apply H255; unfold SHA2_256; lia).
    rewrite uv_decode_encode by (apply H255; lia).
    rewrite Hl. change (SHA2_256 =? 18) with true. change (SHA2_256_SIZE =? 32) with true. cbn [andb].
    rewrite (take_app 32 d rest Hl). destruct (Sz <? 32) eqn:E; [lia|]. reflexivity.
  - rewrite <- !app_assoc. rewrite uv_decode_encode by (apply H255; lia).
    rewrite uv_decode_encode by assumption.
    change (1 =? 18) with false. cbn [andb]. change (version_of_u64 1) with (Some V1). cbv iota.
    rewrite uv_decode_encode by assumption.
    rewrite uv_decode_encode by (apply H255; assumption).
    destruct ((Sz <? len d) || (255 <? len d)) eqn:E; [lia|].
    rewrite (take_app (len d) d rest eq_refl). reflexivity.
Qed.

Lemma cid_read_write0 Sz c : 32 <= Sz -> wf_cid Sz c -> cid_read_bytes Sz (cid_to_bytes c) = ROk c.
Proof. intros. rewrite <- (app_nil_r (cid_to_bytes c)). apply cid_read_write; assumption. Qed.

(* ---------- good blocks: what a beetswap node holds and sends ---------- *)
Section Good.
  Variables (Sz : N) (Hh : hash_fn).

  Definition good (b : cid * bytes) : Prop :=
    wf_cid Sz (fst b) /\ prefix_to_cid Sz Hh (prefix_of_cid (fst b)) (snd b) = TOk (fst b).

  Lemma valid_block_good c d : wf_cid Sz c -> valid_block Sz Hh c d = true -> good (c, d).
  Proof.
    unfold valid_block, good; cbn [fst snd]. intros Hwf H. split; [exact Hwf|].
    destruct (prefix_to_cid Sz Hh (prefix_of_cid c) d) as [c'| |]; try discriminate.
    apply Wantlist_proofs.cid_eqb_spec in H. congruence.
  Qed.

  Definition mkblock (b : cid * bytes) : block := MkBlock (fst (erase_block b)) (snd (erase_block b)).

  Lemma classify_good b : good b -> classify Sz Hh (mkblock b) = BAccept (fst b).
  Proof.
    intros [Hwf Hok]. unfold classify, mkblock, erase_block; cbn [b_prefix b_data fst snd].
    rewrite prefix_roundtrip by (eapply wf_prefix_of_cid; eassumption). rewrite Hok. reflexivity.
  Qed.

  Definition ins_all (bl : list (cid * bytes)) (acc : list (cid * bytes)) : list (cid * bytes) :=
    fold_left (fun a b => assoc_insert (fst b) (snd b) a) bl acc.

  Lemma pm_payload_good bl : forall acc touched,
    Forall good bl ->
    pm_payload Sz Hh (map mkblock bl) acc touched =
    inl (Some (ins_all bl acc, touched || negb (is_nil bl))).
  Proof.
    induction bl as [|b bl IH]; intros acc touched Hg; cbn [map].
    - cbn. rewrite orb_false_r. reflexivity.
    - inversion Hg as [|? ? Hb Hbl]; subst. rewrite pm_payload_step, (classify_good b Hb).
      rewrite IH by assumption. cbn [ins_all fold_left is_nil negb mkblock b_data erase_block snd fst].
      rewrite orb_true_r. reflexivity.
  Qed.

  Lemma process_blocks_message bl :
    Forall good bl ->
    process_message Sz Hh (blocks_message bl) =
    PmOk (MkIncoming (match bl with [] => None | _ => Some (MkClientMsg [] (ins_all bl [])) end) None).
  Proof.
    intros Hg. unfold process_message, blocks_message; cbn [m_presences m_payload m_wantlist pm_presences].
    fold mkblock. rewrite (pm_payload_good bl [] false Hg). cbn [orb]. destruct bl; reflexivity.
  Qed.

  Lemma assoc_insert_keys {V} k (v : V) l k' : In k' (map fst (assoc_insert k v l)) <-> k' = k \/ In k' (map fst l).
  Proof.
    induction l as [|[k0 v0] l IH]; cbn [assoc_insert map fst In]; [intuition|].
    destruct (cid_eqb k0 k) eqn:E; cbn [map fst In].
    - apply Wantlist_proofs.cid_eqb_spec in E. subst. intuition.
    - rewrite IH. intuition.
  Qed.

  Lemma ins_all_keys bl : forall acc k, In k (map fst (ins_all bl acc)) <-> In k (map fst acc) \/ In k (map fst bl).
  Proof.
    induction bl as [|b bl IH]; intros acc k; cbn [ins_all fold_left map In]; [intuition|].
    fold (ins_all bl (assoc_insert (fst b) (snd b) acc)). rewrite IH, assoc_insert_keys. intuition.
  Qed.

  Lemma ins_all_in bl : forall acc x, In x (ins_all bl acc) -> In x acc \/ In x bl.
  Proof.
    induction bl as [|b bl IH]; intros acc x; cbn [ins_all fold_left]; [auto|].
    fold (ins_all bl (assoc_insert (fst b) (snd b) acc)). intros H. apply IH in H. destruct H as [H|H]; [|right; right; exact H].
    destruct x as [k v]. apply assoc_insert_in in H. destruct H as [[-> ->]|H]; [right; left; destruct b; reflexivity | left; exact H].
  Qed.

  (* what arrives is rebuilt from the bytes: every block a client accepts is good, given well-formed CIDs out *)
  Lemma rebuilt_good m inc cm c d :
    process_message Sz Hh m = PmOk inc -> in_client inc = Some cm -> In (c, d) (cm_blocks cm) ->
    exists p, prefix_to_cid Sz Hh p d = TOk c.
  Proof.
    intros H1 H2 H3. destruct (process_blocks_rebuilt _ _ _ _ _ _ _ H1 H2 H3) as (b & p & _ & Hd & _ & Hok).
    exists p. exact Hok.
  Qed.
End Good.

(* ---------- the wantlist message ---------- *)
Lemma process_wantlist_message Sz Hh sdh full es :
  process_message Sz Hh (wantlist_message sdh full es) =
  PmOk (MkIncoming None (if full || negb (is_nil es) then Some (proto_of sdh full es) else None)).
Proof.
  unfold process_message, wantlist_message, proto_of; cbn. destruct es; reflexivity.
Qed.

(* ---------- the blockstore ---------- *)
Lemma store_get_put_same st c d : store_get (store_put st (c, d)) c = SHit d.
Proof.
  unfold store_get, store_put; cbn [fst snd]. rewrite al_find_set.
  rewrite Wantlist_proofs.cid_eqb_refl. reflexivity.
Qed.
