(* Net.v — a network of beetswap nodes (Node.v) with ATOMIC message delivery, the fair round `settle`
   and the 30 s refresh.  Definitions only; examples and theorems are in Net_proofs*.v.

   Model
   * `nodes`   : node i is peer number i for every other node.
   * `conns`   : established connections, unordered pairs stored as (min, max); ONE connection per pair,
                 ConnectionId 0 on both sides (a reconnect gets a fresh id in libp2p; nothing of the old
                 connection survives `NDisconnect`, so the number is never compared across connections).
   * `wire_w`  : wantlists handed to a connection (`ToHandlerEvent::SendWantlist`) and not yet delivered.
   * `wire_b`  : block batches queued for a peer (`QueueOutgoingMessages`) and not yet delivered; a batch
                 keeps the CID labels of Server.v's `lout`, the bytes on the wire are `blocks_message`.
   * `now`     : the virtual clock shared by all nodes.

   ASSUMPTION (atomic delivery; the handler level, package E / C14, is what justifies it): a wantlist handed
   to a connection is written at once — the sender's client hears `Sending` in the same poll (a handler that
   is not stalled; without that report a clock step of RECEIVE_REQUEST_TIMEOUT between hand-over and delivery
   makes the client drop the connection, see Net_proofs `stalled_handler_drops_peer`) — and is then either
   delivered whole (`NDeliverW`: the receiver processes it, the sender's client hears `Ready`) or, when
   the connection is closed first, dropped (`NDisconnect` clears the wire of the pair; the sender hears
   nothing, its peer entry is gone anyway).  The same for a block batch, which becomes one message (the
   Rust handler may split a batch over several messages when it exceeds MAX_MESSAGE_SIZE; a batch never
   holds a CID twice, so the client sees the same blocks).  Stream negotiation always succeeds.

   Steps: application / environment  NConnect NDisconnect NGet NCancel NPut NEvict NAdvance,
          schedule                   NPoll NStore NDeliverW NDeliverB.
   A step that names a node that does not exist, a connection that is not there, an empty wire … is a
   no-op. *)
From BS Require Export Node.
Open Scope N_scope.

Record wmsg := MkW { wm_src : N; wm_dst : N; wm_full : bool; wm_entries : list gen_entry }.
Record bmsg := MkB { bm_src : N; bm_dst : N; bm_blocks : list (cid * bytes) }.

Record net := MkNet {
  nodes : list node;
  conns : list (N * N);
  wire_w : list wmsg;
  wire_b : list bmsg;
  now : N
}.

Inductive nop :=
| NConnect (i j : N) | NDisconnect (i j : N)
| NGet (i : N) (c : cid) | NCancel (i : N) (q : qid)
| NPut (i : N) (c : cid) (d : bytes) | NEvict (i : N) (c : cid)
| NAdvance (ms : N)
| NPoll (i : N) | NStore (i k : N) | NDeliverW (i j : N) | NDeliverB (j i : N).

Inductive nevent :=
| EResponse (i : N) (q : qid) (data : bytes)
| EError (i : N) (q : qid) (kind : N)
| EFault (i : N).                      (* a model fault (client panic / out of fuel, server panic); never seen *)

Definition net_init (n : nat) : net := MkNet (repeat node_init n) [] [] [] 0.

Definition CONN : conn := 0.

(* ---------- small utilities ---------- *)
Definition get_node (s : net) (i : N) : option node := nth_error (nodes s) (N.to_nat i).

Fixpoint set_nth {A} (k : nat) (x : A) (l : list A) : list A :=
  match l, k with
  | [], _ => []
  | _ :: r, O => x :: r
  | y :: r, S k' => y :: set_nth k' x r
  end.

Definition set_node (s : net) (i : N) (n : node) : net :=
  MkNet (set_nth (N.to_nat i) n (nodes s)) (conns s) (wire_w s) (wire_b s) (now s).

Definition norm (i j : N) : N * N := if i <? j then (i, j) else (j, i).
Definition pair_eqb (a b : N * N) : bool := (fst a =? fst b) && (snd a =? snd b).
Definition connected (s : net) (i j : N) : bool := existsb (pair_eqb (norm i j)) (conns s).

Definition ev_of (i : N) (e : lev) : nevent :=
  match e with
  | LResponse q d => EResponse i q d
  | LError q k => EError i q k
  | LFault => EFault i
  end.

(* first element satisfying f, and the list without it *)
Fixpoint take_first {A} (f : A -> bool) (l : list A) : option (A * list A) :=
  match l with
  | [] => None
  | x :: r => if f x then Some (x, r)
              else match take_first f r with
                   | Some (y, r') => Some (y, x :: r')
                   | None => None
                   end
  end.

Definition w_between (i j : N) (m : wmsg) : bool := (wm_src m =? i) && (wm_dst m =? j).
Definition b_between (j i : N) (m : bmsg) : bool := (bm_src m =? j) && (bm_dst m =? i).
Definition w_touches (i j : N) (m : wmsg) : bool := w_between i j m || w_between j i m.
Definition b_touches (i j : N) (m : bmsg) : bool := b_between i j m || b_between j i m.

Section WithParams.
  Variable Sz : N.           (* MAX_MULTIHASH_SIZE of every node *)
  Variable Hh : hash_fn.     (* the multihasher table of every node *)

  Definition on_node (s : net) (i : N) (f : node -> node) : net :=
    match get_node s i with Some n => set_node s i (f n) | None => s end.

  (* ---------- NPoll ---------- *)
  (* the wantlists of one poll are handed to their connections: on the wire, and the client hears
     `Sending` from the handler; a peer that is not connected (cannot happen) gets nothing *)
  Definition hand_over (s : net) (i : N) (acc : node * list wmsg) (x : peer * conn * bool * list gen_entry)
    : node * list wmsg :=
    let '(p, c, full, es) := x in
    if connected s i p
    then (node_report (fst acc) p c (RpSending c), snd acc ++ [MkW i p full es])
    else acc.

  Definition queue_blocks (s : net) (i : N) (acc : list bmsg) (x : peer * list (cid * bytes)) : list bmsg :=
    if connected s i (fst x) then acc ++ [MkB i (fst x) (snd x)] else acc.

  Definition do_poll (s : net) (i : N) : net * list nevent :=
    match get_node s i with
    | None => (s, [])
    | Some n =>
        let (n1, o) := node_poll Sz n in
        let (n2, ws) := fold_left (hand_over s i) (o_wants o) (n1, []) in
        let bs := fold_left (queue_blocks s i) (o_blocks o) [] in
        (MkNet (set_nth (N.to_nat i) n2 (nodes s)) (conns s) (wire_w s ++ ws) (wire_b s ++ bs) (now s),
         map (ev_of i) (o_events o))
    end.

  (* ---------- NDeliverW i j : the oldest wantlist in flight from i to j ---------- *)
  Definition do_deliver_w (s : net) (i j : N) : net * list nevent :=
    match take_first (w_between i j) (wire_w s) with
    | None => (s, [])
    | Some (m, rest) =>
        let s0 := MkNet (nodes s) (conns s) rest (wire_b s) (now s) in
        match get_node s0 i, get_node s0 j with
        | Some ni, Some nj =>
            let sdh := wl_sdh (cs_wl (n_client ni)) in
            let (nj1, evs) := node_incoming Sz Hh nj i (wantlist_message sdh (wm_full m) (wm_entries m)) in
            let s1 := set_node s0 j nj1 in
            (* the sender's handler finished flushing *)
            (on_node s1 i (fun n => node_report n j CONN RpReady), map (ev_of j) evs)
        | _, _ => (s0, [])
        end
    end.

  (* ---------- NDeliverB j i : the oldest block batch in flight from j to i ---------- *)
  Definition do_deliver_b (s : net) (j i : N) : net * list nevent :=
    match take_first (b_between j i) (wire_b s) with
    | None => (s, [])
    | Some (m, rest) =>
        match get_node s i with
        | Some ni =>
            let (ni1, evs) := node_incoming Sz Hh ni j (blocks_message (bm_blocks m)) in
            (MkNet (set_nth (N.to_nat i) ni1 (nodes s)) (conns s) (wire_w s) rest (now s), map (ev_of i) evs)
        | None => (MkNet (nodes s) (conns s) (wire_w s) rest (now s), [])
        end
    end.

  (* ---------- connections ---------- *)
  Definition do_connect (s : net) (i j : N) : net :=
    match get_node s i, get_node s j with
    | Some ni, Some nj =>
        if (i =? j) || connected s i j then s
        else
          let s1 := set_node s i (node_connected Sz ni j CONN) in
          let s2 := set_node s1 j (node_connected Sz nj i CONN) in
          MkNet (nodes s2) (conns s ++ [norm i j]) (wire_w s) (wire_b s) (now s)
    | _, _ => s
    end.

  Definition do_disconnect (s : net) (i j : N) : net :=
    match get_node s i, get_node s j with
    | Some ni, Some nj =>
        if connected s i j then
          let s1 := set_node s i (node_disconnected Sz ni j CONN) in
          let s2 := set_node s1 j (node_disconnected Sz nj i CONN) in
          MkNet (nodes s2)
                (filter (fun p => negb (pair_eqb (norm i j) p)) (conns s))
                (filter (fun m => negb (w_touches i j m)) (wire_w s))
                (filter (fun m => negb (b_touches i j m)) (wire_b s))
                (now s)
        else s
    | _, _ => s
    end.

  (* ---------- the step function ---------- *)
  Definition nstep (s : net) (o : nop) : net * list nevent :=
    match o with
    | NConnect i j => (do_connect s i j, [])
    | NDisconnect i j => (do_disconnect s i j, [])
    | NGet i c => (on_node s i (fun n => node_get Sz n c), [])
    | NCancel i q => (on_node s i (fun n => node_cancel n q), [])
    | NPut i c d => (on_node s i (fun n => node_put n c d), [])
    | NEvict i c => (on_node s i (fun n => node_evict n c), [])
    | NAdvance ms =>
        (MkNet (map (fun n => node_advance n ms) (nodes s)) (conns s) (wire_w s) (wire_b s) (now s + ms), [])
    | NPoll i => do_poll s i
    | NStore i k => (on_node s i (fun n => node_store Sz n k), [])
    | NDeliverW i j => do_deliver_w s i j
    | NDeliverB j i => do_deliver_b s j i
    end.

  Fixpoint nrun (s : net) (ops : list nop) : net * list nevent :=
    match ops with
    | [] => (s, [])
    | o :: ops' =>
        let (s1, e1) := nstep s o in
        let (s2, e2) := nrun s1 ops' in (s2, e1 ++ e2)
    end.

  (* ---------- the fair round ---------- *)
  Fixpoint seqN (from : N) (n : nat) : list N :=
    match n with O => [] | S n' => from :: seqN (from + 1) n' end.

  (* the schedule of one round, computed phase by phase from the state the phase starts in *)
  Definition polls_of (s : net) : list nop := map NPoll (seqN 0 (length (nodes s))).
  Definition stores_of (s : net) : list nop :=
    flat_map (fun x => repeat (NStore (fst x) 0) (length (n_calls (snd x))))
             (combine (seqN 0 (length (nodes s))) (nodes s)).
  Definition deliveries_of (s : net) : list nop :=
    map (fun m => NDeliverW (wm_src m) (wm_dst m)) (wire_w s) ++
    map (fun m => NDeliverB (bm_src m) (bm_dst m)) (wire_b s).

  (* poll every node; complete every store call that is outstanding then; deliver every message that is
     in flight then *)
  Definition round (s : net) : net * list nevent :=
    let (s1, e1) := nrun s (polls_of s) in
    let (s2, e2) := nrun s1 (stores_of s1) in
    let (s3, e3) := nrun s2 (deliveries_of s2) in
    (s3, e1 ++ e2 ++ e3).

  (* nothing left to do: a sufficient, syntactic condition for `round` to change nothing *)
  Definition peer_idle (w : wl) (e : peer * peer_state) : bool :=
    match p_ss (snd e) with SsReady => true | _ => false end
    && negb (p_send_full (snd e)) && wls_is_updated (p_wl (snd e)) w.

  Definition is_nil {A} (l : list A) : bool := match l with [] => true | _ => false end.

  Definition client_idle (c : cstate) : bool :=
    is_nil (cs_queue c) && is_nil (cs_tasks c) && is_nil (cs_ready c) && is_nil (cs_new_blocks c)
    && negb (timer_ready c) && forallb (peer_idle (cs_wl c)) (cs_peers c).

  Definition server_idle (st : sstate) : bool :=
    is_nil (s_ready st) && is_nil (s_blocked st) && is_nil (s_outq st).

  Definition node_idle (n : node) : bool :=
    client_idle (n_client n) && server_idle (n_server n) && is_nil (n_calls n).

  Definition quietb (s : net) : bool :=
    is_nil (wire_w s) && is_nil (wire_b s) && forallb node_idle (nodes s).

  Fixpoint settle_loop (fuel : nat) (s : net) : net * list nevent :=
    if quietb s then (s, [])
    else match fuel with
         | O => (s, [])
         | S f => let (s1, e1) := round s in
                  let (s2, e2) := settle_loop f s1 in (s2, e1 ++ e2)
         end.

  (* fuel: generous in the amount of work visible in the state (every wanted CID, task and message may
     cost a few rounds); whether it sufficed is visible in the result: `quietb (fst (settle s))` *)
  Definition node_work (n : node) : nat :=
    length (wl_cids (cs_wl (n_client n))) + length (cs_tasks (n_client n)) + length (cs_queue (n_client n))
    + length (cs_new_blocks (n_client n)) + length (n_calls n)
    + fold_right (fun t a => (length (Server.t_todo t) + 1 + a)%nat) O (s_ready (n_server n))
    + fold_right (fun x a => (length (Server.t_todo (snd (snd x))) + 1 + a)%nat) O (s_blocked (n_server n))
    + length (s_outq (n_server n))
    + fold_right (fun x a => (length (snd x) + a)%nat) O (s_wants (n_server n)).

  Definition net_work (s : net) : nat :=
    fold_right (fun n a => (node_work n + a)%nat) O (nodes s)
    + fold_right (fun m a => (length (wm_entries m) + 1 + a)%nat) O (wire_w s)
    + fold_right (fun m a => (length (bm_blocks m) + 1 + a)%nat) O (wire_b s).

  Definition settle_fuel (s : net) : nat := 8 + 4 * (length (nodes s) + 1) * (net_work s + 1).

  Definition settle (s : net) : net * list nevent := settle_loop (settle_fuel s) s.

  Definition advance (ms : N) (s : net) : net := fst (nstep s (NAdvance ms)).

  (* one wantlist refresh period later *)
  Definition refresh (s : net) : net * list nevent := settle (advance SEND_FULL_INTERVAL s).

  (* ---------- observation helpers used by the statements ---------- *)
  Definition client_of (s : net) (i : N) : option cstate := option_map n_client (get_node s i).
  Definition server_of (s : net) (i : N) : option sstate := option_map n_server (get_node s i).
  Definition store_of (s : net) (i : N) : option (list (cid * bytes)) := option_map n_store (get_node s i).

  (* the data hashes to the CID: what a beetswap receiver checks (cid_prefix.rs to_cid) *)
  Definition valid_block (c : cid) (d : bytes) : bool :=
    match prefix_to_cid Sz Hh (prefix_of_cid c) d with TOk c' => cid_eqb c' c | _ => false end.
End WithParams.
