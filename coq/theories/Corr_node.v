(* Corr_node.v — engine `node`: ONE complete beetswap::Behaviour (client half + server half + the glue of
   /repo/src/lib.rs: Behaviour::poll, on_connection_handler_event, on_swarm_event, handle_established_*, get, cancel)
   with the real `process_message` in front of it and a healthy scripted blockstore, driven op by op
   (harness/src/e_node.rs) against Node.v — the node that Net.v composes and that the C02 / C14 network theorems
   are about.  Compared after every op: events, SendWantlist / QueueOutgoingMessages notifications, the store
   calls started, the client snapshot, the server snapshot and the contents of the store.

   Inputs of the implementation that Node.v fixes by a choice of its own are taken from the implementation here
   (`gnode_*`); Node.v's functions are the instances with the model's own choice (lemmas at the end):
     * the iteration order of a full wantlist's new want set (`order` of SMsg),
     * the connection each wantlist was handed to (`choice` of CPoll), since the engine opens up to three connections per
       peer — Net.v assumes one per pair, for which `CPoll []` is forced —,
     * whether a closed connection was the peer's last (`remaining_established == 0` of lib.rs: only then the server half
       is told).  Store calls are not numbered across the two halves by the implementation, so a completion
   names the CID: `DReleaseCid c` completes every outstanding `get(c)` oldest first (completions of the client's
   and of the server's lookups commute: they touch different halves and only read the store). *)
From BS Require Export Bytes Varint Cid Prefix Hasher Proto Types Convert Incoming Wantlist Client Server Node.
From BS Require Corr_client Corr_server Corr_incoming.
Open Scope N_scope.

Inductive dop :=
| DConnect (p : peer) (c : conn)
| DClose (p : peer) (c : conn) (last : bool)
| DGet (c : cid)
| DCancel (q : qid)
| DPut (c : cid) (d : bytes)
| DEvict (c : cid)
| DAdvance (ms : N)
| DReport (p : peer) (c : conn) (r : sending_report)
| DIncoming (p : peer) (m : message) (order : list cid)
| DPoll (choice : list (peer * conn))
| DReleaseCid (c : cid)
| DReleasePut.

Inductive dcall := DGetCall (c : cid) | DPutCall (bl : list (cid * bytes)).

(* processed: 0 = process_message gave a message, 1 = closed the stream, 2 = panicked, 3 = op is not DIncoming *)
Inductive dobs := DObs (processed : N) (events : list lev) (wants : list (peer * conn * bool * list gen_entry))
                       (blocks : list (peer * list (bytes * bytes))) (calls : list dcall)
                       (cs : Corr_client.csnap) (ss : Corr_server.snap) (store : list (cid * bytes)).

Definition din := (list (N * bytes * hash_result) * list dop)%type.     (* hasher table answers, ops *)
Definition case := (din * list dobs)%type.

Definition SZ : N := 64.

(* constructor names as the harness prints them *)
Definition CSnap := Corr_client.CSnap.
Definition PSnap := Corr_client.PSnap.
Definition Snap := Corr_server.Snap.

Definition erase_call (k : scall) : dcall :=
  match k with KCGet _ c => DGetCall c | KSGet _ c => DGetCall c | KCPut _ bl => DPutCall bl end.

Fixpoint skipN {A} (n : nat) (l : list A) : list A :=
  match n, l with O, _ => l | S n', _ :: r => skipN n' r | S _, [] => [] end.
Definition new_calls (n n' : node) : list dcall := map erase_call (skipN (length (n_calls n)) (n_calls n')).

(* node_incoming with the lookup order of a full wantlist as an input *)
Definition gnode_incoming (Hh : hash_fn) (n : node) (p : peer) (m : message) (order : list cid) : node * list lev * N :=
  match process_message SZ Hh m with
  | PmOk inc =>
      let (c1, o1) :=
        match in_client inc with
        | Some cm => cstep (n_client n) (CIncoming p (map to_pres (cm_presences cm)) (cm_blocks cm))
        | None => (n_client n, [])
        end in
      let s1 :=
        match in_server inc with
        | Some w => fst (srv SZ (n_server n) (SMsg p w order))
        | None => n_server n
        end in
      (MkNode c1 s1 (n_store n) (n_calls n), cl_events o1 ++ (if s_panic s1 then [LFault] else []), 0)
  | PmClose => (n, [], 1)
  | PmPanic => (n, [LFault], 2)
  end.

(* Behaviour::poll with the connection choice as an input *)
Definition gnode_poll (n : node) (ch : list (peer * conn)) : node * nouts :=
  let (c1, o1) := cstep (n_client n) (CPoll ch) in
  let (c2, o2) := cstep c1 CTakeNewBlocks in
  let nb := cl_new_blocks o2 in
  let s1 := match nb with [] => n_server n | _ => fst (srv SZ (n_server n) (SNewBlocks nb)) end in
  let (s2, o3) := srv SZ s1 SPoll in
  (MkNode c2 s2 (n_store n) (n_calls n ++ cl_calls o1 ++ sv_calls o3),
   MkOuts (cl_events o1 ++ (if s_panic s2 then [LFault] else [])) (cl_wants o1) (sv_blocks o3)).

(* FromSwarm::ConnectionClosed: the client half always hears of it, the server half only when it was the last one *)
Definition gnode_closed (n : node) (p : peer) (c : conn) (last : bool) : node :=
  MkNode (fst (cstep (n_client n) (CConnClosed p c)))
         (if last then fst (srv SZ (n_server n) (SDisconnected p)) else n_server n) (n_store n) (n_calls n).

Definition is_get_on (c : cid) (k : scall) : bool :=
  match k with KCGet _ c' => cid_eqb c c' | KSGet _ c' => cid_eqb c c' | KCPut _ _ => false end.
Definition is_put (k : scall) : bool := match k with KCPut _ _ => true | _ => false end.
Fixpoint find_call (f : scall -> bool) (l : list scall) (i : N) : option N :=
  match l with [] => None | k :: r => if f k then Some i else find_call f r (i + 1) end.

Fixpoint release_cid (fuel : nat) (n : node) (c : cid) : node :=
  match fuel with
  | O => n
  | S f => match find_call (is_get_on c) (n_calls n) 0 with
           | None => n
           | Some i => release_cid f (node_store SZ n i) c
           end
  end.

Definition dstep (Hh : hash_fn) (n : node) (op : dop) : node * nouts * N :=
  match op with
  | DConnect p c => (node_connected SZ n p c, outs_nil, 3)
  | DClose p c last => (gnode_closed n p c last, outs_nil, 3)
  | DGet c => (node_get SZ n c, outs_nil, 3)
  | DCancel q => (node_cancel n q, outs_nil, 3)
  | DPut c d => (node_put n c d, outs_nil, 3)
  | DEvict c => (node_evict n c, outs_nil, 3)
  | DAdvance ms => (node_advance n ms, outs_nil, 3)
  | DReport p c r => (node_report n p c r, outs_nil, 3)
  | DIncoming p m order => let '(n', ev, k) := gnode_incoming Hh n p m order in (n', MkOuts ev [] [], k)
  | DPoll ch => let (n', o) := gnode_poll n ch in (n', o, 3)
  | DReleaseCid c => (release_cid (S (length (n_calls n))) n c, outs_nil, 3)
  | DReleasePut => (match find_call is_put (n_calls n) 0 with Some i => node_store SZ n i | None => n end, outs_nil, 3)
  end.

Definition obs_of (n n' : node) (o : nouts) (k : N) : dobs :=
  DObs k (o_events o) (o_wants o) (map (fun pb => (fst pb, map erase_block (snd pb))) (o_blocks o))
       (new_calls n n') (Corr_client.csnap_of (n_client n')) (Corr_server.snap_of (n_server n')) (n_store n').

Fixpoint run_obs (Hh : hash_fn) (n : node) (ops : list dop) : list dobs :=
  match ops with
  | [] => []
  | op :: ops' => let '(n', o, k) := dstep Hh n op in obs_of n n' o k :: run_obs Hh n' ops'
  end.

Definition model (x : din) : list dobs := run_obs (Corr_incoming.lookup_answer (fst x)) node_init (snd x).

Definition lev_eqb (a b : lev) : bool :=
  match a, b with
  | LResponse q1 d1, LResponse q2 d2 => (q1 =? q2) && bytes_eqb d1 d2
  | LError q1 k1, LError q2 k2 => (q1 =? q2) && (k1 =? k2)
  | LFault, LFault => true
  | _, _ => false
  end.
Definition want_eqb (a b : peer * conn * bool * list gen_entry) : bool :=
  let '(p1, c1, f1, e1) := a in let '(p2, c2, f2, e2) := b in
  (p1 =? p2) && (c1 =? c2) && Bool.eqb f1 f2 && Corr_client.set_eqb Corr_client.gen_entry_eqb e1 e2.
Definition dcall_eqb (a b : dcall) : bool :=
  match a, b with
  | DGetCall c1, DGetCall c2 => cid_eqb c1 c2
  | DPutCall b1, DPutCall b2 => Corr_client.set_eqb Corr_client.blk_eqb b1 b2
  | _, _ => false
  end.
(* the blocks of one batch: as a multiset — several new blocks handed over by the client half in one poll come out of
   a hash map (the blocks of one incoming message), so their order in the server's queue is not determined *)
Definition send_eqb (a b : peer * list (bytes * bytes)) : bool :=
  (fst a =? fst b) && Corr_client.mset_eqb (fun x y => bytes_eqb (fst x) (fst y) && bytes_eqb (snd x) (snd y)) (snd a) (snd b).

(* events of one op as a multiset (blocks of one message are processed in hash-map order); SendWantlist and
   QueueOutgoingMessages sorted by peer by the harness, compared as multisets of per-peer notifications; store calls
   in the order they were started *)
Definition dobs_eqb (a b : dobs) : bool :=
  match a, b with
  | DObs k1 e1 w1 b1 c1 cs1 ss1 st1, DObs k2 e2 w2 b2 c2 cs2 ss2 st2 =>
      (k1 =? k2) && Corr_client.mset_eqb lev_eqb e1 e2 && Corr_client.mset_eqb want_eqb w1 w2
      && Corr_client.mset_eqb send_eqb b1 b2 && list_eqb dcall_eqb c1 c2
      && Corr_client.csnap_eqb cs1 cs2 && Corr_server.snap_eqb ss1 ss2
      && Corr_client.set_eqb Corr_client.blk_eqb st1 st2
  end.

Definition corr (x : case) : bool := list_eqb dobs_eqb (model (fst x)) (snd x).

(* diagnosis: first differing step and which component differs
   (0 processed, 1 events, 2 wants, 3 blocks, 4 calls, 5 client snapshot, 6 server snapshot, 7 store) *)
Definition which_diff (a b : dobs) : N :=
  match a, b with
  | DObs k1 e1 w1 b1 c1 cs1 ss1 st1, DObs k2 e2 w2 b2 c2 cs2 ss2 st2 =>
      if negb (k1 =? k2) then 0 else if negb (Corr_client.mset_eqb lev_eqb e1 e2) then 1
      else if negb (Corr_client.mset_eqb want_eqb w1 w2) then 2 else if negb (Corr_client.mset_eqb send_eqb b1 b2) then 3
      else if negb (list_eqb dcall_eqb c1 c2) then 4 else if negb (Corr_client.csnap_eqb cs1 cs2) then 5
      else if negb (Corr_server.snap_eqb ss1 ss2) then 6 else 7
  end.
Fixpoint first_diff (i : N) (a b : list dobs) : option (N * N) :=
  match a, b with
  | [], [] => None
  | x :: a', y :: b' => if dobs_eqb x y then first_diff (i + 1) a' b' else Some (i, which_diff x y)
  | _, _ => Some (i, 99)
  end.
Definition where_diff (x : case) : option (N * N) := first_diff 0 (model (fst x)) (snd x).
Definition model_at (x : case) (i : N) : option dobs := nth_error (model (fst x)) (N.to_nat i).

(* ---- oracles on the implementation's observations only ---- *)
(* C01 at node level: every block in the store was put by the application (DPut) or hashes to its CID according to the
   table; every response carries data that hashes to the CID of its query *)
Fixpoint gets_of (ops : list dop) : list cid := match ops with [] => [] | DGet c :: r => c :: gets_of r | _ :: r => gets_of r end.
Definition hashes_to (Hh : hash_fn) (c : cid) (d : bytes) : bool :=
  match Hh (mh_code (c_hash c)) d with HOk mh => mh_eqb mh (c_hash c) | HErr _ => false end.
Fixpoint app_puts (ops : list dop) : list (cid * bytes) :=
  match ops with [] => [] | DPut c d :: r => (c, d) :: app_puts r | _ :: r => app_puts r end.
Definition oracle_C01 (x : case) : bool :=
  let Hh := Corr_incoming.lookup_answer (fst (fst x)) in
  let ops := snd (fst x) in
  let qs := gets_of ops in
  forallb (fun o => match o with
    | DObs _ ev _ _ _ _ _ st =>
        forallb (fun b => existsb (Corr_client.blk_eqb b) (app_puts ops) || hashes_to Hh (fst b) (snd b)) st
        && forallb (fun e => match e with
             | LResponse q d => match nth_error qs (N.to_nat q) with
                                | Some c => existsb (Corr_client.blk_eqb (c, d)) (app_puts ops) || hashes_to Hh c d
                                | None => false end
             | _ => true end) ev
    end) (snd x).

(* C02 at node level (safety facet; the liveness itself is the Net-level theorem): a live query is never silently
   dropped — at the end of the history (the engine finishes with rounds that complete every store call and poll),
   every query that was issued, not cancelled and has had no response and no error still has its CID in the client's
   wantlist, which is the premise `live_query` of C02_direct; and no query is answered twice. *)
Fixpoint cancels_of (ops : list dop) : list qid := match ops with [] => [] | DCancel q :: r => q :: cancels_of r | _ :: r => cancels_of r end.
Definition ev_qid (e : lev) : option qid := match e with LResponse q _ => Some q | LError q _ => Some q | LFault => None end.
Definition all_events (obs : list dobs) : list lev := flat_map (fun o => match o with DObs _ ev _ _ _ _ _ _ => ev end) obs.
Fixpoint nodup_qb (l : list qid) : bool := match l with [] => true | x :: r => negb (existsb (N.eqb x) r) && nodup_qb r end.
Fixpoint seqN (i : N) (n : nat) : list N := match n with O => [] | S n' => i :: seqN (i + 1) n' end.
Definition oracle_C02 (x : case) : bool :=
  let ops := snd (fst x) in
  let qs := gets_of ops in
  let answered := flat_map (fun e => match ev_qid e with Some q => [q] | None => [] end) (all_events (snd x)) in
  nodup_qb answered &&
  match last (snd x) (DObs 3 [] [] [] [] Corr_client.csnap0 (Corr_server.Snap [] [] 0 0) []) with
  | DObs _ _ _ _ _ (Corr_client.CSnap _ cids _ _ _ _ _ _ _) _ _ =>
      forallb (fun q => existsb (N.eqb q) answered || existsb (N.eqb q) (cancels_of ops)
                        || match nth_error qs (N.to_nat q) with Some c => existsb (cid_eqb c) cids | None => false end)
              (seqN 0 (length qs))
  end.

(* C15 / C13 at node level, on the implementation's snapshots only: after every op the server half holds a want set for
   exactly the peers that have an open connection (so closing one of several connections discards nothing and the last one
   discards the peer), and the client half holds state only for peers that have one *)
Definition open_step (open : list (peer * conn)) (op : dop) : list (peer * conn) :=
  match op with
  | DConnect p c => open ++ [(p, c)]
  | DClose p c _ => filter (fun pc => negb ((fst pc =? p) && (snd pc =? c))) open
  | _ => open
  end.
Definition has_open (open : list (peer * conn)) (p : peer) : bool := existsb (fun pc => fst pc =? p) open.
Fixpoint c15_run (open : list (peer * conn)) (ops : list dop) (obs : list dobs) : bool :=
  match ops, obs with
  | op :: ops', ob :: obs' =>
      let open' := open_step open op in
      match ob with
      | DObs _ _ _ _ _ cs (Corr_server.Snap wants _ _ _) _ =>
          forallb (fun pw => has_open open' (fst pw)) wants
          && forallb (fun pc => existsb (fun pw => fst pw =? fst pc) wants) open'
          && forallb (has_open open') (Corr_client.snap_peers cs)
      end && c15_run open' ops' obs'
  | _, _ => true
  end.
Definition oracle_C15 (x : case) : bool := c15_run [] (snd (fst x)) (snd x).

(* C08: nothing panicked *)
Definition oracle_C08 (x : case) : bool :=
  forallb (fun o => match o with DObs k ev _ _ _ _ _ _ => negb (k =? 2) && negb (existsb (lev_eqb LFault) ev) end) (snd x).

(* ---- Node.v's own functions are the instances the engine's generalisation reduces to ---- *)
Lemma gnode_poll_is_node_poll n : gnode_poll n [] = node_poll SZ n.
Proof. reflexivity. Qed.
Lemma gnode_closed_is_node_disconnected n p c : gnode_closed n p c true = node_disconnected SZ n p c.
Proof. reflexivity. Qed.

Lemma gnode_incoming_is_node_incoming Hh n p m :
  let order := match process_message SZ Hh m with
               | PmOk inc => match in_server inc with
                             | Some w => match full_collect SZ (w_entries w) [] with Some l => l | None => [] end
                             | None => [] end
               | _ => [] end in
  let '(n', ev, _) := gnode_incoming Hh n p m order in (n', ev) = node_incoming SZ Hh n p m.
Proof.
  cbn zeta. unfold gnode_incoming, node_incoming. destruct (process_message SZ Hh m) as [inc| |]; try reflexivity.
  destruct (in_client inc) as [cm|]; [destruct (cstep _ _) as [c1 o1]|]; destruct (in_server inc) as [w|]; reflexivity.
Qed.
