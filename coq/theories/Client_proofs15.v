(* Client_proofs15.v — package N, part 6 (needs Net_proofs40.v): the client histories of Net.v's nodes (`cops_run`, the
   exact ghost of package K) name only the connection CONN, hence are one-connection histories in the sense of
   Client_proofs10/14: fault-free (`churn_ok`), every peer entry holds exactly [CONN], and they are fixed points of the
   projection.  Together with `C15_one_connection_suffices` this is the justification of Net.v's "one connection per pair
   of nodes" for what is SENT: a client with any number of connections per peer, under fault-free churn, hands to its
   connections the wantlists of a client whose history is of the kind Net.v's nodes run. *)
From BS Require Import Types Wantlist Wantlist_proofs Client Client_proofs Client_proofs4 Node Net Net_proofs3 Net_proofs40
  Client_proofs10 Client_proofs12 Client_proofs13 Client_proofs14.
From Coq Require Import ZArith ZifyBool ZifyN ZifyNat Lia.
Open Scope N_scope.

Definition KN (p : peer) : conn := CONN.

Lemma cl_wants_in l p c f es : In (p, c, f, es) (cl_wants l) -> In (OSendWantlist p c f es) l.
Proof.
  induction l as [|o l IH]; [intros []|]. destruct o; cbn [cl_wants]; try (intros H; right; apply IH, H).
  intros [[= -> -> -> ->] | H]; [left; reflexivity | right; apply IH, H].
Qed.

Lemma cl_ops_single Sz Hh s o k :
  (forall n, get_node s k = Some n ->
     forall p c f es, In (OSendWantlist p c f es) (snd (cstep (n_client n) (CPoll []))) -> c = CONN) ->
  forallb (op_single KN) (cl_ops Sz Hh s o k) = true.
Proof.
  intros Hw. destruct o as [a b|a b|a c|a q|a c d|a c|ms|a|a m|a b|b a]; cbn [cl_ops]; try reflexivity.
  - destruct (get_node s a); [|reflexivity]. destruct (get_node s b); [|reflexivity].
    destruct ((a =? b) || Net.connected s a b); [reflexivity|]. destruct (k =? b); [reflexivity|]. destruct (k =? a); reflexivity.
  - destruct (get_node s a); [|reflexivity]. destruct (get_node s b); [|reflexivity].
    destruct (Net.connected s a b); [|reflexivity]. destruct (k =? b); [reflexivity|]. destruct (k =? a); reflexivity.
  - destruct (k =? a); reflexivity.
  - destruct (k =? a); reflexivity.
  - destruct (k =? a) eqn:E; [|reflexivity]. apply N.eqb_eq in E. subst a. destruct (get_node s k) as [n|] eqn:En; [|reflexivity].
    cbn [forallb op_single andb]. rewrite forallb_forall. intros o Hin. apply in_map_iff in Hin. destruct Hin as ([[[p c] f] es] & <- & Hx).
    apply filter_In in Hx. destruct Hx as [Hx _]. unfold poll_wants in Hx. apply cl_wants_in in Hx.
    rewrite (Hw n eq_refl p c f es Hx). reflexivity.
  - destruct (k =? a); [|reflexivity]. destruct (get_node s a) as [n|]; [|reflexivity].
    destruct (nth_error (n_calls n) (N.to_nat m)) as [[x c|x bl|]|]; reflexivity.
  - destruct (k =? a); [|reflexivity]. destruct (take_first (w_between a b) (wire_w s)); [|reflexivity].
    destruct (get_node s a); [|reflexivity]. destruct (get_node s b); reflexivity.
  - destruct (k =? a); [|reflexivity]. destruct (take_first (b_between b a) (wire_b s)) as [[m rest]|]; [|reflexivity].
    destruct (get_node s a); [|reflexivity]. unfold inc_cops. destruct (process_message Sz Hh (blocks_message (bm_blocks m))); try reflexivity.
    destruct (in_client _); reflexivity.
Qed.

Theorem net_cops_single Sz Hh n ops i : forallb (op_single KN) (cops_run Sz Hh (net_init n) ops i) = true.
Proof.
  induction ops as [|o ops IH] using rev_ind; [reflexivity|].
  rewrite cops_run_app, forallb_app, IH. cbn [andb cops_run]. rewrite app_nil_r. apply cl_ops_single.
  intros nd Hnd p c f es Hin. rewrite (net_client_ghost Sz Hh n ops i nd Hnd) in Hin. cbn [cstep] in Hin.
  destruct (C15_one_connection_per_wantlist true _ [] p c f es Hin) as ((ps & Hf & Hc) & _).
  destruct (SC_run KN true _ IH _ _ (al_find_some_in _ Neqb_spec _ _ _ Hf)) as [E _]. rewrite E in Hc. destruct Hc as [<- | []]. reflexivity.
Qed.

(* the client history of every node of a Net.v run is a one-connection history: fault-free, every entry holds exactly
   [CONN], every wantlist goes over CONN, and projecting it changes neither the state nor the outputs *)
Theorem C15_net_histories_one_connection Sz Hh n ops i :
  let h := cops_run Sz Hh (net_init n) ops i in
  forallb (op_single KN) h = true /\
  single_conn_state KN (st_after true h) /\
  churn_ok true h = true /\
  st_after true (project KN true h) = st_after true h /\
  filter not_bad (outs_after true (project KN true h)) = filter not_bad (outs_after true h) /\
  (forall p c f es, In (OSendWantlist p c f es) (outs_after true h) -> c = CONN).
Proof.
  intros h. pose proof (net_cops_single Sz Hh n ops i) as H. fold h in H.
  destruct (C15_one_connection_histories KN true h H) as (A & B & C & D & E).
  split; [exact H|]. split; [exact A|]. split; [exact B|]. split; [exact C|]. split; [exact D | exact E].
Qed.

Print Assumptions net_cops_single.
Print Assumptions C15_net_histories_one_connection.
