(* Props_C16.v — C16: one bad message costs only its own stream.  Message level (Incoming.v: process_message) first;
   stream and connection level (Streams.v: IncomingStream over FramedRead + Codec, SelectAll of a connection) at the end. *)
From BS Require Import Bytes Varint Cid Prefix Hasher Proto Incoming Incoming_proofs Prefix_proofs.
Open Scope N_scope.

(* an invalid CID in a block presence closes the stream *)
Theorem C16_bad_presence_closes : forall S H m pre p post,
  m_presences m = pre ++ p :: post -> cid_read_bytes S (bp_cid p) = RErr ->
  Forall (fun x => exists c, cid_read_bytes S (bp_cid x) = Cid.ROk c) pre ->
  process_message S H m = PmClose.
Proof. exact process_bad_presence. Qed.

(* an unparsable prefix or a fatal hasher error (CustomFatal, InvalidMultihashSize) closes the stream *)
Theorem C16_fatal_block_closes : forall S H m pre b post,
  Forall (fun x => exists c, cid_read_bytes S (bp_cid x) = Cid.ROk c) (m_presences m) ->
  m_payload m = pre ++ b :: post -> classify S H b = BFatal ->
  Forall (fun x => classify S H x <> BPanic /\ classify S H x <> BFatal) pre ->
  process_message S H m = PmClose.
Proof. exact process_fatal_block. Qed.

(* unknown code / non-fatal hasher error: only that block is skipped, every other block, presence and
   the wantlist are applied exactly as if the block had not been in the message *)
Theorem C16_good_elements_survive : forall S H m,
  process_message S H (without_skippable S H m) = process_message S H m.
Proof. exact good_elements_survive. Qed.

(* a message with a wantlist and blocks yields both parts *)
Theorem C16_both_parts : forall S H m w pres blocks,
  m_wantlist m = Some w -> (w_full w = true \/ w_entries w <> []) ->
  pm_presences S (m_presences m) [] = inl (Some pres) ->
  pm_payload S H (m_payload m) [] false = inl (Some (blocks, true)) ->
  process_message S H m = PmOk (MkIncoming (Some (MkClientMsg pres blocks)) (Some w)).
Proof. exact both_parts. Qed.

Theorem C16_server_part_independent : forall S H m inc,
  process_message S H m = PmOk inc ->
  in_server inc = match m_wantlist m with
                  | Some w => if w_full w || negb (match w_entries w with [] => true | _ => false end) then Some w else None
                  | None => None
                  end.
Proof. exact server_part_independent. Qed.

(* processing never panics (capacity at least 32, table answering sha2-256 requests with sha2-256) *)
Theorem C16_process_message_total : forall S H m, 32 <= S -> sha_respecting H -> process_message S H m <> PmPanic.
Proof. exact process_message_no_panic. Qed.

Check C16_good_elements_survive : forall S H m,
  process_message S H (without_skippable S H m) = process_message S H m.

(* non-vacuity: a message with one skippable and one accepted block and a wantlist *)
Definition ex_H : hash_fn := fun code _ => if code =? 18 then HOk (MkMh 18 (repeat 9 32)) else HErr UnknownMultihashCode.
Definition ex_msg : message :=
  MkMessage (Some (MkWantlist [] true)) [MkBlock [1; 85; 99; 4] [1]; MkBlock [1; 85; 18; 32] [2]] [] 0.
Example ex_skip_and_accept :
  process_message 64 ex_H ex_msg =
  PmOk (MkIncoming (Some (MkClientMsg [] [(MkCid V1 85 (MkMh 18 (repeat 9 32)), [2])])) (Some (MkWantlist [] true))).
Proof. vm_compute. reflexivity. Qed.
Example ex_classify : classify 64 ex_H (MkBlock [1; 85; 99; 4] [1]) = BSkip /\ classify 64 ex_H (MkBlock [0; 85] [1]) = BFatal.
Proof. split; vm_compute; reflexivity. Qed.

Print Assumptions C16_bad_presence_closes.
Print Assumptions C16_fatal_block_closes.
Print Assumptions C16_good_elements_survive.
Print Assumptions C16_both_parts.
Print Assumptions C16_server_part_independent.
Print Assumptions C16_process_message_total.

(* ---- stream level (package H: Streams.v = IncomingStream::poll_next over FramedRead + Codec + process_message, and the
   SelectAll of a connection with its polling order as the input `schedule`).  What a stream has yielded stays yielded and a
   stopped stream yields nothing more (prefix_stable); for ANY schedule the messages the behaviour receives from stream k
   are a prefix of k's own output, equal to it once k is polled enough, and do not depend on what the other streams carry
   (streams_prefix / stream_of_conn / streams_complete / streams_independent); good frames followed by an undecodable
   frame or a closing message on stream j, cut anywhere: j yields exactly the good ones, every other stream everything
   (bad_frame_costs_own_stream).  The no-panic hypothesis `stream_safe` is necessary (…_refuted: a frame of the known class
   F2 takes the whole connection task down) and fails only inside class F2 (stream_unsafe_only_F2). *)
From BS Require Import Bytes Varint Varint_proofs Cid Prefix Hasher Proto Incoming Qp ProtoCodec RefProto Frame Framed Codec Frame_proofs Framed_proofs ProtoCodec_proofs RefProto_proofs Codec_proofs Prefix_proofs Incoming_proofs Streams Streams_proofs Streams_props.
From Coq Require Import ZArith ZifyBool ZifyN ZifyNat Lia.
Open Scope N_scope.

Theorem C16_stream_prefix_stable :
  forall (Sz : N) (Hh : hash_fn) (chk : bool) (evs more : list read_ev),
  is_prefix (fst (stream_out Sz Hh chk evs)) (fst (stream_out Sz Hh chk (evs ++ more))) /\
  (snd (stream_out Sz Hh chk evs) <> SfPending ->
   stream_out Sz Hh chk (evs ++ more) = stream_out Sz Hh chk evs).
Proof. exact (@Streams_proofs.C16_stream_prefix_stable). Qed.

Theorem C16_streams_prefix :
  forall (Sz : N) (Hh : hash_fn) (chk : bool) (streams : list (list read_ev)) (schedule : list N) (k : N),
  is_prefix (of_stream k (conn_run Sz Hh chk streams schedule))
    (fst (stream_out Sz Hh chk (nth (N.to_nat k) streams []))).
Proof. exact (@Streams_proofs.C16_streams_prefix). Qed.

Theorem C16_stream_of_conn :
  forall (Sz : N) (Hh : hash_fn) (chk : bool) (streams : list (list read_ev)) (schedule : list N) (k : N),
  forallb (stream_safe Sz Hh chk) streams = true ->
  of_stream k (conn_run Sz Hh chk streams schedule) =
  stream_polls Sz Hh chk (polls_of k schedule) (nth (N.to_nat k) streams []) /\
  fst (snd (conn_run_full Sz Hh chk streams schedule)) = COk.
Proof. exact (@Streams_proofs.C16_stream_of_conn). Qed.

Theorem C16_streams_complete :
  forall (Sz : N) (Hh : hash_fn) (chk : bool) (streams : list (list read_ev)) (schedule : list N) (k : N),
  forallb (stream_safe Sz Hh chk) streams = true ->
  polled_enough k (nth (N.to_nat k) streams []) schedule = true ->
  of_stream k (conn_run Sz Hh chk streams schedule) = fst (stream_out Sz Hh chk (nth (N.to_nat k) streams [])).
Proof. exact (@Streams_proofs.C16_streams_complete). Qed.

Theorem C16_streams_independent :
  forall (Sz : N) (Hh : hash_fn) (chk : bool) (streams streams' : list (list read_ev)) 
    (schedule : list N) (k : N),
  forallb (stream_safe Sz Hh chk) streams = true ->
  forallb (stream_safe Sz Hh chk) streams' = true ->
  nth (N.to_nat k) streams [] = nth (N.to_nat k) streams' [] ->
  of_stream k (conn_run Sz Hh chk streams schedule) = of_stream k (conn_run Sz Hh chk streams' schedule).
Proof. exact (@Streams_proofs.C16_streams_independent). Qed.

Theorem C16_streams_independent_refuted :
  exists (Sz : N) (Hh : hash_fn) (streams streams' : list (list read_ev)) (schedule : list N) 
  (k : N),
    32 <= Sz /\
    sha_respecting Hh /\
    nth (N.to_nat k) streams [] = nth (N.to_nat k) streams' [] /\
    (forall chk : bool,
     of_stream k (conn_run Sz Hh chk streams schedule) <> of_stream k (conn_run Sz Hh chk streams' schedule)) /\
    fst (snd (conn_run_full Sz Hh true streams' schedule)) = CStopped 0 SfPanic /\
    fst (snd (conn_run_full Sz Hh false streams' schedule)) = CStopped 0 SfLoop /\
    stream_safe Sz Hh true (nth 0 streams' []) = false.
Proof. exact (@Streams_props.C16_streams_independent_refuted). Qed.

Theorem stream_unsafe_only_F2 :
  forall (Sz : N) (Hh : hash_fn) (chk : bool) (evs : list read_ev),
  32 <= Sz ->
  sha_respecting Hh ->
  stream_safe Sz Hh chk evs = false ->
  exists pre buf post : list N, ev_data evs = pre ++ buf ++ post /\ codec_overrun buf = true.
Proof. exact (@Streams_proofs.stream_unsafe_only_F2). Qed.

Theorem C16_ended_stream_costs_own_stream :
  forall (Sz : N) (Hh : hash_fn) (chk : bool) (streams : list (list read_ev)) (schedule : list N) 
    (j : N) (evs1 more : list read_ev) (incs : list incoming) (fin : sfinal),
  (N.to_nat j < length streams)%nat ->
  nth (N.to_nat j) streams [] = evs1 ++ more ->
  stream_out Sz Hh chk evs1 = (incs, fin) ->
  sfinal_ended fin = true ->
  (forall evs : list read_ev, In evs streams -> evs <> evs1 ++ more -> stream_safe Sz Hh chk evs = true) ->
  (forall k : N,
   (N.to_nat k < length streams)%nat -> polled_enough k (nth (N.to_nat k) streams []) schedule = true) ->
  of_stream j (conn_run Sz Hh chk streams schedule) = incs /\
  (forall k : N,
   k <> j ->
   of_stream k (conn_run Sz Hh chk streams schedule) =
   fst (stream_out Sz Hh chk (nth (N.to_nat k) streams []))).
Proof. exact (@Streams_proofs.C16_ended_stream_costs_own_stream). Qed.

Theorem C16_bad_frame_costs_own_stream :
  forall (Sz : N) (Hh : hash_fn) (chk : bool) (streams : list (list read_ev)) (schedule : list N) 
    (j : N) (ms : list message) (bad : list N) (evs1 : list read_ev) (extra : list N) 
    (more : list read_ev),
  (N.to_nat j < length streams)%nat ->
  nth (N.to_nat j) streams [] = evs1 ++ more ->
  live evs1 ->
  ev_data evs1 = concat (map codec_encode ms) ++ bad ++ extra ->
  Forall wf_message ms ->
  Forall (size_ok write_message) ms ->
  (forall m : message, In m ms -> exists inc : incoming, process_message Sz Hh m = PmOk inc) ->
  undecodable chk bad \/ closing Sz Hh bad ->
  (forall evs : list read_ev, In evs streams -> evs <> evs1 ++ more -> stream_safe Sz Hh chk evs = true) ->
  (forall k : N,
   (N.to_nat k < length streams)%nat -> polled_enough k (nth (N.to_nat k) streams []) schedule = true) ->
  of_stream j (conn_run Sz Hh chk streams schedule) = yielded Sz Hh ms /\
  (forall k : N,
   k <> j ->
   of_stream k (conn_run Sz Hh chk streams schedule) =
   fst (stream_out Sz Hh chk (nth (N.to_nat k) streams []))).
Proof. exact (@Streams_proofs.C16_bad_frame_costs_own_stream). Qed.

Theorem stream_out_deliver :
  forall (Sz : N) (Hh : hash_fn) (chk : bool) (evs : list read_ev),
  stream_out Sz Hh chk evs =
  (let (ms, fin) := codec_run_stream chk evs in deliver (process_message Sz Hh) ms fin).
Proof. exact (@Streams_proofs.stream_out_deliver). Qed.

Theorem stream_out_fuel :
  forall (Sz : N) (Hh : hash_fn) (chk : bool) (evs : list read_ev), snd (stream_out Sz Hh chk evs) <> SfFuel.
Proof. exact (@Streams_proofs.stream_out_fuel). Qed.

Print Assumptions C16_stream_prefix_stable.
Print Assumptions C16_streams_prefix.
Print Assumptions C16_stream_of_conn.
Print Assumptions C16_streams_complete.
Print Assumptions C16_streams_independent.
Print Assumptions C16_streams_independent_refuted.
Print Assumptions stream_unsafe_only_F2.
Print Assumptions C16_ended_stream_costs_own_stream.
Print Assumptions C16_bad_frame_costs_own_stream.
Print Assumptions stream_out_deliver.
Print Assumptions stream_out_fuel.

(* ---- inside the whole connection handler (package M): what the inbound side delivers, and the state it ends in, is a function
   of the inbound streams alone — the two handler halves, their states and their scripts are invisible to it — and it is served
   first in every poll. *)
From BS Require Import Bytes Types FramedWrite Handler ServerHandler Framed Framed_proofs Streams Streams_proofs Handler_proofs ServerHandler_proofs ConnHandler Proto Prefix Incoming Qp ProtoCodec Codec ConnHandler_proofs.
From Coq Require Import ZArith Lia.
Open Scope N_scope.

Theorem connhandler_inbound_independent :
  forall (encode : message -> bytes) (block_size : blk -> N) (msg : Type)
    (parse : bytes -> N -> parse_result msg) (proc : msg -> pm_result) (st1 st2 : kstate)
    (sc1 ss1 sc2 ss2 : list io),
  k_dead st1 = false ->
  k_dead st2 = false ->
  k_in st1 = k_in st2 ->
  inbound_outs (snd (kstep encode block_size parse proc st1 (KPoll sc1 ss1))) =
  inbound_outs (snd (kstep encode block_size parse proc st2 (KPoll sc2 ss2))) /\
  k_in (fst (kstep encode block_size parse proc st1 (KPoll sc1 ss1))) =
  k_in (fst (kstep encode block_size parse proc st2 (KPoll sc2 ss2))).
Proof. exact (@ConnHandler_proofs.connhandler_inbound_independent). Qed.

Theorem connhandler_inbound_first :
  forall (encode : message -> bytes) (block_size : blk -> N) (msg : Type)
    (parse : bytes -> N -> parse_result msg) (proc : msg -> pm_result) (st : kstate) 
    (sc ss : list io),
  exists a b : list kout,
    snd (kstep encode block_size parse proc st (KPoll sc ss)) = a ++ b /\
    Forall is_incoming a /\ inbound_outs b = [].
Proof. exact (@ConnHandler_proofs.connhandler_inbound_first). Qed.

Print Assumptions connhandler_inbound_independent.
Print Assumptions connhandler_inbound_first.

(* ---- stated for the whole connection handler (package O): the IncomingMessage events of inbound stream k are a prefix of k's own
   stream_out, equal to it once the member has settled, whatever the two halves and the other streams do; the inbound side of
   every run IS Streams.conn_run_full under some schedule, so the for-all-schedules theorems above apply to the real composite;
   a bad frame costs only its own stream (no stream_safe hypothesis: a fatal poll would have made the handler dead — which a
   class-F2 frame does: ConnHandler_props.C16_connhandler_streams_complete_refuted). *)
From BS Require Import Bytes Varint Types FramedWrite Handler ServerHandler Framed Framed_proofs Streams Streams_proofs Handler_proofs ServerHandler_proofs ConnHandler ConnHandler_proofs ConnHandler_proofs2 Proto Prefix Incoming Qp ProtoCodec ProtoCodec_proofs Codec Frame Frame_proofs Codec_proofs Wire.
From Coq Require Import ZArith Lia.
Open Scope N_scope.

Theorem connhandler_inbound_is_stream_out :
  forall (encode : message -> bytes) (block_size : blk -> N) (Sz : N) (Hh : hash_fn) 
    (chk : bool) (c : conn) (ops : list kop) (k : N),
  let fin := fst (krun_trace encode block_size (qp_parse chk) (process_message Sz Hh) (k_init c) ops) in
  let outs :=
    concat (snd (krun_trace encode block_size (qp_parse chk) (process_message Sz Hh) (k_init c) ops)) in
  let evs := nth (N.to_nat k) (inbound_evs ops) [] in
  is_prefix (of_stream k (inbound_outs outs)) (fst (stream_out Sz Hh chk evs)) /\
  (forall m : kin,
   nth_error (k_in fin) (N.to_nat k) = Some m ->
   stream_settled m = true ->
   stream_out Sz Hh chk evs = (of_stream k (inbound_outs outs), ss_status (ki_st m))).
Proof. exact (@ConnHandler_proofs2.connhandler_inbound_is_stream_out). Qed.

Theorem C16_connhandler_bad_frame_costs_own_stream :
  forall (encode : message -> bytes) (block_size : blk -> N) (Sz : N) (Hh : hash_fn) 
    (chk : bool) (c : conn) (ops : list kop) (j : N) (ms : list message) (bad : list N) 
    (evs1 : list read_ev) (extra : list N) (more : list read_ev),
  let fin := fst (krun_trace encode block_size (qp_parse chk) (process_message Sz Hh) (k_init c) ops) in
  let outs :=
    concat (snd (krun_trace encode block_size (qp_parse chk) (process_message Sz Hh) (k_init c) ops)) in
  let streams := inbound_evs ops in
  k_dead fin = false ->
  nth (N.to_nat j) streams [] = evs1 ++ more ->
  live evs1 ->
  ev_data evs1 = concat (map codec_encode ms) ++ bad ++ extra ->
  Forall wf_message ms ->
  Forall (size_ok write_message) ms ->
  (forall m : message, In m ms -> exists inc : incoming, process_message Sz Hh m = PmOk inc) ->
  undecodable chk bad \/ closing Sz Hh bad ->
  forallb stream_settled (k_in fin) = true ->
  of_stream j (inbound_outs outs) = yielded Sz Hh ms /\
  (forall k : N,
   k <> j -> of_stream k (inbound_outs outs) = fst (stream_out Sz Hh chk (nth (N.to_nat k) streams []))).
Proof. exact (@ConnHandler_proofs2.C16_connhandler_bad_frame_costs_own_stream). Qed.

Theorem connhandler_inbound_is_conn_run :
  forall (encode : message -> bytes) (block_size : blk -> N) (Sz : N) (Hh : hash_fn) 
    (chk : bool) (c : conn) (ops : list kop),
  let fin := fst (krun_trace encode block_size (qp_parse chk) (process_message Sz Hh) (k_init c) ops) in
  let outs :=
    concat (snd (krun_trace encode block_size (qp_parse chk) (process_message Sz Hh) (k_init c) ops)) in
  k_dead fin = false ->
  exists schedule : list N,
    conn_run_full Sz Hh chk (inbound_evs ops) schedule = (inbound_outs outs, (COk, map ki_st (k_in fin))).
Proof. exact (@ConnHandler_proofs2.connhandler_inbound_is_conn_run). Qed.

Print Assumptions connhandler_inbound_is_stream_out.
Print Assumptions C16_connhandler_bad_frame_costs_own_stream.
Print Assumptions connhandler_inbound_is_conn_run.
