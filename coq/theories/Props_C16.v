(* Props_C16.v — C16: one bad message costs only its own stream (message-level part; the stream-level
   statements — earlier messages stay applied, streams are independent — are about Framed.v and are
   added in Props_C16 once the FramedRead model is integrated). *)
From BS Require Import Bytes Varint Cid Prefix Hasher Proto Incoming Incoming_proofs Prefix_proofs.
Open Scope N_scope.

(* an invalid CID in a block presence closes the stream *)
Theorem C16_bad_presence_closes : forall S H m pre p post,
  m_presences m = pre ++ p :: post -> cid_read_bytes S (bp_cid p) = RErr ->
  Forall (fun x => exists c, cid_read_bytes S (bp_cid x) = Cid.ROk c) pre ->
  process_message S H m = PmClose.
Proof. exact process_bad_presence. Qed.

(* an unparsable prefix or a fatal hasher error (CustomFatal, InvalidMultihashSize) closes the stream *)
Theorem C16_fatal_block_closes : forall S H m pre b post,
  Forall (fun x => exists c, cid_read_bytes S (bp_cid x) = Cid.ROk c) (m_presences m) ->
  m_payload m = pre ++ b :: post -> classify S H b = BFatal ->
  Forall (fun x => classify S H x <> BPanic /\ classify S H x <> BFatal) pre ->
  process_message S H m = PmClose.
Proof. exact process_fatal_block. Qed.

(* unknown code / non-fatal hasher error: only that block is skipped, every other block, presence and
   the wantlist are applied exactly as if the block had not been in the message *)
Theorem C16_good_elements_survive : forall S H m,
  process_message S H (without_skippable S H m) = process_message S H m.
Proof. exact good_elements_survive. Qed.

(* a message with a wantlist and blocks yields both parts *)
Theorem C16_both_parts : forall S H m w pres blocks,
  m_wantlist m = Some w -> (w_full w = true \/ w_entries w <> []) ->
  pm_presences S (m_presences m) [] = inl (Some pres) ->
  pm_payload S H (m_payload m) [] false = inl (Some (blocks, true)) ->
  process_message S H m = PmOk (MkIncoming (Some (MkClientMsg pres blocks)) (Some w)).
Proof. exact both_parts. Qed.

Theorem C16_server_part_independent : forall S H m inc,
  process_message S H m = PmOk inc ->
  in_server inc = match m_wantlist m with
                  | Some w => if w_full w || negb (match w_entries w with [] => true | _ => false end) then Some w else None
                  | None => None
                  end.
Proof. exact server_part_independent. Qed.

(* processing never panics (capacity at least 32, table answering sha2-256 requests with sha2-256) *)
Theorem C16_process_message_total : forall S H m, 32 <= S -> sha_respecting H -> process_message S H m <> PmPanic.
Proof. exact process_message_no_panic. Qed.

Check C16_good_elements_survive : forall S H m,
  process_message S H (without_skippable S H m) = process_message S H m.

(* non-vacuity: a message with one skippable and one accepted block and a wantlist *)
Definition ex_H : hash_fn := fun code _ => if code =? 18 then HOk (MkMh 18 (repeat 9 32)) else HErr UnknownMultihashCode.
Definition ex_msg : message :=
  MkMessage (Some (MkWantlist [] true)) [MkBlock [1; 85; 99; 4] [1]; MkBlock [1; 85; 18; 32] [2]] [] 0.
Example ex_skip_and_accept :
  process_message 64 ex_H ex_msg =
  PmOk (MkIncoming (Some (MkClientMsg [] [(MkCid V1 85 (MkMh 18 (repeat 9 32)), [2])])) (Some (MkWantlist [] true))).
Proof. vm_compute. reflexivity. Qed.
Example ex_classify : classify 64 ex_H (MkBlock [1; 85; 99; 4] [1]) = BSkip /\ classify 64 ex_H (MkBlock [0; 85] [1]) = BFatal.
Proof. split; vm_compute; reflexivity. Qed.

Print Assumptions C16_bad_presence_closes.
Print Assumptions C16_fatal_block_closes.
Print Assumptions C16_good_elements_survive.
Print Assumptions C16_both_parts.
Print Assumptions C16_server_part_independent.
Print Assumptions C16_process_message_total.
