(* Tie_consts.v — numeric constants of /repo (regenerated into Extracted.v on every run) = Types.v *)
From BS Require Import Bytes Types Extracted.

Lemma tie_max_wantlist_entries : Extracted.max_wantlist_entries_per_peer = MAX_WANTLIST_ENTRIES_PER_PEER.  Proof. reflexivity. Qed.
Lemma tie_send_full_interval : Extracted.send_full_interval = SEND_FULL_INTERVAL.  Proof. reflexivity. Qed.
Lemma tie_receive_request_timeout : Extracted.receive_request_timeout = RECEIVE_REQUEST_TIMEOUT.  Proof. reflexivity. Qed.
Lemma tie_start_sending_timeout : Extracted.start_sending_timeout = START_SENDING_TIMEOUT.  Proof. reflexivity. Qed.
Lemma tie_default_send_dont_have : Extracted.default_send_dont_have = true.  Proof. reflexivity. Qed.
Lemma tie_peer_initial_send_full : Extracted.peer_initial_send_full = true.  Proof. reflexivity. Qed.
