(* Wantlist_proofs2.v — C04: the ghost folds against the request map. *)
From BS Require Import Types Wantlist Wantlist_proofs.
From Coq Require Import ZArith ZifyBool ZifyN ZifyNat Lia Permutation.
Open Scope N_scope.

(* The proof device: how the request map of a reachable state is related to the REFINED folds. *)
Record Inv (st : wl * wls) (g : ghost) : Prop := MkInv {
  inv_ndw : NoDup (wl_cids (fst st));
  inv_ndr : NoDup (map fst (req (snd st)));
  inv_told : forall c, rget c (snd st) <> None <-> In c (g_told g);
  inv_dh : forall c, rget c (snd st) = Some GotDontHave <-> In c (g_dont_have g);
  inv_got : forall c, rget c (snd st) = Some GotBlock <-> In c (g_got g);
  inv_gb : forall c, rget c (snd st) = Some GotBlock -> ~ In c (wl_cids (fst st)) /\ ~ In c (g_view g);
  inv_sent : forall c, rget c (snd st) = Some SentWantHave \/ rget c (snd st) = Some SentWantBlock ->
                       In c (g_view g) \/ In c (g_delivered g);
  inv_view : forall c, In c (g_view g) -> In c (g_told g);
  inv_rev : synced_rev (snd st) <= wl_rev (fst st);
  inv_sync : synced_rev (snd st) = wl_rev (fst st) ->
             forall c, rget c (snd st) <> None <-> In c (wl_cids (fst st));
  inv_force : force_update (snd st) = false -> forall c, rget c (snd st) <> Some GotHave
}.

Definition item (st : wl * wls) (e : hev) : titem := MkTi e (wl_cids (fst st)) (snd (hstep st e)).

Lemma Inv_init sdh : Inv (hinit sdh) ghost0.
Proof.
  constructor; cbn.
  - constructor.
  - constructor.
  - intros c. split; [intros H; exfalso; apply H; reflexivity | intros []].
  - intros c. split; [discriminate | intros []].
  - intros c. split; [discriminate | intros []].
  - intros c H; discriminate.
  - intros c [H | H]; discriminate.
  - intros c [].
  - lia.
  - intros _ c. split; [intros H; exfalso; apply H; reflexivity | intros []].
  - intros _ c; discriminate.
Qed.

Lemma wl_remove_spec w c :
  (cid_mem c (wl_cids w) = true /\ wl_remove w c = (MkWl (cid_remove c (wl_cids w)) (wl_rev w + 1) (wl_sdh w), true)) \/
  (cid_mem c (wl_cids w) = false /\ wl_remove w c = (w, false)).
Proof. unfold wl_remove. destruct (cid_mem c (wl_cids w)); [left | right]; split; reflexivity. Qed.

Lemma wl_insert_spec w c :
  (cid_mem c (wl_cids w) = false /\ wl_insert w c = (MkWl (wl_cids w ++ [c]) (wl_rev w + 1) (wl_sdh w), true)) \/
  (cid_mem c (wl_cids w) = true /\ wl_insert w c = (w, false)).
Proof. unfold wl_insert. destruct (cid_mem c (wl_cids w)); [right | left]; split; reflexivity. Qed.

Lemma Inv_remove w s g c : Inv (w, s) g -> Inv (fst (hstep (w, s) (HRemove c))) (gstep true g (item (w, s) (HRemove c))).
Proof.
  intros [Hndw Hndr Htold Hdh Hgot Hgb Hsent Hview Hrev Hsync Hforce]. cbn [fst snd] in *.
  unfold item, gstep; cbn [ti_ev hstep fst snd].
  destruct (wl_remove_spec w c) as [[M ->] | [M ->]]; cbn [fst snd wl_cids wl_rev].
  - constructor; cbn [fst snd wl_cids wl_rev]; auto.
    + apply cid_remove_NoDup; assumption.
    + intros c' H. destruct (Hgb c' H) as [H1 H2]. split; [|assumption]. rewrite cid_remove_In. tauto.
    + lia.
    + intros E. lia.
  - constructor; cbn [fst snd]; auto.
Qed.

Ltac inst_all x :=
  repeat match goal with
         | H : forall c : cid, _ |- _ => specialize (H x)
         end.

Ltac set_simpl :=
  rewrite ?cid_remove_In, ?cset_add_In, ?cset_inter_In in *.

Lemma told_mem s g c : (forall c, rget c s <> None <-> In c (g_told g)) ->
  cid_mem c (g_told g) = match rget c s with Some _ => true | None => false end.
Proof.
  intros H. destruct (rget c s) eqn:E.
  - apply cid_mem_In, H. congruence.
  - apply cid_mem_false. intros Hin. apply H in Hin. congruence.
Qed.

Lemma Inv_have w s g c : Inv (w, s) g -> Inv (fst (hstep (w, s) (HHave c))) (gstep true g (item (w, s) (HHave c))).
Proof.
  intros [Hndw Hndr Htold Hdh Hgot Hgb Hsent Hview Hrev Hsync Hforce]. cbn [fst snd] in *.
  unfold item, gstep; cbn [ti_ev hstep fst snd].
  rewrite (told_mem s g c Htold).
  constructor; cbn [fst snd]; auto.
  - apply got_have_NoDup; assumption.
  - intros c'. rewrite rget_got_have. inst_all c'.
    destruct (rget c s) eqn:Ec; cbn [g_told]; destruct (cid_eqb c c'); destruct (rget c' s); cbn in *; intuition congruence.
  - intros c'. rewrite rget_got_have. cid_cases c c'.
    + inst_all c'. destruct (rget c' s) as [[]|]; cbn [g_dont_have option_map]; set_simpl; intuition congruence.
    + inst_all c'. destruct (rget c s); cbn [g_dont_have]; set_simpl; intuition congruence.
  - intros c'. rewrite rget_got_have. cid_cases c c'.
    + inst_all c'. destruct (rget c' s) as [[]|]; cbn [g_got option_map]; set_simpl; intuition congruence.
    + inst_all c'. destruct (rget c s); cbn [g_got]; set_simpl; intuition congruence.
  - intros c'. rewrite rget_got_have. cid_cases c c'.
    + destruct (rget c' s); cbn; discriminate.
    + inst_all c'. destruct (rget c s); cbn [g_view]; intuition congruence.
  - intros c'. rewrite rget_got_have. cid_cases c c'.
    + destruct (rget c' s); cbn; intros [H | H]; discriminate.
    + inst_all c'. destruct (rget c s); cbn [g_view g_delivered]; intuition congruence.
  - intros c'. inst_all c'. destruct (rget c s); cbn [g_view g_told]; assumption.
  - intros E c'. rewrite rget_got_have. specialize (Hsync E c'). destruct (cid_eqb c c'); [|assumption].
    destruct (rget c' s); cbn in *; intuition congruence.
  - cbn. discriminate.
Qed.

Lemma Inv_dont_have w s g c : Inv (w, s) g -> Inv (fst (hstep (w, s) (HDontHave c))) (gstep true g (item (w, s) (HDontHave c))).
Proof.
  intros [Hndw Hndr Htold Hdh Hgot Hgb Hsent Hview Hrev Hsync Hforce]. cbn [fst snd] in *.
  unfold item, gstep; cbn [ti_ev hstep fst snd].
  rewrite (told_mem s g c Htold).
  constructor; cbn [fst snd]; auto.
  - apply got_dont_have_NoDup; assumption.
  - intros c'. rewrite rget_got_dont_have. inst_all c'.
    destruct (rget c s) eqn:Ec; cbn [g_told]; destruct (cid_eqb c c'); destruct (rget c' s); cbn in *; intuition congruence.
  - intros c'. rewrite rget_got_dont_have. cid_cases c c'.
    + inst_all c'. destruct (rget c' s) as [[]|]; cbn [g_dont_have option_map]; set_simpl; intuition congruence.
    + inst_all c'. destruct (rget c s); cbn [g_dont_have]; set_simpl; intuition congruence.
  - intros c'. rewrite rget_got_dont_have. cid_cases c c'.
    + inst_all c'. destruct (rget c' s) as [[]|]; cbn [g_got option_map]; set_simpl; intuition congruence.
    + inst_all c'. destruct (rget c s); cbn [g_got]; set_simpl; intuition congruence.
  - intros c'. rewrite rget_got_dont_have. cid_cases c c'.
    + destruct (rget c' s); cbn; discriminate.
    + inst_all c'. destruct (rget c s); cbn [g_view]; intuition congruence.
  - intros c'. rewrite rget_got_dont_have. cid_cases c c'.
    + destruct (rget c' s); cbn; intros [H | H]; discriminate.
    + inst_all c'. destruct (rget c s); cbn [g_view g_delivered]; intuition congruence.
  - intros c'. inst_all c'. destruct (rget c s); cbn [g_view g_told]; assumption.
  - intros E c'. rewrite rget_got_dont_have. specialize (Hsync E c'). destruct (cid_eqb c c'); [|assumption].
    destruct (rget c' s); cbn in *; intuition congruence.
  - intros E c'. rewrite rget_got_dont_have. specialize (Hforce E c'). destruct (cid_eqb c c'); [|assumption].
    destruct (rget c' s); cbn; discriminate.
Qed.

Lemma Inv_block w s g c : Inv (w, s) g -> Inv (fst (hstep (w, s) (HBlock c))) (gstep true g (item (w, s) (HBlock c))).
Proof.
  intros [Hndw Hndr Htold Hdh Hgot Hgb Hsent Hview Hrev Hsync Hforce]. cbn [fst snd] in *.
  unfold item, gstep; cbn [ti_ev ti_w hstep fst snd].
  rewrite (told_mem s g c Htold).
  destruct (wl_remove_spec w c) as [[M ->] | [M ->]]; rewrite M; cbn [fst snd andb].
  - (* accepted *)
    constructor; cbn [fst snd wl_cids wl_rev g_view g_told g_dont_have g_delivered g_got]; auto.
    + apply cid_remove_NoDup; assumption.
    + apply got_block_NoDup; assumption.
    + intros c'. rewrite rget_got_block. inst_all c'.
      destruct (cid_eqb c c'); destruct (rget c' s); cbn in *; intuition congruence.
    + intros c'. rewrite rget_got_block. cid_cases c c'.
      * inst_all c'. destruct (rget c' s) as [[]|]; cbn [option_map]; set_simpl; intuition congruence.
      * inst_all c'. set_simpl; intuition congruence.
    + intros c'. rewrite rget_got_block. cid_cases c c'.
      * inst_all c'. destruct (rget c' s) as [[]|]; cbn [option_map]; set_simpl; intuition congruence.
      * inst_all c'. destruct (rget c s); set_simpl; intuition congruence.
    + intros c'. rewrite rget_got_block. cid_cases c c'.
      * intros _. set_simpl. tauto.
      * inst_all c'. set_simpl. intuition congruence.
    + intros c'. rewrite rget_got_block. cid_cases c c'.
      * destruct (rget c' s); cbn; intros [H | H]; discriminate.
      * inst_all c'. set_simpl. intuition congruence.
    + intros c'. inst_all c'. set_simpl. tauto.
    + unfold wls_got_block; cbn [synced_rev]. lia.
    + unfold wls_got_block; cbn [synced_rev]. intros E0. lia.
    + intros E0 c'. rewrite rget_got_block. specialize (Hforce E0 c'). destruct (cid_eqb c c'); [|assumption].
      destruct (rget c' s); cbn; discriminate.
  - (* not wanted: only the view and delivered change *)
    constructor; cbn [fst snd g_view g_told g_dont_have g_delivered g_got]; auto.
    + intros c' H. destruct (Hgb c' H). set_simpl. tauto.
    + intros c' H. specialize (Hsent c' H). set_simpl. destruct (cid_eq_dec c' c); tauto.
    + intros c'. inst_all c'. set_simpl. tauto.
Qed.

Lemma got_mem s g c : (forall c, rget c s = Some GotBlock <-> In c (g_got g)) ->
  cid_mem c (g_got g) = match rget c s with Some GotBlock => true | _ => false end.
Proof.
  intros H. destruct (cid_mem c (g_got g)) eqn:M.
  - apply cid_mem_In, H in M. rewrite M. reflexivity.
  - apply cid_mem_false in M. destruct (rget c s) as [[]|] eqn:E; try reflexivity. exfalso. apply M, H. exact E.
Qed.

Lemma in_snoc {A} (x a : A) l : In x (l ++ [a]) <-> In x l \/ x = a.
Proof. rewrite in_app_iff. cbn. intuition congruence. Qed.

Lemma Inv_insert w s g c : Inv (w, s) g -> Inv (fst (hstep (w, s) (HInsert c))) (gstep true g (item (w, s) (HInsert c))).
Proof.
  intros [Hndw Hndr Htold Hdh Hgot Hgb Hsent Hview Hrev Hsync Hforce]. cbn [fst snd] in *.
  unfold item, gstep; cbn [ti_ev ti_w hstep fst snd].
  rewrite (got_mem s g c Hgot).
  destruct (wl_insert_spec w c) as [[M ->] | [M ->]]; rewrite M; cbn [fst snd andb negb].
  - (* inserted *)
    assert (Hnin : ~ In c (wl_cids w)) by (apply cid_mem_false; assumption).
    destruct (wanted_again_flags s c) as [Ef Es].
    destruct (rget c s) as [[]|] eqn:Ec.
    5: { (* the peer had delivered the block: the entry is dropped, c leaves told *)
      constructor; cbn [fst snd wl_cids wl_rev g_view g_told g_dont_have g_delivered g_got]; auto.
      + apply NoDup_snoc; assumption.
      + apply wanted_again_NoDup; assumption.
      + intros c'. rewrite rget_wanted_again, Ec. cid_cases c c'.
        * set_simpl. intuition congruence.
        * inst_all c'. set_simpl. intuition congruence.
      + intros c'. rewrite rget_wanted_again, Ec. cid_cases c c'.
        * inst_all c'. intuition congruence.
        * apply Hdh.
      + intros c'. rewrite rget_wanted_again, Ec. cid_cases c c'.
        * set_simpl. intuition congruence.
        * inst_all c'. set_simpl. intuition congruence.
      + intros c'. rewrite rget_wanted_again, Ec. cid_cases c c'; [discriminate|].
        intros H. destruct (Hgb c' H). rewrite in_snoc. intuition congruence.
      + intros c'. rewrite rget_wanted_again, Ec. cid_cases c c'; [intros [H | H]; discriminate | apply Hsent].
      + intros c' H. set_simpl. split; [apply Hview; assumption|]. intros ->. destruct (Hgb c Ec). contradiction.
      + rewrite Es. lia.
      + rewrite Es. intros E0. lia.
      + rewrite Ef. intros E0 c'. rewrite rget_wanted_again, Ec. specialize (Hforce E0 c').
        destruct (cid_eqb c c'); [discriminate | assumption]. }
    all: (constructor; cbn [fst snd wl_cids wl_rev]; auto;
          [ apply NoDup_snoc; assumption
          | apply wanted_again_NoDup; assumption
          | intros c'; rewrite rget_wanted_again, Ec; apply Htold
          | intros c'; rewrite rget_wanted_again, Ec; apply Hdh
          | intros c'; rewrite rget_wanted_again, Ec; apply Hgot
          | intros c'; rewrite rget_wanted_again, Ec; intros H; destruct (Hgb c' H); rewrite in_snoc;
            split; [|assumption]; intros [H' | ->]; [contradiction | congruence]
          | intros c'; rewrite rget_wanted_again, Ec; apply Hsent
          | rewrite Es; lia
          | rewrite Es; intros E0; lia
          | rewrite Ef; intros E0 c'; rewrite rget_wanted_again, Ec; apply Hforce; assumption ]).
  - (* already wanted: nothing changes *)
    destruct (rget c s) as [[]|]; constructor; cbn [fst snd]; auto.
Qed.

Lemma hstep_full w s :
  hstep (w, s) HGenFull = ((w, snd (wls_generate_full s w)), Some (true, fst (wls_generate_full s w))).
Proof. cbn [hstep]. destruct (wls_generate_full s w); reflexivity. Qed.

Lemma hstep_update w s :
  hstep (w, s) HGenUpdate = ((w, snd (wls_generate_update s w)), Some (false, fst (wls_generate_update s w))).
Proof. cbn [hstep]. destruct (wls_generate_update s w); reflexivity. Qed.

Lemma nxt_not_have st : nxt st <> GotHave.
Proof. destruct st; discriminate. Qed.

Lemma full_entries_wants c st :
  (In (KWantHave, c) (full_entries (c, st)) \/ In (KWantBlock, c) (full_entries (c, st))) <->
  (st = SentWantHave \/ st = GotHave \/ st = SentWantBlock).
Proof. destruct st; cbn; intuition congruence. Qed.

Lemma cid_In_dec (c : cid) l : In c l \/ ~ In c l.
Proof. destruct (cid_mem c l) eqn:M; [left; apply cid_mem_In | right; apply cid_mem_false]; assumption. Qed.

Lemma Inv_full w s g : Inv (w, s) g -> Inv (fst (hstep (w, s) HGenFull)) (gstep true g (item (w, s) HGenFull)).
Proof.
  intros [Hndw Hndr Htold Hdh Hgot Hgb Hsent Hview Hrev Hsync Hforce]. cbn [fst snd] in *.
  unfold item, gstep. rewrite hstep_full. cbn [ti_ev ti_w ti_out fst snd].
  assert (Hw : forall c', In c' (wants (fst (wls_generate_full s w))) <->
                          In c' (wl_cids w) /\ (dflt (rget c' s) = SentWantHave \/ dflt (rget c' s) = GotHave \/ dflt (rget c' s) = SentWantBlock)).
  { intros c'. rewrite wants_In, !gen_full_entries by assumption.
    pose proof (full_entries_wants c' (dflt (rget c' s))). tauto. }
  constructor; cbn [fst snd g_view g_told g_dont_have g_delivered g_got]; auto.
  - apply gen_full_NoDup; assumption.
  - intros c'. rewrite gen_full_rget. destruct (cid_mem c' (wl_cids w)) eqn:M.
    + apply cid_mem_In in M. intuition congruence.
    + apply cid_mem_false in M. intuition congruence.
  - intros c'. rewrite gen_full_rget, cset_inter_In. inst_all c'. destruct (cid_mem c' (wl_cids w)) eqn:M.
    + apply cid_mem_In in M. destruct (rget c' s) as [[]|]; cbn in *; intuition congruence.
    + apply cid_mem_false in M. intuition congruence.
  - intros c'. rewrite gen_full_rget, cset_inter_In. inst_all c'. destruct (cid_mem c' (wl_cids w)) eqn:M.
    + apply cid_mem_In in M. destruct (rget c' s) as [[]|]; cbn in *; intuition congruence.
    + apply cid_mem_false in M. intuition congruence.
  - intros c'. rewrite gen_full_rget. inst_all c'. destruct (cid_mem c' (wl_cids w)) eqn:M; [|discriminate].
    apply cid_mem_In in M. destruct (rget c' s) as [[]|]; cbn in *; intuition congruence.
  - intros c'. rewrite gen_full_rget, Hw. destruct (cid_mem c' (wl_cids w)) eqn:M; [|intros [H | H]; discriminate].
    apply cid_mem_In in M. intros H. left. split; [assumption|].
    destruct (dflt (rget c' s)); cbn in H; intuition congruence.
  - intros c'. rewrite Hw. tauto.
  - intros _ c'. rewrite gen_full_rget. destruct (cid_mem c' (wl_cids w)) eqn:M.
    + apply cid_mem_In in M. intuition congruence.
    + apply cid_mem_false in M. intuition congruence.
  - intros _ c'. rewrite gen_full_rget. destruct (cid_mem c' (wl_cids w)); [|discriminate].
    intros [= H]. eapply nxt_not_have; eassumption.
Qed.

Lemma filter_true {A} (l : list A) : filter (fun _ => true) l = l.
Proof. induction l as [|a l IH]; cbn; [reflexivity | rewrite IH; reflexivity]. Qed.

Lemma upd_entries_cases w c st k :
  In (k, c) (upd_entries w (c, st)) <->
  (In c (wl_cids w) /\ st = GotHave /\ k = KWantBlock) \/
  (~ In c (wl_cids w) /\ st <> GotBlock /\ k = KCancel).
Proof.
  unfold upd_entries; cbn [fst snd]. destruct (cid_mem c (wl_cids w)) eqn:M.
  - apply cid_mem_In in M. destruct st; cbn; intuition congruence.
  - apply cid_mem_false in M. destruct st; cbn; intuition congruence.
Qed.

Lemma Inv_update w s g : Inv (w, s) g -> Inv (fst (hstep (w, s) HGenUpdate)) (gstep true g (item (w, s) HGenUpdate)).
Proof.
  intros [Hndw Hndr Htold Hdh Hgot Hgb Hsent Hview Hrev Hsync Hforce]. cbn [fst snd] in *.
  unfold item, gstep. rewrite hstep_update. cbn [ti_ev ti_w ti_out fst snd].
  rewrite gen_update_unfold. destruct (wls_is_updated s w) eqn:U.
  - (* nothing changed since the last update: early return *)
    unfold wls_is_updated in U. apply andb_true_iff in U. destruct U as [U1 U2].
    apply negb_true_iff in U1. apply N.eqb_eq in U2. specialize (Hsync U2).
    cbn [fst snd fold_left wants filter map cid_mem existsb negb]. rewrite filter_true.
    constructor; cbn [fst snd g_view g_told g_dont_have g_delivered g_got]; auto.
    + intros c'. rewrite cset_inter_In. inst_all c'. intuition congruence.
    + intros c'. rewrite cset_inter_In. inst_all c'. intuition congruence.
    + intros c' H. apply Hsync, Htold, Hview. assumption.
  - (* the body *)
    assert (Hes : forall k c', In (k, c') (fst (upd_body s w)) <->
              (exists st, rget c' s = Some st /\
                 ((In c' (wl_cids w) /\ st = GotHave /\ k = KWantBlock) \/
                  (~ In c' (wl_cids w) /\ st <> GotBlock /\ k = KCancel))) \/
              (k = KWantHave /\ In c' (wl_cids w) /\ rget c' s = None)).
    { intros k c'. rewrite upd_body_entries by assumption. setoid_rewrite upd_entries_cases. reflexivity. }
    assert (Hnd : NoDup (map snd (fst (upd_body s w)))) by (apply upd_body_entries_NoDup; assumption).
    assert (Hw : forall c', In c' (wants (fst (upd_body s w))) <->
                   In c' (wl_cids w) /\ (rget c' s = None \/ rget c' s = Some GotHave)).
    { intros c'. rewrite wants_In, !Hes. split.
      - intros [[(st & E & [(? & ? & ?) | (? & ? & ?)]) | (? & ? & ?)] | [(st & E & [(? & -> & ?) | (? & ? & ?)]) | (? & ? & ?)]];
          try discriminate; auto.
      - intros [Hin [E | E]]; [left; right; auto | right; left; exists GotHave; auto]. }
    cbn [fst snd].
    constructor; cbn [fst snd g_view g_told g_dont_have g_delivered g_got]; auto.
    + apply upd_body_NoDup; assumption.
    + intros c'. rewrite upd_body_rget. destruct (cid_mem c' (wl_cids w)) eqn:M.
      * apply cid_mem_In in M. intuition congruence.
      * apply cid_mem_false in M. intuition congruence.
    + intros c'. rewrite upd_body_rget, cset_inter_In. inst_all c'. destruct (cid_mem c' (wl_cids w)) eqn:M.
      * apply cid_mem_In in M. destruct (rget c' s) as [[]|]; cbn in *; intuition congruence.
      * apply cid_mem_false in M. intuition congruence.
    + intros c'. rewrite upd_body_rget, cset_inter_In. inst_all c'. destruct (cid_mem c' (wl_cids w)) eqn:M.
      * apply cid_mem_In in M. destruct (rget c' s) as [[]|]; cbn in *; intuition congruence.
      * apply cid_mem_false in M. intuition congruence.
    + intros c'. rewrite upd_body_rget. inst_all c'. destruct (cid_mem c' (wl_cids w)) eqn:M; [|discriminate].
      apply cid_mem_In in M. destruct (rget c' s) as [[]|]; cbn in *; intuition congruence.
    + intros c'. rewrite upd_body_rget. rewrite view_fold_In by assumption. rewrite filter_In, negb_true_iff, cid_mem_false.
      rewrite Hw. destruct (cid_mem c' (wl_cids w)) eqn:M; [|intros [H | H]; discriminate].
      apply cid_mem_In in M. intros H.
      destruct (rget c' s) as [st|] eqn:Ec; [|left; left; auto].
      destruct st; cbn in H; try (destruct H; discriminate).
      * (* SentWantHave *)
        destruct (Hsent c' (or_introl Ec)) as [Hv | Hd].
        -- left. right. split; [assumption|]. rewrite Hes. intros [(st & E & [(? & ? & ?) | (? & ? & ?)]) | (? & ? & ?)]; try discriminate; contradiction.
        -- right. split; [assumption|]. intros [_ [E | E]]; discriminate.
      * (* GotHave *) left; left; auto.
      * (* SentWantBlock *)
        destruct (Hsent c' (or_intror Ec)) as [Hv | Hd].
        -- left. right. split; [assumption|]. rewrite Hes. intros [(st & E & [(? & ? & ?) | (? & ? & ?)]) | (? & ? & ?)]; try discriminate; contradiction.
        -- right. split; [assumption|]. intros [_ [E | E]]; discriminate.
    + intros c'. rewrite view_fold_In by assumption. rewrite Hw. intros [[H _] | [Hv Hnc]]; [assumption|].
      destruct (cid_In_dec c' (wl_cids w)) as [Hin | Hnin]; [assumption|]. exfalso.
      pose proof (Hview c' Hv) as Ht. apply Htold in Ht. destruct (rget c' s) as [st|] eqn:Ec; [|congruence].
      assert (Hst : st = GotBlock).
      { destruct st; try reflexivity; exfalso; apply Hnc; apply Hes; left; eexists; (split; [exact Ec|]);
          right; repeat split; auto; discriminate. }
      subst st. destruct (Hgb c' Ec) as [_ Hgbv]. contradiction.
    + unfold upd_body; cbn [snd synced_rev]. lia.
    + intros _ c'. rewrite upd_body_rget. destruct (cid_mem c' (wl_cids w)) eqn:M.
      * apply cid_mem_In in M. intuition congruence.
      * apply cid_mem_false in M. intuition congruence.
    + intros _ c'. rewrite upd_body_rget. destruct (cid_mem c' (wl_cids w)); [|discriminate].
      intros [= H]. eapply nxt_not_have; eassumption.
Qed.

Lemma Inv_step st g e : Inv st g -> Inv (fst (hstep st e)) (gstep true g (item st e)).
Proof.
  destruct st as [w s]. destruct e as [c|c|c|c|c| |].
  - apply Inv_insert. - apply Inv_remove. - apply Inv_have. - apply Inv_dont_have.
  - apply Inv_block. - apply Inv_update. - apply Inv_full.
Qed.

Lemma Inv_run h : forall st g, Inv st g -> Inv (hrun_from st h) (fold_left (gstep true) (htrace st h) g).
Proof.
  induction h as [|e h IH]; intros st g H; cbn [hrun_from htrace fold_left]; [assumption|].
  apply IH. apply (Inv_step st g e H).
Qed.

Lemma Inv_reach sdh h : Inv (hrun_from (hinit sdh) h) (ghost_of true (htrace (hinit sdh) h)).
Proof. apply Inv_run, Inv_init. Qed.

(* ---------- literal folds versus refined folds ---------- *)
Definition lit_ref (gl gr : ghost) : Prop :=
  g_view gl = g_view gr /\ g_delivered gl = g_delivered gr /\
  (forall c, In c (g_told gr) -> In c (g_told gl)) /\
  (forall c, In c (g_dont_have gr) -> In c (g_dont_have gl)).

Lemma lit_ref_step st gl gr e :
  Inv st gr -> lit_ref gl gr -> lit_ref (gstep false gl (item st e)) (gstep true gr (item st e)).
Proof.
  intros HI (Hv & Hd & Ht & Hdh). destruct st as [w s].
  assert (Hdt : forall c, In c (g_dont_have gr) -> In c (g_told gr)).
  { intros c H. apply (inv_told _ _ HI). apply (inv_dh _ _ HI) in H. cbn [snd] in *. congruence. }
  unfold item, gstep. cbn [ti_ev ti_w ti_out andb].
  destruct e as [c|c|c|c|c| |].
  - destruct (negb (cid_mem c (wl_cids (fst (w, s)))) && cid_mem c (g_got gr)).
    + repeat split; cbn [g_view g_delivered g_told g_dont_have]; auto.
      intros c' H. apply cid_remove_In in H. apply Ht, H.
    + repeat split; auto.
  - repeat split; auto.
  - destruct (cid_mem c (g_told gl)) eqn:Ml, (cid_mem c (g_told gr)) eqn:Mr;
      repeat split; cbn [g_view g_delivered g_told g_dont_have]; auto.
    + intros c' H. apply cid_remove_In in H. apply cid_remove_In. split; [apply Hdh|]; apply H.
    + intros c' H. apply cid_remove_In. split; [apply Hdh, H|]. intros ->.
      apply Hdt in H. apply cid_mem_In in H. congruence.
    + apply cid_mem_In in Mr. apply Ht, cid_mem_In in Mr. congruence.
  - destruct (cid_mem c (g_told gl)) eqn:Ml, (cid_mem c (g_told gr)) eqn:Mr;
      repeat split; cbn [g_view g_delivered g_told g_dont_have]; auto.
    + intros c' H. apply cset_add_In in H. apply cset_add_In. destruct H; auto.
    + intros c' H. apply cset_add_In. auto.
    + apply cid_mem_In in Mr. apply Ht, cid_mem_In in Mr. congruence.
  - repeat split; cbn [g_view g_delivered g_told g_dont_have]; auto; try congruence.
    destruct (cid_mem c (wl_cids (fst (w, s)))); [|assumption].
    intros c' H. apply cid_remove_In in H. apply cid_remove_In. split; [apply Hdh|]; apply H.
  - destruct (snd (hstep (w, s) HGenUpdate)) as [[full es]|]; [|repeat split; auto].
    repeat split; cbn [g_view g_delivered g_told g_dont_have]; auto; try congruence; try (rewrite Hv; reflexivity).
    intros c' H. apply cset_inter_In in H. apply cset_inter_In. split; [apply Hdh|]; apply H.
  - destruct (snd (hstep (w, s) HGenFull)) as [[full es]|]; [|repeat split; auto].
    repeat split; cbn [g_view g_delivered g_told g_dont_have]; auto; try congruence; try (rewrite Hv; reflexivity).
    intros c' H. apply cset_inter_In in H. apply cset_inter_In. split; [apply Hdh|]; apply H.
Qed.

Lemma lit_ref_run h : forall st gl gr,
  Inv st gr -> lit_ref gl gr ->
  lit_ref (fold_left (gstep false) (htrace st h) gl) (fold_left (gstep true) (htrace st h) gr).
Proof.
  induction h as [|e h IH]; intros st gl gr HI HR; cbn [htrace fold_left]; [assumption|].
  apply IH; [apply (Inv_step st gr e HI) | apply (lit_ref_step st gl gr e HI HR)].
Qed.

Lemma lit_ref_reach sdh h :
  lit_ref (ghost_of false (htrace (hinit sdh) h)) (ghost_of true (htrace (hinit sdh) h)).
Proof. apply lit_ref_run; [apply Inv_init | repeat split; auto]. Qed.

(* =====================  C04  ===================== *)
Definition st_of (sdh : bool) (h : list hev) : wl * wls := hrun_from (hinit sdh) h.
Definition lit_ghost (sdh : bool) (h : list hev) : ghost := ghost_of false (htrace (hinit sdh) h).
Definition ref_ghost (sdh : bool) (h : list hev) : ghost := ghost_of true (htrace (hinit sdh) h).

(* "nothing further to send": the update generated now would be empty *)
Definition nothing_to_send (st : wl * wls) : Prop := fst (wls_generate_update (snd st) (fst st)) = [].

Lemma full_entries_in_iff s w c :
  NoDup (wl_cids w) -> NoDup (map fst (req s)) ->
  (In c (map snd (fst (wls_generate_full s w))) <->
   In c (wl_cids w) /\ rget c s <> Some GotDontHave /\ rget c s <> Some GotBlock).
Proof.
  intros Hw Hr. rewrite in_map_iff. split.
  - intros ([k c'] & <- & H). cbn [snd]. apply gen_full_entries in H; [|assumption|assumption].
    destruct H as [Hin H]. split; [assumption|]. destruct (rget c' s) as [[]|]; cbn in H; try contradiction; split; discriminate.
  - intros (Hin & H1 & H2).
    destruct (rget c s) as [[]|] eqn:E; try congruence.
    + exists (KWantHave, c). split; [reflexivity|]. apply gen_full_entries; auto. rewrite E. split; [assumption | left; reflexivity].
    + exists (KWantBlock, c). split; [reflexivity|]. apply gen_full_entries; auto. rewrite E. split; [assumption | left; reflexivity].
    + exists (KWantBlock, c). split; [reflexivity|]. apply gen_full_entries; auto. rewrite E. split; [assumption | left; reflexivity].
    + exists (KWantHave, c). split; [reflexivity|]. apply gen_full_entries; auto. rewrite E. split; [assumption | left; reflexivity].
Qed.

Lemma full_entries_no_cancel s w k c :
  NoDup (wl_cids w) -> NoDup (map fst (req s)) -> In (k, c) (fst (wls_generate_full s w)) -> k <> KCancel.
Proof.
  intros Hw Hr H. apply gen_full_entries in H; [|assumption|assumption]. destruct H as [_ H].
  destruct (dflt (rget c s)); cbn in H; try contradiction; destruct H as [[= <-] | []]; discriminate.
Qed.

(* C04_full_exact, strongest true variant: with the refined notion of "solicited" (see Wantlist.v) *)
Theorem C04_full_exact_partial sdh h :
  let st := st_of sdh h in
  let es := fst (wls_generate_full (snd st) (fst st)) in
  NoDup (map snd es) /\ (forall k c, In (k, c) es -> k <> KCancel) /\
  forall c, In c (map snd es) <-> In c (wl_cids (fst st)) /\ ~ In c (g_dont_have (ref_ghost sdh h)).
Proof.
  intros st es. pose proof (Inv_reach sdh h) as HI. fold (st_of sdh h) in HI. fold st in HI. fold (ref_ghost sdh h) in HI.
  destruct HI as [Hndw Hndr Htold Hdh Hgot Hgb Hsent Hview Hrev Hsync Hforce].
  split; [apply gen_full_entries_NoDup; assumption|]. split; [intros k c; apply full_entries_no_cancel; assumption|].
  intros c. subst es. rewrite full_entries_in_iff by assumption. rewrite <- Hdh. split.
  - tauto.
  - intros [Hin Hn]. repeat split; auto. intros E. apply Hgb in E. tauto.
Qed.

(* with the folds exactly as the property is written the statement is false *)
Theorem C04_full_exact_refuted :
  exists sdh h c,
    let st := st_of sdh h in
    In c (map snd (fst (wls_generate_full (snd st) (fst st)))) /\ In c (g_dont_have (lit_ghost sdh h)).
Proof.
  exists true, [HInsert ex_c1; HGenUpdate; HBlock ex_c1; HInsert ex_c1; HDontHave ex_c1], ex_c1.
  vm_compute. split; left; reflexivity.
Qed.

Lemma view_sound_ref st g c :
  Inv st g -> nothing_to_send st -> In c (g_view g) -> In c (wl_cids (fst st)).
Proof.
  destruct st as [w s]. intros [Hndw Hndr Htold Hdh Hgot Hgb Hsent Hview Hrev Hsync Hforce] Hn Hv.
  unfold nothing_to_send in Hn. cbn [fst snd] in *. rewrite gen_update_unfold in Hn.
  pose proof (Hview c Hv) as Ht. apply Htold in Ht.
  destruct (wls_is_updated s w) eqn:U.
  - unfold wls_is_updated in U. apply andb_true_iff in U. destruct U as [U1 U2].
    apply N.eqb_eq in U2. apply (Hsync U2). assumption.
  - destruct (cid_In_dec c (wl_cids w)) as [Hin | Hnin]; [assumption|]. exfalso.
    destruct (rget c s) as [st|] eqn:E; [|congruence].
    assert (Hst : st = GotBlock).
    { destruct st; try reflexivity; exfalso;
        assert (Hc : In (KCancel, c) (fst (upd_body s w)))
          by (apply upd_body_entries; [assumption|]; left; eexists; split; [exact E|];
              apply upd_entries_cases; right; repeat split; auto; discriminate);
        rewrite Hn in Hc; destruct Hc. }
    subst st. apply Hgb in E. tauto.
Qed.

Lemma view_complete_ref st g c :
  Inv st g -> nothing_to_send st -> In c (wl_cids (fst st)) ->
  In c (g_view g) \/ In c (g_dont_have g) \/ In c (g_delivered g).
Proof.
  destruct st as [w s]. intros [Hndw Hndr Htold Hdh Hgot Hgb Hsent Hview Hrev Hsync Hforce] Hn Hin.
  unfold nothing_to_send in Hn. cbn [fst snd] in *. rewrite gen_update_unfold in Hn.
  assert (Hst : exists st, rget c s = Some st /\ st <> GotHave).
  { destruct (wls_is_updated s w) eqn:U.
    - unfold wls_is_updated in U. apply andb_true_iff in U. destruct U as [U1 U2].
      apply negb_true_iff in U1. apply N.eqb_eq in U2.
      apply (Hsync U2) in Hin. destruct (rget c s) as [st|] eqn:E; [|congruence].
      exists st. split; [reflexivity|]. intros ->. apply (Hforce U1 c). assumption.
    - destruct (rget c s) as [st|] eqn:E.
      + exists st. split; [reflexivity|]. intros ->.
        assert (Hc : In (KWantBlock, c) (fst (upd_body s w)))
          by (apply upd_body_entries; [assumption|]; left; eexists; split; [exact E|];
              apply upd_entries_cases; left; repeat split; auto).
        rewrite Hn in Hc; destruct Hc.
      + exfalso. assert (Hc : In (KWantHave, c) (fst (upd_body s w)))
          by (apply upd_body_entries; [assumption|]; right; repeat split; auto).
        rewrite Hn in Hc; destruct Hc. }
  destruct Hst as (st & E & Hne). destruct st.
  - destruct (Hsent c (or_introl E)); auto.
  - congruence.
  - right; left. apply Hdh. assumption.
  - destruct (Hsent c (or_intror E)); auto.
  - apply Hgb in E. tauto.
Qed.

(* C04_view_sound / C04_view_complete: full strength, with the folds exactly as written *)
Theorem C04_view_sound sdh h c :
  nothing_to_send (st_of sdh h) ->
  In c (g_view (lit_ghost sdh h)) -> In c (wl_cids (fst (st_of sdh h))).
Proof.
  intros Hn Hv. destruct (lit_ref_reach sdh h) as (E & _). fold (lit_ghost sdh h) in E. rewrite E in Hv.
  eapply view_sound_ref; [apply Inv_reach | exact Hn | exact Hv].
Qed.

Theorem C04_view_complete sdh h c :
  nothing_to_send (st_of sdh h) ->
  In c (wl_cids (fst (st_of sdh h))) ->
  In c (g_view (lit_ghost sdh h)) \/ In c (g_dont_have (lit_ghost sdh h)) \/ In c (g_delivered (lit_ghost sdh h)).
Proof.
  intros Hn Hin. destruct (lit_ref_reach sdh h) as (Ev & Ed & _ & Hdh).
  fold (lit_ghost sdh h) in *. fold (ref_ghost sdh h) in *.
  destruct (view_complete_ref _ _ c (Inv_reach sdh h) Hn Hin) as [H | [H | H]].
  - left. rewrite Ev. exact H.
  - right; left. apply Hdh. exact H.
  - right; right. rewrite Ed. exact H.
Qed.

(* the same two for the refined folds *)
Theorem C04_view_sound_refined sdh h c :
  nothing_to_send (st_of sdh h) ->
  In c (g_view (ref_ghost sdh h)) -> In c (wl_cids (fst (st_of sdh h))).
Proof. intros Hn Hv. eapply view_sound_ref; [apply Inv_reach | exact Hn | exact Hv]. Qed.

Theorem C04_view_complete_refined sdh h c :
  nothing_to_send (st_of sdh h) ->
  In c (wl_cids (fst (st_of sdh h))) ->
  In c (g_view (ref_ghost sdh h)) \/ In c (g_dont_have (ref_ghost sdh h)) \/ In c (g_delivered (ref_ghost sdh h)).
Proof. intros Hn Hin. exact (view_complete_ref _ _ c (Inv_reach sdh h) Hn Hin). Qed.

Lemma ghost_of_snoc r sdh h e :
  ghost_of r (htrace (hinit sdh) (h ++ [e])) = gstep r (ghost_of r (htrace (hinit sdh) h)) (item (st_of sdh h) e).
Proof. unfold ghost_of. rewrite htrace_app, fold_left_app. reflexivity. Qed.

Lemma st_of_snoc sdh h e : st_of sdh (h ++ [e]) = fst (hstep (st_of sdh h) e).
Proof. unfold st_of. rewrite hrun_from_app. reflexivity. Qed.

Lemma wants_no_cancel es c : (forall k c, In (k, c) es -> k <> KCancel) -> (In c (wants es) <-> In c (map snd es)).
Proof.
  intros Hnc. rewrite wants_In, in_map_iff. split.
  - intros [H | H]; eexists; (split; [|exact H]); reflexivity.
  - intros ([k c'] & <- & H). cbn [snd]. pose proof (Hnc _ _ H). destruct k; auto; congruence.
Qed.

(* C04_gap_closes, strongest true variant (refined folds) *)
Theorem C04_gap_closes_partial sdh h c :
  let h' := h ++ [HGenFull] in
  In c (g_view (ref_ghost sdh h')) <->
  In c (wl_cids (fst (st_of sdh h'))) /\ ~ In c (g_dont_have (ref_ghost sdh h')).
Proof.
  intros h'. subst h'. unfold ref_ghost. rewrite ghost_of_snoc, st_of_snoc. fold (ref_ghost sdh h).
  destruct (C04_full_exact_partial sdh h) as (_ & Hnc & Hex).
  destruct (st_of sdh h) as [w s] eqn:Est. cbn [fst snd] in *.
  unfold item, gstep. rewrite hstep_full. cbn [ti_ev ti_w ti_out fst snd g_view g_dont_have wl_cids].
  rewrite (wants_no_cancel _ c Hnc), Hex, cset_inter_In. tauto.
Qed.

Theorem C04_gap_closes_refuted :
  exists sdh h c,
    let h' := h ++ [HGenFull] in
    In c (g_view (lit_ghost sdh h')) /\ In c (g_dont_have (lit_ghost sdh h')).
Proof.
  exists true, [HInsert ex_c1; HGenUpdate; HBlock ex_c1; HInsert ex_c1; HDontHave ex_c1], ex_c1.
  vm_compute. split; left; reflexivity.
Qed.

(* ---------- C04_rewant_announced ---------- *)
Definition after_block_ok (c : cid) (e : hev) : Prop := e <> HDontHave c /\ e <> HInsert c.
Definition after_insert_ok (c : cid) (e : hev) : Prop :=
  e <> HDontHave c /\ e <> HBlock c /\ e <> HRemove c /\ e <> HGenUpdate /\ e <> HGenFull.

Definition delivered_state (c : cid) (st : wl * wls) : Prop :=
  ~ In c (wl_cids (fst st)) /\
  (rget c (snd st) = None \/ rget c (snd st) = Some GotBlock \/ rget c (snd st) = Some GotHave).

Definition rewanted_state (c : cid) (st : wl * wls) : Prop :=
  In c (wl_cids (fst st)) /\ (rget c (snd st) = None \/ rget c (snd st) = Some GotHave).

Lemma delivered_state_step c st e : after_block_ok c e -> delivered_state c st -> delivered_state c (fst (hstep st e)).
Proof.
  destruct st as [w s]. intros [Hdh Hins] [Hnin Hr]. unfold delivered_state in *. cbn [fst snd] in *.
  destruct e as [c0|c0|c0|c0|c0| |].
  - cbn [hstep]. destruct (wl_insert_spec w c0) as [[M ->] | [M ->]]; cbn [fst snd wl_cids]; [|auto].
    assert (c0 <> c) by congruence. split; [rewrite in_snoc; intuition congruence|].
    rewrite rget_wanted_again. destruct (rget c0 s) as [[]|]; auto.
    cid_cases c0 c; [congruence | assumption].
  - cbn [hstep fst snd]. destruct (wl_remove_spec w c0) as [[M ->] | [M ->]]; cbn [fst wl_cids]; [|auto].
    split; [rewrite cid_remove_In; tauto | assumption].
  - cbn [hstep fst snd]. split; [assumption|]. rewrite rget_got_have. cid_cases c0 c; [|assumption].
    destruct Hr as [-> | [-> | ->]]; cbn; auto.
  - cbn [hstep fst snd]. split; [assumption|]. rewrite rget_got_dont_have. cid_cases c0 c; [congruence | assumption].
  - cbn [hstep]. destruct (wl_remove_spec w c0) as [[M ->] | [M ->]]; cbn [fst snd wl_cids]; [|auto].
    split; [rewrite cid_remove_In; tauto|]. rewrite rget_got_block. cid_cases c0 c; [|assumption].
    apply cid_mem_In in M. contradiction.
  - split.
    + rewrite hstep_update. cbn [fst]. assumption.
    + destruct (hstep_gen_rget (w, s) HGenUpdate c (or_introl eq_refl)) as [E | E]; rewrite E; cbn [fst snd]; [assumption|].
      apply cid_mem_false in Hnin. rewrite Hnin. auto.
  - split.
    + rewrite hstep_full. cbn [fst]. assumption.
    + destruct (hstep_gen_rget (w, s) HGenFull c (or_intror eq_refl)) as [E | E]; rewrite E; cbn [fst snd]; [assumption|].
      apply cid_mem_false in Hnin. rewrite Hnin. auto.
Qed.

Lemma rewanted_state_step c st e : after_insert_ok c e -> rewanted_state c st -> rewanted_state c (fst (hstep st e)).
Proof.
  destruct st as [w s]. intros (Hdh & Hb & Hrm & Hu & Hf) [Hin Hr]. unfold rewanted_state in *. cbn [fst snd] in *.
  destruct e as [c0|c0|c0|c0|c0| |]; try congruence.
  - cbn [hstep]. destruct (wl_insert_spec w c0) as [[M ->] | [M ->]]; cbn [fst snd wl_cids]; [|auto].
    split; [rewrite in_snoc; auto|]. rewrite rget_wanted_again. destruct (rget c0 s) as [[]|] eqn:E0; auto.
    cid_cases c0 c; [|assumption]. destruct Hr; congruence.
  - cbn [hstep fst snd]. assert (c0 <> c) by congruence.
    destruct (wl_remove_spec w c0) as [[M ->] | [M ->]]; cbn [fst wl_cids]; [|auto].
    split; [rewrite cid_remove_In; auto | assumption].
  - cbn [hstep fst snd]. split; [assumption|]. rewrite rget_got_have. cid_cases c0 c; [|assumption].
    destruct Hr as [-> | ->]; cbn; auto.
  - cbn [hstep fst snd]. split; [assumption|]. rewrite rget_got_dont_have. cid_cases c0 c; [congruence | assumption].
  - cbn [hstep]. assert (c0 <> c) by congruence.
    destruct (wl_remove_spec w c0) as [[M ->] | [M ->]]; cbn [fst snd wl_cids]; [|auto].
    split; [rewrite cid_remove_In; auto|]. rewrite rget_got_block. cid_cases c0 c; [congruence | assumption].
Qed.

Lemma run_preserves (P : wl * wls -> Prop) (ok : hev -> Prop) :
  (forall st e, ok e -> P st -> P (fst (hstep st e))) ->
  forall h st, Forall ok h -> P st -> P (hrun_from st h).
Proof.
  intros Hstep h. induction h as [|e h IH]; intros st Hok HP; cbn [hrun_from]; [assumption|].
  inversion Hok as [|? ? He Hok']; subst. apply IH; [assumption | apply Hstep; assumption].
Qed.

Lemma rewanted_gets_want st g c :
  Inv st g -> rewanted_state c st ->
  (exists k, k <> KCancel /\ In (k, c) (fst (wls_generate_update (snd st) (fst st)))) /\
  (exists k, k <> KCancel /\ In (k, c) (fst (wls_generate_full (snd st) (fst st)))).
Proof.
  destruct st as [w s]. intros [Hndw Hndr Htold Hdh Hgot Hgb Hsent Hview Hrev Hsync Hforce] [Hin Hr]. cbn [fst snd] in *.
  split.
  - rewrite gen_update_unfold. destruct (wls_is_updated s w) eqn:U.
    + exfalso. unfold wls_is_updated in U. apply andb_true_iff in U. destruct U as [U1 U2].
      apply negb_true_iff in U1. apply N.eqb_eq in U2. destruct Hr as [E | E].
      * apply (Hsync U2 c) in Hin. congruence.
      * apply (Hforce U1 c). assumption.
    + destruct Hr as [E | E].
      * exists KWantHave. split; [discriminate|]. apply upd_body_entries; [assumption|]. right. auto.
      * exists KWantBlock. split; [discriminate|]. apply upd_body_entries; [assumption|]. left.
        eexists; split; [exact E|]. apply upd_entries_cases. left. auto.
  - destruct Hr as [E | E].
    + exists KWantHave. split; [discriminate|]. apply gen_full_entries; auto. rewrite E. split; [assumption | left; reflexivity].
    + exists KWantBlock. split; [discriminate|]. apply gen_full_entries; auto. rewrite E. split; [assumption | left; reflexivity].
Qed.

Theorem C04_rewant_announced sdh h0 c h1 h2 :
  In c (wl_cids (fst (st_of sdh h0))) ->            (* c is wanted, so the block is accepted *)
  Forall (after_block_ok c) h1 ->                    (* until c is wanted again: no DONT_HAVE c *)
  Forall (after_insert_ok c) h2 ->                   (* then, before the next wantlist: c stays wanted *)
  let st := st_of sdh (h0 ++ [HBlock c] ++ h1 ++ [HInsert c] ++ h2) in
  (exists k, k <> KCancel /\ In (k, c) (fst (wls_generate_update (snd st) (fst st)))) /\
  (exists k, k <> KCancel /\ In (k, c) (fst (wls_generate_full (snd st) (fst st)))).
Proof.
  intros Hin H1 H2 st.
  apply (rewanted_gets_want st (ref_ghost sdh (h0 ++ [HBlock c] ++ h1 ++ [HInsert c] ++ h2)) c); [apply Inv_reach|].
  subst st. unfold st_of. rewrite !hrun_from_app. fold (st_of sdh h0).
  apply (run_preserves (rewanted_state c) (after_insert_ok c) (rewanted_state_step c)); [assumption|].
  assert (HA : delivered_state c (hrun_from (hrun_from (st_of sdh h0) [HBlock c]) h1)).
  { apply (run_preserves (delivered_state c) (after_block_ok c) (delivered_state_step c)); [assumption|].
    pose proof (Inv_reach sdh h0) as HI. fold (st_of sdh h0) in HI. destruct (st_of sdh h0) as [w s].
    cbn [hrun_from hstep fst snd] in *. apply cid_mem_In in Hin. unfold wl_remove. rewrite Hin. cbn [fst snd].
    split; cbn [fst snd wl_cids]; [rewrite cid_remove_In; tauto|].
    rewrite rget_got_block, cid_eqb_refl. destruct (rget c s); cbn; auto. }
  destruct (hrun_from (hrun_from (st_of sdh h0) [HBlock c]) h1) as [w s]. destruct HA as [Hnin Hr]. cbn [fst snd] in *.
  cbn [hrun_from hstep]. apply cid_mem_false in Hnin. unfold wl_insert. rewrite Hnin. cbn [fst snd].
  split; cbn [fst snd wl_cids]; [rewrite in_snoc; auto|].
  rewrite rget_wanted_again. destruct Hr as [E | [E | E]]; rewrite E; auto. rewrite cid_eqb_refl. auto.
Qed.

(* ---------- non-vacuity ---------- *)
Example C04_example_synced :
  let h := [HInsert ex_c1; HInsert ex_c2; HGenFull; HDontHave ex_c2; HHave ex_c1; HGenUpdate; HBlock ex_c1;
            HInsert ex_c1; HGenUpdate] in
  nothing_to_send (st_of true h) /\
  wl_cids (fst (st_of true h)) = [ex_c2; ex_c1] /\
  g_view (lit_ghost true h) = [ex_c1; ex_c2] /\ g_dont_have (lit_ghost true h) = [ex_c2] /\
  g_view (ref_ghost true h) = [ex_c1; ex_c2] /\ g_dont_have (ref_ghost true h) = [ex_c2].
Proof. vm_compute. repeat split; reflexivity. Qed.

Example C04_example_full :
  let h := [HInsert ex_c1; HInsert ex_c2; HGenUpdate; HDontHave ex_c2; HHave ex_c1] in
  fst (wls_generate_full (snd (st_of true h)) (fst (st_of true h))) = [(KWantBlock, ex_c1)] /\
  g_dont_have (ref_ghost true h) = [ex_c2].
Proof. vm_compute. split; reflexivity. Qed.

Example C04_example_rewant :
  In ex_c1 (wl_cids (fst (st_of true [HInsert ex_c1; HGenUpdate]))) /\
  Forall (after_block_ok ex_c1) [HGenUpdate; HInsert ex_c2] /\
  Forall (after_insert_ok ex_c1) [HHave ex_c2].
Proof.
  split; [vm_compute; left; reflexivity|]. split; repeat constructor; discriminate.
Qed.

(* An observation about the repaired code (reported as a possible liveness defect, C02/C04): `wanted_again`
   forgets only `GotBlock`.  If a DONT_HAVE for c from the same peer is processed after its block (the two
   travel on different streams) and before any wantlist is generated for that peer, the entry is
   `GotDontHave` when c is wanted again, and c is then never requested from this peer — neither by updates
   nor by the periodic full wantlist — although the peer has the block and (after serving it) has
   forgotten the want.  The ghost folds agree with the code here (c is in `dont_have`), so the C04
   statements are not violated; the history is the witness. *)
Example wanted_again_after_dont_have_witness :
  let h := [HInsert ex_c1; HGenUpdate; HBlock ex_c1; HDontHave ex_c1; HInsert ex_c1] in
  wl_cids (fst (st_of true h)) = [ex_c1] /\
  req (snd (st_of true h)) = [(ex_c1, GotDontHave)] /\
  fst (wls_generate_update (snd (st_of true h)) (fst (st_of true h))) = [] /\
  fst (wls_generate_full (snd (st_of true h)) (fst (st_of true h))) = [] /\
  g_dont_have (lit_ghost true h) = [ex_c1].
Proof. vm_compute. repeat split; reflexivity. Qed.
