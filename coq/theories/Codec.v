(* Codec.v — /repo/src/message.rs `Codec` as the composition of the framing layer (Frame.v, Framed.v)
   with the quick-protobuf body codec (Qp.v, ProtoCodec.v).  `chk` = arithmetic overflow checks on
   (dev/test profile) or off (release profile). *)
From BS Require Export Bytes Varint Proto Qp ProtoCodec Frame Framed.

Definition qp_parse (chk : bool) (rest : bytes) (n : N) : parse_result message :=
  match qp_read_message chk rest n with
  | Qp.ROk m _ => POk m
  | Qp.RErr => PErr
  | Qp.RPanic => PPanic
  | Qp.RFuel => PLoop
  end.

(* Codec::encode (bytes appended to dst) *)
Definition codec_encode (m : message) : bytes := frame_encode write_message m.

(* Codec::decode *)
Definition codec_decode (chk : bool) (buf : bytes) : decode_result message := frame_decode (qp_parse chk) buf.

(* FramedRead<_, Codec> driven to the end of a list of read events *)
Definition codec_run_stream (chk : bool) (evs : list read_ev) : list message * final :=
  run_stream (qp_parse chk) evs.

(* the known class F2 at frame level: the frame is complete and within the limit, and the body parser overruns
   an enclosing length-delimited region (ProtoCodec.overrun_b, decided by the instrumented run) *)
Definition codec_overrun (buf : bytes) : bool :=
  match uv_decode buf with
  | UvOk n rest => if (max_message_size <? n) || (len rest <? n) then false else overrun_b rest n
  | _ => false
  end.
