(* NetB.v — package S: Net.v extended with the LOSS OF A REPLY (a block batch) while the connection stays up.
   Definitions only; the theorems are in NetB_proofs*.v / NetB_props.v.

   Net.v delivers every block batch that was queued for a peer (`NDeliverB`), or drops it with the connection
   (`NDisconnect` clears the wire of the pair).  In the Rust a reply can also be lost while the connection stays
   established: server handler.rs — after `start_send` a stream error drops the FramedWrite together with its buffer;
   the blocks are neither re-queued nor reported, and the behaviour (server.rs) has already removed them from the
   peer's want set when it handed them over (ServerHandler_proofs `C09_stream_error_loses_blocks_ex`).  Nobody hears
   anything: the requester's client still has the query and still records the want as sent, the server has forgotten
   the want.

   * `BLoseB j i` : the oldest block batch in flight from j to i (the one `do_deliver_b` would take,
       `take_first (b_between j i)`) leaves `wire_b`; nothing else changes.  No batch in flight from j to i: no-op.
   * `BOp o`      : a step of Net.v; `bstep s (BOp o)` is `nstep s o` by conversion.

   Ghost history (`bstep_h`, `brun_h`): every batch that ENTERS `wire_b` (queued by a poll of its source) and every
   batch that is LOST, computed beside the run from the states alone (the run itself is `brun`, NetB_proofs
   `brun_h_run`); used to state "j has sent c to i AGAIN". *)
From BS Require Export Net.
Open Scope N_scope.

Inductive bop :=
| BOp (o : nop)
| BLoseB (j i : N).

Record bhist := MkBHist { bh_entered : list bmsg; bh_lost : list bmsg }.
Definition bhist_nil : bhist := MkBHist [] [].
Definition bhist_app (a b : bhist) : bhist := MkBHist (bh_entered a ++ bh_entered b) (bh_lost a ++ bh_lost b).

(* the batch is one from j to i that carries c *)
Definition carries (j i : N) (c : cid) (m : bmsg) : bool :=
  b_between j i m && existsb (cid_eqb c) (map fst (bm_blocks m)).

Section WithParams.
  Variable Sz : N.
  Variable Hh : hash_fn.

  (* ---------- BLoseB j i ---------- *)
  Definition do_lose_b (s : net) (j i : N) : net * list nevent :=
    match take_first (b_between j i) (wire_b s) with
    | None => (s, [])
    | Some (_, rest) => (MkNet (nodes s) (conns s) (wire_w s) rest (now s), [])
    end.

  Definition bstep (s : net) (o : bop) : net * list nevent :=
    match o with
    | BOp o => nstep Sz Hh s o
    | BLoseB j i => do_lose_b s j i
    end.

  Fixpoint brun (s : net) (ops : list bop) : net * list nevent :=
    match ops with
    | [] => (s, [])
    | o :: ops' =>
        let (s1, e1) := bstep s o in
        let (s2, e2) := brun s1 ops' in (s2, e1 ++ e2)
    end.

  (* the base steps of a run with losses *)
  Fixpoint base_ops (ops : list bop) : list nop :=
    match ops with
    | [] => []
    | BOp o :: r => o :: base_ops r
    | BLoseB _ _ :: r => base_ops r
    end.

  (* ---------- the ghost history ---------- *)
  Definition bhist_of (s : net) (o : bop) : bhist :=
    match o with
    | BOp (NPoll i) => MkBHist (skipn (length (wire_b s)) (wire_b (fst (nstep Sz Hh s (NPoll i))))) []
    | BOp _ => bhist_nil
    | BLoseB j i =>
        match take_first (b_between j i) (wire_b s) with
        | Some (m, _) => MkBHist [] [m]
        | None => bhist_nil
        end
    end.

  Fixpoint brun_h (s : net) (ops : list bop) : net * list nevent * bhist :=
    match ops with
    | [] => (s, [], bhist_nil)
    | o :: ops' =>
        let (s1, e1) := bstep s o in
        let '(s2, e2, h2) := brun_h s1 ops' in (s2, e1 ++ e2, bhist_app (bhist_of s o) h2)
    end.

  (* the batches that entered `wire_b` during a run of Net.v steps *)
  Definition entered_b (s : net) (ops : list nop) : list bmsg := bh_entered (snd (brun_h s (map BOp ops))).

  (* the batch BLoseB j i would lose *)
  Definition next_batch (s : net) (j i : N) : option bmsg := option_map fst (take_first (b_between j i) (wire_b s)).
End WithParams.
