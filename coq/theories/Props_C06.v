(* Props_C06.v — C06: the server answers every live want once the block is available. *)
From BS Require Import Bytes Cid Prefix Proto Types Server Server_lemmas Server_inv Server_proofs Server_live Tie_consts.
From BS Require Import Tie_server.   (* tie lemmas: a source edit that changes what they extract breaks this file's closure *)
From BS Require Import Tie_srvhandler.  (* ServerHandler.sh_iter IS the interpretation of the extracted arms of ServerConnectionHandler::poll_outgoing *)
Open Scope N_scope.

(* p wants c (reference view) at the cut after ops1; during ops2 the block becomes available — it is
   announced by new_blocks_available, or a store get of c (started for anybody) is completed with a hit, or
   such a hit was already under way — and the run ends quiescent (no store task outstanding, queue empty).
   Then, while the want was still registered, either p disconnected, or p itself sent another wantlist
   message, or an observable QueueOutgoingMessages to p carried (prefix of c, data). *)
Theorem C06_available_implies_sent : forall Sz ops1 ops2 p c,
  let final := snd (srun Sz (ops1 ++ ops2)) in
  s_panic final = false -> quiescent final ->
  wanted Sz ops1 p c ->
  ((exists a bl b, ops2 = a ++ SNewBlocks bl :: b /\ In c (map fst bl)) \/
   (exists a k d b, ops2 = a ++ SRelease k (SHit d) :: b /\ started (fst (srun_l Sz (ops1 ++ a))) k c) \/
   pending_hit c (snd (srun_l Sz ops1))) ->
  exists a op b, ops2 = a ++ op :: b /\ wanted Sz (ops1 ++ a) p c /\
    (op = SDisconnected p \/ (exists w o, op = SMsg p w o) \/
     (exists blocks d, In (OSend p blocks) (nth (length (ops1 ++ a)) (fst (srun Sz (ops1 ++ ops2))) []) /\
                       In (prefix_to_bytes (prefix_of_cid c), d) blocks)).
Proof. exact C06_available_implies_sent_obs. Qed.

(* the same, read backwards: a want that is still registered at a quiescent state was never satisfiable *)
Theorem C06_served_when_available : forall Sz ops1 ops2 p c,
  let final := snd (srun Sz (ops1 ++ ops2)) in
  s_panic final = false -> quiescent final ->
  (forall a b, ops2 = a ++ b -> wanted Sz (ops1 ++ a) p c) ->
  (forall a bl b, ops2 = a ++ SNewBlocks bl :: b -> ~ In c (map fst bl)) /\
  (forall a k d b, ops2 = a ++ SRelease k (SHit d) :: b -> ~ started (fst (srun_l Sz (ops1 ++ a))) k c) /\
  ~ pending_hit c (snd (srun_l Sz ops1)).
Proof. exact Server_live.C06_served_when_available. Qed.

(* a want expressed again after the block was served (or after a reconnect: the want set is dropped on
   disconnect, C13) is a fresh registration: the peer waits again and a lookup task containing c is queued *)
Theorem C06_reexpressed_want_served_again : forall Sz ops p w order c,
  let st := snd (srun_l Sz ops) in
  let st' := fst (sstep_l Sz st (SMsg p w order)) in
  s_panic st' = false ->
  ~ wanted Sz ops p c -> wanted Sz (ops ++ [SMsg p w order]) p c ->
  (exists l, waiters_of st' c = Some l /\ In p l) /\
  (exists t, s_ready st' = s_ready st ++ [t] /\ t_peer t = p /\ t_done t = [] /\ In c (t_todo t)).
Proof. exact Server_live.C06_reexpressed_want_served_again. Qed.

(* every full wantlist (sent at least once per refresh period) looks every retained want up again, so a
   block put into the store by the application after the first miss is found *)
Theorem C06_full_relookup : forall Sz ops p w order new,
  let st := snd (srun_l Sz ops) in
  let st' := fst (sstep_l Sz st (SMsg p w order)) in
  s_panic st' = false -> w_full w = true ->
  wants_of st p <> None -> wants_of st' p = Some new ->
  exists t, s_ready st' = s_ready st ++ [t] /\ t_peer t = p /\ t_done t = [] /\
            forall c, In c (t_todo t) <-> In c new.
Proof. exact Server_live.C06_full_relookup. Qed.

(* the reference view contains the 1024 cap (C13): a want beyond it is dropped, witness *)
Example C06_cap_refuted := Server_live.C06_cap_refuted.
Example C06_nonvacuous := C06_available_obs_ex.

Check C06_available_implies_sent : forall Sz ops1 ops2 p c,
  let final := snd (srun Sz (ops1 ++ ops2)) in
  s_panic final = false -> quiescent final ->
  wanted Sz ops1 p c ->
  ((exists a bl b, ops2 = a ++ SNewBlocks bl :: b /\ In c (map fst bl)) \/
   (exists a k d b, ops2 = a ++ SRelease k (SHit d) :: b /\ started (fst (srun_l Sz (ops1 ++ a))) k c) \/
   pending_hit c (snd (srun_l Sz ops1))) ->
  exists a op b, ops2 = a ++ op :: b /\ wanted Sz (ops1 ++ a) p c /\
    (op = SDisconnected p \/ (exists w o, op = SMsg p w o) \/
     (exists blocks d, In (OSend p blocks) (nth (length (ops1 ++ a)) (fst (srun Sz (ops1 ++ ops2))) []) /\
                       In (prefix_to_bytes (prefix_of_cid c), d) blocks)).

Print Assumptions C06_available_implies_sent.
Print Assumptions C06_served_when_available.
Print Assumptions C06_reexpressed_want_served_again.
Print Assumptions C06_full_relookup.

(* ---- a batch of blocks end to end over the wire (package L, Wire_blocks.v: the server connection handler of the SENDER over
   the real codec and size estimate, composed with the IncomingStream of the RECEIVER): an honest batch arrives as exactly itself,
   keyed by its own CIDs; a block whose data does not hash to its label never arrives under that label; for ANY history of the
   server handler without a dropped stream the bytes the stream accepted, completed by the handler's buffer and cut into reads
   anywhere, hand the receiver's behaviour exactly the started blocks — each once, in queue order — and nothing else.
   Non-vacuity: Wire_blocks_props (real codec, CIDv0 and CIDv1 blocks, reads cut inside frames). *)
From BS Require Import Bytes Varint Cid Prefix Hasher Proto Incoming Qp ProtoCodec Frame Framed Codec Frame_proofs Framed_proofs Prefix_proofs Incoming_proofs Types FramedWrite Handler_proofs ServerHandler ServerHandler_proofs ServerHandler_wire Streams Streams_proofs Net Wire_blocks.
From Coq Require Import ZArith Lia.
Open Scope N_scope.

Theorem process_blocks_message :
  forall (Sz : N) (Hh : hash_fn) (bl : list lblock),
  Forall (honest Sz Hh) bl ->
  process_message Sz Hh (blocks_message bl) = PmOk {| in_client := client_part bl; in_server := None |}.
Proof. exact (@Wire_blocks.process_blocks_message). Qed.

Theorem process_wrong_block :
  forall (Sz : N) (Hh : hash_fn) (c : cid) (d : bytes),
  wf_cid Sz c ->
  valid_block Sz Hh c d = false ->
  (exists c' : cid,
     c' <> c /\
     prefix_to_cid Sz Hh (prefix_of_cid c) d = TOk c' /\
     process_message Sz Hh (blocks_message [(c, d)]) =
     PmOk {| in_client := Some {| cm_presences := []; cm_blocks := [(c', d)] |}; in_server := None |}) \/
  process_message Sz Hh (blocks_message [(c, d)]) = PmOk {| in_client := None; in_server := None |} \/
  process_message Sz Hh (blocks_message [(c, d)]) = PmClose \/
  process_message Sz Hh (blocks_message [(c, d)]) = PmPanic.
Proof. exact (@Wire_blocks.process_wrong_block). Qed.

Theorem wire_receive_blocks :
  forall (Sz : N) (Hh : hash_fn) (chk : bool) (batches : list (list lblock)) (evs : list read_ev),
  Forall (Forall (honest Sz Hh)) batches ->
  Forall fits_frame batches ->
  live evs ->
  ev_data evs = concat (map (fun bl : list (cid * bytes) => codec_encode (blocks_message bl)) batches) ->
  stream_out Sz Hh chk (evs ++ [Eof]) = (client_msgs batches, SfEnd).
Proof. exact (@Wire_blocks.wire_receive_blocks). Qed.

Theorem C06_wire_blocks_delivered :
  forall (Sz : N) (Hh : hash_fn) (chk : bool) (ops : list shop) (ql : list lblock) (id : N) (buf : bytes),
  let st := server_handler_final codec_encode wire_block_size ops in
  let outs := server_handler_outs codec_encode wire_block_size ops in
  queue_ok Sz Hh ops ql ->
  no_drop outs ->
  sh_sink st = SvReady id buf ->
  let sb := started_batches ops ql in
  let n := length (concat (map snd (sh_started st))) in
  map (map erase_block) sb = map snd (sh_started st) /\
  concat sb = firstn n ql /\
  map erase_block (skipn n ql) = pending_list st /\
  (forall evs : list read_ev,
   live evs ->
   ev_data evs = swrote_on id outs ++ buf -> stream_out Sz Hh chk (evs ++ [Eof]) = (client_msgs sb, SfEnd)).
Proof. exact (@Wire_blocks.C06_wire_blocks_delivered). Qed.

Theorem C06_wire_blocks_exactly_once :
  forall (Sz : N) (Hh : hash_fn) (chk : bool) (ops : list shop) (ql : list lblock) (id : N) (buf : bytes),
  let st := server_handler_final codec_encode wire_block_size ops in
  let outs := server_handler_outs codec_encode wire_block_size ops in
  queue_ok Sz Hh ops ql ->
  no_drop outs ->
  sh_sink st = SvReady id buf ->
  NoDup (map fst ql) ->
  forall evs : list read_ev,
  live evs ->
  ev_data evs = swrote_on id outs ++ buf ->
  snd (stream_out Sz Hh chk (evs ++ [Eof])) = SfEnd /\
  flat_map blocks_of (fst (stream_out Sz Hh chk (evs ++ [Eof]))) =
  firstn (length (concat (map snd (sh_started st)))) ql.
Proof. exact (@Wire_blocks.C06_wire_blocks_exactly_once). Qed.

Print Assumptions process_blocks_message.
Print Assumptions process_wrong_block.
Print Assumptions wire_receive_blocks.
Print Assumptions C06_wire_blocks_delivered.
Print Assumptions C06_wire_blocks_exactly_once.

(* ---- the connection handler between the behaviour and the wire (ServerHandler.v = server.rs ServerConnectionHandler): a block the
   behaviour handed over (QueueOutgoingMessages — the want is already off its books) is never dropped or overtaken by the handler:
   for ANY history of queue / set_stream / poll with ANY stream behaviour, what was started followed by what is still pending is
   exactly what was queued, in order (the conjunct of C09_outbound_split that C06 relies on). *)
Theorem C06_handler_blocks_not_lost :
  forall (encode : message -> bytes) (block_size : blk -> N) (ops : list shop),
  let st := server_handler_final encode block_size ops in
  concat (map snd (sh_started st)) ++ pending_list st = queued_of ops.
Proof. exact (fun encode block_size ops => proj1 (proj2 (@ServerHandler_proofs.C09_outbound_split encode block_size ops))). Qed.

Print Assumptions C06_handler_blocks_not_lost.

(* ---- a lost reply is served again (package S): if a batch from j to i carrying c is lost while i's query for c is live and both stay connected and j still
   holds c, then after settle + refresh the query is answered; if settle alone did not answer it, a second batch carrying c for i enters the wire during
   the refresh, and it is j's when j is i's only peer (with other holders connected, another one may answer first: the unqualified statement is false). *)
From BS Require Import Server_lemmas Server_inv Wantlist_proofs Client_proofs Client_proofs2 Client_proofs3 Client_proofs4
  Net Net_proofs Net_proofs2 Net_proofs3 Net_proofs4 Net_proofs5 Net_proofs6 Net_proofs7 Net_proofs9 Net_proofs10 Net_proofs14
  Net_proofs24 Net_proofs28 Net_proofs32 Net_proofs35 Net_proofs36
  NetB NetB_proofs NetB_proofs2 NetB_proofs3 NetB_proofs4 NetB_proofs5 NetB_proofs6.
From BS Require Import NetB_props.
From Coq Require Import ZArith Lia.
Open Scope N_scope.

Theorem C06_lost_reply_reserved_partial :
  forall (Sz : N) (Hh : hash_fn),
  32 <= Sz ->
  forall (i j : N) (q : qid) (c : cid) (n : nat) (ops : list bop) (m : bmsg),
  Forall (nop_good Sz Hh) (base_ops ops) ->
  Forall (nop_wf Sz) (base_ops ops) ->
  let s0 := fst (brun Sz Hh (net_init n) ops) in
  next_batch s0 j i = Some m ->
  In c (map fst (bm_blocks m)) ->
  let s := fst (bstep Sz Hh s0 (BLoseB j i)) in
  live_query i q c s ->
  connected s i j = true ->
  (exists (st : list (cid * bytes)) (d : bytes), store_of s j = Some st /\ store_get st c = SHit d) ->
  let r1 := settle Sz Hh s in
  let r2 := refresh Sz Hh (fst r1) in
  (length (wl_i i (fst r1)) <= 1024)%nat ->
  (exists rest : list bmsg,
     take_first (b_between j i) (wire_b s0) = Some (m, rest) /\ wire_b s = rest /\ nodes s = nodes s0) /\
  quietb (fst r1) = true /\
  quietb (fst r2) = true /\
  answered i q (snd r1 ++ snd r2) /\
  (forall c' : cid,
   In c' (wl_i i (fst r2)) <->
   (exists st : sstate, server_of (fst r2) j = Some st /\ wantsP (s_wants st) i c')).
Proof. exact (@NetB_props.S_C06_lost_reply_reserved_partial). Qed.

Theorem C06_lost_reply_reserved :
  forall (Sz : N) (Hh : hash_fn),
  32 <= Sz ->
  forall (i j : N) (q : qid) (c : cid) (n : nat) (ops : list bop) (m : bmsg),
  Forall (nop_good Sz Hh) (base_ops ops) ->
  Forall (nop_wf Sz) (base_ops ops) ->
  let s0 := fst (brun Sz Hh (net_init n) ops) in
  next_batch s0 j i = Some m ->
  In c (map fst (bm_blocks m)) ->
  let s := fst (bstep Sz Hh s0 (BLoseB j i)) in
  live_query i q c s ->
  connected s i j = true ->
  (exists (st : list (cid * bytes)) (d : bytes), store_of s j = Some st /\ store_get st c = SHit d) ->
  let r1 := settle Sz Hh s in
  let r2 := refresh Sz Hh (fst r1) in
  (length (wl_i i (fst r1)) <= 1024)%nat ->
  answered i q (snd r1 ++ snd r2) /\
  (~ answered i q (snd r1) ->
   exists ops2 : list nop,
     Forall sched ops2 /\
     r2 = nrun Sz Hh (advance Sz Hh SEND_FULL_INTERVAL (fst r1)) ops2 /\
     (exists (a : N) (m' : bmsg),
        In m' (entered_b Sz Hh (advance Sz Hh SEND_FULL_INTERVAL (fst r1)) ops2) /\ carries a i c m' = true)).
Proof. exact (@NetB_props.S_C06_lost_reply_reserved). Qed.

Theorem C06_lost_reply_reserved_by_j :
  forall (Sz : N) (Hh : hash_fn),
  32 <= Sz ->
  forall (i j : N) (q : qid) (c : cid) (n : nat) (ops : list bop) (m : bmsg),
  Forall (nop_good Sz Hh) (base_ops ops) ->
  Forall (nop_wf Sz) (base_ops ops) ->
  let s0 := fst (brun Sz Hh (net_init n) ops) in
  next_batch s0 j i = Some m ->
  In c (map fst (bm_blocks m)) ->
  let s := fst (bstep Sz Hh s0 (BLoseB j i)) in
  live_query i q c s ->
  connected s i j = true ->
  (exists (st : list (cid * bytes)) (d : bytes), store_of s j = Some st /\ store_get st c = SHit d) ->
  let r1 := settle Sz Hh s in
  let r2 := refresh Sz Hh (fst r1) in
  (length (wl_i i (fst r1)) <= 1024)%nat ->
  (forall k : N, connected (fst r1) i k = true -> k = j) ->
  ~ answered i q (snd r1) ->
  answered i q (snd r1 ++ snd r2) /\
  (exists ops2 : list nop,
     Forall sched ops2 /\
     r2 = nrun Sz Hh (advance Sz Hh SEND_FULL_INTERVAL (fst r1)) ops2 /\
     (exists m' : bmsg,
        In m' (entered_b Sz Hh (advance Sz Hh SEND_FULL_INTERVAL (fst r1)) ops2) /\ carries j i c m' = true)).
Proof. exact (@NetB_props.S_C06_lost_reply_reserved_by_j). Qed.

Print Assumptions C06_lost_reply_reserved_partial.
Print Assumptions C06_lost_reply_reserved.
Print Assumptions C06_lost_reply_reserved_by_j.
