(* Props_C06.v — C06: the server answers every live want once the block is available. *)
From BS Require Import Bytes Cid Prefix Proto Types Server Server_lemmas Server_inv Server_proofs Server_live Tie_consts.
From BS Require Import Tie_server.   (* tie lemmas: a source edit that changes what they extract breaks this file's closure *)
Open Scope N_scope.

(* p wants c (reference view) at the cut after ops1; during ops2 the block becomes available — it is
   announced by new_blocks_available, or a store get of c (started for anybody) is completed with a hit, or
   such a hit was already under way — and the run ends quiescent (no store task outstanding, queue empty).
   Then, while the want was still registered, either p disconnected, or p itself sent another wantlist
   message, or an observable QueueOutgoingMessages to p carried (prefix of c, data). *)
Theorem C06_available_implies_sent : forall Sz ops1 ops2 p c,
  let final := snd (srun Sz (ops1 ++ ops2)) in
  s_panic final = false -> quiescent final ->
  wanted Sz ops1 p c ->
  ((exists a bl b, ops2 = a ++ SNewBlocks bl :: b /\ In c (map fst bl)) \/
   (exists a k d b, ops2 = a ++ SRelease k (SHit d) :: b /\ started (fst (srun_l Sz (ops1 ++ a))) k c) \/
   pending_hit c (snd (srun_l Sz ops1))) ->
  exists a op b, ops2 = a ++ op :: b /\ wanted Sz (ops1 ++ a) p c /\
    (op = SDisconnected p \/ (exists w o, op = SMsg p w o) \/
     (exists blocks d, In (OSend p blocks) (nth (length (ops1 ++ a)) (fst (srun Sz (ops1 ++ ops2))) []) /\
                       In (prefix_to_bytes (prefix_of_cid c), d) blocks)).
Proof. exact C06_available_implies_sent_obs. Qed.

(* the same, read backwards: a want that is still registered at a quiescent state was never satisfiable *)
Theorem C06_served_when_available : forall Sz ops1 ops2 p c,
  let final := snd (srun Sz (ops1 ++ ops2)) in
  s_panic final = false -> quiescent final ->
  (forall a b, ops2 = a ++ b -> wanted Sz (ops1 ++ a) p c) ->
  (forall a bl b, ops2 = a ++ SNewBlocks bl :: b -> ~ In c (map fst bl)) /\
  (forall a k d b, ops2 = a ++ SRelease k (SHit d) :: b -> ~ started (fst (srun_l Sz (ops1 ++ a))) k c) /\
  ~ pending_hit c (snd (srun_l Sz ops1)).
Proof. exact Server_live.C06_served_when_available. Qed.

(* a want expressed again after the block was served (or after a reconnect: the want set is dropped on
   disconnect, C13) is a fresh registration: the peer waits again and a lookup task containing c is queued *)
Theorem C06_reexpressed_want_served_again : forall Sz ops p w order c,
  let st := snd (srun_l Sz ops) in
  let st' := fst (sstep_l Sz st (SMsg p w order)) in
  s_panic st' = false ->
  ~ wanted Sz ops p c -> wanted Sz (ops ++ [SMsg p w order]) p c ->
  (exists l, waiters_of st' c = Some l /\ In p l) /\
  (exists t, s_ready st' = s_ready st ++ [t] /\ t_peer t = p /\ t_done t = [] /\ In c (t_todo t)).
Proof. exact Server_live.C06_reexpressed_want_served_again. Qed.

(* every full wantlist (sent at least once per refresh period) looks every retained want up again, so a
   block put into the store by the application after the first miss is found *)
Theorem C06_full_relookup : forall Sz ops p w order new,
  let st := snd (srun_l Sz ops) in
  let st' := fst (sstep_l Sz st (SMsg p w order)) in
  s_panic st' = false -> w_full w = true ->
  wants_of st p <> None -> wants_of st' p = Some new ->
  exists t, s_ready st' = s_ready st ++ [t] /\ t_peer t = p /\ t_done t = [] /\
            forall c, In c (t_todo t) <-> In c new.
Proof. exact Server_live.C06_full_relookup. Qed.

(* the reference view contains the 1024 cap (C13): a want beyond it is dropped, witness *)
Example C06_cap_refuted := Server_live.C06_cap_refuted.
Example C06_nonvacuous := C06_available_obs_ex.

Check C06_available_implies_sent : forall Sz ops1 ops2 p c,
  let final := snd (srun Sz (ops1 ++ ops2)) in
  s_panic final = false -> quiescent final ->
  wanted Sz ops1 p c ->
  ((exists a bl b, ops2 = a ++ SNewBlocks bl :: b /\ In c (map fst bl)) \/
   (exists a k d b, ops2 = a ++ SRelease k (SHit d) :: b /\ started (fst (srun_l Sz (ops1 ++ a))) k c) \/
   pending_hit c (snd (srun_l Sz ops1))) ->
  exists a op b, ops2 = a ++ op :: b /\ wanted Sz (ops1 ++ a) p c /\
    (op = SDisconnected p \/ (exists w o, op = SMsg p w o) \/
     (exists blocks d, In (OSend p blocks) (nth (length (ops1 ++ a)) (fst (srun Sz (ops1 ++ ops2))) []) /\
                       In (prefix_to_bytes (prefix_of_cid c), d) blocks)).

Print Assumptions C06_available_implies_sent.
Print Assumptions C06_served_when_available.
Print Assumptions C06_reexpressed_want_served_again.
Print Assumptions C06_full_relookup.
