(* Prefix_proofs.v — lemmas behind C12 (and the prefix part of C08). *)
From BS Require Import Bytes Varint Varint_proofs Cid Prefix.
From Coq Require Import ZArith ZifyBool ZifyN ZifyNat Lia.
Open Scope N_scope.

Definition wf_prefix (p : prefix) : Prop :=
  p_codec p < two64 /\ p_code p < two64 /\ p_size p < two64 /\
  (p_ver p = V0 -> p_codec p = DAG_PB /\ p_code p = SHA2_256 /\ p_size p = SHA2_256_SIZE).

Lemma two64_big : 255 < two64.
Proof. unfold two64. change 255 with (2 ^ 8 - 1). assert (2 ^ 8 < 2 ^ 64) by (apply N.pow_lt_mono_r; lia). lia. Qed.

Lemma wf_prefix_of_cid S c : wf_cid S c -> wf_prefix (prefix_of_cid c).
Proof.
  intros (Hcodec & (Hcode & _ & Hlen & _) & Hv0). unfold wf_prefix, prefix_of_cid; cbn.
  pose proof two64_big. repeat split; try lia; apply Hv0; assumption.
Qed.

Lemma uv_decode_encode_app n rest : n < two64 -> uv_decode (uv_encode n ++ rest) = UvOk n rest.
Proof. apply uv_decode_encode. Qed.

Lemma small64 n : n <= 255 -> n < two64.
Proof. pose proof two64_big. lia. Qed.

(* serialise then parse: unchanged, for every well-formed prefix *)
Lemma prefix_roundtrip p : wf_prefix p -> prefix_from_bytes (prefix_to_bytes p) = Some p.
Proof.
  intros (Hcodec & Hcode & Hsize & Hv0). destruct p as [v codec code size]; cbn in *.
  unfold prefix_from_bytes, prefix_to_bytes; cbn [p_ver p_codec p_code p_size].
  destruct v.
  - destruct (Hv0 eq_refl) as (-> & -> & ->).
    rewrite uv_decode_encode_app by (apply small64; unfold SHA2_256; lia).
    rewrite <- (app_nil_r (uv_encode SHA2_256_SIZE)).
    rewrite uv_decode_encode_app by (apply small64; unfold SHA2_256_SIZE; lia).
    rewrite !N.eqb_refl. reflexivity.
  - cbn [version_to_u64].
    rewrite uv_decode_encode_app by (apply small64; lia).
    rewrite uv_decode_encode_app by assumption.
    change (1 =? SHA2_256) with false. cbn [andb].
    change (version_of_u64 1) with (Some V1). cbv iota.
    rewrite uv_decode_encode_app by assumption.
    rewrite <- (app_nil_r (uv_encode size)).
    rewrite uv_decode_encode_app by assumption. reflexivity.
Qed.

Lemma cid_new_wf S c : wf_cid S c -> cid_new (c_ver c) (c_codec c) (c_hash c) = inl c.
Proof.
  intros (_ & _ & Hv0). destruct c as [v codec mh]; cbn in *. destruct v; [|reflexivity].
  destruct (Hv0 eq_refl) as (-> & Hc & Hl). unfold cid_new. rewrite Hc, Hl, !N.eqb_refl. reflexivity.
Qed.

Lemma cid_new_inl v codec mh c : cid_new v codec mh = inl c -> c_hash c = mh /\ c_ver c = v.
Proof.
  unfold cid_new. destruct v.
  - destruct (negb (codec =? DAG_PB)); [discriminate|].
    destruct (negb (mh_code mh =? SHA2_256) || negb (len (mh_digest mh) =? SHA2_256_SIZE)); [discriminate|].
    intros [= <-]; auto.
  - intros [= <-]; auto.
Qed.

(* rebuilding from the prefix of c yields c exactly when the data hashes to c's multihash *)
Lemma rebuild_iff S H c data :
  wf_cid S c ->
  (prefix_to_cid S H (prefix_of_cid c) data = TOk c <-> H (mh_code (c_hash c)) data = HOk (c_hash c)).
Proof.
  intros Hwf. pose proof Hwf as (_ & (_ & HS & _ & _) & _).
  unfold prefix_to_cid, prefix_of_cid; cbn [p_ver p_codec p_code p_size].
  destruct (S <? len (mh_digest (c_hash c))) eqn:E; [lia|].
  destruct (H (mh_code (c_hash c)) data) as [mh|e]; [|split; discriminate].
  destruct (cid_new (c_ver c) (c_codec c) mh) as [c'|e] eqn:En.
  - split.
    + intros [= ->]. apply cid_new_inl in En. destruct En as [<- _]. reflexivity.
    + intros [= ->]. rewrite (cid_new_wf S c Hwf) in En. congruence.
  - split; [discriminate|]. intros [= ->]. rewrite (cid_new_wf S c Hwf) in En. discriminate.
Qed.

(* a prefix that declares more than the capacity is rejected, never truncated *)
Lemma oversize_rejected S H p data :
  S < p_size p -> prefix_to_cid S H p data = TErr InvalidMultihashSize.
Proof. intros Hlt. unfold prefix_to_cid. destruct (S <? p_size p) eqn:E; [reflexivity|lia]. Qed.

(* whatever the table does, a CID is only ever built from the table's own answer *)
Lemma to_cid_ok_inv S H p data c :
  prefix_to_cid S H p data = TOk c ->
  p_size p <= S /\ H (p_code p) data = HOk (c_hash c) /\ c_ver c = p_ver p /\
  (p_ver p = V1 -> c_codec c = p_codec p).
Proof.
  unfold prefix_to_cid. destruct (S <? p_size p) eqn:E; [discriminate|].
  destruct (H (p_code p) data) as [mh|e]; [|discriminate].
  destruct (cid_new (p_ver p) (p_codec p) mh) as [c'|e] eqn:En; [|discriminate].
  intros [= ->]. pose proof (cid_new_inl _ _ _ _ En) as [<- Hv].
  repeat split; try lia; try assumption.
  intros Hv1. rewrite Hv1 in En. cbn in En. injection En as <-. reflexivity.
Qed.

(* parsed prefixes: version 0 only in the fixed form *)
Lemma from_bytes_v0 bs p :
  prefix_from_bytes bs = Some p -> p_ver p = V0 -> p = MkPrefix V0 DAG_PB SHA2_256 SHA2_256_SIZE.
Proof.
  unfold prefix_from_bytes.
  destruct (uv_decode bs) as [rv r1| | |]; try discriminate.
  destruct (uv_decode r1) as [codec r2| | |]; try discriminate.
  destruct ((rv =? SHA2_256) && (codec =? SHA2_256_SIZE)); [intros [= <-]; reflexivity|].
  destruct (version_of_u64 rv) as [[|]|]; try discriminate.
  destruct (uv_decode r2) as [code r3| | |]; try discriminate.
  destruct (uv_decode r3) as [size r4| | |]; try discriminate.
  intros [= <-]; cbn; discriminate.
Qed.

(* the table answers sha2-256 requests with a sha2-256 multihash of 32 bytes (true of the built-in
   table; a custom hasher registered for code 0x12 must respect it) *)
Definition sha_respecting (H : hash_fn) : Prop :=
  forall data mh, H SHA2_256 data = HOk mh -> mh_code mh = SHA2_256 /\ len (mh_digest mh) = SHA2_256_SIZE.

(* no prefix a peer can send makes to_cid panic *)
Lemma parsed_prefix_no_panic S H bs p data :
  sha_respecting H -> prefix_from_bytes bs = Some p -> prefix_to_cid S H p data <> TPanic.
Proof.
  intros Hsha Hp. unfold prefix_to_cid. destruct (S <? p_size p); [discriminate|].
  destruct (H (p_code p) data) as [mh|e] eqn:EH; [|discriminate].
  destruct (p_ver p) eqn:Ev.
  - rewrite (from_bytes_v0 _ _ Hp Ev) in *. cbn [p_code p_codec] in *.
    destruct (Hsha _ _ EH) as [Hc Hl]. unfold cid_new. rewrite Hc, Hl, !N.eqb_refl. cbn. discriminate.
  - cbn. discriminate.
Qed.

(* ... and without the hypothesis on H the panic is reachable: witness *)
Lemma v0_panic_needs_bad_hasher :
  exists H data, prefix_to_cid 64 H (MkPrefix V0 DAG_PB SHA2_256 SHA2_256_SIZE) data = TPanic.
Proof. exists (fun _ _ => HOk (MkMh 0 [])), []. reflexivity. Qed.
