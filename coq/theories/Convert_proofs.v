(* Convert_proofs.v — lemmas behind C19. *)
From BS Require Import Bytes Cid Prefix Hasher Convert Prefix_proofs.
From Coq Require Import ZArith ZifyBool ZifyN ZifyNat Lia.
Open Scope N_scope.

Lemma firstn_len_all (d : bytes) : len d <= 255 -> firstn (N.to_nat (len d mod 256)) d = d.
Proof.
  intros H. rewrite N.mod_small by lia. unfold len. rewrite Nat2N.id. apply firstn_all.
Qed.

(* Some exactly when the digest fits, and then nothing changes *)
Lemma convert_multihash_iff S' mh : len (mh_digest mh) <= 255 ->
  (convert_multihash S' mh = Some mh <-> len (mh_digest mh) <= S') /\
  (forall mh', convert_multihash S' mh = Some mh' -> mh' = mh) /\
  (convert_multihash S' mh = None <-> S' < len (mh_digest mh)).
Proof.
  intros H. unfold convert_multihash, mh_wrap. rewrite (firstn_len_all _ H).
  destruct mh as [code d]; cbn [mh_code mh_digest] in *.
  destruct (S' <? len d) eqn:E.
  - repeat split; try discriminate; intros; try lia.
  - repeat split; intros; try lia; try congruence.
Qed.

Lemma convert_cid_iff S S' c : wf_cid S c ->
  (convert_cid S' c = Some c <-> len (mh_digest (c_hash c)) <= S') /\
  (forall c', convert_cid S' c = Some c' -> c' = c) /\
  (convert_cid S' c = None <-> S' < len (mh_digest (c_hash c))).
Proof.
  intros Hwf. pose proof Hwf as (_ & (_ & _ & H255 & _) & _).
  destruct (convert_multihash_iff S' (c_hash c) H255) as (H1 & H2 & H3).
  unfold convert_cid. destruct (convert_multihash S' (c_hash c)) as [mh|] eqn:E.
  - rewrite (H2 mh eq_refl). rewrite (cid_new_wf S c Hwf).
    assert (len (mh_digest (c_hash c)) <= S') by (apply H1; rewrite (H2 mh eq_refl); reflexivity).
    repeat split; intros; try lia; try congruence.
  - assert (S' < len (mh_digest (c_hash c))) by (apply H3; reflexivity).
    repeat split; intros; try lia; try congruence.
Qed.

(* converting to a capacity that fits and back gives the original *)
Lemma convert_back S S' c : wf_cid S c -> len (mh_digest (c_hash c)) <= S' ->
  match convert_cid S' c with Some c' => convert_cid S c' = Some c | None => False end.
Proof.
  intros Hwf Hfit. destruct (convert_cid_iff S S' c Hwf) as (H1 & _ & _).
  rewrite (proj2 H1 Hfit). pose proof Hwf as (_ & (_ & HS & _ & _) & _).
  destruct (convert_cid_iff S S c Hwf) as (H1' & _ & _). apply H1'. assumption.
Qed.

(* the truncation of Multihash::wrap when the capacity exceeds 255: outside the guard the digest changes *)
Lemma convert_truncates_beyond_255 :
  exists mh, len (mh_digest mh) = 256 /\ convert_multihash 300 mh = Some (MkMh (mh_code mh) []).
Proof. exists (MkMh 0 (repeat 0 256)). split; vm_compute; reflexivity. Qed.
