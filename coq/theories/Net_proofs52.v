(* Net_proofs52.v — package Q, part 3: the bookkeeping of the CLIENT half in every reachable net, through package K's ghost
   (`net_client_ghost`: node i's client = Client.v run on `cops_run … i`), so that Props_C13's client theorems become statements
   about the net: peers tracked = connected peers, request states ⊆ wantlist ∪ retention, wantlist = CIDs of live (unanswered)
   queries, tasks = lookups of live queries + puts + aborted lookups awaiting the next poll; and a query that was CANCELLED
   (before its outcome was queued) leaves no bookkeeping behind (the event case is package K's C13_net_query_released). *)
From BS Require Import Types Wantlist Wantlist_proofs Wantlist_proofs2 Client Client_proofs Client_proofs2 Client_proofs3 Client_proofs4
  Client_proofs5 Client_proofs6 Client_proofs7 Client_proofs8 Client_proofs9 Client_props2
  Net Net_proofs Net_proofs2 Net_proofs5 Net_proofs6 Net_proofs10 Net_proofs21 Net_proofs40 Net_proofs41 Net_proofs42 Net_proofs43 Net_proofs50.
From Coq Require Import ZArith ZifyBool ZifyN ZifyNat Lia.
Open Scope N_scope.

Lemma silenced_tr q l : forall c, silenced q c -> silenced q (cl_tr c l).
Proof.
  induction l as [|o l IH]; intros c H; [rewrite cl_tr_nil; exact H|]. rewrite cl_tr_cons. apply IH. apply (silenced_step q c o H).
Qed.

(* what `silenced` means for the bookkeeping of a reachable client state *)
Lemma silenced_released sdh ops q :
  silenced q (st_after sdh ops) ->
  ~ In q (c2q_qids (cs_c2q (st_after sdh ops))) /\ ~ In q (queue_qids (cs_queue (st_after sdh ops))) /\
  ~ In q (map fst (cs_abort (st_after sdh ops))) /\
  (forall tid t c, In (tid, t) (cs_tasks (st_after sdh ops)) -> t_kind t = TGet q c -> t_aborted t = true).
Proof.
  intros (Hq & Hc & Ht & _ & _). split; [apply cnt_zero_not_in, Hc|]. split; [apply cnt_zero_not_in, Hq|]. split; [|exact Ht].
  intros Hin. apply in_map_iff in Hin. destruct Hin as ([q' tid] & Hq' & Hin). cbn [fst] in Hq'. subst q'.
  destruct (Client_proofs5.C13_query_released sdh ops) as (Hab & _). apply Hab in Hin. destruct Hin as (c & t & Hin & Hk & Ha).
  rewrite (Ht tid t c Hin Hk) in Ha. discriminate.
Qed.

Section NetClientBounds.
  Variables (Sz : N) (Hh : hash_fn).
  Hypothesis HSz : 32 <= Sz.

  (* ---------- theorem 4, the cancel half ---------- *)
  (* a query cancelled while its outcome is undetermined (no event yet, none queued in the client): from then on the client
     holds nothing about it except lookup tasks that are flagged aborted (the next poll of the node drops them) *)
  Theorem C13_net_query_cancel_released n ops1 i q ops2 ni :
    q < count_ngets i ops1 ->
    ~ In (i, q) (ev_keys (snd (nrun Sz Hh (net_init n) ops1))) ->
    (forall ni1, get_node (fst (nrun Sz Hh (net_init n) ops1)) i = Some ni1 -> ~ In q (queue_qids (cs_queue (n_client ni1)))) ->
    get_node (fst (nrun Sz Hh (net_init n) (ops1 ++ NCancel i q :: ops2))) i = Some ni ->
    ~ In q (c2q_qids (cs_c2q (n_client ni))) /\ ~ In q (queue_qids (cs_queue (n_client ni))) /\
    ~ In q (map fst (cs_abort (n_client ni))) /\
    (forall tid t c, In (tid, t) (cs_tasks (n_client ni)) -> t_kind t = TGet q c -> t_aborted t = true).
  Proof.
    intros Hq Hno Hqueue Hni.
    rewrite (net_client_ghost Sz Hh n _ i ni Hni). apply silenced_released.
    destruct (node_exists_back Sz Hh _ _ _ _ Hni) as (n0 & Hn0).
    assert (Hi : (N.to_nat i < n)%nat).
    { unfold get_node in Hn0. cbn [nodes net_init] in Hn0. assert (Hs : nth_error (repeat node_init n) (N.to_nat i) <> None) by congruence.
      apply nth_error_Some in Hs. rewrite repeat_length in Hs. exact Hs. }
    destruct (node_exists_fwd Sz Hh ops1 _ _ _ Hn0) as (ni1 & Hni1).
    rewrite cops_run_app. cbn [cops_run cl_ops]. rewrite N.eqb_refl.
    rewrite st_after_cl, cl_tr_app. change ([CCancel q] ++ ?l) with (CCancel q :: l). rewrite cl_tr_cons. apply silenced_tr.
    rewrite <- st_after_cl. cbn [cstep fst]. apply cancel_silences_state.
    - rewrite (count_gets_cops Sz Hh). exact Hq.
    - intros H. apply Hno. apply ev_keys_node. rewrite (net_client_events Sz Hh n _ i Hi), out_qids_out_evs. exact H.
    - rewrite <- (net_client_ghost Sz Hh n ops1 i ni1 Hni1). apply (Hqueue _ Hni1).
  Qed.

  (* ---------- theorem 4 in one piece: event OR (effective) cancel ---------- *)
  Theorem C13_net_query_released_all n ops i q ni :
    get_node (fst (nrun Sz Hh (net_init n) ops)) i = Some ni ->
    (In (i, q) (ev_keys (snd (nrun Sz Hh (net_init n) ops))) \/
     exists ops1 ops2, ops = ops1 ++ NCancel i q :: ops2 /\ q < count_ngets i ops1 /\
       forall ni1, get_node (fst (nrun Sz Hh (net_init n) ops1)) i = Some ni1 -> ~ In q (queue_qids (cs_queue (n_client ni1)))) ->
    ~ In q (c2q_qids (cs_c2q (n_client ni))) /\ ~ In q (queue_qids (cs_queue (n_client ni))) /\
    ~ In q (map fst (cs_abort (n_client ni))) /\
    (forall tid t c, In (tid, t) (cs_tasks (n_client ni)) -> t_kind t = TGet q c -> t_aborted t = true).
  Proof.
    intros Hni Hcase.
    assert (Hev : In (i, q) (ev_keys (snd (nrun Sz Hh (net_init n) ops))) ->
                  ~ In q (c2q_qids (cs_c2q (n_client ni))) /\ ~ In q (queue_qids (cs_queue (n_client ni))) /\
                  ~ In q (map fst (cs_abort (n_client ni))) /\
                  (forall tid t c, In (tid, t) (cs_tasks (n_client ni)) -> t_kind t = TGet q c -> t_aborted t = true)).
    { intros Hin. destruct (Net_proofs43.C13_net_query_released Sz Hh n ops i q ni Hni Hin) as (H1 & H2 & H3 & H4).
      split; [exact H2|]. split; [exact H3|]. split; [exact H4|]. intros tid t c Hin' Hk. exfalso. apply H1.
      unfold task_qids. apply in_flat_map. exists (tid, t). split; [exact Hin'|]. unfold task_qid. cbn [snd]. rewrite Hk. left. reflexivity. }
    destruct Hcase as [Hin|(ops1 & ops2 & -> & Hq & Hqueue)]; [apply Hev, Hin|].
    destruct (in_dec (fun a b : N * N => ltac:(decide equality; apply N.eq_dec)) (i, q) (ev_keys (snd (nrun Sz Hh (net_init n) ops1)))) as [Hin|Hno].
    - apply Hev. rewrite (nrun_app Sz Hh). cbn [snd]. rewrite ev_keys_app. apply in_app_iff. left. exact Hin.
    - apply (C13_net_query_cancel_released n ops1 i q ops2 ni Hq Hno Hqueue Hni).
  Qed.

  (* ---------- theorem 3 ---------- *)
  Theorem C13_net_client_bounded n ops :
    Forall (nop_good Sz Hh) ops ->
    let s := fst (nrun Sz Hh (net_init n) ops) in
    let evs := snd (nrun Sz Hh (net_init n) ops) in
    forall i ni, get_node s i = Some ni ->
    let cl := n_client ni in
    let g := cops_run Sz Hh (net_init n) ops i in
    (* 1. peers tracked: only connected ones, one entry each, one connection each *)
    (NoDup (map fst (cs_peers cl)) /\
     (forall p ps, In (p, ps) (cs_peers cl) -> Net.connected s i p = true /\ p_conns ps = [CONN]) /\
     (forall p, Net.connected s i p = false -> al_find N.eqb p (cs_peers cl) = None) /\
     (length (cs_peers cl) <= npeers s i)%nat) /\
    (* 2. request states of a peer: wantlist CIDs plus what left the wantlist since the peer's last generated wantlist *)
    (forall p ps, al_find N.eqb p (cs_peers cl) = Some ps ->
       NoDup (keys (p_wl ps)) /\
       (forall c, In c (keys (p_wl ps)) -> In c (wl_cids (cs_wl cl)) \/ In c (stale_cids p true g)) /\
       (length (req (p_wl ps)) <= length (cs_c2q cl) + length (stale_cids p true g))%nat) /\
    (* 3. the wantlist is the set of CIDs of live queries: a CID is in it iff cid_to_queries has an entry for it, every entry
          is non-empty and names queries of this node that were issued, have no event in the run's event list, no lookup task
          and no queued outcome *)
    (NoDup (wl_cids (cs_wl cl)) /\ NoDup (map fst (cs_c2q cl)) /\ NoDup (c2q_qids (cs_c2q cl)) /\
     length (wl_cids (cs_wl cl)) = length (cs_c2q cl) /\
     (forall c, In c (wl_cids (cs_wl cl)) <-> exists qs, In (c, qs) (cs_c2q cl)) /\
     (forall c qs, In (c, qs) (cs_c2q cl) ->
        qs <> [] /\
        forall q, In q qs ->
          q < count_ngets i ops /\ ~ In (i, q) (ev_keys evs) /\
          ~ In q (task_qids (cs_tasks cl)) /\ ~ In q (queue_qids (cs_queue cl)))) /\
    (* 4. tasks: lookups of queries that hold an abort handle + puts + aborted lookups waiting for the next poll *)
    (NoDup (map fst (cs_tasks cl)) /\
     (forall tid t, In (tid, t) (cs_tasks cl) ->
        match t_kind t with
        | TGet q _ => t_aborted t = false /\ In (q, tid) (cs_abort cl) \/ t_aborted t = true /\ In tid (cs_ready cl)
        | TPut bl => bl <> []
        end) /\
     length (cs_tasks cl) =
       (length (cs_abort cl) + length (filter aborted_get (cs_tasks cl)) + length (filter is_put (cs_tasks cl)))%nat /\
     (length (filter aborted_get (cs_tasks cl)) <= length (cs_ready cl))%nat /\
     NoDup (cs_ready cl) /\ incl (cs_ready cl) (map fst (cs_tasks cl)) /\
     NoDup (map fst (cs_abort cl)) /\
     (forall q tid, In (q, tid) (cs_abort cl) ->
        q < count_ngets i ops /\ exists c t, In (tid, t) (cs_tasks cl) /\ t_kind t = TGet q c /\ t_aborted t = false)) /\
    (* 5. the event queue: only outcomes of issued queries that have no event yet, each once *)
    ((forall p c f es, ~ In (EvSend p c f es) (cs_queue cl)) /\
     length (cs_queue cl) = length (queue_qids (cs_queue cl)) /\ NoDup (queue_qids (cs_queue cl)) /\
     (forall q, In q (queue_qids (cs_queue cl)) ->
        q < count_ngets i ops /\ ~ In (i, q) (ev_keys evs) /\
        ~ In q (task_qids (cs_tasks cl)) /\ ~ In q (c2q_qids (cs_c2q cl)))).
  Proof.
    intros Hg s evs i ni Hni cl g.
    pose proof (net_client_ghost Sz Hh n ops i ni Hni) as Hgh. fold cl g in Hgh.
    pose proof (reachable_ok Sz Hh HSz n ops Hg) as Hok. fold s in Hok.
    destruct (node_exists_back Sz Hh _ _ _ _ Hni) as (n0 & Hn0).
    assert (Hi : (N.to_nat i < n)%nat).
    { unfold get_node in Hn0. cbn [nodes net_init] in Hn0. assert (Hs : nth_error (repeat node_init n) (N.to_nat i) <> None) by congruence.
      apply nth_error_Some in Hs. rewrite repeat_length in Hs. exact Hs. }
    assert (Hevq : forall q, In (i, q) (ev_keys evs) <-> In q (out_qids (outs_after true g))).
    { intros q. unfold evs. rewrite ev_keys_node, (net_client_events Sz Hh n ops i Hi), out_qids_out_evs. reflexivity. }
    assert (Hcnt : count_gets g = count_ngets i ops) by apply (count_gets_cops Sz Hh).
    pose proof (Client_props2.C13_peers_bounded true g) as (Hp1 & _ & _). cbv zeta in Hp1. rewrite <- Hgh in Hp1.
    pose proof (Client_proofs5.C13_query_released true g) as (Hq1 & Hq2 & Hq3 & Hq4 & Hq5 & Hq6 & Hq7 & Hq8). rewrite <- Hgh in *.
    pose proof (Client_props2.C13_tasks_bounded true g) as (Ht1 & Ht2 & Ht3 & Ht4 & Ht5 & Ht6 & _). rewrite <- Hgh in *.
    pose proof (Client_props2.C13_queue_bounded true g) as (Hu1 & Hu2 & Hu3 & Hu4). rewrite <- Hgh in *.
    pose proof (INVH_run true g) as (_ & _ & _ & Hh4). rewrite <- Hgh in Hh4.
    assert (Hnq : cs_next_qid cl = count_gets g) by (rewrite Hgh; apply st_after_next_qid).
    split; [|split; [|split; [|split]]].
    - split; [exact Hp1|]. split; [intros p ps Hin; apply (Net_proofs43.C13_net_peers_connected Sz Hh n ops i p ni ps Hni Hin)|].
      split; [intros p Hc; apply (Net_proofs43.C13_net_client_released Sz Hh n ops i p ni Hni Hc)|].
      unfold npeers. rewrite <- (map_length fst (cs_peers cl)). apply NoDup_incl_length; [exact Hp1|].
      intros p Hp. apply in_map_iff in Hp. destruct Hp as ([p' ps] & <- & Hin). cbn [fst].
      apply (peers_of_In Sz Hh HSz s i p' Hok). apply (Net_proofs43.C13_net_peers_connected Sz Hh n ops i p' ni ps Hni Hin).
    - intros p ps Hf. pose proof (Client_props2.C13_req_states_bounded true g p ps) as H. cbv zeta in H. rewrite <- Hgh in H. apply H, Hf.
    - split; [exact Hq4|]. split; [exact Hq5|]. split; [exact Hq7|]. split; [|split].
      + rewrite <- (map_length fst (cs_c2q cl)). apply Nat.le_antisymm; apply NoDup_incl_length; try assumption; intros c Hc; apply Hq3, Hc.
      + intros c. rewrite Hq3. split.
        * intros Hin. apply in_map_iff in Hin. destruct Hin as ([c' qs] & <- & Hin). eauto.
        * intros (qs & Hin). apply in_map_iff. exists (c, qs). auto.
      + intros c qs Hin. split; [apply (Hq6 c qs Hin)|]. intros q Hq.
        assert (Hqq : In q (c2q_qids (cs_c2q cl))) by (unfold c2q_qids; apply in_flat_map; exists (c, qs); auto).
        destruct (Hq8 q Hqq) as (A & B & C & D). split; [rewrite <- Hcnt; exact A|]. split; [rewrite Hevq; exact B|]. auto.
    - split; [exact Ht1|]. split; [exact Ht2|]. split; [exact Ht3|]. split; [exact Ht4|]. split; [exact Ht5|]. split; [exact Ht6|].
      split; [exact Hq2|]. intros q tid Hin. pose proof Hin as Hin0. apply Hq1 in Hin. destruct Hin as (c & t & Hin & Hk & Ha).
      split; [|eauto]. rewrite <- Hcnt, <- Hnq. apply (Hh4 tid t q c Hin Hk).
    - split; [exact Hu1|]. split; [exact Hu2|]. split; [exact Hu3|]. intros q Hq. destruct (Hu4 q Hq) as (A & B & C & D).
      split; [rewrite <- Hcnt; exact A|]. split; [rewrite Hevq; exact B|]. auto.
  Qed.

  (* "after the last query for c got its event or was cancelled, c leaves the wantlist at once": contrapositive — a CID in the
     wantlist has a query that is issued, unanswered, and not cancelled (except possibly after its outcome was already queued) *)
  Theorem C13_net_wantlist_only_live n ops i ni c :
    get_node (fst (nrun Sz Hh (net_init n) ops)) i = Some ni ->
    In c (wl_cids (cs_wl (n_client ni))) ->
    exists q qs, In (c, qs) (cs_c2q (n_client ni)) /\ In q qs /\
      q < count_ngets i ops /\ ~ In (i, q) (ev_keys (snd (nrun Sz Hh (net_init n) ops))) /\
      forall ops1 ops2, ops = ops1 ++ NCancel i q :: ops2 -> q < count_ngets i ops1 ->
        exists ni1, get_node (fst (nrun Sz Hh (net_init n) ops1)) i = Some ni1 /\ In q (queue_qids (cs_queue (n_client ni1))).
  Proof.
    intros Hni Hc. pose proof (net_client_ghost Sz Hh n ops i ni Hni) as Hgh.
    pose proof (Client_proofs5.C13_query_released true (cops_run Sz Hh (net_init n) ops i)) as (_ & _ & Hq3 & _ & _ & Hq6 & _ & _).
    rewrite <- Hgh in *. apply Hq3 in Hc. apply in_map_iff in Hc. destruct Hc as ([c' qs] & <- & Hin). cbn [fst].
    pose proof (Hq6 _ _ Hin) as Hne. destruct qs as [|q qs]; [congruence|]. exists q, (q :: qs). split; [exact Hin|]. split; [left; reflexivity|].
    assert (Hqq : In q (c2q_qids (cs_c2q (n_client ni)))) by (unfold c2q_qids; apply in_flat_map; exists (c', q :: qs); split; [exact Hin | left; reflexivity]).
    destruct (Net_proofs43.C13_net_live_query_unanswered Sz Hh n ops i q ni Hni Hqq) as [A B]. split; [exact A|]. split; [exact B|].
    intros ops1 ops2 -> Hq1.
    destruct (node_exists_back Sz Hh _ _ _ _ Hni) as (n0 & Hn0). destruct (node_exists_fwd Sz Hh ops1 _ _ _ Hn0) as (ni1 & Hni1).
    exists ni1. split; [exact Hni1|].
    destruct (in_dec N.eq_dec q (queue_qids (cs_queue (n_client ni1)))) as [Hy|Hn]; [exact Hy|]. exfalso.
    assert (Hno : ~ In (i, q) (ev_keys (snd (nrun Sz Hh (net_init n) ops1)))).
    { intros H. apply B. rewrite (nrun_app Sz Hh). cbn [snd]. rewrite ev_keys_app. apply in_app_iff. left. exact H. }
    assert (Hqu : forall x, get_node (fst (nrun Sz Hh (net_init n) ops1)) i = Some x -> ~ In q (queue_qids (cs_queue (n_client x))))
      by (intros x Hx; rewrite Hni1 in Hx; injection Hx as <-; exact Hn).
    destruct (C13_net_query_cancel_released n ops1 i q ops2 ni Hq1 Hno Hqu Hni) as (H1 & _). exact (H1 Hqq).
  Qed.
End NetClientBounds.
