(* Corr_connhandler.v — engine `connhandler`: ONE real `ConnHandler` (lib.rs:306-406) driven as a whole — client
   half and server half over two scripted outbound substreams, several scripted inbound substreams, the real
   `ConnectionHandler::poll` / `poll_close` / `on_behaviour_event` / `on_connection_event(DialUpgradeError)` —
   (harness/src/e_connhandler.rs) against ConnHandler.v instantiated with the real codec, the real size function
   and the real `process_message` over the multihasher table given extensionally.

   Per op the harness reports the events in program order (`kev`), both HandlerSnapshots, the number of live
   inbound streams and `connection_keep_alive()`.  SelectAll's order among several woken inbound streams is its
   own business, so the IncomingMessage events are compared (a) by the POSITIONS at which they occur among the
   other events and (b) per stream (projection on each stream number); everything else is compared exactly. *)
From BS Require Export Bytes Varint Cid Prefix Hasher Proto Incoming Qp ProtoCodec Frame Framed Codec
                       Types FramedWrite Handler ServerHandler Streams ConnHandler.
From BS Require Corr_incoming Corr_handler Corr_srvhandler.
Open Scope N_scope.

Definition iout := Corr_incoming.iout.
Definition IoOk := Corr_incoming.IoOk.
Definition hsnap := Corr_handler.hsnap.
Definition HSnap := Corr_handler.HSnap.
Definition shsnap := Corr_srvhandler.shsnap.
Definition SHSnap := Corr_srvhandler.SHSnap.

(* an observed event *)
Inductive kev :=
| EIncoming (stream : N) (m : iout)      (* NotifyBehaviour(IncomingMessage); 999 = could not be attributed *)
| EClient (o : hout)
| EServer (o : shout)
| EInFatal                               (* `poll` panicked *)
| EUnexpected.                           (* an event this handler never produces *)

Inductive kin_t := KIn (c : conn) (cap : N) (chk : bool) (ops : list kop) (answers : list (N * bytes * hash_result)).
Definition ksnap := (hsnap * shsnap * N * bool)%type.        (* client half, server half, live inbound, keep_alive *)
Definition kobs := (list kev * ksnap)%type.
Definition case := (kin_t * list kobs)%type.

Definition in_ops (x : kin_t) : list kop := match x with KIn _ _ _ ops _ => ops end.
Definition in_conn (x : kin_t) : conn := match x with KIn c _ _ _ _ => c end.

Definition flat_inc (inc : incoming) : iout := Corr_incoming.flat (PmOk inc).

Definition kev_of (o : kout) : kev :=
  match o with
  | KIncoming k inc => EIncoming k (flat_inc inc)
  | KClient x => EClient x
  | KServer x => EServer x
  | KInFatal _ => EInFatal
  end.

Definition ksnap_of (st : kstate) : ksnap :=
  (Corr_handler.hsnap_of (k_client st), Corr_srvhandler.shsnap_of (k_server st), k_alive st, k_keep_alive st).

Section Inst.
Variables (cap : N) (H : hash_fn) (chk : bool).

Definition kstep_i := kstep codec_encode Corr_srvhandler.blk_size (qp_parse chk) (process_message cap H).

Fixpoint run_obs (st : kstate) (ops : list kop) : list kobs :=
  match ops with
  | [] => []
  | op :: ops' => let '(st', o) := kstep_i st op in (map kev_of o, ksnap_of st') :: run_obs st' ops'
  end.

Fixpoint run_final (st : kstate) (ops : list kop) : kstate :=
  match ops with
  | [] => st
  | op :: ops' => run_final (fst (kstep_i st op)) ops'
  end.
End Inst.

Definition model (x : kin_t) : list kobs :=
  match x with
  | KIn c cap chk ops answers => run_obs cap (Corr_incoming.lookup_answer answers) chk (k_init c) ops
  end.

Definition model_final (x : kin_t) : kstate :=
  match x with
  | KIn c cap chk ops answers => run_final cap (Corr_incoming.lookup_answer answers) chk (k_init c) ops
  end.

(* ---------- comparison ---------- *)
Definition n_inbound (ops : list kop) : N :=
  len (filter (fun o => match o with KInbound _ => true | _ => false end) ops).

(* an event with the contents of an IncomingMessage (and its stream) blanked: positions are compared *)
Definition kev_shape_eqb (a b : kev) : bool :=
  match a, b with
  | EIncoming _ _, EIncoming _ _ => true
  | EClient x, EClient y => Corr_handler.hout_eqb x y
  | EServer x, EServer y => Corr_srvhandler.shout_eqb x y
  | EInFatal, EInFatal => true
  | _, _ => false
  end.

Fixpoint of_stream_e (k : N) (l : list kev) : list iout :=
  match l with
  | [] => []
  | EIncoming j m :: r => if j =? k then m :: of_stream_e k r else of_stream_e k r
  | _ :: r => of_stream_e k r
  end.

Fixpoint seqN (n : nat) (start : N) : list N := match n with O => [] | S k => start :: seqN k (start + 1) end.

Definition streams_ok (n : N) (l : list kev) : bool :=
  forallb (fun e => match e with EIncoming j _ => j <? n | _ => true end) l.

Definition kevs_eqb (n : N) (a b : list kev) : bool :=
  list_eqb kev_shape_eqb a b
  && forallb (fun k => list_eqb Corr_incoming.iout_eqb (of_stream_e k a) (of_stream_e k b)) (seqN (N.to_nat n) 0)
  && streams_ok n b.

Definition ksnap_eqb (a b : ksnap) : bool :=
  let '(h1, s1, n1, k1) := a in
  let '(h2, s2, n2, k2) := b in
  Corr_handler.hsnap_eqb h1 h2 && Corr_srvhandler.shsnap_eqb s1 s2 && (n1 =? n2) && Bool.eqb k1 k2.

Definition kobs_eqb (n : N) (a b : kobs) : bool := kevs_eqb n (fst a) (fst b) && ksnap_eqb (snd a) (snd b).

(* a model run that ends `k_fatal` (class F2 inside a frame: never generated) is cut short by the harness at the
   op in which `poll` panicked; the observations up to there are compared all the same *)
Definition corr (x : case) : bool :=
  list_eqb (kobs_eqb (n_inbound (in_ops (fst x)))) (model (fst x)) (snd x).

Fixpoint first_diff (n i : N) (a b : list kobs) : option (N * bool * bool) :=
  match a, b with
  | [], [] => None
  | x :: a', y :: b' => if kobs_eqb n x y then first_diff n (i + 1) a' b'
                        else Some (i, kevs_eqb n (fst x) (fst y), ksnap_eqb (snd x) (snd y))
  | _, _ => Some (i, false, false)
  end.
(* index of the first op whose observations differ, whether its events agree, whether its snapshot agrees *)
Definition where_diff (x : case) := first_diff (n_inbound (in_ops (fst x))) 0 (model (fst x)) (snd x).
Definition model_at (x : case) (i : N) : option kobs := nth_error (model (fst x)) (N.to_nat i).
Definition obs_at (x : case) (i : N) : option kobs := nth_error (snd x) (N.to_nat i).

(* ---------- oracles, on the IMPLEMENTATION's observations only ---------- *)

(* the client half's view of the history: Corr_handler's case *)
Definition hop_of (op : kop) : list hop :=
  match op with
  | KSendWantlist w => [HSendWantlist w]
  | KSetStream RqClient => [HSetStream]
  | KAllocFailed RqClient => [HAllocFailed]
  | KAdvance ms => [HAdvance ms]
  | KPoll sc _ => [HPoll sc]
  | KPollClose sc => [HPollClose sc]
  | _ => []
  end.
Definition shop_of (op : kop) : list shop :=
  match op with
  | KQueue bs => [SHQueue bs]
  | KSetStream RqServer => [SHSetStream]
  | KPoll _ ss => [SHPoll ss]
  | _ => []
  end.

Definition client_evs (l : list kev) : list hout := flat_map (fun e => match e with EClient o => [o] | _ => [] end) l.
Definition server_evs (l : list kev) : list shout := flat_map (fun e => match e with EServer o => [o] | _ => [] end) l.

Fixpoint client_case_obs (ops : list kop) (obs : list kobs) : list Corr_handler.hobs :=
  match ops, obs with
  | op :: ops', ob :: obs' =>
      match hop_of op with
      | [] => client_case_obs ops' obs'
      | _ => (client_evs (fst ob), fst (fst (fst (snd ob)))) :: client_case_obs ops' obs'
      end
  | _, _ => []
  end.
Fixpoint server_case_obs (ops : list kop) (obs : list kobs) : list Corr_srvhandler.shobs :=
  match ops, obs with
  | op :: ops', ob :: obs' =>
      match shop_of op with
      | [] => server_case_obs ops' obs'
      | _ => (server_evs (fst ob), snd (fst (fst (snd ob)))) :: server_case_obs ops' obs'
      end
  | _, _ => []
  end.

Definition client_case (x : case) : Corr_handler.case :=
  ((in_conn (fst x), flat_map hop_of (in_ops (fst x))), client_case_obs (in_ops (fst x)) (snd x)).
Definition server_case (x : case) : Corr_srvhandler.case :=
  (flat_map shop_of (in_ops (fst x)), server_case_obs (in_ops (fst x)) (snd x)).

(* C14 (and C05, handler side): Ready is reported for a wantlist iff some client stream was written exactly its
   complete frame — Corr_handler's oracle on the client half's events as they come out of the WHOLE handler *)
Definition oracle_C14 (x : case) : bool := Corr_handler.oracle_C14 (client_case x).
Definition oracle_C05 (x : case) : bool := Corr_handler.oracle_C05 (client_case x).
(* C09 outbound: what the server half's streams were written is a sequence of frames within the size limit whose
   payloads, in order, are the queued blocks *)
Definition oracle_C09 (x : case) : bool := Corr_srvhandler.oracle_C09 (server_case x).

(* C16: per inbound stream, the IncomingMessages attributed to it over the whole history are a prefix of what
   that stream's bytes alone yield (Streams.stream_out on its own read events), whatever the other streams, the
   two halves and their scripts do; all of it once the stream has been given enough KPolls (one per ReadPending
   event, plus one); no event is unattributed; nothing panicked *)
Fixpoint inbound_streams (ops : list kop) : list (list read_ev) :=
  match ops with
  | [] => []
  | KInbound evs :: r => evs :: inbound_streams r
  | _ :: r => inbound_streams r
  end.

(* number of KPoll ops after the k-th KInbound *)
Fixpoint polls_after (k : N) (ops : list kop) : N :=
  match ops with
  | [] => 0
  | KInbound _ :: r => if k =? 0 then len (filter (fun o => match o with KPoll _ _ => true | _ => false end) r)
                       else polls_after (k - 1) r
  | _ :: r => polls_after k r
  end.

Definition n_pending (evs : list read_ev) : N :=
  len (filter (fun e => match e with ReadPending => true | _ => false end) evs).

Fixpoint is_prefix_io (a b : list iout) : bool :=
  match a, b with
  | [], _ => true
  | x :: a', y :: b' => Corr_incoming.iout_eqb x y && is_prefix_io a' b'
  | _ :: _, [] => false
  end.

Fixpoint indexed {A} (i : N) (l : list A) : list (N * A) := match l with [] => [] | x :: r => (i, x) :: indexed (i + 1) r end.

Definition client_panicked (x : case) : bool :=
  existsb (fun ob => existsb (fun e => match e with EClient HPanic => true | _ => false end) (fst ob)) (snd x).

Definition oracle_C16 (x : case) : bool :=
  match fst x with
  | KIn c cap chk ops answers =>
      let all := flat_map fst (snd x) in
      let streams := inbound_streams ops in
      forallb (fun e => match e with EInFatal | EUnexpected => false | _ => true end) all
      && streams_ok (len streams) all
      && forallb (fun ke =>
                    let '(k, evs) := ke in
                    let '(ms, fin) := stream_out cap (Corr_incoming.lookup_answer answers) chk evs in
                    if sfinal_fatal fin then true else
                    let want := map flat_inc ms in
                    let got := of_stream_e k all in
                    is_prefix_io got want
                    && (if (n_pending evs <? polls_after k ops) && negb (client_panicked x)
                        then Nat.eqb (length got) (length want) else true))
                 (indexed 0 streams)
  end.

Definition oracle (x : case) : bool := oracle_C14 x && oracle_C05 x && oracle_C09 x && oracle_C16 x.

(* distribution helpers *)
Definition n_incoming_events (x : case) : N :=
  len (filter (fun e => match e with EIncoming _ _ => true | _ => false end) (flat_map fst (snd x))).
