(* Net_proofs7.v — package F: every CID a client handles is well formed (it came from a `CidGeneric` value
   of the application), so its wire form parses back to itself at the peer. *)
From BS Require Import Wantlist_proofs Client_proofs Client_proofs2 Client_proofs3 Client_proofs4 Convert_proofs
  Net Net_proofs2 Net_proofs3 Net_proofs5 Net_proofs6.
From Coq Require Import ZArith ZifyBool ZifyN ZifyNat Lia.
Open Scope N_scope.

Section CidsWf.
  Variable Wf : cid -> Prop.

  Record CW (c : cstate) : Prop := MkCW {
    cw_wl : forall x, In x (wl_cids (cs_wl c)) -> Wf x;
    cw_req : forall p ps x, In (p, ps) (cs_peers c) -> In x (map fst (req (p_wl ps))) -> Wf x;
    cw_tasks : forall tid t q x, In (tid, t) (cs_tasks c) -> t_kind t = TGet q x -> Wf x
  }.

  Lemma CW_same c c' :
    cs_wl c' = cs_wl c -> cs_peers c' = cs_peers c -> cs_tasks c' = cs_tasks c -> CW c -> CW c'.
  Proof. intros E1 E2 E3 [H1 H2 H3]. constructor; rewrite ?E1, ?E2, ?E3; assumption. Qed.

  Lemma CW_init sdh : CW (cinit sdh).
  Proof. constructor; cbn; [intros x [] | intros p ps x [] | intros tid t q x []]. Qed.

  Lemma CW_after_tasks c : CW c -> CW (after_tasks c).
  Proof.
    intros [H1 H2 H3]. destruct (after_tasks_frame c) as (_ & Ew & Ep & _). constructor; rewrite ?Ew, ?Ep; try assumption.
    intros tid t q x Hin Hk. destruct (proj1 (after_tasks_tasks c) _ _ Hin) as (t0 & Hin0 & (K & _)). eapply H3; [exact Hin0 | rewrite <- K; exact Hk].
  Qed.

  Lemma wanted_again_keys s c x : In x (map fst (req (wls_wanted_again s c))) -> In x (map fst (req s)).
  Proof.
    unfold wls_wanted_again. destruct (al_find cid_eqb c (req s)) as [[]|]; auto. cbn [req]. unfold al_remove.
    intros H. apply in_map_iff in H. destruct H as (e & <- & He). apply filter_In in He. apply in_map, He.
  Qed.

  Lemma CW_handle c r : CW c -> (forall q x res, r = TrGet q x res -> Wf x) -> CW (fst (handle_task_result c r)).
  Proof.
    intros HC Hr. pose proof HC as [H1 H2 H3]. destruct r as [q x res|ok bl|]; cbn [handle_task_result].
    - destruct res; cbn [fst]; try (eapply CW_same; [..|exact HC]; reflexivity).
      cbn [set_abort cs_wl]. unfold wl_insert. destruct (cid_mem x (wl_cids (cs_wl c))) eqn:M.
      + eapply CW_same; [..|exact HC]; reflexivity.
      + constructor; cbn [fst set_c2q set_peers set_wl set_abort cs_wl cs_peers cs_tasks wl_cids]; try assumption.
        * intros y Hy. apply in_app_iff in Hy. destruct Hy as [Hy|[Heq|[]]]; [apply H1, Hy | subst y; eapply Hr; reflexivity].
        * intros p ps y Hin Hy. unfold wanted_again_all in Hin. apply in_map_iff in Hin.
          destruct Hin as ([p0 ps0] & [= <- <-] & Hin). cbn [fst snd p_wl] in Hy. apply wanted_again_keys in Hy. eapply H2; eassumption.
    - destruct ok; cbn [fst]; [|exact HC]. exact (CW_same c (set_new_blocks c (cs_new_blocks c ++ bl)) eq_refl eq_refl eq_refl HC).
    - cbn [fst]. exact HC.
  Qed.

  Lemma gen_keys_sub (full : bool) s w x :
    In x (map fst (req (snd (if full then wls_generate_full s w else wls_generate_update s w)))) ->
    In x (wl_cids w) \/ In x (map fst (req s)).
  Proof.
    destruct full.
    - intros H. left. apply gen_full_keys in H. exact H.
    - rewrite gen_update_unfold. destruct (wls_is_updated s w); [auto|]. intros H. left. apply upd_body_keys in H. exact H.
  Qed.

  Lemma uh_peer_keys now w ch p ps x :
    let '(ps', _, _, _) := uh_peer now w ch p ps in
    In x (map fst (req (p_wl ps'))) -> In x (wl_cids w) \/ In x (map fst (req (p_wl ps))).
  Proof.
    assert (Hg : forall ps1, uh_gate now ps = Some ps1 -> p_wl ps1 = p_wl ps).
    { unfold uh_gate. intros ps1. destruct (p_ss ps) as [|t c|t c|t c|c]; try discriminate.
      - intros [= <-]. reflexivity.
      - destruct (now - t <? RECEIVE_REQUEST_TIMEOUT); [discriminate|]. intros [= <-]. reflexivity.
      - intros [= <-]. reflexivity. }
    pose proof (uh_peer_case now w ch p ps) as Hc. destruct (uh_peer now w ch p ps) as [[[ps' evs] outs] dead].
    inversion Hc as [Hgt | ps1 Hgt Hcn | ps1 wls' conns Hgt Hcn Hne Hsf Hgen | ps1 es wls' c0 bad conns sf Hgt Hcn Hsf Hgen Hsend Hin Hbad Hch]; subst.
    - auto.
    - rewrite (Hg _ Hgt). auto.
    - cbn [p_wl]. intros H. pose proof (gen_keys_sub false (p_wl ps1) w x) as K. cbn iota in K. rewrite Hgen in K. rewrite <- (Hg _ Hgt). apply K, H.
    - cbn [p_wl]. intros H. pose proof (gen_keys_sub (p_send_full ps1) (p_wl ps1) w x) as K. rewrite Hgen in K. rewrite <- (Hg _ Hgt). apply K, H.
  Qed.

  Lemma CW_update_handlers c ch : CW c -> CW (fst (fst (Client.update_handlers c ch))).
  Proof.
    intros [H1 H2 H3]. unfold Client.update_handlers. rewrite uh_loop_flat. cbn [fst set_queue set_peers].
    constructor; cbn [cs_wl cs_peers cs_tasks]; try assumption.
    intros p ps' x Hin Hx. apply uh_keep_in in Hin. destruct Hin as (ps & Hin & Hk).
    unfold uh_keep in Hk. cbn [fst snd] in Hk. pose proof (uh_peer_keys (cs_now c) (cs_wl c) ch p ps x) as K.
    destruct (uh_peer (cs_now c) (cs_wl c) ch p ps) as [[[ps1 evs] outs] dead]. destruct dead; [destruct Hk|].
    destruct Hk as [[= <-]|[]]. destruct (K Hx) as [Hw|Hr]; [apply H1, Hw | eapply H2; eassumption].
  Qed.

  Lemma res_get_wf c q x res : CW c -> tasks_res c = Some (TrGet q x res) -> Wf x.
  Proof.
    intros HC Hr. pose proof (proj2 (after_tasks_tasks c)) as H. rewrite Hr in H.
    destruct H as (tid & t & t0 & Hin & (K & _) & (Hk & _)). eapply (cw_tasks c HC); [exact Hin | rewrite <- K; exact Hk].
  Qed.

  Lemma CW_poll_iter ch c : CW c -> CW (fst (fst (poll_iter ch c))).
  Proof.
    intros HC.
    destruct (poll_iter_cases ch c) as [(ev & q & Hq & ->) | [(Hq & Ht & ->) | [(r & Hq & Ht & Hr & ->) | (Hq & Ht & Hr & ->)]]];
      cbn [fst snd].
    - eapply CW_same; [..|exact HC]; reflexivity.
    - destruct HC as [H1 H2 H3]. constructor; cbn [fire_timer cs_wl cs_peers cs_tasks]; try assumption.
      intros p ps x Hin Hx. apply in_map_iff in Hin. destruct Hin as ([p0 ps0] & [= <- <-] & Hin). cbn [fst snd p_wl] in Hx. eapply H2; eassumption.
    - apply CW_handle; [apply CW_after_tasks, HC|]. intros q x res ->. eapply res_get_wf; eassumption.
    - apply CW_update_handlers, CW_after_tasks, HC.
  Qed.

  Lemma abort_kinds c q k t' : In (k, t') (cs_tasks (cancel_abort c q)) -> exists t, In (k, t) (cs_tasks c) /\ t_kind t' = t_kind t.
  Proof. apply cancel_abort_kinds. Qed.

  Lemma CW_step c o :
    CW c -> (forall x, o = CGet (Some x) -> Wf x) -> CW (fst (cstep c o)).
  Proof.
    intros HC Ho. pose proof HC as [H1 H2 H3]. destruct o; cbn [cstep fst].
    - unfold c_new_conn. destruct (al_mem N.eqb p (cs_peers c)); constructor; cbn [set_peers cs_wl cs_peers cs_tasks]; try assumption.
      + intros k ps x Hin Hx. apply in_al_modify in Hin. destruct Hin as (ps0 & Hin0 & ->). destruct (p =? k); cbn in Hx; eapply H2; eassumption.
      + intros k ps x Hin Hx. apply in_peers_ins in Hin. destruct Hin as [[= -> ->]|Hin]; [destruct Hx | eapply H2; eassumption].
    - unfold c_conn_closed. destruct (al_find N.eqb p (cs_peers c)); [|exact HC].
      destruct (p_conns (remove_conn c0 p0)); constructor; cbn [set_peers cs_wl cs_peers cs_tasks]; try assumption.
      + intros k ps x Hin Hx. unfold al_remove in Hin. apply filter_In in Hin. eapply H2; [apply Hin | exact Hx].
      + intros k ps x Hin Hx. apply in_al_modify in Hin. destruct Hin as (ps0 & Hin0 & ->). destruct (p =? k); cbn in Hx; eapply H2; eassumption.
    - unfold c_get. destruct c0 as [x|]; cbn [fst]; constructor; cbn [set_abort push_task bump_qid set_queue cs_wl cs_peers cs_tasks]; try assumption.
      intros tid t q y Hin Hk. apply in_app_iff in Hin. destruct Hin as [Hin|[[= <- <-]|[]]]; [eapply H3; eassumption|].
      cbn in Hk. injection Hk as <- <-. apply Ho. reflexivity.
    - rewrite c_cancel_unfold. cbv zeta. destruct (cancel_abort_frame c q) as (_ & _ & _ & Ew & Ep & _).
      assert (Ht : forall tid t q0 y, In (tid, t) (cs_tasks (cancel_abort c q)) -> t_kind t = TGet q0 y -> Wf y).
      { intros tid t q0 y Hin Hk. apply cancel_abort_kinds in Hin. destruct Hin as (t0 & Hin0 & E). eapply H3; [exact Hin0 | rewrite <- E; exact Hk]. }
      destruct (find_query q (cs_c2q (cancel_abort c q))) as [[x qs]|]; [destruct (swap_remove_q q qs)|];
        constructor; cbn [set_wl set_c2q cs_wl cs_peers cs_tasks]; rewrite ?Ew, ?Ep; try assumption.
      intros y. unfold wl_remove. destruct (cid_mem x (wl_cids (cs_wl c))); cbn [fst wl_cids]; [|apply H1].
      intros Hy. apply cid_remove_In in Hy. apply H1, Hy.
    - unfold c_incoming. destruct (al_find N.eqb p (cs_peers c)) as [ps|] eqn:E; [|exact HC].
      apply (al_find_some_in _ Neqb_spec) in E.
      set (a0 := MkInc (cs_wl c) (fold_left apply_presence pres (p_wl ps)) (cs_c2q c) (cs_queue c) [] false).
      set (a := fold_left inc_block blocks a0).
      assert (Hpres : forall l s0 y, In y (map fst (req (fold_left apply_presence l s0))) -> In y (map fst (req s0))).
      { induction l as [|pr l IH]; intros s0 y; cbn [fold_left]; [auto|]. intros H. apply IH in H. unfold apply_presence in H.
        destruct (snd pr); [unfold wls_got_have in H | unfold wls_got_dont_have in H]; cbn [req] in H; rewrite al_modify_keys in H; exact H. }
      assert (Hblocks : forall bl a1 y, (In y (wl_cids (ia_wl (fold_left inc_block bl a1))) -> In y (wl_cids (ia_wl a1))) /\
                                        (In y (map fst (req (ia_pwl (fold_left inc_block bl a1)))) -> In y (map fst (req (ia_pwl a1))))).
      { induction bl as [|b bl IH]; intros a1 y; cbn [fold_left]; [auto|]. destruct (IH (inc_block a1 b) y) as [I1 I2].
        assert (Hone : (In y (wl_cids (ia_wl (inc_block a1 b))) -> In y (wl_cids (ia_wl a1))) /\
                       (In y (map fst (req (ia_pwl (inc_block a1 b)))) -> In y (map fst (req (ia_pwl a1))))).
        { unfold inc_block. destruct (ia_panic a1); [auto|]. destruct b as [x d]. unfold wl_remove.
          destruct (cid_mem x (wl_cids (ia_wl a1))); cbn [negb].
          - cbn [ia_wl ia_pwl wl_cids]. split; [intros Hy; apply cid_remove_In in Hy; apply Hy|].
            unfold wls_got_block. cbn [req]. rewrite al_modify_keys. auto.
          - destruct (al_mem cid_eqb x (ia_c2q a1)); auto. }
        destruct Hone. split; auto. }
      assert (Hbase : CW (MkCs (ia_queue a) (ia_wl a)
                            (al_modify N.eqb p (fun ps0 => MkPeer (p_conns ps0) (p_ss ps0) (ia_pwl a) (p_send_full ps0)) (cs_peers c))
                            (ia_c2q a) (cs_tasks c) (cs_ready c) (cs_next_task c) (cs_abort c) (cs_next_qid c)
                            (cs_deadline c) (cs_new_blocks c) (cs_now c) (cs_next_call c))).
      { constructor; cbn [cs_wl cs_peers cs_tasks]; try assumption.
        - intros y Hy. apply (proj1 (Hblocks blocks a0 y)) in Hy. apply H1, Hy.
        - intros k ps' y Hin Hy. apply in_al_modify in Hin. destruct Hin as (ps0 & Hin0 & ->). destruct (p =? k) eqn:Ek.
          + cbn [snd p_wl] in Hy. apply (proj2 (Hblocks blocks a0 y)) in Hy. cbn [a0 ia_pwl] in Hy. apply Hpres in Hy. eapply H2; [exact E | exact Hy].
          + eapply H2; eassumption. }
      fold a0. fold a. destruct (ia_panic a); [exact Hbase|]. destruct (ia_new a) as [|b nb]; [exact Hbase|]. cbn [fst].
      destruct Hbase as [B1 B2 B3]. constructor; cbn [push_task cs_wl cs_peers cs_tasks] in *; try assumption.
      intros tid t q y Hin Hk. apply in_app_iff in Hin. destruct Hin as [Hin|[[= <- <-]|[]]]; [eapply B3; eassumption | discriminate].
    - constructor; cbn [c_report set_peers cs_wl cs_peers cs_tasks]; try assumption.
      intros k ps x Hin Hx. apply in_al_modify in Hin. destruct Hin as (ps0 & Hin0 & ->).
      destruct (p =? k); [destruct (report_accepted ps0 c0)|]; cbn in Hx; eapply H2; eassumption.
    - unfold c_release. destruct (find (call_is call) (cs_tasks c)) as [[tid t]|]; [|exact HC].
      constructor; cbn [set_tasks cs_wl cs_peers cs_tasks]; try assumption.
      intros k t' q y Hin Hk. apply in_al_modify in Hin. destruct Hin as (t0 & Hin0 & ->). eapply H3; [exact Hin0|].
      destruct (tid =? k); exact Hk.
    - eapply CW_same; [..|exact HC]; reflexivity.
    - unfold c_poll. apply poll_loop_inv; [apply CW_poll_iter | exact HC].
    - eapply CW_same; [..|exact HC]; reflexivity.
  Qed.
End CidsWf.

(* ---------- at the net level ---------- *)
Section NetWf.
  Variables (Sz : N) (Hh : hash_fn).
  Hypothesis HSz : 32 <= Sz.

  Definition nop_wf (o : nop) : Prop := match o with NGet _ c => wf_cid Sz c | _ => True end.

  Definition net_wf (s : net) : Prop := forall i n, get_node s i = Some n -> CW (wf_cid Sz) (n_client n).

  Inductive csteps : cstate -> cstate -> Prop :=
  | cs_refl c : csteps c c
  | cs_step c o c' : (forall x, o = CGet (Some x) -> wf_cid Sz x) -> csteps (fst (cstep c o)) c' -> csteps c c'.

  Lemma csteps_CW c c' : csteps c c' -> CW (wf_cid Sz) c -> CW (wf_cid Sz) c'.
  Proof. induction 1 as [c|c o c' Ho _ IH]; intros HC; [exact HC|]. apply IH, CW_step; assumption. Qed.

  Lemma csteps_one c o : (forall x, o = CGet (Some x) -> wf_cid Sz x) -> csteps c (fst (cstep c o)).
  Proof. intros Ho. eapply cs_step; [exact Ho | apply cs_refl]. Qed.

  Lemma csteps_trans a b c : csteps a b -> csteps b c -> csteps a c.
  Proof. induction 1 as [a|a o b Ho _ IH]; intros H; [exact H|]. eapply cs_step; [exact Ho | apply IH, H]. Qed.

  (* each step of the net moves every client by client steps *)
  Definition moved (s s' : net) : Prop :=
    forall k n', get_node s' k = Some n' -> exists n, get_node s k = Some n /\ csteps (n_client n) (n_client n').

  Lemma moved_refl s : moved s s.
  Proof. intros k n' H. exists n'. split; [exact H | apply cs_refl]. Qed.

  Lemma moved_trans a b c : moved a b -> moved b c -> moved a c.
  Proof.
    intros H1 H2 k n'' Hk. destruct (H2 _ _ Hk) as (n' & Hk' & S2). destruct (H1 _ _ Hk') as (n & Hk0 & S1).
    exists n. split; [exact Hk0 | eapply csteps_trans; eassumption].
  Qed.

  Lemma moved_set_node s i n n' : get_node s i = Some n -> csteps (n_client n) (n_client n') -> moved s (set_node s i n').
  Proof.
    intros Hg Hs k nk Hk. destruct (N.eq_dec i k) as [<-|Hne].
    - rewrite (get_set_eq _ _ _ _ Hg) in Hk. injection Hk as <-. eauto.
    - rewrite get_set_neq in Hk by assumption. exists nk. split; [exact Hk | apply cs_refl].
  Qed.

  Lemma moved_on_node s i f : (forall n, csteps (n_client n) (n_client (f n))) -> moved s (on_node s i f).
  Proof.
    intros Hf. unfold on_node. destruct (get_node s i) as [n|] eqn:E; [|apply moved_refl]. eapply moved_set_node; [exact E | apply Hf].
  Qed.

  Lemma moved_wires s ww wb : moved s (MkNet (nodes s) (conns s) ww wb (now s)).
  Proof. intros k n' H. exists n'. split; [exact H | apply cs_refl]. Qed.

  Lemma moved_conns s n' cc ww wb : (forall k, get_node (MkNet n' cc ww wb (now s)) k = get_node (MkNet n' (conns s) (wire_w s) (wire_b s) (now s)) k).
  Proof. reflexivity. Qed.

  Lemma no_get o : match o with CGet _ => False | _ => True end -> forall x, o = CGet (Some x) -> wf_cid Sz x.
  Proof. intros H x ->. destruct H. Qed.

  Lemma hand_over_moved s i L : forall acc, csteps (n_client (fst acc)) (n_client (fst (fold_left (hand_over s i) L acc))).
  Proof.
    induction L as [|x L IH]; intros acc; cbn [fold_left]; [apply cs_refl|].
    eapply csteps_trans; [|apply IH]. destruct x as [[[p c] f] es]. unfold hand_over. destruct (Net.connected s i p); cbn [fst]; [|apply cs_refl].
    unfold node_report. cbn [n_client]. apply csteps_one, no_get. exact I.
  Qed.

  Lemma node_incoming_moved n p m : csteps (n_client n) (n_client (fst (node_incoming Sz Hh n p m))).
  Proof.
    unfold node_incoming. destruct (process_message Sz Hh m) as [inc| |]; cbn [fst]; try apply cs_refl.
    destruct (in_client inc) as [cm|].
    - destruct (cstep (n_client n) (CIncoming p (map to_pres (cm_presences cm)) (cm_blocks cm))) as [c1 o1] eqn:E. cbn [fst n_client].
      replace c1 with (fst (cstep (n_client n) (CIncoming p (map to_pres (cm_presences cm)) (cm_blocks cm)))) by (rewrite E; reflexivity).
      apply csteps_one, no_get. exact I.
    - cbn [fst n_client]. apply cs_refl.
  Qed.

  Lemma moved_nodes s s2 s' : nodes s' = nodes s2 -> moved s s2 -> moved s s'.
  Proof. intros E H k n' Hk. apply H. unfold get_node in *. rewrite <- E. exact Hk. Qed.

  Lemma moved_two s i j ni nj ni' nj' :
    i <> j -> get_node s i = Some ni -> get_node s j = Some nj ->
    csteps (n_client ni) (n_client ni') -> csteps (n_client nj) (n_client nj') ->
    moved s (set_node (set_node s i ni') j nj').
  Proof.
    intros Hij Ei Ej Si Sj. eapply moved_trans; [exact (moved_set_node s i ni ni' Ei Si)|].
    apply (moved_set_node (set_node s i ni') j nj nj'); [rewrite get_set_neq by exact Hij; exact Ej | exact Sj].
  Qed.

  Theorem nstep_moved s o : net_ok Sz Hh s -> nop_wf o -> moved s (fst (nstep Sz Hh s o)).
  Proof.
    intros Hok Ho. destruct o; cbn [nstep fst].
    - unfold do_connect. destruct (get_node s i) as [ni|] eqn:Ei; [|apply moved_refl]. destruct (get_node s j) as [nj|] eqn:Ej; [|apply moved_refl].
      destruct ((i =? j) || Net.connected s i j) eqn:E; [apply moved_refl|]. apply orb_false_iff in E. destruct E as [E _]. apply N.eqb_neq in E.
      eapply moved_nodes; [reflexivity|]. apply (moved_two s i j ni nj); try assumption;
        unfold node_connected; cbn [n_client]; apply csteps_one, no_get; exact I.
    - unfold do_disconnect. destruct (get_node s i) as [ni|] eqn:Ei; [|apply moved_refl]. destruct (get_node s j) as [nj|] eqn:Ej; [|apply moved_refl].
      destruct (Net.connected s i j) eqn:E; [|apply moved_refl]. destruct (connected_neq Sz Hh HSz s i j Hok E) as (Hij & _).
      eapply moved_nodes; [reflexivity|]. apply (moved_two s i j ni nj); try assumption;
        unfold node_disconnected; cbn [n_client]; apply csteps_one, no_get; exact I.
    - apply moved_on_node. intros n. unfold node_get. cbn [n_client]. apply csteps_one. intros x [= E]. cbn in Ho.
      destruct (convert_cid_iff Sz Sz c Ho) as (_ & H2 & _). rewrite (H2 _ E). exact Ho.
    - apply moved_on_node. intros n. unfold node_cancel. cbn [n_client]. apply csteps_one, no_get. exact I.
    - apply moved_on_node. intros n. cbn [node_put n_client]. apply cs_refl.
    - apply moved_on_node. intros n. cbn [node_evict n_client]. apply cs_refl.
    - intros k n' Hk. unfold get_node in Hk. cbn [nodes] in Hk. rewrite nth_error_map in Hk.
      destruct (nth_error (nodes s) (N.to_nat k)) as [n|] eqn:E; [|discriminate]. injection Hk as <-. exists n. split; [exact E|].
      unfold node_advance. cbn [n_client]. apply csteps_one, no_get. exact I.
    - unfold do_poll. destruct (get_node s i) as [n|] eqn:Ei; [|apply moved_refl].
      destruct (node_poll Sz n) as [n1 o] eqn:En. 
      pose proof (hand_over_moved s i (o_wants o) (n1, [])) as Hh1.
      destruct (fold_left (hand_over s i) (o_wants o) (n1, [])) as [n2 ws]. cbn [fst snd] in *.
      eapply moved_nodes with (s2 := set_node s i n2); [reflexivity|]. apply (moved_set_node s i n n2 Ei).
      eapply csteps_trans; [|exact Hh1]. unfold node_poll in En.
      destruct (cstep (n_client n) (CPoll [])) as [c1 o1] eqn:E1. destruct (cstep c1 CTakeNewBlocks) as [c2 o2] eqn:E2.
      destruct (srv Sz match cl_new_blocks o2 with [] => n_server n | _ :: _ => fst (srv Sz (n_server n) (SNewBlocks (cl_new_blocks o2))) end SPoll) as [s2 o3].
      injection En as <- _. cbn [n_client].
      replace c2 with (fst (cstep c1 CTakeNewBlocks)) by (rewrite E2; reflexivity).
      replace c1 with (fst (cstep (n_client n) (CPoll []))) by (rewrite E1; reflexivity).
      eapply csteps_trans; apply csteps_one, no_get; exact I.
    - apply moved_on_node. intros n. unfold node_store. destruct (nth_error (n_calls n) (N.to_nat k)) as [[m c|m bl|m c]|]; cbn [n_client];
        try apply cs_refl; apply csteps_one, no_get; exact I.
    - unfold do_deliver_w. destruct (take_first (w_between i j) (wire_w s)) as [[m rest]|]; [|apply moved_refl].
      set (s0 := MkNet (nodes s) (conns s) rest (wire_b s) (now s)).
      destruct (get_node s0 i) as [ni|] eqn:Ei; [|apply moved_wires]. destruct (get_node s0 j) as [nj|] eqn:Ej; [|apply moved_wires].
      pose proof (node_incoming_moved nj i (wantlist_message (wl_sdh (cs_wl (n_client ni))) (wm_full m) (wm_entries m))) as Hm.
      destruct (node_incoming Sz Hh nj i (wantlist_message (wl_sdh (cs_wl (n_client ni))) (wm_full m) (wm_entries m))) as [nj1 evs].
      cbn [fst] in *. eapply moved_trans; [apply (moved_wires s rest (wire_b s))|]. fold s0.
      eapply moved_trans; [exact (moved_set_node s0 j nj nj1 Ej Hm)|].
      apply moved_on_node. intros n. unfold node_report. cbn [n_client]. apply csteps_one, no_get. exact I.
    - unfold do_deliver_b. destruct (take_first (b_between j i) (wire_b s)) as [[m rest]|]; [|apply moved_refl].
      destruct (get_node s i) as [ni|] eqn:Ei; [|apply moved_wires].
      pose proof (node_incoming_moved ni j (blocks_message (bm_blocks m))) as Hm.
      destruct (node_incoming Sz Hh ni j (blocks_message (bm_blocks m))) as [ni1 evs]. cbn [fst] in *.
      eapply moved_nodes with (s2 := set_node s i ni1); [reflexivity|]. exact (moved_set_node s i ni ni1 Ei Hm).
  Qed.

  Theorem net_wf_step s o : net_ok Sz Hh s -> nop_wf o -> net_wf s -> net_wf (fst (nstep Sz Hh s o)).
  Proof.
    intros Hok Ho Hw k n' Hk. destruct (nstep_moved s o Hok Ho k n' Hk) as (n & Hn & Hs). eapply csteps_CW; [exact Hs | apply (Hw _ _ Hn)].
  Qed.

  Lemma net_wf_init n : net_wf (net_init n).
  Proof.
    intros i nd Hg. unfold get_node in Hg. cbn [nodes net_init] in Hg. apply nth_error_In, repeat_spec in Hg. subst nd. apply CW_init.
  Qed.
End NetWf.
