(* Net_props4.v — package K: every node's client half IS Client.v run on what the net delivered.  The ghost `cops_run`
   (Net_proofs40) is exact for EVERY op list, so the registered client theorems (Props_C03 / C05 / C13 …, all of the form
   "for st_after sdh ops, any op list") hold inside every net; the corollaries below restate them about the net's
   observable history (events, wire).  Statements restated verbatim from the proof files and closed by `exact`;
   non-vacuity examples by vm_compute on the scenario op lists of Net_proofs.v / Net_props.v. *)
From BS Require Import Types Wantlist Wantlist_proofs2 Client Client_proofs Client_proofs4 Net Net_proofs Net_proofs6 Net_props
  Net_proofs2 Net_proofs5 Net_proofs21 Net_proofs40 Net_proofs41 Net_proofs42 Net_proofs43 Net_proofs44 Net_proofs45 Net_proofs46 Net_proofs47 Server.
From Coq Require Import ZArith Lia.
Open Scope N_scope.

(* ---------- 1. the ghost ---------- *)
(* the client half of node i after ANY run from the initial net is Client.v run on the ghost *)
Theorem net_client_ghost (Sz : N) (Hh : hash_fn) n ops i ni :
  get_node (fst (nrun Sz Hh (net_init n) ops)) i = Some ni ->
  n_client ni = st_after true (cops_run Sz Hh (net_init n) ops i).
Proof. exact (Net_proofs40.net_client_ghost Sz Hh n ops i ni). Qed.

(* the same from any start state, together with the events *)
Theorem net_client_ghost_from (Sz : N) (Hh : hash_fn) ops s k n' :
  get_node (fst (nrun Sz Hh s ops)) k = Some n' ->
  exists n, get_node s k = Some n /\ n_client n' = cl_tr (n_client n) (cops_run Sz Hh s ops k) /\
            node_evs k (snd (nrun Sz Hh s ops)) = out_evs (cl_outs (n_client n) (cops_run Sz Hh s ops k)).
Proof. exact (Net_proofs40.cl_run_ok Sz Hh ops s k n'). Qed.

(* the Response / Error events of node i, in order, are the OResponse / OError outputs of its client *)
Theorem net_client_events (Sz : N) (Hh : hash_fn) n ops i :
  (N.to_nat i < n)%nat ->
  node_evs i (snd (nrun Sz Hh (net_init n) ops)) = out_evs (outs_after true (cops_run Sz Hh (net_init n) ops i)).
Proof. exact (Net_proofs40.net_client_events Sz Hh n ops i). Qed.

Theorem net_no_node_no_events (Sz : N) (Hh : hash_fn) n ops i :
  (n <= N.to_nat i)%nat -> node_evs i (snd (nrun Sz Hh (net_init n) ops)) = [].
Proof. exact (Net_proofs40.net_no_node_no_events Sz Hh n ops i). Qed.

Definition k_ops : list nop := gap_ops ++ [NPoll 0; NStore 0 0; NPoll 0; NPoll 0].

Example net_client_ghost_nonvacuous :
  (* the ghost of node 0 (A) in the gap scenario, among its operations both CIncoming *)
  nth_error (cops_run SZ toyH (net_init 3) k_ops 0) 19 = Some (CIncoming 2 [] [(c1, d1)]) /\
  nth_error (cops_run SZ toyH (net_init 3) k_ops 0) 20 = Some (CIncoming 1 [] [(c1, d1)]) /\
  cops_run SZ toyH (net_init 3) k_ops 1 = [CNewConn 0 0; CPoll []; CTakeNewBlocks; CReport 0 0 (RpSending 0); CPoll []; CTakeNewBlocks] /\
  option_map n_client (get_node (fst (nrun SZ toyH (net_init 3) k_ops)) 0) = Some (st_after true (cops_run SZ toyH (net_init 3) k_ops 0)) /\
  snd (nrun SZ toyH (net_init 3) k_ops) = [EResponse 0 0 d1] /\
  out_evs (outs_after true (cops_run SZ toyH (net_init 3) k_ops 0)) = [OResponse 0 d1].
Proof.
  split; [vm_compute; reflexivity|]. split; [vm_compute; reflexivity|]. split; [vm_compute; reflexivity|].
  split; [vm_compute; reflexivity|]. split; vm_compute; reflexivity.
Qed.

(* ---------- 2. C03 at the network level ---------- *)
Theorem C03_net_at_most_one_event (Sz : N) (Hh : hash_fn) n ops :
  NoDup (ev_keys (snd (nrun Sz Hh (net_init n) ops))).
Proof. exact (Net_proofs41.C03_net_at_most_one_event Sz Hh n ops). Qed.

Theorem C03_net_no_foreign_ids (Sz : N) (Hh : hash_fn) n ops i q :
  In (i, q) (ev_keys (snd (nrun Sz Hh (net_init n) ops))) -> (N.to_nat i < n)%nat /\ q < count_ngets i ops.
Proof. exact (Net_proofs41.C03_net_no_foreign_ids Sz Hh n ops i q). Qed.

Theorem C03_net_cancel_silences (Sz : N) (Hh : hash_fn) n ops1 i q ops2 :
  q < count_ngets i ops1 ->
  ~ In (i, q) (ev_keys (snd (nrun Sz Hh (net_init n) ops1))) ->
  (forall ni, get_node (fst (nrun Sz Hh (net_init n) ops1)) i = Some ni -> ~ In q (queue_qids (cs_queue (n_client ni)))) ->
  ~ In (i, q) (ev_keys (snd (nrun Sz Hh (net_init n) (ops1 ++ NCancel i q :: ops2)))).
Proof. exact (Net_proofs41.C03_net_cancel_silences Sz Hh n ops1 i q ops2). Qed.

Theorem C03_net_cancel_after_poll (Sz : N) (Hh : hash_fn) n ops0 i q ops2 :
  q < count_ngets i ops0 ->
  ~ In (i, q) (ev_keys (snd (nrun Sz Hh (net_init n) (ops0 ++ [NPoll i])))) ->
  ~ In (i, q) (ev_keys (snd (nrun Sz Hh (net_init n) ((ops0 ++ [NPoll i]) ++ NCancel i q :: ops2)))).
Proof. exact (Net_proofs41.C03_net_cancel_after_poll Sz Hh n ops0 i q ops2). Qed.

Theorem C03_net_errors_invalid (Sz : N) (Hh : hash_fn) n ops1 i c ops2 :
  (N.to_nat i < n)%nat -> convert_cid Sz c = None ->
  let q := count_ngets i ops1 in
  let evs := snd (nrun Sz Hh (net_init n) (ops1 ++ NGet i c :: ops2 ++ [NPoll i])) in
  In (EError i q 0) evs /\
  forall e, In e evs -> In (i, q) (nev_key e) -> e = EError i q 0.
Proof. exact (Net_proofs41.C03_net_errors_invalid Sz Hh n ops1 i c ops2). Qed.

(* the one-outcome statement in one piece *)
Theorem C03_net_one_outcome (Sz : N) (Hh : hash_fn) n ops :
  let evs := snd (nrun Sz Hh (net_init n) ops) in
  NoDup (ev_keys evs) /\
  (forall i q, In (i, q) (ev_keys evs) -> (N.to_nat i < n)%nat /\ q < count_ngets i ops) /\
  (forall ops1 i q ops2, ops = ops1 ++ NCancel i q :: ops2 ->
     q < count_ngets i ops1 ->
     ~ In (i, q) (ev_keys (snd (nrun Sz Hh (net_init n) ops1))) ->
     (forall ni, get_node (fst (nrun Sz Hh (net_init n) ops1)) i = Some ni -> ~ In q (queue_qids (cs_queue (n_client ni)))) ->
     ~ In (i, q) (ev_keys evs)).
Proof.
  split; [apply Net_proofs41.C03_net_at_most_one_event|]. split; [apply Net_proofs41.C03_net_no_foreign_ids|].
  intros ops1 i q ops2 ->. apply Net_proofs41.C03_net_cancel_silences.
Qed.

(* stale scenario: query 0 of node 0 is cancelled after two polls, before any block arrived; query 1 is answered *)
Definition stale_k_ops : list nop := stale_ops ++ [NPoll 0].
Example C03_net_nonvacuous :
  let ops1 := firstn 8 stale_ops in
  stale_k_ops = ops1 ++ NCancel 0 0 :: skipn 9 stale_k_ops /\
  0 < count_ngets 0 ops1 /\
  ~ In (0, 0) (ev_keys (snd (nrun SZ toyH (net_init 2) ops1))) /\
  option_map (fun ni => queue_qids (cs_queue (n_client ni))) (get_node (fst (nrun SZ toyH (net_init 2) ops1)) 0) = Some [] /\
  snd (nrun SZ toyH (net_init 2) stale_k_ops) = [EResponse 0 1 d1] /\
  count_ngets 0 stale_k_ops = 2.
Proof.
  cbv zeta. split; [vm_compute; reflexivity|]. split; [vm_compute; reflexivity|]. split; [vm_compute; tauto|].
  split; [vm_compute; reflexivity|]. split; vm_compute; reflexivity.
Qed.

Definition big_cid : cid := MkCid V1 85 (MkMh 18 (repeat 7 100)).
Example C03_net_errors_invalid_nonvacuous :
  convert_cid SZ big_cid = None /\
  snd (nrun SZ toyH (net_init 2) ([NGet 0 c1] ++ NGet 0 big_cid :: [NConnect 0 1] ++ [NPoll 0])) = [EError 0 1 0].
Proof. split; vm_compute; reflexivity. Qed.

(* ---------- 3. connections and the wire ---------- *)
(* the connections a client was told about (open_conns of its ghost) are the connections of the net *)
Theorem conns_tracked (Sz : N) (Hh : hash_fn) n ops i p :
  open_conns p (cops_run Sz Hh (net_init n) ops i) = if Net.connected (fst (nrun Sz Hh (net_init n) ops)) i p then [CONN] else [].
Proof. exact (Net_proofs42.conns_tracked Sz Hh n ops i p). Qed.

(* every wantlist message on the wire was put there by a poll of its source (`wsent_run` = what node i handed to its
   connections during the run, in order) *)
Theorem wire_w_sent (Sz : N) (Hh : hash_fn) ops s m :
  In m (wire_w (fst (nrun Sz Hh s ops))) -> In m (wire_w s) \/ In m (wsent_run Sz Hh s ops (wm_src m)).
Proof. exact (Net_proofs42.wire_w_sent Sz Hh ops s m). Qed.

(* ... and what node i handed to its connections is, message by message, the SendWantlist outputs of its client:
   Net.v's wire is Client.v's output (`w_of i (p, c, full, es) = MkW i p full es`; the bytes written are
   `wantlist_message sdh full es`, Node.v) *)
Theorem wsent_is_client_sends (Sz : N) (Hh : hash_fn) n ops i :
  (N.to_nat i < n)%nat ->
  wsent_run Sz Hh (net_init n) ops i = map (w_of i) (cl_wants (outs_after true (cops_run Sz Hh (net_init n) ops i))).
Proof. exact (Net_proofs42.wsent_is_client_sends Sz Hh n ops i). Qed.

Theorem wsent_from_reachable (Sz : N) (Hh : hash_fn) n ops1 ops2 i ni :
  get_node (fst (nrun Sz Hh (net_init n) ops1)) i = Some ni ->
  wsent_run Sz Hh (fst (nrun Sz Hh (net_init n) ops1)) ops2 i =
  map (w_of i) (cl_wants (cl_outs (n_client ni) (cops_run Sz Hh (fst (nrun Sz Hh (net_init n) ops1)) ops2 i))).
Proof. exact (Net_proofs42.wsent_from_reachable Sz Hh n ops1 ops2 i ni). Qed.

(* in a net grown from the initial one every wantlist a poll produces is for a connected peer: nothing is dropped at hand-over *)
Theorem all_handed (Sz : N) (Hh : hash_fn) n ops i ni :
  get_node (fst (nrun Sz Hh (net_init n) ops)) i = Some ni ->
  filter (handed (fst (nrun Sz Hh (net_init n) ops)) i) (poll_wants ni) = poll_wants ni.
Proof. exact (Net_proofs42.all_handed Sz Hh n ops i ni). Qed.

Definition sm (m : wmsg) : N * N * bool * list (want_kind * cid) := (wm_src m, wm_dst m, wm_full m, wm_entries m).
Example wire_ghost_nonvacuous :
  map sm (wsent_run SZ toyH (net_init 3) gap_ops 0) =
    [(0, 1, true, []); (0, 2, true, []); (0, 1, false, [(KWantHave, c1)]); (0, 2, false, [(KWantHave, c1)])] /\
  map sm (wsent_run SZ toyH (net_init 2) stale_ops 0) =
    [(0, 1, true, []); (0, 1, false, [(KWantHave, c1)]); (0, 1, false, [(KCancel, c1)]); (0, 1, false, [(KWantHave, c1)])] /\
  map sm (wire_w (fst (nrun SZ toyH (net_init 2) (firstn 16 stale_ops)))) = [(1, 0, true, [])] /\
  (let s := fst (nrun SZ toyH (net_init 3) gap_ops) in
   Net.connected s 0 1 = true /\ Net.connected s 0 2 = false /\
   open_conns 1 (cops_run SZ toyH (net_init 3) gap_ops 0) = [CONN] /\ open_conns 2 (cops_run SZ toyH (net_init 3) gap_ops 0) = []).
Proof.
  split; [vm_compute; reflexivity|]. split; [vm_compute; reflexivity|]. split; [vm_compute; reflexivity|].
  cbv zeta. split; [vm_compute; reflexivity|]. split; [vm_compute; reflexivity|]. split; vm_compute; reflexivity.
Qed.

(* ---------- 4. C13 at the network level ---------- *)
(* peer state dropped with the connection: a node's client holds an entry for j only while the net connects them *)
Theorem C13_net_client_released (Sz : N) (Hh : hash_fn) n ops i j ni :
  get_node (fst (nrun Sz Hh (net_init n) ops)) i = Some ni ->
  Net.connected (fst (nrun Sz Hh (net_init n) ops)) i j = false ->
  al_find N.eqb j (cs_peers (n_client ni)) = None.
Proof. exact (Net_proofs43.C13_net_client_released Sz Hh n ops i j ni). Qed.

Theorem C13_net_peers_connected (Sz : N) (Hh : hash_fn) n ops i j ni ps :
  get_node (fst (nrun Sz Hh (net_init n) ops)) i = Some ni ->
  In (j, ps) (cs_peers (n_client ni)) ->
  Net.connected (fst (nrun Sz Hh (net_init n) ops)) i j = true /\ p_conns ps = [CONN].
Proof. exact (Net_proofs43.C13_net_peers_connected Sz Hh n ops i j ni ps). Qed.

(* query bookkeeping released: once the event of (i, q) is out, node i's client holds nothing about q *)
Theorem C13_net_query_released (Sz : N) (Hh : hash_fn) n ops i q ni :
  get_node (fst (nrun Sz Hh (net_init n) ops)) i = Some ni ->
  In (i, q) (ev_keys (snd (nrun Sz Hh (net_init n) ops))) ->
  ~ In q (task_qids (cs_tasks (n_client ni))) /\ ~ In q (c2q_qids (cs_c2q (n_client ni))) /\
  ~ In q (queue_qids (cs_queue (n_client ni))) /\ ~ In q (map fst (cs_abort (n_client ni))).
Proof. exact (Net_proofs43.C13_net_query_released Sz Hh n ops i q ni). Qed.

Theorem C13_net_live_query_unanswered (Sz : N) (Hh : hash_fn) n ops i q ni :
  get_node (fst (nrun Sz Hh (net_init n) ops)) i = Some ni ->
  In q (c2q_qids (cs_c2q (n_client ni))) ->
  q < count_ngets i ops /\ ~ In (i, q) (ev_keys (snd (nrun Sz Hh (net_init n) ops))).
Proof. exact (Net_proofs43.C13_net_live_query_unanswered Sz Hh n ops i q ni). Qed.

Example C13_net_nonvacuous :
  (* gap scenario + polls: node 0 is connected to 1, was disconnected from 2, query 0 answered, query 1 live *)
  let r := nrun SZ toyH (net_init 3) k_ops in
  Net.connected (fst r) 0 2 = false /\ Net.connected (fst r) 0 1 = true /\
  option_map (fun ni => map fst (cs_peers (n_client ni))) (get_node (fst r) 0) = Some [1] /\
  ev_keys (snd r) = [(0, 0)] /\
  option_map (fun ni => c2q_qids (cs_c2q (n_client ni))) (get_node (fst r) 0) = Some [1].
Proof.
  cbv zeta. split; [vm_compute; reflexivity|]. split; [vm_compute; reflexivity|]. split; [vm_compute; reflexivity|].
  split; vm_compute; reflexivity.
Qed.

(* ---------- 5. C05 at the network level ---------- *)
(* after an NConnect a b that establishes the connection, the first wantlist either end puts on the wire for the other is a
   FULL one, whatever happens in between *)
Theorem C05_net_first_is_full (Sz : N) (Hh : hash_fn) n ops1 a b ops2 i j m rest :
  let s1 := fst (nrun Sz Hh (net_init n) ops1) in
  let s2 := fst (nstep Sz Hh s1 (NConnect a b)) in
  (i = a /\ j = b \/ i = b /\ j = a) ->
  Net.connected s1 a b = false -> Net.connected s2 a b = true ->
  filter (fun m => wm_dst m =? j) (wsent_run Sz Hh s2 ops2 i) = m :: rest ->
  wm_full m = true.
Proof. exact (Net_proofs43.C05_net_first_is_full Sz Hh n ops1 a b ops2 i j m rest). Qed.

Example C05_net_nonvacuous :
  (* gap scenario, the connection 0 - 2 (4th op): both directions *)
  let s1 := fst (nrun SZ toyH (net_init 3) (firstn 3 gap_ops)) in
  let s2 := fst (nstep SZ toyH s1 (NConnect 0 2)) in
  gap_ops = firstn 3 gap_ops ++ NConnect 0 2 :: skipn 4 gap_ops /\
  Net.connected s1 0 2 = false /\ Net.connected s2 0 2 = true /\
  map sm (filter (fun m => wm_dst m =? 2) (wsent_run SZ toyH s2 (skipn 4 gap_ops) 0)) = [(0, 2, true, []); (0, 2, false, [(KWantHave, c1)])] /\
  map sm (filter (fun m => wm_dst m =? 0) (wsent_run SZ toyH s2 (skipn 4 gap_ops) 2)) = [(2, 0, true, [])].
Proof.
  cbv zeta. split; [vm_compute; reflexivity|]. split; [vm_compute; reflexivity|]. split; [vm_compute; reflexivity|].
  split; vm_compute; reflexivity.
Qed.

(* ---------- 6. Client.v is the history model of Wantlist.v (what C04 / C17 are stated on) ---------- *)
(* every peer entry of a reachable client state is a state of the history model, and its presence events are presences that
   peer really sent *)
Theorem client_state_is_history sdh ops p ps :
  In (p, ps) (cs_peers (st_after sdh ops)) ->
  exists h, st_of sdh h = (cs_wl (st_after sdh ops), p_wl ps) /\ haves_ok (fun c b => got_pres p c b ops) h.
Proof. exact (Net_proofs44.client_state_is_history sdh ops p ps). Qed.

(* every wantlist a poll hands to a connection is the output of a generate step of the history model *)
Theorem client_send_hist sdh ops ch p c f es :
  In (OSendWantlist p c f es) (snd (c_poll (st_after sdh ops) ch)) ->
  exists h e, snd (hstep (hrun_from (hinit sdh) h) e) = Some (f, es) /\ haves_ok (fun x b => got_pres p x b ops) h.
Proof. exact (Net_proofs44.client_send_hist sdh ops ch p c f es). Qed.

(* C17 for Client.v: a WANT_BLOCK entry for x goes to p only after p sent HAVE x *)
Theorem C17_client_want_block_only_after_have sdh ops ch p c f es x :
  In (OSendWantlist p c f es) (snd (c_poll (st_after sdh ops) ch)) -> In (KWantBlock, x) es -> got_have p x ops.
Proof. exact (Net_proofs44.C17_client_want_block_only_after_have sdh ops ch p c f es x). Qed.

Definition wb_ops : list cop :=
  [CNewConn 7 2; CGet (Some c1); CPoll [(7, 2)]; CReport 7 2 (RpSending 2); CReport 7 2 RpReady; CRelease 0 SMiss; CPoll [(7, 2)];
   CReport 7 2 (RpSending 2); CReport 7 2 RpReady; CIncoming 7 [(c1, true)] []].
Example C17_client_nonvacuous :
  snd (c_poll (st_after true wb_ops) [(7, 2)]) = [OSendWantlist 7 2 false [(KWantBlock, c1)]] /\ got_have 7 c1 wb_ops.
Proof. split; [vm_compute; reflexivity|]. exists [(c1, true)], []. split; [unfold wb_ops; do 9 right; left; reflexivity | left; reflexivity]. Qed.

(* ---------- 7. C17 and C04 at the network level ---------- *)
(* beetswap nodes never send presences, so no wantlist message a node hands to a connection carries WANT_BLOCK *)
Theorem C17_net_want_block_only_after_have (Sz : N) (Hh : hash_fn) n ops i m c :
  In m (wsent_run Sz Hh (net_init n) ops i) -> ~ In (KWantBlock, c) (wm_entries m).
Proof. exact (Net_proofs45.C17_net_want_block_only_after_have Sz Hh n ops i m c). Qed.

Theorem C17_net_wire_no_want_block (Sz : N) (Hh : hash_fn) n ops m c :
  In m (wire_w (fst (nrun Sz Hh (net_init n) ops))) -> ~ In (KWantBlock, c) (wm_entries m).
Proof. exact (Net_proofs45.C17_net_wire_no_want_block Sz Hh n ops m c). Qed.

(* no client operation of a net run carries a presence *)
Theorem cops_run_no_pres (Sz : N) (Hh : hash_fn) ops s i p pres bl :
  In (CIncoming p pres bl) (cops_run Sz Hh s ops i) -> pres = [].
Proof. exact (Net_proofs45.cops_run_no_pres Sz Hh ops s i p pres bl). Qed.

(* C04 inside every reachable net: each peer entry is a state of the history model with a presence-free history, the
   DONT_HAVE set of its ghost is empty, and the view theorems of Props_C04 hold for it *)
Theorem C04_net_view (Sz : N) (Hh : hash_fn) n ops i j ni ps :
  get_node (fst (nrun Sz Hh (net_init n) ops)) i = Some ni ->
  In (j, ps) (cs_peers (n_client ni)) ->
  exists h,
    st_of true h = (cs_wl (n_client ni), p_wl ps) /\ pres_free h /\ g_dont_have (lit_ghost true h) = [] /\
    (nothing_to_send (cs_wl (n_client ni), p_wl ps) ->
       (forall c, In c (g_view (lit_ghost true h)) -> In c (wl_cids (cs_wl (n_client ni)))) /\
       (forall c, In c (wl_cids (cs_wl (n_client ni))) -> In c (g_view (lit_ghost true h)) \/ In c (g_delivered (lit_ghost true h)))).
Proof. exact (Net_proofs45.C04_net_view Sz Hh n ops i j ni ps). Qed.

Example C04_C17_net_nonvacuous :
  (* gap scenario + polls: node 0 keeps an entry for peer 1, has c1 in its wantlist (query 1), nothing to send to 1;
     every entry it ever put on the wire is WANT_HAVE (see wire_ghost_nonvacuous) *)
  let s := fst (nrun SZ toyH (net_init 3) k_ops) in
  option_map (fun ni => map fst (cs_peers (n_client ni))) (get_node s 0) = Some [1] /\
  option_map (fun ni => wl_cids (cs_wl (n_client ni))) (get_node s 0) = Some [c1] /\
  option_map (fun ni => map (fun e => fst (wls_generate_update (p_wl (snd e)) (cs_wl (n_client ni)))) (cs_peers (n_client ni))) (get_node s 0) = Some [[]] /\
  flat_map (fun m => map fst (wm_entries m)) (wsent_run SZ toyH (net_init 3) k_ops 0) = [KWantHave; KWantHave].
Proof.
  cbv zeta. split; [vm_compute; reflexivity|]. split; [vm_compute; reflexivity|]. split; vm_compute; reflexivity.
Qed.

Theorem C04_net_view_sound (Sz : N) (Hh : hash_fn) n ops i j ni ps :
  get_node (fst (nrun Sz Hh (net_init n) ops)) i = Some ni -> In (j, ps) (cs_peers (n_client ni)) ->
  nothing_to_send (cs_wl (n_client ni), p_wl ps) ->
  exists h, st_of true h = (cs_wl (n_client ni), p_wl ps) /\ pres_free h /\
            forall c, In c (g_view (lit_ghost true h)) -> In c (wl_cids (cs_wl (n_client ni))).
Proof. exact (Net_proofs45.C04_net_view_sound Sz Hh n ops i j ni ps). Qed.

Theorem C04_net_view_complete (Sz : N) (Hh : hash_fn) n ops i j ni ps :
  get_node (fst (nrun Sz Hh (net_init n) ops)) i = Some ni -> In (j, ps) (cs_peers (n_client ni)) ->
  nothing_to_send (cs_wl (n_client ni), p_wl ps) ->
  exists h, st_of true h = (cs_wl (n_client ni), p_wl ps) /\ pres_free h /\
            forall c, In c (wl_cids (cs_wl (n_client ni))) -> In c (g_view (lit_ghost true h)) \/ In c (g_delivered (lit_ghost true h)).
Proof. exact (Net_proofs45.C04_net_view_complete Sz Hh n ops i j ni ps). Qed.

(* ---------- 8. the wire ties the client ghost to package G's server ghost ---------- *)
Theorem client_sdh_constant sdh ops : wl_sdh (cs_wl (st_after sdh ops)) = sdh.
Proof. exact (Net_proofs46.client_sdh_constant sdh ops). Qed.

Theorem net_sdh_true (Sz : N) (Hh : hash_fn) n ops i ni :
  get_node (fst (nrun Sz Hh (net_init n) ops)) i = Some ni -> wl_sdh (cs_wl (n_client ni)) = true.
Proof. exact (Net_proofs46.net_sdh_true Sz Hh n ops i ni). Qed.

(* every wantlist message node i handed to a connection is an OSendWantlist output of its client, on connection CONN *)
Theorem wire_is_client_output (Sz : N) (Hh : hash_fn) n ops i m :
  In m (wsent_run Sz Hh (net_init n) ops i) ->
  wm_src m = i /\
  In (OSendWantlist (wm_dst m) CONN (wm_full m) (wm_entries m)) (outs_after true (cops_run Sz Hh (net_init n) ops i)).
Proof. exact (Net_proofs46.wire_is_client_output Sz Hh n ops i m). Qed.

(* every wantlist the server half of node j processed from a (an SMsg of package G's ghost) is `proto_of true full es` of an
   `OSendWantlist j CONN full es` that Client.v, run on a's client ghost, emitted *)
Theorem server_receives_client_output (Sz : N) (Hh : hash_fn) n ops j a w ord :
  In (SMsg a w ord) (sops_run Sz Hh (net_init n) ops j) ->
  exists full es, w = proto_of true full es /\ ord = order_of Sz w /\
                  In (OSendWantlist j CONN full es) (outs_after true (cops_run Sz Hh (net_init n) ops a)).
Proof. exact (Net_proofs46.server_receives_client_output Sz Hh n ops j a w ord). Qed.

Example server_receives_nonvacuous :
  (* gap scenario: B's server got A's initial full wantlist and then the update with WANT_HAVE c1 *)
  nth_error (sops_run SZ toyH (net_init 3) gap_ops 1) 1 = Some (SMsg 0 (proto_of true true []) []) /\
  nth_error (sops_run SZ toyH (net_init 3) gap_ops 1) 2 = Some (SMsg 0 (proto_of true false [(KWantHave, c1)]) [c1]).
Proof. split; vm_compute; reflexivity. Qed.

(* ---------- 9. the block direction: a client is only handed blocks it asked that peer for ---------- *)
(* composition of the client ghost with package G's C07_net_only_wanted (its hypotheses: 32 <= Sz, valid NPut blocks) *)
Theorem client_receives_only_requested (Sz : N) (Hh : hash_fn) (HSz : 32 <= Sz) n ops i p pres bl c d :
  Forall (nop_good Sz Hh) ops ->
  In (CIncoming p pres bl) (cops_run Sz Hh (net_init n) ops i) -> In (c, d) bl ->
  pres = [] /\
  exists ops1 ops2 view,
    ops = ops1 ++ NPoll p :: ops2 /\
    sview Sz i (fst (srun_l Sz (sops_run Sz Hh (net_init n) ops1 p))) = Some view /\ In c view.
Proof. exact (Net_proofs47.client_receives_only_requested Sz Hh HSz n ops i p pres bl c d). Qed.

Example client_receives_nonvacuous :
  Forall (nop_good SZ toyH) k_ops /\
  nth_error (cops_run SZ toyH (net_init 3) k_ops 0) 19 = Some (CIncoming 2 [] [(c1, d1)]).
Proof.
  split; [|vm_compute; reflexivity]. unfold k_ops, gap_ops.
  assert (Hg : good SZ toyH (c1, d1)) by (split; [apply c1_wf | vm_compute; reflexivity]).
  repeat (constructor; [first [exact Hg | exact I]|]). constructor.
Qed.

Print Assumptions net_client_ghost.
Print Assumptions net_client_ghost_from.
Print Assumptions net_client_events.
Print Assumptions net_no_node_no_events.
Print Assumptions C03_net_at_most_one_event.
Print Assumptions C03_net_no_foreign_ids.
Print Assumptions C03_net_cancel_silences.
Print Assumptions C03_net_cancel_after_poll.
Print Assumptions C03_net_errors_invalid.
Print Assumptions C03_net_one_outcome.
Print Assumptions conns_tracked.
Print Assumptions wire_w_sent.
Print Assumptions wsent_is_client_sends.
Print Assumptions wsent_from_reachable.
Print Assumptions all_handed.
Print Assumptions C13_net_client_released.
Print Assumptions C13_net_peers_connected.
Print Assumptions C13_net_query_released.
Print Assumptions C13_net_live_query_unanswered.
Print Assumptions C05_net_first_is_full.
Print Assumptions client_state_is_history.
Print Assumptions client_send_hist.
Print Assumptions C17_client_want_block_only_after_have.
Print Assumptions C17_net_want_block_only_after_have.
Print Assumptions C17_net_wire_no_want_block.
Print Assumptions cops_run_no_pres.
Print Assumptions C04_net_view.
Print Assumptions C04_net_view_sound.
Print Assumptions C04_net_view_complete.
Print Assumptions client_sdh_constant.
Print Assumptions net_sdh_true.
Print Assumptions wire_is_client_output.
Print Assumptions server_receives_client_output.
Print Assumptions client_receives_only_requested.
