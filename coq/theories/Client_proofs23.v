(* Client_proofs23.v — package R: C15's corollary of the trace-level C05: with another connection left, closing a
   connection at any point of any history never loses a wantlist silently. *)
From BS Require Import Types Wantlist Wantlist_proofs Client Client_proofs Client_proofs3 Client_proofs4 Corr_client
                       Client_proofs20 Client_proofs21 Client_proofs22.
From Coq Require Import ZArith ZifyBool ZifyN ZifyNat Lia List. Import ListNotations.
Open Scope N_scope.

(* a poll that finds a recorded failure / timed-out request on c0 and another connection does send the full wantlist *)
Lemma hard_poll_sends sdh pre ch p ps c0 c2 :
  let s := st_after sdh pre in
  al_find N.eqb p (cs_peers s) = Some ps -> hard s ps c0 -> In c2 (p_conns ps) -> c2 <> c0 ->
  exists c' es, In (OSendWantlist p c' true es) (snd (c_poll s ch)) /\ c' <> c0 /\ In c' (p_conns ps).
Proof.
  intros s Hf Hh Hin2 Hne2.
  destruct (C05_full_after_fault sdh pre ch p ps c0 Hf Hh) as [H1 [(c' & es & Hs) | Hn]].
  - exists c', es. split; [exact Hs|]. destruct (H1 c' true es Hs) as (_ & A & B). auto.
  - exfalso.
    assert (Hg : uh_gate (cs_now s) ps = Some (MkPeer (n_remove c0 (p_conns ps)) SsReady (p_wl ps) true)).
    { unfold uh_gate. destruct Hh as [-> | (t & -> & ->)]; reflexivity. }
    destruct (poll_peer sdh pre ch p ps Hf) as (psl & w & Hlink & _ & Hfin & _). fold s in Hfin.
    pose proof (uh_gate_link (cs_now s) ps psl Hlink) as Hgl. rewrite Hg in Hgl.
    destruct (uh_gate (cs_now s) psl) as [psl1|] eqn:Egl; [|destruct Hgl]. destruct Hgl as (Ec & _ & _).
    cbn [p_conns] in Ec.
    assert (Hc : In c2 (p_conns psl1)) by (rewrite Ec; apply n_remove_In; auto).
    unfold s in *. rewrite Hfin in Hn. revert Hn. unfold uh_keep, uh_peer. cbn [fst snd]. rewrite Egl.
    destruct (p_conns psl1) as [|c1 cs]; [destruct Hc|].
    destruct (if p_send_full psl1 then wls_generate_full (p_wl psl1) w else wls_generate_update (p_wl psl1) w) as [es wls'].
    destruct (negb (p_send_full psl1) && match es with [] => true | _ => false end).
    + cbn [al_find]. rewrite N.eqb_refl. discriminate.
    + destruct (pick_conn ch p (c1 :: cs) c1) as [cc bad]. cbn [al_find]. rewrite N.eqb_refl. discriminate.
Qed.

(* 3 *)
Theorem C15_trace_close_keeps_exchange sdh ops p c ps c2 :
  let s := st_after sdh ops in
  let s' := st_after sdh (ops ++ [CConnClosed p c]) in
  al_find N.eqb p (cs_peers s) = Some ps -> In c2 (p_conns ps) -> c2 <> c ->
  (* the entry is kept; the per-peer record (sending state, per-peer wantlist state, send_full) is untouched *)
  al_find N.eqb p (cs_peers s') = Some (MkPeer (n_remove c (p_conns ps)) (p_ss ps) (p_wl ps) (p_send_full ps)) /\
  snd (cstep s (CConnClosed p c)) = [] /\
  (* a wantlist handed to c was not acknowledged: whatever happens next (short of a report from c, or the entry being
     dropped), the next wantlist p is sent is the full one, on another connection ... *)
  (forall t, p_ss ps = SsRequested t c ->
     (forall d ch' c' f' es',
        quiet p c s' d ->
        In (OSendWantlist p c' f' es') (snd (c_poll (st_after sdh ((ops ++ [CConnClosed p c]) ++ d)) ch')) ->
        f' = true /\ c' <> c) /\
     (* ... and it is sent, over a remaining connection, by the first poll after the request has timed out *)
     (forall ms ch', (cs_now s + ms - t <? RECEIVE_REQUEST_TIMEOUT) = false ->
        exists c' es', In (OSendWantlist p c' true es') (snd (c_poll (st_after sdh ((ops ++ [CConnClosed p c]) ++ [CAdvance ms])) ch')) /\
                       c' <> c /\ In c' (p_conns ps))) /\
  (* the failure of the transmission on c had been reported: the very next poll sends the full wantlist on a remaining connection *)
  (p_ss ps = SsFailed c ->
     forall ch', exists c' es', In (OSendWantlist p c' true es') (snd (c_poll s' ch')) /\ c' <> c /\ In c' (p_conns ps)).
Proof.
  intros s s' Hf Hin2 Hne2.
  destruct (C15_close_one_keeps_peer s p c ps c2 Hf Hin2 Hne2) as (Hk & Ho & _).
  assert (Hf' : al_find N.eqb p (cs_peers s') = Some (MkPeer (n_remove c (p_conns ps)) (p_ss ps) (p_wl ps) (p_send_full ps))).
  { unfold s'. rewrite st_after_snoc. exact Hk. }
  split; [exact Hf'|]. split; [exact Ho|]. split.
  - intros t Hss. split.
    + intros d ch' c' f' es' Hq Hs.
      assert (Hst : stuck_on p c s') by (eexists; exists t; split; [exact Hf' | exact Hss]).
      exact (stuck_send sdh _ ch' p c c' f' es' (stuck_run sdh p c d _ Hst Hq) Hs).
    + intros ms ch' Hto.
      assert (Hf2 : al_find N.eqb p (cs_peers (st_after sdh ((ops ++ [CConnClosed p c]) ++ [CAdvance ms]))) =
                    Some (MkPeer (n_remove c (p_conns ps)) (p_ss ps) (p_wl ps) (p_send_full ps))).
      { rewrite st_after_snoc. exact Hf'. }
      assert (Hnow : cs_now (st_after sdh ((ops ++ [CConnClosed p c]) ++ [CAdvance ms])) = cs_now s + ms).
      { rewrite !cstep_now. reflexivity. }
      assert (Hh : hard (st_after sdh ((ops ++ [CConnClosed p c]) ++ [CAdvance ms]))
                        (MkPeer (n_remove c (p_conns ps)) (p_ss ps) (p_wl ps) (p_send_full ps)) c).
      { right. exists t. cbn [p_ss]. split; [exact Hss|]. rewrite Hnow. exact Hto. }
      destruct (hard_poll_sends sdh _ ch' p _ c c2 Hf2 Hh) as (c' & es' & Hs & A & B);
        [cbn [p_conns]; apply n_remove_In; auto | exact Hne2 |].
      exists c', es'. split; [exact Hs|]. split; [exact A|]. cbn [p_conns] in B. apply n_remove_In in B. apply B.
  - intros Hss ch'.
    assert (Hh : hard s' (MkPeer (n_remove c (p_conns ps)) (p_ss ps) (p_wl ps) (p_send_full ps)) c) by (left; exact Hss).
    destruct (hard_poll_sends sdh _ ch' p _ c c2 Hf' Hh) as (c' & es' & Hs & A & B);
      [cbn [p_conns]; apply n_remove_In; auto | exact Hne2 |].
    exists c', es'. split; [exact Hs|]. split; [exact A|]. cbn [p_conns] in B. apply n_remove_In in B. apply B.
Qed.

(* Observation (F12 seen from C15): when the transmission on c HAD been acknowledged (RequestReceived / Sending) and c is
   closed without its handler's Failed report reaching the behaviour, no timeout applies: p is sent nothing at all until
   a report from c arrives or p's entry is dropped — however many other connections it has. *)
Definition acked_on (p : peer) (c : conn) (s : cstate) : Prop :=
  exists ps t, al_find N.eqb p (cs_peers s) = Some ps /\ (p_ss ps = SsRequestReceived t c \/ p_ss ps = SsSending t c).

Fixpoint no_report_alive (p : peer) (c : conn) (s : cstate) (ops : list cop) : Prop :=
  match ops with
  | [] => True
  | o :: ops' =>
      (forall r, o <> CReport p c r) /\ al_find N.eqb p (cs_peers (fst (cstep s o))) <> None /\
      no_report_alive p c (fst (cstep s o)) ops'
  end.

Lemma acked_step sdh pre o p c :
  let s := st_after sdh pre in
  acked_on p c s -> (forall r, o <> CReport p c r) ->
  al_find N.eqb p (cs_peers (fst (cstep s o))) <> None ->
  no_send_to p (snd (cstep s o)) /\ acked_on p c (fst (cstep s o)).
Proof.
  intros s (ps & t & Hf & Hss) Hnr Ha.
  destruct (match o with CPoll ch => true | _ => false end) eqn:Ispoll.
  - destruct o as [| | | | | | | |ch|]; try discriminate. cbn [cstep] in *.
    assert (Hg : uh_gate (cs_now s) ps = None) by (unfold uh_gate; destruct Hss as [-> | ->]; reflexivity).
    destruct (C14_outstanding_blocks_poll sdh pre ch p ps Hf Hg) as [Hns (ps' & Hf' & Hss' & _)].
    split; [exact Hns|]. exists ps', t. split; [exact Hf'|]. rewrite Hss'. exact Hss.
  - assert (Hnp : forall ch, o <> CPoll ch) by (intros ch ->; discriminate). split.
    + intros c' f es Hin. assert (Hs : In (p, c', f) (sends_of (snd (cstep s o)))) by (apply sends_of_In; eauto).
      rewrite (nonpoll_no_sends _ _ Hnp) in Hs. destruct Hs.
    + destruct (nonpoll_ss s o p ps Hf Hnp) as [(ps' & Hf' & E) | [(c' & r & -> & Hsc & _) | Hn]].
      * exists ps', t. split; [exact Hf'|]. rewrite E. exact Hss.
      * exfalso. assert (c' = c) by (destruct Hss as [Hss | Hss]; rewrite Hss in Hsc; cbn in Hsc; congruence).
        subst c'. exact (Hnr r eq_refl).
      * contradiction.
Qed.

Theorem C15_trace_close_acked_starves sdh p c d : forall pre ch' c' f' es',
  acked_on p c (st_after sdh pre) -> no_report_alive p c (st_after sdh pre) d ->
  ~ In (OSendWantlist p c' f' es') (snd (c_poll (st_after sdh (pre ++ d)) ch')).
Proof.
  induction d as [|o d IH]; intros pre ch' c' f' es' Hst Hq.
  - rewrite app_nil_r. destruct Hst as (ps & t & Hf & Hss).
    assert (Hg : uh_gate (cs_now (st_after sdh pre)) ps = None) by (unfold uh_gate; destruct Hss as [-> | ->]; reflexivity).
    exact (proj1 (C14_outstanding_blocks_poll sdh pre ch' p ps Hf Hg) c' f' es').
  - destruct Hq as (Hnr & Ha & Hq). destruct (acked_step sdh pre o p c Hst Hnr Ha) as [_ Hst'].
    rewrite <- st_after_snoc in Hst', Hq.
    replace (pre ++ o :: d) with ((pre ++ [o]) ++ d) by (rewrite <- app_assoc; reflexivity).
    apply IH; assumption.
Qed.

(* ---------- non-vacuity ---------- *)
Example C15_trace_close_keeps_exchange_example :
  let ops := [CNewConn 7 1; CNewConn 7 2; CGet (Some ex_c1); CPoll [(7, 1)]; CRelease 0 SMiss] in
  al_find N.eqb 7 (cs_peers (st_after true ops)) = Some (MkPeer [1; 2] (SsRequested 0 1) wls_new false) /\
  In 2 [1; 2] /\ 2 <> 1 /\
  quiet 7 1 (st_after true (ops ++ [CConnClosed 7 1])) [CPoll [(7, 2)]; CAdvance 1000] /\
  snd (c_poll (st_after true ((ops ++ [CConnClosed 7 1]) ++ [CPoll [(7, 2)]; CAdvance 1000])) [(7, 2)]) =
    [OSendWantlist 7 2 true [(KWantHave, ex_c1)]] /\
  (cs_now (st_after true ops) + 1000 - 0 <? RECEIVE_REQUEST_TIMEOUT) = false.
Proof.
  cbv zeta. split; [vm_compute; reflexivity|]. split; [right; left; reflexivity|]. split; [discriminate|].
  split; [|split; vm_compute; reflexivity].
  cbn [app quiet]. repeat split; try (intros r; discriminate); try (vm_compute; discriminate);
    try (intros c0 f0 es0 H; vm_compute in H; repeat (destruct H as [H | H]; [discriminate|]); destruct H).
Qed.

(* the acknowledged case: connection 1 acknowledged the request and is closed; 30 s and a refresh period later p, which
   still has connection 2, has been sent nothing *)
Example C15_trace_close_acked_starves_example :
  let pre := [CNewConn 7 1; CNewConn 7 2; CGet (Some ex_c1); CPoll [(7, 1)]; CRelease 0 SMiss;
              CReport 7 1 (RpRequestReceived 1); CConnClosed 7 1] in
  let d := [CPoll [(7, 2)]; CAdvance 60000; CPoll [(7, 2)]] in
  al_find N.eqb 7 (cs_peers (st_after true pre)) = Some (MkPeer [2] (SsRequestReceived 0 1) wls_new false) /\
  no_report_alive 7 1 (st_after true pre) d /\
  outs_after true (pre ++ d ++ [CPoll [(7, 2)]]) = [OQuery 0; OGet 0 ex_c1; OSendWantlist 7 1 true []] /\
  c5_ok true (pre ++ d ++ [CPoll [(7, 2)]]) = true.
Proof.
  cbv zeta. split; [vm_compute; reflexivity|]. split; [|split; vm_compute; reflexivity].
  cbn [no_report_alive]. repeat split; try (intros r; discriminate); try (vm_compute; discriminate).
Qed.
