(* Net_proofs12.v — package F: C02_multi_hop. *)
From BS Require Import Wantlist_proofs Client_proofs Client_proofs2 Client_proofs3 Client_proofs4
  Net Net_proofs2 Net_proofs3 Net_proofs5 Net_proofs6 Net_proofs7 Net_proofs9 Net_proofs10 Net_proofs11.
From Coq Require Import ZArith ZifyBool ZifyN ZifyNat Lia.
Open Scope N_scope.

Section MultiHop.
  Variables (Sz : N) (Hh : hash_fn).
  Hypothesis HSz : 32 <= Sz.

  Definition phase_op (o : nop) : Prop := sched o \/ exists ms, o = NAdvance ms.

  Lemma phase_good o : phase_op o -> nop_good Sz Hh o /\ nop_wf Sz o.
  Proof. intros [H|(ms & ->)]; [apply sched_good, H | split; exact I]. Qed.

  (* invariants and D along a run of schedule steps and clock steps *)
  Lemma phase_run c h ops : forall s,
    Forall phase_op ops -> net_ok Sz Hh s -> net_wf Sz s -> net_cc s ->
    (forall n, get_node s h = Some n -> D c n) ->
    let s' := fst (nrun Sz Hh s ops) in
    net_ok Sz Hh s' /\ net_wf Sz s' /\ net_cc s' /\ (forall n, get_node s' h = Some n -> D c n).
  Proof.
    induction ops as [|o ops IH]; intros s Hp Hok Hwf Hcc HD; [cbn; auto|]. rewrite (nrun_cons Sz Hh). cbn [fst].
    inversion Hp as [|? ? Ho Hp']; subst. destruct (phase_good o Ho) as [Hg Hw].
    apply IH; try assumption.
    - apply net_ok_step; assumption.
    - apply (net_wf_step Sz Hh HSz); assumption.
    - apply (net_cc_step Sz Hh HSz); assumption.
    - apply (D_step Sz Hh HSz c s o h); assumption.
  Qed.

  Lemma sched_phase ops : Forall sched ops -> Forall phase_op ops.
  Proof. intros H. eapply Forall_impl; [|exact H]. intros o Ho. left. exact Ho. Qed.

  (* at a quiet node, D means: wanted, or in the store *)
  Lemma D_quiet c s h n : quietb s = true -> get_node s h = Some n -> D c n ->
    In c (wl_cids (cs_wl (n_client n))) \/ exists d, store_get (n_store n) c = SHit d.
  Proof.
    intros Hq Hg [H|[H|(tid & t & bl & Hin & _)]]; [left; exact H | right; exact H|]. exfalso.
    pose proof (quiet_node s h n Hq Hg) as Hidle. unfold node_idle, client_idle in Hidle. rewrite !andb_true_iff in Hidle.
    destruct Hidle as [[[[[[[_ Htasks] _] _] _] _] _] _]. apply is_nil_true in Htasks. rewrite Htasks in Hin. destruct Hin.
  Qed.

  (* a query that is still alive at a quiet state is in the wantlist *)
  Lemma alive_quiet_wanted i q c s : net_ok Sz Hh s -> quietb s = true -> alive i q c s -> In c (wl_i i s).
  Proof.
    intros Hok Hq (cl & E & H). unfold client_of in E. destruct (get_node s i) as [n|] eqn:Hg; [|discriminate]. injection E as <-.
    pose proof (quiet_node s i n Hq Hg) as Hidle. unfold node_idle, client_idle in Hidle. rewrite !andb_true_iff in Hidle.
    destruct Hidle as [[[[[[[Hqueue _] _] _] _] _] _] _]. apply is_nil_true in Hqueue.
    destruct H as [(qs & Hin & _)|(d & Hd)]; [|rewrite Hqueue in Hd; destruct Hd].
    unfold wl_i, client_of. rewrite Hg. cbn [option_map].
    destruct (nk_invb _ _ _ _ _ (no_nodes _ _ _ Hok _ _ Hg)) as (_ & _ & Hk & _). apply Hk. apply in_map_iff. exists (c, qs). auto.
  Qed.

  Lemma alive_advance i q c s ms : alive i q c s -> alive i q c (advance Sz Hh ms s).
  Proof.
    intros (cl & E & H). exists (c_advance cl ms). split; [rewrite client_after_advance, E; reflexivity | exact H].
  Qed.

  Theorem C02_multi_hop (i j k : N) (qi qj : qid) (c : cid) n ops :
    Forall (nop_good Sz Hh) ops -> Forall (nop_wf Sz) ops ->
    let s := fst (nrun Sz Hh (net_init n) ops) in
    live_query i qi c s -> live_query j qj c s ->
    Net.connected s i j = true -> Net.connected s j k = true ->
    (exists st d, store_of s k = Some st /\ store_get st c = SHit d) ->
    let r1 := settle Sz Hh s in
    let r2 := refresh Sz Hh (fst r1) in
    let r3 := refresh Sz Hh (fst r2) in
    quietb (fst r1) = true -> quietb (fst r2) = true -> quietb (fst r3) = true ->
    (length (wl_i j (fst r1)) <= 1024)%nat -> (length (wl_i i (fst r2)) <= 1024)%nat ->
    answered i qi (snd r1 ++ snd r2 ++ snd r3).
  Proof.
    intros Hg Hw s Hli Hlj Hcij Hcjk Hstore r1 r2 r3 Hq1 Hq2 Hq3 Hsz1 Hsz2.
    destruct (run_both Sz Hh HSz ops (net_init n) Hg Hw (net_ok_init Sz Hh HSz n) (net_wf_init Sz n)) as [Hok Hwf]. fold s in Hok, Hwf.
    assert (Hcc : net_cc s).
    { unfold s. clear - HSz Hg Hw. assert (H : forall ops s0, Forall (nop_good Sz Hh) ops -> Forall (nop_wf Sz) ops ->
          net_ok Sz Hh s0 -> net_cc s0 -> net_cc (fst (nrun Sz Hh s0 ops))).
      { induction ops0 as [|o ops0 IH]; intros s0 G W Hok0 Hc0; [exact Hc0|]. rewrite (nrun_cons Sz Hh). cbn [fst].
        inversion G; subst. inversion W; subst. apply IH; try assumption; [apply net_ok_step | apply (net_cc_step Sz Hh HSz)]; assumption. }
      apply H; [exact Hg | exact Hw | apply net_ok_init; exact HSz | apply net_cc_init]. }
    destruct (connected_neq Sz Hh HSz s i j Hok Hcij) as (Hij & _). destruct (connected_neq Sz Hh HSz s j k Hok Hcjk) as (Hjk & _).
    assert (Hai : alive i qi c s) by (destruct Hli as (cl & qs & E & Hin & Hq); exists cl; split; [exact E | left; exists qs; auto]).
    assert (HDj : forall nj, get_node s j = Some nj -> D c nj).
    { intros nj Hgj. left. destruct Hlj as (cl & qs & E & Hin & _). unfold client_of in E. rewrite Hgj in E. injection E as <-.
      destruct (nk_invb _ _ _ _ _ (no_nodes _ _ _ Hok _ _ Hgj)) as (_ & _ & Hk & _). apply Hk. apply in_map_iff. exists (c, qs). auto. }
    (* first settle *)
    destruct (settle_run Sz Hh s) as (ops1 & Hs1 & E1). subst r3 r2 r1. rewrite E1 in *.
    destruct (sched_run_facts Sz Hh HSz ops1 s k c Hs1 Hok Hwf) as (Hok1 & Hwf1 & Hc1 & Hst1). cbn zeta in *.
    destruct (phase_run c j ops1 s (sched_phase _ Hs1) Hok Hwf Hcc HDj) as (_ & _ & Hcc1 & HDj1). cbn zeta in *.
    set (s1 := fst (nrun Sz Hh s ops1)) in *.
    destruct (alive_run Sz Hh HSz i qi c ops1 s Hs1 Hok Hai) as [Ha1|(d & Hd)]; [|exists d; apply in_app_iff; auto]. fold s1 in Ha1.
    assert (Hcij1 : Net.connected s1 i j = true) by (unfold Net.connected in *; rewrite Hc1; exact Hcij).
    assert (Hcjk1 : Net.connected s1 j k = true) by (unfold Net.connected in *; rewrite Hc1; exact Hcjk).
    (* first refresh: j gets the block from k *)
    destruct (refresh_clears Sz Hh HSz j k c s1 Hjk Hok1 Hwf1 Hq1 Hcjk1 (Hst1 Hstore) Hsz1 Hq2) as (ops2 & Hs2 & E2 & HP1' & HP2 & Hnw2).
    rewrite E2 in *. set (s1' := advance Sz Hh SEND_FULL_INTERVAL s1) in *. set (s2 := fst (nrun Sz Hh s1' ops2)) in *.
    assert (Hph2 : Forall phase_op (NAdvance SEND_FULL_INTERVAL :: ops2)) by (constructor; [right; eauto | apply sched_phase, Hs2]).
    destruct (phase_run c j _ s1 Hph2 Hok1 Hwf1 Hcc1 HDj1) as (Hok2 & Hwf2 & Hcc2 & HDj2). cbn zeta in *.
    rewrite (nrun_cons Sz Hh) in Hok2, Hwf2, Hcc2, HDj2. cbn [fst] in Hok2, Hwf2, Hcc2, HDj2.
    change (fst (nstep Sz Hh s1 (NAdvance SEND_FULL_INTERVAL))) with s1' in *. fold s2 in Hok2, Hwf2, Hcc2, HDj2.
    destruct (alive_run Sz Hh HSz i qi c ops2 s1' Hs2 (p2_ok _ _ _ _ _ _ _ HP1') (alive_advance i qi c s1 _ Ha1)) as [Ha2|(d & Hd)];
      [|exists d; apply in_app_iff; right; apply in_app_iff; auto]. fold s2 in Ha2.
    assert (Hstj2 : exists st d, store_of s2 j = Some st /\ store_get st c = SHit d).
    { destruct (connected_neq Sz Hh HSz s1 j k Hok1 Hcjk1) as (_ & Hej & _).
      assert (Hgj2 : exists nj, get_node s2 j = Some nj).
      { destruct (get_node s2 j) as [nj|] eqn:E; [eauto|]. exfalso.
        pose proof (p2_conn _ _ _ _ _ _ _ HP2) as Hc2. destruct (connected_neq Sz Hh HSz s2 j k Hok2 Hc2) as (_ & H & _). contradiction. }
      destruct Hgj2 as (nj & Hgj2). destruct (D_quiet c s2 j nj Hq2 Hgj2 (HDj2 _ Hgj2)) as [Hwl|(d & Hd)].
      - exfalso. apply Hnw2. unfold wl_i, client_of. rewrite Hgj2. exact Hwl.
      - exists (n_store nj), d. unfold store_of. rewrite Hgj2. auto. }
    assert (Hcij2 : Net.connected s2 i j = true).
    { destruct (sched_run_facts Sz Hh HSz ops2 s1' j c Hs2 (p2_ok _ _ _ _ _ _ _ HP1') (p2_wf _ _ _ _ _ _ _ HP1')) as (_ & _ & Hc2 & _). cbn zeta in Hc2.
      fold s2 in Hc2. unfold Net.connected in *. rewrite Hc2. exact Hcij1. }
    (* second refresh: i gets the block from j *)
    destruct (refresh_clears Sz Hh HSz i j c s2 Hij Hok2 Hwf2 Hq2 Hcij2 Hstj2 Hsz2 Hq3) as (ops3 & Hs3 & E3 & HP2' & HP3 & Hnw3).
    rewrite E3 in *. set (s2' := advance Sz Hh SEND_FULL_INTERVAL s2) in *. set (s3 := fst (nrun Sz Hh s2' ops3)) in *.
    destruct (alive_run Sz Hh HSz i qi c ops3 s2' Hs3 (p2_ok _ _ _ _ _ _ _ HP2') (alive_advance i qi c s2 _ Ha2)) as [Ha3|(d & Hd)];
      [|exists d; apply in_app_iff; right; apply in_app_iff; auto]. fold s3 in Ha3.
    exfalso. apply Hnw3. apply (alive_quiet_wanted i qi c s3 (p2_ok _ _ _ _ _ _ _ HP3) Hq3 Ha3).
  Qed.
End MultiHop.
