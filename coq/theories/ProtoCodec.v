(* ProtoCodec.v — the code pb-rs generated into /repo/src/proto/message.rs for the five messages
   (Message, Wantlist, Entry, Block, BlockPresence): `get_size`, `write_message`, `from_reader`,
   the two `From<i32>` enum conversions, and the entry point used by `Codec::decode`
   (/repo/src/message.rs:56-60).

   Writers follow `write_message` line by line (default-elision test, field order, tag numbers);
   `size_*` follow `get_size` line by line.  Readers: the five `from_reader` bodies are all
       let mut msg = Self::default();
       while !r.is_eof() { match r.next_tag(bytes) { Ok(<tag>) => <field>, ..., Ok(t) => read_unknown(t), Err(e) => return Err(e) } }
       Ok(msg)
   which is `fr_loop` applied to the per-message `*_field` dispatch.  The loop is a recursion on
   explicit fuel; `XFuel` stands for the loop not terminating. *)
From BS Require Export Bytes Varint Proto Qp.

Definition is_nil {A} (l : list A) : bool := match l with [] => true | _ => false end.

(* enum discriminants: `*(&self.wantType) as u64`, `*&self.wantType as i32` *)
Definition want_type_code (t : want_type) : N := match t with WTBlock => 0 | WTHave => 1 end.
Definition presence_type_code (t : presence_type) : N := match t with PHave => 0 | PDontHave => 1 end.

(* impl From<i32> for WantType / BlockPresenceType (argument: u32 bit pattern of the i32) *)
Definition want_type_of_i32 (v : N) : want_type :=
  if v =? 0 then WTBlock else if v =? 1 then WTHave else WTBlock.
Definition presence_type_of_i32 (v : N) : presence_type :=
  if v =? 0 then PHave else if v =? 1 then PDontHave else PHave.

(* ------------------------------------------------------------------------------------------ *)
(* get_size                                                                                   *)

Definition sum_N (l : list N) : N := fold_right N.add 0 l.

Definition size_entry (e : entry) : N :=
  0
  + (if is_nil (e_block e) then 0 else 1 + sizeof_len (len (e_block e)))
  + (if e_priority e =? 0 then 0 else 1 + sizeof_varint (sext32 (e_priority e)))
  + (if negb (e_cancel e) then 0 else 1 + sizeof_varint 1)
  + (if want_type_eqb (e_want_type e) WTBlock then 0 else 1 + sizeof_varint (want_type_code (e_want_type e)))
  + (if negb (e_send_dont_have e) then 0 else 1 + sizeof_varint 1).

Definition size_wantlist (w : wantlist) : N :=
  0
  + sum_N (map (fun s => 1 + sizeof_len (size_entry s)) (w_entries w))
  + (if negb (w_full w) then 0 else 1 + sizeof_varint 1).

Definition size_block (b : block) : N :=
  0
  + (if is_nil (b_prefix b) then 0 else 1 + sizeof_len (len (b_prefix b)))
  + (if is_nil (b_data b) then 0 else 1 + sizeof_len (len (b_data b))).

Definition size_presence (p : block_presence) : N :=
  0
  + (if is_nil (bp_cid p) then 0 else 1 + sizeof_len (len (bp_cid p)))
  + (if presence_type_eqb (bp_type p) PHave then 0 else 1 + sizeof_varint (presence_type_code (bp_type p))).

Definition size_message (m : message) : N :=
  0
  + (match m_wantlist m with None => 0 | Some w => 1 + sizeof_len (size_wantlist w) end)
  + sum_N (map (fun s => 1 + sizeof_len (size_block s)) (m_payload m))
  + sum_N (map (fun s => 1 + sizeof_len (size_presence s)) (m_presences m))
  + (if m_pending_bytes m =? 0 then 0 else 1 + sizeof_varint (sext32 (m_pending_bytes m))).

(* ------------------------------------------------------------------------------------------ *)
(* write_message                                                                              *)

Definition write_entry (e : entry) : bytes :=
  (if negb (is_nil (e_block e)) then qp_with_tag 10 (qp_write_bytes (e_block e)) else [])
  ++ (if negb (e_priority e =? 0) then qp_with_tag 16 (qp_write_int32 (e_priority e)) else [])
  ++ (if e_cancel e then qp_with_tag 24 (qp_write_bool (e_cancel e)) else [])
  ++ (if negb (want_type_eqb (e_want_type e) WTBlock)
      then qp_with_tag 32 (qp_write_enum (want_type_code (e_want_type e))) else [])
  ++ (if e_send_dont_have e then qp_with_tag 40 (qp_write_bool (e_send_dont_have e)) else []).

Definition write_wantlist (w : wantlist) : bytes :=
  concat (map (fun s => qp_with_tag 10 (qp_write_nested (size_entry s) (write_entry s))) (w_entries w))
  ++ (if w_full w then qp_with_tag 16 (qp_write_bool (w_full w)) else []).

Definition write_block (b : block) : bytes :=
  (if negb (is_nil (b_prefix b)) then qp_with_tag 10 (qp_write_bytes (b_prefix b)) else [])
  ++ (if negb (is_nil (b_data b)) then qp_with_tag 18 (qp_write_bytes (b_data b)) else []).

Definition write_presence (p : block_presence) : bytes :=
  (if negb (is_nil (bp_cid p)) then qp_with_tag 10 (qp_write_bytes (bp_cid p)) else [])
  ++ (if negb (presence_type_eqb (bp_type p) PHave)
      then qp_with_tag 16 (qp_write_enum (presence_type_code (bp_type p))) else []).

Definition write_message (m : message) : bytes :=
  (match m_wantlist m with
   | Some s => qp_with_tag 10 (qp_write_nested (size_wantlist s) (write_wantlist s))
   | None => []
   end)
  ++ concat (map (fun s => qp_with_tag 26 (qp_write_nested (size_block s) (write_block s))) (m_payload m))
  ++ concat (map (fun s => qp_with_tag 34 (qp_write_nested (size_presence s) (write_presence s))) (m_presences m))
  ++ (if negb (m_pending_bytes m =? 0) then qp_with_tag 40 (qp_write_int32 (m_pending_bytes m)) else []).

(* ------------------------------------------------------------------------------------------ *)
(* Well-formed message values (hypothesis of C10_body_roundtrip / C11_emit_valid):
   byte strings are bytes; int32 fields hold a u32 bit pattern; every nested message is shorter than
   2^32 (quick-protobuf reads lengths with read_varint32) - which bounds every length-delimited field
   as well, a field being shorter than the message that contains it; the whole body has a usize
   length. *)
Definition two32 : N := 2 ^ 32.

Definition wf_entry (e : entry) : Prop :=
  wf_bytes (e_block e) /\ e_priority e < two32 /\ size_entry e < two32.

Definition wf_wantlist (w : wantlist) : Prop :=
  Forall wf_entry (w_entries w) /\ size_wantlist w < two32.

Definition wf_block (b : block) : Prop :=
  wf_bytes (b_prefix b) /\ wf_bytes (b_data b) /\ size_block b < two32.

Definition wf_presence (p : block_presence) : Prop :=
  wf_bytes (bp_cid p) /\ size_presence p < two32.

Definition wf_message (m : message) : Prop :=
  match m_wantlist m with Some w => wf_wantlist w | None => True end
  /\ Forall wf_block (m_payload m)
  /\ Forall wf_presence (m_presences m)
  /\ m_pending_bytes m < two32
  /\ size_message m < two64.

(* executable versions (wf_messageb_spec in ProtoCodec_proofs.v) *)
Definition wf_entryb (e : entry) : bool :=
  wf_bytesb (e_block e) && (e_priority e <? two32) && (size_entry e <? two32).
Definition wf_wantlistb (w : wantlist) : bool :=
  forallb wf_entryb (w_entries w) && (size_wantlist w <? two32).
Definition wf_blockb (b : block) : bool :=
  wf_bytesb (b_prefix b) && wf_bytesb (b_data b) && (size_block b <? two32).
Definition wf_presenceb (p : block_presence) : bool :=
  wf_bytesb (bp_cid p) && (size_presence p <? two32).
Definition wf_messageb (m : message) : bool :=
  match m_wantlist m with Some w => wf_wantlistb w | None => true end
  && forallb wf_blockb (m_payload m)
  && forallb wf_presenceb (m_presences m)
  && (m_pending_bytes m <? two32)
  && (size_message m <? two64).

(* ------------------------------------------------------------------------------------------ *)
(* from_reader                                                                                *)

(* while !r.is_eof() { match r.next_tag(bytes) { ... } }  Ok(msg)
   `field t msg s e` is the body of the match arm selected by tag value `t`. *)
Fixpoint fr_loop {M} (md : mode) (bs : bytes) (field : N -> M -> N -> N -> xres M)
         (fuel : nat) (msg : M) (s e : N) : xres M :=
  match fuel with
  | O => XFuel
  | S f =>
      if s =? e then XOk msg s                                  (* is_eof: start == end *)
      else
        match ck md e (read_varint32 bs s) with                 (* next_tag = read_varint32 *)
        | XOk t s1 =>
            match field t msg s1 e with
            | XOk msg' s2 => fr_loop md bs field f msg' s2 e
            | o => o
            end
        | XErr => XErr
        | XPanic => XPanic
        | XFuel => XFuel
        | XOverrun => XOverrun
        end
  end.

Definition skip_unknown {M} (md : mode) (bs : bytes) (t : N) (msg : M) (s e : N) : xres M :=
  xmap (fun _ => msg) (read_unknown md bs t s e).

(* Entry *)
Definition entry_field (md : mode) (bs : bytes) (t : N) (msg : entry) (s e : N) : xres entry :=
  if t =? 10 then
    xmap (fun v => MkEntry v (e_priority msg) (e_cancel msg) (e_want_type msg) (e_send_dont_have msg))
         (read_bytes md bs s e)
  else if t =? 16 then
    xmap (fun v => MkEntry (e_block msg) v (e_cancel msg) (e_want_type msg) (e_send_dont_have msg))
         (ck md e (read_int32 bs s))
  else if t =? 24 then
    xmap (fun v => MkEntry (e_block msg) (e_priority msg) v (e_want_type msg) (e_send_dont_have msg))
         (ck md e (read_bool bs s))
  else if t =? 32 then
    xmap (fun v => MkEntry (e_block msg) (e_priority msg) (e_cancel msg) (want_type_of_i32 v) (e_send_dont_have msg))
         (ck md e (read_int32 bs s))                            (* read_enum = read_int32 .into() *)
  else if t =? 40 then
    xmap (fun v => MkEntry (e_block msg) (e_priority msg) (e_cancel msg) (e_want_type msg) v)
         (ck md e (read_bool bs s))
  else skip_unknown md bs t msg s e.

Definition entry_from_reader (md : mode) (bs : bytes) (fuel : nat) (s e : N) : xres entry :=
  fr_loop md bs (entry_field md bs) fuel default_entry s e.

(* Wantlist *)
Definition wantlist_field (md : mode) (bs : bytes) (fuel : nat) (t : N) (msg : wantlist) (s e : N) : xres wantlist :=
  if t =? 10 then
    xmap (fun v => MkWantlist (w_entries msg ++ [v]) (w_full msg))              (* entries.push *)
         (read_message md bs (entry_from_reader md bs fuel) s e)
  else if t =? 16 then
    xmap (fun v => MkWantlist (w_entries msg) v) (ck md e (read_bool bs s))
  else skip_unknown md bs t msg s e.

Definition wantlist_from_reader (md : mode) (bs : bytes) (fuel : nat) (s e : N) : xres wantlist :=
  fr_loop md bs (wantlist_field md bs fuel) fuel default_wantlist s e.

(* Block *)
Definition block_field (md : mode) (bs : bytes) (t : N) (msg : block) (s e : N) : xres block :=
  if t =? 10 then xmap (fun v => MkBlock v (b_data msg)) (read_bytes md bs s e)
  else if t =? 18 then xmap (fun v => MkBlock (b_prefix msg) v) (read_bytes md bs s e)
  else skip_unknown md bs t msg s e.

Definition block_from_reader (md : mode) (bs : bytes) (fuel : nat) (s e : N) : xres block :=
  fr_loop md bs (block_field md bs) fuel default_block s e.

(* BlockPresence *)
Definition presence_field (md : mode) (bs : bytes) (t : N) (msg : block_presence) (s e : N) : xres block_presence :=
  if t =? 10 then xmap (fun v => MkPresence v (bp_type msg)) (read_bytes md bs s e)
  else if t =? 16 then
    xmap (fun v => MkPresence (bp_cid msg) (presence_type_of_i32 v)) (ck md e (read_int32 bs s))
  else skip_unknown md bs t msg s e.

Definition presence_from_reader (md : mode) (bs : bytes) (fuel : nat) (s e : N) : xres block_presence :=
  fr_loop md bs (presence_field md bs) fuel default_presence s e.

(* Message: `msg.wantlist = Some(read_message(..)?)` REPLACES an earlier wantlist (no merge) *)
Definition message_field (md : mode) (bs : bytes) (fuel : nat) (t : N) (msg : message) (s e : N) : xres message :=
  if t =? 10 then
    xmap (fun v => MkMessage (Some v) (m_payload msg) (m_presences msg) (m_pending_bytes msg))
         (read_message md bs (wantlist_from_reader md bs fuel) s e)
  else if t =? 26 then
    xmap (fun v => MkMessage (m_wantlist msg) (m_payload msg ++ [v]) (m_presences msg) (m_pending_bytes msg))
         (read_message md bs (block_from_reader md bs fuel) s e)
  else if t =? 34 then
    xmap (fun v => MkMessage (m_wantlist msg) (m_payload msg) (m_presences msg ++ [v]) (m_pending_bytes msg))
         (read_message md bs (presence_from_reader md bs fuel) s e)
  else if t =? 40 then
    xmap (fun v => MkMessage (m_wantlist msg) (m_payload msg) (m_presences msg) v) (ck md e (read_int32 bs s))
  else skip_unknown md bs t msg s e.

Definition message_from_reader (md : mode) (bs : bytes) (fuel : nat) (s e : N) : xres message :=
  fr_loop md bs (message_field md bs fuel) fuel default_message s e.

(* ------------------------------------------------------------------------------------------ *)
(* Entry point: message.rs:56-60
     let mut reader = BytesReader::from_bytes(rest);          start = 0, end = rest.len()
     reader.read_message_by_len(rest, len)                    = read_len(Message::from_reader, len)
   Fuel: every loop gets `length rest + 1` iterations.  Without overrun an iteration consumes at least
   the tag byte, so this is never exhausted (proved: C08_decode_total).  In general (informal
   argument, not proved here) a loop over a fixed `end` is a deterministic function of `start`,
   successful iterations have `start < len rest`, so a run that exhausts the fuel has repeated a
   `start` and does not terminate; see also C08_decode_refuted_more_fuel. *)
Definition qp_fuel (rest : bytes) : nat := S (length rest).

Definition x_read_message (md : mode) (rest : bytes) (n : N) : xres message :=
  read_len md (message_from_reader md rest (qp_fuel rest)) 0 (len rest) n.

Definition qp_read_message (chk : bool) (rest : bytes) (n : N) : rres message :=
  to_rres (x_read_message (mode_of_chk chk) rest n).

(* The class excluded by C08_decode_total, decided by the instrumented run *)
Definition overrun_b (rest : bytes) (n : N) : bool :=
  match x_read_message MInstr rest n with XOverrun => true | _ => false end.
Definition Overrun (rest : bytes) (n : N) : Prop := overrun_b rest n = true.

(* the F2 witness: body of the frame `11 0a 02 0a 02 10 01 7a f1 ff ff ff ff ff ff ff ff 01` *)
Definition f2_witness : bytes :=
  [10; 2; 10; 2; 16; 1; 122; 241; 255; 255; 255; 255; 255; 255; 255; 255; 1].
