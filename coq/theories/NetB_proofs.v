(* NetB_proofs.v — package S, part 1: the loss of a block batch keeps every invariant of reachable nets.
   `BI s` = `RI s` (Net_proofs28: net_ok /\ net_live) /\ net_wf /\ net_rv — what the network theorems of Net_proofs32 use
   of a reachable net.  None of the clauses mentions `wire_b` except `no_wire_b` (every block in flight is good), which
   is monotone under removal; so `BLoseB` keeps them all, and `RI` IS an invariant of the net with lost replies
   (unlike the net with failed wantlists, NetF_proofs3 `RI_fstep_refuted`). *)
From BS Require Import Server_lemmas Server_inv Wantlist_proofs Client_proofs Client_proofs2 Client_proofs3 Client_proofs4
  Net Net_proofs2 Net_proofs3 Net_proofs4 Net_proofs5 Net_proofs6 Net_proofs7 Net_proofs9 Net_proofs10 Net_proofs14 Net_proofs24
  Net_proofs28 Net_proofs32 NetB.
From Coq Require Import ZArith ZifyBool ZifyN ZifyNat Lia.
Open Scope N_scope.

Section Basics.
  Variables (Sz : N) (Hh : hash_fn).

  Lemma bstep_BOp s o : bstep Sz Hh s (BOp o) = nstep Sz Hh s o.
  Proof. reflexivity. Qed.

  Lemma brun_cons s o ops :
    brun Sz Hh s (o :: ops) =
    (fst (brun Sz Hh (fst (bstep Sz Hh s o)) ops), snd (bstep Sz Hh s o) ++ snd (brun Sz Hh (fst (bstep Sz Hh s o)) ops)).
  Proof. cbn [brun]. destruct (bstep Sz Hh s o) as [s1 e1]. cbn [fst snd]. destruct (brun Sz Hh s1 ops); reflexivity. Qed.

  Lemma brun_app s a b :
    brun Sz Hh s (a ++ b) =
    (fst (brun Sz Hh (fst (brun Sz Hh s a)) b), snd (brun Sz Hh s a) ++ snd (brun Sz Hh (fst (brun Sz Hh s a)) b)).
  Proof.
    revert s. induction a as [|o a IH]; intros s.
    - cbn [app brun fst snd]. destruct (brun Sz Hh s b); reflexivity.
    - cbn [app]. rewrite !brun_cons. cbn [fst snd]. rewrite IH. cbn [fst snd]. rewrite app_assoc. reflexivity.
  Qed.

  Lemma brun_BOp ops : forall s, brun Sz Hh s (map BOp ops) = nrun Sz Hh s ops.
  Proof.
    induction ops as [|o ops IH]; intros s; [reflexivity|]. cbn [map brun nrun bstep].
    destruct (nstep Sz Hh s o) as [s1 e1]. rewrite IH. reflexivity.
  Qed.

  Lemma brun_h_run ops : forall s, fst (brun_h Sz Hh s ops) = brun Sz Hh s ops.
  Proof.
    induction ops as [|o ops IH]; intros s; [reflexivity|]. cbn [brun_h brun].
    destruct (bstep Sz Hh s o) as [s1 e1]. specialize (IH s1). destruct (brun_h Sz Hh s1 ops) as [[s2 e2] h2]. cbn [fst] in *.
    rewrite <- IH. reflexivity.
  Qed.

  Lemma base_ops_BOp ops : base_ops (map BOp ops) = ops.
  Proof. induction ops as [|o ops IH]; [reflexivity|]. cbn [map base_ops]. rewrite IH. reflexivity. Qed.

  (* ---------- what a loss changes ---------- *)
  Lemma lose_b_events s j i : snd (do_lose_b s j i) = [].
  Proof. unfold do_lose_b. destruct (take_first (b_between j i) (wire_b s)) as [[m rest]|]; reflexivity. Qed.

  Lemma lose_b_frames s j i :
    let s' := fst (do_lose_b s j i) in
    nodes s' = nodes s /\ conns s' = conns s /\ wire_w s' = wire_w s /\ now s' = now s /\
    (forall m, In m (wire_b s') -> In m (wire_b s)).
  Proof.
    unfold do_lose_b. destruct (take_first (b_between j i) (wire_b s)) as [[m rest]|] eqn:Et; cbn [fst nodes conns wire_w wire_b now]; auto 6.
    destruct (take_first_spec _ _ _ _ Et) as (_ & _ & Hsub & _). auto 6.
  Qed.

  Lemma lose_b_spec s j i m rest :
    take_first (b_between j i) (wire_b s) = Some (m, rest) ->
    fst (do_lose_b s j i) = MkNet (nodes s) (conns s) (wire_w s) rest (now s).
  Proof. intros Et. unfold do_lose_b. rewrite Et. reflexivity. Qed.

  Lemma lose_b_none s j i : take_first (b_between j i) (wire_b s) = None -> do_lose_b s j i = (s, []).
  Proof. intros Et. unfold do_lose_b. rewrite Et. reflexivity. Qed.

  Lemma lose_b_get_node s j i k : get_node (fst (do_lose_b s j i)) k = get_node s k.
  Proof. unfold get_node. rewrite (proj1 (lose_b_frames s j i)). reflexivity. Qed.

  Lemma lose_b_connected s j i a b : Net.connected (fst (do_lose_b s j i)) a b = Net.connected s a b.
  Proof. unfold Net.connected. rewrite (proj1 (proj2 (lose_b_frames s j i))). reflexivity. Qed.

  Lemma lose_b_client s j i k : client_of (fst (do_lose_b s j i)) k = client_of s k.
  Proof. unfold client_of. rewrite lose_b_get_node. reflexivity. Qed.
  Lemma lose_b_server s j i k : server_of (fst (do_lose_b s j i)) k = server_of s k.
  Proof. unfold server_of. rewrite lose_b_get_node. reflexivity. Qed.
  Lemma lose_b_store s j i k : store_of (fst (do_lose_b s j i)) k = store_of s k.
  Proof. unfold store_of. rewrite lose_b_get_node. reflexivity. Qed.
End Basics.

Section Invariants.
  Variables (Sz : N) (Hh : hash_fn).
  Hypothesis HSz : 32 <= Sz.
  Local Notation RI := (RI Sz Hh).

  Lemma net_ok_lose s j i : net_ok Sz Hh s -> net_ok Sz Hh (fst (do_lose_b s j i)).
  Proof.
    intros [H1 H2 H3]. destruct (lose_b_frames s j i) as (En & Ec & Ew & Et & Hb). cbn zeta in *. constructor.
    - intros k n Hg. rewrite lose_b_get_node in Hg. rewrite Et.
      apply (node_ok_frame Sz Hh (now s) (Net.connected s k)); [intros x; apply lose_b_connected | apply H1, Hg].
    - intros a b Hin. rewrite Ec in Hin. rewrite !lose_b_get_node. apply H2, Hin.
    - intros m Hm. apply H3, Hb, Hm.
  Qed.

  Lemma net_live_lose s j i : net_live s -> net_live (fst (do_lose_b s j i)).
  Proof.
    intros [Hnl Hwl]. destruct (lose_b_frames s j i) as (En & Ec & Ew & Et & Hb). cbn zeta in *. split.
    - intros k n Hg. rewrite lose_b_get_node in Hg. apply (Hnl k n Hg).
    - intros k n p Hg Hbz. rewrite lose_b_get_node in Hg. rewrite Ew. apply (Hwl k n p Hg Hbz).
  Qed.

  Lemma net_wf_lose s j i : net_wf Sz s -> net_wf Sz (fst (do_lose_b s j i)).
  Proof. intros H k n Hg. rewrite lose_b_get_node in Hg. apply (H k n Hg). Qed.

  Lemma net_rv_lose s j i : net_rv s -> net_rv (fst (do_lose_b s j i)).
  Proof. intros H k n Hg. rewrite lose_b_get_node in Hg. apply (H k n Hg). Qed.

  (* ---------- RI is kept by every step of the net with lost replies ---------- *)
  Definition bop_good (o : bop) : Prop := match o with BOp o => nop_good Sz Hh o | BLoseB _ _ => True end.
  Definition bop_wf (o : bop) : Prop := match o with BOp o => nop_wf Sz o | BLoseB _ _ => True end.

  Lemma bops_good ops : Forall (nop_good Sz Hh) (base_ops ops) <-> Forall bop_good ops.
  Proof.
    induction ops as [|[o|j i] ops IH]; cbn [base_ops].
    - split; constructor.
    - split; intros H; inversion H; subst; constructor; try assumption; apply IH; assumption.
    - split; intros H; [constructor; [exact I | apply IH, H] | inversion H; subst; apply IH; assumption].
  Qed.

  Lemma bops_wf ops : Forall (nop_wf Sz) (base_ops ops) <-> Forall bop_wf ops.
  Proof.
    induction ops as [|[o|j i] ops IH]; cbn [base_ops].
    - split; constructor.
    - split; intros H; inversion H; subst; constructor; try assumption; apply IH; assumption.
    - split; intros H; [constructor; [exact I | apply IH, H] | inversion H; subst; apply IH; assumption].
  Qed.

  Theorem RI_bstep s o : bop_good o -> bop_wf o -> RI s -> RI (fst (bstep Sz Hh s o)).
  Proof.
    intros Hg Hw [Hok Hl]. destruct o as [o|j i]; cbn [bstep bop_good bop_wf] in *.
    - split; [apply net_ok_step | apply (net_live_step Sz Hh HSz)]; assumption.
    - split; [apply net_ok_lose | apply net_live_lose]; assumption.
  Qed.

  (* the bundle the network theorems use *)
  Definition BI (s : net) : Prop := RI s /\ net_wf Sz s /\ net_rv s.

  Lemma BI_init n : BI (net_init n).
  Proof.
    split; [split; [apply net_ok_init; exact HSz | apply net_live_init] | split; [apply net_wf_init | apply net_rv_init]].
  Qed.

  Theorem BI_bstep s o : bop_good o -> bop_wf o -> BI s -> BI (fst (bstep Sz Hh s o)).
  Proof.
    intros Hg Hw (HR & Hwf & Hrv). split; [apply RI_bstep; assumption|]. destruct HR as [Hok _].
    destruct o as [o|j i]; cbn [bstep bop_good bop_wf] in *.
    - split; [apply (net_wf_step Sz Hh HSz) | apply (net_rv_step Sz Hh HSz)]; assumption.
    - split; [apply net_wf_lose | apply net_rv_lose]; assumption.
  Qed.

  Theorem BI_brun ops : forall s, Forall bop_good ops -> Forall bop_wf ops -> BI s -> BI (fst (brun Sz Hh s ops)).
  Proof.
    induction ops as [|o ops IH]; intros s Hg Hw HB; [exact HB|]. rewrite brun_cons. cbn [fst].
    inversion Hg; subst. inversion Hw; subst. apply IH; [assumption | assumption | apply BI_bstep; assumption].
  Qed.

  Theorem reachableB_BI n ops :
    Forall (nop_good Sz Hh) (base_ops ops) -> Forall (nop_wf Sz) (base_ops ops) -> BI (fst (brun Sz Hh (net_init n) ops)).
  Proof. intros Hg Hw. apply BI_brun; [apply bops_good, Hg | apply bops_wf, Hw | apply BI_init]. Qed.

  Theorem reachableB_RI n ops :
    Forall (nop_good Sz Hh) (base_ops ops) -> Forall (nop_wf Sz) (base_ops ops) -> RI (fst (brun Sz Hh (net_init n) ops)).
  Proof. intros Hg Hw. apply (reachableB_BI n ops Hg Hw). Qed.
End Invariants.
