(* Cid.v — model of the parts of the `cid` 0.11 / `multihash` 0.19 crates that beetswap uses.

   cid::CidGeneric<S>      = { version; codec : u64; hash : Multihash<S> }
   multihash::Multihash<S> = { code : u64; size : u8; digest : [u8; S] }   (digest() = digest[..size])

   A multihash is modelled by its code and its *visible* digest (a byte list, length = size).  All
   models assume the configured capacity S is at most 255 (the `size` field is a u8; with a larger S
   `Multihash::wrap` would truncate `size`), and the theorems that need it say so.

   Sources: cid-0.11.0/src/cid.rs (new, new_v0, read_bytes, write_bytes),
            multihash-0.19.1/src/multihash.rs (wrap, read_multihash, write_multihash). *)
From BS Require Export Bytes Varint.

Inductive version := V0 | V1.

Record multihash := MkMh { mh_code : N; mh_digest : bytes }.
Record cid := MkCid { c_ver : version; c_codec : N; c_hash : multihash }.

Definition DAG_PB : N := 112.        (* 0x70 *)
Definition SHA2_256 : N := 18.       (* 0x12 *)
Definition SHA2_256_SIZE : N := 32.  (* 0x20 *)

Definition version_eqb (a b : version) : bool :=
  match a, b with V0, V0 | V1, V1 => true | _, _ => false end.

Definition mh_eqb (a b : multihash) : bool :=
  (mh_code a =? mh_code b) && bytes_eqb (mh_digest a) (mh_digest b).

Definition cid_eqb (a b : cid) : bool :=
  version_eqb (c_ver a) (c_ver b) && (c_codec a =? c_codec b) && mh_eqb (c_hash a) (c_hash b).

(* cid::Version::try_from(u64) / Into<u64> *)
Definition version_of_u64 (n : N) : option version :=
  if n =? 0 then Some V0 else if n =? 1 then Some V1 else None.
Definition version_to_u64 (v : version) : N := match v with V0 => 0 | V1 => 1 end.

Inductive cid_error := InvalidCidV0Codec | InvalidCidV0Multihash.

(* Cid::new(version, codec, hash)  (cid.rs:100-109; new_v0 at :78-88) *)
Definition cid_new (v : version) (codec : N) (mh : multihash) : cid + cid_error :=
  match v with
  | V0 =>
      if negb (codec =? DAG_PB) then inr InvalidCidV0Codec
      else if negb (mh_code mh =? SHA2_256) || negb (len (mh_digest mh) =? SHA2_256_SIZE)
           then inr InvalidCidV0Multihash
           else inl (MkCid V0 DAG_PB mh)
  | V1 => inl (MkCid V1 codec mh)
  end.

(* Multihash::write: varint(code) ++ varint(size as u8) ++ digest *)
Definition mh_to_bytes (mh : multihash) : bytes :=
  uv_encode (mh_code mh) ++ uv_encode (len (mh_digest mh)) ++ mh_digest mh.

(* Cid::to_bytes / write_bytes *)
Definition cid_to_bytes (c : cid) : bytes :=
  match c_ver c with
  | V0 => mh_to_bytes (c_hash c)
  | V1 => uv_encode 1 ++ uv_encode (c_codec c) ++ mh_to_bytes (c_hash c)
  end.

(* Cid::read_bytes, i.e. CidGeneric::<S>::try_from(&[u8]).  Trailing bytes are ignored.
   `RPanic` is the `expect("Digest is always 32 bytes.")` of cid.rs:151, reachable iff S < 32. *)
Inductive read_result := ROk (c : cid) | RErr | RPanic.

Definition take (n : N) (bs : bytes) : option bytes :=
  if len bs <? n then None else Some (firstn (N.to_nat n) bs).

Definition cid_read_bytes (S : N) (bs : bytes) : read_result :=
  match uv_decode bs with
  | UvOk ver r1 =>
      match uv_decode r1 with
      | UvOk codec r2 =>
          if (ver =? 18) && (codec =? 32) then
            match take 32 r2 with
            | None => RErr
            | Some d => if S <? 32 then RPanic else ROk (MkCid V0 DAG_PB (MkMh SHA2_256 d))
            end
          else
            match version_of_u64 ver with
            | None => RErr
            | Some V0 => RErr                      (* InvalidExplicitCidV0 *)
            | Some V1 =>
                match uv_decode r2 with
                | UvOk code r3 =>
                    match uv_decode r3 with
                    | UvOk size r4 =>
                        if (S <? size) || (255 <? size) then RErr
                        else match take size r4 with
                             | None => RErr
                             | Some d => ROk (MkCid V1 codec (MkMh code d))
                             end
                    | _ => RErr
                    end
                | _ => RErr
                end
            end
      | _ => RErr
      end
  | _ => RErr
  end.

(* Well-formed CIDs: what a CidGeneric<S> value can be. *)
Definition wf_mh (S : N) (mh : multihash) : Prop :=
  mh_code mh < two64 /\ len (mh_digest mh) <= S /\ len (mh_digest mh) <= 255 /\ wf_bytes (mh_digest mh).

Definition wf_cid (S : N) (c : cid) : Prop :=
  c_codec c < two64 /\ wf_mh S (c_hash c) /\
  (c_ver c = V0 -> c_codec c = DAG_PB /\ mh_code (c_hash c) = SHA2_256 /\
                   len (mh_digest (c_hash c)) = SHA2_256_SIZE).
