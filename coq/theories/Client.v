(* Client.v — executable model of `ClientBehaviour` (/repo/src/client.rs:139-514) as lib.rs drives it.
   Definitions only; the theorems are in Client_proofs*.v.

   What is modelled, and how
   * `queue`            : list of events, FIFO.
   * `wantlist`         : Wantlist.wl.
   * `peers`            : association list sorted by peer number (the Rust iterates a hash map; all
                          per-peer work in one pass is independent, so only the ORDER of the
                          `SendWantlist` events of one `update_handlers` pass depends on it: the model
                          emits them sorted by peer, a comparison must sort the SendWantlist events of one
                          CPoll by peer — they are contiguous, at the end of the CPoll output).
   * `established_connections` : duplicate-free list; `iter().next()` is hash order, so the connection the
                          implementation picked is an INPUT (`choice` of CPoll) whose membership is checked;
                          a missing / non-member choice gives `OBadChoice` and the model continues with the
                          first connection of its own list.
   * `cid_to_queries`   : association list cid -> list qid (the SmallVec, order kept; `swap_remove` exact).
   * `tasks`            : `FuturesUnordered`.  `cs_tasks` = all live tasks by task number, `cs_ready` = the
                          ready-to-run queue (FIFO).  `push` enqueues; `poll_next` dequeues and polls until a
                          task is Ready or the queue is empty; a task that returns Pending leaves the queue and
                          comes back (at the tail) when it is woken: by CRelease of its store call, or by
                          `AbortHandle::abort` (only if it is not already queued).
                          A get task, polled: aborted -> `Cancelled` (its store call, if started, is dropped);
                          never polled before -> starts its one `store.get` call (output `OGet n cid`) and is
                          Pending; started -> Ready iff the call was released.
                          A put task is the same without abort (output `OPut n blocks`).
                          Store calls are numbered in start order (`cs_next_call`).
   * `query_abort_handle` : association list qid -> task number.
   * `send_full_timer`  : the virtual-clock `Delay` of src/verif/mod.rs: deadline in ms, ready iff
                          now >= deadline, `reset(30 s)` = now + 30000.
   * `Instant::now()`   : `cs_now`, advanced only by CAdvance.  A report (`CReport`) carries no Instant
                          (Types.sending_report); the model stores the current virtual time in the state it
                          records — the Instants of RequestReceived/Sending are never read by the behaviour.
   * u64 `next_query_id += 1`, `revision += 1`: unbounded N, overflow ignored (2^64 calls).
   * `CPoll` = `poll()` called until it returns Pending; every `Poll::Ready(ev)` is an output.  Because the
     state persists between calls this is the `loop` of client.rs:436-508 with `return Poll::Ready(ev)` read
     as "emit ev; continue".  The loop is run with explicit fuel (`poll_fuel`, linear in the state); running
     out is the distinguished output `OOutOfFuel` (proved unreachable: Client_proofs3 `cpoll_fuel_enough`,
     Client_proofs4 `crun_never_out_of_fuel`).
   * CRelease on a call number that is not an outstanding, unreleased call is a no-op.  For a put call every
     result other than SFail means Ok(()).
   * Panic point: the `debug_assert!` of client.rs:303 -> `OPanic` (processing of that message stops). *)
From BS Require Export Types Wantlist.

Inductive cop :=
| CNewConn (p : peer) (c : conn)
| CConnClosed (p : peer) (c : conn)
| CGet (c : option cid)
| CCancel (q : qid)
| CIncoming (p : peer) (pres : list (cid * bool)) (blocks : list (cid * bytes))
| CReport (p : peer) (c : conn) (r : sending_report)
| CRelease (call : N) (r : store_result)
| CAdvance (ms : N)
| CPoll (choice : list (peer * conn))
| CTakeNewBlocks.

Inductive cout :=
| OQuery (q : qid)
| OResponse (q : qid) (data : bytes) | OError (q : qid) (kind : N)
| OSendWantlist (p : peer) (c : conn) (full : bool) (entries : list gen_entry)
| OGet (call : N) (c : cid) | OPut (call : N) (blocks : list (cid * bytes))
| ONewBlocks (bl : list (cid * bytes))
| OBadChoice | OPanic
| OOutOfFuel.

(* ---------- state ---------- *)
Record peer_state := MkPeer {
  p_conns : list conn;            (* established_connections *)
  p_ss : sending_state;           (* sending_state *)
  p_wl : wls;                     (* wantlist *)
  p_send_full : bool              (* send_full *)
}.

Inductive task_kind := TGet (q : qid) (c : cid) | TPut (blocks : list (cid * bytes)).

Record task := MkTask {
  t_kind : task_kind;
  t_call : option N;              (* number of its store call once started (= once polled) *)
  t_result : option store_result; (* the environment released the call with this result *)
  t_aborted : bool                (* AbortInner.aborted *)
}.

(* the three things `queue` can hold *)
Inductive event :=
| EvResponse (q : qid) (data : bytes)
| EvError (q : qid) (kind : N)
| EvSend (p : peer) (c : conn) (full : bool) (entries : list gen_entry).

Record cstate := MkCs {
  cs_queue : list event;
  cs_wl : wl;
  cs_peers : list (peer * peer_state);
  cs_c2q : list (cid * list qid);
  cs_tasks : list (N * task);
  cs_ready : list N;
  cs_next_task : N;
  cs_abort : list (qid * N);
  cs_next_qid : N;
  cs_deadline : time;
  cs_new_blocks : list (cid * bytes);
  cs_now : time;
  cs_next_call : N
}.

Definition cinit (set_send_dont_have : bool) : cstate :=
  MkCs [] (wl_new set_send_dont_have) [] [] [] [] 0 [] 0 SEND_FULL_INTERVAL [] 0 0.

(* field updates *)
Definition set_queue (s : cstate) (q : list event) : cstate :=
  MkCs q (cs_wl s) (cs_peers s) (cs_c2q s) (cs_tasks s) (cs_ready s) (cs_next_task s) (cs_abort s)
       (cs_next_qid s) (cs_deadline s) (cs_new_blocks s) (cs_now s) (cs_next_call s).
Definition set_wl (s : cstate) (w : wl) : cstate :=
  MkCs (cs_queue s) w (cs_peers s) (cs_c2q s) (cs_tasks s) (cs_ready s) (cs_next_task s) (cs_abort s)
       (cs_next_qid s) (cs_deadline s) (cs_new_blocks s) (cs_now s) (cs_next_call s).
Definition set_peers (s : cstate) (ps : list (peer * peer_state)) : cstate :=
  MkCs (cs_queue s) (cs_wl s) ps (cs_c2q s) (cs_tasks s) (cs_ready s) (cs_next_task s) (cs_abort s)
       (cs_next_qid s) (cs_deadline s) (cs_new_blocks s) (cs_now s) (cs_next_call s).
Definition set_c2q (s : cstate) (m : list (cid * list qid)) : cstate :=
  MkCs (cs_queue s) (cs_wl s) (cs_peers s) m (cs_tasks s) (cs_ready s) (cs_next_task s) (cs_abort s)
       (cs_next_qid s) (cs_deadline s) (cs_new_blocks s) (cs_now s) (cs_next_call s).
Definition set_tasks (s : cstate) (ts : list (N * task)) (rq : list N) : cstate :=
  MkCs (cs_queue s) (cs_wl s) (cs_peers s) (cs_c2q s) ts rq (cs_next_task s) (cs_abort s)
       (cs_next_qid s) (cs_deadline s) (cs_new_blocks s) (cs_now s) (cs_next_call s).
Definition set_abort (s : cstate) (a : list (qid * N)) : cstate :=
  MkCs (cs_queue s) (cs_wl s) (cs_peers s) (cs_c2q s) (cs_tasks s) (cs_ready s) (cs_next_task s) a
       (cs_next_qid s) (cs_deadline s) (cs_new_blocks s) (cs_now s) (cs_next_call s).
Definition set_new_blocks (s : cstate) (b : list (cid * bytes)) : cstate :=
  MkCs (cs_queue s) (cs_wl s) (cs_peers s) (cs_c2q s) (cs_tasks s) (cs_ready s) (cs_next_task s) (cs_abort s)
       (cs_next_qid s) (cs_deadline s) b (cs_now s) (cs_next_call s).

Definition n_mem (x : N) (l : list N) : bool := existsb (N.eqb x) l.
Definition n_remove (x : N) (l : list N) : list N := filter (fun y => negb (x =? y)) l.

(* sorted insertion of a new peer entry (the key is known to be absent) *)
Fixpoint peers_ins (p : peer) (ps : peer_state) (l : list (peer * peer_state)) : list (peer * peer_state) :=
  match l with
  | [] => [(p, ps)]
  | (p', ps') :: l' => if p <? p' then (p, ps) :: l else (p', ps') :: peers_ins p ps l'
  end.

Definition new_peer_state : peer_state := MkPeer [] SsReady wls_new true.

(* ---------- new_connection_handler (client.rs:163-189) ---------- *)
Definition add_conn (c : conn) (ps : peer_state) : peer_state :=
  MkPeer (if n_mem c (p_conns ps) then p_conns ps else p_conns ps ++ [c]) (p_ss ps) (p_wl ps) (p_send_full ps).

Definition c_new_conn (s : cstate) (p : peer) (c : conn) : cstate :=
  if al_mem N.eqb p (cs_peers s)
  then set_peers s (al_modify N.eqb p (add_conn c) (cs_peers s))
  else set_peers s (peers_ins p (add_conn c new_peer_state) (cs_peers s)).

(* ---------- on_connection_closed (client.rs:191-202) ---------- *)
Definition remove_conn (c : conn) (ps : peer_state) : peer_state :=
  MkPeer (n_remove c (p_conns ps)) (p_ss ps) (p_wl ps) (p_send_full ps).

Definition c_conn_closed (s : cstate) (p : peer) (c : conn) : cstate :=
  match al_find N.eqb p (cs_peers s) with
  | None => s
  | Some ps =>
      let ps' := remove_conn c ps in
      match p_conns ps' with
      | [] => set_peers s (al_remove N.eqb p (cs_peers s))
      | _ => set_peers s (al_modify N.eqb p (remove_conn c) (cs_peers s))
      end
  end.

(* ---------- get (client.rs:204-259) ---------- *)
Definition push_task (s : cstate) (k : task_kind) : cstate :=
  MkCs (cs_queue s) (cs_wl s) (cs_peers s) (cs_c2q s)
       (cs_tasks s ++ [(cs_next_task s, MkTask k None None false)])
       (cs_ready s ++ [cs_next_task s]) (cs_next_task s + 1) (cs_abort s)
       (cs_next_qid s) (cs_deadline s) (cs_new_blocks s) (cs_now s) (cs_next_call s).

Definition bump_qid (s : cstate) : cstate :=
  MkCs (cs_queue s) (cs_wl s) (cs_peers s) (cs_c2q s) (cs_tasks s) (cs_ready s) (cs_next_task s) (cs_abort s)
       (cs_next_qid s + 1) (cs_deadline s) (cs_new_blocks s) (cs_now s) (cs_next_call s).

Definition c_get (s : cstate) (oc : option cid) : cstate * list cout :=
  let q := cs_next_qid s in
  let s1 := bump_qid s in
  match oc with
  | Some c =>
      let tid := cs_next_task s1 in
      let s2 := push_task s1 (TGet q c) in
      (set_abort s2 (al_set N.eqb q tid (cs_abort s2)), [OQuery q])
  | None => (set_queue s1 (cs_queue s1 ++ [EvError q 0]), [OQuery q])
  end.

(* ---------- cancel (client.rs:261-282) ---------- *)
(* `AbortHandle::abort`: set the flag, wake the task (it is enqueued unless already queued);
   a task that is gone is not affected *)
Definition abort_task (s : cstate) (tid : N) : cstate :=
  if al_mem N.eqb tid (cs_tasks s) then
    set_tasks s (al_modify N.eqb tid (fun t => MkTask (t_kind t) (t_call t) (t_result t) true) (cs_tasks s))
              (if n_mem tid (cs_ready s) then cs_ready s else cs_ready s ++ [tid])
  else s.

(* `queries.swap_remove(position of q)` *)
Fixpoint swap_remove_q (q : qid) (l : list qid) : list qid :=
  match l with
  | [] => []
  | x :: t =>
      if x =? q then match t with [] => [] | _ => last t x :: removelast t end
      else x :: swap_remove_q q t
  end.

(* the `for (cid, queries) in cid_to_queries.iter_mut()` loop: the first entry that holds q *)
Fixpoint find_query (q : qid) (m : list (cid * list qid)) : option (cid * list qid) :=
  match m with
  | [] => None
  | (c, qs) :: m' => if n_mem q qs then Some (c, qs) else find_query q m'
  end.

Definition c_cancel (s : cstate) (q : qid) : cstate :=
  let s1 :=
    match al_find N.eqb q (cs_abort s) with
    | Some tid => abort_task (set_abort s (al_remove N.eqb q (cs_abort s))) tid
    | None => s
    end in
  match find_query q (cs_c2q s1) with
  | None => s1
  | Some (c, qs) =>
      match swap_remove_q q qs with
      | [] => set_wl (set_c2q s1 (al_remove cid_eqb c (cs_c2q s1))) (fst (wl_remove (cs_wl s1) c))
      | _ => set_c2q s1 (al_modify cid_eqb c (swap_remove_q q) (cs_c2q s1))
      end
  end.

(* ---------- process_incoming_message (client.rs:284-326) ---------- *)
Definition apply_presence (w : wls) (pr : cid * bool) : wls :=
  if snd pr then wls_got_have w (fst pr) else wls_got_dont_have w (fst pr).

Record inc_acc := MkInc {
  ia_wl : wl; ia_pwl : wls; ia_c2q : list (cid * list qid); ia_queue : list event;
  ia_new : list (cid * bytes); ia_panic : bool
}.

Definition inc_block (a : inc_acc) (b : cid * bytes) : inc_acc :=
  if ia_panic a then a else
  let (c, data) := b in
  let (w', removed) := wl_remove (ia_wl a) c in
  if negb removed then
    (* debug_assert!(!self.cid_to_queries.contains_key(&cid)) *)
    if al_mem cid_eqb c (ia_c2q a) then MkInc (ia_wl a) (ia_pwl a) (ia_c2q a) (ia_queue a) (ia_new a) true
    else a
  else
    let qs := match al_find cid_eqb c (ia_c2q a) with Some qs => qs | None => [] end in
    MkInc w' (wls_got_block (ia_pwl a) c) (al_remove cid_eqb c (ia_c2q a))
          (ia_queue a ++ map (fun q => EvResponse q data) qs) (ia_new a ++ [(c, data)]) false.

Definition c_incoming (s : cstate) (p : peer) (pres : list (cid * bool)) (blocks : list (cid * bytes))
  : cstate * list cout :=
  match al_find N.eqb p (cs_peers s) with
  | None => (s, [])
  | Some ps =>
      let pwl := fold_left apply_presence pres (p_wl ps) in
      let a := fold_left inc_block blocks (MkInc (cs_wl s) pwl (cs_c2q s) (cs_queue s) [] false) in
      let upd := fun ps0 => MkPeer (p_conns ps0) (p_ss ps0) (ia_pwl a) (p_send_full ps0) in
      let s1 := MkCs (ia_queue a) (ia_wl a) (al_modify N.eqb p upd (cs_peers s)) (ia_c2q a)
                     (cs_tasks s) (cs_ready s) (cs_next_task s) (cs_abort s) (cs_next_qid s)
                     (cs_deadline s) (cs_new_blocks s) (cs_now s) (cs_next_call s) in
      if ia_panic a then (s1, [OPanic])
      else match ia_new a with
           | [] => (s1, [])
           | nb => (push_task s1 (TPut nb), [])
           end
  end.

(* ---------- sending_state_changed (client.rs:328-350) ---------- *)
Definition sending_conn (ss : sending_state) : option conn :=
  match ss with
  | SsRequested _ c | SsRequestReceived _ c | SsSending _ c => Some c
  | SsReady | SsFailed _ => None
  end.

Definition state_of_report (now : time) (r : sending_report) : sending_state :=
  match r with
  | RpReady => SsReady
  | RpRequestReceived c => SsRequestReceived now c
  | RpSending c => SsSending now c
  | RpFailed c => SsFailed c
  end.

Definition report_accepted (ps : peer_state) (c : conn) : bool :=
  match sending_conn (p_ss ps) with Some c' => c' =? c | None => false end.

Definition c_report (s : cstate) (p : peer) (c : conn) (r : sending_report) : cstate :=
  set_peers s (al_modify N.eqb p
    (fun ps => if report_accepted ps c
               then MkPeer (p_conns ps) (state_of_report (cs_now s) r) (p_wl ps) (p_send_full ps)
               else ps) (cs_peers s)).

(* ---------- update_handlers (client.rs:352-432) ---------- *)
(* the `match state.sending_state` gate: None = `continue` *)
Definition uh_gate (now : time) (ps : peer_state) : option peer_state :=
  match p_ss ps with
  | SsReady => Some ps
  | SsRequested t c =>
      if now - t <? RECEIVE_REQUEST_TIMEOUT then None
      else Some (MkPeer (n_remove c (p_conns ps)) SsReady (p_wl ps) true)
  | SsRequestReceived _ _ => None
  | SsSending _ _ => None
  | SsFailed c => Some (MkPeer (n_remove c (p_conns ps)) SsReady (p_wl ps) true)
  end.

Definition pick_conn (choice : list (peer * conn)) (p : peer) (conns : list conn) (dflt : conn)
  : conn * list cout :=
  match al_find N.eqb p choice with
  | Some c => if n_mem c conns then (c, []) else (dflt, [OBadChoice])
  | None => (dflt, [OBadChoice])
  end.

(* one iteration of `for (peer, state) in self.peers.iter_mut()`:
   new state, event pushed, outputs (OBadChoice), whether the peer goes on `peers_without_connection` *)
Definition uh_peer (now : time) (w : wl) (choice : list (peer * conn)) (p : peer) (ps : peer_state)
  : peer_state * list event * list cout * bool :=
  match uh_gate now ps with
  | None => (ps, [], [], false)
  | Some ps1 =>
      match p_conns ps1 with
      | [] => (ps1, [], [], true)
      | c0 :: _ =>
          let (es, wls') :=
            if p_send_full ps1 then wls_generate_full (p_wl ps1) w else wls_generate_update (p_wl ps1) w in
          let ps2 := MkPeer (p_conns ps1) (p_ss ps1) wls' false in
          if negb (p_send_full ps1) && match es with [] => true | _ => false end
          then (ps2, [], [], false)
          else
            let (c, bad) := pick_conn choice p (p_conns ps1) c0 in
            (MkPeer (p_conns ps1) (SsRequested now c) wls' false,
             [EvSend p c (p_send_full ps1) es], bad, false)
      end
  end.

Fixpoint uh_loop (now : time) (w : wl) (choice : list (peer * conn)) (l : list (peer * peer_state))
  : list (peer * peer_state) * list event * list cout :=
  match l with
  | [] => ([], [], [])
  | (p, ps) :: l' =>
      let '(ps', evs, outs, dead) := uh_peer now w choice p ps in
      let '(l'', evs', outs') := uh_loop now w choice l' in
      ((if dead then l'' else (p, ps') :: l''), evs ++ evs', outs ++ outs')
  end.

(* returns the new state, the outputs (only OBadChoice) and `handler_updated` *)
Definition update_handlers (s : cstate) (choice : list (peer * conn)) : cstate * list cout * bool :=
  let '(peers', evs, outs) := uh_loop (cs_now s) (cs_wl s) choice (cs_peers s) in
  (set_queue (set_peers s peers') (cs_queue s ++ evs), outs,
   match evs with [] => false | _ => true end).

(* ---------- tasks: FuturesUnordered::poll_next (see the header) ---------- *)
Inductive task_result :=
| TrGet (q : qid) (c : cid) (r : store_result)
| TrSet (ok : bool) (blocks : list (cid * bytes))
| TrCancelled.

Inductive task_poll := TpReady (r : task_result) | TpStart (outs : list cout) | TpPending.

Definition poll_task (next_call : N) (t : task) : task_poll :=
  match t_kind t with
  | TGet q c =>
      if t_aborted t then TpReady TrCancelled
      else match t_call t with
           | None => TpStart [OGet next_call c]
           | Some _ =>
               match t_result t with
               | Some r => TpReady (TrGet q c r)
               | None => TpPending
               end
           end
  | TPut bl =>
      match t_call t with
      | None => TpStart [OPut next_call bl]
      | Some _ =>
          match t_result t with
          | Some SFail => TpReady (TrSet false bl)
          | Some _ => TpReady (TrSet true bl)
          | None => TpPending
          end
      end
  end.

(* the first poll of a task starts its store call *)
Definition start_task (call : N) (t : task) : task := MkTask (t_kind t) (Some call) (t_result t) (t_aborted t).

(* dequeue and poll until one task is Ready or the ready-to-run queue is empty *)
Fixpoint poll_next (rq : list N) (tasks : list (N * task)) (next_call : N)
  : list (N * task) * list N * N * list cout * option task_result :=
  match rq with
  | [] => (tasks, [], next_call, [], None)
  | tid :: rq' =>
      match al_find N.eqb tid tasks with
      | None => poll_next rq' tasks next_call
      | Some t =>
          match poll_task next_call t with
          | TpReady r => (al_remove N.eqb tid tasks, rq', next_call, [], Some r)
          | TpStart outs =>
              let '(tasks', rq'', nc, outs', res) :=
                poll_next rq' (al_modify N.eqb tid (start_task next_call) tasks) (next_call + 1) in
              (tasks', rq'', nc, outs ++ outs', res)
          | TpPending => poll_next rq' tasks next_call
          end
      end
  end.

Definition set_tasks_calls (s : cstate) (ts : list (N * task)) (rq : list N) (nc : N) : cstate :=
  MkCs (cs_queue s) (cs_wl s) (cs_peers s) (cs_c2q s) ts rq (cs_next_task s) (cs_abort s)
       (cs_next_qid s) (cs_deadline s) (cs_new_blocks s) (cs_now s) nc.

(* `cid_to_queries.entry(cid).or_default().push(q)` *)
Definition c2q_push (c : cid) (q : qid) (m : list (cid * list qid)) : list (cid * list qid) :=
  if al_mem cid_eqb c m then al_modify cid_eqb c (fun qs => qs ++ [q]) m else m ++ [(c, [q])].

Definition wanted_again_all (c : cid) (l : list (peer * peer_state)) : list (peer * peer_state) :=
  map (fun e => (fst e, MkPeer (p_conns (snd e)) (p_ss (snd e)) (wls_wanted_again (p_wl (snd e)) c)
                               (p_send_full (snd e)))) l.

(* the body of `if let Poll::Ready(Some(task_result))` (client.rs:451-500): state and event returned *)
Definition handle_task_result (s : cstate) (r : task_result) : cstate * list cout :=
  match r with
  | TrGet q c res =>
      let s1 := set_abort s (al_remove N.eqb q (cs_abort s)) in
      match res with
      | SHit data => (s1, [OResponse q data])
      | SMiss =>
          let (w', inserted) := wl_insert (cs_wl s1) c in
          let s2 := set_wl s1 w' in
          let s3 := if inserted then set_peers s2 (wanted_again_all c (cs_peers s2)) else s2 in
          (set_c2q s3 (c2q_push c q (cs_c2q s3)), [])
      | SFail => (s1, [OError q 1])
      end
  | TrSet true bl => (set_new_blocks s (cs_new_blocks s ++ bl), [])
  | TrSet false _ => (s, [])
  | TrCancelled => (s, [])
  end.

(* ---------- poll (client.rs:435-509), called until Pending ---------- *)
Definition out_of_event (e : event) : cout :=
  match e with
  | EvResponse q d => OResponse q d
  | EvError q k => OError q k
  | EvSend p c f es => OSendWantlist p c f es
  end.

Definition fire_timer (s : cstate) : cstate :=
  MkCs (cs_queue s) (cs_wl s)
       (map (fun e => (fst e, MkPeer (p_conns (snd e)) (p_ss (snd e)) (p_wl (snd e)) true)) (cs_peers s))
       (cs_c2q s) (cs_tasks s) (cs_ready s) (cs_next_task s) (cs_abort s)
       (cs_next_qid s) (cs_now s + SEND_FULL_INTERVAL) (cs_new_blocks s) (cs_now s) (cs_next_call s).

Definition timer_ready (s : cstate) : bool := cs_deadline s <=? cs_now s.

(* one trip round the `loop`: None = `return Poll::Pending` *)
Definition poll_iter (choice : list (peer * conn)) (s : cstate) : cstate * list cout * bool :=
  match cs_queue s with
  | ev :: q => (set_queue s q, [out_of_event ev], true)
  | [] =>
      if timer_ready s then (fire_timer s, [], true)
      else
        let '(ts, rq, nc, outs, res) := poll_next (cs_ready s) (cs_tasks s) (cs_next_call s) in
        let s1 := set_tasks_calls s ts rq nc in
        match res with
        | Some r => let (s2, evs) := handle_task_result s1 r in (s2, outs ++ evs, true)
        | None =>
            let '(s2, outs2, updated) := update_handlers s1 choice in
            (s2, outs ++ outs2, updated)
        end
  end.

Fixpoint poll_loop (fuel : nat) (choice : list (peer * conn)) (s : cstate) : cstate * list cout :=
  match fuel with
  | O => (s, [OOutOfFuel])
  | S f =>
      let '(s1, outs, again) := poll_iter choice s in
      if again then let (s2, outs') := poll_loop f choice s1 in (s2, outs ++ outs')
      else (s1, outs)
  end.

Definition poll_fuel (s : cstate) : nat :=
  length (cs_queue s) + length (cs_ready s) + 2 * length (cs_peers s) + 3.

Definition c_poll (s : cstate) (choice : list (peer * conn)) : cstate * list cout :=
  poll_loop (poll_fuel s) choice s.

(* ---------- get_new_blocks (client.rs:511-513) ---------- *)
Definition c_take_new_blocks (s : cstate) : cstate * list cout :=
  (set_new_blocks s [], [ONewBlocks (cs_new_blocks s)]).

(* ---------- the environment: store completions and the clock ---------- *)
Definition call_is (call : N) (e : N * task) : bool :=
  match t_call (snd e), t_result (snd e) with
  | Some n, None => n =? call
  | _, _ => false
  end.

Definition c_release (s : cstate) (call : N) (r : store_result) : cstate :=
  match find (call_is call) (cs_tasks s) with
  | None => s
  | Some (tid, _) =>
      set_tasks s (al_modify N.eqb tid (fun t => MkTask (t_kind t) (t_call t) (Some r) (t_aborted t)) (cs_tasks s))
                (if n_mem tid (cs_ready s) then cs_ready s else cs_ready s ++ [tid])
  end.

Definition c_advance (s : cstate) (ms : N) : cstate :=
  MkCs (cs_queue s) (cs_wl s) (cs_peers s) (cs_c2q s) (cs_tasks s) (cs_ready s) (cs_next_task s) (cs_abort s)
       (cs_next_qid s) (cs_deadline s) (cs_new_blocks s) (cs_now s + ms) (cs_next_call s).

(* ---------- the step function ---------- *)
Definition cstep (s : cstate) (o : cop) : cstate * list cout :=
  match o with
  | CNewConn p c => (c_new_conn s p c, [])
  | CConnClosed p c => (c_conn_closed s p c, [])
  | CGet oc => c_get s oc
  | CCancel q => (c_cancel s q, [])
  | CIncoming p pres blocks => c_incoming s p pres blocks
  | CReport p c r => (c_report s p c r, [])
  | CRelease call r => (c_release s call r, [])
  | CAdvance ms => (c_advance s ms, [])
  | CPoll choice => c_poll s choice
  | CTakeNewBlocks => c_take_new_blocks s
  end.

Fixpoint crun_from (s : cstate) (ops : list cop) : list (list cout) * cstate :=
  match ops with
  | [] => ([], s)
  | o :: ops' =>
      let (s1, out) := cstep s o in
      let (outs, fin) := crun_from s1 ops' in (out :: outs, fin)
  end.

(* `ClientConfig::default()` has set_send_dont_have = true *)
Definition crun_sdh (set_send_dont_have : bool) (ops : list cop) : list (list cout) * cstate :=
  crun_from (cinit set_send_dont_have) ops.
Definition crun (ops : list cop) : list (list cout) * cstate := crun_sdh true ops.
