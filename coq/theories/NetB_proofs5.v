(* NetB_proofs5.v — package S, part 5: the lost reply is SENT AGAIN.  During a refresh (schedule steps from a quiet net,
   client i looks nothing up) a CID leaves i's wantlist only when a block batch carrying it is delivered to i; that batch
   was queued by a poll of its source during the refresh (ghost `entered_b`).  Hence `C06_lost_reply_reserved`: when the
   query is still waiting after `settle`, a batch with c for i enters `wire_b` during the refresh. *)
From BS Require Import Server_lemmas Server_inv Server_proofs Server_live Wantlist_proofs Client_proofs Client_proofs2
  Client_proofs3 Client_proofs4 Net Net_proofs2 Net_proofs3 Net_proofs4 Net_proofs5 Net_proofs6 Net_proofs7 Net_proofs8
  Net_proofs9 Net_proofs10 Net_proofs12 Net_proofs14 Net_proofs21 Net_proofs24 Net_proofs28 Net_proofs32 Net_proofs35 Net_proofs36
  NetB NetB_proofs NetB_proofs2 NetB_proofs4.
From Coq Require Import ZArith ZifyBool ZifyN ZifyNat Lia.
Open Scope N_scope.

(* ---------- client: a block batch removes from the wantlist only CIDs it carries ---------- *)
Lemma inc_block_keeps_wanted a b x :
  In x (wl_cids (ia_wl a)) -> x <> fst b -> In x (wl_cids (ia_wl (inc_block a b))).
Proof.
  intros Hin Hne. unfold inc_block. destruct (ia_panic a); [exact Hin|]. destruct b as [c0 d]. cbn [fst] in Hne.
  unfold wl_remove. destruct (cid_mem c0 (wl_cids (ia_wl a))); cbn [negb].
  - cbn [ia_wl wl_cids]. apply cid_remove_In. split; assumption.
  - destruct (al_mem cid_eqb c0 (ia_c2q a)); exact Hin.
Qed.

Lemma inc_blocks_keep_wanted bl : forall a x,
  In x (wl_cids (ia_wl a)) -> ~ In x (map fst bl) -> In x (wl_cids (ia_wl (fold_left inc_block bl a))).
Proof.
  induction bl as [|b bl IH]; intros a x Hin Hn; cbn [fold_left]; [exact Hin|].
  apply IH; [apply inc_block_keeps_wanted; [exact Hin | intros ->; apply Hn; left; reflexivity] | intros H; apply Hn; right; exact H].
Qed.

Lemma c_incoming_keeps_wanted cl p blocks x :
  In x (wl_cids (cs_wl cl)) -> ~ In x (map fst blocks) -> In x (wl_cids (cs_wl (fst (c_incoming cl p [] blocks)))).
Proof.
  intros Hin Hn. unfold c_incoming. destruct (al_find N.eqb p (cs_peers cl)) as [ps|]; [|exact Hin].
  cbn [fold_left]. set (a0 := MkInc (cs_wl cl) (p_wl ps) (cs_c2q cl) (cs_queue cl) [] false). set (a := fold_left inc_block blocks a0).
  assert (H : In x (wl_cids (ia_wl a))) by (apply inc_blocks_keep_wanted; [exact Hin | exact Hn]).
  destruct (ia_panic a); [|destruct (ia_new a) as [|b0 nb]]; cbn [fst push_task cs_wl]; exact H.
Qed.

Lemma skipn_length_app {A} (l1 l2 : list A) : skipn (length l1) (l1 ++ l2) = l2.
Proof. induction l1 as [|x l1 IH]; [reflexivity | exact IH]. Qed.

Section Resend.
  Variables (Sz : N) (Hh : hash_fn).
  Hypothesis HSz : 32 <= Sz.

  (* ---------- the ghost: every batch on the wire was there before or entered during the run ---------- *)
  Lemma entered_b_cons s o ops :
    entered_b Sz Hh s (o :: ops) = bh_entered (bhist_of Sz Hh s (BOp o)) ++ entered_b Sz Hh (fst (nstep Sz Hh s o)) ops.
  Proof.
    unfold entered_b. cbn [map brun_h bstep]. destruct (nstep Sz Hh s o) as [s1 e1]. cbn [fst].
    destruct (brun_h Sz Hh s1 (map BOp ops)) as [[s2 e2] h2]. reflexivity.
  Qed.

  Lemma wire_b_entered_step s o m :
    In m (wire_b (fst (nstep Sz Hh s o))) -> In m (wire_b s) \/ In m (bh_entered (bhist_of Sz Hh s (BOp o))).
  Proof.
    intros Hm. destruct (wire_b_step Sz Hh s o m Hm) as [H|(nj & -> & _ & _)]; [left; exact H|].
    cbn [bhist_of bh_entered]. destruct (poll_grows Sz Hh HSz s (bm_src m)) as (_ & (l & E) & _). rewrite E in *.
    rewrite skipn_length_app. apply in_app_iff in Hm. exact Hm.
  Qed.

  Lemma wire_b_entered_prefix ops1 : forall s ops2 m,
    In m (wire_b (fst (nrun Sz Hh s ops1))) -> In m (wire_b s) \/ In m (entered_b Sz Hh s (ops1 ++ ops2)).
  Proof.
    induction ops1 as [|o ops1 IH]; intros s ops2 m Hm; [left; exact Hm|].
    rewrite (nrun_cons Sz Hh) in Hm. cbn [fst] in Hm. cbn [app]. rewrite entered_b_cons.
    destruct (IH _ ops2 m Hm) as [H|H]; [|right; apply in_app_iff; right; exact H].
    destruct (wire_b_entered_step s o m H) as [H0|H0]; [left; exact H0 | right; apply in_app_iff; left; exact H0].
  Qed.

  Variables (i j : N) (c : cid) (strict : bool).
  Hypothesis Hij : i <> j.
  Local Notation P2 := (P2 Sz Hh i j c strict).

  (* ---------- c leaves i's wantlist only by a delivered batch that carries it ---------- *)
  Lemma wl_leaves_step s o :
    P2 s -> sched o -> In c (wl_i i s) -> ~ In c (wl_i i (fst (nstep Sz Hh s o))) ->
    exists a m rest, o = NDeliverB a i /\ take_first (b_between a i) (wire_b s) = Some (m, rest) /\ In c (map fst (bm_blocks m)).
  Proof.
    intros HP Ho Hin Hout. pose proof (p2_ok _ _ _ _ _ _ _ HP) as Hok.
    destruct o as [a b|a b|a x|a x|a x d|a x|ms|k|k m|a b|a b]; try destruct Ho.
    - (* NPoll *)
      exfalso. destruct (N.eq_dec k i) as [->|Hk].
      + cbn [nstep] in *. destruct (get_node s i) as [n|] eqn:Hg; [|unfold do_poll in Hout; rewrite Hg in Hout; cbn [fst] in Hout; contradiction].
        destruct (do_poll_nf Sz Hh s i n Hok Hg) as (sC & outsC & [Hrun HCC Hto Heq]). cbn zeta in Heq. rewrite Heq in Hout. cbn [fst] in Hout.
        assert (Hcl : client_of s i = Some (n_client n)) by (unfold client_of; rewrite Hg; reflexivity).
        pose proof (p2_noget _ _ _ _ _ _ _ HP _ Hcl) as Hng. destruct (after_timer_tasks (n_client n)) as [Et Ewt].
        destruct (tasks_run_noget _ _ _ Hrun) as (Ew & _ & _); [unfold no_gets; rewrite Et; exact Hng|]. rewrite Ewt in Ew.
        apply Hout. unfold wl_i in *. rewrite Hcl in Hin. unfold client_of. rewrite (get_set_nth_same s i n _ _ _ _ _ Hg).
        cbn [option_map n_client set_peers set_new_blocks set_queue cs_wl]. rewrite Ew. exact Hin.
      + apply Hout. unfold wl_i, client_of. rewrite (poll_other Sz Hh HSz s k i Hk). exact Hin.
    - (* NStore *)
      exfalso. cbn [nstep fst] in *. destruct (N.eq_dec k i) as [->|Hk].
      + destruct (get_node s i) as [n|] eqn:Hg; [|unfold on_node in Hout; rewrite Hg in Hout; contradiction].
        assert (Hc : ceq (n_client n) (n_client (node_store Sz n m))).
        { unfold node_store. destruct (nth_error (n_calls n) (N.to_nat m)) as [[m' x|m' bl|m' x]|]; cbn [n_client cstep fst];
            try apply ceq_refl; apply ceq_release. }
        destruct Hc as (E1 & _). apply Hout. unfold wl_i, client_of in *. rewrite (get_on_node_same s i _ n Hg). rewrite Hg in Hin.
        cbn [option_map] in *. rewrite E1. exact Hin.
      + apply Hout. unfold wl_i, client_of. rewrite get_on_node_other by congruence. exact Hin.
    - (* NDeliverW *)
      exfalso. cbn [nstep] in *.
      destruct (take_first (w_between a b) (wire_w s)) as [[m rest]|] eqn:Et; [|unfold do_deliver_w in Hout; rewrite Et in Hout; contradiction].
      destruct (get_node s a) as [na|] eqn:Hga; [destruct (get_node s b) as [nb|] eqn:Hgb|].
      2,3: (assert (Es : fst (do_deliver_w Sz Hh s a b) = MkNet (nodes s) (conns s) rest (wire_b s) (now s))
             by (unfold do_deliver_w; rewrite Et;
                 change (get_node (MkNet (nodes s) (conns s) rest (wire_b s) (now s)) a) with (get_node s a);
                 change (get_node (MkNet (nodes s) (conns s) rest (wire_b s) (now s)) b) with (get_node s b);
                 rewrite ?Hga, ?Hgb; reflexivity);
            rewrite Es in Hout; apply Hout; exact Hin).
      destruct (deliver_w_effect Sz Hh s a b m rest na nb Et Hga Hgb) as (_ & _ & _ & _ & _ & _ & Ecl & Ecla). cbn zeta in *.
      destruct (N.eq_dec i a) as [->|Hia].
      + apply Hout. unfold wl_i in *. rewrite Ecla. unfold client_of in Hin. rewrite Hga in Hin. cbn [option_map] in Hin.
        unfold c_report. cbn [set_peers cs_wl]. exact Hin.
      + apply Hout. unfold wl_i. rewrite (Ecl i Hia). exact Hin.
    - (* NDeliverB *)
      cbn [nstep] in *.
      destruct (take_first (b_between a b) (wire_b s)) as [[m rest]|] eqn:Et; [|exfalso; unfold do_deliver_b in Hout; rewrite Et in Hout; contradiction].
      destruct (N.eq_dec b i) as [->|Hb].
      + destruct (get_node s i) as [ni|] eqn:Hg.
        2:{ exfalso. unfold wl_i, client_of in Hin. rewrite Hg in Hin. destruct Hin. }
        destruct (take_first_spec _ _ _ _ Et) as (Hm & _).
        destruct (deliver_b_effect Sz Hh s a i m rest ni Et Hg (no_wire_b _ _ _ Hok m Hm)) as (cl' & Es & Hcl').
        exists a, m, rest. split; [reflexivity|]. split; [exact Et|].
        destruct (cid_mem c (map fst (bm_blocks m))) eqn:M; [apply cid_mem_In, M|]. exfalso. apply Hout. rewrite Es.
        unfold wl_i, client_of in *. rewrite (get_set_nth_same s i ni _ _ _ _ _ Hg). rewrite Hg in Hin. cbn [option_map n_client] in *.
        destruct Hcl' as [[-> _]| ->]; [exact Hin|].
        apply c_incoming_keeps_wanted; [exact Hin|]. intros H. apply ins_all_keys in H. destruct H as [[]|H].
        apply cid_mem_In in H. congruence.
      + exfalso. apply Hout. unfold do_deliver_b. rewrite Et.
        destruct (get_node s b) as [nb|]; [destruct (node_incoming Sz Hh nb a _) as [nb1 evs]|]; cbn [fst]; unfold wl_i, client_of;
          [rewrite get_other by congruence|]; exact Hin.
  Qed.

  Lemma wl_leaves_run ops : forall s,
    Forall sched ops -> P2 s -> In c (wl_i i s) -> ~ In c (wl_i i (fst (nrun Sz Hh s ops))) ->
    exists ops1 a ops2 m rest,
      ops = ops1 ++ NDeliverB a i :: ops2 /\
      take_first (b_between a i) (wire_b (fst (nrun Sz Hh s ops1))) = Some (m, rest) /\ In c (map fst (bm_blocks m)).
  Proof.
    induction ops as [|o ops IH]; intros s Hs HP Hin Hout; [contradiction|].
    rewrite (nrun_cons Sz Hh) in Hout. cbn [fst] in Hout. inversion Hs as [|? ? Ho Hs']; subst.
    destruct (cid_mem c (wl_i i (fst (nstep Sz Hh s o)))) eqn:M.
    - apply cid_mem_In in M.
      destruct (IH _ Hs' (P2_sched Sz Hh HSz i j c strict s o Hij Ho HP) M Hout) as (ops1 & a & ops2 & m & rest & E & Et & Hc).
      exists (o :: ops1), a, ops2, m, rest. split; [rewrite E; reflexivity|]. rewrite (nrun_cons Sz Hh). cbn [fst]. auto.
    - assert (Hn : ~ In c (wl_i i (fst (nstep Sz Hh s o)))) by (intros H; apply cid_mem_In in H; congruence).
      destruct (wl_leaves_step s o HP Ho Hin Hn) as (a & m & rest & -> & Et & Hc).
      exists [], a, ops, m, rest. split; [reflexivity|]. cbn [nrun fst]. auto.
  Qed.
End Resend.

Section Reserved.
  Variables (Sz : N) (Hh : hash_fn).
  Hypothesis HSz : 32 <= Sz.

  (* from a quiet net in which i still wants c and a connected j holds it: during the refresh a batch with c for i enters
     `wire_b` (queued by a poll of its source a — j, or another holder of c that i is connected to) *)
  Lemma refresh_resends (i j : N) (c : cid) s1 :
    i <> j -> BI Sz Hh s1 -> quietb s1 = true -> Net.connected s1 i j = true ->
    (exists st d, store_of s1 j = Some st /\ store_get st c = SHit d) -> (length (wl_i i s1) <= 1024)%nat ->
    In c (wl_i i s1) ->
    exists ops2, Forall sched ops2 /\ refresh Sz Hh s1 = nrun Sz Hh (advance Sz Hh SEND_FULL_INTERVAL s1) ops2 /\
      exists a m, In m (entered_b Sz Hh (advance Sz Hh SEND_FULL_INTERVAL s1) ops2) /\ carries a i c m = true.
  Proof.
    intros Hij (HR & Hwf & _) Hq Hconn Hst Hsz Hin.
    destruct (refresh_clears_g Sz Hh HSz (settle Sz Hh) (settle_run Sz Hh) (settle_terminates_RI Sz Hh HSz) i j c s1 Hij HR Hwf Hq Hconn Hst Hsz)
      as (ops2 & Hs2 & E2 & HP & _ & Hnw).
    change (rg Sz Hh (settle Sz Hh) s1) with (refresh Sz Hh s1) in *.
    exists ops2. split; [exact Hs2|]. split; [exact E2|]. rewrite E2 in Hnw.
    set (s1' := advance Sz Hh SEND_FULL_INTERVAL s1) in *.
    assert (Hin' : In c (wl_i i s1')).
    { unfold wl_i in *. unfold s1'. rewrite (client_after_advance Sz Hh i). destruct (client_of s1 i) as [cl|]; [|destruct Hin].
      cbn [option_map]. exact Hin. }
    destruct (wl_leaves_run Sz Hh HSz i j c true Hij ops2 s1' Hs2 HP Hin' Hnw) as (ops_a & a & ops_b & m & rest & E & Et & Hc).
    destruct (take_first_spec _ _ _ _ Et) as (Hm & Hbt & _).
    exists a, m. split.
    - destruct (wire_b_entered_prefix Sz Hh HSz ops_a s1' (NDeliverB a i :: ops_b) m Hm) as [H|H]; [|rewrite E; exact H].
      exfalso. assert (Hw : wire_b s1' = []).
      { unfold s1', advance. cbn [nstep fst wire_b]. unfold quietb in Hq. rewrite !andb_true_iff in Hq. destruct Hq as [[_ Hb] _].
        destruct (wire_b s1); [reflexivity | discriminate]. }
      rewrite Hw in H. destruct H.
    - unfold carries. rewrite Hbt. cbn [andb]. apply existsb_exists. exists c. split; [exact Hc | apply cid_eqb_refl].
  Qed.

  Theorem C06_lost_reply_reserved (i j : N) (q : qid) (c : cid) n ops m :
    Forall (nop_good Sz Hh) (base_ops ops) -> Forall (nop_wf Sz) (base_ops ops) ->
    let s0 := fst (brun Sz Hh (net_init n) ops) in
    next_batch s0 j i = Some m -> In c (map fst (bm_blocks m)) ->
    let s := fst (bstep Sz Hh s0 (BLoseB j i)) in
    live_query i q c s -> Net.connected s i j = true ->
    (exists st d, store_of s j = Some st /\ store_get st c = SHit d) ->
    let r1 := settle Sz Hh s in
    let r2 := refresh Sz Hh (fst r1) in
    (length (wl_i i (fst r1)) <= 1024)%nat ->
    answered i q (snd r1 ++ snd r2) /\
    (~ answered i q (snd r1) ->
     exists ops2, Forall sched ops2 /\ r2 = nrun Sz Hh (advance Sz Hh SEND_FULL_INTERVAL (fst r1)) ops2 /\
       exists a m', In m' (entered_b Sz Hh (advance Sz Hh SEND_FULL_INTERVAL (fst r1)) ops2) /\ carries a i c m' = true).
  Proof.
    intros Hg Hw s0 Hnb Hc s Hlive Hconn Hst r1 r2 Hsz.
    destruct (C06_lost_reply_reserved_partial Sz Hh HSz i j q c n ops m Hg Hw Hnb Hc Hlive Hconn Hst Hsz) as (_ & Hq1 & _ & Hans & _).
    split; [exact Hans|]. intros Hna. change (quietb (fst r1) = true) in Hq1.
    pose proof (reachableB_BI Sz Hh HSz n ops Hg Hw) as HB0. fold s0 in HB0.
    assert (HB : BI Sz Hh s) by (apply (BI_bstep Sz Hh HSz s0 (BLoseB j i)); [exact I | exact I | exact HB0]).
    pose proof HB as (HR & Hwf & Hrv). pose proof (proj1 HR) as Hok.
    destruct (connected_neq Sz Hh HSz s i j Hok Hconn) as (Hij & _).
    destruct (settle_run Sz Hh s) as (ops1 & Hs1 & E1).
    assert (Ef : fst r1 = fst (nrun Sz Hh s ops1)) by (unfold r1; rewrite E1; reflexivity).
    assert (Es : snd r1 = snd (nrun Sz Hh s ops1)) by (unfold r1; rewrite E1; reflexivity).
    subst r2. revert Hq1 Hsz Hna. rewrite Ef, Es. intros Hq1 Hsz Hna.
    destruct (sched_run_facts Sz Hh HSz ops1 s j c Hs1 Hok Hwf) as (Hok1 & Hwf1 & Hc1 & Hst1). cbn zeta in *.
    assert (Ha : alive i q c s).
    { destruct Hlive as (cl & qs & E & Hin & Hq). exists cl. split; [exact E|]. left. exists qs. auto. }
    destruct (alive_run Sz Hh HSz i q c ops1 s Hs1 Hok Ha) as [Ha1|Hd]; [|contradiction].
    pose proof (alive_quiet_wanted Sz Hh i q c _ Hok1 Hq1 Ha1) as Hin.
    assert (HB1 : BI Sz Hh (fst (nrun Sz Hh s ops1))) by (apply (BI_sched_run Sz Hh HSz); [exact Hs1 | exact HB]).
    assert (Hconn1 : Net.connected (fst (nrun Sz Hh s ops1)) i j = true) by (unfold Net.connected in *; rewrite Hc1; exact Hconn).
    exact (refresh_resends i j c _ Hij HB1 Hq1 Hconn1 (Hst1 Hst) Hsz Hin).
  Qed.
End Reserved.
