(* Wantlist_proofs.v — lemmas and theorems about Wantlist.v (C17, C04). *)
From BS Require Import Types Wantlist.
From Coq Require Import ZArith ZifyBool ZifyN ZifyNat Lia Permutation.
Open Scope N_scope.

(* ---------- equality on CIDs ---------- *)
Lemma version_eqb_spec a b : version_eqb a b = true <-> a = b.
Proof. destruct a, b; cbn; split; congruence. Qed.

Lemma mh_eqb_spec a b : mh_eqb a b = true <-> a = b.
Proof.
  destruct a as [ca da], b as [cb db]; unfold mh_eqb; cbn.
  rewrite andb_true_iff, N.eqb_eq, bytes_eqb_spec.
  split; [intros [-> ->]; reflexivity | intros [= -> ->]; auto].
Qed.

Lemma cid_eqb_spec a b : cid_eqb a b = true <-> a = b.
Proof.
  destruct a as [va ca ha], b as [vb cb hb]; unfold cid_eqb; cbn.
  rewrite !andb_true_iff, version_eqb_spec, N.eqb_eq, mh_eqb_spec.
  split; [intros [[-> ->] ->]; reflexivity | intros [= -> -> ->]; auto].
Qed.

Lemma cid_eqb_refl a : cid_eqb a a = true.
Proof. apply cid_eqb_spec; reflexivity. Qed.

Lemma cid_eqb_neq a b : cid_eqb a b = false <-> a <> b.
Proof.
  split.
  - intros H E. apply cid_eqb_spec in E. congruence.
  - intros H. destruct (cid_eqb a b) eqn:E; [apply cid_eqb_spec in E; contradiction | reflexivity].
Qed.

Lemma cid_eqb_sym a b : cid_eqb a b = cid_eqb b a.
Proof.
  destruct (cid_eqb a b) eqn:E.
  - apply cid_eqb_spec in E; subst. symmetry; apply cid_eqb_refl.
  - apply cid_eqb_neq in E. symmetry. apply cid_eqb_neq. congruence.
Qed.

Lemma cid_eq_dec (a b : cid) : {a = b} + {a <> b}.
Proof.
  destruct (cid_eqb a b) eqn:E; [left; apply cid_eqb_spec; assumption | right; apply cid_eqb_neq; assumption].
Qed.

Ltac cid_cases a b :=
  let E := fresh "E" in
  destruct (cid_eqb a b) eqn:E;
  [apply cid_eqb_spec in E; try subst | apply cid_eqb_neq in E].

Lemma cid_mem_In c l : cid_mem c l = true <-> In c l.
Proof.
  unfold cid_mem. rewrite existsb_exists. split.
  - intros (x & Hx & E). apply cid_eqb_spec in E; subst; assumption.
  - intros H. exists c; split; [assumption | apply cid_eqb_refl].
Qed.

Lemma cid_mem_false c l : cid_mem c l = false <-> ~ In c l.
Proof.
  rewrite <- cid_mem_In. destruct (cid_mem c l); split; intros; congruence.
Qed.

Lemma cid_remove_In x c l : In x (cid_remove c l) <-> In x l /\ x <> c.
Proof.
  unfold cid_remove. rewrite filter_In. rewrite negb_true_iff, cid_eqb_neq.
  split; intros [H1 H2]; split; auto.
Qed.

Lemma cid_remove_NoDup c l : NoDup l -> NoDup (cid_remove c l).
Proof. apply NoDup_filter. Qed.

Lemma NoDup_app_iff {A} (l1 l2 : list A) :
  NoDup (l1 ++ l2) <-> NoDup l1 /\ NoDup l2 /\ (forall x, In x l1 -> ~ In x l2).
Proof.
  induction l1 as [|a l1 IH]; cbn.
  - split; [intros H; repeat split; [constructor | assumption | intros x []] | intros (_ & H & _); assumption].
  - rewrite !NoDup_cons_iff, IH, in_app_iff. split.
    + intros (Hn & H1 & H2 & H3). repeat split; auto.
      intros x [<- | Hx]; auto.
    + intros ((Hn & H1) & H2 & H3). repeat split; auto.
      intros [H | H]; [contradiction | apply (H3 a); auto].
Qed.

Lemma NoDup_snoc {A} (l : list A) x : NoDup l -> ~ In x l -> NoDup (l ++ [x]).
Proof.
  intros Hl Hx. apply NoDup_app_iff. repeat split; [assumption | constructor; [intros [] | constructor] |].
  intros y Hy [<- | []]. contradiction.
Qed.

(* ---------- association lists ---------- *)
Section AssocLemmas.
  Context {K V : Type} (eqb : K -> K -> bool).
  Hypothesis eqb_spec : forall a b, eqb a b = true <-> a = b.

  Lemma al_eqb_refl a : eqb a a = true.
  Proof. apply eqb_spec; reflexivity. Qed.

  Lemma al_eqb_neq a b : eqb a b = false <-> a <> b.
  Proof.
    split.
    - intros H E. apply eqb_spec in E. congruence.
    - intros H. destruct (eqb a b) eqn:E; [apply eqb_spec in E; contradiction | reflexivity].
  Qed.

  Lemma al_find_some_in k (v : V) l : al_find eqb k l = Some v -> In (k, v) l.
  Proof.
    induction l as [|[k' v'] l IH]; cbn; [discriminate|].
    destruct (eqb k k') eqn:E.
    - apply eqb_spec in E; subst. intros [= ->]. left; reflexivity.
    - intros H. right; auto.
  Qed.

  Lemma al_find_none k (l : list (K * V)) : al_find eqb k l = None <-> ~ In k (map fst l).
  Proof.
    induction l as [|[k' v'] l IH]; cbn; [split; [intros _ [] | reflexivity]|].
    destruct (eqb k k') eqn:E.
    - apply eqb_spec in E; subst. split; [discriminate | intros H; exfalso; apply H; left; reflexivity].
    - apply al_eqb_neq in E. rewrite IH. split; [intros H [H1 | H1]; [congruence | contradiction] | intros H H1; apply H; right; assumption].
  Qed.

  Lemma al_in_find k (v : V) l : NoDup (map fst l) -> In (k, v) l -> al_find eqb k l = Some v.
  Proof.
    induction l as [|[k' v'] l IH]; cbn; [intros _ []|].
    intros Hnd [H | H]; inversion Hnd as [|? ? Hn Hnd']; subst.
    - injection H as -> ->. rewrite al_eqb_refl. reflexivity.
    - destruct (eqb k k') eqn:E.
      + apply eqb_spec in E; subst. exfalso. apply Hn. apply (in_map fst) in H. exact H.
      + auto.
  Qed.

  Lemma al_find_some_key k (v : V) l : al_find eqb k l = Some v -> In k (map fst l).
  Proof. intros H. apply al_find_some_in in H. apply (in_map fst) in H. exact H. Qed.

  Lemma al_mem_In k (l : list (K * V)) : al_mem eqb k l = true <-> In k (map fst l).
  Proof.
    unfold al_mem. rewrite existsb_exists, in_map_iff. split.
    - intros (e & He & E). apply eqb_spec in E. exists e; split; [symmetry; assumption | assumption].
    - intros (e & He & Hin). exists e; split; [assumption | apply eqb_spec; symmetry; assumption].
  Qed.

  Lemma al_mem_find k (l : list (K * V)) :
    al_mem eqb k l = match al_find eqb k l with Some _ => true | None => false end.
  Proof.
    destruct (al_find eqb k l) eqn:E.
    - apply al_mem_In. eapply al_find_some_key; eassumption.
    - apply al_find_none in E. destruct (al_mem eqb k l) eqn:M; [apply al_mem_In in M; contradiction | reflexivity].
  Qed.

  Lemma al_modify_keys k f (l : list (K * V)) : map fst (al_modify eqb k f l) = map fst l.
  Proof.
    unfold al_modify. rewrite map_map. apply map_ext. intros [k' v']; cbn. destruct (eqb k k'); reflexivity.
  Qed.

  Lemma al_find_modify k f k' (l : list (K * V)) :
    al_find eqb k' (al_modify eqb k f l) =
    if eqb k k' then option_map f (al_find eqb k' l) else al_find eqb k' l.
  Proof.
    unfold al_modify.
    induction l as [|[k0 v0] l IH]; cbn [map al_find fst snd]; [destruct (eqb k k'); reflexivity|].
    destruct (eqb k k0) eqn:E0; cbn [al_find fst snd].
    - apply eqb_spec in E0; subst k0. destruct (eqb k' k) eqn:E1.
      + apply eqb_spec in E1; subst. rewrite al_eqb_refl. reflexivity.
      + exact IH.
    - destruct (eqb k' k0) eqn:E1.
      + apply eqb_spec in E1; subst k0. rewrite E0. reflexivity.
      + exact IH.
  Qed.

  Lemma al_find_remove k k' (l : list (K * V)) :
    al_find eqb k' (al_remove eqb k l) = if eqb k k' then None else al_find eqb k' l.
  Proof.
    unfold al_remove.
    induction l as [|[k0 v0] l IH]; cbn [filter al_find fst snd]; [destruct (eqb k k'); reflexivity|].
    destruct (eqb k k0) eqn:E0; cbn [negb al_find].
    - apply eqb_spec in E0; subst k0. rewrite IH. destruct (eqb k k') eqn:E1; [reflexivity|].
      destruct (eqb k' k) eqn:E2; [apply eqb_spec in E2; subst; rewrite al_eqb_refl in E1; discriminate | reflexivity].
    - destruct (eqb k' k0) eqn:E1.
      + apply eqb_spec in E1; subst k0. rewrite E0. reflexivity.
      + exact IH.
  Qed.

  Lemma al_remove_keys k (l : list (K * V)) x :
    In x (map fst (al_remove eqb k l)) <-> In x (map fst l) /\ x <> k.
  Proof.
    unfold al_remove. rewrite !in_map_iff. split.
    - intros (e & <- & He). apply filter_In in He. destruct He as [He Hn].
      apply negb_true_iff, al_eqb_neq in Hn. split; [exists e; auto | congruence].
    - intros ((e & <- & He) & Hn). exists e; split; [reflexivity|]. apply filter_In. split; [assumption|].
      apply negb_true_iff, al_eqb_neq. congruence.
  Qed.

  Lemma NoDup_map_filter {A B} (g : A -> B) (P : A -> bool) l : NoDup (map g l) -> NoDup (map g (filter P l)).
  Proof.
    induction l as [|a l IH]; cbn; [auto|]. intros Hnd. inversion Hnd as [|? ? Hn Hnd']; subst.
    destruct (P a); cbn; [constructor|]; auto.
    intros Hin. apply Hn. apply in_map_iff in Hin. destruct Hin as (x & <- & Hx).
    apply filter_In in Hx. apply in_map. apply Hx.
  Qed.

  Lemma al_remove_NoDup k (l : list (K * V)) : NoDup (map fst l) -> NoDup (map fst (al_remove eqb k l)).
  Proof. apply NoDup_map_filter. Qed.

  Lemma al_find_app k (l1 l2 : list (K * V)) :
    al_find eqb k (l1 ++ l2) = match al_find eqb k l1 with Some v => Some v | None => al_find eqb k l2 end.
  Proof.
    induction l1 as [|[k0 v0] l1 IH]; cbn; [reflexivity|]. destruct (eqb k k0); [reflexivity | exact IH].
  Qed.

  Lemma al_find_filter_key (P : K -> bool) k (l : list (K * V)) :
    al_find eqb k (filter (fun e => P (fst e)) l) = if P k then al_find eqb k l else None.
  Proof.
    induction l as [|[k0 v0] l IH]; cbn; [destruct (P k); reflexivity|].
    destruct (P k0) eqn:E0; cbn.
    - destruct (eqb k k0) eqn:E1; [apply eqb_spec in E1; subst; rewrite E0; reflexivity | exact IH].
    - destruct (eqb k k0) eqn:E1; [apply eqb_spec in E1; subst; rewrite E0 in *; exact IH | exact IH].
  Qed.

  Lemma al_find_map_val (g : V -> V) k (l : list (K * V)) :
    al_find eqb k (map (fun e => (fst e, g (snd e))) l) = option_map g (al_find eqb k l).
  Proof.
    induction l as [|[k0 v0] l IH]; cbn; [reflexivity|]. destruct (eqb k k0); [reflexivity | exact IH].
  Qed.

  Lemma al_find_const k (v0 : V) (ks : list K) :
    al_find eqb k (map (fun x => (x, v0)) ks) = if existsb (eqb k) ks then Some v0 else None.
  Proof.
    induction ks as [|k0 ks IH]; cbn; [reflexivity|]. destruct (eqb k k0); [reflexivity | exact IH].
  Qed.
End AssocLemmas.

(* ---------- the request map ---------- *)
Definition rget (c : cid) (s : wls) : option req_state := al_find cid_eqb c (req s).
Definition dflt (o : option req_state) : req_state := match o with Some st => st | None => SentWantHave end.
Definition nxt (st : req_state) : req_state := match st with GotHave => SentWantBlock | _ => st end.

Lemma full_next_eq e : full_next e = (fst e, nxt (snd e)).
Proof. destruct e as [c []]; reflexivity. Qed.

Lemma map_full_next r : map full_next r = map (fun e => (fst e, nxt (snd e))) r.
Proof. apply map_ext. apply full_next_eq. Qed.

Lemma map_full_next_keys r : map fst (map full_next r) = map fst r.
Proof. rewrite map_map. apply map_ext. intros [c []]; reflexivity. Qed.

Definition wf_st (st : wl * wls) : Prop :=
  NoDup (wl_cids (fst st)) /\ NoDup (map fst (req (snd st))).

Lemma rget_in c st s : NoDup (map fst (req s)) -> (rget c s = Some st <-> In (c, st) (req s)).
Proof.
  intros Hnd. unfold rget. split; [apply (al_find_some_in _ cid_eqb_spec) | apply (al_in_find _ cid_eqb_spec); assumption].
Qed.

(* the map after "retain" and "or_insert" *)
Definition retained (w : wl) (r : list (cid * req_state)) := filter (fun e => cid_mem (fst e) (wl_cids w)) r.
Definition completed (w : wl) (r1 : list (cid * req_state)) :=
  r1 ++ map (fun c => (c, SentWantHave)) (vacant_cids w r1).

Lemma vacant_In w r c : In c (vacant_cids w r) <-> In c (wl_cids w) /\ al_find cid_eqb c r = None.
Proof.
  unfold vacant_cids. rewrite filter_In, negb_true_iff, (al_mem_find _ cid_eqb_spec).
  destruct (al_find cid_eqb c r); split; intros [H1 H2]; split; auto; discriminate.
Qed.

Lemma find_completed w r1 c :
  (forall x, al_find cid_eqb x r1 <> None -> In x (wl_cids w)) ->
  al_find cid_eqb c (completed w r1) =
  if cid_mem c (wl_cids w) then Some (dflt (al_find cid_eqb c r1)) else None.
Proof.
  intros Hsub. unfold completed. rewrite (al_find_app). destruct (al_find cid_eqb c r1) as [v|] eqn:E.
  - assert (Hin : In c (wl_cids w)) by (apply Hsub; congruence).
    apply cid_mem_In in Hin. rewrite Hin. reflexivity.
  - rewrite (al_find_const cid_eqb). fold (cid_mem c (vacant_cids w r1)).
    destruct (cid_mem c (wl_cids w)) eqn:M.
    + assert (Hv : cid_mem c (vacant_cids w r1) = true).
      { apply cid_mem_In, vacant_In. split; [apply cid_mem_In; assumption | assumption]. }
      rewrite Hv. reflexivity.
    + destruct (cid_mem c (vacant_cids w r1)) eqn:Hv; [|reflexivity].
      apply cid_mem_In, vacant_In in Hv. destruct Hv as [Hv _]. apply cid_mem_In in Hv. congruence.
Qed.

Lemma find_retained w r c :
  al_find cid_eqb c (retained w r) = if cid_mem c (wl_cids w) then al_find cid_eqb c r else None.
Proof. unfold retained. apply (al_find_filter_key _ cid_eqb_spec (fun k => cid_mem k (wl_cids w))). Qed.

Lemma completed_NoDup w r1 : NoDup (wl_cids w) -> NoDup (map fst r1) -> NoDup (map fst (completed w r1)).
Proof.
  intros Hw Hr. unfold completed. rewrite map_app, map_map. cbn [fst]. rewrite map_id.
  apply NoDup_app_iff. repeat split; [assumption | apply NoDup_filter; assumption |].
  intros x Hx Hv. apply vacant_In in Hv. destruct Hv as [_ Hv].
  apply (al_find_none _ cid_eqb_spec) in Hv. contradiction.
Qed.

Lemma completed_keys w r1 c :
  (forall x, In x (map fst r1) -> In x (wl_cids w)) ->
  (In c (map fst (completed w r1)) <-> In c (wl_cids w)).
Proof.
  intros Hsub. unfold completed. rewrite map_app, map_map. cbn [fst]. rewrite map_id, in_app_iff, vacant_In.
  split.
  - intros [H | [H _]]; auto.
  - intros H. destruct (al_find cid_eqb c r1) eqn:E.
    + left. eapply (al_find_some_key _ cid_eqb_spec); eassumption.
    + right; auto.
Qed.

(* entries generated from a map with distinct keys *)
Lemma full_entries_cid e k c : In (k, c) (full_entries e) -> c = fst e.
Proof. destruct e as [c0 []]; cbn; intros H; repeat destruct H as [H | H]; try contradiction; congruence. Qed.

Lemma upd_entries_cid w e k c : In (k, c) (upd_entries w e) -> c = fst e.
Proof.
  destruct e as [c0 st]; unfold upd_entries; cbn [fst snd].
  destruct (cid_mem c0 (wl_cids w)), st; cbn; intros H; repeat destruct H as [H | H]; try contradiction; congruence.
Qed.

Lemma flat_entries_In (f : cid * req_state -> list gen_entry) r k c :
  (forall e k c, In (k, c) (f e) -> c = fst e) ->
  NoDup (map fst r) ->
  (In (k, c) (flat_map f r) <-> exists st, al_find cid_eqb c r = Some st /\ In (k, c) (f (c, st))).
Proof.
  intros Hf Hnd. rewrite in_flat_map. split.
  - intros ([c0 st] & Hin & He). pose proof (Hf _ _ _ He) as Hc. cbn in Hc. subst c0.
    exists st. split; [apply (al_in_find _ cid_eqb_spec); assumption | assumption].
  - intros (st & Hfind & He). exists (c, st). split; [apply (al_find_some_in _ cid_eqb_spec); assumption | assumption].
Qed.

Lemma flat_entries_NoDup (f : cid * req_state -> list gen_entry) r :
  (forall e k c, In (k, c) (f e) -> c = fst e) ->
  (forall e, (length (f e) <= 1)%nat) ->
  NoDup (map fst r) -> NoDup (map snd (flat_map f r)).
Proof.
  intros Hf Hlen. induction r as [|e r IH]; cbn [flat_map map]; [constructor|].
  intros Hnd. inversion Hnd as [|? ? Hn Hnd']; subst. rewrite map_app. apply NoDup_app_iff.
  repeat split.
  - specialize (Hlen e). destruct (f e) as [|x [|y l]]; cbn in *; [constructor | constructor; [intros [] | constructor] | lia].
  - auto.
  - intros x Hx Hx'. apply in_map_iff in Hx. destruct Hx as ([k c] & <- & Hx). cbn in *.
    apply Hf in Hx. subst c. apply in_map_iff in Hx'. destruct Hx' as ([k' c'] & Heq & Hx'). cbn in Heq. subst c'.
    apply in_flat_map in Hx'. destruct Hx' as (e' & He' & Hx'). apply Hf in Hx'.
    apply Hn. rewrite Hx'. apply in_map. assumption.
Qed.

Lemma full_entries_len e : (length (full_entries e) <= 1)%nat.
Proof. destruct e as [c []]; cbn; lia. Qed.

Lemma upd_entries_len w e : (length (upd_entries w e) <= 1)%nat.
Proof. destruct e as [c st]; unfold upd_entries; cbn [fst snd]. destruct (cid_mem c (wl_cids w)), st; cbn; lia. Qed.

(* ---------- generate_proto_full ---------- *)
Lemma retained_sub w r x : al_find cid_eqb x (retained w r) <> None -> In x (wl_cids w).
Proof.
  rewrite find_retained. destruct (cid_mem x (wl_cids w)) eqn:M; [intros _; apply cid_mem_In; assumption | congruence].
Qed.

Lemma gen_full_rget s w c :
  rget c (snd (wls_generate_full s w)) =
  if cid_mem c (wl_cids w) then Some (nxt (dflt (rget c s))) else None.
Proof.
  unfold wls_generate_full, rget; cbn [snd req]. fold (retained w (req s)). fold (completed w (retained w (req s))).
  rewrite map_full_next, (al_find_map_val cid_eqb), find_completed by (apply retained_sub).
  rewrite find_retained. destruct (cid_mem c (wl_cids w)); reflexivity.
Qed.

Lemma gen_full_flags s w :
  force_update (snd (wls_generate_full s w)) = force_update s /\
  synced_rev (snd (wls_generate_full s w)) = synced_rev s.
Proof. split; reflexivity. Qed.

Lemma retained_NoDup w r : NoDup (map fst r) -> NoDup (map fst (retained w r)).
Proof. apply NoDup_map_filter. Qed.

Lemma gen_full_NoDup s w :
  NoDup (wl_cids w) -> NoDup (map fst (req s)) -> NoDup (map fst (req (snd (wls_generate_full s w)))).
Proof.
  intros Hw Hr. unfold wls_generate_full; cbn [snd req]. rewrite map_full_next_keys.
  apply completed_NoDup; [assumption | apply retained_NoDup; assumption].
Qed.

Lemma gen_full_keys s w c :
  In c (map fst (req (snd (wls_generate_full s w)))) <-> In c (wl_cids w).
Proof.
  unfold wls_generate_full; cbn [snd req]. rewrite map_full_next_keys.
  apply completed_keys. intros x Hx. unfold retained in Hx. apply in_map_iff in Hx.
  destruct Hx as (e & <- & He). apply filter_In in He. apply cid_mem_In. apply He.
Qed.

Lemma gen_full_entries s w k c :
  NoDup (wl_cids w) -> NoDup (map fst (req s)) ->
  (In (k, c) (fst (wls_generate_full s w)) <->
   In c (wl_cids w) /\ In (k, c) (full_entries (c, dflt (rget c s)))).
Proof.
  intros Hw Hr. unfold wls_generate_full; cbn [fst]. fold (retained w (req s)). fold (completed w (retained w (req s))).
  assert (Hnd : NoDup (map fst (completed w (retained w (req s)))))
    by (apply completed_NoDup; [assumption | apply retained_NoDup; assumption]).
  rewrite (flat_entries_In full_entries _ _ _ full_entries_cid Hnd).
  setoid_rewrite find_completed; [|apply retained_sub]. setoid_rewrite find_retained.
  unfold rget. destruct (cid_mem c (wl_cids w)) eqn:M.
  - apply cid_mem_In in M. split.
    + intros (st & [= <-] & H). auto.
    + intros [_ H]. eexists; split; [reflexivity | exact H].
  - apply cid_mem_false in M. split; [intros (st & [=] & _) | intros [H _]; contradiction].
Qed.

Lemma gen_full_entries_NoDup s w :
  NoDup (wl_cids w) -> NoDup (map fst (req s)) -> NoDup (map snd (fst (wls_generate_full s w))).
Proof.
  intros Hw Hr. unfold wls_generate_full; cbn [fst].
  apply flat_entries_NoDup; [apply full_entries_cid | apply full_entries_len |].
  apply completed_NoDup; [assumption | apply retained_NoDup; assumption].
Qed.

(* ---------- generate_proto_update ---------- *)
Definition upd_body (s : wls) (w : wl) : list gen_entry * wls :=
  let r1 := map full_next (filter (upd_keep w) (req s)) in
  let fresh := vacant_cids w r1 in
  (flat_map (upd_entries w) (req s) ++ map (fun c => (KWantHave, c)) fresh,
   MkWls (r1 ++ map (fun c => (c, SentWantHave)) fresh) false (wl_rev w)).

Lemma gen_update_unfold s w :
  wls_generate_update s w = if wls_is_updated s w then ([], s) else upd_body s w.
Proof. reflexivity. Qed.

Lemma upd_r1_find s w c :
  al_find cid_eqb c (map full_next (filter (upd_keep w) (req s))) =
  if cid_mem c (wl_cids w) then option_map nxt (rget c s) else None.
Proof.
  rewrite map_full_next, (al_find_map_val cid_eqb). change (filter (upd_keep w) (req s)) with (retained w (req s)).
  rewrite find_retained. unfold rget. destruct (cid_mem c (wl_cids w)); reflexivity.
Qed.

Lemma upd_r1_sub s w x :
  al_find cid_eqb x (map full_next (filter (upd_keep w) (req s))) <> None -> In x (wl_cids w).
Proof.
  rewrite upd_r1_find. destruct (cid_mem x (wl_cids w)) eqn:M; [intros _; apply cid_mem_In; assumption | congruence].
Qed.

Lemma upd_body_rget s w c :
  rget c (snd (upd_body s w)) = if cid_mem c (wl_cids w) then Some (nxt (dflt (rget c s))) else None.
Proof.
  unfold upd_body, rget; cbn [snd req].
  fold (completed w (map full_next (filter (upd_keep w) (req s)))).
  rewrite find_completed by (apply upd_r1_sub). rewrite upd_r1_find.
  destruct (cid_mem c (wl_cids w)); [|reflexivity]. unfold rget. destruct (al_find cid_eqb c (req s)) as [[]|]; reflexivity.
Qed.

Lemma upd_body_NoDup s w :
  NoDup (wl_cids w) -> NoDup (map fst (req s)) -> NoDup (map fst (req (snd (upd_body s w)))).
Proof.
  intros Hw Hr. unfold upd_body; cbn [snd req].
  fold (completed w (map full_next (filter (upd_keep w) (req s)))).
  apply completed_NoDup; [assumption|]. rewrite map_full_next_keys. apply NoDup_map_filter. assumption.
Qed.

Lemma upd_body_keys s w c :
  In c (map fst (req (snd (upd_body s w)))) <-> In c (wl_cids w).
Proof.
  unfold upd_body; cbn [snd req]. fold (completed w (map full_next (filter (upd_keep w) (req s)))).
  apply completed_keys. intros x Hx. rewrite map_full_next_keys in Hx. apply in_map_iff in Hx.
  destruct Hx as (e & <- & He). apply filter_In in He. apply cid_mem_In. apply He.
Qed.

Lemma upd_body_entries s w k c :
  NoDup (map fst (req s)) ->
  (In (k, c) (fst (upd_body s w)) <->
   (exists st, rget c s = Some st /\ In (k, c) (upd_entries w (c, st))) \/
   (k = KWantHave /\ In c (wl_cids w) /\ rget c s = None)).
Proof.
  intros Hr. unfold upd_body; cbn [fst]. rewrite in_app_iff.
  rewrite (flat_entries_In (upd_entries w) _ _ _ (upd_entries_cid w) Hr).
  rewrite in_map_iff. split.
  - intros [H | (x & [= <- <-] & Hx)]; [left; exact H | right].
    apply vacant_In in Hx. destruct Hx as [Hw Hx]. rewrite upd_r1_find in Hx.
    apply cid_mem_In in Hw. rewrite Hw in Hx. destruct (rget x s); [discriminate|].
    repeat split; auto. apply cid_mem_In; assumption.
  - intros [H | (-> & Hw & Hn)]; [left; exact H | right].
    exists c. split; [reflexivity|]. apply vacant_In. split; [assumption|].
    rewrite upd_r1_find, Hn. destruct (cid_mem c (wl_cids w)); reflexivity.
Qed.

Lemma upd_body_entries_NoDup s w :
  NoDup (wl_cids w) -> NoDup (map fst (req s)) -> NoDup (map snd (fst (upd_body s w))).
Proof.
  intros Hw Hr. unfold upd_body; cbn [fst]. rewrite map_app, map_map. cbn [snd]. rewrite map_id.
  apply NoDup_app_iff. repeat split.
  - apply flat_entries_NoDup; [apply upd_entries_cid | apply upd_entries_len | assumption].
  - apply NoDup_filter. assumption.
  - intros x Hx Hv. apply vacant_In in Hv. destruct Hv as [Hxw Hv]. rewrite upd_r1_find in Hv.
    apply cid_mem_In in Hxw. rewrite Hxw in Hv.
    apply in_map_iff in Hx. destruct Hx as ([k c] & <- & Hx). cbn [snd] in *.
    apply in_flat_map in Hx. destruct Hx as (e & He & Hx). pose proof (upd_entries_cid _ _ _ _ Hx) as ->.
    destruct e as [c st]. cbn [fst] in *. apply (al_in_find _ cid_eqb_spec) in He; [|assumption].
    unfold rget in Hv. rewrite He in Hv. discriminate.
Qed.

(* ---------- effect of the single calls on the request map ---------- *)
Lemma rget_got_have s c c' :
  rget c' (wls_got_have s c) = if cid_eqb c c' then option_map (fun _ => GotHave) (rget c' s) else rget c' s.
Proof. unfold rget, wls_got_have; cbn [req]. apply (al_find_modify _ cid_eqb_spec). Qed.

Lemma rget_got_dont_have s c c' :
  rget c' (wls_got_dont_have s c) = if cid_eqb c c' then option_map (fun _ => GotDontHave) (rget c' s) else rget c' s.
Proof. unfold rget, wls_got_dont_have; cbn [req]. apply (al_find_modify _ cid_eqb_spec). Qed.

Lemma rget_got_block s c c' :
  rget c' (wls_got_block s c) = if cid_eqb c c' then option_map (fun _ => GotBlock) (rget c' s) else rget c' s.
Proof. unfold rget, wls_got_block; cbn [req]. apply (al_find_modify _ cid_eqb_spec). Qed.

Lemma rget_wanted_again s c c' :
  rget c' (wls_wanted_again s c) =
  match rget c s with
  | Some GotBlock => if cid_eqb c c' then None else rget c' s
  | _ => rget c' s
  end.
Proof.
  unfold wls_wanted_again. fold (rget c s). destruct (rget c s) as [[]|]; try reflexivity.
  unfold rget; cbn [req]. apply (al_find_remove _ cid_eqb_spec).
Qed.

Lemma wanted_again_flags s c :
  force_update (wls_wanted_again s c) = force_update s /\ synced_rev (wls_wanted_again s c) = synced_rev s.
Proof. unfold wls_wanted_again. destruct (al_find cid_eqb c (req s)) as [[]|]; split; reflexivity. Qed.

Lemma wanted_again_NoDup s c : NoDup (map fst (req s)) -> NoDup (map fst (req (wls_wanted_again s c))).
Proof.
  intros H. unfold wls_wanted_again. destruct (al_find cid_eqb c (req s)) as [[]|]; try assumption.
  cbn [req]. apply al_remove_NoDup. assumption.
Qed.

Lemma got_have_NoDup s c : NoDup (map fst (req s)) -> NoDup (map fst (req (wls_got_have s c))).
Proof. unfold wls_got_have; cbn [req]. rewrite al_modify_keys. auto. Qed.
Lemma got_dont_have_NoDup s c : NoDup (map fst (req s)) -> NoDup (map fst (req (wls_got_dont_have s c))).
Proof. unfold wls_got_dont_have; cbn [req]. rewrite al_modify_keys. auto. Qed.
Lemma got_block_NoDup s c : NoDup (map fst (req s)) -> NoDup (map fst (req (wls_got_block s c))).
Proof. unfold wls_got_block; cbn [req]. rewrite al_modify_keys. auto. Qed.

Lemma rget_none_keys c s : rget c s <> None <-> In c (map fst (req s)).
Proof.
  unfold rget. pose proof (al_find_none cid_eqb cid_eqb_spec c (req s)) as H.
  destruct (al_find cid_eqb c (req s)) eqn:E.
  - split; [intros _ | intros _; discriminate]. eapply (al_find_some_key _ cid_eqb_spec); eassumption.
  - split; [congruence | intros Hin; exfalso; apply H; auto].
Qed.

(* sets *)
Lemma cset_add_In x c l : In x (cset_add c l) <-> x = c \/ In x l.
Proof.
  unfold cset_add. destruct (cid_mem c l) eqn:M.
  - apply cid_mem_In in M. split; [auto | intros [-> | H]; auto].
  - cbn. split; intros [H | H]; auto.
Qed.

Lemma cset_inter_In x l w : In x (cset_inter l w) <-> In x l /\ In x w.
Proof. unfold cset_inter. rewrite filter_In, cid_mem_In. reflexivity. Qed.

Lemma wants_In x es : In x (wants es) <-> In (KWantHave, x) es \/ In (KWantBlock, x) es.
Proof.
  unfold wants. rewrite in_map_iff. split.
  - intros ([k c] & <- & H). apply filter_In in H. destruct H as [H Hw]. destruct k; cbn in *; auto; discriminate.
  - intros [H | H]; eexists; (split; [|apply filter_In; split; [exact H | reflexivity]]); reflexivity.
Qed.

Lemma want_haves_In x es : In x (want_haves es) <-> In (KWantHave, x) es.
Proof.
  unfold want_haves. rewrite in_map_iff. split.
  - intros ([k c] & <- & H). apply filter_In in H. destruct H as [H Hw]. destruct k; cbn in *; auto; discriminate.
  - intros H; eexists; (split; [|apply filter_In; split; [exact H | reflexivity]]); reflexivity.
Qed.

Lemma view_fold_In es : forall v x,
  NoDup (map snd es) ->
  (In x (fold_left view_apply es v) <->
   In x (wants es) \/ (In x v /\ ~ In (KCancel, x) es)).
Proof.
  induction es as [|[k c] es IH]; intros v x Hnd; cbn [fold_left].
  - unfold wants; cbn. split; [intros H; right; split; [assumption | intros []] | intros [[] | [H _]]; assumption].
  - cbn [map snd] in Hnd. inversion Hnd as [|? ? Hn Hnd']; subst. rewrite IH by assumption.
    rewrite !wants_In. unfold view_apply; cbn [fst snd].
    assert (Hc : forall k', ~ In (k', c) es).
    { intros k' Hin. apply Hn. apply (in_map snd) in Hin. exact Hin. }
    destruct (cid_eq_dec x c) as [->|Hxc].
    + pose proof (Hc KWantHave). pose proof (Hc KWantBlock). pose proof (Hc KCancel).
      destruct k; cbn [In]; rewrite ?cid_remove_In, ?cset_add_In; intuition congruence.
    + destruct k; cbn [In]; rewrite ?cid_remove_In, ?cset_add_In; intuition congruence.
Qed.

Lemma al_find_set {V} k (v : V) k' (l : list (cid * V)) :
  al_find cid_eqb k' (al_set cid_eqb k v l) = if cid_eqb k k' then Some v else al_find cid_eqb k' l.
Proof.
  unfold al_set. destruct (al_mem cid_eqb k l) eqn:M.
  - rewrite (al_find_modify _ cid_eqb_spec). cid_cases k k'; [|reflexivity].
    rewrite (al_mem_find _ cid_eqb_spec) in M. destruct (al_find cid_eqb k' l); [reflexivity | discriminate].
  - rewrite al_find_app. cbn. rewrite (cid_eqb_sym k' k).
    rewrite (al_mem_find _ cid_eqb_spec) in M.
    cid_cases k k'.
    + destruct (al_find cid_eqb k' l); [discriminate | reflexivity].
    + destruct (al_find cid_eqb k' l); reflexivity.
Qed.

Lemma al_find_remove_all {V} (cs : list cid) : forall (l : list (cid * V)) k,
  al_find cid_eqb k (fold_left (fun l c => al_remove cid_eqb c l) cs l) =
  if cid_mem k cs then None else al_find cid_eqb k l.
Proof.
  induction cs as [|c cs IH]; intros l k; cbn [fold_left]; [reflexivity|].
  rewrite IH. unfold cid_mem; cbn [existsb]. fold (cid_mem k cs).
  rewrite (al_find_remove _ cid_eqb_spec). rewrite (cid_eqb_sym k c).
  destruct (cid_eqb c k), (cid_mem k cs); reflexivity.
Qed.

(* ---------- runs ---------- *)
Lemma hrun_from_app st h1 h2 : hrun_from st (h1 ++ h2) = hrun_from (hrun_from st h1) h2.
Proof. revert st; induction h1 as [|e h1 IH]; intros st; cbn; [reflexivity | apply IH]. Qed.

Lemma htrace_app st h1 h2 : htrace st (h1 ++ h2) = htrace st h1 ++ htrace (hrun_from st h1) h2.
Proof. revert st; induction h1 as [|e h1 IH]; intros st; cbn; [reflexivity | rewrite IH; reflexivity]. Qed.

(* well-formedness is preserved *)
Lemma wl_insert_NoDup w c : NoDup (wl_cids w) -> NoDup (wl_cids (fst (wl_insert w c))).
Proof.
  intros H. unfold wl_insert. destruct (cid_mem c (wl_cids w)) eqn:M; cbn; [assumption|].
  apply NoDup_snoc; [assumption | apply cid_mem_false; assumption].
Qed.

Lemma wl_remove_NoDup w c : NoDup (wl_cids w) -> NoDup (wl_cids (fst (wl_remove w c))).
Proof.
  intros H. unfold wl_remove. destruct (cid_mem c (wl_cids w)); cbn; [apply cid_remove_NoDup|]; assumption.
Qed.

Lemma gen_update_NoDup s w :
  NoDup (wl_cids w) -> NoDup (map fst (req s)) -> NoDup (map fst (req (snd (wls_generate_update s w)))).
Proof.
  intros Hw Hr. rewrite gen_update_unfold. destruct (wls_is_updated s w); [assumption | apply upd_body_NoDup; assumption].
Qed.

Lemma hstep_wf st e : wf_st st -> wf_st (fst (hstep st e)).
Proof.
  destruct st as [w s]. intros [Hw Hr]. unfold wf_st in *; cbn [fst snd] in *.
  destruct e as [c|c|c|c|c| |]; cbn [hstep].
  - pose proof (wl_insert_NoDup w c Hw). destruct (wl_insert w c) as [w' b]; cbn [fst snd] in *.
    split; [assumption|]. destruct b; [apply wanted_again_NoDup|]; assumption.
  - cbn [fst snd]. split; [apply wl_remove_NoDup|]; assumption.
  - cbn [fst snd]. split; [|apply got_have_NoDup]; assumption.
  - cbn [fst snd]. split; [|apply got_dont_have_NoDup]; assumption.
  - pose proof (wl_remove_NoDup w c Hw). destruct (wl_remove w c) as [w' b]; cbn [fst snd] in *.
    split; [assumption|]. destruct b; [apply got_block_NoDup|]; assumption.
  - pose proof (gen_update_NoDup s w Hw Hr). destruct (wls_generate_update s w); cbn [fst snd] in *. auto.
  - pose proof (gen_full_NoDup s w Hw Hr). destruct (wls_generate_full s w); cbn [fst snd] in *. auto.
Qed.

Lemma hinit_wf sdh : wf_st (hinit sdh).
Proof. split; cbn; constructor. Qed.

Lemma hrun_wf st h : wf_st st -> wf_st (hrun_from st h).
Proof. revert st; induction h as [|e h IH]; intros st H; cbn; [assumption | apply IH, hstep_wf, H]. Qed.

(* =====================  C17  ===================== *)
Definition asked_block (o : option req_state) : Prop := o = Some GotHave \/ o = Some SentWantBlock.

Definition C17_inv (st : wl * wls) (la : list (cid * bool)) : Prop :=
  forall c, asked_block (rget c (snd st)) -> al_find cid_eqb c la = Some true.

Lemma nxt_asked st : asked_block (Some (nxt st)) -> asked_block (Some st).
Proof. destruct st; cbn; unfold asked_block; intros [H | H]; try discriminate; auto. Qed.

Lemma dflt_asked o : asked_block (Some (dflt o)) -> asked_block o.
Proof. destruct o; cbn; [auto|]. unfold asked_block; intros [H | H]; discriminate. Qed.

(* what a generated entry says about the request map before the generation *)
Lemma gen_entry_cases st e full es k c :
  wf_st st -> (e = HGenUpdate \/ e = HGenFull) ->
  snd (hstep st e) = Some (full, es) -> In (k, c) es ->
  match k with
  | KWantBlock => asked_block (rget c (snd st)) /\ In c (wl_cids (fst st))
  | KWantHave => (rget c (snd st) = None \/ rget c (snd st) = Some SentWantHave) /\ In c (wl_cids (fst st))
  | KCancel => rget c (snd st) <> None /\ rget c (snd st) <> Some GotBlock /\ ~ In c (wl_cids (fst st))
  end.
Proof.
  destruct st as [w s]. intros [Hw Hr] He Hout Hin. cbn [fst snd] in *.
  destruct He as [-> | ->]; cbn [hstep] in Hout.
  - destruct (wls_generate_update s w) as [es' s'] eqn:G. cbn [snd] in Hout. injection Hout as <- <-.
    rewrite gen_update_unfold in G. destruct (wls_is_updated s w).
    + injection G as <- <-. destruct Hin.
    + assert (Hes : es' = fst (upd_body s w)) by (rewrite G; reflexivity). subst es'.
      apply upd_body_entries in Hin; [|assumption].
      destruct Hin as [(st & Hst & Hin) | (-> & Hcw & Hn)].
      * unfold upd_entries in Hin. cbn [fst snd] in Hin. rewrite Hst.
        destruct (cid_mem c (wl_cids w)) eqn:M.
        -- apply cid_mem_In in M. destruct st; cbn in Hin; try contradiction.
           destruct Hin as [[= <-] | []]. split; [left; reflexivity | assumption].
        -- apply cid_mem_false in M. destruct st; cbn in Hin; try contradiction;
             destruct Hin as [[= <-] | []]; repeat split; auto; discriminate.
      * split; [left|]; assumption.
  - destruct (wls_generate_full s w) as [es' s'] eqn:G. cbn [snd] in Hout. injection Hout as <- <-.
    assert (Hes : es' = fst (wls_generate_full s w)) by (rewrite G; reflexivity). subst es'.
    apply gen_full_entries in Hin; [|assumption|assumption]. destruct Hin as [Hcw Hin].
    destruct (rget c s) as [[]|]; cbn in Hin; try contradiction; destruct Hin as [[= <-] | []];
      (split; [|assumption]); unfold asked_block; auto.
Qed.

Lemma hstep_gen_rget st e c :
  (e = HGenUpdate \/ e = HGenFull) ->
  rget c (snd (fst (hstep st e))) = rget c (snd st) \/
  rget c (snd (fst (hstep st e))) =
    (if cid_mem c (wl_cids (fst st)) then Some (nxt (dflt (rget c (snd st)))) else None).
Proof.
  destruct st as [w s]. intros [-> | ->]; cbn [hstep fst snd].
  - pose proof (gen_update_unfold s w) as G. destruct (wls_generate_update s w) as [es' s'].
    destruct (wls_is_updated s w).
    + injection G as -> ->. left; reflexivity.
    + right. cbn [fst snd]. replace s' with (snd (upd_body s w)) by (rewrite <- G; reflexivity). apply upd_body_rget.
  - right. pose proof (gen_full_rget s w c) as G. destruct (wls_generate_full s w) as [es' s']. exact G.
Qed.

Lemma C17_inv_step st la e :
  wf_st st -> C17_inv st la ->
  C17_inv (fst (hstep st e)) (la_step la (MkTi e (wl_cids (fst st)) (snd (hstep st e)))).
Proof.
  intros Hwf Hinv. destruct e as [c|c|c|c|c| |].
  - (* HInsert *) destruct st as [w s]. unfold la_step; cbn [ti_ev ti_out hstep].
    destruct (wl_insert w c) as [w' b]; cbn [fst snd]. intros c' H; cbn [fst snd] in H. apply Hinv. cbn [fst snd] in *.
    destruct b; [|exact H]. rewrite rget_wanted_again in H.
    destruct (rget c s) as [[]|]; try exact H. destruct (cid_eqb c c'); [destruct H; discriminate | exact H].
  - (* HRemove *) destruct st as [w s]. unfold la_step; cbn [ti_ev ti_out hstep fst snd]. exact Hinv.
  - (* HHave *) destruct st as [w s]. unfold la_step; cbn [ti_ev ti_out hstep fst snd]. intros c' H; cbn [fst snd] in H.
    rewrite al_find_set. rewrite rget_got_have in H. destruct (cid_eqb c c'); [reflexivity | apply Hinv; exact H].
  - (* HDontHave *) destruct st as [w s]. unfold la_step; cbn [ti_ev ti_out hstep fst snd]. intros c' H; cbn [fst snd] in H.
    rewrite al_find_set. rewrite rget_got_dont_have in H. destruct (cid_eqb c c').
    + destruct (rget c' s); cbn in H; destruct H; discriminate.
    + apply Hinv; exact H.
  - (* HBlock *) destruct st as [w s]. unfold la_step; cbn [ti_ev ti_out hstep].
    destruct (wl_remove w c) as [w' b]; cbn [fst snd]. intros c' H; cbn [fst snd] in H. apply Hinv. cbn [fst snd] in *.
    destruct b; [|exact H]. rewrite rget_got_block in H. destruct (cid_eqb c c'); [|exact H].
    destruct (rget c' s); cbn in H; destruct H; discriminate.
  - (* HGenUpdate *)
    unfold la_step; cbn [ti_ev ti_out]. destruct (snd (hstep st HGenUpdate)) as [[full es]|] eqn:Hout;
      [|destruct st as [w0 s0]; cbn [hstep] in Hout; destruct (wls_generate_update s0 w0); discriminate].
    intros c' H; cbn [fst snd] in H. rewrite al_find_remove_all.
    assert (Hold : asked_block (rget c' (snd st))).
    { destruct (hstep_gen_rget st HGenUpdate c' (or_introl eq_refl)) as [E | E]; rewrite E in H; [exact H|].
      destruct (cid_mem c' (wl_cids (fst st))); [apply dflt_asked, nxt_asked; exact H | destruct H; discriminate]. }
    destruct (cid_mem c' (want_haves es)) eqn:M; [|apply Hinv; exact Hold].
    apply cid_mem_In, want_haves_In in M.
    pose proof (gen_entry_cases st _ _ _ _ _ Hwf (or_introl eq_refl) Hout M) as [[Hc | Hc] _];
      rewrite Hc in Hold; destruct Hold; discriminate.
  - (* HGenFull *)
    unfold la_step; cbn [ti_ev ti_out]. destruct (snd (hstep st HGenFull)) as [[full es]|] eqn:Hout;
      [|destruct st as [w0 s0]; cbn [hstep] in Hout; destruct (wls_generate_full s0 w0); discriminate].
    intros c' H; cbn [fst snd] in H. rewrite al_find_remove_all.
    assert (Hold : asked_block (rget c' (snd st))).
    { destruct (hstep_gen_rget st HGenFull c' (or_intror eq_refl)) as [E | E]; rewrite E in H; [exact H|].
      destruct (cid_mem c' (wl_cids (fst st))); [apply dflt_asked, nxt_asked; exact H | destruct H; discriminate]. }
    destruct (cid_mem c' (want_haves es)) eqn:M; [|apply Hinv; exact Hold].
    apply cid_mem_In, want_haves_In in M.
    pose proof (gen_entry_cases st _ _ _ _ _ Hwf (or_intror eq_refl) Hout M) as [[Hc | Hc] _];
      rewrite Hc in Hold; destruct Hold; discriminate.
Qed.

Lemma C17_inv_run h : forall st la,
  wf_st st -> C17_inv st la -> C17_inv (hrun_from st h) (fold_left la_step (htrace st h) la).
Proof.
  induction h as [|e h IH]; intros st la Hwf Hinv; cbn [hrun_from htrace fold_left]; [assumption|].
  apply IH; [apply hstep_wf; assumption | apply C17_inv_step; assumption].
Qed.

Lemma C17_inv_init sdh : C17_inv (hinit sdh) [].
Proof. intros c [H | H]; discriminate. Qed.

Lemma app_eq_length {A} (l1 l1' l2 l2' : list A) :
  l1 ++ l2 = l1' ++ l2' -> length l1 = length l1' -> l1 = l1' /\ l2 = l2'.
Proof.
  revert l1'. induction l1 as [|a l1 IH]; intros [|a' l1'] H Hlen; cbn in *; try discriminate; [auto|].
  injection H as -> H. injection Hlen as Hlen. destruct (IH _ H Hlen) as [-> ->]. auto.
Qed.

Lemma htrace_events st h : map ti_ev (htrace st h) = h.
Proof. revert st; induction h as [|e h IH]; intros st; cbn; [reflexivity | rewrite IH; reflexivity]. Qed.

Lemma htrace_length st h : length (htrace st h) = length h.
Proof. rewrite <- (htrace_events st h) at 2. rewrite map_length. reflexivity. Qed.

Lemma htrace_split st h tr1 t tr2 :
  htrace st h = tr1 ++ t :: tr2 ->
  exists h1 h2, h = h1 ++ ti_ev t :: h2 /\ tr1 = htrace st h1 /\
                tr2 = htrace (hrun_from st (h1 ++ [ti_ev t])) h2 /\ length h1 = length tr1.
Proof.
  intros H. pose proof (htrace_events st h) as Hev. rewrite H, map_app in Hev. cbn [map] in Hev.
  exists (map ti_ev tr1), (map ti_ev tr2). split; [symmetry; exact Hev|].
  rewrite <- Hev in H.
  replace (map ti_ev tr1 ++ ti_ev t :: map ti_ev tr2) with ((map ti_ev tr1 ++ [ti_ev t]) ++ map ti_ev tr2) in H
    by (rewrite <- app_assoc; reflexivity).
  rewrite htrace_app in H.
  replace (tr1 ++ t :: tr2) with ((tr1 ++ [t]) ++ tr2) in H by (rewrite <- app_assoc; reflexivity).
  apply app_eq_length in H; [|rewrite htrace_length, !app_length, map_length; reflexivity].
  destruct H as [H1 H2]. rewrite htrace_app in H1. apply app_eq_length in H1; [|rewrite htrace_length, map_length; reflexivity].
  destruct H1 as [H1 _]. repeat split; auto. apply map_length.
Qed.

Lemma hstep_out_gen st e o : snd (hstep st e) = Some o -> e = HGenUpdate \/ e = HGenFull.
Proof.
  destruct st as [w s]. destruct e as [c|c|c|c|c| |]; cbn [hstep]; auto.
  - destruct (wl_insert w c); discriminate.
  - discriminate.
  - discriminate.
  - discriminate.
  - destruct (wl_remove w c); discriminate.
Qed.

Lemma la_witness c tr : forall la,
  al_find cid_eqb c (fold_left la_step tr la) = Some true ->
  (al_find cid_eqb c la = Some true /\
   forall t', In t' tr -> ti_ev t' <> HDontHave c /\
     ((forall c', ti_ev t' <> HHave c' /\ ti_ev t' <> HDontHave c') ->
      forall f es, ti_out t' = Some (f, es) -> ~ In (KWantHave, c) es)) \/
  exists tr1 t tr2, tr = tr1 ++ t :: tr2 /\ ti_ev t = HHave c /\
   forall t', In t' tr2 -> ti_ev t' <> HDontHave c /\
     ((forall c', ti_ev t' <> HHave c' /\ ti_ev t' <> HDontHave c') ->
      forall f es, ti_out t' = Some (f, es) -> ~ In (KWantHave, c) es).
Proof.
  induction tr as [|t tr IH]; intros la H; cbn [fold_left] in H.
  - left. split; [exact H | intros t' []].
  - destruct (IH _ H) as [[Hla Hall] | (tr1 & t0 & tr2 & -> & Hev & Hall)].
    + (* the step t itself *)
      unfold la_step in Hla. destruct (ti_ev t) as [c0|c0|c0|c0|c0| |] eqn:Et.
      all: try (destruct (ti_out t) as [[f0 es0]|] eqn:Eo;
                [rewrite al_find_remove_all in Hla;
                 destruct (cid_mem c (want_haves es0)) eqn:M; [discriminate|];
                 left; split; [exact Hla|]; intros t' [<- | Hin]; [|apply Hall; exact Hin];
                 split; [rewrite Et; discriminate|]; intros _ f es Hout; rewrite Eo in Hout; injection Hout as <- <-;
                 intros Hin; apply want_haves_In, cid_mem_In in Hin; congruence
                |left; split; [exact Hla|]; intros t' [<- | Hin]; [|apply Hall; exact Hin];
                 split; [rewrite Et; discriminate|]; intros _ f es Hout; rewrite Eo in Hout; discriminate]).
      * (* HHave c0 *) rewrite al_find_set in Hla. cid_cases c0 c.
        -- right. exists [], t, tr. repeat split; auto. all: apply Hall; assumption.
        -- left. split; [exact Hla|]. intros t' [<- | Hin]; [|apply Hall; exact Hin].
           split; [rewrite Et; discriminate|]. intros Hno. exfalso. apply (proj1 (Hno c0)). exact Et.
      * (* HDontHave c0 *) rewrite al_find_set in Hla. cid_cases c0 c; [discriminate|].
        left. split; [exact Hla|]. intros t' [<- | Hin]; [|apply Hall; exact Hin].
        split; [rewrite Et; congruence|]. intros Hno. exfalso. apply (proj2 (Hno c0)). exact Et.
    + right. exists (t :: tr1), t0, tr2. repeat split; auto. all: apply Hall; assumption.
Qed.

Theorem C17_want_block_only_after_have sdh h e full es c :
  snd (hstep (hrun_from (hinit sdh) h) e) = Some (full, es) -> In (KWantBlock, c) es ->
  al_find cid_eqb c (last_answer (htrace (hinit sdh) h)) = Some true /\
  exists h1 h2, h = h1 ++ HHave c :: h2 /\ ~ In (HDontHave c) h2 /\
    forall t f es', In t (htrace (hrun_from (hinit sdh) (h1 ++ [HHave c])) h2) ->
                    ti_out t = Some (f, es') -> ~ In (KWantHave, c) es'.
Proof.
  intros Hout Hin.
  pose proof (hrun_wf (hinit sdh) h (hinit_wf sdh)) as Hwf.
  pose proof (C17_inv_run h (hinit sdh) [] (hinit_wf sdh) (C17_inv_init sdh)) as Hinv.
  pose proof (gen_entry_cases _ _ _ _ _ _ Hwf (hstep_out_gen _ _ _ Hout) Hout Hin) as [Hask _].
  apply Hinv in Hask. split; [exact Hask|].
  unfold last_answer in Hask. apply la_witness in Hask. destruct Hask as [[Hnil _] | (tr1 & t & tr2 & Htr & Hev & Hall)]; [discriminate|].
  apply htrace_split in Htr. destruct Htr as (h1 & h2 & -> & -> & -> & _). rewrite Hev in *.
  exists h1, h2. split; [reflexivity|]. split.
  - intros Hdh. rewrite <- (htrace_events (hrun_from (hinit sdh) (h1 ++ [HHave c])) h2) in Hdh.
    apply in_map_iff in Hdh. destruct Hdh as (t' & Ht' & Hin'). apply Hall in Hin'. destruct Hin' as [Hne _]. congruence.
  - intros t' f es' Hin' Hout'. destruct (Hall _ Hin') as [_ Hno]. apply (Hno) with (f := f); [|exact Hout'].
    (* an item of a real trace that generated something is a Gen event *)
    clear - Hin' Hout'. revert Hin' Hout'.
    generalize (hrun_from (hinit sdh) (h1 ++ [HHave c])). induction h2 as [|e0 h2 IH]; intros st Hin' Hout'; cbn in Hin'; [destruct Hin'|].
    destruct Hin' as [<- | Hin']; [|eapply IH; eassumption].
    cbn [ti_out ti_ev] in *. apply hstep_out_gen in Hout'. intros c'. destruct Hout' as [-> | ->]; split; discriminate.
Qed.

(* events that leave "c was announced by the peer and is about to be asked for" untouched *)
Definition quiet_for (c : cid) (e : hev) : Prop :=
  e <> HDontHave c /\ e <> HBlock c /\ e <> HGenUpdate /\ e <> HGenFull.

Lemma have_pending_step c st e :
  quiet_for c e ->
  rget c (snd st) = Some GotHave /\ force_update (snd st) = true ->
  rget c (snd (fst (hstep st e))) = Some GotHave /\ force_update (snd (fst (hstep st e))) = true.
Proof.
  destruct st as [w s]. intros (Hdh & Hb & Hu & Hf) [Hr Hfo]. cbn [fst snd] in *.
  destruct e as [c0|c0|c0|c0|c0| |]; cbn [hstep]; try congruence.
  - destruct (wl_insert w c0) as [w' b]; cbn [fst snd]. destruct b; [|auto].
    rewrite rget_wanted_again. destruct (wanted_again_flags s c0) as [-> _]. split; [|assumption].
    destruct (rget c0 s) as [[]|] eqn:E0; try assumption.
    cid_cases c0 c; [congruence | assumption].
  - cbn [fst snd]. auto.
  - cbn [fst snd]. rewrite rget_got_have. split; [|reflexivity]. rewrite Hr. destruct (cid_eqb c0 c); reflexivity.
  - cbn [fst snd]. rewrite rget_got_dont_have. split; [|assumption]. cid_cases c0 c; [congruence | assumption].
  - destruct (wl_remove w c0) as [w' b]; cbn [fst snd]. destruct b; [|auto].
    rewrite rget_got_block. split; [|assumption]. cid_cases c0 c; [congruence | assumption].
Qed.

Theorem C17_have_gets_want_block sdh h0 c h' :
  let st := hrun_from (hinit sdh) h0 in
  rget c (snd st) <> None ->
  Forall (quiet_for c) h' ->
  let st' := hrun_from (fst (hstep st (HHave c))) h' in
  In c (wl_cids (fst st')) ->
  In (KWantBlock, c) (fst (wls_generate_update (snd st') (fst st'))) /\
  In (KWantBlock, c) (fst (wls_generate_full (snd st') (fst st'))).
Proof.
  intros st Hdef Hq st' Hw.
  assert (Hwf : wf_st st') by (apply hrun_wf, hstep_wf, hrun_wf, hinit_wf).
  assert (Hp : rget c (snd st') = Some GotHave /\ force_update (snd st') = true).
  { subst st'. clear Hw Hwf.
    assert (H0 : rget c (snd (fst (hstep st (HHave c)))) = Some GotHave /\
                 force_update (snd (fst (hstep st (HHave c)))) = true).
    { destruct st as [w s]. cbn [hstep fst snd] in *. rewrite rget_got_have, cid_eqb_refl.
      destruct (rget c s); [split; reflexivity | congruence]. }
    revert H0. generalize (fst (hstep st (HHave c))). induction Hq as [|e h' He Hq IH]; intros st1 H1; cbn [hrun_from]; [assumption|].
    apply IH. apply have_pending_step; assumption. }
  destruct Hp as [Hr Hf]. destruct st' as [w s]. destruct Hwf as [Hndw Hndr]. cbn [fst snd] in *. split.
  - rewrite gen_update_unfold. unfold wls_is_updated. rewrite Hf. cbn [negb andb].
    apply upd_body_entries; [assumption|]. left. exists GotHave. split; [assumption|].
    unfold upd_entries; cbn [fst snd]. apply cid_mem_In in Hw. rewrite Hw. left; reflexivity.
  - apply gen_full_entries; [assumption | assumption |]. split; [assumption|]. rewrite Hr. left; reflexivity.
Qed.

Theorem C17_flags sdh k c :
  let e := entry_of sdh (k, c) in
  e_block e = cid_to_bytes c /\
  match k with
  | KWantHave => e_priority e = 1 /\ e_cancel e = false /\ e_want_type e = WTHave /\ e_send_dont_have e = sdh
  | KWantBlock => e_priority e = 1 /\ e_cancel e = false /\ e_want_type e = WTBlock /\ e_send_dont_have e = sdh
  | KCancel => e_cancel e = true /\ e = MkEntry (cid_to_bytes c) (e_priority default_entry) true
                                            (e_want_type default_entry) (e_send_dont_have default_entry)
  end.
Proof. destruct k; cbn; repeat split; reflexivity. Qed.

(* non-vacuity *)
Definition ex_c1 : cid := MkCid V1 85 (MkMh 18 [1; 2; 3]).
Definition ex_c2 : cid := MkCid V1 85 (MkMh 18 [4; 5; 6]).

Example C17_example_want_block :
  let h := [HInsert ex_c1; HInsert ex_c2; HGenUpdate; HDontHave ex_c1; HHave ex_c1; HHave ex_c2] in
  snd (hstep (hrun_from (hinit true) h) HGenUpdate) = Some (false, [(KWantBlock, ex_c1); (KWantBlock, ex_c2)]) /\
  snd (hstep (hrun_from (hinit true) (h ++ [HGenUpdate])) HGenFull) = Some (true, [(KWantBlock, ex_c1); (KWantBlock, ex_c2)]).
Proof. vm_compute. split; reflexivity. Qed.

Example C17_example_have_gets :
  let h0 := [HInsert ex_c1; HGenFull] in
  rget ex_c1 (snd (hrun_from (hinit true) h0)) <> None /\
  Forall (quiet_for ex_c1) [HRemove ex_c1; HInsert ex_c2; HInsert ex_c1; HDontHave ex_c2] /\
  In ex_c1 (wl_cids (fst (hrun_from (fst (hstep (hrun_from (hinit true) h0) (HHave ex_c1)))
                                    [HRemove ex_c1; HInsert ex_c2; HInsert ex_c1; HDontHave ex_c2]))).
Proof.
  split; [vm_compute; discriminate|]. split.
  - repeat constructor; discriminate.
  - vm_compute. right; left; reflexivity.
Qed.
