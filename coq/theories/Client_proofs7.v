(* Client_proofs7.v — package I, part 1: where the entries of `peers` come from, step by step; the
   connection sets; the request-state maps (`WantlistState.req_state`) are bounded by the wantlist plus
   what left the wantlist since the peer's last generated wantlist. *)
From BS Require Import Types Wantlist Wantlist_proofs Client Client_proofs Client_proofs2 Client_proofs3 Client_proofs4 Client_proofs5.
From Coq Require Import ZArith ZifyBool ZifyN ZifyNat Lia Permutation.
Open Scope N_scope.

(* ---------- small list facts ---------- *)
Lemma n_remove_NoDup c l : NoDup l -> NoDup (n_remove c l).
Proof. apply NoDup_filter. Qed.

Lemma add_conn_NoDup c ps : NoDup (p_conns ps) -> NoDup (p_conns (add_conn c ps)).
Proof.
  intros H. unfold add_conn. cbn [p_conns]. destruct (n_mem c (p_conns ps)) eqn:M; [exact H|].
  apply NoDup_snoc; [exact H | apply n_mem_false; exact M].
Qed.

Definition keys (x : wls) : list cid := map fst (req x).

(* ---------- the origin of a peer entry after one operation that is not a poll ---------- *)
Inductive origin (s : cstate) (o : cop) (p : peer) (ps' : peer_state) : Prop :=
| OrNew c : o = CNewConn p c -> al_find N.eqb p (cs_peers s) = None -> ps' = add_conn c new_peer_state ->
    origin s o p ps'
| OrOld ps : al_find N.eqb p (cs_peers s) = Some ps ->
    (p_conns ps' = p_conns ps \/ (exists c, o = CNewConn p c /\ p_conns ps' = p_conns (add_conn c ps)) \/
     (exists c, o = CConnClosed p c /\ p_conns ps' = n_remove c (p_conns ps))) ->
    keys (p_wl ps') = keys (p_wl ps) -> synced_rev (p_wl ps') = synced_rev (p_wl ps) ->
    p_send_full ps' = p_send_full ps ->
    origin s o p ps'.

Lemma apply_presence_same x pr :
  keys (apply_presence x pr) = keys x /\ synced_rev (apply_presence x pr) = synced_rev x.
Proof.
  unfold apply_presence, keys. destruct (snd pr); cbn [wls_got_have wls_got_dont_have req synced_rev];
    rewrite al_modify_keys; split; reflexivity.
Qed.

Lemma apply_presences_same pres : forall x,
  keys (fold_left apply_presence pres x) = keys x /\ synced_rev (fold_left apply_presence pres x) = synced_rev x.
Proof.
  induction pres as [|pr pres IH]; intros x; cbn [fold_left]; [split; reflexivity|].
  destruct (IH (apply_presence x pr)) as [-> ->]. apply apply_presence_same.
Qed.

Lemma inc_block_pwl_same a b :
  keys (ia_pwl (inc_block a b)) = keys (ia_pwl a) /\ synced_rev (ia_pwl (inc_block a b)) = synced_rev (ia_pwl a).
Proof.
  unfold inc_block. destruct (ia_panic a); [split; reflexivity|]. destruct b as [c data].
  destruct (wl_remove (ia_wl a) c) as [w' removed]. destruct removed; cbn [negb].
  - cbn [ia_pwl]. unfold keys, wls_got_block. cbn [req synced_rev]. rewrite al_modify_keys. split; reflexivity.
  - destruct (al_mem cid_eqb c (ia_c2q a)); split; reflexivity.
Qed.

Lemma inc_blocks_pwl_same bl : forall a,
  keys (ia_pwl (fold_left inc_block bl a)) = keys (ia_pwl a) /\
  synced_rev (ia_pwl (fold_left inc_block bl a)) = synced_rev (ia_pwl a).
Proof.
  induction bl as [|b bl IH]; intros a; cbn [fold_left]; [split; reflexivity|].
  destruct (IH (inc_block a b)) as [-> ->]. apply inc_block_pwl_same.
Qed.

Lemma find_of_in s p ps : NoDup (map fst (cs_peers s)) -> In (p, ps) (cs_peers s) -> al_find N.eqb p (cs_peers s) = Some ps.
Proof. intros. apply in_keys_find; assumption. Qed.

Lemma origin_nonpoll s o p ps' :
  NoDup (map fst (cs_peers s)) -> (forall ch, o <> CPoll ch) ->
  In (p, ps') (cs_peers (fst (cstep s o))) -> origin s o p ps'.
Proof.
  intros Hnd Hnp Hin.
  assert (Hsame : cs_peers (fst (cstep s o)) = cs_peers s -> origin s o p ps').
  { intros E. rewrite E in Hin. apply (OrOld s o p ps' ps'); auto. apply find_of_in; assumption. }
  destruct o; cbn [cstep fst] in *.
  - (* new connection *)
    unfold c_new_conn in Hin. rewrite (al_mem_find _ Neqb_spec) in Hin.
    destruct (al_find N.eqb p0 (cs_peers s)) as [ps0|] eqn:E0; cbn [set_peers cs_peers] in Hin.
    + apply in_al_modify in Hin. destruct Hin as (v & Hv & ->). pose proof (find_of_in s p v Hnd Hv) as Hf.
      destruct (p0 =? p) eqn:E; [apply N.eqb_eq in E; subst p0|]; apply (OrOld s _ p _ v); auto.
      right; left. exists c. split; reflexivity.
    + apply in_peers_ins in Hin. destruct Hin as [[= -> ->] | Hin].
      * apply (OrNew s _ p0 _ c); auto.
      * apply (OrOld s _ p ps' ps'); auto. apply find_of_in; assumption.
  - (* connection closed *)
    unfold c_conn_closed in Hin. destruct (al_find N.eqb p0 (cs_peers s)) as [ps0|] eqn:E0; [|apply Hsame; unfold c_conn_closed; rewrite E0; reflexivity].
    destruct (p_conns (remove_conn c ps0)) as [|x xs] eqn:Ec; cbn [set_peers cs_peers] in Hin.
    + unfold al_remove in Hin. apply filter_In in Hin. destruct Hin as [Hin _].
      apply (OrOld s _ p ps' ps'); auto. apply find_of_in; assumption.
    + apply in_al_modify in Hin. destruct Hin as (v & Hv & ->). pose proof (find_of_in s p v Hnd Hv) as Hf.
      destruct (p0 =? p) eqn:E; [apply N.eqb_eq in E; subst p0|]; apply (OrOld s _ p _ v); auto.
      right; right. exists c. split; reflexivity.
  - apply Hsame. unfold c_get. destruct c; reflexivity.
  - apply Hsame. rewrite c_cancel_unfold. cbv zeta. destruct (cancel_abort_frame s q) as (_ & _ & _ & _ & E5 & _).
    destruct (find_query q (cs_c2q (cancel_abort s q))) as [[c1 qs]|]; [destruct (swap_remove_q q qs)|]; cbn [set_wl set_c2q cs_peers]; exact E5.
  - (* incoming *)
    unfold c_incoming in Hin. destruct (al_find N.eqb p0 (cs_peers s)) as [ps0|] eqn:E0; [|apply Hsame; unfold c_incoming; rewrite E0; reflexivity].
    set (a0 := MkInc (cs_wl s) (fold_left apply_presence pres (p_wl ps0)) (cs_c2q s) (cs_queue s) [] false) in *.
    assert (Hin' : In (p, ps') (al_modify N.eqb p0 (fun ps1 => MkPeer (p_conns ps1) (p_ss ps1) (ia_pwl (fold_left inc_block blocks a0)) (p_send_full ps1)) (cs_peers s))).
    { destruct (ia_panic (fold_left inc_block blocks a0)); [|destruct (ia_new (fold_left inc_block blocks a0))]; exact Hin. }
    clear Hin. apply in_al_modify in Hin'. destruct Hin' as (v & Hv & ->). pose proof (find_of_in s p v Hnd Hv) as Hf.
    destruct (p0 =? p) eqn:E; [apply N.eqb_eq in E; subst p0|]; apply (OrOld s _ p _ v); auto.
    + rewrite Hf in E0. injection E0 as <-. cbn [p_wl].
      destruct (inc_blocks_pwl_same blocks a0) as [-> _]. unfold a0. cbn [ia_pwl]. apply apply_presences_same.
    + rewrite Hf in E0. injection E0 as <-. cbn [p_wl].
      destruct (inc_blocks_pwl_same blocks a0) as [_ ->]. unfold a0. cbn [ia_pwl]. apply apply_presences_same.
  - (* report *)
    cbn [c_report set_peers cs_peers] in Hin. apply in_al_modify in Hin. destruct Hin as (v & Hv & ->).
    pose proof (find_of_in s p v Hnd Hv) as Hf.
    apply (OrOld s _ p _ v); auto; destruct (p0 =? p); try destruct (report_accepted v c); auto.
  - apply Hsame. unfold c_release. destruct (find (call_is call) (cs_tasks s)) as [[tid t]|]; reflexivity.
  - apply Hsame. reflexivity.
  - exfalso. eapply Hnp. reflexivity.
  - apply Hsame. reflexivity.
Qed.

(* ---------- the phases of a CPoll, with the intermediate state exposed ---------- *)
Lemma c_poll_summary_ex s ch :
  exists outsC sC,
    tasks_run (after_timer s) outsC sC /\ poll_summary s ch (cs_peers sC) (cs_wl sC) outsC /\
    fst (c_poll s ch) = set_queue (set_peers sC (flat_map (uh_keep (cs_now s) (cs_wl sC) ch) (cs_peers sC))) [].
Proof.
  destruct (c_poll_phases s ch) as (outsC & sC & Hrun & Hpoll).
  destruct (tasks_run_frame _ _ _ Hrun) as (F1 & F2 & F3 & F4 & F5).
  destruct (after_timer_props s) as (HqB & HtB & HnB).
  rewrite uh_loop_flat in Hpoll. rewrite F2, HnB in Hpoll.
  exists outsC, sC. split; [exact Hrun|]. split; [constructor|].
  - eapply peers_link_trans; [apply after_timer_peers | apply (tasks_run_peers _ _ _ Hrun)].
  - intros Ht p ps Hin. destruct (after_timer_fired s Ht) as [_ Hall].
    destruct (peers_link_in _ _ _ _ (tasks_run_peers _ _ _ Hrun) Hin) as (ps0 & Hin0 & (_ & _ & Hsf)).
    specialize (Hall _ _ Hin0). destruct Hsf as [Hsf | Hsf]; congruence.
  - rewrite Hpoll. cbn [fst set_queue set_peers cs_deadline]. rewrite F3. unfold after_timer.
    change (timer_ready (set_queue s [])) with (timer_ready s). destruct (timer_ready s); reflexivity.
  - apply (tasks_run_outs _ _ _ Hrun).
  - rewrite Hpoll. reflexivity.
  - rewrite Hpoll. reflexivity.
  - rewrite Hpoll. cbn [fst set_queue set_peers cs_now]. rewrite F2. exact HnB.
  - rewrite Hpoll. reflexivity.
  - rewrite Hpoll. reflexivity.
Qed.

(* what the timer and the finished tasks do to one entry: nothing to the connections and the sending
   state, send_full may be set, request states are only removed (`wanted_again`) *)
Definition link2 (ps ps' : peer_state) : Prop :=
  link_ok ps ps' /\ incl (keys (p_wl ps')) (keys (p_wl ps)) /\ synced_rev (p_wl ps') = synced_rev (p_wl ps).

Definition peers_link2 (l l' : list (peer * peer_state)) : Prop :=
  Forall2 (fun e e' => fst e' = fst e /\ link2 (snd e) (snd e')) l l'.

Lemma link2_refl ps : link2 ps ps.
Proof. split; [repeat split; auto|]. split; [apply incl_refl | reflexivity]. Qed.

Lemma peers_link2_refl l : peers_link2 l l.
Proof. induction l; constructor; auto. split; [reflexivity | apply link2_refl]. Qed.

Lemma peers_link2_link l l' : peers_link2 l l' -> peers_link l l'.
Proof. induction 1 as [|x y l l' [Hk [Hl _]] _ IH]; constructor; auto. Qed.

Lemma peers_link2_trans a b c : peers_link2 a b -> peers_link2 b c -> peers_link2 a c.
Proof.
  intros H. revert c. induction H as [|x y a b [Hk ((H1 & H2 & H3) & H4 & H5)] Hab IH]; intros c Hbc;
    inversion Hbc as [|? z ? c' [Hk' ((G1 & G2 & G3) & G4 & G5)] Hbc']; subst; constructor.
  - split; [congruence|]. split; [|split].
    + repeat split; try congruence. destruct G3 as [G3 | G3]; [destruct H3 as [H3 | H3]; [left | right]; congruence | right; exact G3].
    + eapply incl_tran; eassumption.
    + congruence.
  - apply IH. assumption.
Qed.

Lemma peers_link2_map l (f : peer * peer_state -> peer * peer_state) :
  (forall e, fst (f e) = fst e /\ link2 (snd e) (snd (f e))) -> peers_link2 l (map f l).
Proof. intros Hf. induction l; cbn [map]; constructor; auto. Qed.

Lemma wanted_again_keys x c : incl (keys (wls_wanted_again x c)) (keys x).
Proof.
  unfold wls_wanted_again, keys. destruct (al_find cid_eqb c (req x)) as [[]|]; try apply incl_refl.
  cbn [req]. intros k Hk. apply (al_remove_keys _ cid_eqb_spec) in Hk. apply Hk.
Qed.

Lemma handle_result_peers_link2 s r : peers_link2 (cs_peers s) (cs_peers (fst (handle_task_result s r))).
Proof.
  destruct r as [q c res|ok bl|]; cbn [handle_task_result].
  - destruct res; cbn [fst]; try apply peers_link2_refl.
    destruct (wl_insert (cs_wl (set_abort s (al_remove N.eqb q (cs_abort s)))) c) as [w' ins]. destruct ins; cbn [fst]; [|apply peers_link2_refl].
    cbn [set_c2q set_peers set_wl set_abort cs_peers]. unfold wanted_again_all. apply peers_link2_map.
    intros e. split; [reflexivity|]. cbn [snd p_wl]. split; [repeat split; auto|]. split; [apply wanted_again_keys|].
    apply wanted_again_flags.
  - destruct ok; apply peers_link2_refl.
  - apply peers_link2_refl.
Qed.

Lemma tasks_run_peers2 s outs s' : tasks_run s outs s' -> peers_link2 (cs_peers s) (cs_peers s').
Proof.
  induction 1 as [s Hr | s r outs s' Hr Hrun IH].
  - destruct (after_tasks_frame s) as (_ & _ & -> & _). apply peers_link2_refl.
  - eapply peers_link2_trans; [|exact IH].
    pose proof (handle_result_peers_link2 (after_tasks s) r) as H.
    destruct (after_tasks_frame s) as (_ & _ & F3 & _). rewrite F3 in H. exact H.
Qed.

Lemma after_timer_peers2 s : peers_link2 (cs_peers s) (cs_peers (after_timer s)).
Proof.
  unfold after_timer. destruct (timer_ready (set_queue s [])); [|apply peers_link2_refl].
  cbn [fire_timer set_queue cs_peers]. apply peers_link2_map. intros e. split; [reflexivity|].
  split; [repeat split; auto|]. split; [apply incl_refl | reflexivity].
Qed.

Lemma peers_link2_in l l' p ps' :
  peers_link2 l l' -> In (p, ps') l' -> exists ps, In (p, ps) l /\ link2 ps ps'.
Proof.
  induction 1 as [|[k v] [k' v'] l l' [Hk Hl] Hll IH]; [intros []|]. cbn [fst snd] in *. subst k'.
  intros [[= <- <-] | Hin]; [exists v; split; [left; reflexivity | exact Hl]|].
  destruct (IH Hin) as (ps & H1 & H2). exists ps. split; [right; exact H1 | exact H2].
Qed.

(* the wantlist only grows during a poll *)
Lemma handle_result_wl_mono s r : incl (wl_cids (cs_wl s)) (wl_cids (cs_wl (fst (handle_task_result s r)))).
Proof.
  destruct r as [q c res|ok bl|]; cbn [handle_task_result].
  - destruct res; cbn [fst]; try apply incl_refl.
    unfold wl_insert. cbn [set_abort cs_wl]. destruct (cid_mem c (wl_cids (cs_wl s))); cbn [fst set_c2q set_peers set_wl cs_wl wl_cids];
      [apply incl_refl | apply incl_appl, incl_refl].
  - destruct ok; apply incl_refl.
  - apply incl_refl.
Qed.

Lemma tasks_run_wl_mono s outs s' : tasks_run s outs s' -> incl (wl_cids (cs_wl s)) (wl_cids (cs_wl s')).
Proof.
  induction 1 as [s Hr | s r outs s' Hr Hrun IH].
  - destruct (after_tasks_frame s) as (_ & -> & _). apply incl_refl.
  - eapply incl_tran; [|exact IH]. pose proof (handle_result_wl_mono (after_tasks s) r) as H.
    destruct (after_tasks_frame s) as (_ & F2 & _). rewrite F2 in H. exact H.
Qed.

Lemma after_timer_wl s : cs_wl (after_timer s) = cs_wl s.
Proof. unfold after_timer. destruct (timer_ready (set_queue s [])); reflexivity. Qed.

(* the origin of an entry that is there after a poll *)
Lemma origin_poll s ch p ps' :
  NoDup (map fst (cs_peers s)) -> In (p, ps') (cs_peers (fst (c_poll s ch))) ->
  exists outsC sC ps psl,
    tasks_run (after_timer s) outsC sC /\ cs_wl (fst (c_poll s ch)) = cs_wl sC /\
    al_find N.eqb p (cs_peers s) = Some ps /\ In (p, psl) (cs_peers sC) /\ link2 ps psl /\
    In (p, ps') (uh_keep (cs_now s) (cs_wl sC) ch (p, psl)).
Proof.
  intros Hnd Hin. destruct (c_poll_summary_ex s ch) as (outsC & sC & Hrun & _ & Hfin).
  rewrite Hfin in Hin |- *. cbn [set_queue set_peers cs_peers cs_wl] in *.
  apply uh_keep_in in Hin. destruct Hin as (psl & Hinl & Hk).
  assert (Hl : peers_link2 (cs_peers s) (cs_peers sC))
    by (eapply peers_link2_trans; [apply after_timer_peers2 | apply (tasks_run_peers2 _ _ _ Hrun)]).
  destruct (peers_link2_in _ _ _ _ Hl Hinl) as (ps & Hin0 & Hl2).
  exists outsC, sC, ps, psl. split; [exact Hrun|]. split; [reflexivity|]. split; [apply in_keys_find; assumption|].
  split; [exact Hinl|]. split; [exact Hl2 | exact Hk].
Qed.

Lemma uh_gate_wl now ps ps1 : uh_gate now ps = Some ps1 -> p_wl ps1 = p_wl ps.
Proof.
  unfold uh_gate. destruct (p_ss ps) as [|t c|t c|t c|c]; try discriminate.
  - intros [= <-]. reflexivity.
  - destruct (now - t <? RECEIVE_REQUEST_TIMEOUT); [discriminate|]. intros [= <-]. reflexivity.
  - intros [= <-]. reflexivity.
Qed.

Lemma uh_gate_conns now ps ps1 :
  uh_gate now ps = Some ps1 ->
  p_conns ps1 = p_conns ps \/ exists c0, p_conns ps1 = n_remove c0 (p_conns ps) /\
    (p_ss ps = SsFailed c0 \/ exists t, p_ss ps = SsRequested t c0 /\ (now - t <? RECEIVE_REQUEST_TIMEOUT) = false).
Proof.
  unfold uh_gate. destruct (p_ss ps) as [|t c|t c|t c|c]; try discriminate.
  - intros [= <-]. left. reflexivity.
  - destruct (now - t <? RECEIVE_REQUEST_TIMEOUT) eqn:E; [discriminate|]. intros [= <-]. right. exists c. split; [reflexivity|]. right. eauto.
  - intros [= <-]. right. exists c. split; [reflexivity|]. left. reflexivity.
Qed.

(* ---------- connection sets ---------- *)
Definition INVN (s : cstate) : Prop := forall p ps, In (p, ps) (cs_peers s) -> NoDup (p_conns ps).

Lemma INVN_step s o : NoDup (map fst (cs_peers s)) -> INVN s -> INVN (fst (cstep s o)).
Proof.
  intros Hnd HN p ps' Hin.
  assert (Hnp : (forall ch, o <> CPoll ch) \/ exists ch, o = CPoll ch) by (destruct o; eauto; left; discriminate).
  destruct Hnp as [Hnp | (ch & ->)].
  - destruct (origin_nonpoll s o p ps' Hnd Hnp Hin) as [c _ _ -> | ps Hf Hc _ _ _].
    + cbn. repeat constructor. intros [].
    + apply (al_find_some_in _ Neqb_spec) in Hf. specialize (HN _ _ Hf).
      destruct Hc as [-> | [(c & _ & ->) | (c & _ & ->)]]; [exact HN | apply add_conn_NoDup, HN | apply n_remove_NoDup, HN].
  - cbn [cstep fst] in Hin. destruct (origin_poll s ch p ps' Hnd Hin) as (outsC & sC & ps & psl & _ & _ & Hf & _ & ((_ & Hcn & _) & _) & Hk).
    apply (al_find_some_in _ Neqb_spec) in Hf. specialize (HN _ _ Hf). rewrite <- Hcn in HN.
    unfold uh_keep in Hk. cbn [fst snd] in Hk.
    pose proof (uh_peer_case (cs_now s) (cs_wl sC) ch p psl) as Hcase. destruct (uh_peer (cs_now s) (cs_wl sC) ch p psl) as [[[a b] c'] d].
    assert (Hg : forall ps1, uh_gate (cs_now s) psl = Some ps1 -> NoDup (p_conns ps1)).
    { intros ps1 Hg. destruct (uh_gate_conns _ _ _ Hg) as [-> | (c0 & -> & _)]; [exact HN | apply n_remove_NoDup, HN]. }
    inversion Hcase as [Hg1 | ps1 Hg1 Hcn1 | ps1 wls' conns Hg1 Hcn1 Hne1 Hsf Hgen | ps1 es0 wls' c0 bad conns sf Hg1 Hcn1 Hsf Hgen Hsend Hin1 Hbad Hch]; subst.
    + destruct Hk as [[= <-] | []]. exact HN.
    + destruct Hk.
    + destruct Hk as [[= <-] | []]. cbn [p_conns]. apply Hg, Hg1.
    + destruct Hk as [[= <-] | []]. cbn [p_conns]. apply Hg, Hg1.
Qed.

Lemma INVN_run sdh ops : INVN (st_after sdh ops).
Proof.
  induction ops as [|o ops IH] using rev_ind; [intros p ps []|].
  rewrite st_after_snoc. apply INVN_step; [apply INVS_run | exact IH].
Qed.

(* peers that have an open connection *)
Definition conn_peer (o : cop) : list peer := match o with CNewConn p _ => [p] | _ => [] end.
Definition has_open (ops : list cop) (p : peer) : bool := match open_conns p ops with [] => false | _ => true end.
Definition connected_peers (ops : list cop) : list peer :=
  filter (has_open ops) (nodup N.eq_dec (flat_map conn_peer ops)).

Lemma open_conns_mentioned p ops c : In c (open_conns p ops) -> In p (flat_map conn_peer ops).
Proof.
  induction ops as [|o ops IH] using rev_ind; [intros []|].
  rewrite open_conns_snoc, flat_map_app', in_app_iff. destruct o; cbn [open_step conn_peer flat_map app In]; auto.
  - destruct (p0 =? p) eqn:E; [|auto]. apply N.eqb_eq in E. subst p0. intros _. right. left. reflexivity.
  - destruct (p0 =? p); [|auto]. intros H. apply n_remove_In in H. left. apply IH, H.
Qed.

Lemma connected_peers_spec ops p : In p (connected_peers ops) <-> open_conns p ops <> [].
Proof.
  unfold connected_peers, has_open. rewrite filter_In, nodup_In. split.
  - intros [_ H]. destruct (open_conns p ops); [discriminate | discriminate].
  - intros H. destruct (open_conns p ops) as [|c l] eqn:E; [congruence|]. split; [|reflexivity].
    apply (open_conns_mentioned p ops c). rewrite E. left. reflexivity.
Qed.

Lemma connected_peers_NoDup ops : NoDup (connected_peers ops).
Proof. apply NoDup_filter, NoDup_nodup. Qed.

(* C13 (client), the `peers` map: at most one entry per connected peer, and each entry's connection set
   is a non-empty duplicate-free subset of the peer's open connections *)
Lemma C13_peers_bounded sdh ops :
  let s := st_after sdh ops in
  NoDup (map fst (cs_peers s)) /\
  (forall p ps, In (p, ps) (cs_peers s) ->
     p_conns ps <> [] /\ NoDup (p_conns ps) /\ incl (p_conns ps) (open_conns p ops) /\
     (length (p_conns ps) <= length (open_conns p ops))%nat /\ In p (connected_peers ops)) /\
  (length (cs_peers s) <= length (connected_peers ops))%nat.
Proof.
  intros s. pose proof (INVS_run sdh ops) as [Hnd _]. fold s in Hnd.
  assert (Hent : forall p ps, In (p, ps) (cs_peers s) ->
     p_conns ps <> [] /\ NoDup (p_conns ps) /\ incl (p_conns ps) (open_conns p ops) /\
     (length (p_conns ps) <= length (open_conns p ops))%nat /\ In p (connected_peers ops)).
  { intros p ps Hin. destruct (INVC_run sdh ops p ps Hin) as [Hne Hsub]. pose proof (INVN_run sdh ops p ps Hin) as Hn.
    split; [exact Hne|]. split; [exact Hn|]. split; [exact Hsub|]. split; [apply NoDup_incl_length; assumption|].
    apply connected_peers_spec. destruct (p_conns ps) as [|c l]; [congruence|]. intros E.
    specialize (Hsub c (or_introl eq_refl)). rewrite E in Hsub. destruct Hsub. }
  split; [exact Hnd|]. split; [exact Hent|].
  rewrite <- (map_length fst). apply NoDup_incl_length; [exact Hnd|]. intros p Hp.
  apply in_map_iff in Hp. destruct Hp as ([p' ps] & <- & Hin). apply (Hent _ _ Hin).
Qed.

(* a connection leaves an entry's set only when it is closed, or when the sending state names it and
   the transmission failed / was not acknowledged in time (update_handlers, client.rs:364-389) *)
Lemma C13_conns_step s o p ps' :
  NoDup (map fst (cs_peers s)) -> In (p, ps') (cs_peers (fst (cstep s o))) ->
  (exists c, o = CNewConn p c /\ al_find N.eqb p (cs_peers s) = None /\ p_conns ps' = [c]) \/
  exists ps, al_find N.eqb p (cs_peers s) = Some ps /\
    (p_conns ps' = p_conns ps \/
     (exists c, o = CNewConn p c /\ p_conns ps' = p_conns (add_conn c ps)) \/
     (exists c, o = CConnClosed p c /\ p_conns ps' = n_remove c (p_conns ps)) \/
     (exists ch c0, o = CPoll ch /\ p_conns ps' = n_remove c0 (p_conns ps) /\
        (p_ss ps = SsFailed c0 \/ exists t, p_ss ps = SsRequested t c0 /\ (cs_now s - t <? RECEIVE_REQUEST_TIMEOUT) = false))).
Proof.
  intros Hnd Hin.
  assert (Hnp : (forall ch, o <> CPoll ch) \/ exists ch, o = CPoll ch) by (destruct o; eauto; left; discriminate).
  destruct Hnp as [Hnp | (ch & ->)].
  - destruct (origin_nonpoll s o p ps' Hnd Hnp Hin) as [c Ho Hf -> | ps Hf Hc _ _ _].
    + left. exists c. repeat split; auto.
    + right. exists ps. split; [exact Hf|]. destruct Hc as [H | [H | H]]; auto.
  - right. cbn [cstep fst] in Hin.
    destruct (origin_poll s ch p ps' Hnd Hin) as (outsC & sC & ps & psl & _ & _ & Hf & _ & ((Hss & Hcn & _) & _) & Hk).
    exists ps. split; [exact Hf|]. unfold uh_keep in Hk. cbn [fst snd] in Hk.
    pose proof (uh_peer_case (cs_now s) (cs_wl sC) ch p psl) as Hcase. destruct (uh_peer (cs_now s) (cs_wl sC) ch p psl) as [[[a b] c'] d].
    assert (Hg : forall ps1, uh_gate (cs_now s) psl = Some ps1 ->
      p_conns ps1 = p_conns ps \/ exists c0, p_conns ps1 = n_remove c0 (p_conns ps) /\
        (p_ss ps = SsFailed c0 \/ exists t, p_ss ps = SsRequested t c0 /\ (cs_now s - t <? RECEIVE_REQUEST_TIMEOUT) = false)).
    { intros ps1 Hg. destruct (uh_gate_conns _ _ _ Hg) as [H | (c0 & H1 & H2)]; rewrite Hcn, ?Hss in *; eauto. }
    inversion Hcase as [Hg1 | ps1 Hg1 Hcn1 | ps1 wls' conns Hg1 Hcn1 Hne1 Hsf Hgen | ps1 es0 wls' cX bad conns sf Hg1 Hcn1 Hsf Hgen Hsend Hin1 Hbad Hch]; subst.
    + destruct Hk as [[= <-] | []]. left. exact Hcn.
    + destruct Hk.
    + destruct Hk as [[= <-] | []]. cbn [p_conns]. destruct (Hg _ Hg1) as [H | (c0 & H1 & H2)]; [left; exact H|].
      right; right; right. exists ch, c0. auto.
    + destruct Hk as [[= <-] | []]. cbn [p_conns]. destruct (Hg _ Hg1) as [H | (c0 & H1 & H2)]; [left; exact H|].
      right; right; right. exists ch, c0. auto.
Qed.

(* ---------- the request-state maps against the shared wantlist ---------- *)
(* keys are distinct; the synced revision never runs ahead; while the revisions agree the map holds
   nothing that is not in the wantlist *)
Definition Jp (w : wl) (x : wls) : Prop :=
  NoDup (keys x) /\ synced_rev x <= wl_rev w /\ (synced_rev x = wl_rev w -> incl (keys x) (wl_cids w)).

Definition wl_adv (w w' : wl) : Prop := w' = w \/ wl_rev w < wl_rev w'.

Lemma wl_adv_refl w : wl_adv w w.
Proof. left. reflexivity. Qed.

Lemma wl_adv_trans a b c : wl_adv a b -> wl_adv b c -> wl_adv a c.
Proof. unfold wl_adv. intros [-> | H1] [-> | H2]; auto. right. lia. Qed.

Lemma wl_insert_adv w c : wl_adv w (fst (wl_insert w c)).
Proof. unfold wl_insert, wl_adv. destruct (cid_mem c (wl_cids w)); cbn [fst wl_rev]; [auto | right; lia]. Qed.

Lemma wl_remove_adv w c : wl_adv w (fst (wl_remove w c)).
Proof. unfold wl_remove, wl_adv. destruct (cid_mem c (wl_cids w)); cbn [fst wl_rev]; [right; lia | auto]. Qed.

Lemma Jp_adv w w' x : wl_adv w w' -> Jp w x -> Jp w' x.
Proof.
  intros [-> | Hlt] (H1 & H2 & H3); [repeat split; assumption|].
  split; [exact H1|]. split; [lia|]. intros E. lia.
Qed.

Lemma Jp_same w x x' : NoDup (keys x') -> incl (keys x') (keys x) -> synced_rev x' = synced_rev x -> Jp w x -> Jp w x'.
Proof.
  intros Hn Hi Hr (H1 & H2 & H3). split; [exact Hn|]. rewrite Hr. split; [exact H2|].
  intros E. eapply incl_tran; [exact Hi | apply H3, E].
Qed.

Lemma Jp_new w : Jp w wls_new.
Proof. split; [constructor|]. split; [cbn; lia|]. intros _ c []. Qed.

Lemma Jp_wanted_again w x c : Jp w x -> Jp w (wls_wanted_again x c).
Proof.
  intros H. eapply Jp_same; [| apply wanted_again_keys | apply wanted_again_flags | exact H].
  apply wanted_again_NoDup. apply H.
Qed.

Lemma Jp_gen_full w x : NoDup (wl_cids w) -> Jp w x -> Jp w (snd (wls_generate_full x w)).
Proof.
  intros Hw (H1 & H2 & H3). split; [apply gen_full_NoDup; assumption|]. split; [exact H2|].
  intros _ c Hc. apply gen_full_keys in Hc. exact Hc.
Qed.

Lemma gen_update_keys w x :
  Jp w x -> incl (keys (snd (wls_generate_update x w))) (wl_cids w).
Proof.
  intros (H1 & H2 & H3). rewrite gen_update_unfold. destruct (wls_is_updated x w) eqn:U; cbn [snd].
  - apply H3. unfold wls_is_updated in U. apply andb_true_iff in U. destruct U as [_ U]. apply N.eqb_eq in U. exact U.
  - intros c Hc. apply upd_body_keys in Hc. exact Hc.
Qed.

Lemma Jp_gen_update w x : NoDup (wl_cids w) -> Jp w x -> Jp w (snd (wls_generate_update x w)).
Proof.
  intros Hw H. pose proof (gen_update_keys w x H) as Hk. destruct H as (H1 & H2 & H3).
  split; [apply gen_update_NoDup; assumption|]. split; [|intros _; exact Hk].
  rewrite gen_update_unfold. destruct (wls_is_updated x w); cbn [snd upd_body synced_rev]; [exact H2 | lia].
Qed.

Definition INVJ (s : cstate) : Prop := forall p ps, In (p, ps) (cs_peers s) -> Jp (cs_wl s) (p_wl ps).

(* the wantlist revision across one operation that is not a poll *)
Lemma inc_block_wl_adv a b : wl_adv (ia_wl a) (ia_wl (inc_block a b)).
Proof.
  unfold inc_block. destruct (ia_panic a); [apply wl_adv_refl|]. destruct b as [c data].
  pose proof (wl_remove_adv (ia_wl a) c) as H. destruct (wl_remove (ia_wl a) c) as [w' removed]. destruct removed; cbn [negb].
  - exact H.
  - destruct (al_mem cid_eqb c (ia_c2q a)); apply wl_adv_refl.
Qed.

Lemma inc_blocks_wl_adv bl : forall a, wl_adv (ia_wl a) (ia_wl (fold_left inc_block bl a)).
Proof.
  induction bl as [|b bl IH]; intros a; cbn [fold_left]; [apply wl_adv_refl|].
  eapply wl_adv_trans; [apply inc_block_wl_adv | apply IH].
Qed.

Lemma wl_adv_nonpoll s o : (forall ch, o <> CPoll ch) -> wl_adv (cs_wl s) (cs_wl (fst (cstep s o))).
Proof.
  intros Hnp. destruct o; cbn [cstep fst]; try apply wl_adv_refl.
  - unfold c_new_conn. destruct (al_mem N.eqb p (cs_peers s)); apply wl_adv_refl.
  - unfold c_conn_closed. destruct (al_find N.eqb p (cs_peers s)); [destruct (p_conns (remove_conn c p0))|]; apply wl_adv_refl.
  - unfold c_get. destruct c; apply wl_adv_refl.
  - rewrite c_cancel_unfold. cbv zeta. destruct (cancel_abort_frame s q) as (_ & _ & _ & E4 & _).
    destruct (find_query q (cs_c2q (cancel_abort s q))) as [[c1 qs]|]; [destruct (swap_remove_q q qs)|];
      cbn [set_wl set_c2q cs_wl]; rewrite ?E4; try apply wl_adv_refl. apply wl_remove_adv.
  - unfold c_incoming. destruct (al_find N.eqb p (cs_peers s)) as [ps|]; [|apply wl_adv_refl].
    set (a0 := MkInc (cs_wl s) (fold_left apply_presence pres (p_wl ps)) (cs_c2q s) (cs_queue s) [] false).
    pose proof (inc_blocks_wl_adv blocks a0) as H.
    destruct (ia_panic (fold_left inc_block blocks a0)); [|destruct (ia_new (fold_left inc_block blocks a0))]; exact H.
  - unfold c_release. destruct (find (call_is call) (cs_tasks s)) as [[tid t]|]; apply wl_adv_refl.
  - exfalso. eapply Hnp. reflexivity.
Qed.

Lemma INVJ_nonpoll s o :
  NoDup (map fst (cs_peers s)) -> (forall ch, o <> CPoll ch) -> INVJ s -> INVJ (fst (cstep s o)).
Proof.
  intros Hnd Hnp HJ p ps' Hin.
  destruct (origin_nonpoll s o p ps' Hnd Hnp Hin) as [c _ _ -> | ps Hf _ Hk Hr _].
  - apply Jp_new.
  - apply (al_find_some_in _ Neqb_spec) in Hf. specialize (HJ _ _ Hf).
    apply (Jp_adv (cs_wl s)); [apply wl_adv_nonpoll, Hnp|].
    eapply Jp_same; [| | exact Hr | exact HJ]; rewrite Hk; [apply HJ | apply incl_refl].
Qed.

(* through the phases of a poll *)
Definition INVBJ (s : cstate) : Prop := INVB s /\ INVJ s.

Lemma INVBJ_after_timer s : INVBJ s -> INVBJ (after_timer s).
Proof.
  intros [HB HJ]. split.
  - unfold INVB. rewrite after_timer_wl. unfold after_timer. destruct (timer_ready (set_queue s [])); exact HB.
  - intros p ps' Hin. rewrite after_timer_wl.
    destruct (peers_link2_in _ _ _ _ (after_timer_peers2 s) Hin) as (ps & Hin0 & (_ & Hi & Hr)).
    unfold after_timer in Hin. destruct (timer_ready (set_queue s [])).
    + cbn [fire_timer set_queue cs_peers] in Hin. apply in_map_iff in Hin. destruct Hin as ([p0 ps0] & [= <- <-] & Hin).
      cbn [snd p_wl]. apply HJ in Hin. exact Hin.
    + apply HJ in Hin. exact Hin.
Qed.

Lemma INVBJ_after_tasks s : INVBJ s -> INVBJ (after_tasks s).
Proof.
  intros [HB HJ]. destruct (after_tasks_frame s) as (_ & F2 & F3 & F4 & _). split.
  - unfold INVB. rewrite F2, F4. exact HB.
  - unfold INVJ. rewrite F2, F3. exact HJ.
Qed.

Lemma INVBJ_handle_result s r : INVBJ s -> INVBJ (fst (handle_task_result s r)).
Proof.
  intros [HB HJ]. split; [apply INVB_handle_result, HB|].
  destruct r as [q c res|ok bl|]; cbn [handle_task_result].
  - destruct res; cbn [fst]; try exact HJ.
    pose proof (wl_insert_adv (cs_wl s) c) as Hadv. cbn [set_abort cs_wl].
    destruct (wl_insert (cs_wl s) c) as [w' ins]. cbn [fst] in Hadv.
    destruct ins; cbn [fst set_c2q set_peers set_wl set_abort cs_peers cs_wl]; intros p ps' Hin.
    + unfold wanted_again_all in Hin. apply in_map_iff in Hin. destruct Hin as ([p0 ps0] & [= <- <-] & Hin).
      cbn [snd p_wl]. apply Jp_wanted_again. eapply Jp_adv; [exact Hadv | apply (HJ _ _ Hin)].
    + eapply Jp_adv; [exact Hadv | apply (HJ _ _ Hin)].
  - destruct ok; exact HJ.
  - exact HJ.
Qed.

Lemma INVBJ_tasks_run s outs s' : tasks_run s outs s' -> INVBJ s -> INVBJ s'.
Proof.
  induction 1 as [s Hr | s r outs s' Hr Hrun IH]; intros H.
  - apply INVBJ_after_tasks, H.
  - apply IH, INVBJ_handle_result, INVBJ_after_tasks, H.
Qed.

(* one entry after update_handlers *)
Lemma uh_keep_Jp now w ch p psl ps' :
  NoDup (wl_cids w) -> Jp w (p_wl psl) -> In (p, ps') (uh_keep now w ch (p, psl)) ->
  Jp w (p_wl ps') /\
  match uh_gate now psl with
  | None => ps' = psl
  | Some _ => incl (keys (p_wl ps')) (wl_cids w)
  end.
Proof.
  intros Hw HJ Hk. unfold uh_keep in Hk. cbn [fst snd] in Hk.
  pose proof (uh_peer_case now w ch p psl) as Hcase. destruct (uh_peer now w ch p psl) as [[[a b] c'] d].
  assert (Hgen : forall ps1 (sf : bool) es wls', uh_gate now psl = Some ps1 ->
            (if sf then wls_generate_full (p_wl ps1) w else wls_generate_update (p_wl ps1) w) = (es, wls') ->
            Jp w wls' /\ incl (keys wls') (wl_cids w)).
  { intros ps1 sf es wls' Hg Hgen. rewrite (uh_gate_wl _ _ _ Hg) in Hgen. destruct sf.
    - replace wls' with (snd (wls_generate_full (p_wl psl) w)) by (rewrite Hgen; reflexivity).
      split; [apply Jp_gen_full; assumption|]. intros c Hc. apply gen_full_keys in Hc. exact Hc.
    - replace wls' with (snd (wls_generate_update (p_wl psl) w)) by (rewrite Hgen; reflexivity).
      split; [apply Jp_gen_update; assumption | apply gen_update_keys; assumption]. }
  inversion Hcase as [Hg1 | ps1 Hg1 Hcn1 | ps1 wls' conns Hg1 Hcn1 Hne1 Hsf Hgen1 | ps1 es0 wls' cX bad conns sf Hg1 Hcn1 Hsf Hgen1 Hsend Hin1 Hbad Hch]; subst.
  - destruct Hk as [[= <-] | []]. rewrite Hg1. auto.
  - destruct Hk.
  - destruct Hk as [[= <-] | []]. rewrite Hg1. cbn [p_wl]. apply (Hgen ps1 false [] wls' Hg1). exact Hgen1.
  - destruct Hk as [[= <-] | []]. rewrite Hg1. cbn [p_wl]. apply (Hgen ps1 (p_send_full ps1) es0 wls' Hg1). exact Hgen1.
Qed.

Lemma INVBJ_step s o : NoDup (map fst (cs_peers s)) -> INVBJ s -> INVBJ (fst (cstep s o)).
Proof.
  intros Hnd [HB HJ]. split; [apply INVB_step, HB|].
  assert (Hnp : (forall ch, o <> CPoll ch) \/ exists ch, o = CPoll ch) by (destruct o; eauto; left; discriminate).
  destruct Hnp as [Hnp | (ch & ->)]; [apply INVJ_nonpoll; assumption|].
  cbn [cstep fst]. intros p ps' Hin.
  destruct (origin_poll s ch p ps' Hnd Hin) as (outsC & sC & ps & psl & Hrun & Hw & Hf & Hinl & _ & Hk).
  destruct (INVBJ_tasks_run _ _ _ Hrun (INVBJ_after_timer s (conj HB HJ))) as [(HwC & _) HJC].
  rewrite Hw. apply (uh_keep_Jp (cs_now s) (cs_wl sC) ch p psl ps' HwC (HJC _ _ Hinl) Hk).
Qed.

Lemma INVBJ_run sdh ops : INVBJ (st_after sdh ops).
Proof.
  induction ops as [|o ops IH] using rev_ind.
  - split; [apply INVB_init | intros p ps []].
  - rewrite st_after_snoc. apply INVBJ_step; [apply INVS_run | exact IH].
Qed.

(* ---------- the key sets across one operation ---------- *)
(* not a poll: the keys of an entry do not change (a new entry has none) *)
Lemma keys_nonpoll s o p ps' :
  NoDup (map fst (cs_peers s)) -> (forall ch, o <> CPoll ch) ->
  al_find N.eqb p (cs_peers (fst (cstep s o))) = Some ps' ->
  keys (p_wl ps') = [] \/ exists ps, al_find N.eqb p (cs_peers s) = Some ps /\ keys (p_wl ps') = keys (p_wl ps).
Proof.
  intros Hnd Hnp Hf. apply (al_find_some_in _ Neqb_spec) in Hf.
  destruct (origin_nonpoll s o p ps' Hnd Hnp Hf) as [c _ _ -> | ps Hf0 _ Hk _ _]; [left; reflexivity | right; eauto].
Qed.

(* a poll: the wantlist only grows; an entry that is blocked by an outstanding transmission keeps a subset
   of its keys, an entry that passes the gate ends with keys inside the wantlist *)
Definition is_open (p : peer) (s : cstate) : bool :=
  match al_find N.eqb p (cs_peers s) with
  | Some ps => match uh_gate (cs_now s) ps with Some _ => true | None => false end
  | None => false
  end.

Lemma keys_poll s ch p ps' :
  NoDup (map fst (cs_peers s)) -> INVBJ s ->
  al_find N.eqb p (cs_peers (fst (c_poll s ch))) = Some ps' ->
  incl (wl_cids (cs_wl s)) (wl_cids (cs_wl (fst (c_poll s ch)))) /\
  exists ps, al_find N.eqb p (cs_peers s) = Some ps /\
    if is_open p s then incl (keys (p_wl ps')) (wl_cids (cs_wl (fst (c_poll s ch))))
    else incl (keys (p_wl ps')) (keys (p_wl ps)).
Proof.
  intros Hnd HBJ Hf. apply (al_find_some_in _ Neqb_spec) in Hf.
  destruct (origin_poll s ch p ps' Hnd Hf) as (outsC & sC & ps & psl & Hrun & Hw & Hf0 & Hinl & (Hlink & Hi & _) & Hk).
  destruct (INVBJ_tasks_run _ _ _ Hrun (INVBJ_after_timer s HBJ)) as [(HwC & _) HJC].
  split.
  - rewrite Hw, <- (after_timer_wl s). apply (tasks_run_wl_mono _ _ _ Hrun).
  - exists ps. split; [exact Hf0|]. unfold is_open. rewrite Hf0.
    destruct (uh_keep_Jp (cs_now s) (cs_wl sC) ch p psl ps' HwC (HJC _ _ Hinl) Hk) as [_ Hm].
    pose proof (uh_gate_link (cs_now s) ps psl Hlink) as Hgl.
    destruct (uh_gate (cs_now s) ps), (uh_gate (cs_now s) psl); try destruct Hgl.
    + rewrite Hw. exact Hm.
    + subst ps'. exact Hi.
Qed.

(* ---------- what left the wantlist since the peer's last generated wantlist ---------- *)
Definition removed_by (s : cstate) (o : cop) : list cid :=
  filter (fun c => negb (cid_mem c (wl_cids (cs_wl (fst (cstep s o)))))) (wl_cids (cs_wl s)).

(* ghost: run the model and collect, for peer p, the CIDs that left the wantlist (cancelled, or answered by
   an accepted block) since the last poll in which p's entry passed the gate of update_handlers — such a
   poll generates a wantlist for p (possibly an empty update, which is not sent) and prunes its map; the
   collection is empty while p has no entry *)
Definition stale_step (p : peer) (sa : cstate * list cid) (o : cop) : cstate * list cid :=
  let s' := fst (cstep (fst sa) o) in
  (s', match al_find N.eqb p (cs_peers s') with
       | None => []
       | Some _ =>
           match o with
           | CPoll _ => if is_open p (fst sa) then [] else snd sa
           | _ => snd sa ++ removed_by (fst sa) o
           end
       end).

Definition stale_run (p : peer) (sdh : bool) (ops : list cop) : cstate * list cid :=
  fold_left (stale_step p) ops (cinit sdh, []).
Definition stale_cids (p : peer) (sdh : bool) (ops : list cop) : list cid := snd (stale_run p sdh ops).

Lemma stale_run_snoc p sdh ops o : stale_run p sdh (ops ++ [o]) = stale_step p (stale_run p sdh ops) o.
Proof. unfold stale_run. rewrite fold_left_app. reflexivity. Qed.

Lemma stale_run_state p sdh ops : fst (stale_run p sdh ops) = st_after sdh ops.
Proof.
  induction ops as [|o ops IH] using rev_ind; [reflexivity|].
  rewrite stale_run_snoc, st_after_snoc. unfold stale_step. cbn [fst]. rewrite IH. reflexivity.
Qed.

Lemma removed_by_spec s o c :
  In c (wl_cids (cs_wl s)) -> In c (wl_cids (cs_wl (fst (cstep s o)))) \/ In c (removed_by s o).
Proof.
  intros Hin. unfold removed_by. destruct (cid_mem c (wl_cids (cs_wl (fst (cstep s o))))) eqn:M.
  - left. apply cid_mem_In. exact M.
  - right. apply filter_In. split; [exact Hin | rewrite M; reflexivity].
Qed.

(* every key of a request-state map is in the wantlist or left it since the peer's last generated wantlist *)
Lemma keys_covered sdh ops p ps :
  al_find N.eqb p (cs_peers (st_after sdh ops)) = Some ps ->
  forall c, In c (keys (p_wl ps)) -> In c (wl_cids (cs_wl (st_after sdh ops))) \/ In c (stale_cids p sdh ops).
Proof.
  revert ps. induction ops as [|o ops IH] using rev_ind; intros ps' Hf c Hc; [discriminate|].
  unfold stale_cids. rewrite stale_run_snoc. unfold stale_step. rewrite stale_run_state. cbn [snd].
  fold (stale_cids p sdh ops). rewrite st_after_snoc in *. set (s := st_after sdh ops) in *. rewrite Hf.
  pose proof (INVS_run sdh ops) as [Hnd _]. fold s in Hnd.
  assert (Hnp : (forall ch, o <> CPoll ch) \/ exists ch, o = CPoll ch) by (destruct o; eauto; left; discriminate).
  destruct Hnp as [Hnp | (ch & ->)].
  - assert (Hgoal : In c (wl_cids (cs_wl (fst (cstep s o)))) \/ In c (stale_cids p sdh ops ++ removed_by s o)).
    { destruct (keys_nonpoll s o p ps' Hnd Hnp Hf) as [E | (ps & Hf0 & E)]; [rewrite E in Hc; destruct Hc|].
      rewrite E in Hc. destruct (IH ps Hf0 c Hc) as [H | H].
      - destruct (removed_by_spec s o c H) as [H' | H']; [left; exact H' | right; apply in_app_iff; right; exact H'].
      - right. apply in_app_iff. left. exact H. }
    destruct o; try exact Hgoal. exfalso. eapply Hnp. reflexivity.
  - cbn [cstep fst] in *. destruct (keys_poll s ch p ps' Hnd (INVBJ_run sdh ops) Hf) as (Hmono & ps & Hf0 & Hk).
    destruct (is_open p s).
    + left. apply Hk, Hc.
    + destruct (IH ps Hf0 c (Hk c Hc)) as [H | H]; [left; apply Hmono, H | right; exact H].
Qed.

(* C13 (client), the per-peer request-state maps *)
Lemma C13_req_states_bounded sdh ops p ps :
  let s := st_after sdh ops in
  al_find N.eqb p (cs_peers s) = Some ps ->
  NoDup (keys (p_wl ps)) /\
  (forall c, In c (keys (p_wl ps)) -> In c (wl_cids (cs_wl s)) \/ In c (stale_cids p sdh ops)) /\
  (length (req (p_wl ps)) <= length (cs_c2q s) + length (stale_cids p sdh ops))%nat.
Proof.
  intros s Hf. pose proof (al_find_some_in _ Neqb_spec _ _ _ Hf) as Hin.
  destruct (INVBJ_run sdh ops) as [(Hw & Hm & Hk & _) HJ]. fold s in Hw, Hm, Hk, HJ.
  destruct (HJ _ _ Hin) as (Hnd & _). split; [exact Hnd|]. split; [apply keys_covered; exact Hf|].
  assert (Hlen : (length (keys (p_wl ps)) <= length (wl_cids (cs_wl s) ++ stale_cids p sdh ops))%nat).
  { apply NoDup_incl_length; [exact Hnd|]. intros c Hc. apply in_app_iff. apply (keys_covered sdh ops p ps Hf c Hc). }
  unfold keys in Hlen. rewrite map_length, app_length in Hlen.
  assert (Hwl : (length (wl_cids (cs_wl s)) <= length (map fst (cs_c2q s)))%nat).
  { apply NoDup_incl_length; [exact Hw|]. intros c Hc. apply Hk. exact Hc. }
  rewrite map_length in Hwl. lia.
Qed.

(* the collection is reset by every poll in which the peer's entry passes the gate, and then (and
   whenever the collection is empty) the map holds only wanted CIDs *)
Lemma stale_reset sdh ops ch p :
  is_open p (st_after sdh ops) = true -> stale_cids p sdh (ops ++ [CPoll ch]) = [].
Proof.
  intros Ho. unfold stale_cids. rewrite stale_run_snoc. unfold stale_step. rewrite stale_run_state, Ho. cbn [snd].
  destruct (al_find N.eqb p (cs_peers (fst (cstep (st_after sdh ops) (CPoll ch))))); reflexivity.
Qed.

Lemma C13_req_states_after_poll sdh ops ch p ps :
  let s := st_after sdh (ops ++ [CPoll ch]) in
  is_open p (st_after sdh ops) = true ->
  al_find N.eqb p (cs_peers s) = Some ps ->
  incl (keys (p_wl ps)) (wl_cids (cs_wl s)) /\ (length (req (p_wl ps)) <= length (cs_c2q s))%nat.
Proof.
  intros s Ho Hf. destruct (C13_req_states_bounded sdh (ops ++ [CPoll ch]) p ps Hf) as (_ & Hcov & Hlen).
  fold s in Hcov, Hlen. rewrite (stale_reset sdh ops ch p Ho) in Hcov, Hlen. split.
  - intros c Hc. destruct (Hcov c Hc) as [H | []]. exact H.
  - cbn [length] in Hlen. lia.
Qed.

(* between two generated wantlists the key set of an entry can only shrink *)
Lemma C13_req_states_shrink s o p ps' :
  NoDup (map fst (cs_peers s)) -> INVBJ s -> is_open p s = false \/ (forall ch, o <> CPoll ch) ->
  al_find N.eqb p (cs_peers (fst (cstep s o))) = Some ps' ->
  keys (p_wl ps') = [] \/ exists ps, al_find N.eqb p (cs_peers s) = Some ps /\ incl (keys (p_wl ps')) (keys (p_wl ps)).
Proof.
  intros Hnd HBJ Hc Hf.
  assert (Hnp : (forall ch, o <> CPoll ch) \/ exists ch, o = CPoll ch) by (destruct o; eauto; left; discriminate).
  destruct Hnp as [Hnp | (ch & ->)].
  - destruct (keys_nonpoll s o p ps' Hnd Hnp Hf) as [E | (ps & Hf0 & E)]; [left; exact E|].
    right. exists ps. split; [exact Hf0 | rewrite E; apply incl_refl].
  - destruct Hc as [Hc | Hc]; [|exfalso; eapply Hc; reflexivity]. cbn [cstep fst] in Hf.
    destruct (keys_poll s ch p ps' Hnd HBJ Hf) as (_ & ps & Hf0 & Hk). rewrite Hc in Hk. right. eauto.
Qed.

(* ---------- witnesses ---------- *)
(* the entry of a peer is dropped, and connections leave an entry, although they are still open: after a
   wantlist was handed to connection 1 and not acknowledged within RECEIVE_REQUEST_TIMEOUT the next poll
   removes connection 1 from the entry (and the entry with its last connection); the connection is not
   closed and nothing re-creates the entry until a further connection is established *)
Theorem C13_peers_exact_refuted :
  exists ops p, open_conns p ops <> [] /\ al_find N.eqb p (cs_peers (st_after true ops)) = None.
Proof.
  exists [CNewConn 7 1; CPoll [(7, 1)]; CAdvance 1000; CPoll [(7, 1)]], 7. vm_compute. split; [discriminate | reflexivity].
Qed.

Theorem C13_conns_exact_refuted :
  exists ops p ps c,
    al_find N.eqb p (cs_peers (st_after true ops)) = Some ps /\ In c (open_conns p ops) /\ ~ In c (p_conns ps).
Proof.
  exists [CNewConn 7 1; CNewConn 7 2; CPoll [(7, 1)]; CAdvance 1000; CPoll [(7, 2)]], 7.
  eexists. exists 1. vm_compute. split; [reflexivity|]. split; [left; reflexivity|]. intros [H | []]. discriminate.
Qed.

(* right after a CPoll the map of a peer whose transmission is outstanding still holds the CIDs of queries
   that are gone: three queries are announced to peer 7, the handler acknowledges the request, the three
   queries are cancelled; no query is live, the wantlist is empty, and the poll leaves the three request
   states in place.  They stay until the transmission ends (or fails) and a later poll generates again. *)
Definition ex_c3 : cid := MkCid V1 85 (MkMh 18 [7; 8; 9]).

Definition retained_ops : list cop :=
  [CNewConn 7 1; CPoll [(7, 1)]; CReport 7 1 (RpRequestReceived 1); CReport 7 1 (RpSending 1); CReport 7 1 RpReady;
   CGet (Some ex_c1); CGet (Some ex_c2); CGet (Some ex_c3); CPoll [(7, 1)];
   CRelease 0 SMiss; CRelease 1 SMiss; CRelease 2 SMiss; CPoll [(7, 1)];
   CReport 7 1 (RpRequestReceived 1); CCancel 0; CCancel 1; CCancel 2].

Theorem C13_req_states_after_poll_refuted :
  exists ops ch p ps,
    let s := st_after true (ops ++ [CPoll ch]) in
    al_find N.eqb p (cs_peers s) = Some ps /\
    wl_cids (cs_wl s) = [] /\ cs_c2q s = [] /\ cs_abort s = [] /\ cs_tasks s = [] /\
    keys (p_wl ps) = [ex_c1; ex_c2; ex_c3] /\ stale_cids p true (ops ++ [CPoll ch]) = [ex_c1; ex_c2; ex_c3].
Proof.
  exists retained_ops, [(7, 1)], 7. eexists. vm_compute. repeat split; reflexivity.
Qed.

Example C13_req_states_example :
  let ops := retained_ops ++ [CPoll [(7, 1)]; CReport 7 1 (RpSending 1); CReport 7 1 RpReady] in
  is_open 7 (st_after true ops) = true /\
  (exists ps, al_find N.eqb 7 (cs_peers (st_after true ops)) = Some ps /\ keys (p_wl ps) = [ex_c1; ex_c2; ex_c3]) /\
  stale_cids 7 true ops = [ex_c1; ex_c2; ex_c3] /\
  stale_cids 7 true (ops ++ [CPoll [(7, 1)]]) = [] /\
  (exists ps, al_find N.eqb 7 (cs_peers (st_after true (ops ++ [CPoll [(7, 1)]]))) = Some ps /\ keys (p_wl ps) = []) /\
  In (OSendWantlist 7 1 false [(KCancel, ex_c1); (KCancel, ex_c2); (KCancel, ex_c3)]) (outs_after true (ops ++ [CPoll [(7, 1)]])).
Proof.
  vm_compute. split; [reflexivity|]. split; [eexists; split; reflexivity|]. split; [reflexivity|]. split; [reflexivity|].
  split; [eexists; split; reflexivity|]. repeat (first [left; reflexivity | right]).
Qed.

Example C13_peers_example :
  let ops := [CNewConn 7 1; CNewConn 7 2; CNewConn 9 4; CConnClosed 7 1; CPoll [(7, 2); (9, 4)]] in
  connected_peers ops = [7; 9] /\ map fst (cs_peers (st_after true ops)) = [7; 9] /\
  open_conns 7 ops = [2] /\ (exists ps, al_find N.eqb 7 (cs_peers (st_after true ops)) = Some ps /\ p_conns ps = [2]).
Proof. vm_compute. repeat split; try reflexivity. eexists; split; reflexivity. Qed.
