(* Props_C17.v — C17: full blocks are requested only from peers that announced them (model: Wantlist.v; histories = client-level events of one peer).
   Statements restated verbatim from the proof files and closed by `exact`; nothing else is proved here. *)
From BS Require Import Bytes Cid Proto Types Wantlist Wantlist_proofs Tie_wantlist Tie_consts.
Open Scope N_scope.

Theorem C17_want_block_only_after_have sdh h e full es c :
  snd (hstep (hrun_from (hinit sdh) h) e) = Some (full, es) -> In (KWantBlock, c) es ->
  al_find cid_eqb c (last_answer (htrace (hinit sdh) h)) = Some true /\
  exists h1 h2, h = h1 ++ HHave c :: h2 /\ ~ In (HDontHave c) h2 /\
    forall t f es', In t (htrace (hrun_from (hinit sdh) (h1 ++ [HHave c])) h2) ->
                    ti_out t = Some (f, es') -> ~ In (KWantHave, c) es'.
Proof. exact (Wantlist_proofs.C17_want_block_only_after_have sdh h e full es c). Qed.

Theorem C17_have_gets_want_block sdh h0 c h' :
  let st := hrun_from (hinit sdh) h0 in
  rget c (snd st) <> None ->
  Forall (quiet_for c) h' ->
  let st' := hrun_from (fst (hstep st (HHave c))) h' in
  In c (wl_cids (fst st')) ->
  In (KWantBlock, c) (fst (wls_generate_update (snd st') (fst st'))) /\
  In (KWantBlock, c) (fst (wls_generate_full (snd st') (fst st'))).
Proof. exact (Wantlist_proofs.C17_have_gets_want_block sdh h0 c h'). Qed.

Theorem C17_flags sdh k c :
  let e := entry_of sdh (k, c) in
  e_block e = cid_to_bytes c /\
  match k with
  | KWantHave => e_priority e = 1 /\ e_cancel e = false /\ e_want_type e = WTHave /\ e_send_dont_have e = sdh
  | KWantBlock => e_priority e = 1 /\ e_cancel e = false /\ e_want_type e = WTBlock /\ e_send_dont_have e = sdh
  | KCancel => e_cancel e = true /\ e = MkEntry (cid_to_bytes c) (e_priority default_entry) true
                                            (e_want_type default_entry) (e_send_dont_have default_entry)
  end.
Proof. exact (Wantlist_proofs.C17_flags sdh k c). Qed.

Print Assumptions C17_want_block_only_after_have.
Print Assumptions C17_have_gets_want_block.
Print Assumptions C17_flags.

(* ---- at the client behaviour (package K, Net_proofs44: every peer entry of Client.v is a state of the Wantlist.v history
   model whose presence events are presences that peer really sent): a WANT_BLOCK for x goes to p only after p sent HAVE x,
   for ANY op list of the client; between beetswap nodes (which never send presences) no WANT_BLOCK is ever on the wire. *)
From BS Require Import Types Wantlist Wantlist_proofs2 Client Client_proofs Client_proofs4 Net Net_proofs Net_proofs6 Net_props Net_proofs2 Net_proofs5 Net_proofs21 Net_proofs40 Net_proofs41 Net_proofs42 Net_proofs43 Net_proofs44 Net_proofs45 Net_proofs46 Net_proofs47 Server Net_props4.
From Coq Require Import ZArith Lia.
Open Scope N_scope.

Theorem C17_client_want_block_only_after_have :
  forall (sdh : bool) (ops : list cop) (ch : list (peer * conn)) (p : peer) (c : conn) 
    (f : bool) (es : list gen_entry) (x : cid),
  In (OSendWantlist p c f es) (snd (c_poll (st_after sdh ops) ch)) ->
  In (KWantBlock, x) es -> got_have p x ops.
Proof. exact (@Net_props4.C17_client_want_block_only_after_have). Qed.

Theorem C17_net_want_block_only_after_have :
  forall (Sz : N) (Hh : hash_fn) (n : nat) (ops : list nop) (i : N) (m : wmsg) (c : cid),
  In m (wsent_run Sz Hh (net_init n) ops i) -> ~ In (KWantBlock, c) (wm_entries m).
Proof. exact (@Net_props4.C17_net_want_block_only_after_have). Qed.

Print Assumptions C17_client_want_block_only_after_have.
Print Assumptions C17_net_want_block_only_after_have.
