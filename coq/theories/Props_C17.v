(* Props_C17.v — C17: full blocks are requested only from peers that announced them (model: Wantlist.v; histories = client-level events of one peer).
   Statements restated verbatim from the proof files and closed by `exact`; nothing else is proved here. *)
From BS Require Import Bytes Cid Proto Types Wantlist Wantlist_proofs Tie_wantlist Tie_consts.
Open Scope N_scope.

Theorem C17_want_block_only_after_have sdh h e full es c :
  snd (hstep (hrun_from (hinit sdh) h) e) = Some (full, es) -> In (KWantBlock, c) es ->
  al_find cid_eqb c (last_answer (htrace (hinit sdh) h)) = Some true /\
  exists h1 h2, h = h1 ++ HHave c :: h2 /\ ~ In (HDontHave c) h2 /\
    forall t f es', In t (htrace (hrun_from (hinit sdh) (h1 ++ [HHave c])) h2) ->
                    ti_out t = Some (f, es') -> ~ In (KWantHave, c) es'.
Proof. exact (Wantlist_proofs.C17_want_block_only_after_have sdh h e full es c). Qed.

Theorem C17_have_gets_want_block sdh h0 c h' :
  let st := hrun_from (hinit sdh) h0 in
  rget c (snd st) <> None ->
  Forall (quiet_for c) h' ->
  let st' := hrun_from (fst (hstep st (HHave c))) h' in
  In c (wl_cids (fst st')) ->
  In (KWantBlock, c) (fst (wls_generate_update (snd st') (fst st'))) /\
  In (KWantBlock, c) (fst (wls_generate_full (snd st') (fst st'))).
Proof. exact (Wantlist_proofs.C17_have_gets_want_block sdh h0 c h'). Qed.

Theorem C17_flags sdh k c :
  let e := entry_of sdh (k, c) in
  e_block e = cid_to_bytes c /\
  match k with
  | KWantHave => e_priority e = 1 /\ e_cancel e = false /\ e_want_type e = WTHave /\ e_send_dont_have e = sdh
  | KWantBlock => e_priority e = 1 /\ e_cancel e = false /\ e_want_type e = WTBlock /\ e_send_dont_have e = sdh
  | KCancel => e_cancel e = true /\ e = MkEntry (cid_to_bytes c) (e_priority default_entry) true
                                            (e_want_type default_entry) (e_send_dont_have default_entry)
  end.
Proof. exact (Wantlist_proofs.C17_flags sdh k c). Qed.

Print Assumptions C17_want_block_only_after_have.
Print Assumptions C17_have_gets_want_block.
Print Assumptions C17_flags.
