(* ServerHandler_wire.v — closes C09's outbound half down to the bytes: with the real size estimate of
   `blocks_fitting_in_message` (1 + sizeof_len(block.get_size())) and the real encoder (Codec.codec_encode =
   varint length prefix ++ quick-protobuf body), the body of every frame the server handler starts is at most
   MAX_MESSAGE_SIZE long as long as every queued block fits on its own, so the receiving Codec::decode accepts
   it and returns exactly the payload message that was started. *)
From BS Require Import Bytes Varint Proto Qp ProtoCodec RefProto Frame Framed Codec Frame_proofs Framed_proofs
                       ProtoCodec_proofs RefProto_proofs Codec_proofs Types FramedWrite ServerHandler Handler_proofs
                       ServerHandler_proofs.
From Coq Require Import ZArith ZifyBool ZifyN ZifyNat Lia.
Open Scope N_scope.

(* server.rs: `size += 1 + sizeof_len(block.get_size())` *)
Definition wire_block_size (b : blk) : N := 1 + sizeof_len (size_block (block_of b)).

Lemma limits_agree : MAX_MESSAGE_SIZE = max_message_size.
Proof. reflexivity. Qed.

Lemma size_payload_message bs : size_message (payload_message bs) = total wire_block_size bs.
Proof.
  unfold size_message, payload_message. cbn [m_wantlist m_payload m_presences m_pending_bytes map sum_N fold_right].
  rewrite N.eqb_refl. induction bs as [|b bs IH]; cbn [map sum_N fold_right total] in *; [reflexivity|].
  unfold wire_block_size at 1. lia.
Qed.

Lemma body_len_payload_message bs : len (write_message (payload_message bs)) = total wire_block_size bs.
Proof. rewrite C08_encode_no_panic. apply size_payload_message. Qed.

(* every frame started announces at most the limit *)
Theorem C09_outbound_frames_within_limit : forall (ops : list shop),
  (forall b, In b (queued_of ops) -> wire_block_size b <= MAX_MESSAGE_SIZE) ->
  Forall (fun p => size_ok write_message (payload_message (snd p)))
         (sh_started (server_handler_final codec_encode wire_block_size ops)).
Proof.
  intros ops SZ. destruct (C09_outbound_split codec_encode wire_block_size ops) as [F _].
  specialize (F SZ). rewrite Forall_forall in *. intros p Hp. specialize (F p Hp). cbn beta in F.
  unfold size_ok. rewrite body_len_payload_message, <- limits_agree. exact F.
Qed.

Definition wf_blk (b : blk) : Prop := wf_bytes (fst b) /\ wf_bytes (snd b).

Lemma wf_payload_message bs :
  Forall wf_blk bs -> Forall (fun b => wire_block_size b <= MAX_MESSAGE_SIZE) bs ->
  total wire_block_size bs < two64 -> wf_message (payload_message bs).
Proof.
  intros W S T. unfold wf_message, payload_message. cbn [m_wantlist m_payload m_presences m_pending_bytes].
  split; [exact I|]. split; [|split; [constructor|split]].
  - rewrite Forall_forall in *. intros b Hb. apply in_map_iff in Hb. destruct Hb as (x & <- & Hx).
    destruct (W x Hx) as [W1 W2]. specialize (S x Hx). unfold wf_block, block_of. cbn [b_prefix b_data].
    split; [exact W1|split; [exact W2|]]. unfold wire_block_size, sizeof_len, block_of, MAX_MESSAGE_SIZE in S.
    unfold two32. change (2 ^ 32) with 4294967296. lia.
  - unfold two32. change (2 ^ 32) with 4294967296. lia.
  - fold (payload_message bs). rewrite size_payload_message. exact T.
Qed.

(* ... and the receiving codec (either build profile) decodes it to exactly the started payload message, leaving
   whatever follows untouched *)
Theorem C09_outbound_frames_accepted : forall (ops : list shop) chk,
  Forall wf_blk (queued_of ops) ->
  (forall b, In b (queued_of ops) -> wire_block_size b <= MAX_MESSAGE_SIZE) ->
  Forall (fun p => forall rest, codec_decode chk (codec_encode (payload_message (snd p)) ++ rest)
                                = DItem (payload_message (snd p)) rest)
         (sh_started (server_handler_final codec_encode wire_block_size ops)).
Proof.
  intros ops chk W SZ. pose proof (C09_outbound_frames_within_limit ops SZ) as L.
  destruct (C09_outbound_split codec_encode wire_block_size ops) as [F [Q _]]. specialize (F SZ).
  rewrite Forall_forall in *. intros p Hp rest. specialize (L p Hp). specialize (F p Hp). cbn beta in F.
  assert (Sub : forall b, In b (snd p) -> In b (queued_of ops)).
  { intros b Hb. rewrite <- Q. apply in_or_app. left. apply in_concat. exists (snd p). split; [|exact Hb].
    apply in_map. exact Hp. }
  unfold codec_decode, codec_encode.
  apply (Frame_proofs.C10_frame_exact message (qp_parse chk) write_message wf_message (qp_parse_exact chk)); [|exact L].
  apply wf_payload_message.
  - rewrite Forall_forall. intros b Hb. apply W, Sub, Hb.
  - rewrite Forall_forall. intros b Hb. apply SZ, Sub, Hb.
  - unfold MAX_MESSAGE_SIZE in F. unfold two64. change (2 ^ 64) with 18446744073709551616. lia.
Qed.
