(* Client_proofs20.v — package R: the trace-level C05 oracle of the correspondence harness (`Corr_client.c5_run`),
   restated with named pieces and with the source of the faults F1/F2 as a parameter `fo`, and the per-step facts about
   the model that its proof needs.
   `c5f_run faults_of` IS `Corr_client.c5_run` (`c5_run_eq`); `c5f_run no_faults` is the same fold with F1/F2 switched
   off, i.e. restricted to F3 = "connection closed while a wantlist handed to it was never acknowledged";
   `c5f_run faults_of_payload` is the fold corrected so as to need no contract on the reports (F1 blames the connection
   the Failed report NAMES, which is what the behaviour records). *)
From BS Require Import Types Wantlist Wantlist_proofs Client Client_proofs Client_proofs3 Client_proofs4 Corr_client.
From Coq Require Import ZArith ZifyBool ZifyN ZifyNat Lia List. Import ListNotations.
Open Scope N_scope.

(* ---------- the fold, in named pieces ---------- *)
Definition sends_of (outs : list cout) : list (peer * conn * bool) :=
  flat_map (fun o => match o with OSendWantlist p c f _ => [(p, c, f)] | _ => [] end) outs.
Definition now_of (now : N) (op : cop) : N := match op with CAdvance ms => now + ms | _ => now end.
Definition closed_unacked_of (op : cop) (inflight : list (peer * conn)) : list (peer * conn) :=
  match op with
  | CConnClosed p c => if existsb (pc_eqb (p, c)) inflight then [(p, c)] else []
  | _ => []
  end.
Definition cfaults0_of (op : cop) (cfaults : list (peer * conn)) : list (peer * conn) :=
  match op with CReport p c _ => pc_remove (p, c) cfaults | _ => cfaults end.
Definition inflight0_of (op : cop) (inflight : list (peer * conn)) : list (peer * conn) :=
  match op with
  | CReport p c _ | CConnClosed p c => pc_remove (p, c) inflight
  | _ => inflight
  end.
Definition sends_ok (sends : list (peer * conn * bool)) (F : list (peer * conn)) : bool :=
  forallb (fun s => let '(p, c, f) := s in
                    forallb (fun pc => if fst pc =? p then f && negb (snd pc =? c) else true) F) sends.
Definition settled_of (sends : list (peer * conn * bool)) (alive : list peer) (l : list (peer * conn)) : list (peer * conn) :=
  filter (fun pc => negb (existsb (fun s => fst (fst s) =? fst pc) sends) && Corr_client.n_mem (fst pc) alive) l.
Definition inflight1_of (sends : list (peer * conn * bool)) (alive : list peer) (inflight0 : list (peer * conn)) : list (peer * conn) :=
  filter (fun pc => Corr_client.n_mem (fst pc) alive)
         (map (fun s => (fst (fst s), snd (fst s))) sends
          ++ filter (fun pc => negb (existsb (fun s => fst (fst s) =? fst pc) sends)) inflight0).

Fixpoint c5f_run (fo : csnap -> N -> cop -> list (peer * conn)) (prev : csnap) (now : N) (faults cfaults inflight : list (peer * conn))
         (ops : list cop) (obs : list cobs) : bool :=
  match ops, obs with
  | op :: ops', ob :: obs' =>
      let now' := now_of now op in
      let faults1 := fo prev now' op ++ faults in
      let cfaults1 := closed_unacked_of op inflight ++ cfaults0_of op cfaults in
      let sends := sends_of (fst ob) in
      let alive := snap_peers (snd ob) in
      sends_ok sends (faults1 ++ cfaults1)
      && c5f_run fo (snd ob) now' (settled_of sends alive faults1) (settled_of sends alive cfaults1)
                 (inflight1_of sends alive (inflight0_of op inflight)) ops' obs'
  | _, _ => true
  end.

Lemma c5_run_eq prev now faults cfaults inflight ops obs :
  c5_run prev now faults cfaults inflight ops obs = c5f_run faults_of prev now faults cfaults inflight ops obs.
Proof.
  revert prev now faults cfaults inflight obs.
  induction ops as [|op ops IH]; intros prev now faults cfaults inflight obs; [reflexivity|].
  destruct obs as [|ob obs]; [reflexivity|].
  cbn [c5_run c5f_run]. rewrite IH. reflexivity.
Qed.

(* the model-side folds: the oracle run on the MODEL's own outputs and snapshots *)
Definition c5_ok (sdh : bool) (ops : list cop) : bool := c5_run csnap0 0 [] [] [] ops (model (sdh, ops)).
Definition no_faults : csnap -> N -> cop -> list (peer * conn) := fun _ _ _ => [].
Definition c5c_ok (sdh : bool) (ops : list cop) : bool := c5f_run no_faults csnap0 0 [] [] [] ops (model (sdh, ops)).

(* F1 corrected: an accepted Failed report is a fault of the connection it NAMES (F2 as before) *)
Definition faults_of_payload (prev : csnap) (now' : N) (op : cop) : list (peer * conn) :=
  match op with
  | CReport p c (RpFailed c2) =>
      match snap_ss prev p with
      | Some ss => match sending_conn_of ss with Some c0 => if c0 =? c then [(p, c2)] else [] | None => [] end
      | None => []
      end
  | CPoll _ => faults_of prev now' op
  | _ => []
  end.
Definition c5p_ok (sdh : bool) (ops : list cop) : bool := c5f_run faults_of_payload csnap0 0 [] [] [] ops (model (sdh, ops)).

(* the environment contract: a handler reports the failure of ITS OWN connection (handler side: Props_C05,
   `HReport (RpFailed (h_conn st))`; src/handler.rs:637,668,683 `SendingState::Failed(self.connection_id)`) *)
Definition rep_ok (o : cop) : bool := match o with CReport _ c (RpFailed c2) => c2 =? c | _ => true end.
Definition env_ok (ops : list cop) : bool := forallb rep_ok ops.

(* ---------- snapshots against the state ---------- *)
Lemma snap_ss_of s p : snap_ss (csnap_of s) p = option_map p_ss (al_find N.eqb p (cs_peers s)).
Proof.
  unfold snap_ss, csnap_of. induction (cs_peers s) as [|[k v] l IH]; [reflexivity|].
  cbn [map find psnap_of fst snd al_find]. rewrite (N.eqb_sym p k). destruct (k =? p); [reflexivity | exact IH].
Qed.

Lemma snap_peers_of s : snap_peers (csnap_of s) = map fst (cs_peers s).
Proof.
  unfold snap_peers, csnap_of. rewrite map_map. apply map_ext. intros [k v]. reflexivity.
Qed.

Lemma cn_mem_In x l : Corr_client.n_mem x l = true <-> In x l.
Proof. exact (n_mem_In x l). Qed.

Lemma alive_find s p : Corr_client.n_mem p (snap_peers (csnap_of s)) = true <-> al_find N.eqb p (cs_peers s) <> None.
Proof.
  rewrite cn_mem_In, snap_peers_of. pose proof (al_find_none _ Neqb_spec p (cs_peers s)) as H. split.
  - intros Hin Hn. apply H in Hn. exact (Hn Hin).
  - intros Hn. destruct (in_dec N.eq_dec p (map fst (cs_peers s))) as [Hin | Hnin]; [exact Hin|].
    exfalso. apply Hn, H, Hnin.
Qed.

(* ---------- list bookkeeping ---------- *)
Lemma pc_eqb_spec a b : pc_eqb a b = true <-> a = b.
Proof.
  destruct a as [p c], b as [p' c']. unfold pc_eqb. cbn [fst snd]. rewrite Bool.andb_true_iff, !N.eqb_eq.
  split; [intros [-> ->]; reflexivity | intros [= -> ->]; auto].
Qed.

Lemma pc_remove_In x y l : In y (pc_remove x l) <-> In y l /\ x <> y.
Proof.
  unfold pc_remove. rewrite filter_In, Bool.negb_true_iff. split; intros [H1 H2]; split; auto.
  - intros E. apply pc_eqb_spec in E. congruence.
  - destruct (pc_eqb x y) eqn:E; [|reflexivity]. apply pc_eqb_spec in E. contradiction.
Qed.

Lemma sends_of_In p c f outs : In (p, c, f) (sends_of outs) <-> exists es, In (OSendWantlist p c f es) outs.
Proof.
  unfold sends_of. rewrite in_flat_map. split.
  - intros (o & Hin & Ho). destruct o; try (destruct Ho; fail). destruct Ho as [[= -> -> ->] | []]. eauto.
  - intros (es & Hin). eexists. split; [exact Hin|]. left; reflexivity.
Qed.

Lemma no_send_existsb p sends :
  existsb (fun s : peer * conn * bool => fst (fst s) =? p) sends = false <-> forall c f, ~ In (p, c, f) sends.
Proof.
  split.
  - intros H c f Hin. assert (E : existsb (fun s : peer * conn * bool => fst (fst s) =? p) sends = true).
    { apply existsb_exists. exists (p, c, f). split; [exact Hin | apply N.eqb_refl]. }
    congruence.
  - intros H. destruct (existsb _ sends) eqn:E; [|reflexivity]. apply existsb_exists in E.
    destruct E as ([[p' c] f] & Hin & E). cbn [fst] in E. apply N.eqb_eq in E. subst p'. exfalso. eapply H, Hin.
Qed.

Lemma in_settled p c sends alive l :
  In (p, c) (settled_of sends alive l) <->
  In (p, c) l /\ (forall c' f, ~ In (p, c', f) sends) /\ Corr_client.n_mem p alive = true.
Proof.
  unfold settled_of. rewrite filter_In. cbn [fst]. rewrite Bool.andb_true_iff, Bool.negb_true_iff, no_send_existsb. tauto.
Qed.

Lemma in_inflight1 p c sends alive l :
  In (p, c) (inflight1_of sends alive l) <->
  Corr_client.n_mem p alive = true /\
  ((exists f, In (p, c, f) sends) \/ (In (p, c) l /\ forall c' f, ~ In (p, c', f) sends)).
Proof.
  unfold inflight1_of. rewrite filter_In, in_app_iff, in_map_iff, filter_In. cbn [fst].
  rewrite Bool.negb_true_iff, no_send_existsb. split.
  - intros [[H | H] Ha]; (split; [exact Ha|]).
    + left. destruct H as ([[p' c'] f] & [= -> ->] & Hin). eauto.
    + right. exact H.
  - intros [Ha [(f & Hin) | H]]; (split; [|exact Ha]).
    + left. exists (p, c, f). split; [reflexivity | exact Hin].
    + right. exact H.
Qed.

Lemma in_cfaults0 o p c l : In (p, c) (cfaults0_of o l) -> In (p, c) l /\ forall r, o <> CReport p c r.
Proof.
  destruct o; cbn [cfaults0_of]; try (intros H; split; [exact H | intros r0; discriminate]).
  intros H. apply pc_remove_In in H. destruct H as [H1 H2]. split; [exact H1|]. intros r0 [= -> ->]. apply H2. reflexivity.
Qed.

Lemma in_inflight0 o p c l : In (p, c) (inflight0_of o l) -> In (p, c) l /\ forall r, o <> CReport p c r.
Proof.
  destruct o; cbn [inflight0_of]; try (intros H; split; [exact H | intros r0; discriminate]).
  - intros H. apply pc_remove_In in H. destruct H as [H1 H2]. split; [exact H1|]. intros r0; discriminate.
  - intros H. apply pc_remove_In in H. destruct H as [H1 H2]. split; [exact H1|]. intros r0 [= -> ->]. apply H2. reflexivity.
Qed.

Lemma in_closed_unacked o p c l : In (p, c) (closed_unacked_of o l) -> o = CConnClosed p c /\ In (p, c) l.
Proof.
  destruct o; cbn [closed_unacked_of]; try (intros []; fail).
  destruct (existsb (pc_eqb (p0, c0)) l) eqn:E; [|intros []]. intros [[= -> ->] | []]. split; [reflexivity|].
  apply existsb_exists in E. destruct E as (y & Hin & E). apply pc_eqb_spec in E. subst y. exact Hin.
Qed.

(* ---------- one non-poll operation and the sending state of a peer ---------- *)
Lemma nonpoll_ss s o p ps :
  al_find N.eqb p (cs_peers s) = Some ps -> (forall ch, o <> CPoll ch) ->
  (exists ps', al_find N.eqb p (cs_peers (fst (cstep s o))) = Some ps' /\ p_ss ps' = p_ss ps) \/
  (exists c r, o = CReport p c r /\ sending_conn (p_ss ps) = Some c /\
               exists ps', al_find N.eqb p (cs_peers (fst (cstep s o))) = Some ps' /\
                           p_ss ps' = state_of_report (cs_now s) r) \/
  al_find N.eqb p (cs_peers (fst (cstep s o))) = None.
Proof.
  intros Hf Hnp. destruct o; cbn [cstep fst].
  - left. unfold c_new_conn. rewrite (al_mem_find _ Neqb_spec).
    destruct (al_find N.eqb p0 (cs_peers s)) eqn:E0; cbn [set_peers cs_peers].
    + rewrite (al_find_modify _ Neqb_spec). destruct (p0 =? p); rewrite Hf; cbn; eauto.
    + exists ps. split; [|reflexivity]. revert Hf E0. generalize (add_conn c new_peer_state). generalize (cs_peers s).
      induction l as [|[k v] l IH]; intros x Hf E0; cbn [al_find peers_ins] in *; [discriminate|].
      destruct (p0 <? k) eqn:Elt.
      * cbn [al_find]. destruct (p =? p0) eqn:Epp; [|exact Hf]. apply N.eqb_eq in Epp. subst p0.
        destruct (p =? k); [discriminate|]. rewrite E0 in Hf. discriminate.
      * cbn [al_find]. destruct (p =? k); [exact Hf|]. destruct (p0 =? k); [discriminate|]. apply IH; assumption.
  - unfold c_conn_closed. destruct (al_find N.eqb p0 (cs_peers s)) as [ps0|] eqn:E0; [|left; eauto].
    destruct (p_conns (remove_conn c ps0)) eqn:Ec; cbn [set_peers cs_peers].
    + rewrite (al_find_remove _ Neqb_spec). destruct (p0 =? p) eqn:Epp; [|left; eauto].
      right; right. reflexivity.
    + left. rewrite (al_find_modify _ Neqb_spec). destruct (p0 =? p); rewrite Hf; cbn; eauto.
  - left. unfold c_get. destruct c; cbn; eauto.
  - left. rewrite c_cancel_unfold. cbv zeta. destruct (cancel_abort_frame s q) as (_ & _ & _ & _ & E5 & _).
    destruct (find_query q (cs_c2q (cancel_abort s q))) as [[c1 qs]|]; [destruct (swap_remove_q q qs)|];
      cbn [set_wl set_c2q cs_peers]; rewrite E5; eauto.
  - left. unfold c_incoming. destruct (al_find N.eqb p0 (cs_peers s)); [|eauto].
    match goal with |- context [ia_panic ?a] => destruct (ia_panic a); [|destruct (ia_new a)] end;
      cbn [fst push_task cs_peers]; rewrite (al_find_modify _ Neqb_spec); destruct (p0 =? p); rewrite Hf; cbn; eauto.
  - cbn [c_report set_peers cs_peers]. rewrite (al_find_modify _ Neqb_spec).
    destruct (p0 =? p) eqn:Epp; [|left; eauto]. apply N.eqb_eq in Epp. subst p0. rewrite Hf. cbn [option_map].
    unfold report_accepted. destruct (sending_conn (p_ss ps)) as [c'|] eqn:Hsc; [|left; eauto].
    destruct (c' =? c) eqn:Ecc; [|left; eauto].
    apply N.eqb_eq in Ecc. subst c'. right; left. exists c, r. split; [reflexivity|]. split; [reflexivity|]. eauto.
  - left. unfold c_release. destruct (find (call_is call) (cs_tasks s)) as [[tid t]|]; cbn; eauto.
  - left. cbn. eauto.
  - exfalso. eapply Hnp. reflexivity.
  - left. cbn. eauto.
Qed.

Lemma nonpoll_no_sends s o : (forall ch, o <> CPoll ch) -> sends_of (snd (cstep s o)) = [].
Proof.
  intros Hnp. destruct o; cbn [cstep snd]; try reflexivity.
  - unfold c_get. destruct c; reflexivity.
  - unfold c_incoming. destruct (al_find N.eqb p (cs_peers s)); [|reflexivity].
    match goal with |- context [ia_panic ?a] => destruct (ia_panic a); [|destruct (ia_new a)] end; reflexivity.
  - exfalso. eapply Hnp. reflexivity.
Qed.

Lemma cstep_now sdh pre o : cs_now (st_after sdh (pre ++ [o])) = now_of (cs_now (st_after sdh pre)) o.
Proof.
  rewrite st_after_snoc.
  assert (H : (forall ch, o <> CPoll ch) -> cs_now (fst (cstep (st_after sdh pre) o)) = now_of (cs_now (st_after sdh pre)) o).
  { intros Hnp. rewrite (proj2 (C05_timer_frame _ _ Hnp)). destruct o; cbn [now_of]; lia. }
  destruct o as [p c|p c|oc|q|p pres bl|p c r|call r|ms|choice|]; try (apply H; intros ch; discriminate).
  cbn [cstep now_of]. destruct (c_poll_summary (st_after sdh pre) choice) as (l1 & w & outsC & Hsum).
  apply (ps_now _ _ _ _ _ Hsum).
Qed.

(* ---------- the ghost lists against the state ---------- *)
(* recorded failure *)
Definition FL (s : cstate) (l : list (peer * conn)) : Prop :=
  forall p c, In (p, c) l -> exists ps, al_find N.eqb p (cs_peers s) = Some ps /\ p_ss ps = SsFailed c.
(* a request is outstanding on that connection *)
Definition RQ (s : cstate) (l : list (peer * conn)) : Prop :=
  forall p c, In (p, c) l -> exists ps t, al_find N.eqb p (cs_peers s) = Some ps /\ p_ss ps = SsRequested t c.
(* a fault the next poll acts on *)
Definition hard (s : cstate) (ps : peer_state) (c : conn) : Prop :=
  p_ss ps = SsFailed c \/ exists t, p_ss ps = SsRequested t c /\ (cs_now s - t <? RECEIVE_REQUEST_TIMEOUT) = false.
Definition FT (s : cstate) (l : list (peer * conn)) : Prop :=
  forall p c, In (p, c) l -> exists ps, al_find N.eqb p (cs_peers s) = Some ps /\ hard s ps c.

Lemma FL_FT s l : FL s l -> FT s l.
Proof. intros H p c Hin. destruct (H p c Hin) as (ps & Hf & Hs). exists ps. split; [exact Hf | left; exact Hs]. Qed.

Lemma FT_app s a b : FT s a -> FT s b -> FT s (a ++ b).
Proof. intros Ha Hb p c Hin. apply in_app_iff in Hin. destruct Hin; [apply Ha | apply Hb]; assumption. Qed.

Lemma faults_of_poll_FT s ch : FT s (faults_of (csnap_of s) (cs_now s) (CPoll ch)).
Proof.
  intros p c Hin. cbn [faults_of] in Hin. apply in_flat_map in Hin. destruct Hin as (p' & _ & Hin).
  rewrite snap_ss_of in Hin. destruct (al_find N.eqb p' (cs_peers s)) as [ps|] eqn:Ef; cbn [option_map] in Hin; [|destruct Hin].
  destruct (p_ss ps) as [|t c0|t c0|t c0|c0] eqn:Ess; try (destruct Hin; fail).
  - destruct (RECEIVE_REQUEST_TIMEOUT <=? cs_now s - t) eqn:Et; [|destruct Hin]. destruct Hin as [[= -> ->] | []].
    exists ps. split; [exact Ef|]. right. exists t. split; [exact Ess|]. lia.
  - destruct Hin as [[= -> ->] | []]. exists ps. split; [exact Ef|]. left. exact Ess.
Qed.
