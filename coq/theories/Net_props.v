(* Net_props.v — C02 (package F): end-to-end completion between beetswap nodes.  Statements restated from
   Net_proofs10.v and closed by `exact`; non-vacuity examples by vm_compute. *)
From BS Require Import Net Net_proofs Net_proofs2 Net_proofs5 Net_proofs7 Net_proofs9 Net_proofs10 Net_proofs11 Net_proofs12 Net_proofs13 Server_inv.
From Coq Require Import ZArith Lia.
Open Scope N_scope.

(* C02_direct.  Sz = MAX_MULTIHASH_SIZE (>= 32, so that CIDv0 can be parsed), Hh = the multihasher table, both
   the same at every node.  For every net reached from `net_init n` by ANY list of steps `ops` — provided the
   application only puts blocks whose data hashes to their CID into a store (`nop_good`) and only asks for
   well-formed CIDs (`nop_wf`: they are CidGeneric values) —, every node i with a live query q for c (q is
   listed in cid_to_queries under c: issued, missed locally, not cancelled, not answered), every node j
   connected to i whose store holds c:  after one fair round `settle` and one refresh (30 s on the clock, then
   `settle` again) the events contain GetQueryResponse for q at i.
   Fairness is built into `settle` (every node is polled, every outstanding store call completed, every message
   in flight delivered, again and again); that its explicit fuel sufficed is a hypothesis, checked on the result:
   `quietb` of both settled states.  The 1024-entry cap of the server (C13) is the last hypothesis: node i wants
   at most 1024 CIDs at the first settled state. *)
Theorem C02_direct (Sz : N) (Hh : hash_fn) (HSz : 32 <= Sz) (i j : N) (q : qid) (c : cid) n ops :
  Forall (nop_good Sz Hh) ops -> Forall (nop_wf Sz) ops ->
  let s := fst (nrun Sz Hh (net_init n) ops) in
  live_query i q c s -> Net.connected s i j = true ->
  (exists st d, store_of s j = Some st /\ store_get st c = SHit d) ->
  let r1 := settle Sz Hh s in
  let r2 := refresh Sz Hh (fst r1) in
  quietb (fst r1) = true -> quietb (fst r2) = true -> (length (wl_i i (fst r1)) <= 1024)%nat ->
  answered i q (snd r1 ++ snd r2).
Proof. exact (Net_proofs10.C02_direct Sz Hh HSz i j q c n ops). Qed.

(* the invariant of reachable nets behind it *)
Theorem C02_reachable_ok (Sz : N) (Hh : hash_fn) (HSz : 32 <= Sz) n ops :
  Forall (nop_good Sz Hh) ops -> Forall (nop_wf Sz) ops ->
  net_ok Sz Hh (fst (nrun Sz Hh (net_init n) ops)) /\ net_wf Sz (fst (nrun Sz Hh (net_init n) ops)).
Proof. intros Hg Hw. apply (run_both Sz Hh HSz); [exact Hg | exact Hw | apply net_ok_init; exact HSz | apply net_wf_init]. Qed.

(* non-vacuity: the F15 scenario of Net_proofs.v written as steps — A asks B, the want misses, the application
   puts the block into B's store; all hypotheses hold and the conclusion is the event observed there *)
Definition ex_ops : list nop := [NConnect 0 1; NGet 0 c1; NPoll 0; NStore 0 0; NPoll 0; NPut 1 c1 d1].

Lemma c1_wf : wf_cid SZ c1.
Proof.
  unfold wf_cid, wf_mh. cbn [c1 cid_of c_codec c_hash c_ver mh_code mh_digest].
  repeat split. all: try (vm_compute; first [reflexivity | discriminate]). apply wf_bytesb_spec. vm_compute. reflexivity.
Qed.

Example C02_direct_nonvacuous :
  let s := fst (nrun SZ toyH (net_init 2) ex_ops) in
  Forall (nop_good SZ toyH) ex_ops /\ Forall (nop_wf SZ) ex_ops /\
  live_query 0 0 c1 s /\ Net.connected s 0 1 = true /\
  (exists st d, store_of s 1 = Some st /\ store_get st c1 = SHit d) /\
  quietb (fst (settle SZ toyH s)) = true /\ quietb (fst (refresh SZ toyH (fst (settle SZ toyH s)))) = true /\
  (length (wl_i 0 (fst (settle SZ toyH s))) <= 1024)%nat /\
  snd (settle SZ toyH s) ++ snd (refresh SZ toyH (fst (settle SZ toyH s))) = [EResponse 0 0 d1].
Proof.
  cbn zeta. split; [|split; [|split; [|split; [|split; [|split; [|split; [|split]]]]]]].
  - unfold ex_ops. do 5 (constructor; [exact I|]). constructor; [|constructor]. cbn [nop_good]. split; [apply c1_wf | vm_compute; reflexivity].
  - unfold ex_ops. constructor; [exact I|]. constructor; [apply c1_wf|]. do 4 (constructor; [exact I|]). constructor.
  - eexists _, _. split; [vm_compute; reflexivity|]. split; [left; reflexivity | left; reflexivity].
  - vm_compute. reflexivity.
  - eexists _, _. split; vm_compute; reflexivity.
  - vm_compute. reflexivity.
  - vm_compute. reflexivity.
  - vm_compute. lia.
  - vm_compute. reflexivity.
Qed.

(* C02_multi_hop.  Chain i - j - k: only k's store holds c, i and j both have live queries for c.  j is answered by k
   within `settle` + one refresh (C02_direct for the pair j, k), stores the block it accepted (put task -> store call
   -> store: nothing evicts during fair rounds), and is then "a connected node that holds the block" for i:
   at the latest the second refresh answers i.  Hypotheses as in C02_direct, for both hops. *)
Theorem C02_multi_hop (Sz : N) (Hh : hash_fn) (HSz : 32 <= Sz) (i j k : N) (qi qj : qid) (c : cid) n ops :
  Forall (nop_good Sz Hh) ops -> Forall (nop_wf Sz) ops ->
  let s := fst (nrun Sz Hh (net_init n) ops) in
  live_query i qi c s -> live_query j qj c s ->
  Net.connected s i j = true -> Net.connected s j k = true ->
  (exists st d, store_of s k = Some st /\ store_get st c = SHit d) ->
  let r1 := settle Sz Hh s in
  let r2 := refresh Sz Hh (fst r1) in
  let r3 := refresh Sz Hh (fst r2) in
  quietb (fst r1) = true -> quietb (fst r2) = true -> quietb (fst r3) = true ->
  (length (wl_i j (fst r1)) <= 1024)%nat -> (length (wl_i i (fst r2)) <= 1024)%nat ->
  answered i qi (snd r1 ++ snd r2 ++ snd r3).
Proof. exact (Net_proofs12.C02_multi_hop Sz Hh HSz i j k qi qj c n ops). Qed.

Definition ex_hop_ops : list nop :=
  [NConnect 0 1; NConnect 1 2; NGet 0 c1; NPoll 0; NStore 0 0; NPoll 0; NGet 1 c1; NPoll 1; NStore 1 0; NPoll 1; NPut 2 c1 d1].

Example C02_multi_hop_nonvacuous :
  let s := fst (nrun SZ toyH (net_init 3) ex_hop_ops) in
  let r1 := settle SZ toyH s in let r2 := refresh SZ toyH (fst r1) in let r3 := refresh SZ toyH (fst r2) in
  Forall (nop_good SZ toyH) ex_hop_ops /\ Forall (nop_wf SZ) ex_hop_ops /\
  live_query 0 0 c1 s /\ live_query 1 0 c1 s /\ Net.connected s 0 1 = true /\ Net.connected s 1 2 = true /\
  (exists st d, store_of s 2 = Some st /\ store_get st c1 = SHit d) /\
  quietb (fst r1) = true /\ quietb (fst r2) = true /\ quietb (fst r3) = true /\
  (length (wl_i 1 (fst r1)) <= 1024)%nat /\ (length (wl_i 0 (fst r2)) <= 1024)%nat /\
  snd r1 ++ snd r2 ++ snd r3 = [EResponse 1 0 d1; EResponse 0 0 d1].
Proof.
  cbn zeta. repeat match goal with |- _ /\ _ => split end.
  - unfold ex_hop_ops. do 10 (constructor; [exact I|]). constructor; [|constructor]. cbn [nop_good]. split; [apply c1_wf | vm_compute; reflexivity].
  - unfold ex_hop_ops. do 2 (constructor; [exact I|]). constructor; [apply c1_wf|]. do 3 (constructor; [exact I|]).
    constructor; [apply c1_wf|]. do 4 (constructor; [exact I|]). constructor.
  - eexists _, _. split; [vm_compute; reflexivity|]. split; [left; reflexivity | left; reflexivity].
  - eexists _, _. split; [vm_compute; reflexivity|]. split; [left; reflexivity | left; reflexivity].
  - vm_compute. reflexivity.
  - vm_compute. reflexivity.
  - eexists _, _. split; vm_compute; reflexivity.
  - vm_compute. reflexivity.
  - vm_compute. reflexivity.
  - vm_compute. reflexivity.
  - vm_compute. lia.
  - vm_compute. lia.
  - vm_compute. reflexivity.
Qed.

(* C14, the half of `records agree` that the refresh guarantees (completeness): at the settled state after a refresh,
   every CID node i still wants is in the want set that every connected server j keeps for i, and i is in j's waiter
   list of that CID (Srv_inv's link).  So a block that reaches j afterwards is dispatched to i without further
   messages.  NOT proved: the converse inclusion (no stale want of i at j at a quiet state); see the report. *)
Theorem C14_records_agree_partial (Sz : N) (Hh : hash_fn) (HSz : 32 <= Sz) (i j : N) n ops :
  Forall (nop_good Sz Hh) ops -> Forall (nop_wf Sz) ops ->
  let s := fst (nrun Sz Hh (net_init n) ops) in
  Net.connected s i j = true ->
  let r1 := settle Sz Hh s in
  let r2 := refresh Sz Hh (fst r1) in
  quietb (fst r1) = true -> quietb (fst r2) = true -> (length (wl_i i (fst r1)) <= 1024)%nat ->
  forall c, In c (wl_i i (fst r2)) ->
    exists st, server_of (fst r2) j = Some st /\ wantsP (s_wants st) i c /\ waitsP (s_waiting st) i c.
Proof. exact (Net_proofs13.C14_records_agree_partial Sz Hh HSz i j n ops). Qed.

Definition ex_rec_ops : list nop := [NConnect 0 1; NGet 0 c1; NPoll 0; NStore 0 0; NPoll 0].

Example C14_records_nonvacuous :
  let s := fst (nrun SZ toyH (net_init 2) ex_rec_ops) in
  let r1 := settle SZ toyH s in let r2 := refresh SZ toyH (fst r1) in
  Forall (nop_good SZ toyH) ex_rec_ops /\ Forall (nop_wf SZ) ex_rec_ops /\ Net.connected s 0 1 = true /\
  quietb (fst r1) = true /\ quietb (fst r2) = true /\ (length (wl_i 0 (fst r1)) <= 1024)%nat /\
  wl_i 0 (fst r2) = [c1] /\ option_map s_wants (server_of (fst r2) 1) = Some [(0, [c1])].
Proof.
  cbn zeta. repeat match goal with |- _ /\ _ => split end.
  - unfold ex_rec_ops. do 5 (constructor; [exact I|]). constructor.
  - unfold ex_rec_ops. constructor; [exact I|]. constructor; [apply c1_wf|]. do 3 (constructor; [exact I|]). constructor.
  - vm_compute. reflexivity.
  - vm_compute. reflexivity.
  - vm_compute. reflexivity.
  - vm_compute. lia.
  - vm_compute. reflexivity.
  - vm_compute. reflexivity.
Qed.

(* FINDING (composition level): the converse inclusion fails at settled states that no refresh precedes.  A asks B for c,
   cancels, asks again; B's block (sent for the first want) and A's second WANT cross: A accepts the block, its record
   of B becomes GotBlock, c leaves the wantlist — and a GotBlock record never produces a CANCEL.  B evicted c meanwhile,
   so the second want misses and stays registered: the net is quiet, A wants nothing, B's want set for A holds c.
   Should B obtain c within the next 30 s it sends A a block A does not want.  The next full wantlist clears it. *)
Definition stale_ops : list nop :=
  [NPut 1 c1 d1; NConnect 0 1; NGet 0 c1; NPoll 0; NStore 0 0; NDeliverW 0 1; NPoll 0; NDeliverW 0 1;
   NCancel 0 0; NPoll 0; NPoll 1; NStore 1 0; NPoll 1; NDeliverW 0 1;
   NGet 0 c1; NPoll 0; NStore 0 0; NPoll 0; NDeliverB 1 0; NEvict 1 c1; NDeliverW 0 1].

Theorem C14_records_sound_refuted :
  exists n ops i j c,
    Forall (nop_good SZ toyH) ops /\ Forall (nop_wf SZ) ops /\
    let s1 := fst (settle SZ toyH (fst (nrun SZ toyH (net_init n) ops))) in
    let s2 := fst (refresh SZ toyH s1) in
    quietb s1 = true /\ Net.connected s1 i j = true /\ ~ In c (wl_i i s1) /\
    option_map (fun st => alookup N.eqb i (s_wants st)) (server_of s1 j) = Some (Some [c]) /\
    quietb s2 = true /\ option_map (fun st => alookup N.eqb i (s_wants st)) (server_of s2 j) = Some (Some []).
Proof.
  exists 2%nat, stale_ops, 0, 1, c1. split; [|split].
  - unfold stale_ops. constructor; [split; [apply c1_wf | vm_compute; reflexivity]|]. do 20 (constructor; [exact I|]). constructor.
  - unfold stale_ops. do 2 (constructor; [exact I|]). constructor; [apply c1_wf|]. do 11 (constructor; [exact I|]).
    constructor; [apply c1_wf|]. do 6 (constructor; [exact I|]). constructor.
  - cbn zeta. repeat match goal with |- _ /\ _ => split end; try (vm_compute; reflexivity). vm_compute. intros [].
Qed.

Print Assumptions C02_direct.
Print Assumptions C02_reachable_ok.
Print Assumptions C02_direct_nonvacuous.
Print Assumptions C02_multi_hop.
Print Assumptions C02_multi_hop_nonvacuous.
Print Assumptions C14_records_agree_partial.
Print Assumptions C14_records_nonvacuous.
Print Assumptions C14_records_sound_refuted.
