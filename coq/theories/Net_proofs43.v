(* Net_proofs43.v — package K: C05 (first wantlist of a session is full) and C13 (client state per peer / per query is
   released) at the network level, by instantiating Client_proofs4.C05_first_is_full, C13_client_peer_released,
   Client_proofs7.C13_peers_bounded, Client_proofs5.C13_query_released and Client_proofs.run_accounting through the ghosts of
   Net_proofs40 (client operations) and Net_proofs42 (connections, wire). *)
From BS Require Import Wantlist_proofs Client_proofs Client_proofs2 Client_proofs3 Client_proofs4 Client_proofs5 Client_proofs6
  Client_proofs7 Net Net_proofs2 Net_proofs3 Net_proofs5 Net_proofs6 Net_proofs9 Net_proofs10 Net_proofs40 Net_proofs41 Net_proofs42.
From Coq Require Import ZArith ZifyBool ZifyN ZifyNat Lia.
Open Scope N_scope.

(* ---------- client level: the first wantlist after a new peer entry is full, over ANY continuation ---------- *)
Lemma send_only_from_poll c o p cn f es : In (OSendWantlist p cn f es) (snd (cstep c o)) -> exists ch, o = CPoll ch.
Proof.
  intros H. destruct o; try (exfalso; apply cl_wants_In in H; rewrite poll_free_wants in H by exact I; destruct H). eauto.
Qed.

Lemma first_send_full sdh ops1 p c L : forall pre cn f es post,
  al_find N.eqb p (cs_peers (st_after sdh ops1)) = None ->
  cl_outs (st_after sdh (ops1 ++ [CNewConn p c])) L = pre ++ OSendWantlist p cn f es :: post ->
  no_send_to p pre -> f = true.
Proof.
  induction L as [|o L IH] using rev_ind; intros pre cn f es post Hnone Heq Hns.
  - rewrite cl_outs_nil in Heq. destruct pre; discriminate.
  - rewrite cl_outs_app, cl_outs_one in Heq.
    set (A := cl_outs (st_after sdh (ops1 ++ [CNewConn p c])) L) in *.
    set (B := snd (cstep (cl_tr (st_after sdh (ops1 ++ [CNewConn p c])) L) o)) in *.
    (* the send is among the outputs of the last operation, nothing for p before them *)
    assert (Hlast : no_send_to p A -> In (OSendWantlist p cn f es) B -> f = true).
    { intros HnsA Hin. unfold B in Hin. destruct (send_only_from_poll _ _ _ _ _ _ Hin) as (ch & ->).
      rewrite st_after_cl, <- cl_tr_app, <- st_after_cl, <- app_assoc in Hin. cbn [cstep] in Hin.
      apply (C05_first_is_full sdh ops1 p c L ch cn f es Hnone); [|exact Hin].
      rewrite (app_assoc ops1 [CNewConn p c] L), (outs_after_cl sdh ((ops1 ++ [CNewConn p c]) ++ L)), cl_outs_app, <- outs_after_cl, <- st_after_cl.
      rewrite skipn_app, skipn_all, Nat.sub_diag. cbn [skipn app]. exact HnsA. }
    symmetry in Heq. apply app_eq_app in Heq. destruct Heq as (l & [[E1 E2] | [E1 E2]]).
    + apply Hlast.
      * intros c2 f2 es2 H2. apply (Hns c2 f2 es2). rewrite E1. apply in_app_iff. left. exact H2.
      * rewrite E2. apply in_app_iff. right. left. reflexivity.
    + destruct l as [|x l].
      * rewrite app_nil_r in E1. cbn [app] in E2. apply Hlast; [rewrite E1; exact Hns | rewrite <- E2; left; reflexivity].
      * cbn [app] in E2. injection E2 as <- E2. apply (IH pre cn f es l Hnone E1 Hns).
Qed.

(* the first element of a filtered, mapped list of outputs *)
Lemma first_to_peer i j outs : forall m rest,
  filter (fun m => wm_dst m =? j) (map (w_of i) (cl_wants outs)) = m :: rest ->
  exists pre cn f es post, outs = pre ++ OSendWantlist j cn f es :: post /\ no_send_to j pre /\ m = MkW i j f es.
Proof.
  induction outs as [|o outs IH]; intros m rest H; [discriminate|].
  assert (Hskip : cl_wants (o :: outs) = cl_wants outs -> (forall c f es, o <> OSendWantlist j c f es) ->
                  exists pre cn f es post, o :: outs = pre ++ OSendWantlist j cn f es :: post /\ no_send_to j pre /\ m = MkW i j f es).
  { intros E Hne. rewrite E in H. destruct (IH _ _ H) as (pre & cn & f & es & post & -> & Hns & ->).
    exists (o :: pre), cn, f, es, post. split; [reflexivity|]. split; [|reflexivity].
    intros c2 f2 es2 [H2|H2]; [apply (Hne c2 f2 es2); exact H2 | apply (Hns c2 f2 es2); exact H2]. }
  destruct o; try (apply Hskip; [reflexivity | discriminate]).
  cbn [cl_wants map filter w_of x_peer fst snd wm_dst] in H. destruct (p =? j) eqn:E.
  - apply N.eqb_eq in E. subst p. injection H as <- _. exists [], c, full, entries, outs. split; [reflexivity|]. split; [intros c2 f2 es2 []|reflexivity].
  - destruct (IH _ _ H) as (pre & cn & f & es & post & -> & Hns & ->).
    exists (OSendWantlist p c full entries :: pre), cn, f, es, post. split; [reflexivity|]. split; [|reflexivity].
    intros c2 f2 es2 [H2|H2]; [injection H2 as -> _ _ _; rewrite N.eqb_refl in E; discriminate | apply (Hns c2 f2 es2); exact H2].
Qed.

Section Lifts.
  Variables (Sz : N) (Hh : hash_fn).
  Local Notation cops_run := (cops_run Sz Hh).
  Local Notation wsent_run := (wsent_run Sz Hh).

  (* ---------- C13: the client's peer table is the connection table of the net ---------- *)
  Theorem C13_net_client_released n ops i j ni :
    get_node (fst (nrun Sz Hh (net_init n) ops)) i = Some ni ->
    Net.connected (fst (nrun Sz Hh (net_init n) ops)) i j = false ->
    al_find N.eqb j (cs_peers (n_client ni)) = None.
  Proof.
    intros Hni Hc. rewrite (net_client_ghost Sz Hh n ops i ni Hni). apply C13_client_peer_released.
    rewrite (conns_tracked Sz Hh n ops i j), Hc. reflexivity.
  Qed.

  Theorem C13_net_peers_connected n ops i j ni ps :
    get_node (fst (nrun Sz Hh (net_init n) ops)) i = Some ni ->
    In (j, ps) (cs_peers (n_client ni)) ->
    Net.connected (fst (nrun Sz Hh (net_init n) ops)) i j = true /\ p_conns ps = [CONN].
  Proof.
    intros Hni Hin. rewrite (net_client_ghost Sz Hh n ops i ni Hni) in Hin.
    destruct (C13_peers_bounded true (cops_run (net_init n) ops i)) as (_ & H & _).
    destruct (H j ps Hin) as (Hne & Hnd & Hincl & _). rewrite (conns_tracked Sz Hh n ops i j) in Hincl.
    destruct (Net.connected (fst (nrun Sz Hh (net_init n) ops)) i j).
    - split; [reflexivity|]. destruct (p_conns ps) as [|c l]; [congruence|].
      assert (c = CONN) by (destruct (Hincl c (or_introl eq_refl)) as [<-|[]]; reflexivity). subst c.
      destruct l as [|c' l]; [reflexivity|]. exfalso.
      assert (c' = CONN) by (destruct (Hincl c' (or_intror (or_introl eq_refl))) as [<-|[]]; reflexivity). subst c'.
      inversion Hnd as [|? ? Hn _]. apply Hn. left. reflexivity.
    - destruct (p_conns ps) as [|c l]; [congruence|]. destruct (Hincl c (or_introl eq_refl)).
  Qed.

  (* ---------- C13: query bookkeeping ---------- *)
  Lemma cnt_pos_In x l : In x l -> (1 <= cnt x l)%nat.
  Proof. intros H. apply (count_occ_In N.eq_dec) in H. unfold cnt. lia. Qed.

  Lemma cnt_zero_notin x l : cnt x l = 0%nat -> ~ In x l.
  Proof. intros H Hin. apply cnt_pos_In in Hin. lia. Qed.

  (* once node i has emitted the event of query q, its client holds nothing about q *)
  Theorem C13_net_query_released n ops i q ni :
    get_node (fst (nrun Sz Hh (net_init n) ops)) i = Some ni ->
    In (i, q) (ev_keys (snd (nrun Sz Hh (net_init n) ops))) ->
    ~ In q (task_qids (cs_tasks (n_client ni))) /\ ~ In q (c2q_qids (cs_c2q (n_client ni))) /\
    ~ In q (queue_qids (cs_queue (n_client ni))) /\ ~ In q (map fst (cs_abort (n_client ni))).
  Proof.
    intros Hni Hev. destruct (node_exists_back Sz Hh _ _ _ _ Hni) as (n0 & Hn0).
    assert (Hi : (N.to_nat i < n)%nat) by (apply get_node_lt in Hn0; cbn [nodes net_init] in Hn0; rewrite repeat_length in Hn0; exact Hn0).
    apply ev_keys_node in Hev. rewrite (net_client_events Sz Hh n ops i Hi), out_qids_out_evs in Hev.
    rewrite (net_client_ghost Sz Hh n ops i ni Hni).
    pose proof (run_accounting true (cops_run (net_init n) ops i) q) as Hacc.
    apply cnt_pos_In in Hev. unfold outs_after in Hev. unfold live in Hacc. fold (st_after true (cops_run (net_init n) ops i)) in Hacc.
    assert (Hle : ((if (q <? count_gets (cops_run (net_init n) ops i))%N then 1 else 0) <= 1)%nat) by (destruct (q <? _)%N; lia).
    assert (H1 : ~ In q (task_qids (cs_tasks (st_after true (cops_run (net_init n) ops i))))) by (apply cnt_zero_notin; lia).
    split; [exact H1|]. split; [apply cnt_zero_notin; lia|]. split; [apply cnt_zero_notin; lia|].
    intros Hab. apply in_map_iff in Hab. destruct Hab as ([q' tid] & Eq & Hab). cbn [fst] in Eq. subst q'.
    destruct (C13_query_released true (cops_run (net_init n) ops i)) as (Habort & _).
    apply Habort in Hab. destruct Hab as (c & t & Hin & Hk & _). apply H1. unfold task_qids. apply in_flat_map. exists (tid, t). split; [exact Hin|].
    unfold task_qid. cbn [snd]. rewrite Hk. left. reflexivity.
  Qed.

  (* conversely, a query the client still waits for (it is in cid_to_queries) was issued by an NGet of that node and has
     had no event *)
  Theorem C13_net_live_query_unanswered n ops i q ni :
    get_node (fst (nrun Sz Hh (net_init n) ops)) i = Some ni ->
    In q (c2q_qids (cs_c2q (n_client ni))) ->
    q < count_ngets i ops /\ ~ In (i, q) (ev_keys (snd (nrun Sz Hh (net_init n) ops))).
  Proof.
    intros Hni Hq. destruct (node_exists_back Sz Hh _ _ _ _ Hni) as (n0 & Hn0).
    assert (Hi : (N.to_nat i < n)%nat) by (apply get_node_lt in Hn0; cbn [nodes net_init] in Hn0; rewrite repeat_length in Hn0; exact Hn0).
    rewrite (net_client_ghost Sz Hh n ops i ni Hni) in Hq.
    destruct (C13_query_released true (cops_run (net_init n) ops i)) as (_ & _ & _ & _ & _ & _ & _ & H).
    destruct (H q Hq) as (Hlt & Hno & _). rewrite count_gets_cops in Hlt. split; [exact Hlt|].
    intros Hev. apply Hno. apply ev_keys_node in Hev. rewrite (net_client_events Sz Hh n ops i Hi), out_qids_out_evs in Hev. exact Hev.
  Qed.

  (* ---------- C05: the first wantlist a node sends on a new connection is a full one ---------- *)
  Theorem C05_net_first_is_full n ops1 a b ops2 i j m rest :
    let s1 := fst (nrun Sz Hh (net_init n) ops1) in
    let s2 := fst (nstep Sz Hh s1 (NConnect a b)) in
    (i = a /\ j = b \/ i = b /\ j = a) ->
    Net.connected s1 a b = false -> Net.connected s2 a b = true ->       (* the NConnect establishes the connection *)
    filter (fun m => wm_dst m =? j) (wsent_run s2 ops2 i) = m :: rest ->
    wm_full m = true.
  Proof.
    intros s1 s2 Hij Hc1 Hc2 Hf.
    (* the connect acts: both nodes exist and a <> b *)
    assert (Hact : exists na nb, get_node s1 a = Some na /\ get_node s1 b = Some nb /\ a <> b).
    { unfold s2 in Hc2. cbn [nstep fst] in Hc2. unfold do_connect in Hc2.
      destruct (get_node s1 a) as [na|]; [|congruence]. destruct (get_node s1 b) as [nb|]; [|congruence].
      destruct (a =? b) eqn:E; [cbn [orb] in Hc2; congruence|]. apply N.eqb_neq in E. eauto. }
    destruct Hact as (na & nb & Ea & Eb & Hab).
    assert (Es2 : s2 = fst (nrun Sz Hh (net_init n) (ops1 ++ [NConnect a b]))) by (rewrite (nrun_app Sz Hh); reflexivity).
    assert (Hcl : cl_ops Sz Hh s1 (NConnect a b) i = [CNewConn j CONN]).
    { cbn [cl_ops]. rewrite Ea, Eb, Hc1. replace (a =? b) with false by (symmetry; apply N.eqb_neq; exact Hab). cbn [orb].
      destruct Hij as [[-> ->]|[-> ->]]; [|rewrite N.eqb_refl; reflexivity].
      replace (a =? b) with false by (symmetry; apply N.eqb_neq; exact Hab). rewrite N.eqb_refl. reflexivity. }
    assert (Hi1 : exists ni1, get_node s1 i = Some ni1) by (destruct Hij as [[-> _]|[-> _]]; eauto).
    destruct Hi1 as (ni1 & Hi1).
    destruct (node_exists_fwd Sz Hh [NConnect a b] s1 i ni1 Hi1) as (ni2 & Hi2). cbn [nrun] in Hi2. fold s2 in Hi2.
    assert (Hi2' : get_node s2 i = Some ni2) by (destruct (nstep Sz Hh s1 (NConnect a b)); exact Hi2). clear Hi2.
    rewrite Es2 in Hf, Hi2'. rewrite (wsent_from_reachable Sz Hh n _ ops2 i ni2 Hi2') in Hf.
    destruct (first_to_peer i j _ _ _ Hf) as (pre & cn & f & es & post & Eouts & Hns & ->). cbn [wm_full].
    rewrite (net_client_ghost Sz Hh n _ i ni2 Hi2'), cops_run_app in Eouts. cbn [Net_proofs40.cops_run] in Eouts. fold s1 in Eouts.
    rewrite Hcl, app_nil_r in Eouts.
    eapply (first_send_full true (cops_run (net_init n) ops1 i) j CONN); [|exact Eouts | exact Hns].
    rewrite <- (net_client_ghost Sz Hh n ops1 i ni1 Hi1). apply (C13_net_client_released n ops1 i j ni1 Hi1).
    fold s1. destruct Hij as [[-> ->]|[-> ->]]; [exact Hc1 | rewrite connected_sym; exact Hc1].
  Qed.
End Lifts.
