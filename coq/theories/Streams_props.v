(* Streams_props.v — C16 at the level of streams and of the connection (also C10 / C09 lifted): the statements of
   Streams_proofs.v restated, concrete instances of their hypotheses, and their assumptions.

   Model: Streams.v (IncomingStream::poll_next = FramedRead::poll_next + process_message; ConnHandler's SelectAll
   driven by a schedule).  Result in one sentence: what the behaviour receives from inbound stream k is exactly what
   the polls given to k yield on k's own bytes — a frame that does not decode, a bad presence CID, a bad block
   prefix or a fatal hasher error on stream j ends j after the messages it had already yielded and changes nothing
   for k — PROVIDED no stream of the connection makes a poll panic or hang; a frame of the known class F2 does, and
   then every stream of the connection is lost with it (C16_streams_independent_refuted). *)
From BS Require Import Bytes Varint Varint_proofs Cid Prefix Hasher Proto Incoming Qp ProtoCodec RefProto Frame Framed
                       Codec Frame_proofs Framed_proofs ProtoCodec_proofs RefProto_proofs Codec_proofs
                       Prefix_proofs Incoming_proofs Streams Streams_proofs.
From Coq Require Import ZArith ZifyBool ZifyN ZifyNat Lia.
Open Scope N_scope.

(* ---------- 1. messages applied earlier stay applied ---------- *)

Check (C16_stream_prefix_stable : forall Sz Hh chk evs more,
  is_prefix (fst (stream_out Sz Hh chk evs)) (fst (stream_out Sz Hh chk (evs ++ more)))
  /\ (snd (stream_out Sz Hh chk evs) <> SfPending ->
      stream_out Sz Hh chk (evs ++ more) = stream_out Sz Hh chk evs)).

Check (stream_out_fuel : forall Sz Hh chk evs, snd (stream_out Sz Hh chk evs) <> SfFuel).

(* the stream-at-once view and the poll-by-poll view agree *)
Check (stream_polls_prefix : forall Sz Hh chk n evs,
  is_prefix (stream_polls Sz Hh chk n evs) (fst (stream_out Sz Hh chk evs))).
Check (stream_polls_enough : forall Sz Hh chk n evs,
  (stream_fuel [] evs <= n)%nat -> stream_polls Sz Hh chk n evs = fst (stream_out Sz Hh chk evs)).

(* process-as-you-go (the code) = decode everything, then process (engine `stream` of Corr_stream.v) *)
Check (stream_out_deliver : forall Sz Hh chk evs,
  stream_out Sz Hh chk evs =
  let (ms, fin) := codec_run_stream chk evs in deliver (process_message Sz Hh) ms fin).

(* C10 at stream level: the output does not depend on where the reads are cut / where the task is woken *)
Check (C10_stream_out_chunking : forall Sz Hh chk ms evs,
  Forall wf_message ms -> Forall (size_ok write_message) ms ->
  live evs -> ev_data evs = concat (map codec_encode ms) ->
  stream_out Sz Hh chk (evs ++ [Eof]) = deliver (process_message Sz Hh) ms FEnd).

(* a panic / hang of a stream can only come from a buffer of the known class F2 (given S >= 32 and a table that
   answers sha2-256 requests with sha2-256 digests); the buffer is a piece of what the peer sent on that stream *)
Check (stream_unsafe_only_F2 : forall Sz Hh chk evs,
  32 <= Sz -> sha_respecting Hh -> stream_safe Sz Hh chk evs = false ->
  exists pre buf post, ev_data evs = pre ++ buf ++ post /\ codec_overrun buf = true).

(* ---------- 2. streams are independent ---------- *)

Check (C16_streams_prefix : forall Sz Hh chk streams schedule k,
  is_prefix (of_stream k (conn_run Sz Hh chk streams schedule))
            (fst (stream_out Sz Hh chk (nth (N.to_nat k) streams [])))).

Check (C16_stream_of_conn : forall Sz Hh chk streams schedule k,
  forallb (stream_safe Sz Hh chk) streams = true ->
  of_stream k (conn_run Sz Hh chk streams schedule)
  = stream_polls Sz Hh chk (polls_of k schedule) (nth (N.to_nat k) streams [])
  /\ fst (snd (conn_run_full Sz Hh chk streams schedule)) = COk).

Check (C16_streams_complete : forall Sz Hh chk streams schedule k,
  forallb (stream_safe Sz Hh chk) streams = true ->
  polled_enough k (nth (N.to_nat k) streams []) schedule = true ->
  of_stream k (conn_run Sz Hh chk streams schedule) = fst (stream_out Sz Hh chk (nth (N.to_nat k) streams []))).

Check (C16_streams_independent : forall Sz Hh chk streams streams' schedule k,
  forallb (stream_safe Sz Hh chk) streams = true -> forallb (stream_safe Sz Hh chk) streams' = true ->
  nth (N.to_nat k) streams [] = nth (N.to_nat k) streams' [] ->
  of_stream k (conn_run Sz Hh chk streams schedule) = of_stream k (conn_run Sz Hh chk streams' schedule)).

(* without the no-panic hypothesis the statement is false: see C16_streams_independent_refuted below *)

(* ---------- 3. a bad frame costs only its own stream ---------- *)

Check (C16_ended_stream_costs_own_stream : forall Sz Hh chk streams schedule j evs1 more incs fin,
  (N.to_nat j < length streams)%nat ->
  nth (N.to_nat j) streams [] = evs1 ++ more ->
  stream_out Sz Hh chk evs1 = (incs, fin) -> sfinal_ended fin = true ->
  (forall evs, In evs streams -> evs <> evs1 ++ more -> stream_safe Sz Hh chk evs = true) ->
  (forall k, (N.to_nat k < length streams)%nat -> polled_enough k (nth (N.to_nat k) streams []) schedule = true) ->
  of_stream j (conn_run Sz Hh chk streams schedule) = incs
  /\ forall k, k <> j ->
     of_stream k (conn_run Sz Hh chk streams schedule) = fst (stream_out Sz Hh chk (nth (N.to_nat k) streams []))).

Check (stream_out_bad_frame : forall Sz Hh chk ms bad evs extra more,
  Forall wf_message ms -> Forall (size_ok write_message) ms ->
  (forall m, In m ms -> exists inc, process_message Sz Hh m = PmOk inc) ->
  live evs -> ev_data evs = concat (map codec_encode ms) ++ bad ++ extra ->
  (undecodable chk bad -> stream_out Sz Hh chk (evs ++ more) = (yielded Sz Hh ms, SfErr))
  /\ (closing Sz Hh bad -> stream_out Sz Hh chk (evs ++ more) = (yielded Sz Hh ms, SfClosed))).

Check (C16_bad_frame_costs_own_stream : forall Sz Hh chk streams schedule j ms bad evs1 extra more,
  (N.to_nat j < length streams)%nat ->
  nth (N.to_nat j) streams [] = evs1 ++ more ->
  live evs1 -> ev_data evs1 = concat (map codec_encode ms) ++ bad ++ extra ->
  Forall wf_message ms -> Forall (size_ok write_message) ms ->
  (forall m, In m ms -> exists inc, process_message Sz Hh m = PmOk inc) ->
  (undecodable chk bad \/ closing Sz Hh bad) ->
  (forall evs, In evs streams -> evs <> evs1 ++ more -> stream_safe Sz Hh chk evs = true) ->
  (forall k, (N.to_nat k < length streams)%nat -> polled_enough k (nth (N.to_nat k) streams []) schedule = true) ->
  of_stream j (conn_run Sz Hh chk streams schedule) = yielded Sz Hh ms
  /\ forall k, k <> j ->
     of_stream k (conn_run Sz Hh chk streams schedule) = fst (stream_out Sz Hh chk (nth (N.to_nat k) streams []))).

(* ---------- 4. C09 lifted: the buffers of a connection ---------- *)

Check (C09_conn_buffer_bound : forall Sz Hh chk streams schedule,
  Forall wf_events streams ->
  let c := snd (snd (conn_run_full Sz Hh chk streams schedule)) in
  Forall (fun st => len (ss_buf st) < 10 + max_message_size + 8192) c
  /\ conn_buffered c <= conn_alive c * (10 + max_message_size + 8192)
  /\ conn_alive c <= len streams).

(* ======================= concrete instances (non-vacuity) ======================= *)

(* table: sha2-256 (code 18) answers; anything else is unknown *)
Definition ex_H : hash_fn :=
  fun code _ => if code =? 18 then HOk (MkMh 18 (repeat 9 32)) else HErr UnknownMultihashCode.

Definition good1 : message := MkMessage (Some (MkWantlist [] true)) [MkBlock [1; 85; 18; 32] [2]] [] 0.
Definition good2 : message := MkMessage None [MkBlock [1; 85; 18; 32] [7; 7]] [] 0.
Definition good3 : message := MkMessage None [] [MkPresence [1; 85; 18; 2; 5; 6] PDontHave] 0.
Definition empty_msg : message := MkMessage None [] [] 0.                        (* decodes, not forwarded *)
Definition bad_presence : message := MkMessage None [] [MkPresence [9; 9] PHave] 0.   (* invalid CID: closes *)

Definition inc1 : incoming :=
  MkIncoming (Some (MkClientMsg [] [(MkCid V1 85 (MkMh 18 (repeat 9 32)), [2])])) (Some (MkWantlist [] true)).
Definition inc2 : incoming :=
  MkIncoming (Some (MkClientMsg [] [(MkCid V1 85 (MkMh 18 (repeat 9 32)), [7; 7])])) None.
Definition inc3 : incoming :=
  MkIncoming (Some (MkClientMsg [(MkCid V1 85 (MkMh 18 [5; 6]), PDontHave)] [])) None.

Example ex_frames :
  codec_encode good1 = [15; 10; 2; 16; 1; 26; 9; 10; 4; 1; 85; 18; 32; 18; 1; 2]
  /\ codec_encode bad_presence = [6; 34; 4; 10; 2; 9; 9]
  /\ codec_encode good2 = [12; 26; 10; 10; 4; 1; 85; 18; 32; 18; 2; 7; 7]
  /\ codec_encode empty_msg = [0]
  /\ process_message 64 ex_H good1 = PmOk inc1 /\ process_message 64 ex_H good2 = PmOk inc2
  /\ process_message 64 ex_H good3 = PmOk inc3
  /\ process_message 64 ex_H bad_presence = PmClose
  /\ (exists i, process_message 64 ex_H empty_msg = PmOk i /\ forwarded i = false).
Proof. vm_compute. repeat split; try reflexivity. eexists. split; reflexivity. Qed.

(* stream 0: [good1; bad_presence; good2], cut inside good1, the second read carrying the end of good1, the whole
   bad frame and the beginning of good2; a wake-up in between.  stream 1: [good2; empty; good3] then end of stream *)
Definition s0_part1 : list read_ev :=
  [Chunk [15; 10; 2; 16; 1]; ReadPending;
   Chunk ([26; 9; 10; 4; 1; 85; 18; 32; 18; 1; 2] ++ [6; 34; 4; 10; 2; 9; 9] ++ [12; 26; 10])].
Definition s0_part2 : list read_ev := [Chunk [10; 4; 1; 85; 18; 32; 18; 2; 7; 7]; Eof].
Definition s0 : list read_ev := s0_part1 ++ s0_part2.
Definition s1 : list read_ev :=
  [Chunk (codec_encode good2 ++ [0]); ReadPending; Chunk (codec_encode good3); Eof].

Example ex_stream_out :
  stream_out 64 ex_H true s0 = ([inc1], SfClosed)
  /\ stream_out 64 ex_H true s1 = ([inc2; inc3], SfEnd)
  /\ stream_out 64 ex_H true s0_part1 = ([inc1], SfClosed)
  /\ stream_out 64 ex_H true [Chunk [15; 10; 2; 16; 1]; ReadPending] = ([], SfPending).
Proof. vm_compute. repeat split; reflexivity. Qed.

(* 1: a run that is waiting is extended, a run that has stopped is not *)
Example ex_prefix_stable :
  let evs := [Chunk (codec_encode good2 ++ [0])] in
  stream_out 64 ex_H true evs = ([inc2], SfPending)
  /\ stream_out 64 ex_H true (evs ++ [ReadPending; Chunk (codec_encode good3); Eof]) = ([inc2; inc3], SfEnd)
  /\ snd (stream_out 64 ex_H true s0_part1) <> SfPending
  /\ stream_out 64 ex_H true (s0_part1 ++ s0_part2) = stream_out 64 ex_H true s0_part1.
Proof. vm_compute. repeat split; try reflexivity. discriminate. Qed.

Example ex_chunking :
  let ms := [good2; empty_msg; good3] in
  let evs := [Chunk (codec_encode good2 ++ [0]); ReadPending; Chunk (codec_encode good3)] in
  s1 = evs ++ [Eof] /\ ev_data evs = concat (map codec_encode ms)
  /\ deliver (process_message 64 ex_H) ms FEnd = ([inc2; inc3], SfEnd)
  /\ stream_out 64 ex_H true (map (fun b => Chunk [b]) (ev_data evs) ++ [Eof]) = ([inc2; inc3], SfEnd).
Proof. vm_compute. repeat split; reflexivity. Qed.

(* poll by poll: one poll_next call yields at most one message; the empty message is skipped inside a call *)
Example ex_polls :
  stream_polls 64 ex_H true 1 s1 = [inc2]
  /\ stream_polls 64 ex_H true 2 s1 = [inc2]            (* second call: skips the empty message, then Pending *)
  /\ stream_polls 64 ex_H true 3 s1 = [inc2; inc3]
  /\ stream_polls 64 ex_H true 40 s1 = [inc2; inc3].
Proof. vm_compute. repeat split; reflexivity. Qed.

(* 2: an interleaving schedule; 7 names no stream; stream 0 is closed by its second message *)
Definition ex_schedule : list N := [0; 1; 0; 7; 1; 0; 1; 1; 0; 1].
Example ex_conn_run :
  conn_run 64 ex_H true [s0; s1] ex_schedule = [(1, inc2); (0, inc1); (1, inc3)]
  /\ fst (snd (conn_run_full 64 ex_H true [s0; s1] ex_schedule)) = COk
  /\ map ss_status (snd (snd (conn_run_full 64 ex_H true [s0; s1] ex_schedule))) = [SfClosed; SfEnd]
  /\ forallb (stream_safe 64 ex_H true) [s0; s1] = true
  /\ of_stream 1 (conn_run 64 ex_H true [s0; s1] ex_schedule) = fst (stream_out 64 ex_H true s1)
  /\ polls_of 1 ex_schedule = 5%nat.
Proof. vm_compute. repeat split; reflexivity. Qed.

(* the same schedule with stream 0 replaced by an undecodable stream, by nothing, by a longer one: stream 1 is
   served identically *)
Example ex_independent :
  let other := [Chunk [129; 0; 1; 2; 3]] in                       (* non-minimal varint: decode error *)
  forallb (stream_safe 64 ex_H true) [other; s1] = true
  /\ stream_out 64 ex_H true other = ([], SfErr)
  /\ of_stream 1 (conn_run 64 ex_H true [other; s1] ex_schedule) = [inc2; inc3]
  /\ of_stream 1 (conn_run 64 ex_H true [[]; s1] ex_schedule) = [inc2; inc3]
  /\ of_stream 1 (conn_run 64 ex_H true [s1; s1] ex_schedule) = [inc2; inc3].
Proof. vm_compute. repeat split; reflexivity. Qed.

(* 3: the hypotheses of C16_bad_frame_costs_own_stream hold of [s0; s1] with a schedule that polls long enough *)
Definition ex_long_schedule : list N := concat (repeat [0; 1] 60).

Lemma ex_live_s0_part1 : live s0_part1.
Proof. repeat constructor; discriminate. Qed.

Lemma ex_closing : closing 64 ex_H (codec_encode bad_presence).
Proof.
  exists bad_presence. split; [|split; [|split]].
  - apply wf_messageb_spec. vm_compute. reflexivity.
  - vm_compute. discriminate.
  - reflexivity.
  - vm_compute. reflexivity.
Qed.

Example ex_bad_frame_costs_own_stream :
  of_stream 0 (conn_run 64 ex_H true [s0; s1] ex_long_schedule) = [inc1]
  /\ of_stream 1 (conn_run 64 ex_H true [s0; s1] ex_long_schedule) = [inc2; inc3].
Proof.
  destruct (C16_bad_frame_costs_own_stream 64 ex_H true [s0; s1] ex_long_schedule 0 [good1]
              (codec_encode bad_presence) s0_part1 [12; 26; 10] s0_part2) as [H0 H1].
  - cbn. lia.
  - reflexivity.
  - exact ex_live_s0_part1.
  - vm_compute. reflexivity.
  - constructor; [apply wf_messageb_spec; vm_compute; reflexivity|constructor].
  - constructor; [vm_compute; discriminate|constructor].
  - intros m [<-|[]]. exists inc1. vm_compute. reflexivity.
  - right. exact ex_closing.
  - intros evs [<-|[<-|[]]] Hne; [exfalso; apply Hne; reflexivity|vm_compute; reflexivity].
  - intros k Hk. cbn [length] in Hk.
    assert (Hk' : k = 0 \/ k = 1) by lia. destruct Hk' as [->| ->]; vm_compute; reflexivity.
  - split; [exact H0|]. rewrite (H1 1 ltac:(discriminate)). vm_compute. reflexivity.
Qed.

(* an undecodable frame: a length prefix announcing 5 MiB, cut in two reads, after one good message *)
Example ex_undecodable :
  undecodable true (uv_encode 5242880)
  /\ uv_encode 5242880 = [128; 128; 192; 2]
  /\ stream_out 64 ex_H true [Chunk (codec_encode good1 ++ [128; 128]); Chunk ([192; 2] ++ codec_encode good2)]
     = ([inc1], SfErr).
Proof.
  split; [apply oversize_header_undecodable; [vm_compute; reflexivity|vm_compute; reflexivity]|].
  vm_compute. split; reflexivity.
Qed.

(* FINDING (refutation of the unconditional statement): one frame of the known class F2 on stream 0 makes the poll
   of stream 0 panic (overflow checks on) or never return (release build); the whole connection task goes with it,
   so stream 1 — whose own bytes are two perfectly good messages — delivers nothing more.  Same schedule, same
   events for stream 1, different events for stream 0: different output for stream 1. *)
Theorem C16_streams_independent_refuted :
  exists Sz Hh streams streams' schedule k,
    32 <= Sz /\ sha_respecting Hh /\
    nth (N.to_nat k) streams [] = nth (N.to_nat k) streams' [] /\
    (forall chk, of_stream k (conn_run Sz Hh chk streams schedule) <> of_stream k (conn_run Sz Hh chk streams' schedule))
    /\ fst (snd (conn_run_full Sz Hh true streams' schedule)) = CStopped 0 SfPanic
    /\ fst (snd (conn_run_full Sz Hh false streams' schedule)) = CStopped 0 SfLoop
    /\ stream_safe Sz Hh true (nth 0 streams' []) = false.
Proof.
  exists 64, ex_H, [s0; s1], [[Chunk (17 :: f2_witness)]; s1], ex_schedule, 1.
  split; [lia|]. split.
  - intros data mh. unfold ex_H. change (SHA2_256 =? 18) with true. cbv iota. intros [= <-]. split; reflexivity.
  - split; [reflexivity|]. split; [intros [|]; vm_compute; discriminate|]. vm_compute. repeat split; reflexivity.
Qed.

(* 4: buffers *)
Example ex_conn_buffer :
  Forall wf_events [s0; s1]
  /\ let c := snd (snd (conn_run_full 64 ex_H true [s0; s1] [0; 1; 0])) in
     map (fun st => len (ss_buf st)) c = [10; 1] /\ conn_buffered c = 11 /\ conn_alive c = 2.
Proof.
  split; [repeat constructor|]. vm_compute. repeat split; reflexivity.
Qed.

Print Assumptions C16_stream_prefix_stable.
Print Assumptions stream_out_fuel.
Print Assumptions stream_polls_prefix.
Print Assumptions stream_polls_enough.
Print Assumptions stream_out_deliver.
Print Assumptions C10_stream_out_chunking.
Print Assumptions stream_unsafe_only_F2.
Print Assumptions C16_streams_prefix.
Print Assumptions C16_stream_of_conn.
Print Assumptions C16_streams_complete.
Print Assumptions C16_streams_independent.
Print Assumptions C16_ended_stream_costs_own_stream.
Print Assumptions stream_out_bad_frame.
Print Assumptions C16_bad_frame_costs_own_stream.
Print Assumptions C16_streams_independent_refuted.
Print Assumptions C09_conn_buffer_bound.
Print Assumptions ex_bad_frame_costs_own_stream.
