(* Wire_blocks_props.v — package L: restatements of the theorems of Wire_blocks.v, examples with the real codec (all by
   vm_compute) and the assumption audit.

   Setting of the examples: MAX_MULTIHASH_SIZE = 64; a toy multihasher table that knows sha2-256 (0x12: "hashes" by
   padding / cutting the data to 32 bytes) and one non-sha2 code (0x1e, a 4-byte digest); no property of the hashes is
   used anywhere.  Three blocks: b0 under a CIDv0, b1 under a CIDv1 with the non-sha2 code, b2 under a CIDv1 / sha2. *)
From BS Require Import Bytes Varint Cid Prefix Hasher Proto Incoming Qp ProtoCodec Frame Framed Codec Frame_proofs
                       Framed_proofs Prefix_proofs Incoming_proofs Types FramedWrite Handler_proofs ServerHandler
                       ServerHandler_proofs ServerHandler_wire Streams Streams_proofs Wire_blocks.
From Coq Require Import ZArith Lia.
Open Scope N_scope.

(* ================================================================================================================ *)
(* Statements                                                                                                       *)
(* ================================================================================================================ *)

(* 1. honest batch: the behaviour gets the batch as a map keyed by the labels (`client_part bl` = None for the empty
      batch, which is therefore not forwarded; Some (MkClientMsg [] (blocks_map bl)) otherwise) *)
Check process_blocks_message : forall Sz Hh (bl : list lblock),
  Forall (honest Sz Hh) bl ->
  process_message Sz Hh (blocks_message bl) = PmOk (MkIncoming (client_part bl) None).

Check process_blocks_message_nonempty : forall Sz Hh (bl : list lblock),
  Forall (honest Sz Hh) bl -> bl <> [] ->
  process_message Sz Hh (blocks_message bl) = PmOk (MkIncoming (Some (MkClientMsg [] (blocks_map bl))) None).

Check process_blocks_message_forwarded : forall Sz Hh (bl : list lblock) inc,
  Forall (honest Sz Hh) bl -> process_message Sz Hh (blocks_message bl) = PmOk inc ->
  forwarded inc = negb (match bl with [] => true | _ => false end).

(* what `blocks_map` is: keys = distinct CIDs in order of first occurrence, no key twice, value = data of the LAST
   occurrence (later replaces earlier), identity on a batch without repeated CIDs *)
Check blocks_map_keys : forall l, map fst (blocks_map l) = first_keys (map fst l).
Check blocks_map_nodup : forall l, NoDup (map fst (blocks_map l)).
Check blocks_map_get : forall l c, assoc_get c (blocks_map l) = last_data c l.
Check blocks_map_id : forall l, NoDup (map fst l) -> blocks_map l = l.

(* any batch whose labels are possible CIDs, honest or not *)
Check process_blocks_message_any : forall Sz Hh (bl : list lblock),
  Forall (fun b => wf_cid Sz (fst b)) bl ->
  process_message Sz Hh (blocks_message bl) = batch_outcome Sz Hh bl.

(* one block, whatever its data; a block with wrong data never arrives under its label *)
Check process_one_block : forall Sz Hh c d,
  wf_cid Sz c ->
  process_message Sz Hh (blocks_message [(c, d)])
  = match prefix_to_cid Sz Hh (prefix_of_cid c) d with
    | TOk c' => PmOk (MkIncoming (Some (MkClientMsg [] [(c', d)])) None)
    | TErr UnknownMultihashCode | TErr CustomErr => PmOk (MkIncoming None None)
    | TErr _ => PmClose
    | TPanic => PmPanic
    end.

Check process_wrong_block : forall Sz Hh c d,
  wf_cid Sz c -> valid_block Sz Hh c d = false ->
  (exists c', c' <> c /\ prefix_to_cid Sz Hh (prefix_of_cid c) d = TOk c' /\
              process_message Sz Hh (blocks_message [(c, d)]) = PmOk (MkIncoming (Some (MkClientMsg [] [(c', d)])) None))
  \/ process_message Sz Hh (blocks_message [(c, d)]) = PmOk (MkIncoming None None)
  \/ process_message Sz Hh (blocks_message [(c, d)]) = PmClose
  \/ process_message Sz Hh (blocks_message [(c, d)]) = PmPanic.

Check process_blocks_keyed_by_hash : forall Sz Hh (bl : list lblock) inc cm c' d',
  Forall (fun b => wf_cid Sz (fst b)) bl ->
  process_message Sz Hh (blocks_message bl) = PmOk inc -> in_client inc = Some cm -> In (c', d') (cm_blocks cm) ->
  exists c0, In (c0, d') bl /\ prefix_to_cid Sz Hh (prefix_of_cid c0) d' = TOk c' /\
             (c0 = c' -> honest Sz Hh (c0, d')).

(* the two descriptions of the message a server handler writes are the same message *)
Check blocks_message_payload : forall bl, blocks_message bl = payload_message (map erase_block bl).

(* 2. receiver alone *)
Check wire_receive_blocks : forall Sz Hh chk (batches : list (list lblock)) evs,
  Forall (Forall (honest Sz Hh)) batches -> Forall fits_frame batches ->
  live evs -> ev_data evs = concat (map (fun bl => codec_encode (blocks_message bl)) batches) ->
  stream_out Sz Hh chk (evs ++ [Eof]) = (client_msgs batches, SfEnd).

(* 3. sender + receiver *)
Check C06_wire_blocks_delivered : forall Sz Hh chk (ops : list shop) (ql : list lblock) id buf,
  let st := server_handler_final codec_encode wire_block_size ops in
  let outs := server_handler_outs codec_encode wire_block_size ops in
  queue_ok Sz Hh ops ql -> no_drop outs -> sh_sink st = SvReady id buf ->
  let sb := started_batches ops ql in
  let n := length (concat (map snd (sh_started st))) in
  map (map erase_block) sb = map snd (sh_started st)
  /\ concat sb = firstn n ql
  /\ map erase_block (skipn n ql) = pending_list st
  /\ forall evs, live evs -> ev_data evs = swrote_on id outs ++ buf ->
       stream_out Sz Hh chk (evs ++ [Eof]) = (client_msgs sb, SfEnd).

Check C06_wire_blocks_exactly_once : forall Sz Hh chk (ops : list shop) (ql : list lblock) id buf,
  let st := server_handler_final codec_encode wire_block_size ops in
  let outs := server_handler_outs codec_encode wire_block_size ops in
  queue_ok Sz Hh ops ql -> no_drop outs -> sh_sink st = SvReady id buf -> NoDup (map fst ql) ->
  forall evs, live evs -> ev_data evs = swrote_on id outs ++ buf ->
    snd (stream_out Sz Hh chk (evs ++ [Eof])) = SfEnd
    /\ flat_map blocks_of (fst (stream_out Sz Hh chk (evs ++ [Eof])))
       = firstn (length (concat (map snd (sh_started st)))) ql.

(* before the flush, and before there is a stream *)
Check C06_wire_blocks_in_flight : forall Sz Hh chk (ops : list shop) (ql : list lblock) id buf,
  let st := server_handler_final codec_encode wire_block_size ops in
  let outs := server_handler_outs codec_encode wire_block_size ops in
  queue_ok Sz Hh ops ql -> no_drop outs -> sh_sink st = SvReady id buf ->
  (forall evs1 evs2, live (evs1 ++ evs2) -> ev_data (evs1 ++ evs2) = swrote_on id outs ++ buf ->
     is_prefix (fst (stream_out Sz Hh chk evs1)) (client_msgs (started_batches ops ql)))
  /\ (forall evs1, live evs1 -> ev_data evs1 = swrote_on id outs ->
        is_prefix (fst (stream_out Sz Hh chk evs1)) (client_msgs (started_batches ops ql))).

Check C06_wire_nothing_without_stream : forall (ops : list shop),
  let st := server_handler_final codec_encode wire_block_size ops in
  let outs := server_handler_outs codec_encode wire_block_size ops in
  no_drop outs -> (forall id buf, sh_sink st <> SvReady id buf) ->
  sh_started st = [] /\ forall id, swrote_on id outs = [].

(* ================================================================================================================ *)
(* Examples                                                                                                         *)
(* ================================================================================================================ *)

Definition sum_bytes (d : bytes) : N := fold_right N.add 0 d mod 256.
Definition wb_H : hash_fn := fun code data =>
  if code =? 18 then HOk (MkMh 18 (firstn 32 (data ++ repeat (sum_bytes data) 32)))
  else if code =? 30 then HOk (MkMh 30 [len data mod 256; sum_bytes data; 7; 7])
  else HErr UnknownMultihashCode.
Definition wb_S : N := 64.
Definition mh_of (code : N) (d : bytes) : multihash := match wb_H code d with HOk mh => mh | HErr _ => MkMh 0 [] end.

Definition wb_d0 : bytes := [10; 20; 30].
Definition wb_d1 : bytes := [1; 2; 3; 4; 5].
Definition wb_d2 : bytes := [255; 0].
Definition wb_b0 : lblock := (MkCid V0 112 (mh_of 18 wb_d0), wb_d0).     (* CIDv0 *)
Definition wb_b1 : lblock := (MkCid V1 85 (mh_of 30 wb_d1), wb_d1).      (* CIDv1, raw, non-sha2 code 0x1e *)
Definition wb_b2 : lblock := (MkCid V1 113 (mh_of 18 wb_d2), wb_d2).     (* CIDv1, dag-cbor, sha2-256 *)
Definition wb_queue : list lblock := [wb_b0; wb_b1; wb_b2].

Ltac wf_cid_tac :=
  unfold wf_cid, wf_mh; cbn [fst snd c_ver c_codec c_hash];
  repeat match goal with
         | |- _ /\ _ => split
         | |- wf_bytes _ => apply wf_bytesb_spec; vm_compute; reflexivity
         | |- _ = V0 -> _ => first [discriminate | intros _]
         | |- _ => vm_compute; first [reflexivity | discriminate]
         end.

Ltac honest_tac := split; [wf_cid_tac | vm_compute; reflexivity].
Ltac forall_tac t := repeat (apply Forall_cons; [t|]); apply Forall_nil.
Ltac bytes_tac := apply wf_bytesb_spec; vm_compute; reflexivity.

Example wb_honest : Forall (honest wb_S wb_H) wb_queue.
Proof. unfold wb_queue. forall_tac honest_tac. Qed.

(* Theorem 1 on a concrete batch, by evaluation, and its hypothesis *)
Example process_blocks_message_ex :
  Forall (honest wb_S wb_H) [wb_b0; wb_b1]
  /\ process_message wb_S wb_H (blocks_message [wb_b0; wb_b1])
     = PmOk (MkIncoming (Some (MkClientMsg [] [wb_b0; wb_b1])) None)
  /\ process_message wb_S wb_H (blocks_message []) = PmOk (MkIncoming None None)
  /\ forwarded (MkIncoming None None) = false.
Proof. split; [forall_tac honest_tac|]. vm_compute. repeat split; reflexivity. Qed.

(* a CID that occurs twice in one message: one entry, at the place of the first occurrence, with the LATER data
   (blocks_map on raw pairs; with honest blocks the two data could only differ by a hash collision) *)
Example blocks_map_twice_ex :
  blocks_map [(fst wb_b1, [1]); (fst wb_b2, [2]); (fst wb_b1, [3])] = [(fst wb_b1, [3]); (fst wb_b2, [2])]
  /\ process_message wb_S wb_H (blocks_message [wb_b1; wb_b2; wb_b1])
     = PmOk (MkIncoming (Some (MkClientMsg [] [wb_b1; wb_b2])) None).
Proof. vm_compute. split; reflexivity. Qed.

(* a block with wrong data: it is inserted under the CID recomputed from (prefix of the label, data), which is not the
   label; next to it the honest block is accepted as usual *)
Definition wb_bad : lblock := (fst wb_b2, [9; 9]).
Definition wb_bad_cid : cid := MkCid V1 113 (mh_of 18 [9; 9]).

Example process_wrong_block_ex :
  wf_cid wb_S (fst wb_bad)
  /\ valid_block wb_S wb_H (fst wb_bad) (snd wb_bad) = false
  /\ cid_eqb wb_bad_cid (fst wb_bad) = false
  /\ process_message wb_S wb_H (blocks_message [wb_bad])
     = PmOk (MkIncoming (Some (MkClientMsg [] [(wb_bad_cid, [9; 9])])) None)
  /\ process_message wb_S wb_H (blocks_message [wb_b0; wb_bad])
     = PmOk (MkIncoming (Some (MkClientMsg [] [wb_b0; (wb_bad_cid, [9; 9])])) None)
  /\ assoc_get (fst wb_bad) [wb_b0; (wb_bad_cid, [9; 9])] = None.
Proof. split; [wf_cid_tac|]. vm_compute. repeat split; reflexivity. Qed.

(* a label whose hash code the receiver's table does not know: the block is skipped; alone in its message, the message
   has no client part and is not forwarded (this block cannot be honest under this table: valid_block is false) *)
Definition wb_unknown : lblock := (MkCid V1 85 (MkMh 99 [1; 2; 3]), [4; 5]).
Example process_unknown_code_ex :
  wf_cid wb_S (fst wb_unknown)
  /\ valid_block wb_S wb_H (fst wb_unknown) (snd wb_unknown) = false
  /\ process_message wb_S wb_H (blocks_message [wb_unknown]) = PmOk (MkIncoming None None)
  /\ process_message wb_S wb_H (blocks_message [wb_unknown; wb_b1])
     = PmOk (MkIncoming (Some (MkClientMsg [] [wb_b1])) None).
Proof. split; [wf_cid_tac|]. vm_compute. repeat split; reflexivity. Qed.

(* a label that declares a digest longer than the receiver's capacity S = 4: InvalidMultihashSize closes the stream *)
Example process_oversize_closes_ex :
  process_message 4 wb_H (blocks_message [wb_b1; wb_b2]) = PmClose
  /\ batch_outcome 4 wb_H [wb_b1; wb_b2] = PmClose.
Proof. vm_compute. split; reflexivity. Qed.

(* ---- the sender: b0, b1 queued and started as one message, b2 queued later and started as a second message; the stream
        accepts 7 bytes, then the rest of frame 1 and 5 bytes of frame 2; the rest of frame 2 is still in the buffer ---- *)
Definition wb_ops : list shop :=
  [SHQueue (map erase_block [wb_b0; wb_b1]); SHPoll []; SHSetStream; SHPoll [FlushOk; WAccept 7];
   SHQueue (map erase_block [wb_b2]); SHPoll [WAccept 1000; FlushOk; WAccept 5; IoPending]].
Definition wb_st : shstate := server_handler_final codec_encode wire_block_size wb_ops.
Definition wb_outs : list shout := server_handler_outs codec_encode wire_block_size wb_ops.
Definition wb_buf : bytes := match sh_sink wb_st with SvReady _ buf => buf | _ => [] end.
Definition wb_bytes : bytes := swrote_on 0 wb_outs ++ wb_buf.

(* the receiver reads 3 bytes, is woken for nothing, reads 25 more (the end of frame 1 is inside this read), then the rest *)
Definition wb_evs : list read_ev :=
  [Chunk (firstn 3 wb_bytes); ReadPending; Chunk (firstn 25 (skipn 3 wb_bytes)); ReadPending; Chunk (skipn 28 wb_bytes)].

Lemma wb_queue_ok : queue_ok wb_S wb_H wb_ops wb_queue.
Proof.
  split; [vm_compute; reflexivity|]. split; [exact wb_honest|]. split.
  - unfold wb_queue. forall_tac bytes_tac.
  - unfold wb_queue. forall_tac ltac:(vm_compute; discriminate).
Qed.

Lemma wb_no_drop : no_drop wb_outs.
Proof. intros i H. vm_compute in H. repeat (destruct H as [H|H]; [discriminate|]). exact H. Qed.

Lemma wb_live : live wb_evs.
Proof. unfold live, wb_evs. forall_tac ltac:(vm_compute; try discriminate; auto). Qed.

(* the hypotheses of C06_wire_blocks_delivered hold of the example, the started batches are two messages of two and one
   blocks, the frame boundary is inside the second read, and the model run agrees with the theorem *)
Example C06_wire_blocks_delivered_ex :
  sh_sink wb_st = SvReady 0 wb_buf
  /\ wb_buf <> []
  /\ started_batches wb_ops wb_queue = [[wb_b0; wb_b1]; [wb_b2]]
  /\ len (codec_encode (blocks_message [wb_b0; wb_b1])) = 27
  /\ wb_bytes = codec_encode (blocks_message [wb_b0; wb_b1]) ++ codec_encode (blocks_message [wb_b2])
  /\ ev_data wb_evs = wb_bytes
  /\ stream_out wb_S wb_H true (wb_evs ++ [Eof])
     = ([MkIncoming (Some (MkClientMsg [] [wb_b0; wb_b1])) None; MkIncoming (Some (MkClientMsg [] [wb_b2])) None], SfEnd)
  /\ client_msgs (started_batches wb_ops wb_queue)
     = [MkIncoming (Some (MkClientMsg [] [wb_b0; wb_b1])) None; MkIncoming (Some (MkClientMsg [] [wb_b2])) None]
  /\ NoDup (map fst wb_queue).
Proof.
  split; [vm_compute; reflexivity|]. split; [vm_compute; discriminate|].
  repeat (split; [vm_compute; reflexivity|]).
  repeat constructor; cbn [In map fst]; intros H; repeat (destruct H as [H|H]; [vm_compute in H; discriminate|]); exact H.
Qed.

(* the theorem applied to the example *)
Example C06_wire_blocks_delivered_applied :
  stream_out wb_S wb_H false (wb_evs ++ [Eof]) = (client_msgs (started_batches wb_ops wb_queue), SfEnd).
Proof.
  destruct C06_wire_blocks_delivered_ex as (SK & _ & _ & _ & _ & DATA & _).
  destruct (C06_wire_blocks_delivered wb_S wb_H false wb_ops wb_queue 0 wb_buf wb_queue_ok wb_no_drop SK)
    as (_ & _ & _ & W).
  apply W; [exact wb_live | exact DATA].
Qed.

(* in flight: the receiver has read exactly the bytes the stream accepted so far (frame 1 and 5 bytes of frame 2, in two
   reads): it has been handed message 1 and waits *)
Example C06_wire_blocks_in_flight_ex :
  let acc := swrote_on 0 wb_outs in
  len acc = 32
  /\ stream_out wb_S wb_H true [Chunk (firstn 9 acc); Chunk (skipn 9 acc)]
     = ([MkIncoming (Some (MkClientMsg [] [wb_b0; wb_b1])) None], SfPending).
Proof. vm_compute. split; reflexivity. Qed.

(* no stream yet: queued and polled (the handler asks for a stream), nothing started, nothing written *)
Example C06_wire_nothing_without_stream_ex :
  let ops := [SHQueue (map erase_block wb_queue); SHPoll [FlushOk]; SHPoll []] in
  server_handler_outs codec_encode wire_block_size ops = [SHOpenStream]
  /\ sh_sink (server_handler_final codec_encode wire_block_size ops) = SvRequested
  /\ sh_started (server_handler_final codec_encode wire_block_size ops) = [].
Proof. vm_compute. repeat split; reflexivity. Qed.

(* receiver alone (Theorem 2), hypotheses included; the same reads *)
Example wire_receive_blocks_ex :
  Forall (Forall (honest wb_S wb_H)) [[wb_b0; wb_b1]; [wb_b2]]
  /\ Forall fits_frame [[wb_b0; wb_b1]; [wb_b2]]
  /\ live wb_evs
  /\ ev_data wb_evs = concat (map (fun bl => codec_encode (blocks_message bl)) [[wb_b0; wb_b1]; [wb_b2]])
  /\ client_msgs [[wb_b0; wb_b1]; [wb_b2]] = fst (stream_out wb_S wb_H true (wb_evs ++ [Eof])).
Proof.
  split; [forall_tac ltac:(forall_tac honest_tac)|]. split.
  - forall_tac ltac:(split; [forall_tac bytes_tac | unfold size_ok; vm_compute; discriminate]).
  - split; [exact wb_live|]. split; vm_compute; reflexivity.
Qed.

(* a dishonest sender over the wire: the frame of [b0; bad block], cut in two reads: the receiver's behaviour gets b0
   under its CID and the bad data under the recomputed CID, not under the label *)
Definition wb_bad_frame : bytes := codec_encode (blocks_message [wb_b0; wb_bad]).
Example wire_wrong_block_ex :
  stream_out wb_S wb_H true [Chunk (firstn 11 wb_bad_frame); ReadPending; Chunk (skipn 11 wb_bad_frame); Eof]
  = ([MkIncoming (Some (MkClientMsg [] [wb_b0; (wb_bad_cid, [9; 9])])) None], SfEnd)
  /\ cid_eqb wb_bad_cid (fst wb_bad) = false.
Proof. vm_compute. split; reflexivity. Qed.

(* ================================================================================================================ *)
(* Assumptions                                                                                                      *)
(* ================================================================================================================ *)
Print Assumptions process_blocks_message.
Print Assumptions process_blocks_message_nonempty.
Print Assumptions process_blocks_message_forwarded.
Print Assumptions process_blocks_message_any.
Print Assumptions process_one_block.
Print Assumptions process_wrong_block.
Print Assumptions process_blocks_keyed_by_hash.
Print Assumptions blocks_map_keys.
Print Assumptions blocks_map_nodup.
Print Assumptions blocks_map_get.
Print Assumptions blocks_map_id.
Print Assumptions blocks_message_payload.
Print Assumptions wire_receive_blocks.
Print Assumptions wire_receive_payloads.
Print Assumptions C06_wire_blocks_delivered.
Print Assumptions C06_wire_blocks_exactly_once.
Print Assumptions C06_wire_blocks_in_flight.
Print Assumptions C06_wire_nothing_without_stream.
Print Assumptions C06_wire_blocks_delivered_ex.
Print Assumptions C06_wire_blocks_delivered_applied.
Print Assumptions wire_receive_blocks_ex.
Print Assumptions process_wrong_block_ex.
Print Assumptions wire_wrong_block_ex.
