(* ProtocolName.v — model of BehaviourBuilder::protocol_prefix (/repo/src/builder.rs:69-76),
   utils::stream_protocol (/repo/src/utils.rs:25-33) and libp2p_swarm::StreamProtocol::try_from_owned
   (accepts exactly the strings starting with '/').  Strings are UTF-8 byte lists. *)
From BS Require Export Bytes.

Definition SLASH : N := 47.
Definition starts_with_slash (s : bytes) : bool :=
  match s with b :: _ => b =? SLASH | [] => false end.

(* "/ipfs/bitswap/1.2.0" *)
Definition SUFFIX : bytes := [47; 105; 112; 102; 115; 47; 98; 105; 116; 115; 119; 97; 112; 47; 49; 46; 50; 46; 48].

(* BehaviourBuilder::protocol_prefix: Ok(prefix recorded) | Err(InvalidProtocolPrefix) *)
Definition protocol_prefix (s : bytes) : option bytes :=
  if starts_with_slash s then Some s else None.

(* StreamProtocol::try_from_owned *)
Definition try_from_owned (s : bytes) : option bytes :=
  if starts_with_slash s then Some s else None.

(* utils::stream_protocol(prefix, protocol) *)
Definition stream_protocol (prefix : option bytes) (protocol : bytes) : option bytes :=
  match prefix with
  | Some p => try_from_owned (p ++ protocol)
  | None => Some protocol
  end.

(* what `build` computes three times (builder.rs:122, client.rs:136, server.rs:139): None = the expect fires *)
Definition protocol_name (cfg : option bytes) : option bytes := stream_protocol cfg SUFFIX.

(* A-MSS: multistream-select negotiates a protocol iff dialer and listener names are equal *)
Definition negotiates (dialer listener : bytes) : bool := bytes_eqb dialer listener.
