(* Net_proofs29.v — package J, part 7: a bound on the ROUNDS of `settle` (definitions only, executable).

   `Phi` (Net_proofs23) counts steps of the schedule; a round performs many steps at once, and `Phi` can exceed the fuel of
   `settle`.  The number of rounds is bounded by  HH s + AA s  at every net in which no message is in flight and no store call
   is outstanding (`cleanb`; every net is like that after one round):

   HH  the HEAVY work, a weighted count that no schedule step raises.  Only what can follow one after the other is counted:
         a get task that is not aborted    P + 6   (P = number of peer records: the miss puts the CID on the wantlist, 3, every
                                                    peer must look it up, 1 each, and handling it is an event, 3)
         a CID on the wantlist             3       (the block that is accepted is an event)
         a peer record                     the want entries of the wantlist it still has to send (one lookup each)
         a server task                     one per CID still to look up
         a wantlist in flight              one per want entry
       an EVENT (a get result handled, a block accepted) lowers HH by 3 or more; a round of lookups lowers it by 1.
   AA  the LIGHT work, the same for all nodes at once because it is done in parallel: 2 if some client still has something to
       start or to send (a task not started, the timer, a record with a wantlist to send), 1 if some node has anything to do at
       all, 0 otherwise.  A round without events lowers AA (or lowers HH and keeps AA at 1); an event can raise it to 2 again,
       and pays for that with its 3. *)
From BS Require Import Net Net_proofs3 Net_proofs23.
Open Scope nat_scope.

Definition hw (P : nat) (t : Client.task) : nat :=
  match t_kind t with TGet _ _ => if t_aborted t then 0 else P + 6 | TPut _ => 0 end.

Definition debtH (w : wl) (tf : bool) (ps : peer_state) : nat :=
  if p_send_full ps || tf then length (wl_cids w) else length (vacant_cids w (req (p_wl ps))).

Definition client_H (c : cstate) : nat :=
  let P := length (cs_peers c) in
  sum_by (fun e => hw P (snd e)) (cs_tasks c) + 3 * length (wl_cids (cs_wl c))
  + sum_by (fun e => debtH (cs_wl c) (timer_ready c) (snd e)) (cs_peers c).

Definition todo_w (t : Server.task) : nat := length (Server.t_todo t).

Definition server_H (st : sstate) : nat :=
  sum_by todo_w (s_ready st) + sum_by (fun x => todo_w (snd (snd x))) (s_blocked st).

Definition node_H (n : node) : nat := client_H (n_client n) + server_H (n_server n).

Definition wmsg_H (m : wmsg) : nat := count_wants (wm_entries m).

Definition HH (s : net) : nat := sum_by node_H (nodes s) + sum_by wmsg_H (wire_w s).

(* the light work *)
Definition unstarted (e : N * Client.task) : bool := match t_call (snd e) with None => true | Some _ => false end.

Definition a_client (c : cstate) : nat :=
  if existsb unstarted (cs_tasks c) || timer_ready c || existsb (fun e => negb (is_nil (sends1 (cs_wl c) e))) (cs_peers c) then 2
  else if negb (is_nil (cs_tasks c)) || negb (is_nil (cs_queue c)) || negb (is_nil (cs_new_blocks c))
          || negb (forallb (peer_idle (cs_wl c)) (cs_peers c)) then 1
  else 0.

Definition a_server (st : sstate) : nat := if negb (is_nil (s_ready st)) || negb (is_nil (s_outq st)) then 1 else 0.

Definition a_node (n : node) : nat := Nat.max (a_client (n_client n)) (a_server (n_server n)).

Definition AA (s : net) : nat := fold_right (fun n a => Nat.max (a_node n) a) 0 (nodes s).

(* nothing in flight, no store call outstanding *)
Definition cleanb (s : net) : bool :=
  is_nil (wire_w s) && is_nil (wire_b s) && forallb (fun n => is_nil (n_calls n)) (nodes s).
