(* Codec_proofs.v — the real body parser satisfies the frame-exactness hypothesis of the framing layer *)
From BS Require Import Bytes Varint Proto Qp ProtoCodec RefProto Frame Framed Codec Frame_proofs Framed_proofs
                       ProtoCodec_proofs RefProto_proofs.
Open Scope N_scope.

Lemma qp_parse_exact chk : parse_exact_hyp (qp_parse chk) write_message wf_message.
Proof.
  intros m tail Hwf. unfold qp_parse. rewrite (C10_body_roundtrip chk m tail Hwf). reflexivity.
Qed.
