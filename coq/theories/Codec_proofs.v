(* Codec_proofs.v — the real body parser satisfies the frame-exactness hypothesis of the framing layer *)
From BS Require Import Bytes Varint Proto Qp ProtoCodec RefProto Frame Framed Codec Frame_proofs Framed_proofs
                       ProtoCodec_proofs RefProto_proofs.
Open Scope N_scope.

Lemma qp_parse_exact chk : parse_exact_hyp (qp_parse chk) write_message wf_message.
Proof.
  intros m tail Hwf. unfold qp_parse. rewrite (C10_body_roundtrip chk m tail Hwf). reflexivity.
Qed.

Lemma max_lt_two64' : max_message_size < two64.
Proof. vm_compute. reflexivity. Qed.

(* Codec::decode never panics and never loops on a buffer outside the class F2, in both build profiles *)
Lemma codec_decode_total chk buf : codec_overrun buf = false ->
  codec_decode chk buf <> DPanic /\ codec_decode chk buf <> DLoop.
Proof.
  unfold codec_overrun, codec_decode, frame_decode. destruct (uv_decode buf) as [n rest| | |]; intros Hno;
    try (split; discriminate).
  destruct (max_message_size <? n) eqn:E1; [split; discriminate|].
  destruct (len rest <? n) eqn:E2; [split; discriminate|]. cbn [orb] in Hno.
  assert (Hn : n < two64) by (pose proof max_lt_two64'; lia).
  assert (Hl : n <= len rest) by lia.
  assert (Hov : ~ Overrun rest n) by (unfold Overrun; rewrite Hno; discriminate).
  unfold qp_parse. destruct (C08_decode_total chk rest n Hn Hl Hov) as [(m & s & ->)| ->]; split; discriminate.
Qed.

(* the witness of the known finding: the 18-byte frame panics with overflow checks and loops without *)
Lemma codec_decode_f2 :
  let frame := 17 :: f2_witness in
  codec_overrun frame = true /\ codec_decode true frame = DPanic /\ codec_decode false frame = DLoop.
Proof. vm_compute. repeat split; reflexivity. Qed.
