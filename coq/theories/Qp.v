(* Qp.v — model of the parts of quick-protobuf 0.8.1 that beetswap's generated code uses.

   Sources: quick-protobuf-0.8.1/src/writer.rs  (write_varint, write_tag, write_int32, write_bool,
                                                 write_enum, write_bytes, write_message, write_with_tag)
            quick-protobuf-0.8.1/src/sizeofs.rs (sizeof_varint, sizeof_len)
            quick-protobuf-0.8.1/src/reader.rs  (BytesReader{start,end}: read_u8, read_varint32,
                                                 read_varint64, read_int32, read_bool, read_enum,
                                                 read_len_varint, read_len, read_bytes, read_message,
                                                 read_message_by_len, read_unknown, is_eof)

   READER.  `BytesReader` is a pair of cursors `(start, end)` over ONE immutable array `bs`; every
   reading function below takes the array, the current `start` (and `end_` where the Rust looks at it)
   and returns the value together with the new `start`.  `end` is only ever changed by `read_len`,
   which restores it before returning `Ok`, so it is an argument and not part of the result.  (When a
   closure fails, `?` leaves `end` un-restored, but the error is propagated to the caller of
   `Codec::decode` and the reader is dropped.)

   The machine has three modes:
     MChk   - overflow checks on  (debug / dev profile): usize `a - b` with `b > a`, or `a + b`
              reaching 2^64, panics;
     MRel   - overflow checks off (release profile): the same operations wrap modulo 2^64;
     MInstr - the *instrumented run*: identical to the machine, except that it stops with `XOverrun`
              as soon as (i) a `read_len` would set `end` beyond the enclosing `end`, or (ii) a varint
              read has moved `start` beyond the current `end`.  It defines the class `Overrun`
              (ProtoCodec.v, `overrun_b`).
   The public result type is `rres` (four outcomes); `xres` has the additional `XOverrun`, produced in
   mode `MInstr` only.

   Facts of the Rust that the model relies on (they are not checked at run time by the Rust either):
   * `read_u8`: `self.start += 1` cannot overflow, because `bytes.get(self.start)` has just succeeded
     and a slice is shorter than 2^63; the model uses the exact sum.
   * `usize` is 64 bits (`usize::try_from(u64)` in `read_unknown` cannot fail).
   * bytes are `< 256`; on such bytes `b & 0x80 == 0` is `b <? 128` and `b & 0x7f` is `b mod 128`. *)
From BS Require Export Bytes Varint.

(* ------------------------------------------------------------------------------------------ *)
(* Writer                                                                                     *)

(* Writer::write_varint(v : u64):
     while v > 0x7F { push(((v as u8) & 0x7F) | 0x80); v >>= 7 }  push(v as u8)
   at most 10 bytes for a u64; the fuel is 9 continuation bytes + the last one. *)
Fixpoint qp_wv (fuel : nat) (v : N) : bytes :=
  match fuel with
  | O => [v mod 256]
  | S f => if v <? 128 then [v] else (v mod 128 + 128) :: qp_wv f (v / 128)
  end.
Definition qp_write_varint (v : N) : bytes := qp_wv 9 v.

(* write_tag(tag : u32) = write_varint(tag as u64) *)
Definition qp_write_tag (tag : N) : bytes := qp_write_varint tag.

(* `v as u64` for `v : i32` held as its u32 bit pattern: sign extension *)
Definition sext32 (v : N) : N := if v <? 2 ^ 31 then v else v + (2 ^ 64 - 2 ^ 32).

(* write_int32(v) = write_varint(v as u64): ten bytes for a negative value *)
Definition qp_write_int32 (v : N) : bytes := qp_write_varint (sext32 v).
(* write_enum(v : i32) = write_int32(v) *)
Definition qp_write_enum (v : N) : bytes := qp_write_int32 v.
(* write_bool(v) = one byte *)
Definition qp_write_bool (v : bool) : bytes := [if v then 1 else 0].
(* write_bytes(b) = write_varint(b.len() as u64); write_all(b) *)
Definition qp_write_bytes (b : bytes) : bytes := qp_write_varint (len b) ++ b.
(* Writer::write_message(m) = write_varint(m.get_size() as u64); m.write_message(w):
   the length prefix is what `get_size` says, not the length of what is then written *)
Definition qp_write_nested (size : N) (body : bytes) : bytes := qp_write_varint size ++ body.
(* write_with_tag(tag, f) = write_tag(tag); f() *)
Definition qp_with_tag (tag : N) (body : bytes) : bytes := qp_write_tag tag ++ body.

(* sizeofs::sizeof_varint, the match of sizeofs.rs:9-21 *)
Definition sizeof_varint (v : N) : N :=
  if v <=? 127 (* 0x7F *) then 1
  else if v <=? 16383 (* 0x3FFF *) then 2
  else if v <=? 2097151 (* 0x1FFFFF *) then 3
  else if v <=? 268435455 (* 0xFFFFFFF *) then 4
  else if v <=? 34359738367 (* 0x7FFFFFFFF *) then 5
  else if v <=? 4398046511103 (* 0x3FFFFFFFFFF *) then 6
  else if v <=? 562949953421311 (* 0x1FFFFFFFFFFFF *) then 7
  else if v <=? 72057594037927935 (* 0xFFFFFFFFFFFFFF *) then 8
  else if v <=? 9223372036854775807 (* 0x7FFFFFFFFFFFFFFF *) then 9
  else 10.

(* sizeofs::sizeof_len *)
Definition sizeof_len (l : N) : N := sizeof_varint l + l.

(* ------------------------------------------------------------------------------------------ *)
(* Reader                                                                                     *)

Inductive rres (A : Type) : Type :=
| ROk (a : A) (start' : N)
| RErr
| RPanic
| RFuel.
Arguments ROk {A} a start'.
Arguments RErr {A}.
Arguments RPanic {A}.
Arguments RFuel {A}.

Inductive mode := MChk | MRel | MInstr.

Inductive xres (A : Type) : Type :=
| XOk (a : A) (start' : N)
| XErr
| XPanic
| XFuel
| XOverrun.
Arguments XOk {A} a start'.
Arguments XErr {A}.
Arguments XPanic {A}.
Arguments XFuel {A}.
Arguments XOverrun {A}.

Definition mode_of_chk (chk : bool) : mode := if chk then MChk else MRel.
Definition is_instr (md : mode) : bool := match md with MInstr => true | _ => false end.

(* XOverrun is not an outcome of modes MChk / MRel; it is mapped to RPanic to keep `to_rres` total *)
Definition to_rres {A} (r : xres A) : rres A :=
  match r with
  | XOk a s => ROk a s
  | XErr => RErr
  | XPanic => RPanic
  | XFuel => RFuel
  | XOverrun => RPanic
  end.

Definition xbind {A B} (r : xres A) (f : A -> N -> xres B) : xres B :=
  match r with
  | XOk a s => f a s
  | XErr => XErr
  | XPanic => XPanic
  | XFuel => XFuel
  | XOverrun => XOverrun
  end.

Definition xmap {A B} (f : A -> B) (r : xres A) : xres B := xbind r (fun a s => XOk (f a) s).

(* usize arithmetic.  None = panic ("attempt to add/subtract with overflow") *)
Definition usize_add (md : mode) (a b : N) : option N :=
  if a + b <? two64 then Some (a + b)
  else match md with MRel => Some ((a + b) mod two64) | _ => None end.

Definition usize_sub (md : mode) (a b : N) : option N :=
  if b <=? a then Some (a - b)
  else match md with MRel => Some ((a + two64 - b) mod two64) | _ => None end.

(* the instrumentation point (ii): after a varint read, has `start` passed the current `end`? *)
Definition ck {A} (md : mode) (end_ : N) (r : xres A) : xres A :=
  match r with
  | XOk _ s => if is_instr md && (end_ <? s) then XOverrun else r
  | _ => r
  end.

(* bytes.get(i) *)
Fixpoint nth_N (bs : bytes) (i : N) : option N :=
  match bs with
  | [] => None
  | b :: r => if i =? 0 then Some b else nth_N r (i - 1)
  end.

(* bytes.get(s..e): None when s > e or e > len *)
Definition get_range (bs : bytes) (s e : N) : option bytes :=
  if (s <=? e) && (e <=? len bs)
  then Some (firstn (N.to_nat (e - s)) (skipn (N.to_nat s) bs))
  else None.

(* read_u8: bounded by the ARRAY, not by `end` *)
Definition read_u8 (bs : bytes) (s : N) : xres N :=
  match nth_N bs s with
  | Some b => XOk b (s + 1)
  | None => XErr                         (* Error::UnexpectedEndOfBuffer *)
  end.

(* read_varint32 (reader.rs:109-186), with its ten unrolled byte reads folded into a recursion on the
   byte index k:
     k = 0..3 : r |= (b & 0x7f) << 7k ;  k = 4 : r |= (b & 0xf) << 28 ;  k = 5..9 : byte discarded;
     a byte without the continuation bit ends the read; after ten continuation bytes Error::Varint. *)
Fixpoint rv32_go (n : nat) (k r : N) (bs : bytes) (s : N) : xres N :=
  match n with
  | O => XErr                            (* Error::Varint *)
  | S n' =>
      xbind (read_u8 bs s) (fun b s1 =>
        let r' := if k <? 4 then r + (b mod 128) * 2 ^ (7 * k)
                  else if k =? 4 then r + (b mod 16) * 2 ^ 28
                  else r in
        if b <? 128 then XOk r' s1 else rv32_go n' (k + 1) r' bs s1)
  end.
Definition read_varint32 (bs : bytes) (s : N) : xres N := rv32_go 10 0 0 bs s.

(* read_varint64 (reader.rs:190-278): r0 (28 bits) | r1 << 28 | r2 << 56 with
   r2 = (b8 & 0x7f) | (b9 as u32) << 7 and `(r2 as u64) << 56` dropping what passes bit 63:
   value = (sum_k (b_k & 0x7f) << 7k) mod 2^64; a tenth byte with the continuation bit is Error::Varint *)
Fixpoint rv64_go (n : nat) (k r : N) (bs : bytes) (s : N) : xres N :=
  match n with
  | O => XErr
  | S n' =>
      xbind (read_u8 bs s) (fun b s1 =>
        let r' := (r + (b mod 128) * 2 ^ (7 * k)) mod two64 in
        if b <? 128 then XOk r' s1 else rv64_go n' (k + 1) r' bs s1)
  end.
Definition read_varint64 (bs : bytes) (s : N) : xres N := rv64_go 10 0 0 bs s.

(* read_int32 = read_varint32 as i32 (kept as the u32 bit pattern) *)
Definition read_int32 (bs : bytes) (s : N) : xres N := read_varint32 bs s.
(* read_bool = read_varint32 != 0 *)
Definition read_bool (bs : bytes) (s : N) : xres bool :=
  xmap (fun v => negb (v =? 0)) (read_varint32 bs s).

(* read_len(read, len):  cur_end = end; end = start + len; v = read()?; start = end; end = cur_end.
   The new `end` is NOT compared with the enclosing one (instrumentation point (i)). *)
Definition read_len {A} (md : mode) (read : N -> N -> xres A) (s e l : N) : xres A :=
  if is_instr md && (e <? s + l) then XOverrun
  else match usize_add md s l with
       | None => XPanic
       | Some e' =>
           match read s e' with
           | XOk v _ => XOk v e'
           | o => o
           end
       end.

(* read_len_varint(read) = len = read_varint32()? as usize; read_len(read, len) *)
Definition read_len_varint {A} (md : mode) (bs : bytes) (read : N -> N -> xres A) (s e : N) : xres A :=
  xbind (ck md e (read_varint32 bs s)) (fun l s1 => read_len md read s1 e l).

(* read_bytes = read_len_varint(|r, b| b.get(r.start..r.end).ok_or(UnexpectedEndOfBuffer)) *)
Definition read_bytes (md : mode) (bs : bytes) (s e : N) : xres bytes :=
  read_len_varint md bs
    (fun s' e' => match get_range bs s' e' with Some w => XOk w s' | None => XErr end) s e.

(* read_message::<M> = read_len_varint(M::from_reader) *)
Definition read_message {A} (md : mode) (bs : bytes) (from_reader : N -> N -> xres A) (s e : N) : xres A :=
  read_len_varint md bs from_reader s e.

(* read_unknown(tag) (reader.rs:516-550) *)
Definition read_unknown (md : mode) (bs : bytes) (tag : N) (s e : N) : xres unit :=
  let wt := tag mod 8 in
  if wt =? 0 then xmap (fun _ => tt) (ck md e (read_varint64 bs s))
  else if (wt =? 1) || (wt =? 5) || (wt =? 2) then
    xbind (if wt =? 1 then XOk 8 s
           else if wt =? 5 then XOk 4 s
           else ck md e (read_varint64 bs s))
      (fun offset s1 =>
         match usize_sub md e s1 with                      (* self.end - self.start *)
         | None => XPanic
         | Some d =>
             if d <? offset then XErr                      (* Error::Varint *)
             else match usize_add md s1 offset with        (* self.start += offset *)
                  | None => XPanic
                  | Some s2 => XOk tt s2
                  end
         end)
  else XErr.                                               (* Deprecated("group") / UnknownWireType *)
