(* Corr_wantlist.v — engine `wantlist`: raw API histories on one `Wantlist` + one `WantlistState`
   (harness/src/e_wantlist.rs through beetswap::verif::wantlist) against Wantlist.v; the entries of a
   generated wantlist are compared as a set of full protobuf `Entry` values (flags included), the final
   snapshot as sets.  Oracle C17 is an independent fold over the history and the implementation's outputs. *)
From BS Require Export Bytes Cid Proto Types Wantlist.
Open Scope N_scope.

Inductive io := IoBool (b : bool) | IoEntries (full : bool) (es : list entry) | IoNone.
(* cids, revision, req_state (cid, code 0..4), force_update, synced_revision *)
Inductive wsnap := WSnap (cids : list cid) (rev : N) (req : list (cid * N)) (force : bool) (synced : N).

Definition win := (bool * list wop)%type.
Definition wobs := (list io * wsnap)%type.
Definition case := (win * wobs)%type.

Definition io_of (sdh : bool) (o : wout) : io :=
  match o with
  | WoBool b => IoBool b
  | WoEntries full es => IoEntries full (map (entry_of sdh) es)
  | WoNone => IoNone
  end.

Definition model (x : win) : wobs :=
  let '(outs, (w, s)) := wrun (fst x) (snd x) in
  (map (io_of (fst x)) outs,
   WSnap (wl_cids w) (wl_rev w) (map (fun e => (fst e, req_state_code (snd e))) (req s)) (force_update s) (synced_rev s)).

Definition incl_b {A} (eqb : A -> A -> bool) (a b : list A) : bool := forallb (fun x => existsb (eqb x) b) a.
Definition set_eqb {A} (eqb : A -> A -> bool) (a b : list A) : bool :=
  Nat.eqb (length a) (length b) && incl_b eqb a b && incl_b eqb b a.

Definition io_eqb (a b : io) : bool :=
  match a, b with
  | IoBool x, IoBool y => Bool.eqb x y
  | IoEntries f1 e1, IoEntries f2 e2 => Bool.eqb f1 f2 && set_eqb entry_eqb e1 e2
  | IoNone, IoNone => true
  | _, _ => false
  end.

Definition wsnap_eqb (a b : wsnap) : bool :=
  match a, b with
  | WSnap c1 r1 q1 f1 s1, WSnap c2 r2 q2 f2 s2 =>
      set_eqb cid_eqb c1 c2 && (r1 =? r2)
      && set_eqb (fun x y => cid_eqb (fst x) (fst y) && (snd x =? snd y)) q1 q2
      && Bool.eqb f1 f2 && (s1 =? s2)
  end.

Definition corr (x : case) : bool :=
  let '(outs, snap) := model (fst x) in
  list_eqb io_eqb outs (fst (snd x)) && wsnap_eqb snap (snd (snd x)).

(* ---- C17 on the implementation's outputs, by a fold that knows nothing of req_state:
   `answers` = latest HAVE (true) / DONT_HAVE (false) received per CID in this session;
   every want-block entry needs latest answer HAVE; every want entry carries priority 1 and the configured
   sendDontHave, cancel entries carry only the CID (cancel = true, everything else default);
   every entry's block is a parsable CID *)
Definition ans_set (c : cid) (b : bool) (l : list (cid * bool)) : list (cid * bool) :=
  (c, b) :: filter (fun e => negb (cid_eqb c (fst e))) l.
Definition ans_get (c : cid) (l : list (cid * bool)) : option bool :=
  match find (fun e => cid_eqb c (fst e)) l with Some e => Some (snd e) | None => None end.

Definition entry_ok (sdh : bool) (answers : list (cid * bool)) (e : entry) : bool :=
  match cid_read_bytes 64 (e_block e) with
  | Cid.ROk c =>
      if e_cancel e then
        (e_priority e =? 0) && want_type_eqb (e_want_type e) WTBlock && negb (e_send_dont_have e)
      else
        (e_priority e =? 1) && Bool.eqb (e_send_dont_have e) sdh
        && match e_want_type e with
           | WTHave => true
           | WTBlock => match ans_get c answers with Some true => true | _ => false end
           end
  | _ => false
  end.

Fixpoint c17_run (sdh : bool) (answers : list (cid * bool)) (ops : list wop) (outs : list io) : bool :=
  match ops, outs with
  | op :: ops', o :: outs' =>
      match op, o with
      | WHave c, _ => c17_run sdh (ans_set c true answers) ops' outs'
      | WDontHave c, _ => c17_run sdh (ans_set c false answers) ops' outs'
      | _, IoEntries _ es => forallb (entry_ok sdh answers) es && c17_run sdh answers ops' outs'
      | _, _ => c17_run sdh answers ops' outs'
      end
  | _, _ => true
  end.

Definition oracle_C17 (x : case) : bool := c17_run (fst (fst x)) [] (snd (fst x)) (fst (snd x)).

(* ---- C04 on the implementation's outputs, for histories that follow the client's discipline
   (e_wantlist.rs generates such histories with tag "disciplined"): the Bitswap reference view folded
   over the generated wantlists, compared with W at every generated wantlist *)
Definition view_apply_entry (v : list cid) (e : entry) : list cid :=
  match cid_read_bytes 64 (e_block e) with
  | Cid.ROk c => if e_cancel e then cid_remove c v else if cid_mem c v then v else c :: v
  | _ => v
  end.

(* state of the fold — all of it computed from API-level observables (calls made, answers received,
   entries generated), never from req_state:
     g_w     W, the CIDs of the live queries
     g_view  the Bitswap reference view of the peer
     g_told  the CIDs this peer has been told about and that are still "open": W at the last generated
             wantlist, minus a CID that is wanted again (inserted anew) after this peer delivered it
     g_ans   latest solicited answer per told CID: 0 = HAVE, 1 = DONT_HAVE, 2 = block accepted from this peer
             (an answer about a CID outside g_told is unsolicited and has no effect)
     g_deliv delivered since being asked: a block from this peer adds, a want entry sent removes *)
Record g4 := MkG4 { g_w : list cid; g_view : list cid; g_ans : list (cid * N); g_deliv : list cid; g_told : list cid; g_ok : bool }.

Definition entries_cids (want : bool) (es : list entry) : list cid :=
  flat_map (fun e => match cid_read_bytes 64 (e_block e) with
                     | Cid.ROk c => if Bool.eqb (negb (e_cancel e)) want then [c] else []
                     | _ => [] end) es.

Definition a_set (c : cid) (v : N) (l : list (cid * N)) : list (cid * N) :=
  (c, v) :: filter (fun e => negb (cid_eqb c (fst e))) l.
Definition a_get (c : cid) (l : list (cid * N)) : option N :=
  match find (fun e => cid_eqb c (fst e)) l with Some e => Some (snd e) | None => None end.
Definition a_del (c : cid) (l : list (cid * N)) : list (cid * N) := filter (fun e => negb (cid_eqb c (fst e))) l.
Definition dont_haves (g : g4) : list cid := map fst (filter (fun e => snd e =? 1) (g_ans g)).

Definition c04_step (g : g4) (op : wop) (o : io) : g4 :=
  match op, o with
  | WInsert c, IoBool true =>
      (* wanted anew: if this peer delivered it, it has to be told again *)
      let again := match a_get c (g_ans g) with Some 2 => true | _ => false end in
      MkG4 (c :: g_w g) (g_view g) (if again then a_del c (g_ans g) else g_ans g) (g_deliv g)
           (if again then cid_remove c (g_told g) else g_told g) (g_ok g)
  | WRemove c, _ => MkG4 (cid_remove c (g_w g)) (g_view g) (g_ans g) (g_deliv g) (g_told g) (g_ok g)
  | WHave c, _ =>
      if cid_mem c (g_told g) then MkG4 (g_w g) (g_view g) (a_set c 0 (g_ans g)) (g_deliv g) (g_told g) (g_ok g) else g
  | WDontHave c, _ =>
      if cid_mem c (g_told g) then MkG4 (g_w g) (g_view g) (a_set c 1 (g_ans g)) (g_deliv g) (g_told g) (g_ok g) else g
  | WBlock c, _ =>
      (* a block for c from this peer that the node accepted (the discipline puts WRemove c = true before):
         the peer forgets the want *)
      MkG4 (g_w g) (cid_remove c (g_view g))
           (if cid_mem c (g_told g) then a_set c 2 (g_ans g) else g_ans g)
           (if cid_mem c (g_deliv g) then g_deliv g else c :: g_deliv g) (g_told g) (g_ok g)
  | _, IoEntries full es =>
      let view0 := if full then [] else g_view g in
      let view1 := fold_left view_apply_entry es view0 in
      let wants := entries_cids true es in
      (* CIDs that are new for this peer must be announced now (updates and fulls alike) *)
      let announced := forallb (fun c => cid_mem c (g_told g) || cid_mem c wants) (g_w g) in
      let told1 := g_w g in
      let ans1 := filter (fun e => cid_mem (fst e) told1) (g_ans g) in
      let g1 := MkG4 (g_w g) view1 ans1 (filter (fun c => negb (cid_mem c wants)) (g_deliv g)) told1 true in
      let dh1 := dont_haves g1 in
      (* nothing further to send right after a generated wantlist: the view is sound and complete *)
      let sound := forallb (fun c => cid_mem c (g_w g)) view1 in
      let complete := forallb (fun c => cid_mem c view1 || cid_mem c dh1 || cid_mem c (g_deliv g1)) (g_w g) in
      let exact := if full then set_eqb cid_eqb wants (filter (fun c => negb (cid_mem c dh1)) (g_w g))
                               && match entries_cids false es with [] => true | _ => false end
                   else true in
      MkG4 (g_w g) view1 ans1 (g_deliv g1) told1 (g_ok g && announced && sound && complete && exact)
  | _, _ => g
  end.

Fixpoint c04_run (g : g4) (ops : list wop) (outs : list io) : g4 :=
  match ops, outs with
  | op :: ops', o :: outs' => c04_run (c04_step g op o) ops' outs'
  | _, _ => g
  end.

(* histories that follow the discipline of client.rs: WBlock c only right after a successful WRemove c,
   WWantedAgain c right after every WInsert c that returned true, and only then *)
Fixpoint disciplined (ops : list wop) (outs : list io) : bool :=
  match ops, outs with
  | WInsert c :: (WWantedAgain c' :: _) as ops', IoBool true :: outs' => cid_eqb c c' && disciplined ops' outs'
  | WInsert c :: ops', IoBool true :: outs' => false
  | WInsert c :: ops', IoBool false :: outs' =>
      match ops' with WWantedAgain _ :: _ => false | _ => disciplined ops' outs' end
  | WRemove c :: (WBlock c' :: _) as ops', IoBool r :: outs' => r && cid_eqb c c' && disciplined ops' outs'
  | WWantedAgain _ :: ops', _ :: outs' => disciplined ops' outs'      (* checked at the WInsert before it *)
  | WBlock _ :: ops', _ :: outs' => disciplined ops' outs'            (* checked at the WRemove before it *)
  | _ :: ops', _ :: outs' =>
      match ops' with WWantedAgain _ :: _ | WBlock _ :: _ => false | _ => disciplined ops' outs' end
  | _, _ => true
  end.

Definition oracle_C04 (x : case) : bool :=
  let ops := snd (fst x) in let outs := fst (snd x) in
  if disciplined ops outs then g_ok (c04_run (MkG4 [] [] [] [] [] true) ops outs) else true.

Definition is_disciplined (x : case) : bool := disciplined (snd (fst x)) (fst (snd x)).

Definition oracle (x : case) : bool := oracle_C17 x && oracle_C04 x.
