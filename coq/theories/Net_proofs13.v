(* Net_proofs13.v — package F: C14, the `records agree` half that the refresh guarantees: after a refresh every
   CID node i still wants is registered at every connected server j (want set and, by Srv_inv, waiter list). *)
From BS Require Import Server_lemmas Server_inv Server_proofs Server_live Wantlist_proofs Client_proofs
  Net Net_proofs2 Net_proofs3 Net_proofs4 Net_proofs5 Net_proofs6 Net_proofs7 Net_proofs8 Net_proofs9 Net_proofs10.
From Coq Require Import ZArith ZifyBool ZifyN ZifyNat Lia.
Open Scope N_scope.

Section Records.
  Variables (Sz : N) (Hh : hash_fn).
  Hypothesis HSz : 32 <= Sz.
  Variables (i j : N).

  Lemma quiet_wanted_registered c s :
    P2 Sz Hh i j c false s -> quietb s = true -> In c (wl_i i s) ->
    exists st, server_of s j = Some st /\ wantsP (s_wants st) i c.
  Proof.
    intros HP Hq Hc. destruct (p2_T _ _ _ _ _ _ _ HP Hc) as [_ HT].
    pose proof Hq as Hq0. unfold quietb in Hq0. rewrite !andb_true_iff in Hq0. destruct Hq0 as [[Hww Hwb] _].
    apply is_nil_true in Hww, Hwb.
    destruct HT as [HT|[HT|[HT|HT]]].
    - exfalso. destruct HT as (cl & ps & E & Hin & Hr & Hsf). unfold client_of in E. destruct (get_node s i) as [n|] eqn:Hg; [|discriminate].
      injection E as <-. pose proof (quiet_node s i n Hq Hg) as Hn. unfold node_idle, client_idle in Hn. rewrite !andb_true_iff in Hn.
      destruct Hn as [[[[[[[_ _] _] _] Htr] Hpeers] _] _]. rewrite forallb_forall in Hpeers. specialize (Hpeers _ Hin).
      unfold peer_idle in Hpeers. cbn [snd] in Hpeers. rewrite !andb_true_iff in Hpeers. destruct Hpeers as [[_ Hsf'] _].
      apply negb_true_iff in Htr, Hsf'. destruct Hsf; congruence.
    - exfalso. destruct HT as (m & Hm & _). rewrite Hww in Hm. destruct Hm.
    - destruct HT as (st & E & Hw & _). eauto.
    - exfalso. destruct HT as (m & Hm & _). rewrite Hwb in Hm. destruct Hm.
  Qed.

  (* from a quiet state, one refresh later (quiet again): everything i wants is in j's record of i *)
  Lemma refresh_registers s1 :
    i <> j -> net_ok Sz Hh s1 -> net_wf Sz s1 -> quietb s1 = true -> Net.connected s1 i j = true ->
    (length (wl_i i s1) <= 1024)%nat -> quietb (fst (refresh Sz Hh s1)) = true ->
    forall c, In c (wl_i i (fst (refresh Sz Hh s1))) ->
      exists st, server_of (fst (refresh Sz Hh s1)) j = Some st /\ wantsP (s_wants st) i c /\ waitsP (s_waiting st) i c.
  Proof.
    intros Hij Hok1 Hwf1 Hq1 Hconn1 Hsize Hq2 c Hc.
    assert (Hno : false = true -> exists st d, store_of s1 j = Some st /\ store_get st c = SHit d) by discriminate.
    pose proof (P2_after_advance Sz Hh HSz i j c false s1 Hij Hok1 Hwf1 Hq1 Hconn1 Hno Hsize) as HP.
    unfold refresh in *. set (s1' := advance Sz Hh SEND_FULL_INTERVAL s1) in *.
    destruct (settle_run Sz Hh s1') as (ops2 & Hs2 & E2). rewrite E2 in *.
    pose proof (P2_run Sz Hh HSz i j c false ops2 s1' Hij Hs2 HP) as HP2.
    destruct (quiet_wanted_registered c _ HP2 Hq2 Hc) as (st & E & Hw). exists st. split; [exact E|]. split; [exact Hw|].
    unfold server_of in E. destruct (get_node (fst (nrun Sz Hh s1' ops2)) j) as [nj|] eqn:Hg; [|discriminate]. injection E as <-.
    destruct (nk_sv _ _ _ _ _ (no_nodes _ _ _ (p2_ok _ _ _ _ _ _ _ HP2) _ _ Hg)) as ((_ & _ & HL) & _). apply HL, Hw.
  Qed.

  Theorem C14_records_agree_partial n ops :
    Forall (nop_good Sz Hh) ops -> Forall (nop_wf Sz) ops ->
    let s := fst (nrun Sz Hh (net_init n) ops) in
    Net.connected s i j = true ->
    let r1 := settle Sz Hh s in
    let r2 := refresh Sz Hh (fst r1) in
    quietb (fst r1) = true -> quietb (fst r2) = true -> (length (wl_i i (fst r1)) <= 1024)%nat ->
    forall c, In c (wl_i i (fst r2)) ->
      exists st, server_of (fst r2) j = Some st /\ wantsP (s_wants st) i c /\ waitsP (s_waiting st) i c.
  Proof.
    intros Hg Hw s Hconn r1 r2 Hq1 Hq2 Hsize c Hc.
    destruct (run_both Sz Hh HSz ops (net_init n) Hg Hw (net_ok_init Sz Hh HSz n) (net_wf_init Sz n)) as [Hok Hwf]. fold s in Hok, Hwf.
    destruct (connected_neq Sz Hh HSz s i j Hok Hconn) as (Hij & _).
    destruct (settle_run Sz Hh s) as (ops1 & Hs1 & E1). subst r2 r1. rewrite E1 in *.
    destruct (sched_run_facts Sz Hh HSz ops1 s j c Hs1 Hok Hwf) as (Hok1 & Hwf1 & Hc1 & _). cbn zeta in *.
    set (s1 := fst (nrun Sz Hh s ops1)) in *.
    assert (Hconn1 : Net.connected s1 i j = true) by (unfold Net.connected in *; rewrite Hc1; exact Hconn).
    exact (refresh_registers s1 Hij Hok1 Hwf1 Hq1 Hconn1 Hsize Hq2 c Hc).
  Qed.
End Records.
