(* NetB_proofs4.v — package S, part 4: the lost-reply scenario as a theorem (C06 / C02).  A batch from j to i carrying c is
   lost while i's query for c is live, the two stay connected and j still holds c: `settle` + `refresh` end quiet, the query
   is answered, and afterwards i's wantlist and j's want set for i agree again.  (That the answer is a SECOND batch from j
   is shown for the concrete scenario, NetB_proofs3 `loss_scenario`; in general another holder of c connected to i may
   answer first, so the general statement here is about the answer, not about who sent it.) *)
From BS Require Import Server_inv Net Net_proofs5 Net_proofs7 Net_proofs9 Net_proofs10 Net_proofs14 Net_proofs24 Net_proofs28
  Net_proofs32 Net_proofs35 Net_proofs36 NetB NetB_proofs NetB_proofs2.
From Coq Require Import ZArith Lia.
Open Scope N_scope.

Section LostReply.
  Variables (Sz : N) (Hh : hash_fn).
  Hypothesis HSz : 32 <= Sz.

  Theorem C06_lost_reply_reserved_partial (i j : N) (q : qid) (c : cid) n ops m :
    Forall (nop_good Sz Hh) (base_ops ops) -> Forall (nop_wf Sz) (base_ops ops) ->
    let s0 := fst (brun Sz Hh (net_init n) ops) in
    next_batch s0 j i = Some m -> In c (map fst (bm_blocks m)) ->
    let s := fst (bstep Sz Hh s0 (BLoseB j i)) in
    live_query i q c s -> Net.connected s i j = true ->
    (exists st d, store_of s j = Some st /\ store_get st c = SHit d) ->
    let r1 := settle Sz Hh s in
    let r2 := refresh Sz Hh (fst r1) in
    (length (wl_i i (fst r1)) <= 1024)%nat ->
    (exists rest, take_first (b_between j i) (wire_b s0) = Some (m, rest) /\ wire_b s = rest /\ nodes s = nodes s0) /\
    quietb (fst r1) = true /\ quietb (fst r2) = true /\
    answered i q (snd r1 ++ snd r2) /\
    (forall c', In c' (wl_i i (fst r2)) <-> (exists st, server_of (fst r2) j = Some st /\ wantsP (s_wants st) i c')).
  Proof.
    intros Hg Hw s0 Hnb Hc s Hlive Hconn Hst r1 r2 Hsz.
    pose proof (reachableB_BI Sz Hh HSz n ops Hg Hw) as HB0. fold s0 in HB0.
    assert (HB : BI Sz Hh s) by (apply (BI_bstep Sz Hh HSz s0 (BLoseB j i)); [exact I | exact I | exact HB0]).
    pose proof (proj1 HB) as HR.
    split; [|split; [|split; [|split]]].
    - unfold next_batch in Hnb. destruct (take_first (b_between j i) (wire_b s0)) as [[m0 rest]|] eqn:Et; [|discriminate].
      cbn [option_map fst] in Hnb. injection Hnb as ->. exists rest. split; [reflexivity|].
      unfold s. cbn [bstep]. rewrite (lose_b_spec s0 j i m rest Et). cbn [wire_b nodes]. split; reflexivity.
    - apply (settle_terminates_RI Sz Hh HSz), HR.
    - unfold r2, refresh. apply (settle_terminates_RI Sz Hh HSz), (RI_advance Sz Hh HSz).
      apply (g_RI Sz Hh HSz (settle Sz Hh) (settle_run Sz Hh)), HR.
    - exact (C02_direct_BI Sz Hh HSz i j q c s HB Hlive Hconn Hst Hsz).
    - exact (C14_records_equal_BI Sz Hh HSz i j s HB Hconn Hsz).
  Qed.
End LostReply.
