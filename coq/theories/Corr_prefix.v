(* Corr_prefix.v — correspondence engine `prefix`: what the harness runs on the implementation
   (harness/src/e_prefix.rs) and what the model says for the same input; plus the C12 oracle that is
   evaluated on the IMPLEMENTATION's outputs. *)
From BS Require Export Bytes Varint Cid Prefix Hasher.
Open Scope N_scope.

Inductive to_cid_out := ToOk (c : cid) | ToErr (e : hash_err) | ToPanic | ToNoPrefix.

Inductive pin :=
| PFromBytes (bs : bytes)
| PRoundtrip (c : cid)
| PToCid (S : N) (pbytes : bytes) (data : bytes) (raw : list (N * bytes)).  (* digests of `data` under the table codes *)

Inductive pout :=
| PoPrefix (p : option prefix)
| PoRound (p : prefix) (bs : bytes) (back : option prefix)
| PoToCid (r : to_cid_out)
| PoPanic.

Definition hash_err_eqb (a b : hash_err) : bool :=
  match a, b with
  | UnknownMultihashCode, UnknownMultihashCode | InvalidMultihashSize, InvalidMultihashSize
  | CustomErr, CustomErr | CustomFatalErr, CustomFatalErr => true
  | _, _ => false
  end.

Definition to_cid_out_eqb (a b : to_cid_out) : bool :=
  match a, b with
  | ToOk x, ToOk y => cid_eqb x y
  | ToErr x, ToErr y => hash_err_eqb x y
  | ToPanic, ToPanic | ToNoPrefix, ToNoPrefix => true
  | _, _ => false
  end.

Definition pout_eqb (a b : pout) : bool :=
  match a, b with
  | PoPrefix x, PoPrefix y => option_eqb prefix_eqb x y
  | PoRound p1 b1 k1, PoRound p2 b2 k2 => prefix_eqb p1 p2 && bytes_eqb b1 b2 && option_eqb prefix_eqb k1 k2
  | PoToCid x, PoToCid y => to_cid_out_eqb x y
  | PoPanic, PoPanic => true
  | _, _ => false
  end.

Definition raw_for (data : bytes) (raw : list (N * bytes)) : raw_fn :=
  fun code d =>
    if bytes_eqb d data then
      (fix find l := match l with
                     | [] => None
                     | (c, dig) :: rest => if c =? code then Some dig else find rest
                     end) raw
    else None.

Definition model (x : pin) : pout :=
  match x with
  | PFromBytes bs => PoPrefix (prefix_from_bytes bs)
  | PRoundtrip c =>
      let p := prefix_of_cid c in
      PoRound p (prefix_to_bytes p) (prefix_from_bytes (prefix_to_bytes p))
  | PToCid cap pb data raw =>
      match prefix_from_bytes pb with
      | None => PoToCid ToNoPrefix
      | Some p =>
          match prefix_to_cid cap (table_hash (table_new cap (raw_for data raw))) p data with
          | TOk c => PoToCid (ToOk c)
          | TErr e => PoToCid (ToErr e)
          | TPanic => PoToCid ToPanic
          end
      end
  end.

Definition case := (pin * pout)%type.

Definition corr (x : case) : bool := pout_eqb (model (fst x)) (snd x).

(* C12 oracle on the implementation's own outputs:
   - round trip: parsing the serialised prefix of a CID gives back that prefix, whose fields are the CID's;
   - rebuild: a CID rebuilt from a parsed prefix has the table's digest of the data as its digest, the
     prefix's version (and codec for v1); never a panic; a declared size above S is an error. *)
Definition oracle (x : case) : bool :=
  match x with
  | (PRoundtrip c, PoRound p bs back) =>
      prefix_eqb p (prefix_of_cid c) && option_eqb prefix_eqb back (Some p)
  | (PToCid cap pb data raw, PoToCid r) =>
      (* a prefix that DECLARES a digest longer than the capacity is rejected, whatever the real digest is *)
      (match prefix_from_bytes pb with
       | Some p => if cap <? p_size p then to_cid_out_eqb r (ToErr InvalidMultihashSize) else true
       | None => true
       end) &&
      match r with
      | ToPanic => false
      | ToOk c =>
          match raw_for data raw (mh_code (c_hash c)) data with
          | Some dig => bytes_eqb dig (mh_digest (c_hash c)) && (len dig <=? cap)
          | None => false
          end
      | _ => true
      end &&
      (* completeness ("exactly when"): a prefix that parses, declares a size within the capacity, and data for which the table has a
         digest that fits and makes a legal CID under the prefix's version and codec: the rebuild must succeed with exactly that CID —
         whatever the data is (the empty string included) *)
      match prefix_from_bytes pb with
      | Some p =>
          if cap <? p_size p then true else
          match raw_for data raw (p_code p) data with
          | Some dig =>
              if len dig <=? cap then
                match cid_new (p_ver p) (p_codec p) (MkMh (p_code p) dig) with
                | inl c => match r with ToOk c' => cid_eqb c c' | _ => false end
                | inr _ => true
                end
              else true
          | None => true
          end
      | None => true
      end
  | (_, PoPanic) => false
  | _ => true
  end.
