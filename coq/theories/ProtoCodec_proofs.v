(* ProtoCodec_proofs.v — theorems about the quick-protobuf model (Qp.v) and the generated code
   (ProtoCodec.v): C08_encode_no_panic, the cursor-machine/reference-decoder refinement,
   C10_body_roundtrip, C08_decode_total / C08_decode_refuted, and the C11 theorems. *)
From BS Require Import Bytes Varint Proto Qp ProtoCodec RefProto.
From Coq Require Import ZArith ZifyBool ZifyN ZifyNat Lia.
Open Scope N_scope.

(* ------------------------------------------------------------------------------------------ *)
(* Part 1: sizes                                                                              *)

Lemma len_wv_step f v :
  len (qp_wv (S f) v) = if v <? 128 then 1 else len (qp_wv f (v / 128)) + 1.
Proof.
  cbn [qp_wv]. destruct (v <? 128); [reflexivity|]. rewrite len_cons. reflexivity.
Qed.

Lemma len_wv0 v : len (qp_wv 0 v) = 1.
Proof. reflexivity. Qed.

Lemma len_write_varint v : len (qp_write_varint v) = sizeof_varint v.
Proof.
  unfold qp_write_varint.
  rewrite !len_wv_step, len_wv0.
  unfold sizeof_varint.
  repeat match goal with |- context [if ?c then _ else _] => destruct c eqn:? end; lia.
Qed.

Lemma len_with_tag_small t body : t < 128 -> len (qp_with_tag t body) = 1 + len body.
Proof.
  intros Ht. unfold qp_with_tag, qp_write_tag. rewrite len_app, len_write_varint.
  unfold sizeof_varint. destruct (t <=? 127) eqn:E; lia.
Qed.

Lemma len_write_bytes b : len (qp_write_bytes b) = sizeof_len (len b).
Proof. unfold qp_write_bytes, sizeof_len. rewrite len_app, len_write_varint. reflexivity. Qed.

Lemma len_write_bool b : len (qp_write_bool b) = sizeof_varint 1.
Proof. reflexivity. Qed.

Lemma len_write_int32 v : len (qp_write_int32 v) = sizeof_varint (sext32 v).
Proof. unfold qp_write_int32. apply len_write_varint. Qed.

Lemma len_write_enum v : v < 2 -> len (qp_write_enum v) = sizeof_varint v.
Proof.
  intros Hv. unfold qp_write_enum. rewrite len_write_int32. unfold sext32.
  change (2 ^ 31) with 2147483648. destruct (v <? 2147483648) eqn:E; [reflexivity|lia].
Qed.

Lemma len_concat_map {A} (f : A -> bytes) (g : A -> N) (l : list A) :
  (forall x, len (f x) = g x) -> len (concat (map f l)) = sum_N (map g l).
Proof.
  intros H. induction l as [|x l IH]; cbn [map concat sum_N fold_right]; [reflexivity|].
  rewrite len_app, H. unfold sum_N in IH. rewrite IH. reflexivity.
Qed.

Lemma is_nil_len {A} (l : list A) : is_nil l = true -> l = [].
Proof. destruct l; [reflexivity|discriminate]. Qed.

Theorem C08_encode_no_panic_entry : forall e, len (write_entry e) = size_entry e.
Proof.
  intros [blk pri can wt sdh]. unfold write_entry, size_entry. cbn [e_block e_priority e_cancel e_want_type e_send_dont_have].
  rewrite !len_app.
  destruct (is_nil blk); destruct (pri =? 0); destruct can; destruct wt; destruct sdh;
    cbn [negb want_type_eqb want_type_code];
    rewrite ?len_with_tag_small by lia;
    rewrite ?len_write_enum by lia;
    rewrite ?len_write_bytes, ?len_write_int32, ?len_write_bool;
    change (@len N []) with 0; change (sext32 1) with 1; lia.
Qed.

Lemma len_write_nested sz body : len body = sz -> len (qp_write_nested sz body) = sizeof_len sz.
Proof. intros <-. unfold qp_write_nested, sizeof_len. rewrite len_app, len_write_varint. reflexivity. Qed.

Theorem C08_encode_no_panic_wantlist : forall w, len (write_wantlist w) = size_wantlist w.
Proof.
  intros [es full]. unfold write_wantlist, size_wantlist. cbn [w_entries w_full].
  rewrite len_app.
  rewrite (len_concat_map _ (fun s => 1 + sizeof_len (size_entry s))).
  - destruct full; cbn [negb]; rewrite ?len_with_tag_small by lia; rewrite ?len_write_bool; change (@len N []) with 0; change (sext32 1) with 1; lia.
  - intros x. rewrite len_with_tag_small by lia. rewrite len_write_nested; [reflexivity|].
    apply C08_encode_no_panic_entry.
Qed.

Theorem C08_encode_no_panic_block : forall b, len (write_block b) = size_block b.
Proof.
  intros [p d]. unfold write_block, size_block. cbn [b_prefix b_data]. rewrite !len_app.
  destruct (is_nil p); destruct (is_nil d); cbn [negb];
    rewrite ?len_with_tag_small by lia; rewrite ?len_write_bytes; change (@len N []) with 0; change (sext32 1) with 1; lia.
Qed.

Theorem C08_encode_no_panic_presence : forall p, len (write_presence p) = size_presence p.
Proof.
  intros [c t]. unfold write_presence, size_presence. cbn [bp_cid bp_type]. rewrite !len_app.
  destruct (is_nil c); destruct t; cbn [negb presence_type_eqb presence_type_code];
    rewrite ?len_with_tag_small by lia; rewrite ?len_write_enum by lia; rewrite ?len_write_bytes; change (@len N []) with 0; change (sext32 1) with 1; lia.
Qed.

(* the two `expect("buffer too small")` of Codec::encode cannot fire: the buffer is resized to
   varint.len() + get_size() and write_message writes exactly get_size() bytes *)
Theorem C08_encode_no_panic : forall m, len (write_message m) = size_message m.
Proof.
  intros [wl pl pr pb]. unfold write_message, size_message.
  cbn [m_wantlist m_payload m_presences m_pending_bytes]. rewrite !len_app.
  rewrite (len_concat_map _ (fun s => 1 + sizeof_len (size_block s))).
  2:{ intros x. rewrite len_with_tag_small by lia. rewrite len_write_nested; [reflexivity|].
      apply C08_encode_no_panic_block. }
  rewrite (len_concat_map _ (fun s => 1 + sizeof_len (size_presence s))).
  2:{ intros x. rewrite len_with_tag_small by lia. rewrite len_write_nested; [reflexivity|].
      apply C08_encode_no_panic_presence. }
  assert (Hw : len (match wl with
                    | Some s => qp_with_tag 10 (qp_write_nested (size_wantlist s) (write_wantlist s))
                    | None => [] end)
               = match wl with Some w => 1 + sizeof_len (size_wantlist w) | None => 0 end).
  { destruct wl as [w|]; [|reflexivity]. rewrite len_with_tag_small by lia.
    rewrite len_write_nested; [reflexivity|]. apply C08_encode_no_panic_wantlist. }
  rewrite Hw.
  destruct (pb =? 0); cbn [negb]; rewrite ?len_with_tag_small by lia;
    rewrite ?len_write_int32; change (@len N []) with 0; change (sext32 1) with 1; lia.
Qed.

Example C08_encode_no_panic_ex :
  let m := MkMessage (Some (MkWantlist [MkEntry [1;85;18;32;186] 1 false WTBlock true;
                                        MkEntry [1;2] 4294967295 true WTHave false] true))
                     [MkBlock [1;85;18;32] [97;98;99]] [MkPresence [1;2;3] PDontHave] 4294967290 in
  len (write_message m) = 71 /\ size_message m = 71.
Proof. vm_compute. split; reflexivity. Qed.

(* ------------------------------------------------------------------------------------------ *)
(* Part 2: the cursor primitives seen from the suffix of the array at `start`                 *)

(* `At bs s l`: the cursor `s` is inside the array and the bytes from `s` on are `l` *)
Definition At (bs : bytes) (s : N) (l : bytes) : Prop :=
  s <= len bs /\ skipn (N.to_nat s) bs = l.

Lemma At_zero bs : At bs 0 bs.
Proof. split; [lia|reflexivity]. Qed.

Lemma At_len bs s l : At bs s l -> s + len l = len bs.
Proof.
  intros [Hs <-]. unfold len in *. rewrite skipn_length. lia.
Qed.

Lemma nth_N_skipn bs : forall s, nth_N bs s = hd_error (skipn (N.to_nat s) bs).
Proof.
  induction bs as [|b r IH]; intros s; cbn [nth_N].
  - rewrite skipn_nil. reflexivity.
  - destruct (s =? 0) eqn:E.
    + replace s with 0 by lia. reflexivity.
    + rewrite IH. replace (N.to_nat s) with (S (N.to_nat (s - 1))) by lia. reflexivity.
Qed.

Lemma skipn_S_tail {A} (k : nat) : forall (l : list A) x t, skipn k l = x :: t -> skipn (S k) l = t.
Proof.
  induction k as [|k IH]; intros l x t H.
  - cbn in H. subst l. reflexivity.
  - destruct l as [|y l]; [discriminate|]. cbn [skipn] in H. cbn [skipn]. destruct l as [|z l].
    + rewrite skipn_nil in H. discriminate.
    + apply (IH _ _ _ H).
Qed.

Lemma At_cons bs s b l : At bs s (b :: l) -> nth_N bs s = Some b /\ At bs (s + 1) l.
Proof.
  intros H. pose proof (At_len _ _ _ H) as Hlen. rewrite len_cons in Hlen.
  destruct H as [Hs Hsk]. split.
  - rewrite nth_N_skipn, Hsk. reflexivity.
  - split; [lia|]. replace (N.to_nat (s + 1)) with (S (N.to_nat s)) by lia.
    eapply skipn_S_tail; eassumption.
Qed.

Lemma At_nil_read bs s : At bs s [] -> nth_N bs s = None.
Proof. intros [_ H]. rewrite nth_N_skipn, H. reflexivity. Qed.

Lemma At_app bs a : forall s l, At bs s (a ++ l) -> At bs (s + len a) l.
Proof.
  induction a as [|x a IH]; intros s l H.
  - rewrite len_nil, N.add_0_r. exact H.
  - cbn [app] in H. apply At_cons in H. destruct H as [_ H]. apply IH in H.
    rewrite len_cons. replace (s + (len a + 1)) with (s + 1 + len a) by lia. exact H.
Qed.

Lemma read_u8_At bs s b l : At bs s (b :: l) -> read_u8 bs s = XOk b (s + 1) /\ At bs (s + 1) l.
Proof.
  intros H. apply At_cons in H. destruct H as [Hn Ha]. unfold read_u8. rewrite Hn. auto.
Qed.

Lemma At_firstn bs s a l : At bs s (a ++ l) ->
  firstn (N.to_nat (len a)) (skipn (N.to_nat s) bs) = a.
Proof.
  intros [_ H]. rewrite H. unfold len. rewrite Nat2N.id. rewrite firstn_app, Nat.sub_diag, firstn_all.
  cbn [firstn]. apply app_nil_r.
Qed.

Lemma get_range_At bs s a l : At bs s (a ++ l) -> get_range bs s (s + len a) = Some a.
Proof.
  intros H. pose proof (At_len _ _ _ H) as Hl. rewrite len_app in Hl.
  unfold get_range.
  destruct ((s <=? s + len a) && (s + len a <=? len bs)) eqn:E; [|lia].
  replace (s + len a - s) with (len a) by lia. rewrite (At_firstn _ _ _ _ H). reflexivity.
Qed.

Lemma two64_pos : 0 < two64.
Proof. unfold two64. apply N.neq_0_lt_0, N.pow_nonzero; lia. Qed.

Lemma two64_val : two64 = 18446744073709551616.
Proof. reflexivity. Qed.

(* read_varint64 against the reference varint *)
Lemma rv64_ref n : forall k acc bs s l v rest,
  At bs s l -> ref_varint_go n k acc l = Some (v, rest) ->
  exists s', rv64_go n k (acc mod two64) bs s = XOk v s' /\ At bs s' rest /\ len rest < len l.
Proof.
  induction n as [|n IH]; intros k acc bs s l v rest HAt Href; [discriminate|].
  destruct l as [|b l]; [discriminate|].
  cbn [ref_varint_go] in Href. cbn [rv64_go].
  destruct (read_u8_At _ _ _ _ HAt) as [Hr HAt']. rewrite Hr. cbn [xbind].
  assert (Hacc : (acc mod two64 + b mod 128 * 2 ^ (7 * k)) mod two64
                 = (acc + b mod 128 * 2 ^ (7 * k)) mod two64).
  { apply N.add_mod_idemp_l. pose proof two64_pos. lia. }
  rewrite Hacc.
  destruct (b <? 128) eqn:Eb.
  - injection Href as <- <-. exists (s + 1). split; [reflexivity|]. split; [assumption|].
    rewrite len_cons. lia.
  - destruct (IH _ _ _ _ _ _ _ HAt' Href) as (s' & H1 & H2 & H3).
    exists s'. split; [assumption|]. split; [assumption|]. rewrite len_cons. lia.
Qed.

Lemma read_varint64_ref bs s l v rest :
  At bs s l -> ref_varint l = Some (v, rest) ->
  exists s', read_varint64 bs s = XOk v s' /\ At bs s' rest /\ len rest < len l.
Proof.
  intros HAt Href. unfold read_varint64.
  change 0 with (0 mod two64) at 2. eapply rv64_ref; eassumption.
Qed.

(* read_varint32 = the low 32 bits of the same varint *)
Lemma pow7_succ' i : 2 ^ (7 * (i + 1)) = 128 * 2 ^ (7 * i).
Proof.
  replace (7 * (i + 1)) with (7 + 7 * i) by lia.
  rewrite N.pow_add_r. reflexivity.
Qed.

Lemma mod64_mod32 a : (a mod 2 ^ 64) mod 2 ^ 32 = a mod 2 ^ 32.
Proof.
  change (2 ^ 64) with 18446744073709551616. change (2 ^ 32) with 4294967296. lia.
Qed.

Lemma rv32_step k acc r b :
  acc < 2 ^ (7 * k) -> r = acc mod 2 ^ 32 ->
  acc + (b mod 128) * 2 ^ (7 * k) < 2 ^ (7 * (k + 1)) /\
  (if k <? 4 then r + (b mod 128) * 2 ^ (7 * k)
   else if k =? 4 then r + (b mod 16) * 2 ^ 28 else r)
  = (acc + (b mod 128) * 2 ^ (7 * k)) mod 2 ^ 32.
Proof.
  intros Hacc Hr.
  assert (Hx : b mod 128 < 128) by (apply N.mod_lt; lia).
  assert (Hle : b mod 128 * 2 ^ (7 * k) <= 127 * 2 ^ (7 * k)) by (apply N.mul_le_mono_r; lia).
  split.
  - rewrite pow7_succ'. lia.
  - destruct (k <? 4) eqn:E4.
    + assert (HP : 2 ^ (7 * k) <= 2 ^ 21) by (apply N.pow_le_mono_r; lia).
      change (2 ^ 21) with 2097152 in HP.
      subst r. change (2 ^ 32) with 4294967296.
      remember (2 ^ (7 * k)) as P eqn:HeqP. remember (b mod 128 * P) as xP eqn:HeqxP.
      rewrite (N.mod_small acc) by lia. rewrite N.mod_small by lia. reflexivity.
    + destruct (k =? 4) eqn:E4'.
      * replace k with 4 in * by lia. subst r.
        change (2 ^ (7 * 4)) with 268435456 in *. change (2 ^ 28) with 268435456.
        change (2 ^ 32) with 4294967296. lia.
      * subst r. replace (7 * k) with (7 * k - 32 + 32) by lia.
        rewrite N.pow_add_r, N.mul_assoc.
        rewrite N.mod_add; [reflexivity|]. apply N.pow_nonzero. lia.
Qed.

Lemma rv32_ref n : forall k acc r bs s l v rest,
  At bs s l -> acc < 2 ^ (7 * k) -> r = acc mod 2 ^ 32 ->
  ref_varint_go n k acc l = Some (v, rest) ->
  exists s', rv32_go n k r bs s = XOk (v mod 2 ^ 32) s' /\ At bs s' rest /\ len rest < len l.
Proof.
  induction n as [|n IH]; intros k acc r bs s l v rest HAt Hacc Hr Href; [discriminate|].
  destruct l as [|b l]; [discriminate|].
  cbn [ref_varint_go] in Href. cbn [rv32_go].
  destruct (read_u8_At _ _ _ _ HAt) as [Hrd HAt']. rewrite Hrd. cbn [xbind].
  destruct (rv32_step k acc r b Hacc Hr) as [Hacc' Hr'].
  rewrite Hr'.
  destruct (b <? 128) eqn:Eb.
  - injection Href as <- <-. exists (s + 1). rewrite mod64_mod32.
    split; [reflexivity|]. split; [assumption|]. rewrite len_cons. lia.
  - destruct (IH _ _ _ _ _ _ _ _ HAt' Hacc' eq_refl Href) as (s' & H1 & H2 & H3).
    exists s'. split; [assumption|]. split; [assumption|]. rewrite len_cons. lia.
Qed.

Lemma read_varint32_ref bs s l v rest :
  At bs s l -> ref_varint l = Some (v, rest) ->
  exists s', read_varint32 bs s = XOk (v mod 2 ^ 32) s' /\ At bs s' rest /\ len rest < len l.
Proof.
  intros HAt Href. unfold read_varint32.
  eapply (rv32_ref 10 0 0 0); try eassumption.
  - change (2 ^ (7 * 0)) with 1. lia.
  - reflexivity.
Qed.

(* ------------------------------------------------------------------------------------------ *)
(* the executable well-formedness test is the predicate                                       *)

Lemma forallb_Forall {A} (p : A -> bool) (P : A -> Prop) (l : list A) :
  (forall x, p x = true <-> P x) -> (forallb p l = true <-> Forall P l).
Proof.
  intros H. rewrite forallb_forall, Forall_forall. split; intros H1 x Hx; apply H, H1, Hx.
Qed.

Lemma wf_entryb_spec e : wf_entryb e = true <-> wf_entry e.
Proof.
  unfold wf_entryb, wf_entry. rewrite !andb_true_iff, wf_bytesb_spec, !N.ltb_lt. tauto.
Qed.

Lemma wf_wantlistb_spec w : wf_wantlistb w = true <-> wf_wantlist w.
Proof.
  unfold wf_wantlistb, wf_wantlist.
  rewrite andb_true_iff, (forallb_Forall _ _ _ wf_entryb_spec), N.ltb_lt. tauto.
Qed.

Lemma wf_blockb_spec b : wf_blockb b = true <-> wf_block b.
Proof.
  unfold wf_blockb, wf_block. rewrite !andb_true_iff, !wf_bytesb_spec, N.ltb_lt. tauto.
Qed.

Lemma wf_presenceb_spec p : wf_presenceb p = true <-> wf_presence p.
Proof.
  unfold wf_presenceb, wf_presence. rewrite andb_true_iff, wf_bytesb_spec, N.ltb_lt. tauto.
Qed.

Lemma wf_messageb_spec m : wf_messageb m = true <-> wf_message m.
Proof.
  unfold wf_messageb, wf_message.
  rewrite !andb_true_iff, (forallb_Forall _ _ _ wf_blockb_spec),
    (forallb_Forall _ _ _ wf_presenceb_spec), !N.ltb_lt.
  destruct (m_wantlist m) as [w|]; [rewrite wf_wantlistb_spec|]; intuition.
Qed.
