(* ProtoCodec_proofs.v — theorems about the quick-protobuf model (Qp.v) and the generated code
   (ProtoCodec.v): C08_encode_no_panic, the cursor-machine/reference-decoder refinement,
   C10_body_roundtrip, C08_decode_total / C08_decode_refuted, and the C11 theorems. *)
From BS Require Import Bytes Varint Proto Qp ProtoCodec RefProto.
From Coq Require Import ZArith ZifyBool ZifyN ZifyNat Lia.
Open Scope N_scope.

(* ------------------------------------------------------------------------------------------ *)
(* Part 1: sizes                                                                              *)

Lemma len_wv_step f v :
  len (qp_wv (S f) v) = if v <? 128 then 1 else len (qp_wv f (v / 128)) + 1.
Proof.
  cbn [qp_wv]. destruct (v <? 128); [reflexivity|]. rewrite len_cons. reflexivity.
Qed.

Lemma len_wv0 v : len (qp_wv 0 v) = 1.
Proof. reflexivity. Qed.

Lemma len_write_varint v : len (qp_write_varint v) = sizeof_varint v.
Proof.
  unfold qp_write_varint.
  rewrite !len_wv_step, len_wv0.
  unfold sizeof_varint.
  repeat match goal with |- context [if ?c then _ else _] => destruct c eqn:? end; lia.
Qed.

Lemma len_with_tag_small t body : t < 128 -> len (qp_with_tag t body) = 1 + len body.
Proof.
  intros Ht. unfold qp_with_tag, qp_write_tag. rewrite len_app, len_write_varint.
  unfold sizeof_varint. destruct (t <=? 127) eqn:E; lia.
Qed.

Lemma len_write_bytes b : len (qp_write_bytes b) = sizeof_len (len b).
Proof. unfold qp_write_bytes, sizeof_len. rewrite len_app, len_write_varint. reflexivity. Qed.

Lemma len_write_bool b : len (qp_write_bool b) = sizeof_varint 1.
Proof. reflexivity. Qed.

Lemma len_write_int32 v : len (qp_write_int32 v) = sizeof_varint (sext32 v).
Proof. unfold qp_write_int32. apply len_write_varint. Qed.

Lemma len_write_enum v : v < 2 -> len (qp_write_enum v) = sizeof_varint v.
Proof.
  intros Hv. unfold qp_write_enum. rewrite len_write_int32. unfold sext32.
  change (2 ^ 31) with 2147483648. destruct (v <? 2147483648) eqn:E; [reflexivity|lia].
Qed.

Lemma len_concat_map {A} (f : A -> bytes) (g : A -> N) (l : list A) :
  (forall x, len (f x) = g x) -> len (concat (map f l)) = sum_N (map g l).
Proof.
  intros H. induction l as [|x l IH]; cbn [map concat sum_N fold_right]; [reflexivity|].
  rewrite len_app, H. unfold sum_N in IH. rewrite IH. reflexivity.
Qed.

Lemma is_nil_len {A} (l : list A) : is_nil l = true -> l = [].
Proof. destruct l; [reflexivity|discriminate]. Qed.

Theorem C08_encode_no_panic_entry : forall e, len (write_entry e) = size_entry e.
Proof.
  intros [blk pri can wt sdh]. unfold write_entry, size_entry. cbn [e_block e_priority e_cancel e_want_type e_send_dont_have].
  rewrite !len_app.
  destruct (is_nil blk); destruct (pri =? 0); destruct can; destruct wt; destruct sdh;
    cbn [negb want_type_eqb want_type_code];
    rewrite ?len_with_tag_small by lia;
    rewrite ?len_write_enum by lia;
    rewrite ?len_write_bytes, ?len_write_int32, ?len_write_bool;
    change (@len N []) with 0; change (sext32 1) with 1; lia.
Qed.

Lemma len_write_nested sz body : len body = sz -> len (qp_write_nested sz body) = sizeof_len sz.
Proof. intros <-. unfold qp_write_nested, sizeof_len. rewrite len_app, len_write_varint. reflexivity. Qed.

Theorem C08_encode_no_panic_wantlist : forall w, len (write_wantlist w) = size_wantlist w.
Proof.
  intros [es full]. unfold write_wantlist, size_wantlist. cbn [w_entries w_full].
  rewrite len_app.
  rewrite (len_concat_map _ (fun s => 1 + sizeof_len (size_entry s))).
  - destruct full; cbn [negb]; rewrite ?len_with_tag_small by lia; rewrite ?len_write_bool; change (@len N []) with 0; change (sext32 1) with 1; lia.
  - intros x. rewrite len_with_tag_small by lia. rewrite len_write_nested; [reflexivity|].
    apply C08_encode_no_panic_entry.
Qed.

Theorem C08_encode_no_panic_block : forall b, len (write_block b) = size_block b.
Proof.
  intros [p d]. unfold write_block, size_block. cbn [b_prefix b_data]. rewrite !len_app.
  destruct (is_nil p); destruct (is_nil d); cbn [negb];
    rewrite ?len_with_tag_small by lia; rewrite ?len_write_bytes; change (@len N []) with 0; change (sext32 1) with 1; lia.
Qed.

Theorem C08_encode_no_panic_presence : forall p, len (write_presence p) = size_presence p.
Proof.
  intros [c t]. unfold write_presence, size_presence. cbn [bp_cid bp_type]. rewrite !len_app.
  destruct (is_nil c); destruct t; cbn [negb presence_type_eqb presence_type_code];
    rewrite ?len_with_tag_small by lia; rewrite ?len_write_enum by lia; rewrite ?len_write_bytes; change (@len N []) with 0; change (sext32 1) with 1; lia.
Qed.

(* the two `expect("buffer too small")` of Codec::encode cannot fire: the buffer is resized to
   varint.len() + get_size() and write_message writes exactly get_size() bytes *)
Theorem C08_encode_no_panic : forall m, len (write_message m) = size_message m.
Proof.
  intros [wl pl pr pb]. unfold write_message, size_message.
  cbn [m_wantlist m_payload m_presences m_pending_bytes]. rewrite !len_app.
  rewrite (len_concat_map _ (fun s => 1 + sizeof_len (size_block s))).
  2:{ intros x. rewrite len_with_tag_small by lia. rewrite len_write_nested; [reflexivity|].
      apply C08_encode_no_panic_block. }
  rewrite (len_concat_map _ (fun s => 1 + sizeof_len (size_presence s))).
  2:{ intros x. rewrite len_with_tag_small by lia. rewrite len_write_nested; [reflexivity|].
      apply C08_encode_no_panic_presence. }
  assert (Hw : len (match wl with
                    | Some s => qp_with_tag 10 (qp_write_nested (size_wantlist s) (write_wantlist s))
                    | None => [] end)
               = match wl with Some w => 1 + sizeof_len (size_wantlist w) | None => 0 end).
  { destruct wl as [w|]; [|reflexivity]. rewrite len_with_tag_small by lia.
    rewrite len_write_nested; [reflexivity|]. apply C08_encode_no_panic_wantlist. }
  rewrite Hw.
  destruct (pb =? 0); cbn [negb]; rewrite ?len_with_tag_small by lia;
    rewrite ?len_write_int32; change (@len N []) with 0; change (sext32 1) with 1; lia.
Qed.

Example C08_encode_no_panic_ex :
  let m := MkMessage (Some (MkWantlist [MkEntry [1;85;18;32;186] 1 false WTBlock true;
                                        MkEntry [1;2] 4294967295 true WTHave false] true))
                     [MkBlock [1;85;18;32] [97;98;99]] [MkPresence [1;2;3] PDontHave] 4294967290 in
  len (write_message m) = 71 /\ size_message m = 71.
Proof. vm_compute. split; reflexivity. Qed.

(* ------------------------------------------------------------------------------------------ *)
(* Part 2: the cursor primitives seen from the suffix of the array at `start`                 *)

(* `At bs s l`: the cursor `s` is inside the array and the bytes from `s` on are `l` *)
Definition At (bs : bytes) (s : N) (l : bytes) : Prop :=
  s <= len bs /\ skipn (N.to_nat s) bs = l.

Lemma At_zero bs : At bs 0 bs.
Proof. split; [lia|reflexivity]. Qed.

Lemma At_len bs s l : At bs s l -> s + len l = len bs.
Proof.
  intros [Hs <-]. unfold len in *. rewrite skipn_length. lia.
Qed.

Lemma nth_N_skipn bs : forall s, nth_N bs s = hd_error (skipn (N.to_nat s) bs).
Proof.
  induction bs as [|b r IH]; intros s; cbn [nth_N].
  - rewrite skipn_nil. reflexivity.
  - destruct (s =? 0) eqn:E.
    + replace s with 0 by lia. reflexivity.
    + rewrite IH. replace (N.to_nat s) with (S (N.to_nat (s - 1))) by lia. reflexivity.
Qed.

Lemma skipn_S_tail {A} (k : nat) : forall (l : list A) x t, skipn k l = x :: t -> skipn (S k) l = t.
Proof.
  induction k as [|k IH]; intros l x t H.
  - cbn in H. subst l. reflexivity.
  - destruct l as [|y l]; [discriminate|]. cbn [skipn] in H. cbn [skipn]. destruct l as [|z l].
    + rewrite skipn_nil in H. discriminate.
    + apply (IH _ _ _ H).
Qed.

Lemma At_cons bs s b l : At bs s (b :: l) -> nth_N bs s = Some b /\ At bs (s + 1) l.
Proof.
  intros H. pose proof (At_len _ _ _ H) as Hlen. rewrite len_cons in Hlen.
  destruct H as [Hs Hsk]. split.
  - rewrite nth_N_skipn, Hsk. reflexivity.
  - split; [lia|]. replace (N.to_nat (s + 1)) with (S (N.to_nat s)) by lia.
    eapply skipn_S_tail; eassumption.
Qed.

Lemma At_nil_read bs s : At bs s [] -> nth_N bs s = None.
Proof. intros [_ H]. rewrite nth_N_skipn, H. reflexivity. Qed.

Lemma At_app bs a : forall s l, At bs s (a ++ l) -> At bs (s + len a) l.
Proof.
  induction a as [|x a IH]; intros s l H.
  - rewrite len_nil, N.add_0_r. exact H.
  - cbn [app] in H. apply At_cons in H. destruct H as [_ H]. apply IH in H.
    rewrite len_cons. replace (s + (len a + 1)) with (s + 1 + len a) by lia. exact H.
Qed.

Lemma read_u8_At bs s b l : At bs s (b :: l) -> read_u8 bs s = XOk b (s + 1) /\ At bs (s + 1) l.
Proof.
  intros H. apply At_cons in H. destruct H as [Hn Ha]. unfold read_u8. rewrite Hn. auto.
Qed.

Lemma At_firstn bs s a l : At bs s (a ++ l) ->
  firstn (N.to_nat (len a)) (skipn (N.to_nat s) bs) = a.
Proof.
  intros [_ H]. rewrite H. unfold len. rewrite Nat2N.id. rewrite firstn_app, Nat.sub_diag, firstn_all.
  cbn [firstn]. apply app_nil_r.
Qed.

Lemma get_range_At bs s a l : At bs s (a ++ l) -> get_range bs s (s + len a) = Some a.
Proof.
  intros H. pose proof (At_len _ _ _ H) as Hl. rewrite len_app in Hl.
  unfold get_range.
  destruct ((s <=? s + len a) && (s + len a <=? len bs)) eqn:E; [|lia].
  replace (s + len a - s) with (len a) by lia. rewrite (At_firstn _ _ _ _ H). reflexivity.
Qed.

Lemma two64_pos : 0 < two64.
Proof. unfold two64. apply N.neq_0_lt_0, N.pow_nonzero; lia. Qed.

Lemma two64_val : two64 = 18446744073709551616.
Proof. reflexivity. Qed.

(* read_varint64 against the reference varint *)
Lemma rv64_ref n : forall k acc bs s l v rest,
  At bs s l -> ref_varint_go n k acc l = Some (v, rest) ->
  exists s', rv64_go n k (acc mod two64) bs s = XOk v s' /\ At bs s' rest /\ len rest < len l.
Proof.
  induction n as [|n IH]; intros k acc bs s l v rest HAt Href; [discriminate|].
  destruct l as [|b l]; [discriminate|].
  cbn [ref_varint_go] in Href. cbn [rv64_go].
  destruct (read_u8_At _ _ _ _ HAt) as [Hr HAt']. rewrite Hr. cbn [xbind].
  assert (Hacc : (acc mod two64 + b mod 128 * 2 ^ (7 * k)) mod two64
                 = (acc + b mod 128 * 2 ^ (7 * k)) mod two64).
  { apply N.add_mod_idemp_l. pose proof two64_pos. lia. }
  rewrite Hacc.
  destruct (b <? 128) eqn:Eb.
  - injection Href as <- <-. exists (s + 1). split; [reflexivity|]. split; [assumption|].
    rewrite len_cons. lia.
  - destruct (IH _ _ _ _ _ _ _ HAt' Href) as (s' & H1 & H2 & H3).
    exists s'. split; [assumption|]. split; [assumption|]. rewrite len_cons. lia.
Qed.

Lemma read_varint64_ref bs s l v rest :
  At bs s l -> ref_varint l = Some (v, rest) ->
  exists s', read_varint64 bs s = XOk v s' /\ At bs s' rest /\ len rest < len l.
Proof.
  intros HAt Href. unfold read_varint64.
  change 0 with (0 mod two64) at 2. eapply rv64_ref; eassumption.
Qed.

(* read_varint32 = the low 32 bits of the same varint *)
Lemma pow7_succ' i : 2 ^ (7 * (i + 1)) = 128 * 2 ^ (7 * i).
Proof.
  replace (7 * (i + 1)) with (7 + 7 * i) by lia.
  rewrite N.pow_add_r. reflexivity.
Qed.

Lemma mod64_mod32 a : (a mod 2 ^ 64) mod 2 ^ 32 = a mod 2 ^ 32.
Proof.
  change (2 ^ 64) with 18446744073709551616. change (2 ^ 32) with 4294967296. lia.
Qed.

Lemma rv32_step k acc r b :
  acc < 2 ^ (7 * k) -> r = acc mod 2 ^ 32 ->
  acc + (b mod 128) * 2 ^ (7 * k) < 2 ^ (7 * (k + 1)) /\
  (if k <? 4 then r + (b mod 128) * 2 ^ (7 * k)
   else if k =? 4 then r + (b mod 16) * 2 ^ 28 else r)
  = (acc + (b mod 128) * 2 ^ (7 * k)) mod 2 ^ 32.
Proof.
  intros Hacc Hr.
  assert (Hx : b mod 128 < 128) by (apply N.mod_lt; lia).
  assert (Hle : b mod 128 * 2 ^ (7 * k) <= 127 * 2 ^ (7 * k)) by (apply N.mul_le_mono_r; lia).
  split.
  - rewrite pow7_succ'. lia.
  - destruct (k <? 4) eqn:E4.
    + assert (HP : 2 ^ (7 * k) <= 2 ^ 21) by (apply N.pow_le_mono_r; lia).
      change (2 ^ 21) with 2097152 in HP.
      subst r. change (2 ^ 32) with 4294967296.
      remember (2 ^ (7 * k)) as P eqn:HeqP. remember (b mod 128 * P) as xP eqn:HeqxP.
      rewrite (N.mod_small acc) by lia. rewrite N.mod_small by lia. reflexivity.
    + destruct (k =? 4) eqn:E4'.
      * replace k with 4 in * by lia. subst r.
        change (2 ^ (7 * 4)) with 268435456 in *. change (2 ^ 28) with 268435456.
        change (2 ^ 32) with 4294967296. lia.
      * subst r. replace (7 * k) with (7 * k - 32 + 32) by lia.
        rewrite N.pow_add_r, N.mul_assoc.
        rewrite N.mod_add; [reflexivity|]. apply N.pow_nonzero. lia.
Qed.

Lemma rv32_ref n : forall k acc r bs s l v rest,
  At bs s l -> acc < 2 ^ (7 * k) -> r = acc mod 2 ^ 32 ->
  ref_varint_go n k acc l = Some (v, rest) ->
  exists s', rv32_go n k r bs s = XOk (v mod 2 ^ 32) s' /\ At bs s' rest /\ len rest < len l.
Proof.
  induction n as [|n IH]; intros k acc r bs s l v rest HAt Hacc Hr Href; [discriminate|].
  destruct l as [|b l]; [discriminate|].
  cbn [ref_varint_go] in Href. cbn [rv32_go].
  destruct (read_u8_At _ _ _ _ HAt) as [Hrd HAt']. rewrite Hrd. cbn [xbind].
  destruct (rv32_step k acc r b Hacc Hr) as [Hacc' Hr'].
  rewrite Hr'.
  destruct (b <? 128) eqn:Eb.
  - injection Href as <- <-. exists (s + 1). rewrite mod64_mod32.
    split; [reflexivity|]. split; [assumption|]. rewrite len_cons. lia.
  - destruct (IH _ _ _ _ _ _ _ _ HAt' Hacc' eq_refl Href) as (s' & H1 & H2 & H3).
    exists s'. split; [assumption|]. split; [assumption|]. rewrite len_cons. lia.
Qed.

Lemma read_varint32_ref bs s l v rest :
  At bs s l -> ref_varint l = Some (v, rest) ->
  exists s', read_varint32 bs s = XOk (v mod 2 ^ 32) s' /\ At bs s' rest /\ len rest < len l.
Proof.
  intros HAt Href. unfold read_varint32.
  eapply (rv32_ref 10 0 0 0); try eassumption.
  - change (2 ^ (7 * 0)) with 1. lia.
  - reflexivity.
Qed.

(* ------------------------------------------------------------------------------------------ *)
(* Part 3: totality outside the Overrun class (C08)                                           *)

(* 3a. Agreement: as long as the instrumented run neither reports an overrun nor panics, the real
   machine (either build profile) does exactly the same. *)
Definition agree {A} (ri rm : xres A) : Prop :=
  match ri with
  | XOverrun | XPanic => True
  | _ => rm = ri
  end.

Lemma agree_refl {A} (r : xres A) : agree r r.
Proof. destruct r; cbn; auto. Qed.

Lemma agree_ck {A} md e (r : xres A) : is_instr md = false -> agree (ck MInstr e r) (ck md e r).
Proof.
  intros Hmd. destruct r as [a s| | | |]; cbn [ck agree]; auto.
  rewrite Hmd. cbn [is_instr andb]. destruct (e <? s); cbn [agree]; auto.
Qed.

Lemma agree_xbind {A B} (ri rm : xres A) (ki km : A -> N -> xres B) :
  agree ri rm -> (forall a s, agree (ki a s) (km a s)) -> agree (xbind ri ki) (xbind rm km).
Proof.
  intros H Hk. destruct ri as [a s| | | |]; cbn [agree] in H; try subst rm; cbn [xbind agree]; auto.
Qed.

Lemma agree_xmap {A B} (f : A -> B) (ri rm : xres A) : agree ri rm -> agree (xmap f ri) (xmap f rm).
Proof. intros H. unfold xmap. apply agree_xbind; [assumption|]. intros a s. apply agree_refl. Qed.

Lemma usize_add_agree md a b x : is_instr md = false ->
  usize_add MInstr a b = Some x -> usize_add md a b = Some x.
Proof.
  unfold usize_add. destruct (a + b <? two64); [auto|discriminate].
Qed.

Lemma usize_sub_agree md a b x : is_instr md = false ->
  usize_sub MInstr a b = Some x -> usize_sub md a b = Some x.
Proof.
  unfold usize_sub. destruct (b <=? a); [auto|discriminate].
Qed.

Lemma read_len_agree {A} md (ri rm : N -> N -> xres A) s e l :
  is_instr md = false -> (forall s' e', agree (ri s' e') (rm s' e')) ->
  agree (read_len MInstr ri s e l) (read_len md rm s e l).
Proof.
  intros Hmd Hr. unfold read_len. rewrite Hmd. cbn [is_instr andb].
  destruct (e <? s + l); [exact I|].
  destruct (usize_add MInstr s l) as [e'|] eqn:Ea; [|exact I].
  rewrite (usize_add_agree md _ _ _ Hmd Ea).
  specialize (Hr s e'). destruct (ri s e') as [v s1| | | |]; cbn [agree] in Hr |- *; try rewrite Hr; auto.
Qed.

Lemma read_len_varint_agree {A} md bs (ri rm : N -> N -> xres A) s e :
  is_instr md = false -> (forall s' e', agree (ri s' e') (rm s' e')) ->
  agree (read_len_varint MInstr bs ri s e) (read_len_varint md bs rm s e).
Proof.
  intros Hmd Hr. unfold read_len_varint. apply agree_xbind; [apply agree_ck; assumption|].
  intros l s1. apply read_len_agree; assumption.
Qed.

Lemma read_bytes_agree md bs s e : is_instr md = false ->
  agree (read_bytes MInstr bs s e) (read_bytes md bs s e).
Proof.
  intros Hmd. unfold read_bytes. apply read_len_varint_agree; [assumption|].
  intros s' e'. apply agree_refl.
Qed.

Lemma read_unknown_agree md bs t s e : is_instr md = false ->
  agree (read_unknown MInstr bs t s e) (read_unknown md bs t s e).
Proof.
  intros Hmd. unfold read_unknown.
  destruct (t mod 8 =? 0); [apply agree_xmap, agree_ck; assumption|].
  destruct ((t mod 8 =? 1) || (t mod 8 =? 5) || (t mod 8 =? 2)); [|reflexivity].
  apply agree_xbind.
  - destruct (t mod 8 =? 1); [apply agree_refl|]. destruct (t mod 8 =? 5); [apply agree_refl|].
    apply agree_ck; assumption.
  - intros offset s1.
    destruct (usize_sub MInstr e s1) as [d|] eqn:Es; [|exact I].
    rewrite (usize_sub_agree md _ _ _ Hmd Es).
    destruct (d <? offset); [reflexivity|].
    destruct (usize_add MInstr s1 offset) as [s2|] eqn:Ea; [|exact I].
    rewrite (usize_add_agree md _ _ _ Hmd Ea). reflexivity.
Qed.

Lemma skip_unknown_agree {M} md bs t (msg : M) s e : is_instr md = false ->
  agree (skip_unknown MInstr bs t msg s e) (skip_unknown md bs t msg s e).
Proof. intros Hmd. unfold skip_unknown. apply agree_xmap, read_unknown_agree. assumption. Qed.

Lemma fr_loop_agree {M} md bs (fi fm : N -> M -> N -> N -> xres M) :
  is_instr md = false -> (forall t msg s e, agree (fi t msg s e) (fm t msg s e)) ->
  forall fuel msg s e, agree (fr_loop MInstr bs fi fuel msg s e) (fr_loop md bs fm fuel msg s e).
Proof.
  intros Hmd Hf. induction fuel as [|fuel IH]; intros msg s e; cbn [fr_loop]; [reflexivity|].
  destruct (s =? e); [reflexivity|].
  pose proof (agree_ck md e (read_varint32 bs s) Hmd) as Hck.
  destruct (ck MInstr e (read_varint32 bs s)) as [t s1| | | |]; cbn [agree] in Hck; try rewrite Hck;
    try exact I; try reflexivity.
  specialize (Hf t msg s1 e).
  destruct (fi t msg s1 e) as [msg' s2| | | |]; cbn [agree] in Hf; try rewrite Hf;
    try exact I; try reflexivity.
  apply IH.
Qed.

Ltac agree_field Hmd :=
  repeat match goal with |- agree (if ?c then _ else _) (if ?c then _ else _) => destruct c end;
  first [ apply skip_unknown_agree; exact Hmd
        | apply agree_xmap;
          first [ apply agree_ck; exact Hmd | apply read_bytes_agree; exact Hmd ] ].

Lemma entry_field_agree md bs t msg s e : is_instr md = false ->
  agree (entry_field MInstr bs t msg s e) (entry_field md bs t msg s e).
Proof. intros Hmd. unfold entry_field. agree_field Hmd. Qed.

Lemma block_field_agree md bs t msg s e : is_instr md = false ->
  agree (block_field MInstr bs t msg s e) (block_field md bs t msg s e).
Proof. intros Hmd. unfold block_field. agree_field Hmd. Qed.

Lemma presence_field_agree md bs t msg s e : is_instr md = false ->
  agree (presence_field MInstr bs t msg s e) (presence_field md bs t msg s e).
Proof. intros Hmd. unfold presence_field. agree_field Hmd. Qed.

Lemma wantlist_field_agree md bs fuel t msg s e : is_instr md = false ->
  agree (wantlist_field MInstr bs fuel t msg s e) (wantlist_field md bs fuel t msg s e).
Proof.
  intros Hmd. unfold wantlist_field.
  destruct (t =? 10).
  - apply agree_xmap. unfold read_message. apply read_len_varint_agree; [assumption|].
    intros s' e'. unfold entry_from_reader. apply fr_loop_agree; [assumption|].
    intros. apply entry_field_agree. assumption.
  - agree_field Hmd.
Qed.

Lemma message_field_agree md bs fuel t msg s e : is_instr md = false ->
  agree (message_field MInstr bs fuel t msg s e) (message_field md bs fuel t msg s e).
Proof.
  intros Hmd. unfold message_field.
  destruct (t =? 10).
  { apply agree_xmap. unfold read_message. apply read_len_varint_agree; [assumption|].
    intros s' e'. unfold wantlist_from_reader. apply fr_loop_agree; [assumption|].
    intros. apply wantlist_field_agree. assumption. }
  destruct (t =? 26).
  { apply agree_xmap. unfold read_message. apply read_len_varint_agree; [assumption|].
    intros s' e'. unfold block_from_reader. apply fr_loop_agree; [assumption|].
    intros. apply block_field_agree. assumption. }
  destruct (t =? 34).
  { apply agree_xmap. unfold read_message. apply read_len_varint_agree; [assumption|].
    intros s' e'. unfold presence_from_reader. apply fr_loop_agree; [assumption|].
    intros. apply presence_field_agree. assumption. }
  agree_field Hmd.
Qed.

Lemma x_read_message_agree md rest n : is_instr md = false ->
  agree (x_read_message MInstr rest n) (x_read_message md rest n).
Proof.
  intros Hmd. unfold x_read_message. apply read_len_agree; [assumption|].
  intros s' e'. unfold message_from_reader. apply fr_loop_agree; [assumption|].
  intros. apply message_field_agree. assumption.
Qed.

(* 3b. The instrumented run itself: with `start <= end < 2^64` it never panics and never runs out of
   fuel; it keeps `start <= end`, and every loop iteration advances `start`. *)
Definition goodr {A} (s e : N) (r : xres A) : Prop :=
  match r with
  | XOk _ s' => s <= s' /\ s' <= e
  | XErr | XOverrun => True
  | XPanic | XFuel => False
  end.

Definition nobad {A} (r : xres A) : Prop :=
  match r with XPanic | XFuel => False | _ => True end.

Lemma goodr_nobad {A} s e (r : xres A) : goodr s e r -> nobad r.
Proof. destruct r; cbn; auto. Qed.

Lemma goodr_xmap {A B} (f : A -> B) s e (r : xres A) : goodr s e r -> goodr s e (xmap f r).
Proof. destruct r; cbn; auto. Qed.

Lemma goodr_weaken {A} s0 s e (r : xres A) : s0 <= s -> goodr s e r -> goodr s0 e r.
Proof. intros H. destruct r; cbn; auto. lia. Qed.

Lemma nth_N_lt bs : forall s b, nth_N bs s = Some b -> s < len bs.
Proof.
  induction bs as [|x bs IH]; intros s b H; cbn [nth_N] in H; [discriminate|].
  rewrite len_cons. destruct (s =? 0) eqn:E; [lia|]. apply IH in H. lia.
Qed.

(* the shape of a varint read: an error, or a value and a strictly larger cursor inside the array *)
Definition vshape (bs : bytes) (s : N) (r : xres N) : Prop :=
  match r with
  | XOk _ s' => s < s' /\ s' <= len bs
  | XErr => True
  | _ => False
  end.

Lemma rv32_shape n : forall k r bs s, vshape bs s (rv32_go n k r bs s).
Proof.
  induction n as [|n IH]; intros k r bs s; cbn [rv32_go]; [exact I|].
  unfold read_u8. destruct (nth_N bs s) as [b|] eqn:E; cbn [xbind]; [|exact I].
  apply nth_N_lt in E.
  destruct (b <? 128); [cbn; lia|].
  match goal with |- vshape _ _ (rv32_go n ?k' ?r' bs (s + 1)) => specialize (IH k' r' bs (s + 1)) end.
  destruct (rv32_go n _ _ bs (s + 1)); cbn [vshape] in *; auto. lia.
Qed.

Lemma rv64_shape n : forall k r bs s, vshape bs s (rv64_go n k r bs s).
Proof.
  induction n as [|n IH]; intros k r bs s; cbn [rv64_go]; [exact I|].
  unfold read_u8. destruct (nth_N bs s) as [b|] eqn:E; cbn [xbind]; [|exact I].
  apply nth_N_lt in E.
  destruct (b <? 128); [cbn; lia|].
  match goal with |- vshape _ _ (rv64_go n ?k' ?r' bs (s + 1)) => specialize (IH k' r' bs (s + 1)) end.
  destruct (rv64_go n _ _ bs (s + 1)); cbn [vshape] in *; auto. lia.
Qed.

(* after the instrumentation check: strictly advanced and still inside the window *)
Definition cshape {A} (s e : N) (r : xres A) : Prop :=
  match r with
  | XOk _ s' => s < s' /\ s' <= e
  | XErr | XOverrun => True
  | _ => False
  end.

Lemma ck_shape bs s e (r : xres N) : vshape bs s r -> cshape s e (ck MInstr e r).
Proof.
  destruct r as [v s'| | | |]; cbn [vshape ck cshape is_instr andb]; auto.
  intros [H1 H2]. destruct (e <? s') eqn:E; cbn [cshape]; [exact I|lia].
Qed.

Lemma ck_rv32_shape bs s e : cshape s e (ck MInstr e (read_varint32 bs s)).
Proof. apply ck_shape with (bs := bs). apply rv32_shape. Qed.

Lemma ck_rv64_shape bs s e : cshape s e (ck MInstr e (read_varint64 bs s)).
Proof. apply ck_shape with (bs := bs). apply rv64_shape. Qed.

Lemma cshape_goodr {A} s e (r : xres A) : cshape s e r -> goodr s e r.
Proof. destruct r; cbn; auto. lia. Qed.

Lemma ck_xmap_i {A B} e (f : A -> B) r : ck MInstr e (xmap f r) = xmap f (ck MInstr e r).
Proof.
  destruct r as [a s| | | |]; try reflexivity.
  cbn [xmap xbind ck]. destruct (is_instr MInstr && (e <? s)); reflexivity.
Qed.

Lemma read_len_good {A} (read : N -> N -> xres A) s e l :
  s <= e -> e < two64 ->
  (forall e', s <= e' -> e' <= e -> nobad (read s e')) ->
  goodr s e (read_len MInstr read s e l).
Proof.
  intros Hse He Hr. unfold read_len. cbn [is_instr andb].
  destruct (e <? s + l) eqn:E; [exact I|].
  unfold usize_add. destruct (s + l <? two64) eqn:E2; [|lia].
  specialize (Hr (s + l)). destruct (read s (s + l)); cbn [goodr nobad] in *; auto; try (apply Hr; lia).
  lia.
Qed.

Lemma read_len_varint_good {A} bs (read : N -> N -> xres A) s e :
  s <= e -> e < two64 ->
  (forall s1 e1, s <= s1 -> s1 <= e1 -> e1 <= e -> nobad (read s1 e1)) ->
  goodr s e (read_len_varint MInstr bs read s e).
Proof.
  intros Hse He Hr. unfold read_len_varint.
  pose proof (ck_rv32_shape bs s e) as Hc.
  destruct (ck MInstr e (read_varint32 bs s)) as [l s1| | | |]; cbn [cshape] in Hc; cbn [xbind goodr]; auto.
  apply (goodr_weaken s s1); [lia|].
  apply read_len_good; [lia|assumption|]. intros e' H1 H2. apply Hr; lia.
Qed.

Lemma read_bytes_good bs s e : s <= e -> e < two64 -> goodr s e (read_bytes MInstr bs s e).
Proof.
  intros Hse He. unfold read_bytes. apply read_len_varint_good; try assumption.
  intros s1 e1 _ _ _. destruct (get_range bs s1 e1); exact I.
Qed.

Lemma read_unknown_good bs t s e : s <= e -> e < two64 -> goodr s e (read_unknown MInstr bs t s e).
Proof.
  intros Hse He. unfold read_unknown.
  destruct (t mod 8 =? 0).
  { apply goodr_xmap, cshape_goodr, ck_rv64_shape. }
  destruct ((t mod 8 =? 1) || (t mod 8 =? 5) || (t mod 8 =? 2)); [|exact I].
  assert (Hfix : forall k, goodr s e
            (xbind (XOk k s) (fun offset s1 =>
               match usize_sub MInstr e s1 with
               | None => XPanic
               | Some d => if d <? offset then XErr
                           else match usize_add MInstr s1 offset with
                                | None => XPanic | Some s2 => XOk tt s2 end
               end))).
  { intros k. cbn [xbind]. unfold usize_sub. destruct (s <=? e) eqn:E1; [|lia].
    destruct (e - s <? k) eqn:E2; [exact I|].
    unfold usize_add. destruct (s + k <? two64) eqn:E3; [|lia]. cbn [goodr]. lia. }
  destruct (t mod 8 =? 1); [apply Hfix|]. destruct (t mod 8 =? 5); [apply Hfix|].
  pose proof (ck_rv64_shape bs s e) as Hc.
  destruct (ck MInstr e (read_varint64 bs s)) as [offset s1| | | |]; cbn [cshape] in Hc; cbn [xbind goodr]; auto.
  unfold usize_sub. destruct (s1 <=? e) eqn:E1; [|lia].
  destruct (e - s1 <? offset) eqn:E2; [exact I|].
  unfold usize_add. destruct (s1 + offset <? two64) eqn:E3; [|lia]. cbn [goodr]. lia.
Qed.

Lemma skip_unknown_good {M} bs t (msg : M) s e :
  s <= e -> e < two64 -> goodr s e (skip_unknown MInstr bs t msg s e).
Proof. intros. unfold skip_unknown. apply goodr_xmap, read_unknown_good; assumption. Qed.

Lemma fr_loop_good {M} bs (field : N -> M -> N -> N -> xres M) e :
  (forall t msg s1, s1 <= e -> goodr s1 e (field t msg s1 e)) ->
  forall fuel msg s, s <= e -> (N.to_nat (e - s) < fuel)%nat ->
  goodr s e (fr_loop MInstr bs field fuel msg s e).
Proof.
  intros Hf. induction fuel as [|fuel IH]; intros msg s Hse Hfuel; [lia|].
  cbn [fr_loop]. destruct (s =? e) eqn:E; [cbn [goodr]; lia|].
  pose proof (ck_rv32_shape bs s e) as Hc.
  destruct (ck MInstr e (read_varint32 bs s)) as [t s1| | | |]; cbn [cshape] in Hc; cbn [goodr]; auto.
  specialize (Hf t msg s1). 
  destruct (field t msg s1 e) as [msg' s2| | | |]; cbn [goodr] in Hf |- *; try (apply Hf; lia); auto.
  apply (goodr_weaken s s2); [lia|]. apply IH; lia.
Qed.

Ltac good_field :=
  repeat match goal with |- goodr _ _ (if ?c then _ else _) => destruct c end;
  match goal with
  | |- goodr _ _ (skip_unknown _ _ _ _ _ _) => apply skip_unknown_good; assumption
  | |- goodr _ _ (xmap _ (read_bytes _ _ _ _)) => apply goodr_xmap, read_bytes_good; assumption
  | |- goodr _ _ (xmap _ (ck _ _ (read_int32 _ _))) =>
      apply goodr_xmap, cshape_goodr; unfold read_int32; apply ck_rv32_shape
  | |- goodr ?s ?e (xmap _ (ck _ _ (read_bool ?bs _))) =>
      apply goodr_xmap, cshape_goodr; unfold read_bool; rewrite ck_xmap_i;
      let H := fresh in pose proof (ck_rv32_shape bs s e) as H;
      destruct (ck MInstr e (read_varint32 bs s)); cbn [xmap xbind cshape] in *; auto
  end.

Lemma entry_field_good bs t msg s e : s <= e -> e < two64 -> goodr s e (entry_field MInstr bs t msg s e).
Proof. intros Hse He. unfold entry_field. good_field. Qed.

Lemma block_field_good bs t msg s e : s <= e -> e < two64 -> goodr s e (block_field MInstr bs t msg s e).
Proof. intros Hse He. unfold block_field. good_field. Qed.

Lemma presence_field_good bs t msg s e : s <= e -> e < two64 -> goodr s e (presence_field MInstr bs t msg s e).
Proof. intros Hse He. unfold presence_field. good_field. Qed.

Lemma nested_good {A B} bs (F : A -> B) (from_reader : N -> N -> xres A) s e :
  s <= e -> e < two64 ->
  (forall s1 e1, s1 <= e1 -> e1 <= e -> nobad (from_reader s1 e1)) ->
  goodr s e (xmap F (read_message MInstr bs from_reader s e)).
Proof.
  intros Hse He Hr. apply goodr_xmap. unfold read_message.
  apply read_len_varint_good; try assumption. intros s1 e1 _ H1 H2. apply Hr; assumption.
Qed.

Lemma entry_from_reader_good bs fuel s e :
  s <= e -> e < two64 -> (N.to_nat e < fuel)%nat -> goodr s e (entry_from_reader MInstr bs fuel s e).
Proof.
  intros Hse He Hf. unfold entry_from_reader. apply fr_loop_good; [|assumption|lia].
  intros t msg s1 Hs1. apply entry_field_good; assumption.
Qed.

Lemma block_from_reader_good bs fuel s e :
  s <= e -> e < two64 -> (N.to_nat e < fuel)%nat -> goodr s e (block_from_reader MInstr bs fuel s e).
Proof.
  intros Hse He Hf. unfold block_from_reader. apply fr_loop_good; [|assumption|lia].
  intros t msg s1 Hs1. apply block_field_good; assumption.
Qed.

Lemma presence_from_reader_good bs fuel s e :
  s <= e -> e < two64 -> (N.to_nat e < fuel)%nat -> goodr s e (presence_from_reader MInstr bs fuel s e).
Proof.
  intros Hse He Hf. unfold presence_from_reader. apply fr_loop_good; [|assumption|lia].
  intros t msg s1 Hs1. apply presence_field_good; assumption.
Qed.

Lemma wantlist_field_good bs fuel t msg s e :
  s <= e -> e < two64 -> (N.to_nat e < fuel)%nat -> goodr s e (wantlist_field MInstr bs fuel t msg s e).
Proof.
  intros Hse He Hf. unfold wantlist_field.
  destruct (t =? 10).
  - apply nested_good; try assumption. intros s1 e1 H1 H2.
    apply (goodr_nobad s1 e1). apply entry_from_reader_good; lia.
  - good_field.
Qed.

Lemma wantlist_from_reader_good bs fuel s e :
  s <= e -> e < two64 -> (N.to_nat e < fuel)%nat -> goodr s e (wantlist_from_reader MInstr bs fuel s e).
Proof.
  intros Hse He Hf. unfold wantlist_from_reader. apply fr_loop_good; [|assumption|lia].
  intros t msg s1 Hs1. apply wantlist_field_good; assumption.
Qed.

Lemma message_field_good bs fuel t msg s e :
  s <= e -> e < two64 -> (N.to_nat e < fuel)%nat -> goodr s e (message_field MInstr bs fuel t msg s e).
Proof.
  intros Hse He Hf. unfold message_field.
  destruct (t =? 10).
  { apply nested_good; try assumption. intros s1 e1 H1 H2.
    apply (goodr_nobad s1 e1). apply wantlist_from_reader_good; lia. }
  destruct (t =? 26).
  { apply nested_good; try assumption. intros s1 e1 H1 H2.
    apply (goodr_nobad s1 e1). apply block_from_reader_good; lia. }
  destruct (t =? 34).
  { apply nested_good; try assumption. intros s1 e1 H1 H2.
    apply (goodr_nobad s1 e1). apply presence_from_reader_good; lia. }
  good_field.
Qed.

Lemma x_read_message_good rest n :
  n < two64 -> goodr 0 (len rest) (x_read_message MInstr rest n).
Proof.
  intros Hn. unfold x_read_message, read_len. cbn [is_instr andb].
  destruct (len rest <? 0 + n) eqn:E; [exact I|].
  unfold usize_add. destruct (0 + n <? two64) eqn:E2; [|lia].
  assert (Hg : goodr 0 (0 + n) (message_from_reader MInstr rest (qp_fuel rest) 0 (0 + n))).
  { unfold message_from_reader. apply fr_loop_good.
    - intros t msg s1 Hs1. apply message_field_good; try lia. unfold qp_fuel, len in *. lia.
    - lia.
    - unfold qp_fuel, len in *. lia. }
  destruct (message_from_reader MInstr rest (qp_fuel rest) 0 (0 + n)); cbn [goodr] in *; auto. lia.
Qed.

(* C08 (decode): outside the Overrun class, decoding terminates with a message or an error, in
   both build profiles - no panic, no unbounded loop.  `n < 2^64`: the length argument is a usize. *)
Theorem C08_decode_total : forall chk rest n,
  n < two64 -> n <= len rest -> ~ Overrun rest n ->
  (exists m s, qp_read_message chk rest n = ROk m s) \/ qp_read_message chk rest n = RErr.
Proof.
  intros chk rest n Hn _ Hno. unfold Overrun, overrun_b in Hno. unfold qp_read_message.
  assert (Hmd : is_instr (mode_of_chk chk) = false) by (destruct chk; reflexivity).
  pose proof (x_read_message_good rest n Hn) as Hg.
  pose proof (x_read_message_agree (mode_of_chk chk) rest n Hmd) as Ha.
  destruct (x_read_message MInstr rest n) as [m s| | | |]; cbn [goodr agree] in *.
  - left. exists m, s. rewrite Ha. reflexivity.
  - right. rewrite Ha. reflexivity.
  - contradiction.
  - contradiction.
  - exfalso. apply Hno. reflexivity.
Qed.

(* the same, with the outcome named: it is the outcome of the instrumented run *)
Theorem C08_decode_total_eq : forall chk rest n,
  n < two64 -> overrun_b rest n = false ->
  qp_read_message chk rest n = to_rres (x_read_message MInstr rest n) /\
  (forall m s, qp_read_message chk rest n = ROk m s -> s = n /\ n <= len rest).
Proof.
  intros chk rest n Hn Hno. unfold overrun_b in Hno. unfold qp_read_message.
  assert (Hmd : is_instr (mode_of_chk chk) = false) by (destruct chk; reflexivity).
  pose proof (x_read_message_good rest n Hn) as Hg.
  pose proof (x_read_message_agree (mode_of_chk chk) rest n Hmd) as Ha.
  destruct (x_read_message MInstr rest n) as [m s| | | |] eqn:Ei; cbn [goodr agree] in *;
    try contradiction; try discriminate.
  - rewrite Ha. split; [reflexivity|]. cbn [to_rres]. intros m' s' [= <- <-].
    unfold x_read_message, read_len in Ei. cbn [is_instr andb] in Ei.
    destruct (len rest <? 0 + n) eqn:E; [discriminate|].
    unfold usize_add in Ei. destruct (0 + n <? two64) eqn:E2; [|lia].
    destruct (message_from_reader MInstr rest (qp_fuel rest) 0 (0 + n)); try discriminate.
    injection Ei as _ <-. lia.
  - rewrite Ha. split; [reflexivity|]. cbn [to_rres]. discriminate.
Qed.

(* the F2 witness: the body of the 18-byte frame 11 0a 02 0a 02 10 01 7a f1 ff*8 01.
   With overflow checks: panic (`self.end - self.start` with start = 17 > end = 4, reader.rs:543).
   Without: `start` wraps back to 2 and Wantlist::from_reader loops for ever, pushing an entry per turn. *)
Theorem C08_decode_refuted :
  len f2_witness = 17 /\
  qp_read_message true f2_witness 17 = RPanic /\
  qp_read_message false f2_witness 17 = RFuel /\
  overrun_b f2_witness 17 = true.
Proof. vm_compute. repeat split; reflexivity. Qed.

(* the loop really is a loop: more fuel does not help (fuel 5000 instead of 18) *)
Example C08_decode_refuted_more_fuel :
  read_len MRel (message_from_reader MRel f2_witness 5000) 0 (len f2_witness) 17 = XFuel.
Proof. vm_compute. reflexivity. Qed.

(* non-vacuity of C08_decode_total: inputs that are not in the class, with either outcome *)
Example C08_decode_total_ex :
  let ok := [26; 11; 10; 4; 1; 85; 18; 32; 18; 3; 97; 98; 99] in
  let bad := [26; 11; 10; 4; 1; 85] in
  overrun_b ok 13 = false /\
  qp_read_message true ok 13 = ROk (MkMessage None [MkBlock [1; 85; 18; 32] [97; 98; 99]] [] 0) 13 /\
  overrun_b bad 6 = true /\
  overrun_b [10; 1; 16] 3 = false /\ qp_read_message false [10; 1; 16] 3 = RErr.
Proof. vm_compute. repeat split; reflexivity. Qed.

(* ------------------------------------------------------------------------------------------ *)
(* the executable well-formedness test is the predicate                                       *)

Lemma forallb_Forall {A} (p : A -> bool) (P : A -> Prop) (l : list A) :
  (forall x, p x = true <-> P x) -> (forallb p l = true <-> Forall P l).
Proof.
  intros H. rewrite forallb_forall, Forall_forall. split; intros H1 x Hx; apply H, H1, Hx.
Qed.

Lemma wf_entryb_spec e : wf_entryb e = true <-> wf_entry e.
Proof.
  unfold wf_entryb, wf_entry. rewrite !andb_true_iff, wf_bytesb_spec, !N.ltb_lt. tauto.
Qed.

Lemma wf_wantlistb_spec w : wf_wantlistb w = true <-> wf_wantlist w.
Proof.
  unfold wf_wantlistb, wf_wantlist.
  rewrite andb_true_iff, (forallb_Forall _ _ _ wf_entryb_spec), N.ltb_lt. tauto.
Qed.

Lemma wf_blockb_spec b : wf_blockb b = true <-> wf_block b.
Proof.
  unfold wf_blockb, wf_block. rewrite !andb_true_iff, !wf_bytesb_spec, N.ltb_lt. tauto.
Qed.

Lemma wf_presenceb_spec p : wf_presenceb p = true <-> wf_presence p.
Proof.
  unfold wf_presenceb, wf_presence. rewrite andb_true_iff, wf_bytesb_spec, N.ltb_lt. tauto.
Qed.

Lemma wf_messageb_spec m : wf_messageb m = true <-> wf_message m.
Proof.
  unfold wf_messageb, wf_message.
  rewrite !andb_true_iff, (forallb_Forall _ _ _ wf_blockb_spec),
    (forallb_Forall _ _ _ wf_presenceb_spec), !N.ltb_lt.
  destruct (m_wantlist m) as [w|]; [rewrite wf_wantlistb_spec|]; intuition.
Qed.
