(* ProtoCodec_proofs.v — theorems about the quick-protobuf model (Qp.v) and the generated code
   (ProtoCodec.v): C08_encode_no_panic, the cursor-machine/reference-decoder refinement,
   C10_body_roundtrip, C08_decode_total / C08_decode_refuted, and the C11 theorems. *)
From BS Require Import Bytes Varint Proto Qp ProtoCodec RefProto.
From Coq Require Import ZArith ZifyBool ZifyN ZifyNat Lia.
Open Scope N_scope.

(* ------------------------------------------------------------------------------------------ *)
(* Part 1: sizes                                                                              *)

Lemma len_wv_step f v :
  len (qp_wv (S f) v) = if v <? 128 then 1 else len (qp_wv f (v / 128)) + 1.
Proof.
  cbn [qp_wv]. destruct (v <? 128); [reflexivity|]. rewrite len_cons. reflexivity.
Qed.

Lemma len_wv0 v : len (qp_wv 0 v) = 1.
Proof. reflexivity. Qed.

Lemma len_write_varint v : len (qp_write_varint v) = sizeof_varint v.
Proof.
  unfold qp_write_varint.
  rewrite !len_wv_step, len_wv0.
  unfold sizeof_varint.
  repeat match goal with |- context [if ?c then _ else _] => destruct c eqn:? end; lia.
Qed.

Lemma len_with_tag_small t body : t < 128 -> len (qp_with_tag t body) = 1 + len body.
Proof.
  intros Ht. unfold qp_with_tag, qp_write_tag. rewrite len_app, len_write_varint.
  unfold sizeof_varint. destruct (t <=? 127) eqn:E; lia.
Qed.

Lemma len_write_bytes b : len (qp_write_bytes b) = sizeof_len (len b).
Proof. unfold qp_write_bytes, sizeof_len. rewrite len_app, len_write_varint. reflexivity. Qed.

Lemma len_write_bool b : len (qp_write_bool b) = sizeof_varint 1.
Proof. reflexivity. Qed.

Lemma len_write_int32 v : len (qp_write_int32 v) = sizeof_varint (sext32 v).
Proof. unfold qp_write_int32. apply len_write_varint. Qed.

Lemma len_write_enum v : v < 2 -> len (qp_write_enum v) = sizeof_varint v.
Proof.
  intros Hv. unfold qp_write_enum. rewrite len_write_int32. unfold sext32.
  change (2 ^ 31) with 2147483648. destruct (v <? 2147483648) eqn:E; [reflexivity|lia].
Qed.

Lemma len_concat_map {A} (f : A -> bytes) (g : A -> N) (l : list A) :
  (forall x, len (f x) = g x) -> len (concat (map f l)) = sum_N (map g l).
Proof.
  intros H. induction l as [|x l IH]; cbn [map concat sum_N fold_right]; [reflexivity|].
  rewrite len_app, H. unfold sum_N in IH. rewrite IH. reflexivity.
Qed.

Lemma is_nil_len {A} (l : list A) : is_nil l = true -> l = [].
Proof. destruct l; [reflexivity|discriminate]. Qed.

Theorem C08_encode_no_panic_entry : forall e, len (write_entry e) = size_entry e.
Proof.
  intros [blk pri can wt sdh]. unfold write_entry, size_entry. cbn [e_block e_priority e_cancel e_want_type e_send_dont_have].
  rewrite !len_app.
  destruct (is_nil blk); destruct (pri =? 0); destruct can; destruct wt; destruct sdh;
    cbn [negb want_type_eqb want_type_code];
    rewrite ?len_with_tag_small by lia;
    rewrite ?len_write_enum by lia;
    rewrite ?len_write_bytes, ?len_write_int32, ?len_write_bool;
    change (@len N []) with 0; change (sext32 1) with 1; lia.
Qed.

Lemma len_write_nested sz body : len body = sz -> len (qp_write_nested sz body) = sizeof_len sz.
Proof. intros <-. unfold qp_write_nested, sizeof_len. rewrite len_app, len_write_varint. reflexivity. Qed.

Theorem C08_encode_no_panic_wantlist : forall w, len (write_wantlist w) = size_wantlist w.
Proof.
  intros [es full]. unfold write_wantlist, size_wantlist. cbn [w_entries w_full].
  rewrite len_app.
  rewrite (len_concat_map _ (fun s => 1 + sizeof_len (size_entry s))).
  - destruct full; cbn [negb]; rewrite ?len_with_tag_small by lia; rewrite ?len_write_bool; change (@len N []) with 0; change (sext32 1) with 1; lia.
  - intros x. rewrite len_with_tag_small by lia. rewrite len_write_nested; [reflexivity|].
    apply C08_encode_no_panic_entry.
Qed.

Theorem C08_encode_no_panic_block : forall b, len (write_block b) = size_block b.
Proof.
  intros [p d]. unfold write_block, size_block. cbn [b_prefix b_data]. rewrite !len_app.
  destruct (is_nil p); destruct (is_nil d); cbn [negb];
    rewrite ?len_with_tag_small by lia; rewrite ?len_write_bytes; change (@len N []) with 0; change (sext32 1) with 1; lia.
Qed.

Theorem C08_encode_no_panic_presence : forall p, len (write_presence p) = size_presence p.
Proof.
  intros [c t]. unfold write_presence, size_presence. cbn [bp_cid bp_type]. rewrite !len_app.
  destruct (is_nil c); destruct t; cbn [negb presence_type_eqb presence_type_code];
    rewrite ?len_with_tag_small by lia; rewrite ?len_write_enum by lia; rewrite ?len_write_bytes; change (@len N []) with 0; change (sext32 1) with 1; lia.
Qed.

(* the two `expect("buffer too small")` of Codec::encode cannot fire: the buffer is resized to
   varint.len() + get_size() and write_message writes exactly get_size() bytes *)
Theorem C08_encode_no_panic : forall m, len (write_message m) = size_message m.
Proof.
  intros [wl pl pr pb]. unfold write_message, size_message.
  cbn [m_wantlist m_payload m_presences m_pending_bytes]. rewrite !len_app.
  rewrite (len_concat_map _ (fun s => 1 + sizeof_len (size_block s))).
  2:{ intros x. rewrite len_with_tag_small by lia. rewrite len_write_nested; [reflexivity|].
      apply C08_encode_no_panic_block. }
  rewrite (len_concat_map _ (fun s => 1 + sizeof_len (size_presence s))).
  2:{ intros x. rewrite len_with_tag_small by lia. rewrite len_write_nested; [reflexivity|].
      apply C08_encode_no_panic_presence. }
  assert (Hw : len (match wl with
                    | Some s => qp_with_tag 10 (qp_write_nested (size_wantlist s) (write_wantlist s))
                    | None => [] end)
               = match wl with Some w => 1 + sizeof_len (size_wantlist w) | None => 0 end).
  { destruct wl as [w|]; [|reflexivity]. rewrite len_with_tag_small by lia.
    rewrite len_write_nested; [reflexivity|]. apply C08_encode_no_panic_wantlist. }
  rewrite Hw.
  destruct (pb =? 0); cbn [negb]; rewrite ?len_with_tag_small by lia;
    rewrite ?len_write_int32; change (@len N []) with 0; change (sext32 1) with 1; lia.
Qed.

Example C08_encode_no_panic_ex :
  let m := MkMessage (Some (MkWantlist [MkEntry [1;85;18;32;186] 1 false WTBlock true;
                                        MkEntry [1;2] 4294967295 true WTHave false] true))
                     [MkBlock [1;85;18;32] [97;98;99]] [MkPresence [1;2;3] PDontHave] 4294967290 in
  len (write_message m) = 71 /\ size_message m = 71.
Proof. vm_compute. split; reflexivity. Qed.
