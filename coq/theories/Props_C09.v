(* Props_C09.v — C09: the 4 MiB message limit is enforced in both directions.
   Inbound: Codec::decode (message.rs) composed with the real body parser (Codec.v), and FramedRead.
   Outbound: the server handler's batching (ServerHandler.v) — see the end of the file. *)
From BS Require Import Bytes Varint Proto Qp ProtoCodec Frame Framed Codec Frame_proofs Framed_proofs Tie_codec.
Open Scope N_scope.

(* a frame whose prefix announces more than the limit fails as soon as the prefix is complete,
   whatever follows it, in both build profiles *)
Theorem C09_oversize_fails_on_prefix : forall chk pre n tail,
  uv_decode pre = UvOk n [] -> max_message_size < n -> codec_decode chk (pre ++ tail) = DErr.
Proof. intros chk. exact (Frame_proofs.C09_oversize_fails_on_prefix message (qp_parse chk)). Qed.

(* a length prefix that is not a valid unsigned varint fails the stream *)
Theorem C09_bad_varint_fails : forall chk pre tail,
  (uv_decode pre = UvOverflow \/ uv_decode pre = UvNotMinimal) -> codec_decode chk (pre ++ tail) = DErr.
Proof. intros chk. exact (Frame_proofs.C09_bad_varint_fails message (qp_parse chk)). Qed.

(* an incomplete prefix waits *)
Theorem C09_short_prefix_waits : forall chk n pre,
  n < two64 -> proper_prefix pre (uv_encode n) -> codec_decode chk pre = DNeedMore.
Proof. intros chk. exact (Frame_proofs.C09_short_prefix_waits message (qp_parse chk)). Qed.

(* the decoder asks for more only while the buffer is smaller than one maximum frame *)
Theorem C09_decode_buffer_bound : forall chk buf,
  codec_decode chk buf = DNeedMore -> len buf < 10 + max_message_size.
Proof. intros chk. exact (Frame_proofs.C09_decode_buffer_bound message (qp_parse chk)). Qed.

(* for every sequence of reads (chunks of at most 8192 bytes) the FramedRead buffer never holds more
   than one maximum frame plus one read while the stream is alive *)
Theorem C09_buffer_bound : forall chk evs, wf_events evs ->
  Forall (fun n => n < 10 + max_message_size + 8192) (snd (run_stream_tr (qp_parse chk) evs)).
Proof. intros chk. exact (Framed_proofs.C09_buffer_bound message (qp_parse chk)). Qed.

Check C09_oversize_fails_on_prefix : forall chk pre n tail,
  uv_decode pre = UvOk n [] -> max_message_size < n -> codec_decode chk (pre ++ tail) = DErr.
Check C09_bad_varint_fails : forall chk pre tail,
  (uv_decode pre = UvOverflow \/ uv_decode pre = UvNotMinimal) -> codec_decode chk (pre ++ tail) = DErr.
Check C09_buffer_bound : forall chk evs, wf_events evs ->
  Forall (fun n => n < 10 + max_message_size + 8192) (snd (run_stream_tr (qp_parse chk) evs)).

(* non-vacuity: 5 MiB announced, an 11-byte varint, a non-minimal varint *)
Example ex_oversize : codec_decode true ([128; 128; 192; 2] ++ [1; 2; 3]) = DErr.
Proof. vm_compute. reflexivity. Qed.
Example ex_overflow : uv_decode [255; 255; 255; 255; 255; 255; 255; 255; 255; 255; 1] = UvOverflow
                      /\ codec_decode false [255; 255; 255; 255; 255; 255; 255; 255; 255; 255; 1] = DErr.
Proof. split; vm_compute; reflexivity. Qed.
Example ex_not_minimal : uv_decode [129; 0] = UvNotMinimal /\ codec_decode true [129; 0; 7] = DErr.
Proof. split; vm_compute; reflexivity. Qed.
Example ex_at_limit_waits : codec_decode true [128; 128; 128; 2] = DNeedMore.
Proof. vm_compute. reflexivity. Qed.

Print Assumptions C09_oversize_fails_on_prefix.
Print Assumptions C09_bad_varint_fails.
Print Assumptions C09_short_prefix_waits.
Print Assumptions C09_decode_buffer_bound.
Print Assumptions C09_buffer_bound.
