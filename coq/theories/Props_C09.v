(* Props_C09.v — C09: the 4 MiB message limit is enforced in both directions.
   Inbound: Codec::decode (message.rs) composed with the real body parser (Codec.v), and FramedRead.
   Outbound: the server handler's batching (ServerHandler.v) — see the end of the file. *)
From BS Require Import Bytes Varint Proto Qp ProtoCodec Frame Framed Codec Frame_proofs Framed_proofs Tie_codec.
Open Scope N_scope.

(* a frame whose prefix announces more than the limit fails as soon as the prefix is complete,
   whatever follows it, in both build profiles *)
Theorem C09_oversize_fails_on_prefix : forall chk pre n tail,
  uv_decode pre = UvOk n [] -> max_message_size < n -> codec_decode chk (pre ++ tail) = DErr.
Proof. intros chk. exact (Frame_proofs.C09_oversize_fails_on_prefix message (qp_parse chk)). Qed.

(* a length prefix that is not a valid unsigned varint fails the stream *)
Theorem C09_bad_varint_fails : forall chk pre tail,
  (uv_decode pre = UvOverflow \/ uv_decode pre = UvNotMinimal) -> codec_decode chk (pre ++ tail) = DErr.
Proof. intros chk. exact (Frame_proofs.C09_bad_varint_fails message (qp_parse chk)). Qed.

(* an incomplete prefix waits *)
Theorem C09_short_prefix_waits : forall chk n pre,
  n < two64 -> proper_prefix pre (uv_encode n) -> codec_decode chk pre = DNeedMore.
Proof. intros chk. exact (Frame_proofs.C09_short_prefix_waits message (qp_parse chk)). Qed.

(* the decoder asks for more only while the buffer is smaller than one maximum frame *)
Theorem C09_decode_buffer_bound : forall chk buf,
  codec_decode chk buf = DNeedMore -> len buf < 10 + max_message_size.
Proof. intros chk. exact (Frame_proofs.C09_decode_buffer_bound message (qp_parse chk)). Qed.

(* for every sequence of reads (chunks of at most 8192 bytes) the FramedRead buffer never holds more
   than one maximum frame plus one read while the stream is alive *)
Theorem C09_buffer_bound : forall chk evs, wf_events evs ->
  Forall (fun n => n < 10 + max_message_size + 8192) (snd (run_stream_tr (qp_parse chk) evs)).
Proof. intros chk. exact (Framed_proofs.C09_buffer_bound message (qp_parse chk)). Qed.

Check C09_oversize_fails_on_prefix : forall chk pre n tail,
  uv_decode pre = UvOk n [] -> max_message_size < n -> codec_decode chk (pre ++ tail) = DErr.
Check C09_bad_varint_fails : forall chk pre tail,
  (uv_decode pre = UvOverflow \/ uv_decode pre = UvNotMinimal) -> codec_decode chk (pre ++ tail) = DErr.
Check C09_buffer_bound : forall chk evs, wf_events evs ->
  Forall (fun n => n < 10 + max_message_size + 8192) (snd (run_stream_tr (qp_parse chk) evs)).

(* non-vacuity: 5 MiB announced, an 11-byte varint, a non-minimal varint *)
Example ex_oversize : codec_decode true ([128; 128; 192; 2] ++ [1; 2; 3]) = DErr.
Proof. vm_compute. reflexivity. Qed.
Example ex_overflow : uv_decode [255; 255; 255; 255; 255; 255; 255; 255; 255; 255; 1] = UvOverflow
                      /\ codec_decode false [255; 255; 255; 255; 255; 255; 255; 255; 255; 255; 1] = DErr.
Proof. split; vm_compute; reflexivity. Qed.
Example ex_not_minimal : uv_decode [129; 0] = UvNotMinimal /\ codec_decode true [129; 0; 7] = DErr.
Proof. split; vm_compute; reflexivity. Qed.
Example ex_at_limit_waits : codec_decode true [128; 128; 128; 2] = DNeedMore.
Proof. vm_compute. reflexivity. Qed.

Print Assumptions C09_oversize_fails_on_prefix.
Print Assumptions C09_bad_varint_fails.
Print Assumptions C09_short_prefix_waits.
Print Assumptions C09_decode_buffer_bound.
Print Assumptions C09_buffer_bound.

(* ---- outbound (package E: ServerHandler.v = server.rs ServerConnectionHandler; ServerHandler_wire.v closes it down
   to the bytes).  For ANY history of queue_messages / set_stream / poll with any stream behaviour:
   the payloads of the started messages followed by what is still pending are exactly the queued blocks in order;
   every started message fits the limit if every queued block fits on its own (an oversize block travels alone);
   with the real size estimate and the real encoder the announced frame length is within the limit and the
   receiving Codec::decode returns exactly the started payload.  Tie: Tie_server (shape of blocks_fitting_in_message). *)
From BS Require Import Types FramedWrite ServerHandler Handler_proofs ServerHandler_proofs ServerHandler_wire Tie_server.
From BS Require Import Tie_srvhandler.  (* ServerHandler.sh_iter IS the interpretation of the extracted arms of ServerConnectionHandler::poll_outgoing *)
Open Scope N_scope.

Theorem C09_outbound_split :
  forall (encode : message -> bytes) (block_size : blk -> N) (ops : list shop),
  let st := server_handler_final encode block_size ops in
  let outs := server_handler_outs encode block_size ops in
  ((forall b : blk, In b (queued_of ops) -> block_size b <= MAX_MESSAGE_SIZE) ->
   Forall (fun p : N * list blk => total block_size (snd p) <= MAX_MESSAGE_SIZE) (sh_started st)) /\
  concat (map snd (sh_started st)) ++ pending_list st = queued_of ops /\
  (forall id : N, prefix (swrote_on id outs) (sbytes encode id (sh_started st))) /\
  (no_drop outs ->
   forall (id : N) (buf : bytes),
   sh_sink st = SvReady id buf ->
   swrote_on id outs ++ buf =
   concat (map (fun p : N * list blk => encode (payload_message (snd p))) (sh_started st))).
Proof. exact (@ServerHandler_proofs.C09_outbound_split). Qed.

Theorem C09_outbound_oversize_alone :
  forall (encode : message -> bytes) (block_size : blk -> N) (ops : list shop) (p : N * list blk) (b : blk),
  In p (sh_started (server_handler_final encode block_size ops)) ->
  In b (snd p) -> MAX_MESSAGE_SIZE < block_size b -> snd p = [b].
Proof. exact (@ServerHandler_proofs.C09_outbound_oversize_alone). Qed.

Theorem C09_outbound_frames_within_limit :
  forall ops : list shop,
  (forall b : blk, In b (queued_of ops) -> wire_block_size b <= MAX_MESSAGE_SIZE) ->
  Forall (fun p : N * list blk => Frame_proofs.size_ok ProtoCodec.write_message (payload_message (snd p)))
    (sh_started (server_handler_final Codec.codec_encode wire_block_size ops)).
Proof. exact (@ServerHandler_wire.C09_outbound_frames_within_limit). Qed.

Theorem C09_outbound_frames_accepted :
  forall (ops : list shop) (chk : bool),
  Forall wf_blk (queued_of ops) ->
  (forall b : blk, In b (queued_of ops) -> wire_block_size b <= MAX_MESSAGE_SIZE) ->
  Forall
    (fun p : N * list blk =>
     forall rest : list N,
     Codec.codec_decode chk (Codec.codec_encode (payload_message (snd p)) ++ rest) =
     Frame.DItem (payload_message (snd p)) rest)
    (sh_started (server_handler_final Codec.codec_encode wire_block_size ops)).
Proof. exact (@ServerHandler_wire.C09_outbound_frames_accepted). Qed.

Theorem server_poll_fuel_sufficient :
  forall (encode : message -> bytes) (block_size : blk -> N) (st : shstate) (s : list io),
  sh_exhausted st = false -> sh_exhausted (fst (sh_do_poll encode block_size st s)) = false.
Proof. exact (@ServerHandler_proofs.server_poll_fuel_sufficient). Qed.


(* non-vacuity: two blocks queued, a stream granted, one poll that flushes: one frame with both blocks started,
   all hypotheses of the theorems above hold *)
Definition ex_blk1 : blk := ([1; 85; 18; 32], [1; 2; 3]).
Definition ex_blk2 : blk := ([1; 85; 18; 32], [4; 5]).
Definition ex_out_ops : list shop := [SHQueue [ex_blk1; ex_blk2]; SHPoll []; SHSetStream; SHPoll [FlushOk; WAccept 100; FlushOk]].
Example ex_outbound :
  Forall wf_blk (queued_of ex_out_ops)
  /\ (forall b, In b (queued_of ex_out_ops) -> wire_block_size b <= MAX_MESSAGE_SIZE)
  /\ map snd (sh_started (server_handler_final Codec.codec_encode wire_block_size ex_out_ops)) = [[ex_blk1; ex_blk2]]
  /\ server_handler_run Codec.codec_encode wire_block_size ex_out_ops
     = [[]; [SHOpenStream]; []; [SHWrote 0 (Codec.codec_encode (payload_message [ex_blk1; ex_blk2]))]].
Proof.
  split; [|split; [|split]].
  - repeat constructor; vm_compute; reflexivity.
  - intros b [<-|[<-|[]]]; vm_compute; discriminate.
  - vm_compute. reflexivity.
  - vm_compute. reflexivity.
Qed.

Print Assumptions C09_outbound_split.
Print Assumptions C09_outbound_oversize_alone.
Print Assumptions C09_outbound_frames_within_limit.
Print Assumptions C09_outbound_frames_accepted.
Print Assumptions server_poll_fuel_sufficient.

(* ---- per connection (package H): between polls every inbound stream buffers less than one maximum frame plus one read,
   so a connection with s live inbound streams buffers at most s * (10 + 4 MiB + 8192) bytes *)
From BS Require Import Bytes Varint Varint_proofs Cid Prefix Hasher Proto Incoming Qp ProtoCodec RefProto Frame Framed Codec Frame_proofs Framed_proofs ProtoCodec_proofs RefProto_proofs Codec_proofs Prefix_proofs Incoming_proofs Streams Streams_proofs Streams_props.
From Coq Require Import ZArith ZifyBool ZifyN ZifyNat Lia.
Open Scope N_scope.

Theorem C09_conn_buffer_bound :
  forall (Sz : N) (Hh : hash_fn) (chk : bool) (streams : list (list read_ev)) (schedule : list N),
  Forall wf_events streams ->
  let c := snd (snd (conn_run_full Sz Hh chk streams schedule)) in
  Forall (fun st : sstate => len (ss_buf st) < 10 + max_message_size + 8192) c /\
  conn_buffered c <= conn_alive c * (10 + max_message_size + 8192) /\ conn_alive c <= len streams.
Proof. exact (@Streams_proofs.C09_conn_buffer_bound). Qed.

Print Assumptions C09_conn_buffer_bound.

(* ---- stated for the whole connection handler (package O): the outbound split of the server half inside the composite *)
From BS Require Import Bytes Varint Types FramedWrite Handler ServerHandler Framed Framed_proofs Streams Streams_proofs Handler_proofs ServerHandler_proofs ConnHandler ConnHandler_proofs ConnHandler_proofs2 Proto Prefix Incoming Qp ProtoCodec ProtoCodec_proofs Codec Frame Frame_proofs Codec_proofs Wire.
From Coq Require Import ZArith Lia.
Open Scope N_scope.

Theorem C09_connhandler_outbound_split :
  forall (encode : message -> bytes) (block_size : blk -> N) (msg : Type)
    (parse : bytes -> N -> parse_result msg) (proc : msg -> pm_result) (c : conn) 
    (ops : list kop),
  let fin := fst (krun_trace encode block_size parse proc (k_init c) ops) in
  let outs := concat (snd (krun_trace encode block_size parse proc (k_init c) ops)) in
  k_dead fin = false ->
  let st := k_server fin in
  let souts := server_outs outs in
  ((forall b : blk, In b (kqueued ops) -> block_size b <= MAX_MESSAGE_SIZE) ->
   Forall (fun p : N * list blk => total block_size (snd p) <= MAX_MESSAGE_SIZE) (sh_started st)) /\
  concat (map snd (sh_started st)) ++ pending_list st = kqueued ops /\
  (forall id : N, Handler_proofs.prefix (swrote_on id souts) (sbytes encode id (sh_started st))) /\
  (no_drop souts ->
   forall (id : N) (buf : bytes),
   sh_sink st = SvReady id buf ->
   swrote_on id souts ++ buf =
   concat (map (fun p : N * list blk => encode (payload_message (snd p))) (sh_started st))).
Proof. exact (@ConnHandler_proofs2.C09_connhandler_outbound_split). Qed.

Print Assumptions C09_connhandler_outbound_split.
