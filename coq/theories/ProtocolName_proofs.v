(* ProtocolName_proofs.v — lemmas behind C20. *)
From BS Require Import Bytes ProtocolName.
From Coq Require Import ZArith ZifyBool ZifyN Lia.
Open Scope N_scope.

Lemma accept_iff s : (exists p, protocol_prefix s = Some p) <-> (exists rest, s = SLASH :: rest).
Proof.
  unfold protocol_prefix, starts_with_slash. destruct s as [|b s]; cbn.
  - split; intros [x H]; discriminate.
  - destruct (b =? SLASH) eqn:E.
    + split; intros _; [exists s; f_equal; lia | eexists; reflexivity].
    + split; intros [x H]; [discriminate|]. injection H as -> _. rewrite N.eqb_refl in E. discriminate.
Qed.

Lemma accepted_same s p : protocol_prefix s = Some p -> p = s /\ starts_with_slash s = true.
Proof. unfold protocol_prefix. destruct (starts_with_slash s) eqn:E; [intros [= <-]; auto|discriminate]. Qed.

(* building never panics for an accepted prefix, and the name is prefix ++ suffix *)
Lemma build_total s p : protocol_prefix s = Some p -> protocol_name (Some p) = Some (s ++ SUFFIX).
Proof.
  intros H. destruct (accepted_same _ _ H) as [-> Hs]. unfold protocol_name, stream_protocol, try_from_owned.
  destruct s as [|b s]; [discriminate|]. cbn [app starts_with_slash] in *. rewrite Hs. reflexivity.
Qed.

Lemma build_total_none : protocol_name None = Some SUFFIX.
Proof. reflexivity. Qed.

Definition accepted_cfg (cfg : option bytes) : Prop :=
  match cfg with None => True | Some p => starts_with_slash p = true end.

Lemma name_of_accepted cfg : accepted_cfg cfg ->
  protocol_name cfg = Some (match cfg with Some p => p ++ SUFFIX | None => SUFFIX end).
Proof.
  destruct cfg as [p|]; cbn; [|reflexivity]. intros H.
  unfold protocol_name, stream_protocol, try_from_owned. destruct p as [|b p]; [discriminate|].
  cbn [app starts_with_slash] in *. rewrite H. reflexivity.
Qed.

Lemma app_self_nil (p s : bytes) : p ++ s = s -> p = [].
Proof.
  intros H. assert (Hl : length (p ++ s) = length s) by (rewrite H; reflexivity).
  rewrite app_length in Hl. destruct p; [reflexivity|cbn in Hl; lia].
Qed.

(* different accepted configurations give different names *)
Lemma name_injective cfg1 cfg2 : accepted_cfg cfg1 -> accepted_cfg cfg2 ->
  protocol_name cfg1 = protocol_name cfg2 -> cfg1 = cfg2.
Proof.
  intros H1 H2. rewrite (name_of_accepted _ H1), (name_of_accepted _ H2). intros [= H].
  destruct cfg1 as [p1|], cfg2 as [p2|]; cbn in *.
  - apply app_inv_tail in H. congruence.
  - apply app_self_nil in H. subst. discriminate.
  - symmetry in H. apply app_self_nil in H. subst. discriminate.
  - reflexivity.
Qed.

(* under A-MSS two nodes can open Bitswap streams to each other iff their configurations are equal *)
Lemma isolation cfg1 cfg2 n1 n2 : accepted_cfg cfg1 -> accepted_cfg cfg2 ->
  protocol_name cfg1 = Some n1 -> protocol_name cfg2 = Some n2 ->
  (negotiates n1 n2 = true <-> cfg1 = cfg2).
Proof.
  intros H1 H2 E1 E2. unfold negotiates. rewrite bytes_eqb_spec. split.
  - intros ->. apply name_injective; try assumption. congruence.
  - intros ->. congruence.
Qed.
