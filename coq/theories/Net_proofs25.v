(* Net_proofs25.v — package J, part 3: the client half of the potential (`client_phi`, Net_proofs23) through the
   phases of one `CPoll []`, a released store call, an incoming block batch and a handler report. *)
From BS Require Import Wantlist_proofs Client_proofs Client_proofs2 Client_proofs3 Client_proofs4 Client_proofs8
  Net Net_proofs2 Net_proofs3 Net_proofs6 Net_proofs11 Net_proofs23 Net_proofs24.
From Coq Require Import ZArith ZifyBool ZifyN ZifyNat Lia.
Open Scope nat_scope.

Local Notation cid_eqb_spec := Wantlist_proofs.cid_eqb_spec.

(* ---------- sums ---------- *)
Lemma sum_by_app {A} (f : A -> nat) a b : sum_by f (a ++ b) = sum_by f a + sum_by f b.
Proof. induction a as [|x a IH]; cbn; [reflexivity|]. unfold sum_by in *. rewrite IH. lia. Qed.

Lemma sum_by_cons {A} (f : A -> nat) x l : sum_by f (x :: l) = f x + sum_by f l.
Proof. reflexivity. Qed.

Lemma sum_by_map {A B} (f : B -> nat) (g : A -> B) l : sum_by f (map g l) = sum_by (fun x => f (g x)) l.
Proof. induction l as [|x l IH]; cbn; [reflexivity|]. unfold sum_by in *. rewrite IH. reflexivity. Qed.

Lemma sum_by_le {A} (f g : A -> nat) l : (forall x, In x l -> f x <= g x) -> sum_by f l <= sum_by g l.
Proof.
  induction l as [|x l IH]; intros H; cbn; [lia|]. unfold sum_by in *.
  specialize (H x (or_introl eq_refl)) as Hx. specialize (IH (fun y Hy => H y (or_intror Hy))). lia.
Qed.

Lemma sum_by_ext {A} (f g : A -> nat) l : (forall x, In x l -> f x = g x) -> sum_by f l = sum_by g l.
Proof.
  induction l as [|x l IH]; intros H; cbn; [reflexivity|]. unfold sum_by in *.
  rewrite (H x (or_introl eq_refl)), (IH (fun y Hy => H y (or_intror Hy))). reflexivity.
Qed.

Lemma sum_by_le_add {A} (f g : A -> nat) k l : (forall x, In x l -> f x <= g x + k) -> sum_by f l <= sum_by g l + length l * k.
Proof.
  induction l as [|x l IH]; intros H; cbn; [lia|]. unfold sum_by in *.
  specialize (H x (or_introl eq_refl)) as Hx. specialize (IH (fun y Hy => H y (or_intror Hy))). lia.
Qed.

Lemma sum_by_filter_le {A} (f : A -> nat) (g : A -> bool) l : sum_by f (filter g l) <= sum_by f l.
Proof. induction l as [|x l IH]; cbn; [lia|]. destruct (g x); cbn; unfold sum_by in *; lia. Qed.

Lemma sum_by_const {A} (l : list A) k : sum_by (fun _ => k) l = length l * k.
Proof. induction l as [|x l IH]; cbn; [reflexivity|]. unfold sum_by in *. rewrite IH. lia. Qed.

Lemma filter_all {A} (f : A -> bool) l : (forall x, In x l -> f x = true) -> filter f l = l.
Proof.
  induction l as [|x l IH]; intros H; cbn; [reflexivity|]. rewrite (H x (or_introl eq_refl)), (IH (fun y Hy => H y (or_intror Hy))). reflexivity.
Qed.

(* association lists with distinct keys *)
Lemma sum_by_al_remove {V} (f : N * V -> nat) k v (l : list (N * V)) :
  NoDup (map fst l) -> In (k, v) l -> sum_by f (al_remove N.eqb k l) + f (k, v) = sum_by f l.
Proof.
  induction l as [|[k0 v0] l IH]; intros Hnd Hin; [destruct Hin|]. cbn [map fst] in Hnd. inversion Hnd as [|? ? Hn Hnd']; subst.
  unfold al_remove in *. cbn [filter fst]. destruct Hin as [[= -> ->]|Hin].
  - rewrite N.eqb_refl. cbn [negb]. rewrite sum_by_cons.
    assert (E : filter (fun e : N * V => negb (k =? fst e)%N) l = l).
    { apply filter_all. intros [k1 v1] H1. cbn [fst]. apply negb_true_iff, N.eqb_neq. intros <-.
      apply Hn. apply (in_map fst) in H1. exact H1. }
    rewrite E. lia.
  - destruct (k =? k0)%N eqn:E.
    + apply N.eqb_eq in E. subst k0. exfalso. apply Hn. apply (in_map fst) in Hin. exact Hin.
    + cbn [negb]. rewrite !sum_by_cons. specialize (IH Hnd' Hin). lia.
Qed.

Lemma sum_by_al_modify {V} (f : N * V -> nat) k (g : V -> V) v (l : list (N * V)) :
  NoDup (map fst l) -> In (k, v) l -> sum_by f (al_modify N.eqb k g l) + f (k, v) = sum_by f l + f (k, g v).
Proof.
  induction l as [|[k0 v0] l IH]; intros Hnd Hin; [destruct Hin|]. cbn [map fst] in Hnd. inversion Hnd as [|? ? Hn Hnd']; subst.
  unfold al_modify in *. cbn [map fst snd]. rewrite !sum_by_cons. destruct Hin as [[= -> ->]|Hin].
  - rewrite N.eqb_refl.
    assert (E : map (fun e : N * V => if (k =? fst e)%N then (fst e, g (snd e)) else e) l = l).
    { rewrite <- (map_id l) at 2. apply map_ext_in. intros [k1 v1] H1. cbn [fst snd]. destruct (k =? k1)%N eqn:E; [|reflexivity].
      apply N.eqb_eq in E. subst k1. exfalso. apply Hn. apply (in_map fst) in H1. exact H1. }
    rewrite E. lia.
  - destruct (k =? k0)%N eqn:E.
    + apply N.eqb_eq in E. subst k0. exfalso. apply Hn. apply (in_map fst) in Hin. exact Hin.
    + specialize (IH Hnd' Hin). lia.
Qed.

Lemma sum_by_al_modify_le {V} (f : N * V -> nat) k (g : V -> V) (l : list (N * V)) :
  (forall k v, f (k, g v) <= f (k, v)) -> sum_by f (al_modify N.eqb k g l) <= sum_by f l.
Proof.
  intros H. unfold al_modify. rewrite sum_by_map. apply sum_by_le. intros [k0 v0] _. cbn [fst snd]. destruct (k =? k0)%N; [apply H | lia].
Qed.

Lemma nonnil_app_le {A} (a b : list A) : nonnil (a ++ b) <= nonnil a + nonnil b.
Proof. destruct a, b; cbn; lia. Qed.
Lemma nonnil_le1 {A} (a : list A) : nonnil a <= 1.
Proof. destruct a; cbn; lia. Qed.

(* ---------- the client potential, by parts ---------- *)
Definition tw (P : nat) (ts : list (N * Client.task)) : nat := sum_by (fun e => ctask_w P (snd e)) ts.
Definition debts (w : wl) (tf : bool) (l : list (peer * peer_state)) : nat := sum_by (fun e => peer_debt w tf (snd e)) l.

Lemma client_phi_eq c :
  client_phi c = tw (length (cs_peers c)) (cs_tasks c) + wl_L (length (cs_peers c)) * length (wl_cids (cs_wl c))
                 + debts (cs_wl c) (timer_ready c) (cs_peers c) + nonnil (cs_queue c) + nonnil (cs_new_blocks c) + b2n (timer_ready c).
Proof. reflexivity. Qed.

(* ---------- phase B: queue drained, timer ---------- *)
Lemma phi_after_timer c : client_phi (after_timer c) + nonnil (cs_queue c) + b2n (timer_ready c) <= client_phi c.
Proof.
  unfold after_timer. change (timer_ready (set_queue c [])) with (timer_ready c). destruct (timer_ready c) eqn:Et.
  - rewrite !client_phi_eq. rewrite fire_timer_not_ready. change (timer_ready c) with (timer_ready c). rewrite Et.
    cbn [fire_timer set_queue cs_peers cs_tasks cs_wl cs_queue cs_new_blocks nonnil b2n]. rewrite map_length.
    assert (E : debts (cs_wl c) false (map (fun e => (fst e, MkPeer (p_conns (snd e)) (p_ss (snd e)) (p_wl (snd e)) true)) (cs_peers c))
                = debts (cs_wl c) true (cs_peers c)).
    { unfold debts. rewrite sum_by_map. apply sum_by_ext. intros [p ps] _. cbn [fst snd]. unfold peer_debt. cbn [p_send_full p_wl].
      rewrite orb_true_r. reflexivity. }
    rewrite E. lia.
  - rewrite !client_phi_eq. change (timer_ready (set_queue c [])) with (timer_ready c). rewrite Et.
    cbn [set_queue cs_peers cs_tasks cs_wl cs_queue cs_new_blocks nonnil b2n]. lia.
Qed.

(* ---------- phase C: the tasks ---------- *)
Definition res_w (P : nat) (r : option task_result) : nat :=
  match r with
  | None => 0
  | Some (TrGet _ _ _) => get_G P + 1
  | Some (TrSet _ _) => 2
  | Some TrCancelled => 1
  end.

Lemma poll_task_ready_w P nc t r : poll_task nc t = TpReady r -> res_w P (Some r) <= ctask_w P t.
Proof.
  unfold poll_task, ctask_w. destruct (t_kind t).
  - destruct (t_aborted t); [intros [= <-]; cbn; lia|]. destruct (t_call t); [|discriminate]. destruct (t_result t); [|discriminate].
    intros [= <-]. cbn. lia.
  - destruct (t_call t); [|discriminate]. destruct (t_result t) as [[]|]; try discriminate; intros [= <-]; cbn; lia.
Qed.

Lemma poll_task_start_w P nc t o : poll_task nc t = TpStart o -> ctask_w P (start_task nc t) + 2 <= ctask_w P t.
Proof.
  unfold poll_task, ctask_w, start_task. cbn [t_kind t_call t_result t_aborted]. destruct (t_kind t).
  - destruct (t_aborted t); [discriminate|]. destruct (t_call t); [destruct (t_result t); discriminate|]. intros _. destruct (t_result t); lia.
  - destruct (t_call t); [destruct (t_result t) as [[]|]; discriminate|]. intros _. destruct (t_result t); lia.
Qed.

Lemma tw_poll_next P rq : forall ts nc,
  NoDup (map fst ts) ->
  let '(ts', rq', nc', outs, res) := poll_next rq ts nc in tw P ts' + 2 * length (out_nums outs) + res_w P res <= tw P ts.
Proof.
  induction rq as [|tid rq IH]; intros ts nc Hnd; cbn [poll_next]; [cbn; lia|].
  destruct (al_find N.eqb tid ts) as [t|] eqn:Ef; [|apply IH; exact Hnd].
  pose proof (al_find_some_in _ Neqb_spec _ _ _ Ef) as Hin.
  destruct (poll_task nc t) as [r|o|] eqn:Ep.
  - pose proof (sum_by_al_remove (fun e => ctask_w P (snd e)) tid t ts Hnd Hin) as E. cbn [snd] in E. fold (tw P (al_remove N.eqb tid ts)) in E. fold (tw P ts) in E.
    pose proof (poll_task_ready_w P _ _ _ Ep). cbn [out_nums flat_map length]. lia.
  - pose proof (sum_by_al_modify (fun e => ctask_w P (snd e)) tid (start_task nc) t ts Hnd Hin) as E. cbn [snd] in E.
    fold (tw P (al_modify N.eqb tid (start_task nc) ts)) in E. fold (tw P ts) in E.
    pose proof (poll_task_start_w P _ _ _ Ep) as Hw. destruct (poll_task_start _ _ _ Ep) as [_ Ho].
    specialize (IH (al_modify N.eqb tid (start_task nc) ts) (nc + 1)%N ltac:(rewrite al_modify_keys; exact Hnd)).
    destruct (poll_next rq (al_modify N.eqb tid (start_task nc) ts) (nc + 1)%N) as [[[[ts' rq'] nc'] outs'] res].
    rewrite out_nums_app, app_length, Ho. cbn [length]. lia.
  - apply IH; exact Hnd.
Qed.

(* some queued task has something to do: the pass over the queue starts a call or finds a task Ready *)
Lemma poll_next_progress rq : forall ts nc,
  (exists tid t, In tid rq /\ al_find N.eqb tid ts = Some t /\ needy t = true) ->
  let '(ts', rq', nc', outs, res) := poll_next rq ts nc in res <> None \/ out_nums outs <> [].
Proof.
  induction rq as [|tid0 rq IH]; intros ts nc (tid & t & Hin & Hf & Hn); [destruct Hin|]. cbn [poll_next].
  destruct (al_find N.eqb tid0 ts) as [t0|] eqn:Ef.
  - destruct (poll_task nc t0) as [r|o|] eqn:Ep.
    + left. discriminate.
    + destruct (poll_task_start _ _ _ Ep) as [_ Ho].
      destruct (poll_next rq (al_modify N.eqb tid0 (start_task nc) ts) (nc + 1)%N) as [[[[ts' rq'] nc'] outs'] res].
      right. rewrite out_nums_app, Ho. discriminate.
    + apply IH. exists tid, t. split; [|auto]. destruct Hin as [->|Hin]; [|exact Hin].
      rewrite Ef in Hf. injection Hf as ->. apply poll_task_pending in Ep. congruence.
  - apply IH. exists tid, t. split; [|auto]. destruct Hin as [->|Hin]; [congruence | exact Hin].
Qed.

Definition tasks_act (s : cstate) : bool :=
  match tasks_res s with Some _ => true | None => negb (is_nil (out_nums (tasks_outs s))) end.

Lemma tasks_act_needy s :
  (exists tid t, In tid (cs_ready s) /\ al_find N.eqb tid (cs_tasks s) = Some t /\ needy t = true) -> tasks_act s = true.
Proof.
  intros H. pose proof (poll_next_progress (cs_ready s) (cs_tasks s) (cs_next_call s) H) as Hp.
  unfold tasks_act, tasks_res, tasks_outs. destruct (poll_next (cs_ready s) (cs_tasks s) (cs_next_call s)) as [[[[ts rq] nc] outs] res].
  destruct res; [reflexivity|]. destruct Hp as [Hp|Hp]; [congruence|]. destruct (out_nums outs); [congruence | reflexivity].
Qed.

Lemma phi_after_tasks s :
  NoDup (map fst (cs_tasks s)) ->
  client_phi (after_tasks s) + 2 * length (out_nums (tasks_outs s)) + res_w (length (cs_peers s)) (tasks_res s) <= client_phi s.
Proof.
  intros Hnd. pose proof (tw_poll_next (length (cs_peers s)) (cs_ready s) (cs_tasks s) (cs_next_call s) Hnd) as H.
  rewrite !client_phi_eq. unfold after_tasks, tasks_outs, tasks_res, timer_ready.
  destruct (poll_next (cs_ready s) (cs_tasks s) (cs_next_call s)) as [[[[ts rq] nc] outs] res].
  cbn [set_tasks_calls cs_peers cs_tasks cs_wl cs_queue cs_new_blocks cs_deadline cs_now]. lia.
Qed.

(* a result is handled: a miss puts the CID on the wantlist and every record goes out of date *)
Lemma al_mem_remove_neq {V} (c x : cid) (l : list (cid * V)) : x <> c -> al_mem cid_eqb x (al_remove cid_eqb c l) = al_mem cid_eqb x l.
Proof.
  intros Hne. induction l as [|[k v] l IH]; [reflexivity|]. unfold al_remove, al_mem in *. cbn [filter fst].
  destruct (cid_eqb c k) eqn:E; cbn [negb existsb fst].
  - apply cid_eqb_spec in E. subst k. rewrite IH. assert (cid_eqb x c = false) as -> by (apply Wantlist_proofs.cid_eqb_neq; exact Hne). reflexivity.
  - rewrite IH. reflexivity.
Qed.

Lemma vacant_wanted_again w c s :
  ~ In c (wl_cids w) ->
  length (vacant_cids (MkWl (wl_cids w ++ [c]) (wl_rev w + 1) (wl_sdh w)) (req (wls_wanted_again s c))) <= length (vacant_cids w (req s)) + 1.
Proof.
  intros Hc. unfold vacant_cids. cbn [wl_cids]. rewrite filter_app, app_length.
  assert (E : filter (fun x => negb (al_mem cid_eqb x (req (wls_wanted_again s c)))) (wl_cids w) =
              filter (fun x => negb (al_mem cid_eqb x (req s))) (wl_cids w)).
  { apply filter_ext_in. intros x Hx. f_equal. unfold wls_wanted_again. destruct (al_find cid_eqb c (req s)) as [[]|]; try reflexivity.
    cbn [req]. apply al_mem_remove_neq. intros ->. contradiction. }
  rewrite E. cbn [filter]. destruct (negb _); cbn; lia.
Qed.

Lemma debt_wanted_again w c tf ps :
  ~ In c (wl_cids w) ->
  peer_debt (MkWl (wl_cids w ++ [c]) (wl_rev w + 1) (wl_sdh w)) tf
            (MkPeer (p_conns ps) (p_ss ps) (wls_wanted_again (p_wl ps) c) (p_send_full ps))
  <= peer_debt w tf ps + (wWANT + wU).
Proof.
  intros Hc. unfold peer_debt. cbn [p_send_full p_wl wl_cids]. pose proof (vacant_wanted_again w c (p_wl ps) Hc) as Hv.
  rewrite app_length. cbn [length]. unfold wWANT, wU in *.
  destruct (p_send_full ps || tf); destruct (wls_is_updated (wls_wanted_again (p_wl ps) c) _); destruct (wls_is_updated (p_wl ps) w); lia.
Qed.

Lemma phi_handle s r :
  client_phi (fst (handle_task_result s r)) + 1 <= client_phi s + res_w (length (cs_peers s)) (Some r).
Proof.
  destruct r as [q c res|ok bl|]; cbn [handle_task_result res_w].
  - assert (Hsame : client_phi (set_abort s (al_remove N.eqb q (cs_abort s))) = client_phi s) by reflexivity.
    destruct res; cbn [fst]; try (rewrite Hsame; unfold get_G; lia).
    cbn [set_abort cs_wl]. unfold wl_insert. destruct (cid_mem c (wl_cids (cs_wl s))) eqn:M; cbn [fst].
    + rewrite !client_phi_eq. cbn [set_c2q set_wl set_abort cs_peers cs_tasks cs_wl cs_queue cs_new_blocks]. unfold timer_ready. cbn. lia.
    + apply cid_mem_false in M. rewrite !client_phi_eq.
      cbn [set_c2q set_peers set_wl set_abort cs_peers cs_tasks cs_wl cs_queue cs_new_blocks wl_cids]. unfold wanted_again_all. rewrite map_length.
      change (timer_ready (set_c2q _ _)) with (timer_ready s).
      assert (Hd : debts (MkWl (wl_cids (cs_wl s) ++ [c]) (wl_rev (cs_wl s) + 1) (wl_sdh (cs_wl s))) (timer_ready s)
                     (map (fun e => (fst e, MkPeer (p_conns (snd e)) (p_ss (snd e)) (wls_wanted_again (p_wl (snd e)) c) (p_send_full (snd e)))) (cs_peers s))
                   <= debts (cs_wl s) (timer_ready s) (cs_peers s) + length (cs_peers s) * (wWANT + wU)).
      { unfold debts. rewrite sum_by_map. apply sum_by_le_add. intros [p ps] _. cbn [fst snd]. apply debt_wanted_again. exact M. }
      rewrite app_length. cbn [length]. unfold get_G. lia.
  - destruct ok; cbn [fst]; rewrite !client_phi_eq; cbn [set_new_blocks cs_peers cs_tasks cs_wl cs_queue cs_new_blocks]; unfold timer_ready; cbn [set_new_blocks cs_deadline cs_now].
    + pose proof (nonnil_app_le (cs_new_blocks s) bl). pose proof (nonnil_le1 bl). lia.
    + lia.
  - cbn [fst]. lia.
Qed.

Lemma INVT_handle s r : INVT s -> INVT (fst (handle_task_result s r)).
Proof.
  intros H. destruct (handle_result_frame s r) as (E1 & _ & _ & _ & _ & E6 & _). unfold INVT. rewrite E1, E6. exact H.
Qed.

Lemma handle_peers_length s r : length (cs_peers (fst (handle_task_result s r))) = length (cs_peers s).
Proof.
  destruct r as [q c res|ok bl|]; cbn [handle_task_result]; [|destruct ok; reflexivity|reflexivity].
  destruct res; cbn [fst]; try reflexivity.
  destruct (wl_insert (cs_wl (set_abort s (al_remove N.eqb q (cs_abort s)))) c) as [w' ins]. destruct ins; cbn; [|reflexivity].
  unfold wanted_again_all. apply map_length.
Qed.

Lemma phi_tasks_run s outs s' :
  tasks_run s outs s' -> INVT s -> client_phi s' + length (out_nums outs) + b2n (tasks_act s) <= client_phi s.
Proof.
  induction 1 as [s Hr | s r outs s' Hr Hrun IH]; intros HT.
  - pose proof (phi_after_tasks s (proj1 HT)) as H. rewrite Hr in H. cbn [res_w] in H.
    unfold tasks_act. rewrite Hr. destruct (out_nums (tasks_outs s)); cbn [is_nil negb b2n length] in *; lia.
  - pose proof (phi_after_tasks s (proj1 HT)) as H. rewrite Hr in H.
    pose proof (phi_handle (after_tasks s) r) as H2. destruct (after_tasks_frame s) as (_ & _ & Ep & _). rewrite Ep in H2.
    specialize (IH (INVT_handle _ r (INVT_after_tasks s HT))).
    rewrite !out_nums_app, !app_length, handle_result_nums. cbn [length]. unfold tasks_act. rewrite Hr. cbn [b2n].
    assert (0 <= b2n (tasks_act (fst (handle_task_result (after_tasks s) r)))) by lia. lia.
Qed.

(* ---------- phase D: update_handlers over records in the network's shape ---------- *)
Lemma count_wants_le (es : list gen_entry) (l : list cid) :
  NoDup (map snd es) -> (forall k c, In (k, c) es -> is_want (k, c) = true -> In c l) -> count_wants es <= length l.
Proof.
  intros Hnd Hin. unfold count_wants. replace (length (filter is_want es)) with (length (map snd (filter is_want es))) by apply map_length.
  apply NoDup_incl_length; [apply NoDup_map_filter; exact Hnd|].
  intros c Hc. apply in_map_iff in Hc. destruct Hc as ([k c'] & <- & Hf). apply filter_In in Hf. apply (Hin k c'); apply Hf.
Qed.

Lemma vacant_none w r : (forall c, In c (wl_cids w) -> In c (map fst r)) -> vacant_cids w r = [].
Proof.
  intros H. unfold vacant_cids. induction (wl_cids w) as [|c l IH]; [reflexivity|]. cbn [filter].
  assert (al_mem cid_eqb c r = true) as -> by (apply (al_mem_In _ cid_eqb_spec); apply H; left; reflexivity).
  cbn [negb]. apply IH. intros x Hx. apply H. right. exact Hx.
Qed.

Lemma gen_full_count w s :
  NoDup (wl_cids w) -> st_ok w s ->
  count_wants (fst (wls_generate_full s w)) <= length (wl_cids w) /\
  vacant_cids w (req (snd (wls_generate_full s w))) = [] /\
  wls_is_updated (snd (wls_generate_full s w)) w = wls_is_updated s w.
Proof.
  intros Hw [Hnd Hst]. split; [|split].
  - apply count_wants_le; [apply gen_full_entries_NoDup; assumption|].
    intros k c Hin _. apply (gen_full_entries s w k c Hw Hnd) in Hin. apply Hin.
  - apply vacant_none. intros c Hc. apply gen_full_keys. exact Hc.
  - reflexivity.
Qed.

Lemma upd_body_count w s :
  NoDup (wl_cids w) -> st_ok w s ->
  count_wants (fst (upd_body s w)) <= length (vacant_cids w (req s)) /\
  vacant_cids w (req (snd (upd_body s w))) = [] /\
  wls_is_updated (snd (upd_body s w)) w = true.
Proof.
  intros Hw [Hnd Hst]. split; [|split].
  - apply count_wants_le; [apply upd_body_entries_NoDup; assumption|].
    intros k c Hin Hwant. apply (upd_body_entries s w k c Hnd) in Hin. destruct Hin as [(st & Hr & Hin)|(-> & Hc & Hn)].
    + exfalso. unfold upd_entries in Hin. cbn [fst snd] in Hin. destruct (Hst c st Hr) as [->|[-> Hnc]].
      * destruct (cid_mem c (wl_cids w)); [destruct Hin|]. destruct Hin as [[= <-]|[]]. discriminate.
      * apply cid_mem_false in Hnc. rewrite Hnc in Hin. destruct Hin.
    + apply vacant_In. split; [exact Hc | exact Hn].
  - apply vacant_none. intros c Hc. apply upd_body_keys. exact Hc.
  - unfold upd_body, wls_is_updated. cbn [snd force_update synced_rev negb andb]. apply N.eqb_refl.
Qed.

Definition is_ready (ss : sending_state) : bool := match ss with SsReady => true | _ => false end.

Lemma wmsg_w_of i x : wmsg_w (w_of i x) = wMSG + wWANT * count_wants (snd x).
Proof. reflexivity. Qed.

(* one record through update_handlers: what it still owes plus what it put on the wire *)
Lemma debt_fin1 i now w p ps :
  NoDup (wl_cids w) -> peer_ok w ps ->
  peer_debt w false (snd (fin1 now w (p, ps))) + sum_by wmsg_w (map (w_of i) (sends1 w (p, ps)))
  + b2n (is_ready (p_ss ps) && negb (peer_idle w (p, ps))) <= peer_debt w false ps.
Proof.
  intros Hw (Hst & _ & _). unfold fin1, sends1, peer_idle. cbn [fst snd]. destruct (p_ss ps); cbn [is_ready andb b2n map sum_by fold_right snd]; try lia.
  destruct (p_send_full ps) eqn:Esf; cbn [negb andb].
  - destruct (gen_full_count w (p_wl ps) Hw Hst) as (Hc & Hv & Hu). destruct (wls_generate_full (p_wl ps) w) as [es wls'].
    cbn [fst snd] in *. cbn [map sum_by fold_right]. rewrite wmsg_w_of. cbn [snd]. unfold peer_debt. cbn [p_send_full p_wl orb].
    rewrite Esf, Hv, Hu. cbn [orb length b2n]. unfold wMSG, wWANT, wU in *. destruct (wls_is_updated (p_wl ps) w); lia.
  - rewrite gen_update_unfold. destruct (wls_is_updated (p_wl ps) w) eqn:Eu.
    + cbn [is_nil andb map sum_by fold_right snd negb b2n]. unfold peer_debt. cbn [p_send_full p_wl]. rewrite Esf, Eu. cbn. lia.
    + destruct (upd_body_count w (p_wl ps) Hw Hst) as (Hc & Hv & Hu). destruct (upd_body (p_wl ps) w) as [es wls'].
      cbn [fst snd] in *. unfold peer_debt. cbn [orb]. rewrite Esf, Eu. cbn [orb negb andb b2n].
      destruct es as [|e es]; cbn [is_nil andb snd map sum_by fold_right p_send_full p_wl].
      * rewrite Hv, Hu. cbn [orb length]. unfold wU. lia.
      * rewrite wmsg_w_of. cbn [snd p_send_full p_wl]. rewrite Hv, Hu. cbn [orb length]. unfold wMSG, wWANT, wU in *. lia.
Qed.

Lemma fin1_key now w e : fst (fin1 now w e) = fst e.
Proof.
  unfold fin1. destruct (p_ss (snd e)); try reflexivity.
  destruct (if p_send_full (snd e) then _ else _) as [es wls']. destruct (negb (p_send_full (snd e)) && is_nil es); reflexivity.
Qed.

Definition wants_work (w : wl) (e : peer * peer_state) : bool := is_ready (p_ss (snd e)) && negb (peer_idle w e).

Lemma debts_fin i now w l :
  NoDup (wl_cids w) -> (forall p ps, In (p, ps) l -> peer_ok w ps) ->
  debts w false (map (fin1 now w) l) + sum_by wmsg_w (map (w_of i) (flat_map (sends1 w) l)) + b2n (existsb (wants_work w) l)
  <= debts w false l.
Proof.
  intros Hw. induction l as [|[p ps] l IH]; intros Hok; [cbn; lia|].
  specialize (IH (fun p' ps' H => Hok p' ps' (or_intror H))). pose proof (debt_fin1 i now w p ps Hw (Hok p ps (or_introl eq_refl))) as H1.
  cbn [map flat_map existsb]. rewrite map_app, sum_by_app. unfold debts in *. rewrite !sum_by_cons. cbn [snd].
  unfold wants_work at 1. cbn [snd].
  destruct (is_ready (p_ss ps) && negb (peer_idle w (p, ps))); cbn [orb b2n] in *; [|lia].
  assert (b2n (existsb (wants_work w) l) >= 0) by lia. lia.
Qed.

(* the client after the poll: records updated, queue and new_blocks handed over *)
Lemma phi_fin i now sC :
  NoDup (wl_cids (cs_wl sC)) -> (forall p ps, In (p, ps) (cs_peers sC) -> peer_ok (cs_wl sC) ps) -> timer_ready sC = false ->
  client_phi (set_peers (set_new_blocks (set_queue sC []) []) (map (fin1 now (cs_wl sC)) (cs_peers sC)))
  + sum_by wmsg_w (map (w_of i) (flat_map (sends1 (cs_wl sC)) (cs_peers sC)))
  + nonnil (cs_queue sC) + nonnil (cs_new_blocks sC) + b2n (existsb (wants_work (cs_wl sC)) (cs_peers sC))
  <= client_phi sC.
Proof.
  intros Hw Hok Ht. pose proof (debts_fin i now (cs_wl sC) (cs_peers sC) Hw Hok) as H.
  rewrite !client_phi_eq. cbn [set_peers set_new_blocks set_queue cs_peers cs_tasks cs_wl cs_queue cs_new_blocks nonnil].
  change (timer_ready (set_peers _ _)) with (timer_ready sC). rewrite Ht, map_length. cbn [b2n]. lia.
Qed.

(* ---------- a released store call, a handler report ---------- *)
Lemma ctask_w_released P t r : ctask_w P (Client.MkTask (t_kind t) (t_call t) (Some r) (t_aborted t)) <= ctask_w P t.
Proof.
  unfold ctask_w. cbn [t_kind t_call t_result t_aborted]. destruct (t_kind t); [destruct (t_aborted t); [lia|]|];
    destruct (t_call t); destruct (t_result t); lia.
Qed.

Lemma phi_release c m r : client_phi (c_release c m r) <= client_phi c.
Proof.
  unfold c_release. destruct (find (call_is m) (cs_tasks c)) as [[tid t0]|]; [|lia].
  rewrite !client_phi_eq. cbn [set_tasks cs_peers cs_tasks cs_wl cs_queue cs_new_blocks]. change (timer_ready (set_tasks _ _ _)) with (timer_ready c).
  pose proof (sum_by_al_modify_le (fun e => ctask_w (length (cs_peers c)) (snd e)) tid
                (fun t => Client.MkTask (t_kind t) (t_call t) (Some r) (t_aborted t)) (cs_tasks c)
                (fun k v => ctask_w_released _ v r)) as H.
  unfold tw. lia.
Qed.

Lemma phi_report c p cn r : client_phi (c_report c p cn r) = client_phi c.
Proof.
  rewrite !client_phi_eq. unfold c_report. cbn [set_peers cs_peers cs_tasks cs_wl cs_queue cs_new_blocks]. change (timer_ready (set_peers _ _)) with (timer_ready c).
  unfold al_modify. rewrite map_length. f_equal. f_equal. f_equal. f_equal. unfold debts. rewrite sum_by_map. apply sum_by_ext.
  intros [k ps] _. cbn [fst snd]. destruct (p =? k)%N; [|reflexivity]. cbn [snd]. destruct (report_accepted ps cn); reflexivity.
Qed.

(* ---------- an incoming block batch ---------- *)
(* the accumulator against its start: either nothing was accepted and nothing changed, or the wantlist lost a CID *)
Definition inc_same (a0 a : inc_acc) : Prop :=
  ia_wl a = ia_wl a0 /\ ia_pwl a = ia_pwl a0 /\ ia_queue a = ia_queue a0 /\ ia_new a = ia_new a0.

Definition inc_rel (a0 a : inc_acc) : Prop :=
  (exists g, wl_cids (ia_wl a) = filter g (wl_cids (ia_wl a0))) /\
  map fst (req (ia_pwl a)) = map fst (req (ia_pwl a0)) /\
  (inc_same a0 a \/ (length (wl_cids (ia_wl a)) + 1 <= length (wl_cids (ia_wl a0)) /\ ia_new a <> [])).

Lemma inc_rel_refl a : inc_rel a a.
Proof.
  split; [exists (fun _ => true); symmetry; apply filter_all; reflexivity|]. split; [reflexivity|]. left. repeat split; reflexivity.
Qed.

Lemma filter_filter {A} (f g : A -> bool) l : filter f (filter g l) = filter (fun x => g x && f x) l.
Proof. induction l as [|x l IH]; [reflexivity|]. cbn. destruct (g x); cbn; [destruct (f x)|]; rewrite IH; reflexivity. Qed.

Lemma filter_length_le {A} (f : A -> bool) l : length (filter f l) <= length l.
Proof. induction l as [|x l IH]; cbn; [lia|]. destruct (f x); cbn; lia. Qed.

Lemma cid_remove_shorter c l : In c l -> length (cid_remove c l) + 1 <= length l.
Proof.
  induction l as [|x l IH]; [intros []|]. unfold cid_remove in *. cbn [filter]. intros [->|Hin].
  - rewrite Wantlist_proofs.cid_eqb_refl. cbn [negb length]. pose proof (filter_length_le (fun x => negb (cid_eqb c x)) l). lia.
  - specialize (IH Hin). destruct (negb (cid_eqb c x)); cbn [length]; lia.
Qed.

Lemma inc_block_rel a0 a b : inc_rel a0 a -> inc_rel a0 (inc_block a b).
Proof.
  intros ((g & Hg) & Hk & Hc). unfold inc_block. destruct (ia_panic a); [split; [eauto|auto]|]. destruct b as [c data]. unfold wl_remove.
  destruct (cid_mem c (wl_cids (ia_wl a))) eqn:M; cbn [negb].
  - apply cid_mem_In in M. split; [|split].
    + cbn [ia_wl wl_cids]. exists (fun x => g x && negb (cid_eqb c x)). unfold cid_remove. rewrite Hg. apply filter_filter.
    + cbn [ia_pwl wls_got_block req]. rewrite al_modify_keys. exact Hk.
    + right. cbn [ia_wl wl_cids ia_new]. split; [|destruct (ia_new a); discriminate].
      pose proof (cid_remove_shorter c _ M) as H1.
      assert (length (wl_cids (ia_wl a)) <= length (wl_cids (ia_wl a0))) by (rewrite Hg; apply filter_length_le). lia.
  - destruct (al_mem cid_eqb c (ia_c2q a)); (split; [eauto|]; split; [exact Hk|]); cbn [ia_wl ia_pwl ia_queue ia_new]; exact Hc.
Qed.

Lemma inc_blocks_rel bl : forall a0 a, inc_rel a0 a -> inc_rel a0 (fold_left inc_block bl a).
Proof. induction bl as [|b bl IH]; intros a0 a H; [exact H|]. cbn [fold_left]. apply IH, inc_block_rel, H. Qed.

Lemma inc_block_queue_nonnil a b : ia_new (inc_block a b) = ia_new a -> ia_queue (inc_block a b) = ia_queue a.
Proof.
  unfold inc_block. destruct (ia_panic a); [reflexivity|]. destruct b as [c data]. destruct (wl_remove (ia_wl a) c) as [w' removed].
  destruct removed; cbn [negb].
  - cbn [ia_new]. intros E. exfalso. assert (H : length (ia_new a ++ [(c, data)]) = length (ia_new a)) by (rewrite E; reflexivity).
    rewrite app_length in H. cbn in H. lia.
  - destruct (al_mem cid_eqb c (ia_c2q a)); reflexivity.
Qed.

Lemma vacant_filter_le (g : cid -> bool) w w' r r' :
  wl_cids w' = filter g (wl_cids w) -> map fst r' = map fst r ->
  length (vacant_cids w' r') <= length (vacant_cids w r).
Proof.
  intros Hw Hk. unfold vacant_cids. rewrite Hw, filter_filter.
  assert (E : forall x, al_mem cid_eqb x r' = al_mem cid_eqb x r).
  { intros x. destruct (al_mem cid_eqb x r) eqn:M.
    - apply (al_mem_In _ cid_eqb_spec). rewrite Hk. apply (al_mem_In _ cid_eqb_spec). exact M.
    - destruct (al_mem cid_eqb x r') eqn:M'; [|reflexivity]. apply (al_mem_In _ cid_eqb_spec) in M'. rewrite Hk in M'.
      apply (al_mem_In _ cid_eqb_spec) in M'. congruence. }
  clear Hw. induction (wl_cids w) as [|x l IH]; [cbn; lia|]. cbn [filter]. rewrite E. destruct (negb (al_mem cid_eqb x r)); destruct (g x); cbn [andb length]; lia.
Qed.

Lemma debt_shrunk (g : cid -> bool) w w' tf ps ps' :
  wl_cids w' = filter g (wl_cids w) -> map fst (req (p_wl ps')) = map fst (req (p_wl ps)) -> p_send_full ps' = p_send_full ps ->
  peer_debt w' tf ps' <= peer_debt w tf ps + wU.
Proof.
  intros Hw Hk Hsf. unfold peer_debt. rewrite Hsf. pose proof (vacant_filter_le g w w' _ _ Hw Hk) as Hv.
  assert (Hl : length (wl_cids w') <= length (wl_cids w)) by (rewrite Hw; apply filter_length_le).
  unfold wWANT, wU in *. destruct (p_send_full ps || tf); destruct (wls_is_updated (p_wl ps') w'); destruct (wls_is_updated (p_wl ps) w); lia.
Qed.

Lemma phi_push s k : client_phi (push_task s k) = client_phi s + ctask_w (length (cs_peers s)) (Client.MkTask k None None false).
Proof.
  rewrite !client_phi_eq. cbn [push_task cs_peers cs_tasks cs_wl cs_queue cs_new_blocks]. change (timer_ready (push_task s k)) with (timer_ready s).
  unfold tw. rewrite sum_by_app. cbn [sum_by fold_right snd]. lia.
Qed.

Lemma phi_incoming c p blocks :
  NoDup (map fst (cs_peers c)) -> client_phi (fst (c_incoming c p [] blocks)) <= client_phi c.
Proof.
  intros Hnd. unfold c_incoming. destruct (al_find N.eqb p (cs_peers c)) as [ps0|] eqn:Ef; [|cbn [fst]; lia]. cbn [fold_left].
  pose proof (al_find_some_in _ Neqb_spec _ _ _ Ef) as Hin0.
  set (a0 := MkInc (cs_wl c) (p_wl ps0) (cs_c2q c) (cs_queue c) [] false).
  pose proof (inc_blocks_rel blocks a0 a0 (inc_rel_refl a0)) as Hrel. set (a := fold_left inc_block blocks a0) in *.
  destruct Hrel as ((g & Hg) & Hk & Hc). cbn [a0 ia_wl ia_pwl ia_queue ia_new] in Hg, Hk, Hc.
  set (upd := fun ps1 : peer_state => MkPeer (p_conns ps1) (p_ss ps1) (ia_pwl a) (p_send_full ps1)).
  set (s1 := MkCs (ia_queue a) (ia_wl a) (al_modify N.eqb p upd (cs_peers c)) (ia_c2q a) (cs_tasks c) (cs_ready c) (cs_next_task c)
                  (cs_abort c) (cs_next_qid c) (cs_deadline c) (cs_new_blocks c) (cs_now c) (cs_next_call c)).
  assert (Hlen : length (cs_peers s1) = length (cs_peers c)) by (cbn [s1 cs_peers]; unfold al_modify; apply map_length).
  assert (Htr : timer_ready s1 = timer_ready c) by reflexivity.
  assert (Hown : forall k ps, In (k, ps) (cs_peers c) -> (p =? k)%N = true -> ps = ps0).
  { intros k ps Hin Ek. apply N.eqb_eq in Ek. subst k. eapply NoDup_keys_in_eq; eassumption. }
  destruct Hc as [(E1 & E2 & E3 & E4)|[Hlt Hne]].
  - (* nothing accepted *)
    assert (Hs1 : client_phi s1 = client_phi c).
    { rewrite !client_phi_eq. rewrite Htr, Hlen. cbn [s1 cs_tasks cs_wl cs_queue cs_new_blocks cs_peers]. cbn [a0 ia_wl ia_pwl ia_queue] in E1, E2, E3.
      rewrite E1, E3. f_equal. f_equal. f_equal. f_equal. unfold debts, al_modify. rewrite sum_by_map. apply sum_by_ext. intros [k ps] Hin. cbn [fst snd].
      destruct (p =? k)%N eqn:Ek; [|reflexivity]. cbn [snd]. rewrite (Hown k ps Hin Ek). unfold upd, peer_debt. cbn [p_send_full p_wl]. rewrite E2. reflexivity. }
    cbn [a0 ia_new] in E4. destruct (ia_panic a); [cbn [fst]; fold s1; lia|]. rewrite E4. cbn [fst]. fold s1. lia.
  - (* at least one block accepted *)
    assert (Hs1 : client_phi s1 + wl_L (length (cs_peers c)) <= client_phi c + 1 + length (cs_peers c) * wU).
    { rewrite !client_phi_eq. rewrite Htr, Hlen. cbn [s1 cs_tasks cs_wl cs_queue cs_new_blocks cs_peers].
      assert (Hd : debts (ia_wl a) (timer_ready c) (al_modify N.eqb p upd (cs_peers c)) <= debts (cs_wl c) (timer_ready c) (cs_peers c) + length (cs_peers c) * wU).
      { unfold debts, al_modify. rewrite sum_by_map. apply sum_by_le_add. intros [k ps] Hin. cbn [fst snd].
        destruct (p =? k)%N eqn:Ek; cbn [snd].
        - rewrite (Hown k ps Hin Ek). apply (debt_shrunk g); [exact Hg | exact Hk | reflexivity].
        - apply (debt_shrunk g); [exact Hg | reflexivity | reflexivity]. }
      pose proof (nonnil_le1 (ia_queue a)). nia. }
    destruct (ia_panic a); [cbn [fst]; fold s1; unfold wl_L in Hs1; lia|].
    destruct (ia_new a) as [|b nb] eqn:En; [congruence|]. cbn [fst]. fold s1. rewrite phi_push, Hlen. cbn [ctask_w t_kind t_call t_result]. unfold wl_L in Hs1. lia.
Qed.
