(* Tie_codec.v — what the codec models assume by value is what /repo says now (Extracted.v is
   regenerated from the working tree on every run). *)
From BS Require Import Bytes Frame Extracted.

(* Codec::decode: the limit, the operand and operator of the limit test, and which varint errors wait *)
Lemma tie_max_message_size : Extracted.max_message_size = Frame.max_message_size.  Proof. reflexivity. Qed.
Lemma tie_limit_operand : Extracted.limit_operand = 0.      (* `len > MAX_MESSAGE_SIZE`: the ANNOUNCED length *)  Proof. reflexivity. Qed.
Lemma tie_limit_operator : Extracted.limit_operator = 0.    (* strictly greater *)  Proof. reflexivity. Qed.
Lemma tie_varint_error_mapping : Extracted.varint_error_mapping = 0.  (* only Insufficient waits *)  Proof. reflexivity. Qed.

(* generated protobuf code: (tag, kind) tables of the readers and writers, as ProtoCodec.v implements them *)
Lemma tie_reader_tables :
  Extracted.reader_Message = [(10, 0); (26, 0); (34, 0); (40, 2)] /\
  Extracted.reader_Wantlist = [(10, 0); (16, 3)] /\
  Extracted.reader_Entry = [(10, 1); (16, 2); (24, 3); (32, 4); (40, 3)] /\
  Extracted.reader_Block = [(10, 1); (18, 1)] /\
  Extracted.reader_BlockPresence = [(10, 1); (16, 4)].
Proof. repeat split; reflexivity. Qed.

Lemma tie_writer_tables :
  Extracted.writer_Message = Extracted.reader_Message /\
  Extracted.writer_Wantlist = Extracted.reader_Wantlist /\
  Extracted.writer_Entry = Extracted.reader_Entry /\
  Extracted.writer_Block = Extracted.reader_Block /\
  Extracted.writer_BlockPresence = Extracted.reader_BlockPresence.
Proof. repeat split; reflexivity. Qed.

(* the tables of the Rust code are the ones derived from message.proto: tag = field number * 8 + wire type *)
Lemma tie_tags_conform :
  Extracted.reader_Message = Extracted.schema_Message /\
  Extracted.reader_Wantlist = Extracted.schema_Wantlist /\
  Extracted.reader_Entry = Extracted.schema_Entry /\
  Extracted.reader_Block = Extracted.schema_Block /\
  Extracted.reader_BlockPresence = Extracted.schema_BlockPresence.
Proof. repeat split; reflexivity. Qed.

Lemma tie_enums :
  Extracted.enum_WantType = [(0, 0); (1, 1)] /\ Extracted.enum_WantType_default = 0 /\
  Extracted.enum_BlockPresenceType = [(0, 0); (1, 1)] /\ Extracted.enum_BlockPresenceType_default = 0.
Proof. repeat split; reflexivity. Qed.
