(* Net_proofs50.v — package Q, part 1: the bookkeeping of the SERVER half in every reachable net (C13 lifted to nets).
   Server level: two new invariants of Server.v's step function —
     `TS`  every lookup task holds at most MAX_WANTLIST_ENTRIES_PER_PEER (1024) CIDs (done + still to fetch + the one parked on),
     tasks_n  a step adds at most one task, and only an SMsg does (a poll and a release never add one);
   and the double count "waiter registrations = sum of the want-set sizes" from Server_inv.Inv.
   Net level: `C13_net_server_bounded` (below) for node j of `fst (nrun Sz Hh (net_init n) ops)`, any op list. *)
From BS Require Import Server_lemmas Server_inv Server_proofs Server_live Wantlist_proofs Client_proofs
  Net Net_proofs2 Net_proofs3 Net_proofs4 Net_proofs5 Net_proofs6 Net_proofs7 Net_proofs9 Net_proofs21 Net_proofs24 Net_proofs28.
From Coq Require Import ZArith ZifyBool ZifyN ZifyNat Lia.
Open Scope N_scope.

Local Notation cid_eqb_spec := Wantlist_proofs.cid_eqb_spec.

(* ---------------------------------------------------------------- sizes *)
(* number of (peer, cid) pairs held: in the want sets / in the waiter lists *)
Definition wants_total (wants : list (peer * list cid)) : nat :=
  fold_right (fun x a => (length (snd x) + a)%nat) O wants.
Definition regs_total (wt : list (cid * list peer)) : nat :=
  fold_right (fun x a => (length (snd x) + a)%nat) O wt.

Definition task_size (t : Server.task) : nat := (length (Server.t_done t) + length (Server.t_todo t))%nat.
Definition tasks_n (st : sstate) : nat := (length (s_ready st) + length (s_blocked st))%nat.

(* every task is bounded by the cap: a ready task by 1024, a parked one by 1023 + the CID it is parked on *)
Definition TS (st : sstate) : Prop :=
  (forall t, In t (s_ready st) -> (task_size t <= 1024)%nat) /\
  (forall k c t, In (k, (c, t)) (s_blocked st) -> (task_size t + 1 <= 1024)%nat).

Definition is_smsg (op : sop) : bool := match op with SMsg _ _ _ => true | _ => false end.
Definition count_smsg (l : list sop) : nat := length (filter is_smsg l).

(* ---------------------------------------------------------------- the double count *)
Definition pairs_w (wants : list (peer * list cid)) : list (peer * cid) :=
  flat_map (fun x => map (fun c => (fst x, c)) (snd x)) wants.
Definition pairs_t (wt : list (cid * list peer)) : list (peer * cid) :=
  flat_map (fun x => map (fun p => (p, fst x)) (snd x)) wt.

Lemma pairs_w_length wants : length (pairs_w wants) = wants_total wants.
Proof.
  induction wants as [|[p s] wants IH]; cbn [pairs_w flat_map wants_total fold_right fst snd]; [reflexivity|].
  rewrite app_length, map_length. unfold pairs_w in IH. rewrite IH. reflexivity.
Qed.

Lemma pairs_t_length wt : length (pairs_t wt) = regs_total wt.
Proof.
  induction wt as [|[c l] wt IH]; cbn [pairs_t flat_map regs_total fold_right fst snd]; [reflexivity|].
  rewrite app_length, map_length. unfold pairs_t in IH. rewrite IH. reflexivity.
Qed.

Lemma pairs_w_In wants p c : In (p, c) (pairs_w wants) <-> exists s, In (p, s) wants /\ In c s.
Proof.
  unfold pairs_w. rewrite in_flat_map. split.
  - intros ([p' s] & Hin & Hm). cbn [fst snd] in Hm. apply in_map_iff in Hm. destruct Hm as (c' & [= <- <-] & Hc). eauto.
  - intros (s & Hin & Hc). exists (p, s). split; [exact Hin|]. cbn [fst snd]. apply in_map_iff. eauto.
Qed.

Lemma pairs_t_In wt p c : In (p, c) (pairs_t wt) <-> exists l, In (c, l) wt /\ In p l.
Proof.
  unfold pairs_t. rewrite in_flat_map. split.
  - intros ([c' l] & Hin & Hm). cbn [fst snd] in Hm. apply in_map_iff in Hm. destruct Hm as (p' & [= <- <-] & Hp). eauto.
  - intros (l & Hin & Hp). exists (c, l). split; [exact Hin|]. cbn [fst snd]. apply in_map_iff. eauto.
Qed.

Lemma NoDup_map_pair_l {A B} (a : A) (l : list B) : NoDup l -> NoDup (map (fun b => (a, b)) l).
Proof.
  induction 1 as [|b l Hni Hnd IH]; cbn [map]; constructor; [|exact IH].
  intros Hin. apply in_map_iff in Hin. destruct Hin as (b' & [= ->] & Hb). contradiction.
Qed.

Lemma NoDup_map_pair_r {A B} (b : B) (l : list A) : NoDup l -> NoDup (map (fun a => (a, b)) l).
Proof.
  induction 1 as [|a l Hni Hnd IH]; cbn [map]; constructor; [|exact IH].
  intros Hin. apply in_map_iff in Hin. destruct Hin as (a' & [= ->] & Ha). contradiction.
Qed.

Lemma pairs_w_NoDup wants :
  NoDup (map fst wants) -> (forall p s, In (p, s) wants -> NoDup s) -> NoDup (pairs_w wants).
Proof.
  induction wants as [|[p s] wants IH]; intros Hk Hs; [constructor|].
  cbn [map fst] in Hk. inversion Hk as [|? ? Hni Hnd]; subst.
  change (NoDup (map (fun c => (p, c)) s ++ pairs_w wants)).
  apply NoDup_app_intro.
  - apply NoDup_map_pair_l. apply (Hs p s). left. reflexivity.
  - apply IH; [exact Hnd|]. intros q t Hin. apply (Hs q t). right. exact Hin.
  - intros [q c] H1 H2. apply in_map_iff in H1. destruct H1 as (c' & [= <- <-] & _).
    apply pairs_w_In in H2. destruct H2 as (t & Hin & _). apply Hni. apply in_map_iff. exists (p, t). auto.
Qed.

Lemma pairs_t_NoDup wt :
  NoDup (map fst wt) -> (forall c l, In (c, l) wt -> NoDup l) -> NoDup (pairs_t wt).
Proof.
  induction wt as [|[c l] wt IH]; intros Hk Hs; [constructor|].
  cbn [map fst] in Hk. inversion Hk as [|? ? Hni Hnd]; subst.
  change (NoDup (map (fun p => (p, c)) l ++ pairs_t wt)).
  apply NoDup_app_intro.
  - apply NoDup_map_pair_r. apply (Hs c l). left. reflexivity.
  - apply IH; [exact Hnd|]. intros q t Hin. apply (Hs q t). right. exact Hin.
  - intros [q c'] H1 H2. apply in_map_iff in H1. destruct H1 as (p' & [= <- <-] & _).
    apply pairs_t_In in H2. destruct H2 as (t & Hin & _). apply Hni. apply in_map_iff. exists (c, t). auto.
Qed.

(* the number of waiter registrations is the number of wanted (peer, CID) pairs *)
Lemma regs_eq_wants st : Server_inv.Inv st -> regs_total (s_waiting st) = wants_total (s_wants st).
Proof.
  intros ((Hk & Hs) & (Htk & Htl) & HL).
  assert (Hw : NoDup (pairs_w (s_wants st))).
  { apply pairs_w_NoDup; [exact Hk|]. intros p s Hin. apply (In_alookup N.eqb Neqb_spec) in Hin; [|exact Hk]. apply (Hs _ _ Hin). }
  assert (Ht : NoDup (pairs_t (s_waiting st))).
  { apply pairs_t_NoDup; [exact Htk|]. intros c l Hin. apply (In_alookup cid_eqb cid_eqb_spec) in Hin; [|exact Htk]. apply (Htl _ _ Hin). }
  assert (Hiff : forall x, In x (pairs_t (s_waiting st)) <-> In x (pairs_w (s_wants st))).
  { intros [p c]. rewrite pairs_t_In, pairs_w_In. split.
    - intros (l & Hin & Hp). apply (In_alookup cid_eqb cid_eqb_spec) in Hin; [|exact Htk].
      assert (Hx : waitsP (s_waiting st) p c) by (exists l; auto). apply HL in Hx. destruct Hx as (s & Hs1 & Hs2).
      exists s. split; [apply (alookup_Some_In N.eqb Neqb_spec); exact Hs1 | exact Hs2].
    - intros (s & Hin & Hc). apply (In_alookup N.eqb Neqb_spec) in Hin; [|exact Hk].
      assert (Hx : wantsP (s_wants st) p c) by (exists s; auto). apply HL in Hx. destruct Hx as (l & Hl1 & Hl2).
      exists l. split; [apply (alookup_Some_In cid_eqb cid_eqb_spec); exact Hl1 | exact Hl2]. }
  rewrite <- pairs_t_length, <- pairs_w_length. apply Nat.le_antisymm; apply NoDup_incl_length; try assumption; intros x Hx; apply Hiff, Hx.
Qed.

Lemma wants_total_bound wants :
  (forall p s, In (p, s) wants -> (length s <= 1024)%nat) -> (wants_total wants <= 1024 * length wants)%nat.
Proof.
  induction wants as [|[p s] wants IH]; intros H; cbn [wants_total fold_right length snd]; [lia|].
  pose proof (H p s (or_introl eq_refl)) as Hs. specialize (IH (fun q t Hin => H q t (or_intror Hin))). unfold wants_total in IH. lia.
Qed.

Lemma Inv_wants_total st : Server_inv.Inv st -> (wants_total (s_wants st) <= 1024 * length (s_wants st))%nat.
Proof.
  intros ((Hk & Hs) & _). apply wants_total_bound. intros p s Hin. apply (In_alookup N.eqb Neqb_spec) in Hin; [|exact Hk].
  destruct (Hs _ _ Hin) as [_ Hl]. unfold len, MAX_WANTLIST_ENTRIES_PER_PEER in Hl. lia.
Qed.

(* ---------------------------------------------------------------- tasks: size and number *)
Lemma filter_len_le {A} (f : A -> bool) l : (length (filter f l) <= length l)%nat.
Proof. induction l as [|x l IH]; cbn [filter length]; [lia|]. destruct (f x); cbn [length]; lia. Qed.

Lemma adel_length_lt {V} k (m : list (N * V)) v : alookup N.eqb k m = Some v -> (length (adel N.eqb k m) + 1 <= length m)%nat.
Proof.
  induction m as [|[k' v'] m IH]; cbn [alookup]; [discriminate|]. unfold adel. cbn [filter fst].
  destruct (k =? k') eqn:E; cbn [negb].
  - intros _. pose proof (filter_len_le (fun kv : N * V => negb (k =? fst kv)) m). cbn [length]. lia.
  - intros H. specialize (IH H). unfold adel in IH. cbn [length]. lia.
Qed.

Lemma fold_run_task_blocked_len ready : forall st out,
  (length (s_blocked (fst (fold_left run_task ready (st, out)))) <= length (s_blocked st) + length ready)%nat.
Proof.
  induction ready as [|t ready IH]; intros st out; cbn [fold_left length]; [cbn [fst]; lia|].
  destruct (Server.t_todo t) as [|c rest] eqn:Et.
  - rewrite (run_task_nil _ _ _ Et). etransitivity; [apply IH|]. cbn [s_blocked]. lia.
  - rewrite (run_task_cons _ _ _ _ _ Et). etransitivity; [apply IH|]. cbn [s_blocked]. rewrite app_length. cbn [length]. lia.
Qed.

Lemma do_poll_shape st : Server_inv.Inv st ->
  s_ready (fst (Server.do_poll st)) = [] /\
  s_blocked (fst (Server.do_poll st)) = s_blocked (fst (fold_left run_task (s_ready st) (poll_start st, []))).
Proof.
  intros HI. destruct (do_poll_spec st HI) as (st1 & out1 & wants' & wt' & bat & Hf & Hdp & _ & _).
  rewrite Hdp, Hf. cbn [fst s_ready s_blocked]. auto.
Qed.

Lemma tasks_n_step Sz st op :
  Server_inv.Inv st -> (tasks_n (fst (sstep_l Sz st op)) <= tasks_n st + (if is_smsg op then 1 else 0))%nat.
Proof.
  intros HI. unfold sstep_l. destruct (s_panic st); [cbn [fst]; lia|].
  destruct op as [q|q w order|bl|q|k r|]; cbn [fst is_smsg].
  - unfold new_connection. destruct (alookup N.eqb q (s_wants st)); unfold tasks_n; cbn [s_ready s_blocked]; lia.
  - unfold process_incoming_message. destruct (alookup N.eqb q (s_wants st)) as [old|]; [|lia].
    destruct (process_wantlist Sz old w); unfold tasks_n; cbn [s_ready s_blocked]; [lia|]. rewrite app_length. cbn [length]. lia.
  - unfold tasks_n. cbn [new_blocks_available s_ready s_blocked]. lia.
  - unfold peer_disconnected. destruct (alookup N.eqb q (s_wants st)); unfold tasks_n; cbn [s_ready s_blocked]; lia.
  - unfold release. destruct (alookup N.eqb k (s_blocked st)) as [[c t]|] eqn:E; [|lia].
    pose proof (adel_length_lt _ _ _ E) as Hl. unfold tasks_n. cbn [s_ready s_blocked]. rewrite app_length. cbn [length]. lia.
  - destruct (do_poll_shape st HI) as [Hr Hb]. unfold tasks_n. rewrite Hr, Hb.
    pose proof (fold_run_task_blocked_len (s_ready st) (poll_start st) []) as Hl. cbn [poll_start s_blocked] in Hl. cbn [length]. lia.
Qed.

Lemma TS_step Sz st op : Server_inv.Inv st -> TS st -> TS (fst (sstep_l Sz st op)).
Proof.
  intros HI HT. pose proof HT as [Hr Hb]. unfold sstep_l. destruct (s_panic st); [exact HT|].
  destruct op as [q|q w order|bl|q|k r|]; cbn [fst].
  - unfold new_connection. destruct (alookup N.eqb q (s_wants st)); exact HT.
  - unfold process_incoming_message. destruct (alookup N.eqb q (s_wants st)) as [old|] eqn:Eold; [|exact HT].
    destruct (process_wantlist Sz old w) as [|new adds rems] eqn:Epw; [exact HT|].
    destruct HI as ((_ & Hs) & _). destruct (Hs _ _ Eold) as [Hold Holdlen].
    destruct (process_wantlist_spec _ _ _ _ _ _ Hold Holdlen Epw) as [Hpw _].
    destruct Hpw as [Hn1 Hn2 Ha _ _ _ Hiff].
    assert (Hnew : (length new <= 1024)%nat) by (unfold len, MAX_WANTLIST_ENTRIES_PER_PEER in Hn2; lia).
    assert (Hadds : (length adds <= 1024)%nat).
    { etransitivity; [|exact Hnew]. apply NoDup_incl_length; [exact Ha|]. intros c Hc. apply Hiff. right. exact Hc. }
    split; cbn [s_ready s_blocked]; [|exact Hb].
    intros t Hin. apply in_app_iff in Hin. destruct Hin as [Hin|[<-|[]]]; [apply Hr, Hin|].
    unfold task_size. cbn [Server.t_done Server.t_todo length].
    destruct (w_full w); [|exact Hadds]. destruct (perm_ok order new) eqn:Ep; [|exact Hnew].
    unfold perm_ok in Ep. apply andb_true_iff in Ep. destruct Ep as [Ep _]. apply andb_true_iff in Ep. destruct Ep as [Ep _].
    unfold len in Ep. lia.
  - exact HT.
  - unfold peer_disconnected. destruct (alookup N.eqb q (s_wants st)); exact HT.
  - unfold release. destruct (alookup N.eqb k (s_blocked st)) as [[c t]|] eqn:E; [|exact HT].
    pose proof (alookup_Some_In N.eqb Neqb_spec _ _ _ E) as Hin. split; cbn [s_ready s_blocked].
    + intros t0 Hin0. apply in_app_iff in Hin0. destruct Hin0 as [Hin0|[<-|[]]]; [apply Hr, Hin0|].
      specialize (Hb _ _ _ Hin). unfold task_size in *. cbn [Server.t_done Server.t_todo]. rewrite app_length. cbn [length]. lia.
    + intros k0 c0 t0 Hin0. unfold adel in Hin0. apply filter_In in Hin0. eapply Hb, Hin0.
  - destruct (do_poll_shape st HI) as [Hr' Hb']. split; [rewrite Hr'; intros t []|]. rewrite Hb'.
    intros k c t Hin. apply fold_run_task_blocked_inv in Hin. cbn [poll_start s_blocked] in Hin.
    destruct Hin as [Ho|(t0 & Ht0 & Htd & Hd & _)]; [eapply Hb, Ho|].
    specialize (Hr _ Ht0). unfold task_size in *. rewrite Htd in Hr. rewrite Hd. cbn [length] in Hr. lia.
Qed.

Lemma TS_init : TS sinit.
Proof. split; [intros t [] | intros k c t []]. Qed.

Lemma srun_from_TS Sz l : forall st,
  Server_inv.Inv st -> TS st ->
  TS (snd (srun_l_from Sz st l)) /\ (tasks_n (snd (srun_l_from Sz st l)) <= tasks_n st + count_smsg l)%nat.
Proof.
  induction l as [|op l IH]; intros st HI HT; cbn [srun_l_from]; [cbn [snd count_smsg filter length]; split; [exact HT | unfold count_smsg; cbn; lia]|].
  pose proof (sstep_l_inv Sz st op HI) as HI1. pose proof (TS_step Sz st op HI HT) as HT1. pose proof (tasks_n_step Sz st op HI) as Hn1.
  destruct (sstep_l Sz st op) as [st' out]. cbn [fst] in *. destruct (IH st' HI1 HT1) as [HT2 Hn2].
  destruct (srun_l_from Sz st' l) as [h st'']. cbn [snd] in *. split; [exact HT2|].
  unfold count_smsg in *. cbn [filter]. destruct (is_smsg op); cbn [length]; lia.
Qed.

(* ---------------------------------------------------------------- the net *)
(* wantlist messages delivered to node j during the run (every NDeliverW _ j step, effective or not) *)
Definition is_dw (j : N) (o : nop) : bool := match o with NDeliverW _ b => b =? j | _ => false end.
Definition count_dw (j : N) (ops : list nop) : nat := length (filter (is_dw j) ops).

(* the peers node j is connected to, as node numbers *)
Definition peers_of (s : net) (j : N) : list N := filter (Net.connected s j) (seqN 0 (length (nodes s))).
Definition npeers (s : net) (j : N) : nat := length (peers_of s j).

Section NetServerBounds.
  Variables (Sz : N) (Hh : hash_fn).
  Hypothesis HSz : 32 <= Sz.

  Lemma srv_ops_smsg s o j : (count_smsg (srv_ops Sz s o j) <= if is_dw j o then 1 else 0)%nat.
  Proof.
    unfold count_smsg. destruct o; cbn [srv_ops is_dw]; try (cbn; lia).
    - destruct (get_node s i); [|cbn; lia]. destruct (get_node s j0); [|cbn; lia]. destruct ((i =? j0) || Net.connected s i j0); [cbn; lia|].
      destruct (j =? j0); [cbn; lia|]. destruct (j =? i); cbn; lia.
    - destruct (get_node s i); [|cbn; lia]. destruct (get_node s j0); [|cbn; lia]. destruct (Net.connected s i j0); [|cbn; lia].
      destruct (j =? j0); [cbn; lia|]. destruct (j =? i); cbn; lia.
    - destruct (j =? i); [|cbn; lia]. destruct (get_node s i); [|cbn; lia]. destruct (poll_nb n); cbn; lia.
    - destruct (j =? i); [|cbn; lia]. destruct (get_node s i); [|cbn; lia].
      destruct (nth_error (n_calls n) (N.to_nat k)) as [[m c|m bl|m c]|]; cbn; lia.
    - rewrite (N.eqb_sym j0 j). destruct (j =? j0); [|cbn; lia]. destruct (take_first (w_between i j0) (wire_w s)) as [[m rest]|]; [|cbn; lia].
      destruct (get_node s i); [|cbn; lia]. destruct (get_node s j0); [|cbn; lia]. destruct (wm_full m || negb (is_nil (wm_entries m))); cbn; lia.
  Qed.

  Lemma sops_run_smsg ops : forall s j, (count_smsg (sops_run Sz Hh s ops j) <= count_dw j ops)%nat.
  Proof.
    induction ops as [|o ops IH]; intros s j; cbn [sops_run]; [unfold count_smsg, count_dw; cbn; lia|].
    specialize (IH (fst (nstep Sz Hh s o)) j). pose proof (srv_ops_smsg s o j) as H1.
    unfold count_smsg, count_dw in *. rewrite filter_app, app_length. cbn [filter]. destruct (is_dw j o); cbn [length]; lia.
  Qed.

  Lemma peers_of_In s j p : net_ok Sz Hh s -> (In p (peers_of s j) <-> Net.connected s j p = true).
  Proof.
    intros Hok. unfold peers_of. rewrite filter_In. split; [tauto|]. intros Hc. split; [|exact Hc].
    destruct (connected_neq Sz Hh HSz s j p Hok Hc) as (_ & _ & Hp). apply (seqN_In Sz HSz).
    unfold get_node in Hp. apply nth_error_Some in Hp. lia.
  Qed.

  (* ---------- theorem 1 ---------- *)
  Theorem C13_net_server_bounded n ops :
    Forall (nop_good Sz Hh) ops ->
    let s := fst (nrun Sz Hh (net_init n) ops) in
    forall j nj, get_node s j = Some nj ->
    let st := n_server nj in
    (* want sets: one per CONNECTED peer, duplicate-free, at most 1024 CIDs *)
    (NoDup (map fst (s_wants st)) /\
     (forall p, In p (map fst (s_wants st)) <-> Net.connected s j p = true) /\
     (forall p ws, alookup N.eqb p (s_wants st) = Some ws ->
        NoDup ws /\ len ws <= MAX_WANTLIST_ENTRIES_PER_PEER /\ Net.connected s j p = true) /\
     (length (s_wants st) <= npeers s j)%nat) /\
    (* waiter registrations: one list per CID, duplicate-free, non-empty; each names a connected peer and a CID of its want set *)
    (NoDup (map fst (s_waiting st)) /\
     (forall c l, alookup cid_eqb c (s_waiting st) = Some l ->
        NoDup l /\ l <> [] /\
        forall p, In p l -> Net.connected s j p = true /\ exists ws, alookup N.eqb p (s_wants st) = Some ws /\ In c ws) /\
     regs_total (s_waiting st) = wants_total (s_wants st) /\
     (wants_total (s_wants st) <= 1024 * npeers s j)%nat) /\
    (* lookups in flight: at most one task per wantlist message delivered to j, each task at most 1024 CIDs; call numbers distinct *)
    ((tasks_n st <= count_smsg (sops_run Sz Hh (net_init n) ops j))%nat /\
     (tasks_n st <= count_dw j ops)%nat /\
     (forall t, In t (s_ready st) -> (task_size t <= 1024)%nat) /\
     (forall k c t, In (k, (c, t)) (s_blocked st) -> (task_size t + 1 <= 1024)%nat /\ k < s_next_call st) /\
     NoDup (map fst (s_blocked st)) /\
     (forall k c, In (KSGet k c) (n_calls nj) ->
        k < s_next_call st /\ forall c' t, In (k, (c', t)) (s_blocked st) -> c' = c)) /\
    s_panic st = false.
  Proof.
    intros Hg s j nj Hj st.
    pose proof (reachable_ok Sz Hh HSz n ops Hg) as Hok. fold s in Hok.
    pose proof (no_nodes Sz Hh s Hok j nj Hj) as Hn. destruct Hn as [_ _ _ _ _ _ Hsv Hsw _ _ Hag].
    destruct Hsv as (HI & HBK & Hp & _). fold st in HI, HBK, Hp, Hsw.
    pose proof HI as ((Hk & Hs) & (Htk & Htl) & HL).
    assert (Hlenw : (length (s_wants st) <= npeers s j)%nat).
    { unfold npeers. rewrite <- (map_length fst (s_wants st)). apply NoDup_incl_length; [exact Hk|].
      intros p Hp'. apply (peers_of_In s j p Hok). apply Hsw, Hp'. }
    split; [|split; [|split; [|exact Hp]]].
    - split; [exact Hk|]. split; [exact Hsw|]. split; [|exact Hlenw].
      intros p ws Hl. destruct (Hs _ _ Hl) as [H1 H2]. split; [exact H1|]. split; [exact H2|].
      apply Hsw. apply (alookup_Some_key N.eqb Neqb_spec) in Hl. exact Hl.
    - split; [exact Htk|]. split; [|split; [apply regs_eq_wants, HI|]].
      + intros c l Hl. destruct (Htl _ _ Hl) as [H1 H2]. split; [exact H1|]. split; [exact H2|].
        intros p Hp'. assert (Hx : waitsP (s_waiting st) p c) by (exists l; auto). apply HL in Hx. destruct Hx as (ws & Hw1 & Hw2).
        split; [|eauto]. apply Hsw. apply (alookup_Some_key N.eqb Neqb_spec) in Hw1. exact Hw1.
      + pose proof (Inv_wants_total st HI). nia.
    - destruct (C07_net_only_wanted Sz Hh HSz n ops Hg) as [Hex _]. specialize (Hex j nj Hj). fold st in Hex.
      destruct (srun_from_TS Sz (sops_run Sz Hh (net_init n) ops j) sinit sinit_inv TS_init) as [HT Hn].
      unfold srun_l in Hex. rewrite <- Hex in HT, Hn. change (tasks_n sinit) with O in Hn.
      split; [lia|]. split; [pose proof (sops_run_smsg ops (net_init n) j); lia|]. destruct HT as [HT1 HT2]. split; [exact HT1|].
      destruct HBK as [Hb1 Hb2]. split; [|split; [exact Hb1 | exact Hag]].
      intros k c t Hin. split; [eapply HT2, Hin|]. apply Hb2. apply in_map_iff. exists (k, (c, t)). auto.
  Qed.
End NetServerBounds.
