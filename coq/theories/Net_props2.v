(* Net_props2.v — package G: network-level theorems restated from Net_proofs14..; closed by `exact`; non-vacuity examples
   by vm_compute. *)
From BS Require Import Net Net_proofs Net_proofs2 Net_proofs5 Net_proofs7 Net_proofs9 Net_proofs10 Net_proofs13 Net_props
  Net_proofs14 Net_proofs15 Net_proofs16 Net_proofs17 Net_proofs18 Net_proofs19 Net_proofs20 Net_proofs21 Net_proofs22 Server Server_inv.
From Coq Require Import ZArith Lia.
Open Scope N_scope.

(* C14_records_sound — the converse of C14_records_agree_partial AFTER a refresh.  Setting as in Net_props: Sz >= 32, the
   same multihasher table everywhere, any net reached from `net_init n` by any steps `ops` whose NPut blocks hash to
   their CID and whose NGet CIDs are well formed.  Node i connected to node j.  `settle`, then one refresh (30 s, `settle`
   again), both quiet, i wants at most 1024 CIDs at the first quiet state.  Then every CID in the want set that j's server
   keeps for i is in i's wantlist.  (Without the refresh this is false: Net_props.C14_records_sound_refuted.) *)
Theorem C14_records_sound (Sz : N) (Hh : hash_fn) (HSz : 32 <= Sz) (i j : N) n ops :
  Forall (nop_good Sz Hh) ops -> Forall (nop_wf Sz) ops ->
  let s := fst (nrun Sz Hh (net_init n) ops) in
  Net.connected s i j = true ->
  let r1 := settle Sz Hh s in
  let r2 := refresh Sz Hh (fst r1) in
  quietb (fst r1) = true -> quietb (fst r2) = true -> (length (wl_i i (fst r1)) <= 1024)%nat ->
  forall c st, server_of (fst r2) j = Some st -> wantsP (s_wants st) i c -> In c (wl_i i (fst r2)).
Proof. exact (Net_proofs18.C14_records_sound Sz Hh HSz i j n ops). Qed.

(* C14_records_equal — both inclusions: "whenever two beetswap nodes have nothing in flight between them, the serving side's
   record of the requester's wants equals the requester's live wants, at the latest after the next wantlist refresh". *)
Theorem C14_records_equal (Sz : N) (Hh : hash_fn) (HSz : 32 <= Sz) (i j : N) n ops :
  Forall (nop_good Sz Hh) ops -> Forall (nop_wf Sz) ops ->
  let s := fst (nrun Sz Hh (net_init n) ops) in
  Net.connected s i j = true ->
  let r1 := settle Sz Hh s in
  let r2 := refresh Sz Hh (fst r1) in
  quietb (fst r1) = true -> quietb (fst r2) = true -> (length (wl_i i (fst r1)) <= 1024)%nat ->
  forall c, In c (wl_i i (fst r2)) <-> (exists st, server_of (fst r2) j = Some st /\ wantsP (s_wants st) i c).
Proof. exact (Net_proofs18.C14_records_equal Sz Hh HSz i j n ops). Qed.

(* the bookkeeping invariant behind it, for every reachable net: a per-peer record whose synced revision equals the
   wantlist's revision holds only CIDs of the wantlist *)
Theorem C14_reachable_rv (Sz : N) (Hh : hash_fn) (HSz : 32 <= Sz) n ops :
  Forall (nop_good Sz Hh) ops -> Forall (nop_wf Sz) ops -> net_rv (fst (nrun Sz Hh (net_init n) ops)).
Proof. intros Hg Hw. apply (net_rv_run Sz Hh HSz); [exact Hg | exact Hw | apply net_ok_init; exact HSz | apply net_rv_init]. Qed.

(* non-vacuity 1: the witness of C14_records_sound_refuted (a stale want of node 0 at node 1 at a quiet state): all the
   hypotheses hold, the stale want is there after `settle`, and after the refresh the two sets are equal (both empty). *)
Example C14_records_sound_nonvacuous_stale :
  let s := fst (nrun SZ toyH (net_init 2) stale_ops) in
  let r1 := settle SZ toyH s in let r2 := refresh SZ toyH (fst r1) in
  Forall (nop_good SZ toyH) stale_ops /\ Forall (nop_wf SZ) stale_ops /\ Net.connected s 0 1 = true /\
  quietb (fst r1) = true /\ quietb (fst r2) = true /\ (length (wl_i 0 (fst r1)) <= 1024)%nat /\
  wl_i 0 (fst r1) = [] /\ option_map s_wants (server_of (fst r1) 1) = Some [(0, [c1])] /\
  wl_i 0 (fst r2) = [] /\ option_map s_wants (server_of (fst r2) 1) = Some [(0, [])].
Proof.
  cbn zeta. repeat match goal with |- _ /\ _ => split end.
  - unfold stale_ops. constructor; [split; [apply c1_wf | vm_compute; reflexivity]|]. do 20 (constructor; [exact I|]). constructor.
  - unfold stale_ops. do 2 (constructor; [exact I|]). constructor; [apply c1_wf|]. do 11 (constructor; [exact I|]).
    constructor; [apply c1_wf|]. do 6 (constructor; [exact I|]). constructor.
  - vm_compute. reflexivity.
  - vm_compute. reflexivity.
  - vm_compute. reflexivity.
  - vm_compute. lia.
  - vm_compute. reflexivity.
  - vm_compute. reflexivity.
  - vm_compute. reflexivity.
  - vm_compute. reflexivity.
Qed.

(* non-vacuity 2: a want that stays: node 0 asks node 1 for a block nobody has; after settle + refresh both sets are {c1}
   (ex_rec_ops of Net_props) *)
Example C14_records_equal_nonvacuous :
  let s := fst (nrun SZ toyH (net_init 2) ex_rec_ops) in
  let r1 := settle SZ toyH s in let r2 := refresh SZ toyH (fst r1) in
  Forall (nop_good SZ toyH) ex_rec_ops /\ Forall (nop_wf SZ) ex_rec_ops /\ Net.connected s 0 1 = true /\
  quietb (fst r1) = true /\ quietb (fst r2) = true /\ (length (wl_i 0 (fst r1)) <= 1024)%nat /\
  wl_i 0 (fst r2) = [c1] /\ option_map s_wants (server_of (fst r2) 1) = Some [(0, [c1])].
Proof. exact C14_records_nonvacuous. Qed.

(* non-vacuity 3: three nodes, the block arrives from a THIRD node during the refresh round: node 0 asks 1 and 2 for c1,
   nobody has it; the application puts it into 2's store behind beetswap's back; the refresh makes 2 serve it; node 0 then
   CANCELs at node 1: at the quiet end node 1's want set for node 0 is empty again. *)
Definition third_ops : list nop := [NConnect 0 1; NConnect 0 2; NGet 0 c1].
Example C14_records_sound_nonvacuous_third :
  let s0 := fst (settle SZ toyH (fst (nrun SZ toyH (net_init 3) third_ops))) in
  let ops := third_ops in
  let s := fst (nrun SZ toyH s0 [NPut 2 c1 d1]) in
  let r1 := settle SZ toyH s in let r2 := refresh SZ toyH (fst r1) in
  option_map s_wants (server_of (fst r1) 1) = Some [(0, [c1])] /\ wl_i 0 (fst r1) = [c1] /\
  quietb (fst r1) = true /\ quietb (fst r2) = true /\
  snd r2 = [EResponse 0 0 d1] /\
  wl_i 0 (fst r2) = [] /\ option_map s_wants (server_of (fst r2) 1) = Some [(0, [])].
Proof. cbn zeta. repeat match goal with |- _ /\ _ => split end; vm_compute; reflexivity. Qed.

(* C01_net_store_integrity — for every reachable net (same setting):
   (1) every block (c, d) in the blockstore of any node: c is a well-formed CID and d hashes to c (`valid_block`:
       rebuilding the CID from c's prefix and the data gives c);
   (2) the same for every block of a `put_many` the client of a node has started and that has not completed
       ("every block the node writes to its blockstore on behalf of the network is keyed by the CID recomputed from
       its bytes": such a write only carries blocks accepted from messages, which were rebuilt from their bytes);
   (3) every GetQueryResponse(q, d) event of node i: the q-th `get` of node i in the history (`gets_of i ops`; query
       numbers are issued in order) asked for a CID c, and d hashes to c — whether the answer came from a peer's block
       or from the node's own store. *)
Theorem C01_net_store_integrity (Sz : N) (Hh : hash_fn) (HSz : 32 <= Sz) n ops :
  Forall (nop_good Sz Hh) ops -> Forall (nop_wf Sz) ops ->
  let r := nrun Sz Hh (net_init n) ops in
  (forall i nd c d, get_node (fst r) i = Some nd -> In (c, d) (n_store nd) -> wf_cid Sz c /\ valid_block Sz Hh c d = true) /\
  (forall i nd m bl c d, get_node (fst r) i = Some nd -> In (KCPut m bl) (n_calls nd) -> In (c, d) bl ->
                         wf_cid Sz c /\ valid_block Sz Hh c d = true) /\
  (forall i q d, In (EResponse i q d) (snd r) ->
     exists c, nth_error (gets_of i ops) (N.to_nat q) = Some c /\ wf_cid Sz c /\ valid_block Sz Hh c d = true).
Proof. exact (Net_proofs20.C01_net_store_integrity Sz Hh HSz n ops). Qed.

(* non-vacuity: the run of Net_props.stale_ops followed by one poll of node 0: node 0 asked twice for c1 (queries 0 and 1),
   query 1 is answered with d1 (a block from node 1), and node 0 has a put of that block under way (store call 2). *)
Definition c01_ops : list nop := stale_ops ++ [NPoll 0].
Example C01_nonvacuous :
  let r := nrun SZ toyH (net_init 2) c01_ops in
  snd r = [EResponse 0 1 d1] /\ gets_of 0 c01_ops = [c1; c1] /\ valid_block SZ toyH c1 d1 = true /\
  option_map n_calls (get_node (fst r) 0) = Some [KCPut 2 [(c1, d1)]].
Proof. cbn zeta. repeat split; vm_compute; reflexivity. Qed.

(* C07_net_only_wanted.  Ghost: `sops_run Sz Hh s0 ops j` = the operations the SERVER half of node j received during the
   run `ops` from s0, computed step by step from the state before each step (Net_proofs21.srv_ops): SNewConn/SDisconnected
   for (dis)connections, `SMsg a w order` for every wantlist of a that is DELIVERED to j (NDeliverW a j) — in delivery order
   (lemma srv_ops_msg: the SMsg entries are exactly the delivered wire messages) —, SNewBlocks/SPoll for every poll of j,
   SRelease for every completed lookup.  `sview Sz i hist` (Server.v) is the Bitswap reference view of i's wants folded
   from that history: a full wantlist replaces, a CANCEL removes, a WANT adds (cap 1024), a dispatch to i removes.
   For every net reached from `net_init n` by steps `ops` (NPut blocks good):
   (1) the ghost is exact: j's server state IS the server model run on its ghost;
   (2) every block batch in flight from j = bm_src m to i = bm_dst m was put on the wire by an `NPoll j` of the history
       (ops = ops1 ++ NPoll j :: ops2), holds no CID twice, and every CID in it was in the reference view of i's wants at
       j just before that poll: i's WANT for it had been delivered to j and no later delivered CANCEL / omitting full
       wantlist / earlier dispatch had removed it — "in the order of delivery at j", not in the order of sending. *)
Theorem C07_net_only_wanted (Sz : N) (Hh : hash_fn) (HSz : 32 <= Sz) n ops :
  Forall (nop_good Sz Hh) ops ->
  let s := fst (nrun Sz Hh (net_init n) ops) in
  (forall j nj, get_node s j = Some nj -> n_server nj = snd (srun_l Sz (sops_run Sz Hh (net_init n) ops j))) /\
  (forall m, In m (wire_b s) ->
     exists ops1 ops2, ops = ops1 ++ NPoll (bm_src m) :: ops2 /\ NoDup (map fst (bm_blocks m)) /\
       forall c, In c (map fst (bm_blocks m)) ->
         exists view, sview Sz (bm_dst m) (fst (srun_l Sz (sops_run Sz Hh (net_init n) ops1 (bm_src m)))) = Some view /\ In c view).
Proof. exact (Net_proofs21.C07_net_only_wanted Sz Hh HSz n ops). Qed.

(* non-vacuity: node 0 asks node 1 (which holds c1): after node 1's lookup completed, its poll dispatches the block: the batch
   is on the wire, c1 was in the reference view before that poll and is not after it *)
Definition c07_ops1 : list nop :=
  [NPut 1 c1 d1; NConnect 0 1; NGet 0 c1; NPoll 0; NStore 0 0; NDeliverW 0 1; NPoll 0; NDeliverW 0 1; NPoll 1; NStore 1 0].
Example C07_nonvacuous :
  wire_b (fst (nrun SZ toyH (net_init 2) (c07_ops1 ++ [NPoll 1]))) = [MkB 1 0 [(c1, d1)]] /\
  sview SZ 0 (fst (srun_l SZ (sops_run SZ toyH (net_init 2) c07_ops1 1))) = Some [c1] /\
  sview SZ 0 (fst (srun_l SZ (sops_run SZ toyH (net_init 2) (c07_ops1 ++ [NPoll 1]) 1))) = Some [].
Proof. repeat split; vm_compute; reflexivity. Qed.

(* settle_terminates — NOT proved (see the report).  What is proved about `settle` and `quietb`:
   settle_terminates_partial: a quiet net stays quiet under a further fair round and the round is silent (no event, and — by
   quietness of the result — nothing on a wire, no store call, no queued work): `quietb` is a genuine "nothing left to do"
   (Net.v claimed it in a comment only), and a quiet result of `settle` is a fixpoint of `settle`. *)
Theorem settle_terminates_partial (Sz : N) (Hh : hash_fn) (HSz : 32 <= Sz) s :
  net_ok Sz Hh s -> quietb s = true ->
  quietb (fst (round Sz Hh s)) = true /\ snd (round Sz Hh s) = [] /\ settle Sz Hh s = (s, []).
Proof.
  intros Hok Hq. destruct (quiet_round_stable Sz Hh HSz s Hok Hq) as [H1 H2]. split; [exact H1|]. split; [exact H2|].
  apply settle_loop_quiet, Hq.
Qed.

Example settle_partial_nonvacuous :
  let s := fst (settle SZ toyH (fst (nrun SZ toyH (net_init 2) ex_rec_ops))) in
  quietb s = true /\ wl_i 0 s = [c1] /\ fst (round SZ toyH s) = s.
Proof. cbn zeta. repeat match goal with |- _ /\ _ => split end; vm_compute; reflexivity. Qed.

Print Assumptions C14_records_sound.
Print Assumptions C14_records_equal.
Print Assumptions C14_reachable_rv.
Print Assumptions C14_records_sound_nonvacuous_stale.
Print Assumptions C14_records_equal_nonvacuous.
Print Assumptions C14_records_sound_nonvacuous_third.
Print Assumptions C01_net_store_integrity.
Print Assumptions C01_nonvacuous.
Print Assumptions C07_net_only_wanted.
Print Assumptions C07_nonvacuous.
Print Assumptions settle_terminates_partial.
Print Assumptions settle_partial_nonvacuous.
